package apph

import (
	"bytes"
	"crypto/sha256"
	"encoding/hex"
	"fmt"
	"math/big"
	"sort"
	"time"

	"github.com/Oneledger/protocol/action"
	ethcrypto "github.com/ethereum/go-ethereum/crypto"

	aeth "github.com/Oneledger/protocol/action/eth"
	aevid "github.com/Oneledger/protocol/action/evidence"
	agov "github.com/Oneledger/protocol/action/governance"
	adeleg "github.com/Oneledger/protocol/action/network_delegation"
	aons "github.com/Oneledger/protocol/action/ons"
	arew "github.com/Oneledger/protocol/action/rewards"
	"github.com/Oneledger/protocol/action/staking"
	"github.com/Oneledger/protocol/action/transfer"
	"github.com/Oneledger/protocol/data/balance"
	"github.com/Oneledger/protocol/data/governance"
	"github.com/Oneledger/protocol/data/keys"
	"github.com/Oneledger/protocol/data/ons"

	"olverif/harness/rng"
)

// GenTx is a generated transaction with what the generator intended.
type GenTx struct {
	Kind   string
	Note   string // e.g. "valid", "low-gas", "insufficient", "wrong-signer", "stranger"
	Bytes  []byte
	Signer []keys.Address
}

// Gen is the state-aware transaction generator ("safe" profile: nothing here is meant to
// crash the process; hostile inputs live in the C18 child-process engine).
type Gen struct {
	W         *World
	R         *rng.R
	Height    int64 // height of the block being generated
	memo      int
	Proposals []*genProposal
	Domains   []*genDomain
	Requests  []string // allegation request ids
	Staked    map[int]bool
	Delegated map[int]bool
	Kinds     map[string]int
	EthExts   []*genExt // external Ethereum transactions submitted so far (only when the genesis has an ETH option)
	ethNonce  uint64
	olvmNonce map[int]uint64 // next nonce per Ethereum-keyed account, as far as the generator can tell
	olvmCodes []keys.Address // addresses at which the generator believes it has created a contract
	olvmAfter int            // 1+index of the sender whose next transaction follows a rejected one at once, 0 = none
	Bids      []*genBid      // bid conversations the generator believes it has opened (bid.go)
	Now       time.Time      // header time of the last executed block, when the engine tells (zero: unknown; deadlines are then drawn from the height)
}

// genExt is one submitted Ethereum-side transaction and who has reported on it.
type genExt struct {
	X         *extTx
	Submitter *Acct
	Voted     map[int]bool
}

type genProposal struct {
	ID       governance.ProposalID
	Type     governance.ProposalType
	Proposer *Acct
	Created  int64
	FundDL   int64
	VoteDL   int64
	Funders  []*Acct
	Funded   int64
	Voted    map[int]bool
}

type genDomain struct {
	Name  string
	Owner *Acct
}

func NewGen(w *World, r *rng.R) *Gen {
	g := &Gen{W: w, R: r, Staked: map[int]bool{}, Delegated: map[int]bool{}, Kinds: map[string]int{}}
	for i, v := range w.Vals {
		if v.Genesis {
			g.Staked[i] = true
		}
	}
	return g
}

func (g *Gen) nextMemo() string {
	g.memo++
	return fmt.Sprintf("m%d-%d", g.Height, g.memo)
}

func (g *Gen) acct() *Acct { return g.W.Accts[g.R.Intn(len(g.W.Accts))] }

func (g *Gen) fee(note *string) action.Fee {
	f := DefaultFee()
	switch g.R.Intn(40) {
	case 0:
		f.Gas = 10 // gas overflow in the fee step, after the handler succeeded
		*note = "low-gas"
	case 1:
		f.Gas = 30000
	}
	return f
}

func (g *Gen) mk(kind, note string, msg action.Msg, signers ...*Acct) GenTx {
	f := g.fee(&note)
	raw := RawOf(msg, f, g.nextMemo())
	var sa []keys.Address
	for _, s := range signers {
		sa = append(sa, s.Addr)
	}
	g.Kinds[kind]++
	return GenTx{Kind: kind, Note: note, Bytes: Sign(raw, signers...), Signer: sa}
}

func pid(s string) governance.ProposalID {
	h := sha256.Sum256([]byte(s))
	return governance.ProposalID(hex.EncodeToString(h[:]))
}

// Weights select which families of transactions a history uses.
type Weights struct {
	Transfer, Staking, Deleg, Rewards, Gov, Evidence, Ons int
	Eth                                                   int // only drawn when the world's genesis carries an ETH chain-driver option
	Olvm                                                  int // only drawn when the world has Ethereum-keyed accounts and the fork is active
	Bid                                                   int // the bid application of external_apps (offers on ONS names)
}

func AllWeights() Weights { return Weights{10, 8, 10, 4, 12, 6, 10, 14, 22, 12} }

// Next produces one transaction.
func (g *Gen) Next(wt Weights) GenTx {
	tot := wt.Transfer + wt.Staking + wt.Deleg + wt.Rewards + wt.Gov + wt.Evidence + wt.Ons + wt.Bid
	if g.W.P.ETH != nil && g.W.P.Witnesses > 0 && wt.Eth > 0 {
		if g.R.Intn(tot+wt.Eth) >= tot {
			return g.eth()
		}
	}
	if g.W.Olvm != nil && wt.Olvm > 0 && g.Height >= g.W.P.Frankenstein {
		if g.olvmAfter > 0 || g.R.Intn(tot+wt.Olvm) >= tot {
			return g.olvm()
		}
	}
	x := g.R.Intn(tot)
	switch {
	case x < wt.Transfer:
		return g.transfer()
	case x < wt.Transfer+wt.Staking:
		return g.staking()
	case x < wt.Transfer+wt.Staking+wt.Deleg:
		return g.deleg()
	case x < wt.Transfer+wt.Staking+wt.Deleg+wt.Rewards:
		return g.rewards()
	case x < wt.Transfer+wt.Staking+wt.Deleg+wt.Rewards+wt.Gov:
		return g.gov()
	case x < wt.Transfer+wt.Staking+wt.Deleg+wt.Rewards+wt.Gov+wt.Evidence:
		return g.evidence()
	case x < wt.Transfer+wt.Staking+wt.Deleg+wt.Rewards+wt.Gov+wt.Evidence+wt.Ons:
		return g.ons()
	default:
		return g.bid()
	}
}

func (g *Gen) transfer() GenTx {
	a, b := g.acct(), g.acct()
	switch g.R.Intn(10) {
	case 0: // more than the balance
		return g.mk("SEND", "insufficient", &transfer.Send{From: a.Addr, To: b.Addr, Amount: OLT(5000000)}, a)
	case 1: // signed by somebody else
		return g.mk("SEND", "wrong-signer", &transfer.Send{From: a.Addr, To: b.Addr, Amount: OLT(3)}, b)
	case 2:
		return g.mk("SEND", "vt", &transfer.Send{From: a.Addr, To: b.Addr, Amount: action.Amount{Currency: "VT", Value: *balance.NewAmount(int64(1 + g.R.Intn(5)))}}, a)
	case 3, 4:
		pools := []string{"DelegationPool", "RewardsPool", "BountyPool", "FeePool", "NoSuchPool"}
		return g.mk("SENDPOOL", "pool", &transfer.SendPool{From: a.Addr, PoolName: pools[g.R.Intn(len(pools))], Amount: OLT(int64(1 + g.R.Intn(50)))}, a)
	}
	return g.mk("SEND", "valid", &transfer.Send{From: a.Addr, To: b.Addr, Amount: OLT(int64(1 + g.R.Intn(100)))}, a)
}

func (g *Gen) staking() GenTx {
	i := g.R.Intn(len(g.W.Vals))
	v := g.W.Vals[i]
	switch g.R.Intn(6) {
	case 0, 1:
		n := int64(1 + g.R.Intn(12))
		g.Staked[i] = true
		return g.mk("STAKE", "valid", &staking.Stake{ValidatorAddress: v.Key.Addr, StakeAddress: v.Owner.Addr, ValidatorPubKey: v.Key.Pub,
			ValidatorECDSAPubKey: v.EcPub, NodeName: v.Name, Stake: OLTInt(n)}, v.Owner, v.Key)
	case 2, 3:
		n := int64(1 + g.R.Intn(12))
		return g.mk("UNSTAKE", "maybe", &staking.Unstake{ValidatorAddress: v.Key.Addr, StakeAddress: v.Owner.Addr, Stake: OLTInt(n)}, v.Owner, v.Key)
	case 4:
		n := int64(1 + g.R.Intn(6))
		return g.mk("WITHDRAW", "maybe", &staking.Withdraw{ValidatorAddress: v.Key.Addr, StakeAddress: v.Owner.Addr, Stake: OLTInt(n)}, v.Owner, v.Key)
	default: // a stranger tries to unstake somebody else's stake
		s := g.acct()
		return g.mk("UNSTAKE", "stranger", &staking.Unstake{ValidatorAddress: v.Key.Addr, StakeAddress: s.Addr, Stake: OLTInt(1)}, s, v.Key)
	}
}

func (g *Gen) deleg() GenTx {
	i := g.R.Intn(len(g.W.Accts))
	a := g.W.Accts[i]
	switch g.R.Intn(8) {
	case 0, 1, 2:
		g.Delegated[i] = true
		return g.mk("DELEGATE", "valid", &adeleg.AddNetworkDelegation{DelegationAddress: a.Addr, Amount: OLT(int64(10 + g.R.Intn(500)))}, a)
	case 3, 4:
		return g.mk("UNDELEGATE", "maybe", &adeleg.Undelegate{Delegator: a.Addr, Amount: OLT(int64(1 + g.R.Intn(200)))}, a)
	case 5:
		return g.mk("DELEG_WITHDRAW", "maybe", &adeleg.Withdraw{Delegator: a.Addr, Amount: action.Amount{Currency: "OLT", Value: *balance.NewAmount(int64(1 + g.R.Intn(1000000)))}}, a)
	case 6:
		return g.mk("DELEG_REINVEST", "maybe", &adeleg.Reinvest{Delegator: a.Addr, Amount: action.Amount{Currency: "OLT", Value: *balance.NewAmount(int64(1 + g.R.Intn(1000000)))}}, a)
	default:
		return g.mk("UNDELEGATE", "too-much", &adeleg.Undelegate{Delegator: a.Addr, Amount: OLT(90000000)}, a)
	}
}

func (g *Gen) rewards() GenTx {
	v := g.W.Vals[g.R.Intn(len(g.W.Vals))]
	switch g.R.Intn(4) {
	case 0: // stake-address mismatch: fails *after* the store mutation (C06)
		s := g.acct()
		return g.mk("WITHDRAW_REWARD", "not-owner", &arew.Withdraw{ValidatorAddress: v.Key.Addr, SignerAddress: s.Addr,
			WithdrawAmount: action.Amount{Currency: "OLT", Value: *balance.NewAmount(1000)}}, s)
	default:
		return g.mk("WITHDRAW_REWARD", "maybe", &arew.Withdraw{ValidatorAddress: v.Key.Addr, SignerAddress: v.Owner.Addr,
			WithdrawAmount: action.Amount{Currency: "OLT", Value: *balance.NewAmount(int64(1 + g.R.Intn(1000000000)))}}, v.Owner)
	}
}

var govOptionKeys = []string{"feeOption.minFeeDecimal", "onsOptions.perBlockFees", "onsOptions.baseDomainPrice",
	"stakingOptions.minSelfDelegationAmount", "stakingOptions.topValidatorCount", "stakingOptions.maturityTime",
	"propOptions.configUpdate.initialFunding", "propOptions.codeChange.initialFunding", "propOptions.general.initialFunding",
	"propOptions.configUpdate.fundingGoal", "propOptions.codeChange.fundingGoal", "propOptions.general.fundingGoal",
	"propOptions.configUpdate.votingDeadline", "propOptions.codeChange.votingDeadline", "propOptions.general.votingDeadline",
	"propOptions.configUpdate.fundingDeadline", "propOptions.codeChange.fundingDeadline", "propOptions.general.fundingDeadline",
	"propOptions.configUpdate.passPercentage", "propOptions.codeChange.passPercentage", "propOptions.general.passPercentage",
	"evidenceOptions.minVotesRequired", "evidenceOptions.blockVotesDiff", "evidenceOptions.penaltyBasePercentage",
	"evidenceOptions.penaltyPercentage", "propOptions.general.passedFundDistribution"}

var govOptionValues = []string{"0", "1", "-1", "3", "8", "16", "30", "51", "64", "67", "100", "101", "1000", "2000", "75001", "109200", "150000", "468001",
	"1000000000", "3000000000000000000000000", "9223372036854775807", "9223372036854775808", "18446744073709551616", "abc", "", "1.5", "0x10", " 7"}

func (g *Gen) gov() GenTx {
	if len(g.Proposals) == 0 || g.R.Intn(7) == 0 {
		a := g.acct()
		types := []governance.ProposalType{governance.ProposalTypeGeneral, governance.ProposalTypeCodeChange, governance.ProposalTypeConfigUpdate, governance.ProposalTypeConfigUpdate}
		t := types[g.R.Intn(len(types))]
		p := &genProposal{ID: pid(fmt.Sprintf("prop-%d-%d", g.W.P.Seed, len(g.Proposals))), Type: t, Proposer: a, Created: g.Height,
			FundDL: g.Height + g.W.P.FundingDeadline, VoteDL: g.Height + g.W.P.FundingDeadline + g.W.P.VotingDeadline, Voted: map[int]bool{}}
		g.Proposals = append(g.Proposals, p)
		cu := ""
		if t == governance.ProposalTypeConfigUpdate {
			cus := []string{"feeOption.minFeeDecimal:8", "feeOption.minFeeDecimal:18", "onsOptions.perBlockFees:200000000000000", "feeOption.minFeeDecimal:12",
				"onsOptions.baseDomainPrice:500000000000000000000", "stakingOptions.maturityTime:3", "bad"}
			cu = cus[g.R.Intn(len(cus))]
			if g.R.Intn(2) == 0 {
				// every key of the option table (action/govUpdate.go) with values around what its
				// validator admits: the table is consensus code every config proposal runs through
				cu = govOptionKeys[g.R.Intn(len(govOptionKeys))] + ":" + govOptionValues[g.R.Intn(len(govOptionValues))]
			}
		}
		init := int64(1000000000 + g.R.Intn(3)*3000000000)
		p.Funded = init
		return g.mk("PROPOSAL_CREATE", "valid", &agov.CreateProposal{ProposalID: p.ID, ProposalType: t, Headline: "h", Description: "d", Proposer: a.Addr,
			InitialFunding: action.Amount{Currency: "OLT", Value: *balance.NewAmount(init)}, FundingDeadline: p.FundDL,
			FundingGoal: balance.NewAmount(10000000000), VotingDeadline: p.VoteDL, PassPercentage: 51, ConfigUpdate: cu}, a)
	}
	// mostly work on the newest proposals so that lifecycles complete
	p := g.Proposals[len(g.Proposals)-1-g.R.Intn(min(len(g.Proposals), 2))]
	if g.R.Intn(10) < 6 {
		// drive the lifecycle forward
		if p.Funded < 10000000000 {
			a := g.acct()
			p.Funders = append(p.Funders, a)
			v := 10000000000 - p.Funded
			if g.R.Intn(3) == 0 && v > 2000000000 {
				v = 1000000000 * int64(1+g.R.Intn(int(v/1000000000)-1))
			}
			p.Funded += v
			return g.mk("PROPOSAL_FUND", "to-goal", &agov.FundProposal{ProposalId: p.ID, FunderAddress: a.Addr, FundValue: action.Amount{Currency: "OLT", Value: *balance.NewAmount(v)}}, a)
		}
		for i, v := range g.W.Vals {
			if g.Staked[i] && !p.Voted[i] {
				p.Voted[i] = true
				op := governance.OPIN_POSITIVE
				if g.R.Intn(6) == 0 {
					op = governance.OPIN_NEGATIVE
				}
				return g.mk("PROPOSAL_VOTE", "lifecycle", &agov.VoteProposal{ProposalID: p.ID, Address: v.Owner.Addr, ValidatorAddress: v.Key.Addr, Opinion: op}, v.Owner, v.Key)
			}
		}
	}
	switch g.R.Intn(12) {
	case 0, 1, 2:
		a := g.acct()
		p.Funders = append(p.Funders, a)
		v := int64(1000000000 * int64(1+g.R.Intn(9)))
		p.Funded += v
		return g.mk("PROPOSAL_FUND", "valid", &agov.FundProposal{ProposalId: p.ID, FunderAddress: a.Addr, FundValue: action.Amount{Currency: "OLT", Value: *balance.NewAmount(v)}}, a)
	case 3, 4, 5, 6:
		v := g.W.Vals[g.R.Intn(len(g.W.Vals))]
		ops := []governance.VoteOpinion{governance.OPIN_POSITIVE, governance.OPIN_POSITIVE, governance.OPIN_NEGATIVE, governance.OPIN_GIVEUP}
		return g.mk("PROPOSAL_VOTE", "maybe", &agov.VoteProposal{ProposalID: p.ID, Address: v.Owner.Addr, ValidatorAddress: v.Key.Addr, Opinion: ops[g.R.Intn(len(ops))]}, v.Owner, v.Key)
	case 7:
		return g.mk("PROPOSAL_CANCEL", "maybe", &agov.CancelProposal{ProposalId: p.ID, Proposer: p.Proposer.Addr, Reason: "r"}, p.Proposer)
	case 8, 9:
		f := p.Proposer
		if len(p.Funders) > 0 && g.R.Bool() {
			f = p.Funders[g.R.Intn(len(p.Funders))]
		}
		return g.mk("PROPOSAL_WITHDRAW_FUNDS", "maybe", &agov.WithdrawFunds{ProposalID: p.ID, Funder: f.Addr,
			WithdrawValue: action.Amount{Currency: "OLT", Value: *balance.NewAmount(int64(1000000000 * int64(1+g.R.Intn(3))))}, Beneficiary: f.Addr}, f)
	case 10:
		a := g.acct()
		return g.mk("EXPIRE_VOTES", "outsider", &agov.ExpireVotes{ProposalID: p.ID, ValidatorAddress: a.Addr}, a)
	default:
		return g.FinalizeAny()
	}
}

// FinalizeAny is a PROPOSAL_FINALIZE for a recent proposal sent by an ordinary account (the kind
// is on the public router and its fee step charges nothing).
func (g *Gen) FinalizeAny() GenTx {
	if len(g.Proposals) == 0 {
		return g.transfer()
	}
	p := g.Proposals[len(g.Proposals)-1-g.R.Intn(min(len(g.Proposals), 3))]
	a := g.acct()
	return g.mk("PROPOSAL_FINALIZE", "outsider", &agov.FinalizeProposal{ProposalID: p.ID, ValidatorAddress: a.Addr}, a)
}

func (g *Gen) evidence() GenTx {
	vi := g.R.Intn(len(g.W.Vals))
	v := g.W.Vals[vi]
	if len(g.Requests) == 0 || g.R.Intn(4) == 0 {
		m := g.W.Vals[g.R.Intn(len(g.W.Vals))]
		id := fmt.Sprintf("req-%d-%d", g.W.P.Seed, len(g.Requests))
		g.Requests = append(g.Requests, id)
		return g.mk("ALLEGATION", "maybe", &aevid.Allegation{RequestID: id, ValidatorAddress: v.Key.Addr, MaliciousAddress: m.Key.Addr, BlockHeight: g.Height - 1, ProofMsg: "p"}, v.Key)
	}
	id := g.Requests[g.R.Intn(len(g.Requests))]
	switch g.R.Intn(8) {
	case 0:
		return g.mk("RELEASE", "maybe", &aevid.Release{ValidatorAddress: v.Key.Addr}, v.Key)
	case 1:
		s := g.acct()
		return g.mk("ALLEGATION_VOTE", "outsider", &aevid.AllegationVote{RequestID: id, Address: s.Addr, Choice: 1}, s)
	default:
		return g.mk("ALLEGATION_VOTE", "maybe", &aevid.AllegationVote{RequestID: id, Address: v.Key.Addr, Choice: int8(1 + g.R.Intn(2))}, v.Key)
	}
}

func (g *Gen) ons() GenTx {
	if len(g.Domains) == 0 || g.R.Intn(5) == 0 {
		a := g.acct()
		name := fmt.Sprintf("d%d.ol", len(g.Domains))
		if len(g.Domains) > 0 && g.R.Intn(3) == 0 {
			par := g.Domains[g.R.Intn(len(g.Domains))]
			name = fmt.Sprintf("s%d.%s", len(g.Domains), par.Name)
			if g.R.Bool() {
				a = par.Owner
			}
		}
		g.Domains = append(g.Domains, &genDomain{Name: name, Owner: a})
		return g.mk("DOMAIN_CREATE", "valid", &aons.DomainCreate{Owner: a.Addr, Beneficiary: a.Addr, Name: ons.Name(name), Uri: "", BuyingPrice: OLT(int64(1001 + g.R.Intn(20)))}, a)
	}
	d := g.Domains[g.R.Intn(len(g.Domains))]
	who := d.Owner
	note := "owner"
	if g.R.Intn(4) == 0 {
		who = g.acct()
		note = "maybe-stranger"
	}
	switch g.R.Intn(7) {
	case 0:
		b := g.acct()
		return g.mk("DOMAIN_UPDATE", note, &aons.DomainUpdate{Owner: who.Addr, Beneficiary: b.Addr, Name: ons.Name(d.Name), Active: g.R.Bool(), Uri: ""}, who)
	case 1:
		return g.mk("DOMAIN_SELL", note, &aons.DomainSale{Name: ons.Name(d.Name), OwnerAddress: who.Addr, Price: OLT(int64(1 + g.R.Intn(30))), CancelSale: g.R.Intn(4) == 0}, who)
	case 2, 3:
		b := g.acct()
		return g.mk("DOMAIN_PURCHASE", "maybe", &aons.DomainPurchase{Name: ons.Name(d.Name), Buyer: b.Addr, Account: b.Addr, Offering: OLT(int64(1 + g.R.Intn(1100)))}, b)
	case 4:
		s := g.acct()
		return g.mk("DOMAIN_SEND", "maybe", &aons.DomainSend{From: s.Addr, Name: ons.Name(d.Name), Amount: OLT(int64(1 + g.R.Intn(20)))}, s)
	case 5:
		return g.mk("DOMAIN_RENEW", note, &aons.RenewDomain{Owner: who.Addr, Name: ons.Name(d.Name), BuyingPrice: OLT(int64(1 + g.R.Intn(20)))}, who)
	default:
		return g.mk("DOMAIN_DELETE_SUB", note, &aons.DeleteSub{Name: ons.Name(d.Name), Owner: who.Addr}, who)
	}
}

// ethWitnesses returns the genesis witnesses in the order of the tracker's witness list
// (GetWitnessAddresses iterates the witness store, i.e. sorted by address).
func (g *Gen) ethWitnesses() []*Val {
	var ws []*Val
	for i, v := range g.W.Vals {
		if v.Genesis && i < g.W.P.Witnesses {
			ws = append(ws, v)
		}
	}
	sort.Slice(ws, func(i, j int) bool { return bytes.Compare(ws[i].Key.Addr, ws[j].Key.Addr) < 0 })
	return ws
}

// eth produces Ethereum lock / redeem submissions and witness finality reports: the traffic that
// drives the tracker state machine of the block-end hook (event/ transitions, role dependent).
func (g *Gen) eth() GenTx {
	ws := g.ethWitnesses()
	if len(g.EthExts) == 0 || g.R.Intn(10) < 3 {
		kind := []int{1, 1, 1, 3, 3, 2, 4}[g.R.Intn(7)]
		who := g.acct()
		g.ethNonce++
		x := buildExt(g.W.P.Seed, g.ethNonce, kind, 0, big.NewInt(int64(1+g.R.Intn(40))), false)
		var msg action.Msg
		name := map[int]string{1: "ETH_LOCK", 2: "ETH_REDEEM", 3: "ERC20_LOCK", 4: "ERC20_REDEEM"}[kind]
		switch kind {
		case 1:
			msg = &aeth.Lock{Locker: who.Addr, ETHTxn: x.Raw}
		case 2:
			msg = &aeth.Redeem{Owner: who.Addr, To: ethContractAddr, ETHTxn: x.Raw}
		case 3:
			msg = &aeth.ERC20Lock{Locker: who.Addr, ETHTxn: x.Raw}
		default:
			msg = &aeth.ERC20Redeem{Owner: who.Addr, To: ethERCAddr, ETHTxn: x.Raw}
		}
		g.EthExts = append(g.EthExts, &genExt{X: x, Submitter: who, Voted: map[int]bool{}})
		return g.mk(name, "submit", msg, who)
	}
	// a report: prefer recent submissions and witnesses that have not voted yet
	e := g.EthExts[len(g.EthExts)-1-g.R.Intn(minInt(len(g.EthExts), 3))]
	if g.R.Intn(12) == 0 {
		// resubmission of a known external transaction
		var msg action.Msg = &aeth.Lock{Locker: e.Submitter.Addr, ETHTxn: e.X.Raw}
		if e.X.Kind == 3 {
			msg = &aeth.ERC20Lock{Locker: e.Submitter.Addr, ETHTxn: e.X.Raw}
		}
		return g.mk("ETH_RESUBMIT", "duplicate", msg, e.Submitter)
	}
	idx := g.R.Intn(len(ws))
	for k := 0; k < len(ws); k++ {
		if !e.Voted[(idx+k)%len(ws)] {
			idx = (idx + k) % len(ws)
			break
		}
	}
	note := "witness"
	signer := ws[idx].Key
	vi := int64(idx)
	switch g.R.Intn(16) {
	case 0:
		signer, note = g.acct(), "non-witness"
	case 1:
		vi, note = int64(g.R.Intn(len(ws)+2)), "other-index"
	}
	ok := g.R.Intn(7) != 0
	if note == "witness" {
		e.Voted[idx] = true
	}
	msg := &aeth.ReportFinality{TrackerName: e.X.NameB, Locker: e.Submitter.Addr, ValidatorAddress: signer.Addr, VoteIndex: vi, Success: ok}
	return g.mk("ETH_REPORT", note, msg, signer)
}

func minInt(a, b int) int {
	if a < b {
		return a
	}
	return b
}

// olvm produces OLVM transactions of the Ethereum-keyed accounts: plain transfers (also to
// native-keyed accounts), contract creations (a storing contract, a reverting one, one that burns
// its gas, one that self-destructs), calls of the created contracts, and refused variants (gas
// below the intrinsic gas, a memo that is not the nonce, more value than the account holds, a
// signature of another key). The generator does not see results, so its nonces are a guess; a
// nonce above the state nonce is executed all the same.
func (g *Gen) olvm() GenTx {
	ow := g.W.Olvm
	if g.olvmNonce == nil {
		g.olvmNonce = map[int]uint64{}
	}
	i := g.R.Intn(len(ow.Eth))
	follow := g.olvmAfter > 0
	if follow {
		// a transaction the state transition rejected after it had bought its gas is followed at
		// once by a good one of the same sender: nothing of the first may be left in the EVM's
		// object cache for the second to build on
		i, g.olvmAfter = g.olvmAfter-1, 0
	}
	from := ow.Eth[i]
	nonce := g.olvmNonce[i]
	price := big.NewInt(10000000000)
	mk := func(kind, note string, to *keys.Address, value int64, data []byte, gas int64, tw OlvmTweak, bump bool) GenTx {
		g.Kinds[kind]++
		if bump {
			g.olvmNonce[i] = nonce + 1
		}
		return GenTx{Kind: kind, Note: note, Bytes: ow.OlvmTx(from, to, nonce, big.NewInt(value), data, gas, price, tw), Signer: []keys.Address{from.Addr}}
	}
	target := func() *keys.Address {
		var a keys.Address
		switch g.R.Intn(4) {
		case 0:
			a = g.acct().Addr
		case 1:
			if len(g.olvmCodes) > 0 {
				a = g.olvmCodes[g.R.Intn(len(g.olvmCodes))]
				break
			}
			fallthrough
		default:
			a = ow.Eth[g.R.Intn(len(ow.Eth))].Addr
		}
		return &a
	}
	if follow {
		return mk("OLVM_SEND", "valid-after-rejected", target(), int64(1+g.R.Intn(1000)), nil, 21000, OlvmTweak{}, true)
	}
	switch x := g.R.Intn(20); {
	case x < 6:
		return mk("OLVM_SEND", "valid", target(), int64(1+g.R.Intn(1000)), nil, 21000+int64(g.R.Intn(3))*10000, OlvmTweak{}, true)
	case x < 9:
		codes := [][]byte{CodeStore42(), initCode(rtRevert()), initCode(rtLoop()), initCode(rtPayback()), initCode(rtDestruct(ow.Eth[0].Addr))}
		c := codes[g.R.Intn(len(codes))]
		g.olvmCodes = append(g.olvmCodes, keys.Address(ethcrypto.CreateAddress(from.Eth(), nonce).Bytes()))
		return mk("OLVM_CREATE", "valid", nil, int64(g.R.Intn(2)), c, 200000, OlvmTweak{}, true)
	case x < 14 && len(g.olvmCodes) > 0:
		to := g.olvmCodes[g.R.Intn(len(g.olvmCodes))]
		var data []byte
		if g.R.Bool() {
			data = []byte{1}
		}
		return mk("OLVM_CALL", "valid", &to, int64(g.R.Intn(50)), data, 60000+int64(g.R.Intn(3))*20000, OlvmTweak{}, true)
	case x < 15:
		return mk("OLVM_SEND", "low-gas", target(), 1, nil, 20000, OlvmTweak{}, false)
	case x < 16:
		m := fmt.Sprintf("0%d", nonce)
		return mk("OLVM_SEND", "memo-not-nonce", target(), 1, nil, 21000, OlvmTweak{Memo: &m}, false)
	case x < 17:
		return mk("OLVM_SEND", "more-than-balance", target(), 1, nil, 21000, OlvmTweak{SignKey: ow.Eth[(i+1)%len(ow.Eth)]}, false)
	case x < 18:
		// all the account holds, or more: the gas can be bought, the value cannot be paid on top
		// (rejected by the state transition itself, after buyGas)
		if g.R.Bool() {
			g.olvmAfter = i + 1
		}
		g.Kinds["OLVM_SEND"]++
		funds := oltUnits(g.W.P.AcctFunds)
		twice := new(big.Int).Mul(funds.BigInt(), big.NewInt(2))
		return GenTx{Kind: "OLVM_SEND", Note: "value-above-balance", Bytes: ow.OlvmTx(from, target(), nonce, twice, nil, 21000, price, OlvmTweak{}), Signer: []keys.Address{from.Addr}}
	default:
		// out of gas in a call: executed, reverted, all gas charged
		to := ow.Eth[g.R.Intn(len(ow.Eth))].Addr
		if len(g.olvmCodes) > 0 {
			to = g.olvmCodes[g.R.Intn(len(g.olvmCodes))]
		}
		return mk("OLVM_CALL", "tight-gas", &to, 0, []byte{1, 2, 3}, 21100+int64(g.R.Intn(400)), OlvmTweak{}, true)
	}
}

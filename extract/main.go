// olx — fact extractor (tie T3): loads /repo's current working tree with go/packages + go/types
// and regenerates /verif/lean/OLP/Gen/Facts.lean, tables of structural facts over which the
// Lean side discharges obligations by `decide`:
//
//	hookAims       every use of a singleton store inside the block hooks of package app, in source
//	               order, with whether it is re-aimed (`.WithState(...)`) at that point
//	sessionRule    the commit/discard discipline of txDeliverer / txChecker
//	mapRanges      every `range` over a map in the consensus packages (function, expression,
//	               whether a sort call follows in the same function, whether the body writes)
//	envUses        uses of clock / randomness / uuid / environment / node identity / witness flag
//	volatileSets   calls that overwrite in-memory option copies of singleton stores
//	fatalSites     Fatal / panic / os.Exit call sites in the consensus packages
//	signerRows     for every message type: fields returned by Signers()
//	validateRows   (C04) for every type implementing action.Tx: how its Validate treats signatures
//	               (basic = Unmarshal(tx.Data) then action.ValidateBasic(tx.RawBytes(), msg.Signers(),
//	               tx.Signatures) with failure returned, before any `return true`), and whether every
//	               return is (false, non-nil) or (true, nil)
//	routeRows      (C04) every AddHandler registration / common.ExtTx literal: kind, handler type
//	validateGuards (C04) how txChecker / txDeliverer react to a failing Validate
package main

import (
	"bytes"
	"crypto/sha256"
	"encoding/hex"
	"flag"
	"fmt"
	"go/ast"
	"go/printer"
	"go/token"
	"go/types"
	"io/ioutil"
	"os"
	"path/filepath"
	"sort"
	"strings"

	"golang.org/x/tools/go/packages"
)

var storeFields = map[string]bool{"balances": true, "domains": true, "validators": true, "witnesses": true, "feePool": true,
	"govern": true, "btcTrackers": true, "ethTrackers": true, "proposalMaster": true, "delegators": true, "netwkDelegators": true,
	"evidenceStore": true, "rewardMaster": true, "stateDB": true, "contracts": true, "accountKeeper": true, "extStores": true}

var hookFuncs = map[string]bool{"blockBeginner": true, "blockEnder": true, "handleBlockRewards": true, "handleDelegationRewards": true,
	"addMaturedAmountsToBalance": true, "matureDelegationRewards": true, "ManageVotes": true, "applyUpdate": true,
	"doEthTransitions": true, "doTransitions": true, "ExpireProposals": true, "FinalizeProposals": true, "AddInternalTX": true,
	"commitor": true, "chainInitializer": true}

// pinnedFns: functions the Lean models port by hand; the normalised source (comments and layout
// removed) of each is hashed into OLP/Gen/Facts.lean so that ANY edit of a ported function has to
// be acknowledged in OLP/Shell/Expect.lean (and is searched dynamically by the property's engines).
var pinnedFns = map[string]bool{}

func init() {
	for _, f := range []string{
		// C09 store stack
		"storage.State.Get", "storage.State.Set", "storage.State.Exists", "storage.State.Delete", "storage.State.Write", "storage.State.Commit",
		"storage.State.Iterate", "storage.State.IterateRange", "storage.State.BeginTxSession", "storage.State.CommitTxSession", "storage.State.DiscardTxSession",
		"storage.State.deleted", "storage.State.rawCache", "storage.isTombstone",
		"storage.sessionCache.Get", "storage.sessionCache.Set", "storage.sessionCache.Delete", "storage.sessionCache.Exists", "storage.sessionCache.Iterate", "storage.sessionCache.BeginSession",
		"storage.cacheSession.Get", "storage.cacheSession.Set", "storage.cacheSession.Delete", "storage.cacheSession.Exists", "storage.cacheSession.Commit",
		"storage.GasStore.Get", "storage.GasStore.Set", "storage.GasStore.Exists", "storage.GasStore.Delete", "storage.gasCalculator.Consume",
		"storage.ChainState.Commit", "storage.ChainState.Set", "storage.ChainState.Delete", "storage.ChainState.Get", "storage.ChainState.Exists", "storage.ChainState.loadDB",
		// shell (C01, C05-C08)
		"app.App.txDeliverer", "app.App.txChecker", "app.App.commitor", "app.App.infoServer", "app.App.GetTxFromCache", "app.App.VerifyCache",
		// C02/C03 value accounting leaves
		"data/balance.Coin.Plus", "data/balance.Coin.Minus", "data/balance.Coin.IsValid", "data/balance.Store.AddToAddress", "data/balance.Store.MinusFromAddress",
		"action.Amount.ToCoin", "action.Amount.ToCoinWithBase", "action.Amount.IsValid", "action.BasicFeeHandling", "action.StakingPayerFeeHandling",
		"action/transfer.runTx", "action/transfer.runSendPool",
		// C04
		"action.ValidateBasic", "action.RawTx.RawBytes", "action.SignedTx.SignedBytes",
	} {
		pinnedFns[f] = true
	}
}

var consensusPkgs = []string{"app", "identity", "data/...", "action/...", "event", "storage", "vm", "utils", "serialize", "external_apps/..."}

// ---- T2: micro-translator for arithmetic leaves. For a (function, variable) target the last
// assignment with exactly that one identifier on the left is translated into a Lean definition
// over Int with Go's semantics (truncating division and remainder, integer conversions dropped,
// i.e. no overflow): the Lean side proves that the hand-written model's formula IS this one.
type arithTarget struct {
	fn, lhs, name string
	lean          string // the generated definition, or a comment saying why there is none
	found         bool
}

var arithTargets = []arithTarget{
	{fn: "data/ethereum.Tracker.Finalized", lhs: "num", name: "trackerFinalizedNum"},
	{fn: "data/ethereum.Tracker.Failed", lhs: "num", name: "trackerFailedNum"},
	{fn: "identity.ValidatorStore.ExecuteAllegationTracker", lhs: "requiredVotesCount", name: "allegRequired"},
	{fn: "identity.ValidatorStore.ExecuteAllegationTracker", lhs: "guilty", name: "allegGuilty"},
	{fn: "identity.ValidatorStore.ExecuteAllegationTracker", lhs: "innocent", name: "allegInnocent"},
	{fn: "data/governance.ProposalVoteStore.ResultSoFar", lhs: "passed", name: "govPassed"},
	{fn: "data/governance.ProposalVoteStore.ResultSoFar", lhs: "failed", name: "govFailed"},
	{fn: "data/rewards.RewardCalculator.getCycleNo", lhs: "cycleNo", name: "rewardCycleNo"},
	{fn: "data/rewards.RewardCalculator.getCycleNo", lhs: "firstInCycle", name: "rewardFirstInCycle"},
	{fn: "data/rewards.RewardCalculator.getCycleNo", lhs: "lastInCycle", name: "rewardLastInCycle"},
}

type arithCtx struct {
	params []string
	seen   map[string]bool
	err    string
}

func (c *arithCtx) param(n string) string {
	n = strings.NewReplacer(".", "_", "(", "_", ")", "", " ", "", "[", "_", "]", "", "*", "").Replace(n)
	if !c.seen[n] {
		c.seen[n] = true
		c.params = append(c.params, n)
	}
	return n
}

func plain(e ast.Expr) string {
	var b bytes.Buffer
	printer.Fprint(&b, token.NewFileSet(), e)
	return b.String()
}

// expr translates e; isBool reports whether the result is a Bool.
func (c *arithCtx) expr(e ast.Expr) (out string, isBool bool) {
	switch x := e.(type) {
	case *ast.ParenExpr:
		return c.expr(x.X)
	case *ast.BasicLit:
		if x.Kind == token.INT {
			return x.Value, false
		}
	case *ast.Ident:
		return c.param(x.Name), false
	case *ast.SelectorExpr:
		return c.param(plain(x)), false
	case *ast.CallExpr:
		if id, ok := x.Fun.(*ast.Ident); ok && len(x.Args) == 1 {
			switch id.Name {
			case "int", "int8", "int16", "int32", "int64", "uint", "uint8", "uint16", "uint32", "uint64":
				return c.expr(x.Args[0])
			case "len":
				return c.param("len_" + plain(x.Args[0])), false
			}
		}
	case *ast.BinaryExpr:
		a, ab := c.expr(x.X)
		b, bb := c.expr(x.Y)
		switch x.Op {
		case token.ADD, token.SUB, token.MUL:
			if !ab && !bb {
				return "(" + a + " " + x.Op.String() + " " + b + ")", false
			}
		case token.QUO:
			if !ab && !bb {
				return "(Int.tdiv " + a + " " + b + ")", false
			}
		case token.REM:
			if !ab && !bb {
				return "(Int.tmod " + a + " " + b + ")", false
			}
		case token.GTR, token.GEQ, token.LSS, token.LEQ:
			if !ab && !bb {
				op := map[token.Token]string{token.GTR: ">", token.GEQ: "≥", token.LSS: "<", token.LEQ: "≤"}[x.Op]
				return "(decide (" + a + " " + op + " " + b + "))", true
			}
		case token.EQL, token.NEQ:
			if ab == bb {
				op := map[token.Token]string{token.EQL: "==", token.NEQ: "!="}[x.Op]
				return "(" + a + " " + op + " " + b + ")", true
			}
		case token.LAND, token.LOR:
			if ab && bb {
				op := map[token.Token]string{token.LAND: "&&", token.LOR: "||"}[x.Op]
				return "(" + a + " " + op + " " + b + ")", true
			}
		}
	}
	if c.err == "" {
		c.err = "unsupported expression: " + plain(e)
	}
	return "0", false
}

func (t *arithTarget) translate(fd *ast.FuncDecl) {
	var rhs ast.Expr
	ast.Inspect(fd.Body, func(n ast.Node) bool {
		if as, ok := n.(*ast.AssignStmt); ok && len(as.Lhs) == 1 && len(as.Rhs) == 1 {
			if id, ok := as.Lhs[0].(*ast.Ident); ok && id.Name == t.lhs {
				rhs = as.Rhs[0]
			}
		}
		return true
	})
	if rhs == nil {
		return
	}
	t.found = true
	c := &arithCtx{seen: map[string]bool{}}
	body, isBool := c.expr(rhs)
	if c.err != "" {
		t.lean = fmt.Sprintf("-- %s.%s: %s\n", t.fn, t.lhs, c.err)
		return
	}
	typ := "Int"
	if isBool {
		typ = "Bool"
	}
	ps := ""
	if len(c.params) > 0 {
		ps = " (" + strings.Join(c.params, " ") + " : Int)"
	}
	t.lean = fmt.Sprintf("/-- `%s`, variable `%s`: `%s` -/\ndef %s%s : %s := %s\n", t.fn, t.lhs, strings.Join(strings.Fields(plain(rhs)), " "), t.name, ps, typ, body)
}

func arithLean() string {
	var sb strings.Builder
	sb.WriteString("-- GENERATED by /verif/extract from /repo's working tree: do not edit.\n-- Arithmetic leaves translated from the Go source (Go integer semantics over Int, no overflow).\nnamespace OLP.Gen.Arith\n\n")
	for _, t := range arithTargets {
		if !t.found {
			sb.WriteString(fmt.Sprintf("-- %s.%s: no assignment found (the obligation that names `%s` breaks)\n\n", t.fn, t.lhs, t.name))
			continue
		}
		sb.WriteString(t.lean + "\n")
	}
	sb.WriteString("end OLP.Gen.Arith\n")
	return sb.String()
}

func render(fset *token.FileSet, n ast.Node) string {
	var b bytes.Buffer
	printer.Fprint(&b, fset, n)
	s := strings.Join(strings.Fields(b.String()), " ")
	if len(s) > 90 {
		s = s[:90]
	}
	return s
}

func lq(s string) string {
	return "\"" + strings.ReplaceAll(strings.ReplaceAll(s, "\\", "\\\\"), "\"", "\\\"") + "\""
}

type rows [][]string

// reflectTag returns the json name of a struct tag ("" if none)
func reflectTag(tag string) string {
	i := strings.Index(tag, `json:"`)
	if i < 0 {
		return ""
	}
	rest := tag[i+6:]
	j := strings.Index(rest, `"`)
	if j < 0 {
		return ""
	}
	return rest[:j]
}

func (r rows) lean(name, typ string, mk func([]string) string) string {
	var sb strings.Builder
	fmt.Fprintf(&sb, "def %s : List %s := [\n", name, typ)
	for i, x := range r {
		sep := ","
		if i == len(r)-1 {
			sep = ""
		}
		fmt.Fprintf(&sb, "  %s%s\n", mk(x), sep)
	}
	sb.WriteString("]\n\n")
	return sb.String()
}

func treeHash(root string) string {
	h := sha256.New()
	filepath.Walk(root, func(p string, fi os.FileInfo, err error) error {
		if err != nil {
			return nil
		}
		if fi.IsDir() && (fi.Name() == ".git" || fi.Name() == "node_modules") {
			return filepath.SkipDir
		}
		if strings.HasSuffix(p, ".go") && !strings.HasSuffix(p, "_test.go") {
			b, _ := ioutil.ReadFile(p)
			h.Write([]byte(p))
			h.Write(b)
		}
		return nil
	})
	return hex.EncodeToString(h.Sum(nil))
}

const modPath = "github.com/Oneledger/protocol"

func shortPkg(p string) string { return strings.TrimPrefix(p, modPath+"/") }

// namedOf returns "<short pkg>.<Type>" for a (pointer to a) named type.
func namedOf(t types.Type) string {
	if p, ok := t.(*types.Pointer); ok {
		t = p.Elem()
	}
	if n, ok := t.(*types.Named); ok && n.Obj().Pkg() != nil {
		return shortPkg(n.Obj().Pkg().Path()) + "." + n.Obj().Name()
	}
	return ""
}

func isIdent(e ast.Expr, name string) bool {
	id, ok := e.(*ast.Ident)
	return ok && id.Name == name
}

// callOn matches `<recv>.<method>(args...)` with recv an identifier; returns recv name and args.
func callOn(e ast.Expr, method string) (string, []ast.Expr, bool) {
	ce, ok := e.(*ast.CallExpr)
	if !ok {
		return "", nil, false
	}
	se, ok := ce.Fun.(*ast.SelectorExpr)
	if !ok || se.Sel.Name != method {
		return "", nil, false
	}
	id, ok := se.X.(*ast.Ident)
	if !ok {
		return "", nil, false
	}
	return id.Name, ce.Args, true
}

func selOn(e ast.Expr, recv, field string) bool {
	se, ok := e.(*ast.SelectorExpr)
	return ok && se.Sel.Name == field && isIdent(se.X, recv)
}

// failGuard: `if err != nil { ...; return false, <x> }`
func failGuard(fset *token.FileSet, st ast.Stmt) bool {
	is, ok := st.(*ast.IfStmt)
	if !ok || is.Init != nil || is.Else != nil || render(fset, is.Cond) != "err != nil" || len(is.Body.List) == 0 {
		return false
	}
	rs, ok := is.Body.List[len(is.Body.List)-1].(*ast.ReturnStmt)
	return ok && len(rs.Results) == 2 && isIdent(rs.Results[0], "false") && !isIdent(rs.Results[1], "nil")
}

// classifyValidate inspects one `Validate(ctx, signedTx) (bool, error)` method.
func classifyValidate(pkg *packages.Package, fd *ast.FuncDecl) (cls string, retsOK bool) {
	retsOK = true
	allFalse := true
	var firstTrue token.Pos = token.NoPos
	ast.Inspect(fd.Body, func(n ast.Node) bool {
		if _, ok := n.(*ast.FuncLit); ok {
			return false
		}
		rs, ok := n.(*ast.ReturnStmt)
		if !ok {
			return true
		}
		if len(rs.Results) != 2 {
			retsOK = false
			allFalse = false
			return true
		}
		switch {
		case isIdent(rs.Results[0], "false") && !isIdent(rs.Results[1], "nil"):
		case isIdent(rs.Results[0], "true") && isIdent(rs.Results[1], "nil"):
		default:
			retsOK = false
		}
		if !isIdent(rs.Results[0], "false") {
			allFalse = false
			if firstTrue == token.NoPos || rs.Pos() < firstTrue {
				firstTrue = rs.Pos()
			}
		}
		return true
	})
	if allFalse {
		return "rejectAll", retsOK
	}
	if fd.Type.Params == nil || len(fd.Type.Params.List) != 2 || len(fd.Type.Params.List[1].Names) != 1 {
		return "unchecked", retsOK
	}
	txName := fd.Type.Params.List[1].Names[0].Name
	msgVar := ""
	list := fd.Body.List
	for i, st := range list {
		as, ok := st.(*ast.AssignStmt)
		if !ok || len(as.Rhs) != 1 || len(as.Lhs) != 1 || !isIdent(as.Lhs[0], "err") {
			continue
		}
		guarded := i+1 < len(list) && failGuard(pkg.Fset, list[i+1])
		if recv, args, ok := callOn(as.Rhs[0], "Unmarshal"); ok && len(args) == 1 && selOn(args[0], txName, "Data") && guarded && msgVar == "" {
			msgVar = recv
			continue
		}
		ce, ok := as.Rhs[0].(*ast.CallExpr)
		if !ok || msgVar == "" || !guarded {
			continue
		}
		if firstTrue != token.NoPos && firstTrue < as.Pos() {
			continue
		}
		// action.ValidateBasic(tx.RawBytes(), msg.Signers(), tx.Signatures)
		var callee types.Object
		switch f := ce.Fun.(type) {
		case *ast.SelectorExpr:
			callee = pkg.TypesInfo.Uses[f.Sel]
		case *ast.Ident:
			callee = pkg.TypesInfo.Uses[f]
		}
		fn, _ := callee.(*types.Func)
		if fn == nil {
			continue
		}
		if fn.FullName() == modPath+"/action.ValidateBasic" && len(ce.Args) == 3 {
			r0, a0, ok0 := callOn(ce.Args[0], "RawBytes")
			r1, a1, ok1 := callOn(ce.Args[1], "Signers")
			if ok0 && ok1 && r0 == txName && len(a0) == 0 && r1 == msgVar && len(a1) == 0 && selOn(ce.Args[2], txName, "Signatures") {
				return "basic", retsOK
			}
		}
		// msg.validateSigner(ctx, tx)   (OLVM: EIP-155 sender recovery)
		if strings.HasSuffix(fn.FullName(), "action/olvm.Transaction).validateSigner") && len(ce.Args) == 2 {
			if r, _, ok := callOn(ce, "validateSigner"); ok && r == msgVar && isIdent(ce.Args[1], txName) {
				return "ethSigner", retsOK
			}
		}
	}
	return "unchecked", retsOK
}

// validateGuard extracts how an entry point reacts to handler.Validate failing.
func validateGuard(fset *token.FileSet, fd *ast.FuncDecl) []string {
	var out []string
	ast.Inspect(fd.Body, func(n ast.Node) bool {
		bs, ok := n.(*ast.BlockStmt)
		if !ok || out != nil {
			return out == nil
		}
		for i, st := range bs.List {
			var guard *ast.IfStmt
			has := func(x ast.Node) bool {
				found := false
				ast.Inspect(x, func(m ast.Node) bool {
					if ce, ok := m.(*ast.CallExpr); ok {
						if se, ok := ce.Fun.(*ast.SelectorExpr); ok && se.Sel.Name == "Validate" {
							found = true
						}
					}
					return !found
				})
				return found
			}
			switch s := st.(type) {
			case *ast.IfStmt:
				if s.Init != nil && has(s.Init) {
					guard = s
				}
			case *ast.AssignStmt:
				if has(s) && i+1 < len(bs.List) {
					guard, _ = bs.List[i+1].(*ast.IfStmt)
				}
			}
			if guard == nil {
				continue
			}
			code, returns := "", false
			ast.Inspect(guard.Body, func(m ast.Node) bool {
				switch x := m.(type) {
				case *ast.ReturnStmt:
					returns = true
				case *ast.KeyValueExpr:
					if isIdent(x.Key, "Code") {
						code = render(fset, x.Value)
					}
				}
				return true
			})
			if returns {
				out = []string{fd.Name.Name, render(fset, guard.Cond), "validate-guard", code}
				return false
			}
		}
		return true
	})
	return out
}

func main() {
	repo := flag.String("repo", "/repo", "repository root")
	out := flag.String("out", "", "output directory (OLP/Gen)")
	survey := flag.Bool("survey", false, "list the functions the whole-function translator accepts and exit")
	flag.Parse()
	self, _ := ioutil.ReadFile(os.Args[0])
	sh := sha256.Sum256(self)
	key := treeHash(*repo) + hex.EncodeToString(sh[:4])
	stamp := filepath.Join(*out, ".facts.stamp")
	if b, err := ioutil.ReadFile(stamp); err == nil && string(b) == key {
		_, err1 := os.Stat(filepath.Join(*out, "Facts.lean"))
		_, err2 := os.Stat(filepath.Join(*out, "Arith.lean"))
		_, err3 := os.Stat(filepath.Join(*out, "Funcs.lean"))
		if err1 == nil && err2 == nil && err3 == nil {
			fmt.Println("facts: up to date")
			return
		}
	}
	// the old files stay in place until the new ones are complete and are then replaced by rename,
	// so that a Lean build of another check running at the same time never sees a missing file;
	// they are removed only when the extraction fails (nothing stale survives a failure)
	removeGenerated := func() {
		os.Remove(filepath.Join(*out, "Facts.lean"))
		os.Remove(filepath.Join(*out, "Arith.lean"))
		os.Remove(filepath.Join(*out, "Funcs.lean"))
	}
	os.Remove(stamp)
	cfg := &packages.Config{Mode: packages.NeedName | packages.NeedFiles | packages.NeedSyntax | packages.NeedTypes | packages.NeedTypesInfo | packages.NeedImports | packages.NeedDeps,
		Dir: *repo, Env: append(os.Environ(), "GOFLAGS=-mod=mod", "GOPROXY=off", "GOSUMDB=off", "GOTOOLCHAIN=local"), Tests: false}
	var pats []string
	for _, p := range consensusPkgs {
		pats = append(pats, "./"+p)
	}
	pkgs, err := packages.Load(cfg, pats...)
	if err != nil {
		fmt.Fprintln(os.Stderr, "load:", err)
		removeGenerated()
		os.Exit(1)
	}
	var hookAims, sessionRule, mapRanges, envUses, volatileSets, fatalSites, signerRows, checkRuns, checkStateDB, pinned, validateRows, routeRows, validateGuards rows
	funcDecls := map[types.Object]*ast.FuncDecl{}
	funcPkg := map[types.Object]*packages.Package{}
	declByName := map[string]*ast.FuncDecl{}
	pkgByName := map[string]*packages.Package{}
	nerr := 0
	for _, pkg := range pkgs {
		for _, e := range pkg.Errors {
			if nerr < 5 {
				fmt.Fprintln(os.Stderr, "pkg error:", e)
			}
			nerr++
		}
		short := strings.TrimPrefix(pkg.PkgPath, "github.com/Oneledger/protocol/")
		for _, f := range pkg.Syntax {
			fname := pkg.Fset.Position(f.Pos()).Filename
			if strings.HasSuffix(fname, "_test.go") || strings.HasSuffix(fname, "verif_hooks.go") {
				continue
			}
			for _, d := range f.Decls {
				fd, ok := d.(*ast.FuncDecl)
				if !ok || fd.Body == nil {
					continue
				}
				fn := fd.Name.Name
				if fd.Recv != nil && len(fd.Recv.List) > 0 {
					fn = strings.TrimPrefix(render(pkg.Fset, fd.Recv.List[0].Type), "*") + "." + fn
				}
				qfn := short + "." + fn
				declByName[qfn] = fd
				pkgByName[qfn] = pkg
				for ti := range arithTargets {
					if arithTargets[ti].fn == qfn {
						arithTargets[ti].translate(fd)
					}
				}
				if pinnedFns[qfn] {
					var b bytes.Buffer
					printer.Fprint(&b, pkg.Fset, &ast.FuncDecl{Name: fd.Name, Recv: fd.Recv, Type: fd.Type, Body: fd.Body})
					h := sha256.Sum256([]byte(strings.Join(strings.Fields(b.String()), " ")))
					pinned = append(pinned, []string{qfn, hex.EncodeToString(h[:6])})
				}
				if obj := pkg.TypesInfo.Defs[fd.Name]; obj != nil {
					funcDecls[obj] = fd
					funcPkg[obj] = pkg
				}
				// ---- C04: router registrations and external-app transaction literals
				ast.Inspect(fd.Body, func(n ast.Node) bool {
					switch x := n.(type) {
					case *ast.CallExpr:
						if se, ok := x.Fun.(*ast.SelectorExpr); ok && se.Sel.Name == "AddHandler" && len(x.Args) == 2 {
							h := ""
							if tv, ok := pkg.TypesInfo.Types[x.Args[1]]; ok {
								h = namedOf(tv.Type)
							}
							if _, isLit := ast.Unparen(x.Args[1]).(*ast.CompositeLit); !isLit {
								if ue, ok := x.Args[1].(*ast.UnaryExpr); !ok || ue.Op != token.AND {
									h = "dynamic:" + render(pkg.Fset, x.Args[1])
								}
							}
							routeRows = append(routeRows, []string{qfn, render(pkg.Fset, x.Args[0]), h})
						}
					case *ast.CompositeLit:
						if tv, ok := pkg.TypesInfo.Types[x]; ok && namedOf(tv.Type) == "external_apps/common.ExtTx" {
							h, m := "", ""
							for _, el := range x.Elts {
								if kv, ok := el.(*ast.KeyValueExpr); ok {
									if tv, ok := pkg.TypesInfo.Types[kv.Value]; ok {
										if isIdent(kv.Key, "Tx") {
											h = namedOf(tv.Type)
										} else if isIdent(kv.Key, "Msg") {
											m = namedOf(tv.Type)
										}
									}
								}
							}
							routeRows = append(routeRows, []string{qfn, "ext:" + m, h})
						}
					}
					return true
				})
				if short == "app" && (fd.Name.Name == "txDeliverer" || fd.Name.Name == "txChecker") {
					if g := validateGuard(pkg.Fset, fd); g != nil {
						validateGuards = append(validateGuards, g)
					}
				}
				// ---- hook aims (package app only)
				if short == "app" && hookFuncs[fd.Name.Name] {
					aimed := map[ast.Node]bool{}
					ast.Inspect(fd.Body, func(n ast.Node) bool {
						if ce, ok := n.(*ast.CallExpr); ok {
							if se, ok := ce.Fun.(*ast.SelectorExpr); ok && se.Sel.Name == "WithState" {
								// every store selector inside the receiver chain is re-aimed by this call
								ast.Inspect(se.X, func(m ast.Node) bool {
									if m != nil {
										aimed[m] = true
									}
									return true
								})
							}
						}
						return true
					})
					// control depth of every node: number of enclosing if/for/switch/case/callback bodies
					depth := map[ast.Node]int{}
					{
						var stack []ast.Node
						mainLit := true
						ast.Inspect(fd.Body, func(n ast.Node) bool {
							if n == nil {
								stack = stack[:len(stack)-1]
								return true
							}
							d := 0
							for _, a := range stack {
								switch a.(type) {
								case *ast.IfStmt, *ast.ForStmt, *ast.RangeStmt, *ast.SwitchStmt, *ast.TypeSwitchStmt, *ast.SelectStmt:
									d++
								case *ast.FuncLit:
									d++
								}
							}
							depth[n] = d
							stack = append(stack, n)
							return true
						})
						_ = mainLit
					}
					base0 := 0
					if strings.HasSuffix(render(pkg.Fset, fd.Type.Results), "r") || true {
						// functions of the form `return func(...) {...}` carry one FuncLit level for the hook body itself
						if len(fd.Body.List) == 1 {
							if rs, ok := fd.Body.List[0].(*ast.ReturnStmt); ok && len(rs.Results) == 1 {
								if _, ok := rs.Results[0].(*ast.FuncLit); ok {
									base0 = 1
								}
							}
						}
					}
					dom := func(n ast.Node) string {
						if depth[n]-base0 <= 0 {
							return "true"
						}
						return "false"
					}
					seq := 0
					ast.Inspect(fd.Body, func(n ast.Node) bool {
						if ce, ok := n.(*ast.CallExpr); ok {
							callee := ""
							switch f := ce.Fun.(type) {
							case *ast.Ident:
								callee = f.Name
							case *ast.SelectorExpr:
								callee = f.Sel.Name
							}
							if hookFuncs[callee] && callee != fd.Name.Name {
								// arguments are evaluated before the call: emit the call row after them
								for _, a := range ce.Args {
									ast.Inspect(a, func(m ast.Node) bool {
										if se, ok := m.(*ast.SelectorExpr); ok && storeFields[se.Sel.Name] {
											base := render(pkg.Fset, se.X)
											if strings.HasSuffix(base, "Context") || base == "ctx" || base == "appCtx" {
												am := "false"
												if aimed[se] {
													am = "true"
												}
												hookAims = append(hookAims, []string{fd.Name.Name, fmt.Sprint(seq), se.Sel.Name, am, dom(se), "false"})
												seq++
											}
										}
										return true
									})
								}
								hookAims = append(hookAims, []string{fd.Name.Name, fmt.Sprint(seq), callee, "true", dom(ce), "true"})
								seq++
								return false
							}
						}
						se, ok := n.(*ast.SelectorExpr)
						if !ok || !storeFields[se.Sel.Name] {
							return true
						}
						base := render(pkg.Fset, se.X)
						if !(strings.HasSuffix(base, "Context") || base == "ctx" || base == "appCtx") {
							return true
						}
						a := "false"
						if aimed[se] {
							a = "true"
						}
						hookAims = append(hookAims, []string{fd.Name.Name, fmt.Sprint(seq), se.Sel.Name, a, dom(se), "false"})
						seq++
						return true
					})
				}
				// ---- session rule
				if short == "app" && (fd.Name.Name == "txDeliverer" || fd.Name.Name == "txChecker") {
					ast.Inspect(fd.Body, func(n ast.Node) bool {
						is, ok := n.(*ast.IfStmt)
						if !ok {
							return true
						}
						body := render(pkg.Fset, is.Body)
						if c := render(pkg.Fset, is.Cond); strings.Contains(c, "SignedBytes()") && strings.Contains(body, "DiscardTxSession") && strings.Contains(body, "return") {
							sessionRule = append(sessionRule, []string{fd.Name.Name, c, "canonical-guard", "reject"})
							return true
						}
						if strings.Contains(body, "DiscardTxSession") && is.Else != nil && strings.Contains(render(pkg.Fset, is.Else), "CommitTxSession") {
							sessionRule = append(sessionRule, []string{fd.Name.Name, render(pkg.Fset, is.Cond), "discard", "commit"})
						} else if strings.Contains(body, "CommitTxSession") && is.Else != nil && strings.Contains(render(pkg.Fset, is.Else), "DiscardTxSession") {
							sessionRule = append(sessionRule, []string{fd.Name.Name, render(pkg.Fset, is.Cond), "commit", "discard"})
						}
						return true
					})
					// order of the session calls
					var order []string
					ast.Inspect(fd.Body, func(n ast.Node) bool {
						if ce, ok := n.(*ast.CallExpr); ok {
							if se, ok := ce.Fun.(*ast.SelectorExpr); ok {
								switch se.Sel.Name {
								case "BeginTxSession", "Validate", "ProcessCheck", "ProcessDeliver", "ProcessFee", "VerifyCache", "GetTxFromCache":
									order = append(order, se.Sel.Name)
								}
							}
						}
						return true
					})
					sessionRule = append(sessionRule, []string{fd.Name.Name, strings.Join(order, ">"), "order", ""})
				}
				// ---- map ranges, env uses, volatile sets, fatal sites
				hasSort := false
				ast.Inspect(fd.Body, func(n ast.Node) bool {
					if ce, ok := n.(*ast.CallExpr); ok {
						if se, ok := ce.Fun.(*ast.SelectorExpr); ok {
							if id, ok := se.X.(*ast.Ident); ok && id.Name == "sort" {
								hasSort = true
							}
						}
					}
					return true
				})
				ast.Inspect(fd.Body, func(n ast.Node) bool {
					switch x := n.(type) {
					case *ast.RangeStmt:
						if tv, ok := pkg.TypesInfo.Types[x.X]; ok {
							if _, isMap := tv.Type.Underlying().(*types.Map); isMap {
								writes := false
								ast.Inspect(x.Body, func(m ast.Node) bool {
									if ce, ok := m.(*ast.CallExpr); ok {
										if se, ok := ce.Fun.(*ast.SelectorExpr); ok {
											switch se.Sel.Name {
											case "Set", "set", "Delete", "AddToAddress", "MinusFromAddress", "SetMatureAmounts", "Stake", "Unstake", "Push", "PushEvent":
												writes = true
											}
										}
									}
									return true
								})
								mapRanges = append(mapRanges, []string{qfn, render(pkg.Fset, x.X), fmt.Sprint(hasSort), fmt.Sprint(writes)})
							}
						}
					case *ast.CallExpr:
						name := render(pkg.Fset, x.Fun)
						switch {
						case name == "time.Now" || strings.HasPrefix(name, "rand.") || strings.HasPrefix(name, "uuid.") || name == "os.Getenv" || strings.HasSuffix(name, "IsETHWitness") ||
							strings.HasSuffix(name, "node.ValidatorAddress") || strings.HasSuffix(name, "node.Address") || strings.HasSuffix(name, "node.PubKey") || strings.HasSuffix(name, "node.ValidatorPubKey"):
							envUses = append(envUses, []string{qfn, name})
						}
						if se, ok := x.Fun.(*ast.SelectorExpr); ok {
							switch se.Sel.Name {
							case "SetOptions", "SetupOpt", "SetupOption", "SetOption", "SetConfig":
								volatileSets = append(volatileSets, []string{qfn, render(pkg.Fset, x.Fun)})
							case "Fatal", "Fatalf":
								fatalSites = append(fatalSites, []string{qfn, "Fatal"})
							case "Exit":
								if id, ok := se.X.(*ast.Ident); ok && id.Name == "os" {
									fatalSites = append(fatalSites, []string{qfn, "os.Exit"})
								}
							}
						}
						if id, ok := x.Fun.(*ast.Ident); ok && id.Name == "panic" {
							fatalSites = append(fatalSites, []string{qfn, "panic"})
						}
					}
					return true
				})
				// ---- what ProcessCheck runs
				if fd.Name.Name == "ProcessCheck" && fd.Recv != nil && (strings.HasPrefix(short, "action/") || strings.HasPrefix(short, "external_apps/")) {
					var callees []string
					ast.Inspect(fd.Body, func(n ast.Node) bool {
						if ce, ok := n.(*ast.CallExpr); ok {
							if id, ok := ce.Fun.(*ast.Ident); ok && strings.HasPrefix(id.Name, "run") {
								callees = append(callees, id.Name)
							}
						}
						return true
					})
					checkRuns = append(checkRuns, []string{qfn, strings.Join(callees, ",")})
				}
				// ---- Signers()
				if fd.Name.Name == "Signers" && fd.Recv != nil && strings.HasPrefix(short, "action/") || (fd.Name.Name == "Signers" && fd.Recv != nil && strings.HasPrefix(short, "external_apps/")) {
					var fields []string
					ast.Inspect(fd.Body, func(n ast.Node) bool {
						if rs, ok := n.(*ast.ReturnStmt); ok {
							for _, r := range rs.Results {
								if cl, ok := r.(*ast.CompositeLit); ok {
									for _, el := range cl.Elts {
										fields = append(fields, strings.TrimSuffix(render(pkg.Fset, el), ".Bytes()"))
									}
								} else {
									fields = append(fields, render(pkg.Fset, r))
								}
							}
						}
						return true
					})
					signerRows = append(signerRows, []string{qfn, strings.Join(fields, ",")})
				}
			}
		}
	}
	// ---- uses of the shared EVM state object (ctx.StateDB) on the mempool path: functions
	// reachable inside their package from a Validate / ProcessCheck method
	for _, pkg := range pkgs {
		short := strings.TrimPrefix(pkg.PkgPath, "github.com/Oneledger/protocol/")
		if !strings.HasPrefix(short, "action") && !strings.HasPrefix(short, "external_apps/") {
			continue
		}
		bodies := map[string]*ast.FuncDecl{}
		var roots []string
		for _, f := range pkg.Syntax {
			if strings.HasSuffix(pkg.Fset.Position(f.Pos()).Filename, "_test.go") {
				continue
			}
			for _, d := range f.Decls {
				if fd, ok := d.(*ast.FuncDecl); ok && fd.Body != nil {
					name := fd.Name.Name
					if fd.Recv != nil && len(fd.Recv.List) > 0 {
						name = strings.TrimPrefix(render(pkg.Fset, fd.Recv.List[0].Type), "*") + "." + name
						if fd.Name.Name == "Validate" || fd.Name.Name == "ProcessCheck" {
							roots = append(roots, name)
						}
					}
					bodies[name] = fd
					if fd.Recv == nil {
						bodies[fd.Name.Name] = fd
					}
				}
			}
		}
		seen := map[string]bool{}
		var visit func(n string)
		visit = func(n string) {
			if seen[n] || bodies[n] == nil {
				return
			}
			seen[n] = true
			ast.Inspect(bodies[n].Body, func(x ast.Node) bool {
				switch t := x.(type) {
				case *ast.SelectorExpr:
					if in, ok := t.X.(*ast.SelectorExpr); ok && in.Sel.Name == "StateDB" {
						checkStateDB = append(checkStateDB, []string{short + "." + n, "StateDB." + t.Sel.Name})
					}
				case *ast.CallExpr:
					for _, a := range t.Args {
						if se, ok := a.(*ast.SelectorExpr); ok && se.Sel.Name == "StateDB" {
							checkStateDB = append(checkStateDB, []string{short + "." + n, "StateDB passed to " + render(pkg.Fset, t.Fun)})
						}
					}
					if id, ok := t.Fun.(*ast.Ident); ok {
						visit(id.Name)
					}
				}
				return true
			})
		}
		for _, r := range roots {
			visit(r)
		}
	}
	// ---- C04: every type implementing action.Tx, with the classification of its Validate
	var txIface *types.Interface
	for _, pkg := range pkgs {
		if pkg.PkgPath == modPath+"/action" && pkg.Types != nil {
			if o := pkg.Types.Scope().Lookup("Tx"); o != nil {
				txIface, _ = o.Type().Underlying().(*types.Interface)
			}
		}
	}
	if txIface != nil {
		for _, pkg := range pkgs {
			if pkg.Types == nil {
				continue
			}
			sc := pkg.Types.Scope()
			for _, name := range sc.Names() {
				tn, ok := sc.Lookup(name).(*types.TypeName)
				if !ok || tn.IsAlias() {
					continue
				}
				T := tn.Type()
				if _, isIface := T.Underlying().(*types.Interface); isIface {
					continue
				}
				if !types.Implements(T, txIface) && !types.Implements(types.NewPointer(T), txIface) {
					continue
				}
				obj, _, _ := types.LookupFieldOrMethod(T, true, pkg.Types, "Validate")
				fd := funcDecls[obj]
				if pos := pkg.Fset.Position(tn.Pos()).Filename; strings.HasSuffix(pos, "_test.go") {
					continue
				}
				cls, rets := "unchecked", false
				if fd != nil {
					cls, rets = classifyValidate(funcPkg[obj], fd)
				}
				validateRows = append(validateRows, []string{namedOf(T), cls, fmt.Sprint(rets)})
			}
		}
	}
	if nerr > 0 {
		fmt.Fprintf(os.Stderr, "facts: %d package errors (type information may be incomplete)\n", nerr)
	}
	sortRows := func(r rows) {
		sort.SliceStable(r, func(i, j int) bool { return strings.Join(r[i], "\x00") < strings.Join(r[j], "\x00") })
	}
	sortRows(mapRanges)
	sortRows(envUses)
	sortRows(volatileSets)
	sortRows(fatalSites)
	sortRows(signerRows)
	sortRows(checkRuns)
	sortRows(checkStateDB)
	sortRows(pinned)
	sortRows(sessionRule)
	sortRows(validateRows)
	sortRows(routeRows)
	sortRows(validateGuards)
	// ---- C05 / C04: the fields of the transaction envelope. Signatures cover RawTx.RawBytes(); every
	// field of SignedTx outside the embedded RawTx, of Signature and of PublicKey is a place where a
	// byte string can differ without any signature noticing, so the list is an expectation
	var envelopeFields rows
	for _, pkg := range pkgs {
		short := strings.TrimPrefix(pkg.PkgPath, "github.com/Oneledger/protocol/")
		var names []string
		switch short {
		case "action":
			names = []string{"SignedTx", "RawTx", "Signature", "Fee", "Amount"}
		case "data/keys":
			names = []string{"PublicKey"}
		}
		for _, n := range names {
			obj := pkg.Types.Scope().Lookup(n)
			if obj == nil {
				continue
			}
			st, ok := obj.Type().Underlying().(*types.Struct)
			if !ok {
				continue
			}
			for i := 0; i < st.NumFields(); i++ {
				f := st.Field(i)
				tag := reflectTag(st.Tag(i))
				emb := "false"
				if f.Embedded() {
					emb = "true"
				}
				envelopeFields = append(envelopeFields, []string{short + "." + n, f.Name(), tag, emb})
			}
		}
	}
	sort.SliceStable(envelopeFields, func(i, j int) bool { return envelopeFields[i][0] < envelopeFields[j][0] })
	// hookAims keep source order per function; sort functions by name (stable)
	sort.SliceStable(hookAims, func(i, j int) bool { return hookAims[i][0] < hookAims[j][0] })
	var sb strings.Builder
	sb.WriteString("/-\n  GENERATED by /verif/extract (olx) from /repo's working tree — do not edit.\n  Regenerated on every check run; hand-written expectations live in OLP/Shell/Expect.lean.\n-/\nnamespace OLP.Gen\n\n")
	sb.WriteString("structure HookAim where\n  fn : String\n  seq : Nat\n  store : String\n  aimed : Bool\n  uncond : Bool\n  isCall : Bool\n  deriving DecidableEq, Repr\n\n")
	sb.WriteString("structure SessionRule where\n  fn : String\n  cond : String\n  thenDo : String\n  elseDo : String\n  deriving DecidableEq, Repr\n\n")
	sb.WriteString("structure MapRange where\n  fn : String\n  expr : String\n  sortInFn : Bool\n  writesInBody : Bool\n  deriving DecidableEq, Repr\n\n")
	sb.WriteString("structure Use where\n  fn : String\n  what : String\n  deriving DecidableEq, Repr\n\n")
	sb.WriteString(hookAims.lean("hookAims", "HookAim", func(x []string) string {
		return fmt.Sprintf("⟨%s, %s, %s, %s, %s, %s⟩", lq(x[0]), x[1], lq(x[2]), x[3], x[4], x[5])
	}))
	sb.WriteString(sessionRule.lean("sessionRule", "SessionRule", func(x []string) string {
		return fmt.Sprintf("⟨%s, %s, %s, %s⟩", lq(x[0]), lq(x[1]), lq(x[2]), lq(x[3]))
	}))
	sb.WriteString(mapRanges.lean("mapRanges", "MapRange", func(x []string) string {
		return fmt.Sprintf("⟨%s, %s, %s, %s⟩", lq(x[0]), lq(x[1]), x[2], x[3])
	}))
	use := func(x []string) string { return fmt.Sprintf("⟨%s, %s⟩", lq(x[0]), lq(x[1])) }
	sb.WriteString(envUses.lean("envUses", "Use", use))
	sb.WriteString(volatileSets.lean("volatileSets", "Use", use))
	sb.WriteString(fatalSites.lean("fatalSites", "Use", use))
	sb.WriteString(signerRows.lean("signerRows", "Use", use))
	sb.WriteString(checkRuns.lean("checkRuns", "Use", use))
	sb.WriteString(checkStateDB.lean("checkStateDB", "Use", use))
	sb.WriteString(pinned.lean("pinned", "Use", use))
	sb.WriteString("structure ValidateRow where\n  handler : String\n  cls : String\n  retsOK : Bool\n  deriving DecidableEq, Repr\n\n")
	sb.WriteString("structure RouteRow where\n  fn : String\n  kind : String\n  handler : String\n  deriving DecidableEq, Repr\n\n")
	sb.WriteString(validateRows.lean("validateRows", "ValidateRow", func(x []string) string {
		return fmt.Sprintf("⟨%s, %s, %s⟩", lq(x[0]), lq(x[1]), x[2])
	}))
	sb.WriteString(routeRows.lean("routeRows", "RouteRow", func(x []string) string {
		return fmt.Sprintf("⟨%s, %s, %s⟩", lq(x[0]), lq(x[1]), lq(x[2]))
	}))
	sb.WriteString(validateGuards.lean("validateGuards", "SessionRule", func(x []string) string {
		return fmt.Sprintf("⟨%s, %s, %s, %s⟩", lq(x[0]), lq(x[1]), lq(x[2]), lq(x[3]))
	}))
	sb.WriteString("structure EnvelopeField where\n  owner : String\n  field : String\n  json : String\n  embedded : Bool\n  deriving DecidableEq, Repr\n\n")
	sb.WriteString(envelopeFields.lean("envelopeFields", "EnvelopeField", func(x []string) string {
		return fmt.Sprintf("⟨%s, %s, %s, %s⟩", lq(x[0]), lq(x[1]), lq(x[2]), x[3])
	}))
	// option-copy setters of InitChain vs start-up, normalised to "<store>.<setter>"
	norm := func(fn string) rows {
		var r rows
		for _, x := range volatileSets {
			if x[0] == fn {
				p := strings.Split(x[1], ".")
				if len(p) >= 2 {
					r = append(r, []string{strings.Join(p[len(p)-2:], ".")})
				}
			}
		}
		return r
	}
	str := func(x []string) string { return lq(x[0]) }
	sb.WriteString(norm("app.App.setupState").lean("setupStateSetters", "String", str))
	sb.WriteString(norm("app.App.Prepare").lean("prepareSetters", "String", str))
	sb.WriteString("end OLP.Gen\n")
	os.MkdirAll(*out, 0755)
	if *survey {
		for _, l := range surveyFuncs(declByName, pkgByName) {
			fmt.Println(l)
		}
		return
	}
	writeGenerated := func(name, content string) {
		tmp := filepath.Join(*out, "."+name+".tmp")
		if err := ioutil.WriteFile(tmp, []byte(content), 0644); err == nil {
			err = os.Rename(tmp, filepath.Join(*out, name))
			if err == nil {
				return
			}
		}
		fmt.Fprintln(os.Stderr, "cannot write", name)
		removeGenerated()
		os.Exit(1)
	}
	writeGenerated("Arith.lean", arithLean())
	writeGenerated("Funcs.lean", funcsLean(declByName, pkgByName))
	writeGenerated("Facts.lean", sb.String())
	ioutil.WriteFile(stamp, []byte(key), 0644)
	fmt.Printf("facts: hookAims=%d sessionRule=%d mapRanges=%d envUses=%d volatileSets=%d fatalSites=%d signerRows=%d validateRows=%d routeRows=%d validateGuards=%d\n",
		len(hookAims), len(sessionRule), len(mapRanges), len(envUses), len(volatileSets), len(fatalSites), len(signerRows), len(validateRows), len(routeRows), len(validateGuards))
}

// T2b — function translator. Where arith.go (in main.go) translates single integer
// expressions, this file translates WHOLE small Go functions, and leaves of larger functions with
// the definitions they depend on inlined, into Lean definitions (OLP/Gen/Funcs.lean,
// regenerated from /repo's working tree on every run). The Lean side (OLP/Props/CxxFuncs.lean)
// proves that the hand-written models' functions ARE these definitions, so a change of a
// formula, a comparison, a guard or a constant in the source changes the generated definition and
// breaks a named theorem, while a harmless rewrite (renamed temporaries, a reordered
// commutative sum that `omega`/`simp` sees through) does not.
//
// The subset of Go that translates (anything else makes the target "not translated", which is
// reported by the theorem that names it):
//
//	values       every integer kind, *big.Int, balance.Amount, balance.Coin (= its Amount) -> Int;
//	             bool -> Bool; error -> Bool (true = non-nil)
//	expressions  constants (resolved by go/types, so named constants become their value),
//	             + - * on machine integers WITHOUT overflow (the theorems that matter for
//	             overflow use wrap64 explicitly), / and % truncating (Int.tdiv / Int.tmod),
//	             conversions between integer kinds dropped, comparisons, && || !,
//	             big.Int: NewInt, Add Sub Mul, Div Mod (Euclidean: Lean's / and %), Quo Rem
//	             (truncating), Neg Abs Set SetInt64 SetUint64, Cmp / Sign against -1 0 1,
//	             Int64 (wrap64) IsInt64 Uint64 IsUint64; Amount: NewAmount* BigInt;
//	             errors.New / Wrap / fmt.Errorf / a package-level error variable -> true;
//	             x == nil on a pointer -> the Bool parameter x_nil; calls of other targets
//	statements   := = += -= *= ++ --, var, if / else (with init), return (also bare, with named
//	             results), receiver.Method(...) statements that mutate a big.Int variable;
//	             logger.* / debug.PrintStack calls are dropped, and an `if` whose body only
//	             logs and ends in logger.Fatal* is dropped as a crash guard (crashes are C18's
//	             subject and are not part of the value semantics translated here)
//	not handled  loops, switch, closures, maps, slices, strings, floats; division by zero is a
//	             panic in Go and 0 in Lean: targets are used under their callers' guards.
//
// A pointer receiver whose fields are assigned returns the new field values after the results.
package main

import (
	"fmt"
	"go/ast"
	"go/constant"
	"go/token"
	"go/types"
	"sort"
	"strings"

	"golang.org/x/tools/go/packages"
)

type fnTarget struct {
	fn          string   // package-relative qualified name, as for arithTargets
	name        string   // Lean name
	leaf        string   // "" = whole function; else the assigned variable / selector (source text)
	inline      []string // leaf only: earlier assignments to these names are substituted
	nth         int      // leaf only: which assignment (1 = first; 0 = last)
	scalarsOnly bool     // whole function: assignments to fields that are no integers / booleans are dropped (named in the doc comment)
	// results
	lean       string
	found      bool
	sig        string   // Lean application head for calls from other targets
	recvFields []fparam // structured receiver: the fields (Go name, Lean type) the definition takes, in order
	npar       int
}

var fnTargets = []*fnTarget{
	// C20 domain prices
	{fn: "action/ons.blocksFor", name: "blocksFor"},
	{fn: "action/ons.calculateExpiry", name: "calculateExpiry"},
	{fn: "action/ons.calculateRenewal", name: "calculateRenewal"},
	// C13 reward split
	{fn: "app.getRewardForValidator", name: "getRewardForValidator"},
	{fn: "app.handleDelegationRewards", name: "delegationRewards", leaf: "delegationRewards", inline: []string{"numerator"}},
	{fn: "app.handleDelegationRewards", name: "delegationCommission", leaf: "commission", inline: []string{"numerator"}},
	{fn: "app.handleDelegationRewards", name: "proposerReward", leaf: "resp.ProposerReward", inline: []string{"numerator"}},
	{fn: "app.handleDelegationRewards", name: "delegatorReward", leaf: "delegatorReward", inline: []string{"numerator"}},
	{fn: "data/rewards.RewardCalculator.Calculate", name: "rewardPerBlock", leaf: "amt"},
	{fn: "data/rewards.RewardCalculator.getCycleNo", name: "rewardGetCycleNo"},
	// C09 gas calculator
	{fn: "storage.gasCalculator.IsEnough", name: "gasIsEnough"},
	{fn: "storage.gasCalculator.Consume", name: "gasConsume"},
	{fn: "storage.gasCalculator.GetLeft", name: "gasGetLeft"},
	// C02 amounts and coins
	{fn: "data/balance.Amount.Plus", name: "amountPlus"},
	{fn: "data/balance.Amount.Minus", name: "amountMinus"},
	{fn: "data/balance.Amount.IsZero", name: "amountIsZero"},
	{fn: "data/balance.Amount.Equals", name: "amountEquals"},
	{fn: "data/balance.Amount.LessThan", name: "amountLessThan"},
	{fn: "data/balance.Amount.CheckInRange", name: "amountCheckInRange"},
	{fn: "data/balance.Coin.Plus", name: "coinPlus"},
	{fn: "data/balance.Coin.Minus", name: "coinMinus"},
	{fn: "data/balance.Currency.Base", name: "currencyBase"},
	{fn: "data/balance.Currency.NewCoinFromInt", name: "newCoinFromInt"},
	{fn: "data/balance.Coin.IsValid", name: "coinIsValid"},
	{fn: "data/balance.Coin.LessThanCoin", name: "coinLessThan"},
	{fn: "data/balance.Coin.LessThanEqualCoin", name: "coinLessThanEqual"},
	{fn: "data/balance.Coin.DivideInt64", name: "coinDivideInt64"},
	{fn: "data/balance.Coin.MultiplyInt64", name: "coinMultiplyInt64"},
	// C10 / C11 stake
	{fn: "identity.calculatePower", name: "calculatePower"},
	{fn: "identity.ValidatorStore.HandleStake", name: "stakeAfterStake", leaf: "amt"},
	{fn: "identity.ValidatorStore.handleUnstake", name: "stakeAfterUnstake", leaf: "amt"},
	{fn: "identity.ValidatorStore.GetEndBlockUpdate", name: "feeShare", leaf: "feeShare"},
	// C19 bounty
	{fn: "identity.ValidatorStore.ExecuteAllegationTracker", name: "allegBounty", leaf: "bountyAmt", inline: []string{"bountyAmt"}},
	// C15 vote counting and the two thresholds, whole (the loop becomes a fold)
	{fn: "data/ethereum.Tracker.GetVotes", name: "trackerGetVotes"},
	{fn: "data/ethereum.Tracker.Finalized", name: "trackerFinalized"},
	{fn: "data/ethereum.Tracker.Failed", name: "trackerFailed"},
	// C17 intrinsic gas (whole: the byte loop becomes a fold)
	{fn: "vm.IntrinsicGas", name: "olvmIntrinsicGas"},
	// C17 OLVM gas money
	{fn: "vm.StateTransition.gasUsed", name: "olvmGasUsed"},
	{fn: "vm.StateTransition.buyGas", name: "olvmBuyGasCost", leaf: "mgval", inline: []string{"mgval"}},
	{fn: "vm.StateTransition.refundGas", name: "olvmRefundQuot", leaf: "refund", nth: 1},
	{fn: "vm.StateTransition.refundGas", name: "olvmRemaining", leaf: "remaining"},
	// C14 fund distribution
	{fn: "action/governance.getPercentageCoin", name: "govPercentageAmount", leaf: "amount"},
	// C20 domain record predicates and the expiry a purchase writes
	{fn: "data/ons.Domain.IsChangeable", name: "domainIsChangeable"},
	{fn: "data/ons.Domain.IsActive", name: "domainIsActive"},
	{fn: "data/ons.Domain.IsExpired", name: "domainIsExpired"},
	{fn: "data/ons.Domain.AddToExpire", name: "domainAddToExpire"},
	{fn: "data/ons.Domain.ResetAfterSale", name: "domainResetAfterSale", scalarsOnly: true},
	// C20 legacy helper
	{fn: "data/ons.CalculateDomainExpiry", name: "calculateDomainExpiry"},
}

type fparam struct{ name, typ string }

type fctx struct {
	info        *types.Info
	pkg         *packages.Package
	params      []fparam
	seen        map[string]bool
	locals      map[string]bool
	err         string
	subst       map[string]ast.Expr // leaf inlining
	byObj       map[*types.Func]*fnTarget
	results     []fparam // named results
	mutated     []string // receiver fields assigned (pointer receiver)
	recv        string
	dropped     []string
	listVars    map[string]bool // parameters / fields taken as lists (ranged slices)
	scalarsOnly bool
	skipped     []string
	mutTypes    map[string]string
}

func (c *fctx) fail(msg string) {
	if c.err == "" {
		c.err = msg
	}
}

func sanitize(n string) string {
	n = strings.NewReplacer(".", "_", "(", "_", ")", "", " ", "", "[", "_", "]", "", "*", "", "&", "").Replace(n)
	switch n {
	case "from", "end", "at", "in", "then", "else", "if", "do", "let", "have", "show", "fun", "open", "def", "by", "with", "match", "where", "deriving", "instance", "structure", "class", "namespace", "section", "import", "variable", "universe", "theorem", "example", "abbrev":
		return "«" + n + "»"
	}
	return n
}

func (c *fctx) param(n, typ string) string {
	n = sanitize(n)
	if c.locals[n] {
		return n
	}
	if !c.seen[n] {
		c.seen[n] = true
		c.params = append(c.params, fparam{n, typ})
	}
	return n
}

// kind of a Go type in the translation: "I" integer-like, "B" bool, "E" error, "" unsupported
func kindOf(t types.Type) string {
	if t == nil {
		return ""
	}
	if p, ok := t.(*types.Pointer); ok {
		t = p.Elem()
	}
	if n, ok := t.(*types.Named); ok {
		q := ""
		if n.Obj().Pkg() != nil {
			q = n.Obj().Pkg().Path() + "." + n.Obj().Name()
		} else {
			q = n.Obj().Name()
		}
		switch q {
		case "math/big.Int", "github.com/Oneledger/protocol/data/balance.Amount", "github.com/Oneledger/protocol/data/balance.Coin":
			return "I"
		case "error":
			return "E"
		}
	}
	switch u := t.Underlying().(type) {
	case *types.Basic:
		if u.Info()&types.IsInteger != 0 {
			return "I"
		}
		if u.Info()&types.IsBoolean != 0 {
			return "B"
		}
	case *types.Interface:
		if t.String() == "error" {
			return "E"
		}
	}
	return ""
}

func leanTyp(k string) string {
	if k == "I" {
		return "Int"
	}
	return "Bool"
}

func (c *fctx) typeOf(e ast.Expr) types.Type {
	if tv, ok := c.info.Types[e]; ok {
		return tv.Type
	}
	if id, ok := e.(*ast.Ident); ok {
		if o := c.info.ObjectOf(id); o != nil {
			return o.Type()
		}
	}
	return nil
}

func isCoin(t types.Type) bool {
	if t == nil {
		return false
	}
	if p, ok := t.(*types.Pointer); ok {
		t = p.Elem()
	}
	n, ok := t.(*types.Named)
	return ok && n.Obj().Pkg() != nil && n.Obj().Pkg().Path() == "github.com/Oneledger/protocol/data/balance" && n.Obj().Name() == "Coin"
}

func (c *fctx) callee(x *ast.CallExpr) *types.Func {
	switch f := x.Fun.(type) {
	case *ast.SelectorExpr:
		if o, ok := c.info.Uses[f.Sel].(*types.Func); ok {
			return o
		}
	case *ast.Ident:
		if o, ok := c.info.Uses[f].(*types.Func); ok {
			return o
		}
	}
	return nil
}

func isLogCall(e ast.Expr) (isLog, isFatal bool) {
	x, ok := e.(*ast.CallExpr)
	if !ok {
		return false, false
	}
	s := plain(x.Fun)
	if strings.HasPrefix(s, "logger.") || strings.Contains(s, ".Logger.") || strings.HasPrefix(s, "log.") || s == "debug.PrintStack" || strings.HasPrefix(s, "fmt.Print") {
		return true, strings.Contains(s, "Fatal")
	}
	return false, false
}

// expr translates e; returns the Lean text and its kind.
func (c *fctx) expr(e ast.Expr) (string, string) {
	// constants first: named constants and constant expressions become their value
	if tv, ok := c.info.Types[e]; ok && tv.Value != nil {
		switch tv.Value.Kind() {
		case constant.Int:
			s := tv.Value.ExactString()
			if strings.HasPrefix(s, "-") {
				return "(" + s + ")", "I"
			}
			return s, "I"
		case constant.Bool:
			return tv.Value.String(), "B"
		}
	}
	switch x := e.(type) {
	case *ast.ParenExpr:
		return c.expr(x.X)
	case *ast.StarExpr:
		return c.expr(x.X)
	case *ast.UnaryExpr:
		a, k := c.expr(x.X)
		switch x.Op {
		case token.AND:
			return a, k
		case token.NOT:
			if k == "B" {
				return "(!" + a + ")", "B"
			}
		case token.SUB:
			if k == "I" {
				return "(-" + a + ")", "I"
			}
		}
	case *ast.Ident:
		if x.Name == "nil" {
			return "false", "E"
		}
		if _, bad := c.subst["\x00poisoned:"+x.Name]; bad {
			c.fail("the inlined variable " + x.Name + " is assigned under a condition that does not enclose this use")
			return "0", "I"
		}
		if s, ok := c.subst[x.Name]; ok {
			saved := c.subst
			// the substituted definition sees the definitions that preceded it
			c.subst = substBefore[s]
			out, k := c.expr(s)
			c.subst = saved
			return out, k
		}
		k := kindOf(c.typeOf(x))
		if k == "E" {
			if o := c.info.ObjectOf(x); o != nil && o.Parent() == o.Pkg().Scope() {
				return "true", "E" // a package-level error value
			}
		}
		if k == "" {
			c.fail("unsupported type of " + x.Name)
			return "0", "I"
		}
		return c.param(x.Name, leanTyp(k)), k
	case *ast.SelectorExpr:
		// Coin.Amount is the coin itself
		if x.Sel.Name == "Amount" && isCoin(c.typeOf(x.X)) {
			return c.expr(x.X)
		}
		k := kindOf(c.typeOf(x))
		if k == "E" {
			if o, ok := c.info.Uses[x.Sel].(*types.Var); ok && o.Parent() == o.Pkg().Scope() {
				return "true", "E"
			}
		}
		if k == "" {
			c.fail("unsupported selector " + plain(x))
			return "0", "I"
		}
		return c.param(plain(x), leanTyp(k)), k
	case *ast.CompositeLit:
		if isCoin(c.typeOf(x)) {
			for _, el := range x.Elts {
				if kv, ok := el.(*ast.KeyValueExpr); ok && plain(kv.Key) == "Amount" {
					return c.expr(kv.Value)
				}
			}
		}
	case *ast.CallExpr:
		return c.call(x)
	case *ast.BinaryExpr:
		return c.binary(x)
	}
	c.fail("unsupported expression: " + plain(e))
	return "0", "I"
}

func cmpPattern(op token.Token, k int64) string {
	// sign(a - b) op k  as a relation between a and b
	switch {
	case op == token.EQL && k == -1, op == token.LSS && k == 0, op == token.LEQ && k == -1:
		return "<"
	case op == token.EQL && k == 0:
		return "="
	case op == token.EQL && k == 1, op == token.GTR && k == 0, op == token.GEQ && k == 1:
		return ">"
	case op == token.NEQ && k == 0:
		return "≠"
	case op == token.GEQ && k == 0, op == token.GTR && k == -1, op == token.NEQ && k == -1:
		return "≥"
	case op == token.LEQ && k == 0, op == token.LSS && k == 1, op == token.NEQ && k == 1:
		return "≤"
	}
	return ""
}

func (c *fctx) binary(x *ast.BinaryExpr) (string, string) {
	// a.Cmp(b) op k   and   a.Sign() op k
	if call, ok := ast.Unparen(x.X).(*ast.CallExpr); ok {
		if f := c.callee(call); f != nil && (f.FullName() == "(*math/big.Int).Cmp" || f.FullName() == "(*math/big.Int).Sign") {
			if tv, ok := c.info.Types[x.Y]; ok && tv.Value != nil {
				if k, ok := constant.Int64Val(tv.Value); ok {
					if rel := cmpPattern(x.Op, k); rel != "" {
						a, _ := c.expr(call.Fun.(*ast.SelectorExpr).X)
						b := "0"
						if f.Name() == "Cmp" {
							b, _ = c.expr(call.Args[0])
						}
						return "(decide (" + a + " " + rel + " " + b + "))", "B"
					}
				}
			}
		}
	}
	// pointer == nil / != nil
	if id, ok := x.Y.(*ast.Ident); ok && id.Name == "nil" && (x.Op == token.EQL || x.Op == token.NEQ) {
		t := c.typeOf(x.X)
		if kindOf(t) == "E" {
			a, _ := c.expr(x.X)
			if x.Op == token.NEQ {
				return a, "B"
			}
			return "(!" + a + ")", "B"
		}
		_, isSliceT := t.Underlying().(*types.Slice)
		if _, isPtr := t.(*types.Pointer); isPtr || isSliceT {
			p := c.param(plain(x.X)+"_nil", "Bool")
			if x.Op == token.EQL {
				return p, "B"
			}
			return "(!" + p + ")", "B"
		}
	}
	// s == "" / s != "" on a string: a Bool parameter of its own
	if lit, ok := x.Y.(*ast.BasicLit); ok && lit.Kind == token.STRING && lit.Value == `""` && (x.Op == token.EQL || x.Op == token.NEQ) {
		if bt, ok := c.typeOf(x.X).Underlying().(*types.Basic); ok && bt.Info()&types.IsString != 0 {
			p := c.param(plain(x.X)+"_empty", "Bool")
			if x.Op == token.EQL {
				return p, "B"
			}
			return "(!" + p + ")", "B"
		}
	}
	a, ak := c.expr(x.X)
	b, bk := c.expr(x.Y)
	if ak == "I" && bk == "I" {
		switch x.Op {
		case token.ADD, token.SUB, token.MUL:
			return "(" + a + " " + x.Op.String() + " " + b + ")", "I"
		case token.QUO:
			return "(Int.tdiv " + a + " " + b + ")", "I"
		case token.REM:
			return "(Int.tmod " + a + " " + b + ")", "I"
		case token.GTR, token.GEQ, token.LSS, token.LEQ, token.EQL, token.NEQ:
			op := map[token.Token]string{token.GTR: ">", token.GEQ: "≥", token.LSS: "<", token.LEQ: "≤", token.EQL: "=", token.NEQ: "≠"}[x.Op]
			return "(decide (" + a + " " + op + " " + b + "))", "B"
		}
	}
	if ak == "B" && bk == "B" {
		switch x.Op {
		case token.LAND:
			return "(" + a + " && " + b + ")", "B"
		case token.LOR:
			return "(" + a + " || " + b + ")", "B"
		case token.EQL:
			return "(" + a + " == " + b + ")", "B"
		case token.NEQ:
			return "(" + a + " != " + b + ")", "B"
		}
	}
	c.fail("unsupported binary expression: " + plain(x))
	return "0", "I"
}

func (c *fctx) call(x *ast.CallExpr) (string, string) {
	// conversions
	if tv, ok := c.info.Types[x.Fun]; ok && tv.IsType() && len(x.Args) == 1 {
		if k := kindOf(tv.Type); k == "I" {
			a, ak := c.expr(x.Args[0])
			if ak == "I" {
				return a, "I"
			}
		}
		c.fail("unsupported conversion: " + plain(x))
		return "0", "I"
	}
	if id, ok := x.Fun.(*ast.Ident); ok && id.Name == "len" && len(x.Args) == 1 {
		if n := sanitize(plain(x.Args[0])); c.listVars[n] {
			return "(Int.ofNat " + n + ".length)", "I"
		}
		return c.param("len_"+plain(x.Args[0]), "Int"), "I"
	}
	f := c.callee(x)
	if f == nil {
		c.fail("unsupported call: " + plain(x))
		return "0", "I"
	}
	full := f.FullName()
	arg := func(i int) string {
		if i >= len(x.Args) {
			c.fail("missing argument in " + plain(x))
			return "0"
		}
		a, k := c.expr(x.Args[i])
		if k != "I" {
			c.fail("non-integer argument in " + plain(x))
		}
		return a
	}
	recv := func() string {
		s, ok := x.Fun.(*ast.SelectorExpr)
		if !ok {
			c.fail("no receiver in " + plain(x))
			return "0"
		}
		a, _ := c.expr(s.X)
		return a
	}
	switch full {
	case "math/big.NewInt", "github.com/Oneledger/protocol/data/balance.NewAmount", "github.com/Oneledger/protocol/data/balance.NewAmountFromInt",
		"github.com/Oneledger/protocol/data/balance.NewAmountFromBigInt":
		return arg(0), "I"
	case "(*github.com/Oneledger/protocol/data/balance.Amount).BigInt":
		return recv(), "I"
	case "(*math/big.Int).Add":
		return "(" + arg(0) + " + " + arg(1) + ")", "I"
	case "(*math/big.Int).Sub":
		return "(" + arg(0) + " - " + arg(1) + ")", "I"
	case "(*math/big.Int).Mul":
		return "(" + arg(0) + " * " + arg(1) + ")", "I"
	case "(*math/big.Int).Div":
		return "(" + arg(0) + " / " + arg(1) + ")", "I"
	case "(*math/big.Int).Mod":
		return "(" + arg(0) + " % " + arg(1) + ")", "I"
	case "(*math/big.Int).Quo":
		return "(Int.tdiv " + arg(0) + " " + arg(1) + ")", "I"
	case "(*math/big.Int).Rem":
		return "(Int.tmod " + arg(0) + " " + arg(1) + ")", "I"
	case "(*math/big.Int).Exp":
		// Exp(x, y, nil) = x^y (y <= 0 gives 1, as in math/big); a modulus is not translated
		if len(x.Args) == 3 {
			if id, ok := x.Args[2].(*ast.Ident); ok && id.Name == "nil" {
				return "(" + arg(0) + " ^ (Int.toNat " + arg(1) + "))", "I"
			}
		}
		c.fail("Exp with a modulus: " + plain(x))
		return "0", "I"
	case "(*math/big.Int).Neg":
		return "(-" + arg(0) + ")", "I"
	case "(*math/big.Int).Abs":
		return "(Int.ofNat (Int.natAbs " + arg(0) + "))", "I"
	case "(*math/big.Int).Set", "(*math/big.Int).SetInt64", "(*math/big.Int).SetUint64":
		return arg(0), "I"
	case "(*math/big.Int).Int64":
		return "(wrap64 " + recv() + ")", "I"
	case "(*math/big.Int).Uint64":
		// the low 64 bits of the ABSOLUTE value (math/big ignores the sign here; found by the funcs
		// engine: the first translation took the two's complement of a negative number)
		return "((Int.ofNat (Int.natAbs " + recv() + ")) % 18446744073709551616)", "I"
	case "(*math/big.Int).IsInt64":
		r := recv()
		return "(decide (-9223372036854775808 ≤ " + r + " ∧ " + r + " ≤ 9223372036854775807))", "B"
	case "(*math/big.Int).IsUint64":
		r := recv()
		return "(decide (0 ≤ " + r + " ∧ " + r + " ≤ 18446744073709551615))", "B"
	case "(*math/big.Int).Cmp":
		return "(cmp " + recv() + " " + arg(0) + ")", "I"
	case "(*math/big.Int).Sign":
		return "(cmp " + recv() + " 0)", "I"
	case "errors.New", "fmt.Errorf", "github.com/pkg/errors.New", "github.com/pkg/errors.Wrap", "github.com/pkg/errors.Errorf":
		return "true", "E"
	}
	// another target
	if t, ok := c.byObj[f]; ok && t.leaf == "" && (f.Type().(*types.Signature).Recv() == nil || kindOf(f.Type().(*types.Signature).Recv().Type()) == "I") {
		var parts []string
		sig := f.Type().(*types.Signature)
		if sig.Recv() != nil {
			parts = append(parts, recv())
			if isCoin(sig.Recv().Type()) && coinNilParam[t.name] {
				parts = append(parts, "false")
			}
		}
		for i := range x.Args {
			a, _ := c.expr(x.Args[i])
			parts = append(parts, a)
		}
		k := "I"
		if sig.Results().Len() == 1 {
			k = kindOf(sig.Results().At(0).Type())
		}
		return "(" + t.name + " " + strings.Join(parts, " ") + ")", k
	}
	// a method of the SAME receiver that is a target itself: its fields are passed on
	if t, ok := c.byObj[f]; ok && t.leaf == "" && c.recv != "" {
		if sel, ok := x.Fun.(*ast.SelectorExpr); ok {
			if id, ok := sel.X.(*ast.Ident); ok && id.Name == c.recv {
				var parts []string
				for _, rf := range t.recvFields {
					parts = append(parts, c.param(c.recv+"."+rf.name, rf.typ))
				}
				for i := range x.Args {
					a, _ := c.expr(x.Args[i])
					parts = append(parts, a)
				}
				sig := f.Type().(*types.Signature)
				k := "I"
				if sig.Results().Len() == 1 {
					k = kindOf(sig.Results().At(0).Type())
				}
				return "(" + t.name + " " + strings.Join(parts, " ") + ")", k
			}
		}
	}
	// a method without arguments that returns an integer is an opaque reading: a parameter
	if sig, ok := f.Type().(*types.Signature); ok && sig.Recv() != nil && len(x.Args) == 0 && sig.Results().Len() == 1 && kindOf(sig.Results().At(0).Type()) == "I" {
		return c.param(strings.TrimSuffix(plain(x), "()"), "Int"), "I"
	}
	c.fail("unsupported call: " + plain(x) + " [" + full + "]")
	return "0", "I"
}

// coinNilParam: whole-function Coin targets that take `coin.Amount == nil` as a Bool parameter
// right after the receiver; callers inside translated code pass false (a computed coin is never nil)
var coinNilParam = map[string]bool{}

// substBefore: for leaf inlining, the substitution that was in force when a definition was made
var substBefore = map[ast.Expr]map[string]ast.Expr{}

// ---- statements

func terminates(stmts []ast.Stmt) bool {
	if len(stmts) == 0 {
		return false
	}
	switch s := stmts[len(stmts)-1].(type) {
	case *ast.ReturnStmt:
		return true
	case *ast.IfStmt:
		if s.Else == nil {
			return false
		}
		var els []ast.Stmt
		switch e := s.Else.(type) {
		case *ast.BlockStmt:
			els = e.List
		case *ast.IfStmt:
			els = []ast.Stmt{e}
		}
		return terminates(s.Body.List) && terminates(els)
	case *ast.BlockStmt:
		return terminates(s.List)
	}
	return false
}

func (c *fctx) lhsName(e ast.Expr) string {
	switch x := e.(type) {
	case *ast.Ident:
		return sanitize(x.Name)
	case *ast.StarExpr:
		return c.lhsName(x.X)
	case *ast.SelectorExpr:
		if x.Sel.Name == "Amount" && isCoin(c.typeOf(x.X)) {
			return c.lhsName(x.X)
		}
		n := sanitize(plain(x))
		if id, ok := x.X.(*ast.Ident); ok && id.Name == c.recv {
			found := false
			for _, m := range c.mutated {
				if m == n {
					found = true
				}
			}
			if !found {
				c.mutated = append(c.mutated, n)
				if c.mutTypes == nil {
					c.mutTypes = map[string]string{}
				}
				c.mutTypes[n] = leanTyp(kindOf(c.typeOf(x)))
			}
		}
		return n
	}
	c.fail("unsupported assignment target: " + plain(e))
	return "_"
}

// ret renders the value returned when control falls off / reaches `return vals`
func (c *fctx) retTuple(vals []string) string {
	all := append([]string{}, vals...)
	all = append(all, c.mutatedPlaceholders()...)
	return "(" + strings.Join(all, ", ") + ")"
}

const mutMark = "\x00MUT\x00"

func (c *fctx) mutatedPlaceholders() []string { return []string{mutMark} }

// block translates stmts followed by the continuation rest (nil = fall off the end of the function)
func (c *fctx) block(stmts []ast.Stmt, rest func(string) string, ind string) string {
	if len(stmts) == 0 {
		if rest != nil {
			return rest(ind)
		}
		// falling off the end: bare return of named results
		var vals []string
		for _, r := range c.results {
			vals = append(vals, r.name)
		}
		return ind + c.retTuple(vals)
	}
	s := stmts[0]
	nextAt := func(i string) string { return c.block(stmts[1:], rest, i) }
	next := func() string { return nextAt(ind) }
	switch x := s.(type) {
	case *ast.ReturnStmt:
		var vals []string
		if len(x.Results) == 0 {
			for _, r := range c.results {
				vals = append(vals, r.name)
			}
		}
		for _, r := range x.Results {
			v, _ := c.expr(r)
			vals = append(vals, v)
		}
		return ind + c.retTuple(vals)
	case *ast.ExprStmt:
		if isLog, _ := isLogCall(x.X); isLog {
			return next()
		}
		// v.Op(a, b) on a big.Int variable mutates v
		if call, ok := x.X.(*ast.CallExpr); ok {
			if f := c.callee(call); f != nil && strings.HasPrefix(f.FullName(), "(*math/big.Int).") {
				if sel, ok := call.Fun.(*ast.SelectorExpr); ok {
					if _, isId := sel.X.(*ast.Ident); isId {
						v, _ := c.expr(call)
						n := c.lhsName(sel.X)
						c.locals[n] = true
						return ind + "let " + n + " := " + v + "\n" + next()
					}
				}
			}
		}
		c.fail("unsupported statement: " + plain(x.X))
		return next()
	case *ast.DeclStmt:
		gd, ok := x.Decl.(*ast.GenDecl)
		if ok && gd.Tok == token.VAR {
			out := ""
			for _, sp := range gd.Specs {
				vs := sp.(*ast.ValueSpec)
				for i, id := range vs.Names {
					n := sanitize(id.Name)
					val := "0"
					if kindOf(c.typeOf(id)) == "B" || kindOf(c.typeOf(id)) == "E" {
						val = "false"
					}
					if i < len(vs.Values) {
						val, _ = c.expr(vs.Values[i])
					}
					c.locals[n] = true
					out += ind + "let " + n + " := " + val + "\n"
				}
			}
			return out + next()
		}
	case *ast.IncDecStmt:
		cur, _ := c.expr(x.X)
		n := c.lhsName(x.X)
		op := "+"
		if x.Tok == token.DEC {
			op = "-"
		}
		c.locals[n] = true
		return ind + "let " + n + " := (" + cur + " " + op + " 1)\n" + next()
	case *ast.AssignStmt:
		if len(x.Rhs) == 1 && len(x.Lhs) >= 1 {
			if len(x.Lhs) == 1 {
				if c.scalarsOnly && (x.Tok == token.ASSIGN || x.Tok == token.DEFINE) {
					k := kindOf(c.typeOf(x.Lhs[0]))
					isNil := false
					if id, ok := x.Rhs[0].(*ast.Ident); ok && id.Name == "nil" {
						isNil = true
					}
					if k == "" || k == "E" || isNil {
						d := strings.Join(strings.Fields(plain(x.Lhs[0])), " ")
						dup := false
						for _, o := range c.skipped {
							dup = dup || o == d
						}
						if !dup {
							c.skipped = append(c.skipped, d)
						}
						return next()
					}
				}
				var v string
				switch x.Tok {
				case token.DEFINE, token.ASSIGN:
					v, _ = c.expr(x.Rhs[0])
				case token.ADD_ASSIGN, token.SUB_ASSIGN, token.MUL_ASSIGN:
					cur, _ := c.expr(x.Lhs[0])
					r, _ := c.expr(x.Rhs[0])
					v = "(" + cur + " " + strings.TrimSuffix(x.Tok.String(), "=") + " " + r + ")"
				default:
					c.fail("unsupported assignment operator: " + x.Tok.String())
				}
				n := c.lhsName(x.Lhs[0])
				c.locals[n] = true
				return ind + "let " + n + " := " + v + "\n" + next()
			}
			// a, err := f(...)
			v, _ := c.expr(x.Rhs[0])
			var names []string
			for _, l := range x.Lhs {
				if id, ok := l.(*ast.Ident); ok && id.Name == "_" {
					names = append(names, "_")
					continue
				}
				n := c.lhsName(l)
				c.locals[n] = true
				names = append(names, n)
			}
			return ind + "let (" + strings.Join(names, ", ") + ") := " + v + "\n" + next()
		}
	case *ast.SwitchStmt:
		// `switch { case c1: …; case c2: …; default: … }` without tag, init or fallthrough: an if chain
		if x.Tag != nil || x.Init != nil {
			c.fail("switch with a tag or an init statement")
			return next()
		}
		var chain ast.Stmt
		var clauses []*ast.CaseClause
		for _, cl := range x.Body.List {
			clauses = append(clauses, cl.(*ast.CaseClause))
		}
		// default last (move it there if it is not)
		var def *ast.CaseClause
		var conds []*ast.CaseClause
		for _, cl := range clauses {
			if cl.List == nil {
				def = cl
			} else {
				conds = append(conds, cl)
			}
			for _, b := range cl.Body {
				if br, ok := b.(*ast.BranchStmt); ok && br.Tok == token.FALLTHROUGH {
					c.fail("switch with fallthrough")
					return next()
				}
			}
		}
		if def != nil {
			chain = &ast.BlockStmt{List: def.Body}
		}
		for i := len(conds) - 1; i >= 0; i-- {
			cond := conds[i].List[0]
			for _, more := range conds[i].List[1:] {
				cond = &ast.BinaryExpr{X: cond, Op: token.LOR, Y: more}
			}
			ifs := &ast.IfStmt{Cond: cond, Body: &ast.BlockStmt{List: conds[i].Body}}
			if chain != nil {
				ifs.Else = chain
			}
			chain = ifs
		}
		if chain == nil {
			return next()
		}
		return c.block(append([]ast.Stmt{chain}, stmts[1:]...), rest, ind)
	case *ast.RangeStmt:
		// `for _, item := range xs { … }` over a slice of integers / booleans, the body assigning
		// to variables of the enclosing function and neither returning nor leaving the loop:
		// a left fold over the list with the assigned variables as the accumulator
		if x.Key != nil {
			if id, ok := x.Key.(*ast.Ident); !ok || id.Name != "_" {
				c.fail("range with an index variable: " + plain(x.X))
				return next()
			}
		}
		item, ok := x.Value.(*ast.Ident)
		sl, isSlice := c.typeOf(x.X).Underlying().(*types.Slice)
		if !ok || !isSlice {
			c.fail("unsupported range: " + plain(x.X))
			return next()
		}
		ek := kindOf(sl.Elem())
		if ek != "I" && ek != "B" {
			c.fail("range over a slice of unsupported elements: " + plain(x.X))
			return next()
		}
		bad := false
		var accs []string
		seenAcc := map[string]bool{}
		ast.Inspect(x.Body, func(n ast.Node) bool {
			switch y := n.(type) {
			case *ast.ReturnStmt, *ast.BranchStmt, *ast.RangeStmt, *ast.ForStmt:
				bad = true
			case *ast.AssignStmt:
				if y.Tok == token.DEFINE {
					bad = true // locals of the body are not supported (keep the subset small)
				}
				for _, l := range y.Lhs {
					n := c.lhsName(l)
					if !seenAcc[n] {
						seenAcc[n] = true
						accs = append(accs, n)
					}
				}
			case *ast.IncDecStmt:
				n := c.lhsName(y.X)
				if !seenAcc[n] {
					seenAcc[n] = true
					accs = append(accs, n)
				}
			}
			return true
		})
		if bad || len(accs) == 0 {
			c.fail("unsupported loop body in range over " + plain(x.X))
			return next()
		}
		xs := sanitize(plain(x.X))
		if !c.listVars[xs] {
			xs = c.param(plain(x.X), "List "+leanTyp(ek))
			c.listVars[xs] = true
		}
		tuple := accs[0]
		if len(accs) > 1 {
			tuple = "(" + strings.Join(accs, ", ") + ")"
		}
		itemName := sanitize(item.Name)
		savedLocals := map[string]bool{}
		for k, v := range c.locals {
			savedLocals[k] = v
		}
		c.locals[itemName] = true
		for _, a := range accs {
			c.locals[a] = true
		}
		body := c.block(x.Body.List, func(i string) string { return i + tuple }, ind+"    ")
		c.locals = savedLocals
		for _, a := range accs {
			c.locals[a] = true
		}
		return ind + "let " + tuple + " := List.foldl (fun acc " + itemName + " =>\n" + ind + "    let " + tuple + " := acc\n" + body + ") " + tuple + " " + xs + "\n" + next()
	case *ast.BlockStmt:
		return c.block(append(append([]ast.Stmt{}, x.List...), stmts[1:]...), rest, ind)
	case *ast.IfStmt:
		// crash guard: the body only logs and calls logger.Fatal*
		onlyLogs, fatal := len(x.Body.List) > 0, false
		for _, b := range x.Body.List {
			es, ok := b.(*ast.ExprStmt)
			if !ok {
				onlyLogs = false
				break
			}
			l, f := isLogCall(es.X)
			if !l {
				onlyLogs = false
				break
			}
			fatal = fatal || f
		}
		if onlyLogs && fatal && x.Else == nil && x.Init == nil {
			d := strings.Join(strings.Fields(plain(x.Cond)), " ")
			dup := false
			for _, o := range c.dropped {
				dup = dup || o == d
			}
			if !dup {
				c.dropped = append(c.dropped, d)
			}
			return next()
		}
		pre := ""
		if x.Init != nil {
			// translate the init statement in front
			return c.block(append([]ast.Stmt{x.Init, &ast.IfStmt{Cond: x.Cond, Body: x.Body, Else: x.Else}}, stmts[1:]...), rest, ind)
		}
		cond, ck := c.expr(x.Cond)
		if ck != "B" {
			c.fail("non-boolean condition: " + plain(x.Cond))
		}
		var els []ast.Stmt
		switch e := x.Else.(type) {
		case *ast.BlockStmt:
			els = e.List
		case *ast.IfStmt:
			els = []ast.Stmt{e}
		}
		// the locals visible after the if are those of the longer path; both branches continue
		// with the same continuation (duplicated text, the functions are tiny)
		saved := map[string]bool{}
		for k, v := range c.locals {
			saved[k] = v
		}
		thenTxt := c.block(x.Body.List, nextAt, ind+"  ")
		l1 := c.locals
		c.locals = map[string]bool{}
		for k, v := range saved {
			c.locals[k] = v
		}
		var elseTxt string
		if len(els) > 0 {
			elseTxt = c.block(els, nextAt, ind+"  ")
		} else {
			elseTxt = c.block(nil, nextAt, ind+"  ")
		}
		for k, v := range l1 {
			c.locals[k] = v
		}
		_ = terminates
		return pre + ind + "if " + cond + " then\n" + thenTxt + "\n" + ind + "else\n" + elseTxt
	}
	c.fail("unsupported statement: " + strings.Join(strings.Fields(render(token.NewFileSet(), s)), " "))
	return next()
}

func (t *fnTarget) translateFn(fd *ast.FuncDecl, pkg *packages.Package, byObj map[*types.Func]*fnTarget) {
	t.found = true
	c := &fctx{info: pkg.TypesInfo, pkg: pkg, seen: map[string]bool{}, locals: map[string]bool{}, byObj: byObj, scalarsOnly: t.scalarsOnly, listVars: map[string]bool{}}
	src := ""
	if t.leaf != "" {
		// the last assignment to the leaf, with earlier assignments to the inlined names substituted
		inl := map[string]bool{}
		for _, n := range t.inline {
			inl[n] = true
		}
		cur := map[string]ast.Expr{}
		poisoned := map[string]bool{} // inlined names assigned under a condition the use does not share
		type asg struct {
			name string
			path []ast.Node
		}
		var earlier []asg
		var stack []ast.Node
		var rhs ast.Expr
		var rhsEnv map[string]ast.Expr
		seenLeaf := 0
		isPrefix := func(a, b []ast.Node) bool {
			if len(a) > len(b) {
				return false
			}
			for i := range a {
				if a[i] != b[i] {
					return false
				}
			}
			return true
		}
		ast.Inspect(fd.Body, func(n ast.Node) bool {
			if n == nil {
				stack = stack[:len(stack)-1]
				return true
			}
			stack = append(stack, n)
			as, ok := n.(*ast.AssignStmt)
			if !ok || len(as.Lhs) != 1 || len(as.Rhs) != 1 {
				return true
			}
			// the path of enclosing blocks (a definition made inside an if / loop / closure body
			// does not reach a use outside that body)
			var path []ast.Node
			for _, x := range stack {
				if _, isBlock := x.(*ast.BlockStmt); isBlock {
					path = append(path, x)
				}
			}
			name := plain(as.Lhs[0])
			snapshot := map[string]ast.Expr{}
			for k, v := range cur {
				snapshot[k] = v
			}
			for _, e := range earlier {
				if !isPrefix(e.path, path) {
					poisoned[e.name] = true
					delete(snapshot, e.name)
					snapshot["\x00poisoned:"+e.name] = as.Rhs[0]
				}
			}
			if name == t.leaf {
				seenLeaf++
				if t.nth == 0 || t.nth == seenLeaf {
					rhs, rhsEnv = as.Rhs[0], snapshot
				}
			}
			if inl[name] {
				substBefore[as.Rhs[0]] = snapshot
				cur[name] = as.Rhs[0]
				earlier = append(earlier, asg{name, path})
			}
			return true
		})
		if rhs == nil {
			t.found = false
			return
		}
		c.subst = rhsEnv
		body, k := c.expr(rhs)
		if c.err != "" {
			t.lean = fmt.Sprintf("-- %s, leaf `%s`: NOT TRANSLATED: %s\n", t.fn, t.leaf, c.err)
			return
		}
		src = strings.Join(strings.Fields(plain(rhs)), " ")
		t.lean = fmt.Sprintf("/-- `%s`, leaf `%s` (inlined: %s): `%s` -/\ndef %s%s : %s :=\n  %s\n", t.fn, t.leaf, strings.Join(t.inline, ","), src, t.name, paramList(c.params), leanTyp(k), body)
		t.npar = len(c.params)
		return
	}
	// whole function: receiver, parameters, named results
	var declared []fparam
	if fd.Recv != nil && len(fd.Recv.List) > 0 && len(fd.Recv.List[0].Names) > 0 {
		r := fd.Recv.List[0]
		c.recv = r.Names[0].Name
		rt := c.typeOf(r.Type)
		if kindOf(rt) == "I" {
			declared = append(declared, fparam{sanitize(c.recv), "Int"})
			if isCoin(rt) {
				// `coin.Amount == nil` is a parameter of its own, placed right after the receiver
				nilUsed := false
				ast.Inspect(fd.Body, func(n ast.Node) bool {
					if b, ok := n.(*ast.BinaryExpr); ok {
						if id, ok := b.Y.(*ast.Ident); ok && id.Name == "nil" && plain(b.X) == c.recv+".Amount" {
							nilUsed = true
						}
					}
					return true
				})
				if nilUsed {
					declared = append(declared, fparam{sanitize(c.recv + ".Amount_nil"), "Bool"})
					coinNilParam[t.name] = true
				}
			}
		} else if st, ok := derefStruct(rt); ok {
			// a structured receiver: the integer / bool fields the body uses, in declaration order
			used := map[string]bool{}
			lenOnly := map[string]bool{}
			inLen := map[*ast.SelectorExpr]bool{}
			ranged := map[string]bool{} // slice fields the body ranges over (only those are taken as lists)
			ast.Inspect(fd.Body, func(n ast.Node) bool {
				if rs, ok := n.(*ast.RangeStmt); ok {
					if s, ok := rs.X.(*ast.SelectorExpr); ok {
						if id, ok := s.X.(*ast.Ident); ok && id.Name == c.recv {
							ranged[s.Sel.Name] = true
						}
					}
				}
				return true
			})
			ast.Inspect(fd.Body, func(n ast.Node) bool {
				if call, ok := n.(*ast.CallExpr); ok {
					if id, ok := call.Fun.(*ast.Ident); ok && id.Name == "len" && len(call.Args) == 1 {
						if s, ok := call.Args[0].(*ast.SelectorExpr); ok {
							inLen[s] = true
						}
					}
				}
				return true
			})
			ast.Inspect(fd.Body, func(n ast.Node) bool {
				if s, ok := n.(*ast.SelectorExpr); ok {
					if id, ok := s.X.(*ast.Ident); ok && id.Name == c.recv {
						if !used[s.Sel.Name] {
							lenOnly[s.Sel.Name] = true
						}
						used[s.Sel.Name] = true
						if !inLen[s] {
							lenOnly[s.Sel.Name] = false
						}
					}
				}
				return true
			})
			t.recvFields = nil
			for i := 0; i < st.NumFields(); i++ {
				f := st.Field(i)
				lt := ""
				if k := kindOf(f.Type()); k != "" && k != "E" {
					lt = leanTyp(k)
				} else if sl, ok := f.Type().Underlying().(*types.Slice); ok && ranged[f.Name()] {
					if ek := kindOf(sl.Elem()); ek == "I" || ek == "B" {
						lt = "List " + leanTyp(ek)
					}
				}
				if used[f.Name()] && lt != "" && !lenOnly[f.Name()] {
					declared = append(declared, fparam{sanitize(c.recv + "." + f.Name()), lt})
					t.recvFields = append(t.recvFields, fparam{f.Name(), lt})
				}
			}
		}
	}
	rangedParams := map[string]bool{}
	ast.Inspect(fd.Body, func(n ast.Node) bool {
		if rs, ok := n.(*ast.RangeStmt); ok {
			if id, ok := rs.X.(*ast.Ident); ok {
				rangedParams[id.Name] = true
			}
		}
		return true
	})
	for _, p := range fd.Type.Params.List {
		k := kindOf(c.typeOf(p.Type))
		if sl, ok := c.typeOf(p.Type).Underlying().(*types.Slice); ok {
			ek := kindOf(sl.Elem())
			for _, n := range p.Names {
				if rangedParams[n.Name] && (ek == "I" || ek == "B") {
					declared = append(declared, fparam{sanitize(n.Name), "List " + leanTyp(ek)})
					c.listVars[sanitize(n.Name)] = true
				}
				// a slice that is not ranged over is only asked for its length or for nil: parameters of their own
			}
			continue
		}
		for _, n := range p.Names {
			if k == "" || k == "E" {
				if !t.scalarsOnly {
					c.fail("unsupported parameter type of " + n.Name)
				}
				continue
			}
			declared = append(declared, fparam{sanitize(n.Name), leanTyp(k)})
		}
	}
	for _, d := range declared {
		c.seen[d.name] = true
	}
	c.params = declared
	var resTypes []string
	if fd.Type.Results != nil {
		for _, r := range fd.Type.Results.List {
			k := kindOf(c.typeOf(r.Type))
			if k == "" {
				c.fail("unsupported result type " + plain(r.Type))
				k = "I"
			}
			n := len(r.Names)
			if n == 0 {
				n = 1
			}
			for i := 0; i < n; i++ {
				resTypes = append(resTypes, leanTyp(k))
				if len(r.Names) > 0 {
					c.results = append(c.results, fparam{sanitize(r.Names[i].Name), leanTyp(k)})
				}
			}
		}
	}
	pre := ""
	for _, r := range c.results {
		z := "0"
		if r.typ == "Bool" {
			z = "false"
		}
		c.locals[r.name] = true
		pre += "  let " + r.name + " := " + z + "\n"
	}
	body := pre + c.block(fd.Body.List, nil, "  ")
	if c.err != "" {
		t.lean = fmt.Sprintf("-- %s: NOT TRANSLATED: %s\n", t.fn, c.err)
		return
	}
	// mutated receiver fields are returned after the results
	sort.Strings(c.mutated)
	mut := strings.Join(c.mutated, ", ")
	if mut == "" {
		body = strings.ReplaceAll(body, ", "+mutMark, "")
		body = strings.ReplaceAll(body, mutMark, "()")
	} else {
		body = strings.ReplaceAll(body, mutMark, mut)
		for _, m := range c.mutated {
			resTypes = append(resTypes, c.mutTypes[m])
		}
	}
	rt := strings.Join(resTypes, " × ")
	if rt == "" {
		rt = "Unit"
	}
	doc := fmt.Sprintf("`%s` translated whole", t.fn)
	if len(c.dropped) > 0 {
		doc += "; crash guards dropped: " + strings.Join(c.dropped, " | ")
	}
	if len(c.mutated) > 0 {
		doc += "; returns the new " + mut + " after the results"
	}
	if len(c.skipped) > 0 {
		doc += "; assignments to fields that are no integers or booleans are not part of the translation: " + strings.Join(c.skipped, ", ")
	}
	t.lean = fmt.Sprintf("/-- %s -/\ndef %s%s : %s :=\n%s\n", doc, t.name, paramList(c.params), rt, body)
	t.npar = len(c.params)
}

func derefStruct(t types.Type) (*types.Struct, bool) {
	if p, ok := t.(*types.Pointer); ok {
		t = p.Elem()
	}
	st, ok := t.Underlying().(*types.Struct)
	return st, ok
}

func paramList(ps []fparam) string {
	out := ""
	for _, p := range ps {
		out += " (" + p.name + " : " + p.typ + ")"
	}
	return out
}

// funcsLean translates every target; decls maps the qualified names to their declarations.
func funcsLean(decls map[string]*ast.FuncDecl, pkgs map[string]*packages.Package) string {
	byObj := map[*types.Func]*fnTarget{}
	for _, t := range fnTargets {
		if fd, ok := decls[t.fn]; ok && t.leaf == "" {
			if o, ok := pkgs[t.fn].TypesInfo.Defs[fd.Name].(*types.Func); ok {
				byObj[o] = t
			}
		}
	}
	// callees first: a target that calls another one comes after it in the file
	order := append([]*fnTarget{}, fnTargets...)
	for _, t := range order {
		if fd, ok := decls[t.fn]; ok {
			// Coin targets register their nil parameter before anybody calls them
			if t.leaf == "" && fd.Recv != nil {
				_ = fd
			}
		}
	}
	var sb strings.Builder
	sb.WriteString("-- GENERATED by /verif/extract (funcs.go) from /repo's working tree: do not edit.\n")
	sb.WriteString("-- Whole functions and inlined leaves of the Go source as Lean definitions (see extract/funcs.go for the subset).\n")
	sb.WriteString("set_option linter.unusedVariables false\n\nnamespace OLP.Gen.Funcs\n\n")
	sb.WriteString("/-- Go's `big.Int.Int64()`: the low 64 bits as a signed number -/\ndef wrap64 (x : Int) : Int := (x + 9223372036854775808) % 18446744073709551616 - 9223372036854775808\n\n")
	sb.WriteString("/-- Go's `big.Int.Cmp` -/\ndef cmp (a b : Int) : Int := if a < b then -1 else if a = b then 0 else 1\n\n")
	// two passes so that callers can name callees irrespective of the list order: Coin nil parameters
	for pass := 0; pass < 2; pass++ {
		for _, t := range fnTargets {
			fd, ok := decls[t.fn]
			if !ok {
				t.found = false
				continue
			}
			t.translateFn(fd, pkgs[t.fn], byObj)
		}
	}
	// emit callees before callers
	emitted := map[string]bool{}
	var emit func(t *fnTarget)
	emit = func(t *fnTarget) {
		if emitted[t.name] {
			return
		}
		emitted[t.name] = true
		for _, o := range fnTargets {
			if o != t && o.leaf == "" && o.found && strings.Contains(t.lean, "("+o.name+" ") {
				emit(o)
			}
		}
		if !t.found {
			sb.WriteString(fmt.Sprintf("-- %s %s: not found in the source (the obligation that names `%s` breaks)\n\n", t.fn, t.leaf, t.name))
			return
		}
		sb.WriteString(t.lean + "\n")
	}
	for _, t := range fnTargets {
		emit(t)
	}
	sb.WriteString("end OLP.Gen.Funcs\n")
	return sb.String()
}

// surveyFuncs tries the whole-function translation on EVERY function of the loaded packages and
// lists the ones inside the subset (aid for choosing targets; `olx -survey`).
func surveyFuncs(decls map[string]*ast.FuncDecl, pkgs map[string]*packages.Package) []string {
	var out []string
	for name, fd := range decls {
		func() {
			defer func() { recover() }()
			t := &fnTarget{fn: name, name: "f"}
			t.translateFn(fd, pkgs[name], map[*types.Func]*fnTarget{})
			if t.found && !strings.Contains(t.lean, "NOT TRANSLATED") && strings.ContainsAny(t.lean, "+-*/%<>≤≥") && strings.Count(t.lean, "\n") > 4 {
				out = append(out, fmt.Sprintf("%s (%d lines)", name, strings.Count(t.lean, "\n")))
			}
		}()
	}
	sort.Strings(out)
	return out
}

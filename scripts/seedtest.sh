#!/bin/bash
# seedtest.sh <seed-id> <property> <out-dir-of-mutation-agent> <worktree> <demo-dest-relative-path> <go-test-pkg> <test-run-regex>
# Confirms a seeded mutation (builds, baseline unchanged, demo fails with / passes without), runs
# ./check <property> against /repo with the patch applied, restores /repo, stores everything in
# /verif/seeded/<seed-id>/.
set -u
ID=$1; PROP=$2; OUT=$3; WT=$4; DEMO_DEST=$5; PKG=$6; RUN=$7
export GOFLAGS=-mod=mod GOPROXY=off GOSUMDB=off GOTOOLCHAIN=local
DEST=/verif/seeded/$ID; mkdir -p $DEST
cp $OUT/patch.diff $DEST/patch.diff
DEMO=$(ls $OUT/demo_test.go $OUT/demo/main.go 2>/dev/null | head -1)
cp $DEMO $DEST/
cp $OUT/NOTES.md $DEST/NOTES.md 2>/dev/null
if [ "${SEED_PHASE:-all}" = "check" ] && [ -f $DEST/.confirm ]; then
  BUILD=$(sed -n 1p $DEST/.confirm); WITH=$(sed -n 2p $DEST/.confirm); WITHOUT=$(sed -n 3p $DEST/.confirm); BASE=$(sed -n 4p $DEST/.confirm)
else
# --- confirm in the scratch worktree
cd $WT && git checkout -q -- . && git clean -fdq -e '*.txt' >/dev/null 2>&1
git apply $DEST/patch.diff || { echo "patch does not apply in worktree"; exit 2; }
BUILD=$(go build ./app/... ./action/... ./data/... ./identity/... ./storage/... ./vm/... ./event/... 2>&1 | grep -v "^#" | head -3)
mkdir -p $(dirname $WT/$DEMO_DEST); cp $DEMO $WT/$DEMO_DEST
WITH=$(go test ${EXTRA_TEST_FLAGS:-} -vet=off -count=1 -run "$RUN" $PKG 2>&1 | tail -3 | tr '\n' ' ')
git apply -R $DEST/patch.diff
WITHOUT=$(go test ${EXTRA_TEST_FLAGS:-} -vet=off -count=1 -run "$RUN" $PKG 2>&1 | tail -3 | tr '\n' ' ')
git apply $DEST/patch.diff; rm -f $WT/$DEMO_DEST
# baseline of the mutated tree (the pinned suite must still pass)
(cd $WT && go test -mod=mod -json -vet=off -count=1 -timeout 25m ./... ) > /tmp/seed_$ID.json 2>/dev/null
BASE=$(python3 - /tmp/seed_$ID.json <<'PY'
import json,sys
passed=set()
for l in open(sys.argv[1]):
    try: e=json.loads(l)
    except Exception: continue
    if e.get('Action')=='pass' and e.get('Test'): passed.add(e['Package']+'::'+e['Test'])
base=json.load(open('/root/.vp/BASELINE.json'))['stable_pass']
missing=[t for t in base if t not in passed]
print(f"{len(base)-len(missing)}/{len(base)} stable tests pass" + (" MISSING "+",".join(missing[:5]) if missing else ""))
PY
)
rm -f /tmp/seed_$ID.json
git checkout -q -- .
fi
if [ "${SEED_PHASE:-all}" = "confirm" ]; then
  echo "confirmed: build='$BUILD' with='$WITH' without='$WITHOUT' base='$BASE'"
  printf '%s\n%s\n%s\n%s\n' "$BUILD" "$WITH" "$WITHOUT" "$BASE" > $DEST/.confirm
  exit 0
fi
# --- run the check against /repo with the patch applied
cd /repo && git apply $DEST/patch.diff || { echo "patch does not apply in /repo"; exit 2; }
cp /verif/evidence/$PROP.json /tmp/evidence_$PROP.keep 2>/dev/null
cd /verif && ./check $PROP > $DEST/check_output.txt 2>&1; RC=$?
git -C /repo checkout -- .
# the evidence file describes the unchanged tree: put back what the run against the patch overwrote
cp /verif/evidence/$PROP.json $DEST/evidence_with_patch.json 2>/dev/null
mv /tmp/evidence_$PROP.keep /verif/evidence/$PROP.json 2>/dev/null
VIOL=$(grep -c "^VIOLATION" $DEST/check_output.txt)
python3 - "$ID" "$PROP" "$BUILD" "$WITH" "$WITHOUT" "$BASE" "$RC" "$VIOL" "$DEMO_DEST" "$PKG" "$RUN" <<'PY'
import json,sys
id,prop,build,with_,without,base,rc,viol,dest,pkg,run=sys.argv[1:]
meta={'seed_id':id,'breaks_property':prop,'confirmed':{'build_errors':build,'demo_with_patch':with_,'demo_without_patch':without,'pinned_suite_with_patch':base},
 'demo':{'place_at':dest,'run':f'go test -vet=off -count=1 -run "{run}" {pkg}'},
 'check':{'cmd':f'./check {prop}','exit':int(rc),'violation_lines':int(viol)}}
p=f'/verif/seeded/{id}/meta.json'
try:
    old=json.load(open(p)); meta['needs_to_manifest']=old.get('needs_to_manifest','')
except Exception: pass
json.dump(meta,open(p,'w'),indent=1)
print(json.dumps(meta,indent=1))
PY
tail -4 $DEST/check_output.txt | cut -c1-220

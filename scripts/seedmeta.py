#!/usr/bin/env python3
"""seedmeta.py <seed-id> <needs_to_manifest> <caught_by>  — completes seeded/<id>/meta.json"""
import sys, json
p = f'/verif/seeded/{sys.argv[1]}/meta.json'
m = json.load(open(p)); m['needs_to_manifest'] = sys.argv[2]; m['caught_by'] = sys.argv[3]
json.dump(m, open(p, 'w'), indent=1); print(m['check'])

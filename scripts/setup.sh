#!/bin/bash
# MANIFEST.setup_cmd: build the framework from files on disk only (offline).
set -e
cd "$(dirname "$0")/.."
export GOFLAGS=-mod=mod GOPROXY=off GOSUMDB=off GOTOOLCHAIN=local
mkdir -p .build evidence out
if [ -d extract ]; then
  (cd extract && cp /repo/go.sum . 2>/dev/null; go build -o ../.build/olx . && ../.build/olx -repo /repo -out ../lean/OLP/Gen)
fi
(cd lean && lake build)
(cd harness && cp /repo/go.sum . && go build -tags verif -ldflags=-checklinkname=0 -o ../.build/olh ./cmd/olh)
echo "setup ok"

#!/usr/bin/env python3
"""Prints the per-property status table of DESIGN §10.4 from scripts/props.py, the evidence files
and known_findings.json (run it after a full sweep on the unchanged tree)."""
import sys, json, re
sys.path.insert(0, '/verif/scripts')
import props
mp = json.load(open('/verif/scripts/manifest_props.json'))
kf = json.load(open('/verif/known_findings.json'))
print('| id | theorem modules | audited theorems | engines | theorems still partial | known findings | repairs recorded |')
print('|----|----|----|----|----|----|----|')
for pid in sorted(props.PROPS):
    P = props.PROPS[pid]
    try:
        ev = json.dumps(json.load(open('/verif/evidence/%s.json' % pid)))
    except Exception:
        ev = ''
    m = re.search(r'"obligations(?:_total)?": (\d+)', ev)
    partial = [t for t in P.get('required_theorems', []) if t.endswith('_partial')]
    kfs = [f['id'] for f in kf['findings'] if f.get('property') == pid]
    nfixed = len([f for f in kf['fixed'] if 'property=' + pid + ' ' in f])
    row = (pid, ', '.join(P['lean_modules']).replace('OLP.Props.', ''), m.group(1) if m else '?',
           mp['claimed'][pid].get('engine', ''), ', '.join(partial) or '—', ', '.join(kfs) or '—', nfixed)
    print('| ' + ' | '.join(str(x) for x in row) + ' |')

#!/bin/bash
# reconfirm.sh <seed-id> <worktree> <demo-dest-relative-path> <go-test-pkg> <test-run-regex>
# Re-runs the confirmation of a stored seed in a scratch worktree (demo with / without the patch,
# and the event package again when its flaky sub-tests were the only ones missing) and writes the
# outcome into seeded/<id>/meta.json. Does not touch /repo.
ID=$1; WT=$2; DEMO_DEST=$3; PKG=$4; RUN=$5
export GOFLAGS=-mod=mod GOPROXY=off GOSUMDB=off GOTOOLCHAIN=local
DEST=/verif/seeded/$ID
DEMO=$(ls $DEST/demo_test.go $DEST/main.go 2>/dev/null | head -1)
cd $WT && git checkout -q -- . && git clean -fdq >/dev/null 2>&1
git apply $DEST/patch.diff || { echo "patch does not apply"; exit 2; }
mkdir -p $(dirname $WT/$DEMO_DEST); cp $DEMO $WT/$DEMO_DEST
WITH=$(go test ${EXTRA_TEST_FLAGS:-} -vet=off -count=1 -run "$RUN" $PKG 2>&1 | tail -3 | tr '\n' ' ')
git apply -R $DEST/patch.diff
WITHOUT=$(go test ${EXTRA_TEST_FLAGS:-} -vet=off -count=1 -run "$RUN" $PKG 2>&1 | tail -3 | tr '\n' ' ')
rm -f $WT/$DEMO_DEST
git apply $DEST/patch.diff
EV=$(go test -vet=off -count=1 -json ./event/ 2>/dev/null | python3 -c "
import sys,json
p=set()
for l in sys.stdin:
    try: e=json.loads(l)
    except Exception: continue
    if e.get('Action')=='pass' and e.get('Test'): p.add(e['Package']+'::'+e['Test'])
print(' '.join(sorted(p)))")
git checkout -q -- .; rm -rf $WT/event/test_dbpath
python3 - "$ID" "$WITH" "$WITHOUT" "$EV" <<'PY'
import json,sys
id,w,wo,ev=sys.argv[1:]
p=f'/verif/seeded/{id}/meta.json'
m=json.load(open(p))
m['confirmed']['demo_with_patch']=w; m['confirmed']['demo_without_patch']=wo
s=m['confirmed'].get('pinned_suite_with_patch','')
if 'MISSING' in s:
    missing=s.split('MISSING ')[1].split(',')
    still=[t for t in missing if t not in ev.split()]
    if not still:
        m['confirmed']['pinned_suite_with_patch']='358/358 stable tests pass (the sub-tests of event::TestTransitions that lost their pass events in the loaded full run pass when the package is run again)'
    else:
        m['confirmed']['pinned_suite_with_patch']=s+' | after re-running ./event still missing: '+','.join(still)
json.dump(m,open(p,'w'),indent=1)
print(id, '| with:', w[:80], '| without:', wo[:80], '|', m['confirmed']['pinned_suite_with_patch'][:90])
PY

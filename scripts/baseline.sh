#!/bin/bash
# Runs the repository's pinned test suite with the `verif` guard OFF and compares the set of
# passing tests with /root/.vp/BASELINE.json (stable_pass).  Exit 0 iff every baseline test passes.
export GOFLAGS=-mod=mod GOPROXY=off GOSUMDB=off GOTOOLCHAIN=local
OUT=${1:-/verif/.build/baseline.gotest.json}
mkdir -p "$(dirname "$OUT")"
(cd /repo && go test -mod=mod -json -vet=off -count=1 -timeout 25m ./... ) > "$OUT" 2>/dev/null
python3 - "$OUT" <<'PY'
import json,sys
passed=set()
for l in open(sys.argv[1]):
    try: e=json.loads(l)
    except Exception: continue
    if e.get('Action')=='pass' and e.get('Test'):
        passed.add(e['Package']+'::'+e['Test'])
base=json.load(open('/root/.vp/BASELINE.json'))['stable_pass']
missing=[t for t in base if t not in passed]
print(f"baseline: {len(base)-len(missing)}/{len(base)} stable tests pass (guard off)")
for t in missing[:50]: print("  MISSING", t)
sys.exit(1 if missing else 0)
PY

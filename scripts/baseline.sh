#!/bin/bash
# Runs the repository's pinned test suite with the `verif` guard OFF and compares the set of
# passing tests with /root/.vp/BASELINE.json (stable_pass).  Exit 0 iff every baseline test passes.
# The event package's TestTransitions sub-tests lose their pass events now and then when the
# machine is busy (their log output interleaves with go test's event stream; BASELINE.json itself
# lists two of them as flaky): packages with a missing test are re-run, up to twice, and the passes
# are united.
export GOFLAGS=-mod=mod GOPROXY=off GOSUMDB=off GOTOOLCHAIN=local
OUT=${1:-/verif/.build/baseline.gotest.json}
REPO=${REPO:-/repo}
mkdir -p "$(dirname "$OUT")"
(cd $REPO && go test -mod=mod -json -vet=off -count=1 -timeout 25m ./... ) > "$OUT" 2>/dev/null
for attempt in 1 2; do
  PK=$(python3 - "$OUT" <<'PY'
import json,sys
passed=set()
for l in open(sys.argv[1]):
    try: e=json.loads(l)
    except Exception: continue
    if e.get('Action')=='pass' and e.get('Test'): passed.add(e['Package']+'::'+e['Test'])
base=json.load(open('/root/.vp/BASELINE.json'))['stable_pass']
print(' '.join(sorted(set(t.split('::')[0].replace('github.com/Oneledger/protocol','.') for t in base if t not in passed))))
PY
)
  [ -z "$PK" ] && break
  (cd $REPO && go test -mod=mod -json -vet=off -count=1 -timeout 25m $PK ) >> "$OUT" 2>/dev/null
done
python3 - "$OUT" <<'PY'
import json,sys
passed=set()
for l in open(sys.argv[1]):
    try: e=json.loads(l)
    except Exception: continue
    if e.get('Action')=='pass' and e.get('Test'):
        passed.add(e['Package']+'::'+e['Test'])
base=json.load(open('/root/.vp/BASELINE.json'))['stable_pass']
missing=[t for t in base if t not in passed]
print(f"baseline: {len(base)-len(missing)}/{len(base)} stable tests pass (guard off)")
for t in missing[:50]: print("  MISSING", t)
sys.exit(1 if missing else 0)
PY
rc=$?
rm -rf "${REPO:-/repo}/event/test_dbpath"
exit $rc

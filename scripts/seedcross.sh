#!/bin/bash
# seedcross.sh <seed-id> <prop> [<prop> ...] — runs other properties' checks against a stored seed
# (apply the patch to /repo, ./check each, restore /repo and the evidence files); appends the
# summary lines to seeded/<id>/cross_checks.txt. Serialised with other seed runs through the lock file /tmp/seed.lock (run seedtest.sh under `flock /tmp/seed.lock` too).
ID=$1; shift
exec 9>/tmp/seed.lock; flock 9
cd /repo && git apply /verif/seeded/$ID/patch.diff || exit 2
cd /verif
for P in "$@"; do
  cp evidence/$P.json /tmp/evidence_$P.keep 2>/dev/null
  ./check $P > /tmp/cross_$ID_$P.txt 2>&1
  echo "== ./check $P against $ID (exit $?)" >> seeded/$ID/cross_checks.txt
  grep -E "^(C[0-9]+ \[|VIOLATION|KNOWN)" /tmp/cross_$ID_$P.txt | cut -c1-260 >> seeded/$ID/cross_checks.txt
  mv /tmp/evidence_$P.keep evidence/$P.json 2>/dev/null
done
git -C /repo checkout -- .
tail -12 seeded/$ID/cross_checks.txt

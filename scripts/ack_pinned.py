#!/usr/bin/env python3
"""Acknowledge edits of pinned (hand-ported) functions: rewrites the hash of every row of the
pinned* tables in lean/OLP/Shell/Expect.lean from the regenerated lean/OLP/Gen/Facts.lean.
Run ONLY after the corresponding model was re-validated against the edited function."""
import re
facts = open('/verif/lean/OLP/Gen/Facts.lean').read()
cur = dict(re.findall(r'⟨"([^"]+)", "([0-9a-f]{12})"⟩', facts[facts.index('def pinned'):]))
p = '/verif/lean/OLP/Shell/Expect.lean'
s = open(p).read()
i = s.index('def pinnedOf')
head, tail = s[:i], s[i:]
def sub(m):
    fn, h = m.group(1), m.group(2)
    if fn in cur and cur[fn] != h:
        print('  acknowledged', fn, h, '->', cur[fn])
        return f'⟨"{fn}", "{cur[fn]}"⟩'
    return m.group(0)
tail = re.sub(r'⟨"([^"]+)", "([0-9a-f]{12})"⟩', sub, tail)
open(p, 'w').write(head + tail)

#!/usr/bin/env python3
"""dedup_idents.py <prefix>=<file>[,<file>..] ...   (files relative to harness/apph)
Builds the harness; for every 'X redeclared in this block' error renames X to <prefix>X in the
files of the first listed group that declares X; repeats until the package builds."""
import sys, re, subprocess, os
groups = []
for a in sys.argv[1:]:
    pre, fs = a.split('=')
    groups.append((pre, fs.split(',')))
env = dict(os.environ, GOFLAGS='-mod=mod', GOPROXY='off', GOSUMDB='off', GOTOOLCHAIN='local')
D = '/verif/harness/apph'
for it in range(60):
    r = subprocess.run(['go', 'build', '-tags', 'verif', './apph/'], cwd='/verif/harness', env=env, capture_output=True, text=True)
    errs = r.stdout + r.stderr
    names = re.findall(r'apph/(\S+?):\d+:\d+: (\w+) redeclared in this block\n\s+apph/(\S+?):\d+', errs)
    if not names:
        print(errs[:2000] if r.returncode else 'builds'); break
    done = set()
    for f1, name, f2 in names:
        if name in done: continue
        for pre, fs in groups:
            hit = [f for f in (f1, f2) if f in fs]
            if hit:
                new = pre + name[0].upper() + name[1:]
                for f in fs:
                    p = os.path.join(D, f); t = open(p).read()
                    t2 = re.sub(r'(?<![\w.])%s\b(?!\s*:[^=])' % re.escape(name), new, t)
                    if t2 != t: open(p, 'w').write(t2)
                print('renamed', name, '->', new, 'in', fs); done.add(name); break
        else:
            print('!! no group owns', name, f1, f2)
    # -e like behaviour: go build reports max 10 errors, loop again

#!/usr/bin/env python3
"""Re-adds the T2 tie modules and theorem names to the PROPS entries of C13, C14, C15, C19 (a slice
re-merge replaces the entry with the slice's own, which does not know them). Idempotent."""
import re
p = '/verif/scripts/props.py'
s = open(p).read()
T = {'C13': ['cycle_no_is_source', 'first_in_cycle_is_source', 'last_in_cycle_is_source'],
     'C14': ['pass_condition_is_source', 'fail_condition_is_source'],
     'C15': ['threshold_is_source_finalized', 'threshold_is_source_failed'],
     'C19': ['required_votes_is_source', 'verdict_is_source']}
for pid, ths in T.items():
    i = s.index("    '%s': dict(" % pid)
    j = s.index('lean_modules=[', i); k = s.index(']', j)
    if 'Arith' not in s[j:k]:
        s = s[:k] + ", 'OLP.Props.%sArith'" % pid + s[k:]
    j = s.index('required_theorems=[', i); k = s.index(']', j)
    missing = [t for t in ths if "'%s'" % t not in s[j:k]]
    if missing:
        s = s[:k] + ', ' + ', '.join("'%s'" % t for t in missing) + s[k:]
open(p, 'w').write(s)
print('arith entries ok')

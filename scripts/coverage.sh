#!/bin/bash
# Statement coverage of /repo's consensus packages under the quick tier of all twenty checks.
# A measurement, not a check: it tells which handlers the engines never reach.
# usage: scripts/coverage.sh [outdir]   (evidence files are put back afterwards)
export GOFLAGS=-mod=mod GOPROXY=off GOSUMDB=off GOTOOLCHAIN=local
OUT=${1:-/verif/.build/cover}
rm -rf $OUT; mkdir -p $OUT/raw /tmp/ev_cov_keep
cd /verif && cp evidence/*.json /tmp/ev_cov_keep/
for p in C01 C02 C03 C04 C05 C06 C07 C08 C09 C10 C11 C12 C13 C14 C15 C16 C17 C18 C19 C20; do
  VERIF_COVERDIR=$OUT/raw ./check $p 2>&1 | grep -E "^C[0-9]+ \[|VIOLATION|check:"
done
cp /tmp/ev_cov_keep/*.json evidence/
go tool covdata textfmt -i=$OUT/raw -o $OUT/cover.txt
(cd /repo && go tool cover -func=$OUT/cover.txt) > $OUT/func.txt 2>/dev/null
python3 - $OUT/func.txt <<'PY'
import sys,re,collections
pk=collections.defaultdict(lambda:[0,0]); zero=[]
for l in open(sys.argv[1]):
    m=re.match(r'github.com/Oneledger/protocol/(\S+?)/[^/]+\.go:\d+:\s+(\S+)\s+([\d.]+)%',l)
    if not m: continue
    d,fn,pc=m.group(1),m.group(2),float(m.group(3))
    pk[d][0]+=1
    if pc==0: pk[d][1]+=1; zero.append(d+' '+fn)
for d,(n,z) in sorted(pk.items()): print(f'{d:45s} functions {n:4d}  never reached {z:4d}')
PY
# the instrumented binary must not stay behind: the next check rebuilds the plain one anyway
rm -f /verif/.build/olh

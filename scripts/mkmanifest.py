#!/usr/bin/env python3
"""Regenerates MANIFEST.json from the table below (kept in one place so it is always valid)."""
import json, os
ROOT = os.path.dirname(os.path.dirname(os.path.abspath(__file__)))
PROPS = json.loads(open(os.path.join(ROOT, 'scripts', 'manifest_props.json')).read())
ALL = ['C%02d' % i for i in range(1, 21)]
checks = []
for pid in ALL:
    if pid not in PROPS['claimed'] or pid in PROPS.get('pending', []):
        continue
    c = PROPS['claimed'][pid]
    checks.append({
        'property_id': pid,
        'quick_cmd': f'./check {pid} --tier quick',
        'thorough_cmd': f'./check {pid} --tier thorough',
        'evidence_file': f'/verif/evidence/{pid}.json',
        'replay_cmd_template': f'./check {pid} --replay {{path}}',
        'engine': c['engine'],
        'level_claimed': {'category': c.get('category', 'proof'), 'text': c['text'], 'design_ref': c['design_ref']},
        'level_note': c['note'],
        'technique': c['technique'],
    })
m = {
    'version': 1,
    'setup_cmd': './scripts/setup.sh',
    'hooks': {
        'guard': 'verif',
        'enable': 'go build -tags verif (the harness module /verif/harness replaces github.com/Oneledger/protocol => /repo and is built with -tags verif on every check)',
        'baseline_off_cmd': '/verif/scripts/baseline.sh',
        'source_commits': PROPS['hook_commits'],
        'add_only': True,
    },
    'engines': PROPS['engines'],
    'checks': checks,
    'notes': PROPS['notes'],
    'not_applicable': [{'property_id': p, 'reason': ('temporarily not claimed, not a statement that the technique does not apply: the model, theorems and engine exist (./check ' + p + '), but /repo has just been repaired in the modelled code and the model is being adapted to the repaired behaviour; it is claimed again once the check passes on the repaired tree (see DESIGN.md section 10)') if p in PROPS.get('pending', []) else PROPS['not_applicable'].get(p, 'not claimed yet: model and correspondence engine under construction (see DESIGN.md section 9); no check registered')} for p in ALL if p not in PROPS['claimed'] or p in PROPS.get('pending', [])],
}
json.dump(m, open(os.path.join(ROOT, 'MANIFEST.json'), 'w'), indent=1)
print('MANIFEST.json:', len(checks), 'checks,', len(m['not_applicable']), 'not applicable')

#!/usr/bin/env python3
"""merge_slice.py <Cxx> <slice-verif-dir> <engine>[,<engine2>] <DriverModule> <lean-area-dir>[,more]

Copies a vertical slice built in a private copy of /verif back into /verif:
new files (lean area dirs, Props/Cxx*.lean, Driver/<Module>.lean, harness/apph files that do not
exist here or are listed as slice-owned, corpus/Cxx) and the small hunks of the shared files
(harness/cmd/olh/main.go case blocks, lean/Driver/Main.lean, lean/OLP.lean, scripts/props.py,
scripts/manifest_props.json, known_findings.json). Shared files are merged textually, never replaced.
"""
import sys, os, re, json, shutil, filecmp

pid, S, engines, drv, areas = sys.argv[1], sys.argv[2].rstrip('/'), sys.argv[3].split(','), sys.argv[4], sys.argv[5].split(',')
V = '/verif'


def cp(rel):
    src, dst = os.path.join(S, rel), os.path.join(V, rel)
    os.makedirs(os.path.dirname(dst), exist_ok=True)
    shutil.copy2(src, dst)
    print('  copied', rel)


# ---- lean files
for a in areas:
    d = os.path.join(S, 'lean', 'OLP', a)
    for f in sorted(os.listdir(d)):
        if f.endswith('.lean'):
            cp(os.path.join('lean', 'OLP', a, f))
for f in sorted(os.listdir(os.path.join(S, 'lean', 'OLP', 'Props'))):
    if f.startswith(pid) and f.endswith('.lean'):
        cp(os.path.join('lean', 'OLP', 'Props', f))
if drv != '-':
    for d in drv.split(','):
        cp(os.path.join('lean', 'Driver', d + '.lean'))
# ---- harness files: new ones only (existing shared files are reported, not overwritten)
changed_shared = []
for root, _, files in os.walk(os.path.join(S, 'harness')):
    for f in files:
        if not f.endswith('.go'):
            continue
        rel = os.path.relpath(os.path.join(root, f), S)
        if rel == 'harness/cmd/olh/main.go':
            continue
        dst = os.path.join(V, rel)
        if not os.path.exists(dst):
            cp(rel)
        elif not filecmp.cmp(os.path.join(S, rel), dst, shallow=False):
            changed_shared.append(rel)
cdir = os.path.join(S, 'corpus', pid)
if os.path.isdir(cdir):
    for f in os.listdir(cdir):
        cp(os.path.join('corpus', pid, f))
# ---- main.go case blocks
src = open(os.path.join(S, 'harness/cmd/olh/main.go')).read()
p = os.path.join(V, 'harness/cmd/olh/main.go')
s = open(p).read()
for e in engines:
    pat = re.compile(r'\tcase [^\n]*"%s"[^\n]*:\n' % re.escape(e))
    m = pat.search(src)
    if not m:
        print('  !! no case block for engine', e)
        continue
    if pat.search(s):
        print('  main.go already has engine', e)
        continue
    rest = src[m.end():]
    n = re.search(r'\n\t(case |default:)', rest)
    block = src[m.start():m.end() + n.start() + 1]
    s = s.replace('\tdefault:\n\t\tfmt.Fprintln(os.Stderr, "unknown engine"', block + '\tdefault:\n\t\tfmt.Fprintln(os.Stderr, "unknown engine"', 1)
    print('  main.go: added engine', e)
# imports the slice's main.go has and ours lacks
imps_src = set(re.findall(r'\n\t("[^"\n]+"|\w+ "[^"\n]+")', src[src.index('import ('):src.index(')', src.index('import ('))]))
imps_dst = set(re.findall(r'\n\t("[^"\n]+"|\w+ "[^"\n]+")', s[s.index('import ('):s.index(')', s.index('import ('))]))
for imp in sorted(imps_src - imps_dst):
    s = s.replace('import (\n', 'import (\n\t' + imp + '\n', 1)
    print('  main.go: added import', imp)
open(p, 'w').write(s)
# ---- Driver/Main.lean
if drv != '-':
    p = os.path.join(V, 'lean/Driver/Main.lean')
    s = open(p).read()
    msrc = open(os.path.join(S, 'lean/Driver/Main.lean')).read()
    for d in drv.split(','):
        if f'import Driver.{d}' not in s:
            s = s.replace('\ndef main', f'import Driver.{d}\n\ndef main', 1).replace('\n\nimport', '\nimport')
        for line in msrc.split('\n'):
            if f'Driver.{d}.' in line and line.strip().startswith('|') and line not in s:
                s = s.replace('  | _ => IO.eprintln', line + '\n  | _ => IO.eprintln', 1)
    s = re.sub(r'\n\n+def main', '\n\ndef main', s)
    open(p, 'w').write(s)
# ---- OLP.lean
p = os.path.join(V, 'lean/OLP.lean')
s = open(p).read()
for line in open(os.path.join(S, 'lean/OLP.lean')).read().split('\n'):
    if line.startswith('import ') and line not in s:
        s = s.rstrip('\n') + '\n' + line + '\n'
        print('  OLP.lean:', line)
open(p, 'w').write(s)
# ---- props.py
sp = open(os.path.join(S, 'scripts/props.py')).read()
p = os.path.join(V, 'scripts/props.py')
s = open(p).read()
low = pid.lower()
for m in re.finditer(r'^def (\w+)\(.*?(?=^def |^PROPS|^SHELL_ASSUME|^[A-Z_]+ = )', sp, re.S | re.M):
    name = m.group(1)
    if re.search(r'^def %s\(' % name, s, re.M):
        continue
    s = s.replace('SHELL_ASSUME = [', m.group(0).rstrip() + '\n\n\nSHELL_ASSUME = [', 1)
    print('  props.py: added def', name)
for m in re.finditer(r'^([A-Z][A-Z0-9_]+) = ', sp, re.M):
    name = m.group(1)
    if name in ('PROPS', 'SHELL_ASSUME') or re.search(r'^%s = ' % name, s, re.M):
        continue
    # copy the assignment (until next top-level statement)
    rest = sp[m.start():]
    n = re.search(r'\n(?=def |[A-Z][A-Z0-9_]+ = |PROPS)', rest)
    s = s.replace('PROPS = {', rest[:n.start()].rstrip() + '\n\nPROPS = {', 1)
    print('  props.py: added constant', name)
import ast
def prop_entry(text, pid):
    tree = ast.parse(text)
    for node in ast.walk(tree):
        if isinstance(node, ast.Assign) and getattr(node.targets[0], 'id', '') == 'PROPS':
            for k, v in zip(node.value.keys, node.value.values):
                if getattr(k, 'value', None) == pid:
                    lines = text.split('\n')
                    return '\n'.join(lines[k.lineno - 1:v.end_lineno])
    return None
entry = prop_entry(sp, pid)
if entry and ("'%s': dict(" % pid) not in s:
    s = s.rstrip()
    assert s.endswith('}')
    s = s[:-1] + entry.rstrip().rstrip(',') + ',\n}\n'
    print('  props.py: added PROPS entry', pid)
open(p, 'w').write(s)
# ---- manifest props
ms = json.load(open(os.path.join(S, 'scripts/manifest_props.json')))
m = json.load(open(os.path.join(V, 'scripts/manifest_props.json')))
if pid in ms.get('claimed', {}):
    m['claimed'][pid] = ms['claimed'][pid]
names = [x['name'] for x in m['engines']]
for e in ms.get('engines', []):
    if e['name'] not in names:
        e['path'] = e['path'].replace(S, V)
        m['engines'].append(e)
if pid not in m['engines'][0]['serves_properties']:
    m['engines'][0]['serves_properties'].append(pid)
json.dump(m, open(os.path.join(V, 'scripts/manifest_props.json'), 'w'), indent=1)
# ---- known findings
ks = json.load(open(os.path.join(S, 'known_findings.json')))
k = json.load(open(os.path.join(V, 'known_findings.json')))
ids = [x['id'] for x in k['findings']]
for f in ks.get('findings', []):
    if f['id'] not in ids and f.get('property') == pid:
        k['findings'].append(f)
        print('  known finding', f['id'])
for f in ks.get('fixed', []):
    if f not in k['fixed'] and ('property=' + pid) in f:
        k['fixed'].append(f)
        print('  fixed entry', f[:80])
json.dump(k, open(os.path.join(V, 'known_findings.json'), 'w'), indent=1)
if changed_shared:
    print('  !! shared harness files differ in the slice (merge by hand):', changed_shared)

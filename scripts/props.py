"""Per-property configuration of ./check: Lean modules, audited namespaces, engines per tier."""
import json, os, subprocess


def run_olh(ctx, engine, args, name=None, timeout=7200):
    out = os.path.join(ctx['build'], f'{name or engine}.{os.getpid()}.json')
    cmd = [ctx['olh'], engine, '-driver', ctx['driver'], '-seed', str(ctx['seed']), '-out', out] + args
    p = subprocess.run(cmd, stdout=subprocess.PIPE, stderr=subprocess.STDOUT, text=True, env=ctx['env'], timeout=timeout, cwd=ctx['root'])
    tail = '\n'.join(l for l in p.stdout.split('\n') if not (len(l) > 2 and l[0] in 'EIDW' and l[1] == '['))
    ctx['log'].append(tail[-20000:])
    if p.returncode != 0 or not os.path.exists(out):
        return {'engine': engine, 'error': f'{" ".join(cmd)} exited {p.returncode}:\n{tail[-3000:]}'}
    r = json.load(open(out))
    os.unlink(out)
    return r


def replay_olh(engine):
    def f(path, ctx):
        p = subprocess.run([ctx['olh'], engine, '-driver', ctx['driver'], '-replay', path], env=ctx['env'], cwd=ctx['root'])
        return p.returncode
    return f


# ---------------------------------------------------------------- C09
def run_c09(ctx):
    corpus = os.path.join(ctx['root'], 'corpus', 'C09')
    if ctx['tier'] == 'quick':
        args = ['-exhaustive', '4', '-random', '1500', '-gas', '500', '-leveldb', '15', '-corpus', corpus]
    else:
        args = ['-exhaustive', '5', '-random', '40000', '-gas', '10000', '-leveldb', '300', '-maxlen', '120', '-corpus', corpus]
    return [run_olh(ctx, 'kv', args)]


PROPS = {
    'C09': dict(
        lean_modules=['OLP.Props.C09'],
        namespaces=['OLP.Props.C09'],
        required_theorems=['get_returns_view', 'deleted_reads_absent', 'discard_invisible', 'commit_persists_block',
                           'old_versions_immutable', 'reopen_returns_last_commit', 'erase_reads_same_state',
                           'commit_log_first_write_order', 'gas_refusal'],
        run=run_c09,
        replay=replay_olh('kv'),
        level='proof',
        assumptions=[
            'IAVL root hash is a deterministic function of the sequence of Set/Remove/SaveVersion calls (validated each run by replaying the model write log into a fresh IAVL tree and comparing roots)',
            'values are never empty byte strings (the generator stores none; every caller in the repo treats len()==0 as absent)',
            'gas arithmetic is modelled over unbounded integers (Go int overflow of the per-block counter is out of scope)',
        ],
        model_limits='goleveldb durability is exercised (real close/reopen) but process-kill timing inside SaveVersion is IAVL/LevelDB territory and trusted',
    ),
}

"""Per-property configuration of ./check: Lean modules, audited namespaces, engines per tier."""
import json, os, subprocess


def run_olh(ctx, engine, args, name=None, timeout=7200):
    out = os.path.join(ctx['build'], f'{name or engine}.{os.getpid()}.json')
    cmd = [ctx['olh'], engine, '-driver', ctx['driver'], '-seed', str(ctx['seed']), '-out', out] + args
    p = subprocess.run(cmd, stdout=subprocess.PIPE, stderr=subprocess.STDOUT, text=True, env=ctx['env'], timeout=timeout, cwd=ctx['root'])
    tail = '\n'.join(l for l in p.stdout.split('\n') if not (len(l) > 2 and l[0] in 'EIDW' and l[1] == '['))
    ctx['log'].append(tail[-20000:])
    if p.returncode != 0 or not os.path.exists(out):
        return {'engine': engine, 'error': f'{" ".join(cmd)} exited {p.returncode}:\n{tail[-3000:]}'}
    r = json.load(open(out))
    os.unlink(out)
    return r


def replay_olh(engine):
    def f(path, ctx):
        p = subprocess.run([ctx['olh'], engine, '-driver', ctx['driver'], '-replay', path], env=ctx['env'], cwd=ctx['root'])
        return p.returncode
    return f


# ---------------------------------------------------------------- C09
def funcs(ctx, group):
    """the generated definitions of OLP/Gen/Funcs.lean executed against the Go functions they were
    translated from (validates the translator's reading of math/big, loops, receivers)"""
    return run_olh(ctx, 'funcs', ['-group', group, '-cases', '6000' if ctx['tier'] == 'quick' else '200000'], name='funcs' + group)


def run_c09(ctx):
    corpus = os.path.join(ctx['root'], 'corpus', 'C09')
    if ctx['tier'] == 'quick':
        args = ['-exhaustive', '4', '-random', '1500', '-gas', '500', '-leveldb', '15', '-corpus', corpus]
    else:
        args = ['-exhaustive', '5', '-random', '40000', '-gas', '10000', '-leveldb', '300', '-maxlen', '120', '-corpus', corpus]
    return [run_olh(ctx, 'kv', args), funcs(ctx, '09')]


def twin_args(ctx, quick, thorough):
    return quick if ctx['tier'] == 'quick' else thorough


def run_c01(ctx):
    return [run_olh(ctx, 'twin', twin_args(ctx, ['-histories', '150', '-blocks', '16', '-maxtxs', '8'], ['-histories', '2000', '-blocks', '30', '-maxtxs', '10'])),
            run_olh(ctx, 'shell', twin_args(ctx, ['-histories', '80', '-blocks', '14'], ['-histories', '800', '-blocks', '24']))]


def exit_is_a_hit(r, args):
    """the gas sweep runs the application in-process: logger.Fatal (os.Exit(1)) under a gas limit
    takes the engine down with it. That is the node exiting, not a failure of the machinery."""
    if 'error' in r and ' exited 1:' in r['error']:
        sig = 'node-exited-during-gas-sweep'
        return {'engine': 'gassweep', 'evaluations': 1, 'distinct_nontrivial': 0, 'rule': 'the engine process ended with exit status 1 (logger.Fatal inside the application) before it could write its result',
                'monitor_hits': [{'signature': sig, 'case': -1, 'detail': 'olh gassweep ' + ' '.join(args) + ' exited with status 1: the application called os.Exit under a finite block gas limit; re-run the command and read app.log in the scratch directory for the Fatal line', 'ops': []}],
                'monitor_hit_count': {sig: 1}, 'distribution': {}, 'counters': {}, 'samples': []}
    return r


def gassweep(ctx, monitors):
    # failure points made by a finite block gas limit, enumerated exactly (harness/apph/gassweep.go)
    args = twin_args(ctx, ['-cases', '80', '-targets', '6'], ['-cases', '1000', '-targets', '8']) + ['-monitors', monitors]
    return exit_is_a_hit(run_olh(ctx, 'gassweep', args), args)


def beginsweep(ctx):
    # what BeginBlock does (matured undelegations, block rewards, votes) must not depend on the block gas limit
    args = twin_args(ctx, ['-cases', '40', '-targets', '0'], ['-cases', '800', '-targets', '0']) + ['-monitors', 'begin-block-effect-depends-on-gas-limit,gas-limit-below-begin-block']
    return exit_is_a_hit(run_olh(ctx, 'gassweep', args), args)


def run_c02(ctx):
    # the shared generator has no OLVM traffic (its accounts hold no Ethereum keys); the olvm engine
    # (C17) mixes OLVM and native transactions on the same accounts and watches the block total: its
    # value monitors are C02's predicate where the EVM object cache sits between the two ledgers
    # (seed C02-finalise-keeps-readonly-objects was missed without it)
    return [gassweep(ctx, 'succeeded-under-gas-limit-with-other-effect'),
            only(run_olh(ctx, 'olvm', twin_args(ctx, ['-histories', '60', '-blocks', '12', '-maxtxs', '8'], ['-histories', '1200', '-blocks', '20', '-maxtxs', '10'])),
                 ['olvm-tx-changed-the-total', 'native-and-evm-balance-differ', 'sender-debit-is-not-gas-plus-value', 'app-closed-by-panic']),
            # the bid application (external_apps/bid): model OLP/Bid, theorems Props/C02Bid, every bid DeliverTx / block function step re-run by the model
            funcs(ctx, '02'),
            run_olh(ctx, 'bidm', twin_args(ctx, ['-histories', '100', '-blocks', '16', '-maxtxs', '6'], ['-histories', '1500', '-blocks', '24', '-maxtxs', '8']))] + run_ledger(ctx)


def run_ledger(ctx):
    return [run_olh(ctx, 'ledger', twin_args(ctx, ['-histories', '300', '-blocks', '14', '-maxtxs', '8'], ['-histories', '4000', '-blocks', '24', '-maxtxs', '10'])),
            run_olh(ctx, 'ledger-direct', twin_args(ctx, ['-histories', '200', '-blocks', '14', '-maxtxs', '8'], ['-histories', '3000', '-blocks', '24', '-maxtxs', '10']))]


def run_c18(ctx):
    # evm: a panic of the state adapter where go-ethereum's own state does not panic is, inside a
    # transaction, a closed application (seed C18-journal-revert-stale-index needs a contract that
    # creates, reads another account and reverts: the operation-level engine of C16 reaches that)
    corpus16 = os.path.join(ctx['root'], 'corpus', 'C16')
    return [gassweep(ctx, 'gas-window-closes-application,gas-limit-below-begin-block-closes-application,app-closed-by-panic'),
            only(run_olh(ctx, 'evm', twin_args(ctx, ['-cases', '2000', '-maxops', '40', '-programs', '200', '-corpus', corpus16], ['-cases', '20000', '-maxops', '40', '-programs', '2000', '-corpus', corpus16])),
                 ['journal-dirty-index-stale', 'adapter-panics-where-reference-does-not']),
            run_olh(ctx, 'nocrash', twin_args(ctx, ['-seeds', '12', '-fuzz', '150', '-parallel', '12'], ['-seeds', '400', '-fuzz', '600', '-parallel', '14']))]


def run_c05(ctx):
    return [run_olh(ctx, 'replay', twin_args(ctx, ['-histories', '200', '-blocks', '16', '-maxtxs', '8'], ['-histories', '2500', '-blocks', '30', '-maxtxs', '10'])),
            run_olh(ctx, 'shell', twin_args(ctx, ['-histories', '80', '-blocks', '14'], ['-histories', '800', '-blocks', '24']))]


def only(result, sigs):
    """keeps the monitor hits of an engine shared with another property that belong to this one"""
    if 'error' in result:
        return result
    keep = lambda s: any(s.startswith(x) for x in sigs)
    other = sum(n for s, n in (result.get('monitor_hit_count') or {}).items() if not keep(s))
    result['monitor_hits'] = [h for h in (result.get('monitor_hits') or []) if keep(h['signature'])]
    result['monitor_hit_count'] = {s: n for s, n in (result.get('monitor_hit_count') or {}).items() if keep(s)}
    result.setdefault('counters', {})['hits_of_other_properties'] = other
    return result


def run_c06(ctx):
    # the olvm engine (C17) delivers refused OLVM transactions between executed ones, in blocks with
    # a finite gas pool too, and compares with a twin that never saw them: its atomicity monitors
    # are C06's own predicate for the EVM object cache, which the store-level twins cannot see
    return [gassweep(ctx, 'failed-under-gas-limit-left-writes,succeeded-under-gas-limit-with-other-effect'),
            only(run_olh(ctx, 'olvm', twin_args(ctx, ['-histories', '60', '-blocks', '12', '-maxtxs', '8'], ['-histories', '1200', '-blocks', '20', '-maxtxs', '10'])),
                 ['refused-', 'resubmitted-bytes-changed-state', 'native-and-evm-balance-differ', 'app-closed-by-panic']),
            run_olh(ctx, 'dropfailed', twin_args(ctx, ['-histories', '150', '-blocks', '16', '-maxtxs', '8'], ['-histories', '2000', '-blocks', '30', '-maxtxs', '10'])),
            run_olh(ctx, 'shell', twin_args(ctx, ['-histories', '80', '-blocks', '14'], ['-histories', '800', '-blocks', '24']))]


def run_c07(ctx):
    return [run_olh(ctx, 'inject', twin_args(ctx, ['-histories', '180', '-blocks', '18', '-maxtxs', '8'], ['-histories', '2500', '-blocks', '30', '-maxtxs', '10'])),
            run_olh(ctx, 'shell', twin_args(ctx, ['-histories', '80', '-blocks', '14'], ['-histories', '800', '-blocks', '24']))]


def run_c08(ctx):
    return [run_olh(ctx, 'crash', twin_args(ctx, ['-histories', '100', '-blocks', '14', '-maxtxs', '8'], ['-histories', '1200', '-blocks', '30', '-maxtxs', '10'])),
            run_olh(ctx, 'shell', twin_args(ctx, ['-histories', '80', '-blocks', '14'], ['-histories', '800', '-blocks', '24']))]


def run_c20(ctx):
    corpus = os.path.join(ctx['root'], 'corpus', 'C20')
    if ctx['tier'] == 'quick':
        args = ['-histories', '600', '-blocks', '24', '-maxtxs', '5', '-corpus', corpus]
    else:
        args = ['-histories', '8000', '-blocks', '30', '-maxtxs', '6', '-corpus', corpus]
    return [run_olh(ctx, 'ons', args), funcs(ctx, '20')]


def run_c12(ctx):
    corpus = os.path.join(ctx['root'], 'corpus', 'C12')
    if ctx['tier'] == 'quick':
        return [beginsweep(ctx), run_olh(ctx, 'deleg', ['-histories', '500', '-blocks', '20', '-maxtxs', '8', '-iter', '3000', '-corpus', corpus])]
    from concurrent.futures import ThreadPoolExecutor
    def one(i):   # several derived seeds, one process each
        c = dict(ctx, seed=ctx['seed'] * 7919 + i)
        return run_olh(c, 'deleg', ['-histories', '2500', '-blocks', '30', '-maxtxs', '10', '-iter', '30000', '-corpus', corpus], name='deleg%d' % i)
    with ThreadPoolExecutor(max_workers=4) as ex:
        return [beginsweep(ctx)] + list(ex.map(one, range(4)))


def run_c15(ctx):
    if ctx['tier'] == 'quick':
        args = ['-histories', '350', '-blocks', '12', '-maxtxs', '6', '-maxwit', '4', '-exhaustive', '4', '-exhwit', '4']
    else:
        args = ['-histories', '3000', '-blocks', '16', '-maxtxs', '8', '-maxwit', '7', '-exhaustive', '8', '-exhwit', '7']
    return [run_olh(ctx, 'ethtrk', args), funcs(ctx, '15')]


def run_c11(ctx):
    corpus = os.path.join(ctx['root'], 'corpus', 'C11')
    if ctx['tier'] == 'quick':
        args = ['-histories', '320', '-blocks', '22', '-maxtxs', '5', '-corpus', corpus]
    else:
        args = ['-histories', '5000', '-blocks', '26', '-maxtxs', '6', '-corpus', corpus]
    return [run_olh(ctx, 'stake', args)]


def run_c13(ctx):
    return [beginsweep(ctx), run_olh(ctx, 'rewards', twin_args(ctx, ['-histories', '200', '-blocks', '30', '-maxtxs', '4'], ['-histories', '2000', '-blocks', '40', '-maxtxs', '5']))]


def run_c17(ctx):
    return [run_olh(ctx, 'olvm', twin_args(ctx, ['-histories', '60', '-blocks', '12', '-maxtxs', '8'], ['-histories', '1200', '-blocks', '20', '-maxtxs', '10'])), funcs(ctx, '17')]


def run_c04(ctx):
    """sig = property monitor on the whole application (mutants of every kind through CheckTx and
    directly in blocks on a twin); sigm = correspondence of OLP/Sig/Model.lean with RawBytes(),
    ValidateBasic + key handlers, and the OLVM validateSigner, plus component-level monitors"""
    return [run_olh(ctx, 'sig', twin_args(ctx, ['-histories', '200', '-blocks', '14', '-maxtxs', '6'], ['-histories', '2500', '-blocks', '24', '-maxtxs', '8'])),
            run_olh(ctx, 'sigm', ['-corpus', os.path.join(ctx['root'], 'corpus', 'C04')] + twin_args(ctx, ['-raw', '15000', '-vb', '20000', '-olvm', '84'], ['-raw', '300000', '-vb', '300000', '-olvm', '672']))]


def run_c19(ctx):
    if ctx['tier'] == 'quick':
        return [run_olh(ctx, 'alleg', ['-histories', '160', '-blocks', '22', '-maxtxs', '7'])]
    out = []
    for k in range(3):  # several derived seeds
        c = dict(ctx, seed=ctx['seed'] * 7919 + k)
        out.append(run_olh(c, 'alleg', ['-histories', '1200', '-blocks', '26', '-maxtxs', '8'], name=f'alleg{k}'))
    return out


def run_c14(ctx):
    return [run_olh(ctx, 'gov', twin_args(ctx, ['-histories', '120', '-blocks', '26', '-maxtxs', '7'], ['-histories', '1500', '-blocks', '32', '-maxtxs', '8']))]


def run_c10(ctx):
    corpus = os.path.join(ctx['root'], 'corpus', 'C10')
    return [run_olh(ctx, 'elect', ['-corpus', corpus] + twin_args(ctx, ['-histories', '400', '-blocks', '24', '-maxtxs', '5', '-heap', '300'],
                                                                    ['-histories', '6000', '-blocks', '28', '-maxtxs', '5', '-heap', '4000']))]


def run_c16(ctx):
    corpus = os.path.join(ctx['root'], 'corpus', 'C16')
    if ctx['tier'] == 'quick':
        args = ['-cases', '2000', '-maxops', '40', '-programs', '200', '-corpus', corpus]
    else:
        args = ['-cases', '40000', '-maxops', '40', '-programs', '4000', '-corpus', corpus]
    return [run_olh(ctx, 'evm', args)]


SHELL_ASSUME = [
    'handlers are abstracted as arbitrary interaction-tree programs; the side conditions of the generic theorems (AllAimed, NoVset, EnvFree, RoomBlind, VolDerived) are discharged for the real code by the regenerated fact tables (T3, `decide`) where a static fact exists, and otherwise exercised dynamically by the twin-replica engines',
    'the shell model is tied to app/controller.go by the `shell` engine: every ABCI call of generated histories (with CheckTx calls and restarts mixed in) is re-run by the Lean model with handlers abstracted to their observed writes; block-cache digests, results, index short-circuits, commit write logs (replayed into IAVL against the real application hash) and Info after restarts must agree',
    'ABCI calls are serialised (Tendermint local client mutex); goroutine interleavings inside one call do not occur on the modelled paths',
]

PROPS = {
    'C01': dict(
        lean_modules=['OLP.Props.C01', 'OLP.Props.C01Facts'], namespaces=['OLP.Props.C01'],
        required_theorems=['env_independent_instance', 'env_independent_calls_instance', 'execBlocks_env_independent', 'runCalls_env_independent', 'block_log_is_cache_in_first_write_order', 'sortKeys_perm_invariant', 'no_unsorted_writing_range', 'map_ranges_as_classified', 'env_uses_as_classified'],
        run=run_c01, replay=replay_olh('twin'), level='proof', assumptions=SHELL_ASSUME,
        model_limits='environment independence of the 39 handlers themselves rests on the extracted envUses/mapRanges tables plus twin replicas (identity, role, witness flag differ; Go map order differs per run), not on per-handler proofs; IAVL determinism is trusted (validated under C09)'),
    'C02': dict(
        lean_modules=['OLP.Props.C02', 'OLP.Props.C02Facts', 'OLP.Props.C02Funcs', 'OLP.Props.C02Bid'], lean_targets=['olpfuncs02'], namespaces=['OLP.Props.C02'],
        required_theorems=['bid_wf_step', 'bid_wf_history', 'bid_step_conserves_value', 'bid_history_conserves_value', 'bid_amounts_nonneg', 'bid_debits_only_authorised', 'bid_refund_exact', 'bid_payout_exact', 'bid_asset_moves_only_on_acceptance', 'minusFrom_is_source', 'isValid_is_source', 'coin_comparisons_spec', 'toCoinWithBase_is_source', 'stake_coinOf_is_source', 'addTo_is_source', 'coinMinus_spec', 'coinPlus_spec', 'ledger_wrap64_is_source', 'stake_int64Of_is_source', 'checkInRange_spec', 'transfer_conserves', 'transfer_nonneg', 'negative_credit_breaks_nonneg', 'send_conserves', 'send_nonneg', 'mismatched_coins_change_total', 'toCoinWithBase_wraps', 'wrap64_exact_iff', 'history_no_creation'],
        run=run_c02, replay=replay_olh('ledger'), level='proof',
        assumptions=['the value ledger is decoded from the committed tree by the harness (record classes and units in harness/apph/ledger.go DecodeLedger); active network delegations are counted through the delegation pool balance that mirrors them (C12)',
                     'allowed per-block accrual = the DelegationPool attribute of the block_rewards event (C13 bounds it by the schedule); wrapped-currency locks do not occur in the genesis families used here (C15)'],
        model_limits='the Lean file carries the generic accounting theorems (every conserving handler is a debit/credit pair of the same coin) plus SEND / fee step at full strength; the per-subsystem instances (stake, delegation, proposal funds, rewards, trackers, domains) are proved with their models in C11-C15, C20; every handler is covered dynamically by the ledger monitor on hostile amounts through CheckTx-gated and direct delivery'),
    'C03': dict(
        lean_modules=['OLP.Props.C03', 'OLP.Props.C03Facts'], namespaces=['OLP.Props.C03'],
        required_theorems=['transfer_debits_only_src', 'negative_coin_debits_receiver', 'send_debits_only_from', 'feeStep_debits_only_signer', 'block_debits_only_authorised', 'signers_as_classified'],
        run=run_ledger, replay=replay_olh('ledger'), level='proof',
        assumptions=['holdings per owner are decoded by the harness (balances, effective / withdrawable / maturing stake, active and pending delegation, delegation reward claims); authorised = signed a transaction of the block, stake account of a signing validator, or validator declared guilty in the block'],
        model_limits='authorisation of the 31 handlers rests on the extracted Signers() table (decide) plus the stranger stream of the ledger engine (every address-typed payload field replaced by a third party while the attacker signs), not on per-handler proofs'),
    'C18': dict(
        lean_modules=['OLP.Props.C18', 'OLP.Props.C18Facts'], namespaces=['OLP.Props.C18'],
        required_theorems=['guarded_undelegate_never_crashes', 'unguarded_undelegate_crashes', 'minus_same_currency_never_crashes', 'plus_same_currency_never_crashes', 'fatal_sites_as_classified'],
        run=run_c18, replay=replay_olh('nocrash'), level='proof',
        assumptions=['proof over a PARTIAL model: the Fatal sites of the coin arithmetic and the guard idiom protecting them; all other Fatal/panic/os.Exit sites are a classified extracted table; Go runtime panics inside libraries (JSON/RLP/ABI decoding, big.Int) are searched by child-process execution only, not proved absent'],
        model_limits='inputs run in child processes (exit status, handlePanic closure, hang, probe SEND afterwards); the failure points a finite block gas limit puts inside the handlers are enumerated exactly by the gassweep engine (every refusable store operation of a generated transaction is in turn the first one refused), not sampled'),
    'C05': dict(
        lean_modules=['OLP.Props.C05', 'OLP.Props.C05Facts', 'OLP.Props.C05Spelling'], namespaces=['OLP.Props.C05'],
        required_theorems=['envelope_fields_as_expected', 'unsigned_part_is_the_signature_list', 'replay_any_spelling_noop', 'two_spellings_not_one', 'replay_any_encoding_noop_guarded', 'replay_any_encoding_rejected_guarded', 'guarded_instance', 'canonical_instance', 'gdH_not_canonical', 'replay_deliver_noop', 'replay_check_rejected', 'executed_tx_indexed', 'index_is_stable', 'replay_noop_in_later_block', 'replay_any_encoding_noop_partial', 'reencoded_replay_executes_twice', 'canonical_guard_present'],
        run=run_c05, replay=replay_olh('replay'), level='proof',
        assumptions=SHELL_ASSUME + ['SHA-256 of the received bytes is collision free (the hash is a parameter of the theorems)', 'the Tendermint kv tx indexer is trusted; the harness feeds it after every block as the indexer service does'],
        model_limits='re-encodings: `replay_any_encoding_noop_guarded` / `_rejected_guarded` state the property without `Canonical`, for handlers of the shape the code has since round 1 — bytes that are not the canonical serialisation of their parse are refused before anything runs (`Guarded`; tied to the source by the T3 fact `canonical_guard_present` for both entry points) — with `parse t2 = parse t1` as "the same signed content"; the older `replay_any_encoding_noop_partial` (under `Canonical`) is kept. What the shell model cannot see is a second spelling INSIDE the parse (another byte string for the same key or signature): one spelling per key and per signature in the key handlers (ED25519: Go rejects s >= L; SECP256K1: fixed length and low-s rule of Tendermint; BTCEC: compressed key only and low-s DER without trailing bytes since d4987f9 / 9dae7fc) — both exercised by the replay engine (re-encoding classes 0-10 over originals signed with the three algorithms); OLVM transactions additionally rely on the account nonce (only `stNonce > msgNonce` is rejected, S12)'),
    'C06': dict(
        lean_modules=['OLP.Props.C06', 'OLP.Props.C06Facts'], namespaces=['OLP.Props.C06'],
        required_theorems=['failed_tx_keeps_store', 'failed_tx_noop', 'remove_failed_deliverAll', 'remove_failed_same_block', 'remove_failed_same_block_of_no_hooks', 'remove_failed_instance', 'remove_failed_former_counterexample_holds', 'failed_tx_starves_later', 'block_room_after_txs', 'hooks_keep_meter', 'deliverer_discipline'],
        run=run_c06, replay=replay_olh('dropfailed'), level='proof', assumptions=SHELL_ASSUME,
        model_limits='the removal theorems hold for handlers that read the gas level only in the fee step and relative to its start (`RoomBlind`, proved from syntax for every program without a `.gas` node: `roomShiftInv_of_syntax`; instance `remove_failed_instance`); no premise on the meter is left: a transaction that did not fail ended below the limit (05efd4a), and the block hooks run unmetered in the model as in the code (359026c, fc77c5a; `hooks_keep_meter`), so that the block whose EndBlock read was starved in the older model now satisfies the conclusion (`remove_failed_former_counterexample_holds`); `failed_tx_starves_later` shows what remains true about the running gas total: a failed transaction can starve a later one, which is then failed and removed as well; the EVM object cache / journal are volatile cells of the generic model: their rollback on failure is covered by C16/C17 and by the olvm engine that run_c06 runs with its atomicity monitors'),
    'C07': dict(
        lean_modules=['OLP.Props.C07', 'OLP.Props.C07Facts'], namespaces=['OLP.Props.C07'],
        required_theorems=['isolation_instance', 'isolation_instance_facts', 'checkTx_keeps_store', 'checktx_isolation', 'unaimed_hook_breaks_isolation', 'check_vset_breaks_isolation', 'begin_hooks_aimed', 'end_hooks_aimed', 'checker_discipline', 'check_path_runs_no_finalisation', 'check_path_statedb_uses'],
        run=run_c07, replay=replay_olh('inject'), level='proof', assumptions=SHELL_ASSUME,
        model_limits='premise CheckNoVset is discharged statically only for the classified volatile setters (option copies); other in-memory fields of the singleton stores (validator queue, EVM caches) are covered by the inject twin'),
    'C08': dict(
        lean_modules=['OLP.Props.C08', 'OLP.Props.C08Facts'], namespaces=['OLP.Props.C08'],
        required_theorems=['crash_history_instance', 'replay_instance', 'cr_volDerived', 'info_after_crash', 'crash_midblock_eq_crash_before', 'replay_converges', 'history_with_crashes_converges', 'prepare_reloads_option_copies'],
        run=run_c08, replay=replay_olh('crash'), level='proof', assumptions=SHELL_ASSUME + ['a crash is a process death with the OS page cache intact: the data directory is byte-copied at the crash point while the application is still open and the copy is reopened; power-loss durability of goleveldb/IAVL batches is trusted'],
        model_limits='premise VolDerived (volatile memory at block boundaries is a function of the persisted tree) is an application-level discipline: checked statically for the option copies (Prepare vs setupState) and dynamically by the crash twin for everything else'),
    'C09': dict(
        lean_modules=['OLP.Props.C09', 'OLP.Props.C09Facts', 'OLP.Props.C09Funcs'], lean_targets=['olpfuncs09'],
        namespaces=['OLP.Props.C09'],
        required_theorems=['consume_monotone', 'refusal_is_permanent', 'left_pos_iff_accepted', 'consumeStrict_is_source', 'consumeAlways_is_source', 'refusal_iff_isEnough', 'getLeft_is_room', 'get_returns_view', 'deleted_reads_absent', 'discard_invisible', 'commit_persists_block',
                           'old_versions_immutable', 'reopen_returns_last_commit', 'erase_reads_same_state',
                           'commit_log_first_write_order', 'gas_refusal', 'gas_refusal_in_session',
                           'get_exactly', 'get_returns_view_or_gas_error', 'get_gas_error_iff', 'no_stale_read',
                           'no_stale_read_reachable', 'has_returns_view_always', 'iter_returns_view_metered',
                           'iter_lists_only_views', 'iter_misses_only_refused', 'iter_complete_when_gas_suffices',
                           'reads_change_only_gas', 'view_set_always', 'accepted_set_is_read_back_always',
                           'view_del_always', 'discarded_session_noop_always',
                           'iterAll_lists_exactly_visible_keys', 'iterAll_lists_exactly_visible_keys_when_gas_suffices',
                           'iterAll_exactly_when_gas_suffices', 'iterAll_lists_only_visible', 'iterAll_lists_visible_unless_refused',
                           'iterAll_sees_pending_writes', 'iterAll_sees_pending_writes_session', 'iterAll_skips_pending_deletes',
                           'iterAll_skips_deleted', 'iterAll_eq_iter_when_nothing_pending', 'iter_sublist_of_iterAll',
                           'iter_misses_pending_only_keys', 'tree_keys_nodup_reachable'],
        run=run_c09,
        replay=replay_olh('kv'),
        level='proof',
        assumptions=[
            'IAVL root hash is a deterministic function of the sequence of Set/Remove/SaveVersion calls (validated each run by replaying the model write log into a fresh IAVL tree and comparing roots)',
            'values are never empty byte strings (the generator stores none; every caller in the repo treats len()==0 as absent)',
            'gas arithmetic is modelled over unbounded integers (Go int overflow of the per-block counter is out of scope)',
            'metered states (every deliver / check state of the application) are covered by the `_always` / `get_exactly` theorems: a read either returns the view or ErrExceedGasLimit (exactly when the meter is used up and the key is not in the session), never another value; State.Delete outside of a session reports success also when the meter refused it (modelled as in the code: `view_del_always` names both cases); the property monitor runs on metered cases too and stops only at such a delete',
        ],
        model_limits='goleveldb durability is exercised (real close/reopen) but process-kill timing inside SaveVersion is IAVL/LevelDB territory and trusted',
    ),
    'C20': dict(
        lean_modules=['OLP.Props.C20', 'OLP.Props.C20Funcs'], lean_targets=['olpfuncs20'], namespaces=['OLP.Props.C20'],
        required_theorems=['renewal_exact_in_source', 'blocks_monotone_in_amount', 'changeable_is_source', 'expiredAt_is_source', 'resetAfterSale_is_source', 'purchase_expiry_lower_bounds', 'blocksFor_is_source', 'calculateExpiry_is_blocksFor', 'calculateRenewal_is_blocksFor', 'expiry_exact_in_source', 'executed_tx_is_validated', 'changes_need_valid_signature', 'at_most_one_owner', 'create_needs_absent_name', 'subs_follow_parent', 'sub_expires_with_parent',
                           'pending_sub_deleted_by_purchase', 
                           'pending_sub_follows_renewal', 'failed_tx_changes_nothing', 'changes_need_owner_or_purchase',
                           'changes_need_root_owner', 'changes_need_root_owner_reachable', 'commits_are_invisible',
                           'send_pays_beneficiary_keeps_registry', 'purchase_needs_sale_or_expiry', 'purchase_pays_owner_at_least_price',
                           'expired_purchase_pays_base', 'sale_state_changes_need_owner_or_purchase', 'ownership_change_clears_sale', 'created_record_is_off_sale', 'expiry_exact_create', 'sub_created_with_parent_expiry',
                           'expiry_exact_renew', 'expiry_exact_purchase_on_sale', 'expiry_exact_purchase_expired',
                           'overlong_payment_is_refused'],
        run=run_c20, replay=replay_olh('ons'), level='proof',
        assumptions=[
            'the ONS model (OLP/Ons/Model.lean) is a hand-written port of the seven run* handlers; it is tied to the code by the `ons` engine: every DeliverTx of every generated history is re-run by the Lean model as a stateless step (decoded registry, balances, fee pool, options, heights, operation -> result class + full post-state) and must agree exactly',
            'DeliverTx runs Validate before the handler: the model step is Validate (signer field = address of the signing key, signature verifies, fee price >= minimum, name well-formed, payment in the chain currency, amount validity) then run*, then the fee step; signature verification itself is a boolean input (crypto is a parameter, as in C04) and the engine delivers forged-owner, wrongly signed, under-priced, non-OLT and ill-named transactions and requires their refusal on both sides (the same rules are additionally probed through CheckTx)',
            'gas metering is layer K: the used gas (or the class of a fee-step failure) observed on the implementation is an input of the model step; URI syntax (net/url.Parse + scheme list) is a boolean input computed by the harness with net/url',
            'expiry exactness is unconditional since f3370a9: blocksFor refuses a block count that does not fit an int64 together with the height it extends, so every executed create / renew / purchase writes exactly anchor + payment-part / perBlockFees (the monitor signature expiry-int64-overflow stays active)',
            'sub-names follow their parent (owner, expiry) along every history since 487c936 (IterateSubDomain -> State.IterateRangeAll visits keys written earlier in the same block; every sub-name loop of action/ons goes through it and nothing else in the handlers iterates); the only hypothesis left is the chain start: RegInv of the genesis registry (empty registry, or genesis sub-names consistent with their parents: setupState does not check this, trusted input)',
        ],
        model_limits='balances are modelled for OLT and VT (send may pay in any registered currency); nil and empty addresses are not distinguished (a JSON null owner cannot be produced by the message types\' own Marshal); names are ASCII; the division-by-zero crash for perBlockFees = 0 (not admitted by governance validation, only by a genesis file) is in the model as Err.crash but not executed on the implementation (C18 territory); write order inside one transaction (IAVL shape) is below this abstraction (C01/C09)'),
    'C12': dict(
        lean_modules=['OLP.Props.C12'], namespaces=['OLP.Props.C12'],
        required_theorems=['pool_eq_active_plus_donations', 'pool_ge_active', 'pool_eq_active_without_donation',
                           'undelegate_effect', 'undelegate_leaves_active_now', 'negative_amounts_refused', 'undelegate_negative_raises_active',
                           'undelegate_own_active_always_succeeds',
                           'begin_credits_exactly_log', 'paid_exactly_once_at_maturity', 'never_early_or_twice',
                           'payments_nonneg', 'reward_withdrawal_paid_exactly_once_at_maturity', 'reward_withdrawal_never_twice',
                           'withdraw_within_balance', 'reward_balance_accounting', 'reward_withdraw_le_accrued',
                           'range_reports_only_its_height', 'old_prefix_range_exact_iff', 'old_prefix_exact_for_maturity_4', 'old_prefix_collision_devnet_maturity',
                           'old_prefix_paid_exactly_once_if_maturity_le_9', 'old_prefix_early_and_double_payment', 'sep_prefix_single_payment_at_19', 's5_negative_undelegate_history', 's5_negative_reinvest_withdraws_unaccrued',
                           's5_negative_withdraw_history', 'deliver_refines_history'],
        run=run_c12, replay=replay_olh('deleg'), level='proof',
        assumptions=[
            'the delegation stores start empty (the generated genesis documents carry no delegation state; LoadDelegators / LoadState of a genesis with delegators is not modelled)',
            'nobody acts as the pool address 00000000000000000001 (it is not the hash of a public key; DeliverTx without signature validation, S10, belongs to C03/C04)',
            'every amount is an OLT amount: an unknown or foreign currency in undelegate / withdraw / reinvest ends in logger.Fatal (S18) and belongs to C18; the engine sends none',
            'the fee step is outside the model: its outcome (charged amount = price x GasUsed, or failure) is an input of each correspondence step, checked for plausibility',
            "the block's delegation reward T (handleDelegationRewards' DelegationRewards, read from the block_rewards event) is an input of the BeginBlock step (its computation belongs to C13); handleBlockRewards is assumed not to return early (it would skip matureDelegationRewards; only on 'never happen by design' errors)",
            'the sign check of runUndelegate / runDeleWithdraw / runReinvest (commit 1db1c08) is the model switch Cfg.checkSign = true; its necessity is proved (counterexamples with checkSign = false, replayed on the implementation, which must refuse them)',
            'the separator at the end of the pending-undelegation range prefix (commit 4adafc1, S17) is the model switch Cfg.sepPrefix = true: the maturity theorems hold for every maturity >= 1; the old prefix is kept as theorems old_prefix_* (exact iff maturity <= 9*height, double payment for 19, collision for 109200) and the real store iterator is compared with the model on colliding heights every run',
        ],
        model_limits='records are decoded values (address, height, integer); the key shapes enter through decPrefix/keyLt (decimal prefix and byte order of <height>_<addr>), tied to the real stores by the piter/rwiter steps; the fee pool, the rewards pool and validator rewards are not part of this model (C02/C13); the model branch poolMinus (pool cannot pay an undelegation) is proved unreachable (undelegate_own_active_always_succeeds) and is therefore not exercised by the correspondence'),
    'C15': dict(
        # OLP.Props.C15Arith (T2 tie: threshold_is_source_finalized / _failed over the generated OLP.Gen.Arith)
        # lives in /verif; a slice workspace whose extractor does not emit Gen/Arith runs without it
        lean_modules=['OLP.Props.C15', 'OLP.Props.C15Arith', 'OLP.Props.C15Funcs'], lean_targets=['olpfuncs15'],
        namespaces=['OLP.Props.C15'],
        required_theorems=['getVotes_is_count', 'finalized_is_source', 'failed_is_source', 'source_not_both', 'vote_only_own_slot_once', 'nonwitness_vote_does_not_count', 'wrong_index_does_not_count', 'second_vote_refused',
                           'yes_count_monotone', 'no_count_monotone', 'threshold_is_more_than_two_thirds', 'never_both_decided',
                           'wf_reachable', 'endBlock_never_panics', 'block_end_is_a_function_of_chain_state', 'block_end_moves_no_value',
                           'block_end_archives_every_decided_tracker', 'transition_depends_on_record_only', 'cleanup_moves_released', 'cleanup_moves_failed',
                           'mint_requires_two_thirds_and_locked_amount', 'mint_to_submitter', 'report_ignores_the_locker_field',
                           'mint_credits_the_tracker_owner', 'lying_report_is_harmless', 'mint_at_most_once', 'never_ongoing_and_completed',
                           'same_external_tx_one_tracker', 'erc20_redeem_after_failed_redeem_is_refused',
                           'duplicate_eth_lock_rejected', 'duplicate_erc20_lock_rejected', 'duplicate_eth_redeem_rejected',
                           'duplicate_erc20_redeem_rejected',
                           'erc20_lock_resubmission_is_refused',
                           'redeem_debits_before_tracker', 'refund_at_most_once', 'refund_requires_two_thirds_no_and_pays_owner',
                           'counted_votes_are_witness_reports', 'tracker_comes_from_submission', 'supply_eq_circulation_partial',
                           'lying_report_cannot_touch_the_supply', 'threshold_is_source_finalized', 'threshold_is_source_failed'],
        run=run_c15, replay=replay_olh('ethtrk'), level='proof',
        assumptions=[
            'the witness list is fixed at genesis and holds no address twice (witness records are keyed by address; nothing adds a witness after InitChain) — hypothesis Cfg.WF of the theorems',
            'an external (Ethereum) transaction is identified with the tracker name the code derives from it (the trailing 32 bytes of the submitted raw transaction, i.e. the S value of its signature); the signed transaction kept in a tracker is abstracted to the amount the repo\'s parser reads from it, its currency, and whether it is addressed to a listed token contract; the harness decodes those independently (go-ethereum RLP decoder + ABI layout) from every stored record',
            'block end: which trackers doEthTransitions visits (State.IterateRange enumerates the keys of the committed tree, minus pending deletes) enters the model as the `names` argument of the endBlock operation — chain state as well; since 7ff9062 the transition functions do not depend on the node-local job store, so the model has no witness-role / job-error input any more; the engine checks it on witness and non-witness nodes and on nodes whose witness role flips mid-history; failures of the node\'s job database itself (SaveJob / DeleteJob I/O errors) are outside the model',
            'the model follows the repaired code (0a509b2 mint to tracker.ProcessOwner, 9de5f06 existence checks in runERC20Lock, efdfa81 failed-store check in runERC20Reddem, 11ae9db malformed payloads refused, 7ff9062 block end independent of the job store): mint_to_submitter, mint_at_most_once and same_external_tx_one_tracker are proved at full strength; the former counterexample histories are regression examples in Lean and scripted regression scenarios (-2 … -5) in the engine, whose monitors (mint-credits-reports-locker-not-submitter, erc20-lock-resubmission-accepted, duplicate-submission-accepted-after-failure, name-in-two-stores, regression-scenario-outcome; none listed in known_findings.json) make a regression a VIOLATION',
            'one _partial theorem remains: supply_eq_circulation_partial needs that no submitter / SEND sender / SEND receiver is the supply address itself — a fact of the signature and validation layer (nobody holds a key for that 22-byte address, Send.Validate refuses it), which this model does not contain',
        ],
        model_limits='Validate/fee handling of the five transaction kinds, the Ethereum side (whether the external transaction exists and is final: the witnesses\' off-chain jobs) and the job store are outside the model; a negative VoteIndex panics in AddVote but is refused by Validate, which DeliverTx now runs (modelled as Res.panic, never sent by this engine: C18); malformed payloads (undecodable, contract creation, selector missing, wrong receiver) are refused since 11ae9db and are part of the generated histories; the supply cap is checked at submission only, not at mint; an ERC20 redeem addressed to the ERC contract can never be finalized (burnERC20Tokens looks the token up by tx.To()) and a failing ERC20 tracker is never archived — modelled as in the code, liveness is not part of the property'),
    'C11': dict(
        lean_modules=['OLP.Props.C11', 'OLP.Props.C11Funcs', 'OLP.Props.C11Clean'], namespaces=['OLP.Props.C11'],
        required_theorems=['stake_address_changes_only_when_clean', 'same_block_unstake_blocks_change', 'powerOf_is_source', 'handleStake_record_is_source', 'frozen_blocks_all_three', 'frozen_owner_cannot_withdraw', 'pending_allegation_blocks_unstake', 'withdraw_needs_bounded',
                           'bounded_changes_only_by_own_withdraw', 'endBlock_credits_current_height', 'schedule_only_from_unstake',
                           'unlock_exactly_at_maturity', 'conservation', 'bounded_nonneg', 'withdrawn_le_staked_minus_penalty',
                           'paid_out_le_paid_in_minus_penalty', 'int64_guard_is_necessary', 'tot_eq_sum_vd',
                           'eff_eq_sum_vd', 'record_matches_validator', 'only_stake_address_holds_stake',
                           'slash_charges_current_stake_address', 'restake_after_zero_keeps_record', 'slash_survives_purge',
                           'powerless_record_deleted_when_settled'],
        run=run_c11, replay=replay_olh('stake'), level='proof',
        assumptions=[
            'the stake model OLP/Stake/Model.lean (ports of data/delegation/store.go, action/staking/{stake,unstake,withdraw}.go incl. Validate, HandleStake/HandleUnstake, the deletion / purge / UpdateWithdrawReward / verdict part of GetEndBlockUpdate, fetchPostponedUnstakes) is tied to the working tree by the `stake` engine: every CheckTx, DeliverTx, BeginBlock and EndBlock of the generated histories is re-run statelessly by the compiled model from the decoded pre-state records and must give the same result class and post-state records',
            'which validators the election purges, which records it allows to be deleted once without power (not in the last commit, inactive for more than two blocks) and which validators the allegation tally finds guilty in an EndBlock are inputs of the model (subjects of C10 / C19); the harness reads them off the implementation (votes, status records, request tombstones); likewise the frozen set, the validator records the store iteration enumerates, and the pending allegation requests (since d2f2af2 CheckRequestExists also sees a request opened earlier in the same block)',
            'the penalty of a guilty verdict is a big.Float expression; it enters the theorems as a parameter function with 0 <= pen t <= t and is instantiated with round-half-up of 30 % (the options of the generated genesis), compared with the implementation on every verdict',
            'clause 4 (validator record = sum of locked amounts) is proved at full strength: the three defects found by this engine are repaired (KF-C11-1 acb5e5c, KF-C11-2 d8b47b0, KF-C11-3 ebb3d1d + 7abde80) and no hypothesis forced by a defect is left; the remaining hypotheses are well-formedness: verdict lists without duplicates (CleanTracker), a finite address universe, the supply bound staking < 2^63 (calculatePower is Int64()), genesis entries with sane amounts and one stake address per validator, 0 <= penalty <= locked total; the maturity theorem assumes the maturity option is never negative and at least 1 during block 1 (governance admits 109200..468000 only)',
            'genesis Staking entries are modelled as genesisStake transactions of block 1 with amounts in [0, 2^63); a maturing amount loaded from the genesis document (DelegationState.MatureAmounts) is not modelled',
            'SetMatureAmounts sorts with sort.Slice, which is a stable insertion sort up to 12 entries; the model sorts stably (longer maturing lists of one height with equal addresses are outside the correspondence)',
        ],
        model_limits='the frozen-owner guard of WITHDRAW goes over the validator records the store iteration enumerates (records that existed at the last commit; a record created in the running block cannot be frozen, STAKE refuses a frozen validator); fee handling and every other balance movement are environment (Tx.credit)'),
    'C13': dict(
        lean_modules=['OLP.Props.C13', 'OLP.Props.C13Arith', 'OLP.Props.C13Funcs', 'OLP.Props.C13Split'], namespaces=['OLP.Props.C13'],
        required_theorems=['delegation_share_le_total', 'commission_chain', 'delegator_credits_le_share', 'validator_shares_le_total', 'per_block_times_blocks_le_left', 'rewardFor_is_source', 'getCycleNo_is_source', 'delegSplit_amounts_are_source', 'delegSplit_credits_are_source', 'recalc_amount_is_source', 'consumed_le_pulled', 'credited_le_consumed', 'credited_le_pulled', 'absent_not_credited', 'consumed_eq_recorded',
                           'block_keeps_nonneg', 'chunk_matures_once', 'withdraw_le_matured', 'validator_withdraw_le_matured',
                           'withdraw_never_raises_matured', 'wrapped_withdraw_raises_matured',
                           'forecast_zero_iff_schedule_over', 'pulled_le_year_left', 'burnout_capped_by_pool', 'till_changes_only_at_cycle_end',
                           'calc_cache_restart_invariant', 'restart_patterns_agree',
                           'stall_regression_example', 'slow_cycle_regression_example',
                           'pulled_le_year_left_by_till', 'pulled_le_year_left_at_cycle_start',
                           'year_never_overdistributed', 'pull_never_fails', 'cycle_no_is_source', 'first_in_cycle_is_source', 'last_in_cycle_is_source'],
        run=run_c13, replay=replay_olh('rewards'), level='proof',
        assumptions=[
            'the one float expression of the calculator, int64(float64(secsToClose*cycle)/float64(secsPerCycle)), is a parameter `fq` of the model and NO theorem assumes anything about it (since fix 2606b58 the forecast is clamped to one cycle whatever it returns); the driver instantiates it with IEEE-754 double division truncated as Go/amd64 does, and the correspondence run compares every pulled amount with the implementation. That the conversion of +-Inf/NaN (a cycle of zero seconds) is the same on every platform is a determinism premise (C01), not used here',
            'block times are whole seconds (as the harness generates them), so Duration.Seconds() truncated to int64 is the exact difference; the calculator theorems hold for ANY block-time sequence (times need not increase); remaining environment hypotheses: heights start at 1, BlockSpeedCalculateCycle > 0',
            'LastCommitInfo lists every validator once with non-negative power (VotesOK); the active network delegations are non-negative and covered by the balance of the delegation pool (ActiveOK = C12 invariant; its necessity is proved by pool_below_active_breaks_bound and the credits themselves are monitored on the implementation every block)',
            'the run-level schedule theorems start from a clean state (every year TillLastCycle = Distributed <= supply, e.g. genesis) and, for year_never_overdistributed / pull_never_fails, assume each block consumes between 0 and what it pulled (UseOK), which is clause 1 (consumed_le_pulled, credits_nonneg)',
            'reward options never change after genesis (governance validation rejects any change: ValidateRewards requires DeepEqual); int64 overflow of heights / seconds is out of scope',
        ],
        model_limits='handleBlockRewards is modelled from PullRewards to ConsumeRewards on decoded records (early error returns for a missing currency / undecodable power / missing pool list are not reachable from a valid genesis and not modelled); the calculator cache is private to the implementation, the driver threads its own copy per replica; the amount the implementation pulls is read from the application\'s own calculator object (cache included) by a PullRewards call on a throw-away State over the committed tree immediately before BeginBlock (same height, same records, so BeginBlock\'s own call returns the same amount and the cache is left as BeginBlock would leave it; an unprobed, never-restarted third replica checks this in every 5th history); chunk-matures-once is proved for chains without interval records (the running chain never writes one), interval records from an exported-state genesis are covered by the correspondence only'),
    'C17': dict(
        lean_modules=['OLP.Props.C17', 'OLP.Props.C17Funcs'], lean_targets=['olpfuncs17'], namespaces=['OLP.Props.C17'],
        required_theorems=['intrinsicGas_is_source', 'buyGas_cost_is_source', 'gasFinal_is_source', 'refund_credit_is_source', 'net_charge_is_gas_used_times_price', 'one_ledger', 'one_ledger_history', 'step_keeps_cache_empty', 'stale_cache_breaks_one_ledger',
                           'sender_debit_exact', 'feepool_credit_exact', 'gas_used_within_limit', 'recipient_credit_exact',
                           'created_contract_credit_exact', 'bystander_untouched', 'nonce_plus_one', 'precheck_failure_noop',
                           'checktx_changes_nothing', 'olvm_value_accounting', 'olvm_conserves_value', 'olvm_total_never_grows',
                           'nothing_burnt_without_selfdestruct', 'olvm_conserves_value_balanced_effs',
                           'olvm_conserves_value_no_inner_moves', 'selfdestruct_conserves_value', 'pay_the_dead_burns_exactly_that',
                           'nonce_above_state_executes_and_can_be_reused'],
        run=run_c17, replay=replay_olh('olvm'), level='proof',
        assumptions=['the run of the EVM interpreter (go-ethereum v1.10.8, trusted) is a parameter of the model: gas left, refund counter, error flag, returned-code flag and the ordered balance-changing calls it made on the StateDB interface (SubBalance / AddBalance / Suicide) that survived its own reverts; in the correspondence these come from a reference run of the same interpreter on go-ethereum\'s own state (core/state over a memory db), not from the implementation',
                     'signature recovery (EIP-155), chain-id comparison, the envelope key\'s address, canonical spelling of payload and memo, JSON / RLP sizes and strconv.ParseUint of the memo are decoded facts of a transaction (Tx.sigOk, chainNil, chainOk, senderOk, signerKeyOk, payloadCanon, typeOk, memoCanon, size, memo); keccak is not modelled: the address of a created contract is an input',
                     'the theorems about an executed transaction are stated for an empty EVM object cache (an invariant of every history: step_keeps_cache_empty) and - for the exact sender / recipient / bystander equalities - accounts whose balance the contract code itself does not move; the value accounting (total\' = total - burnt, burnt = what the objects Finalise deletes still hold) assumes only the interpreter\'s own contract: the balance calls it makes on the state it is handed net to zero (an inner transfer credits what it debits, SELFDESTRUCT pays the beneficiary what Suicide then clears); burnt >= 0 (the total never grows) additionally assumes that the interpreter credits non-negative amounts and that the sender, an account without code, does not selfdestruct; burnt = 0 is proved for every run without a surviving Suicide call'],
        model_limits='contract storage, code bytes and logs are not modelled (C16; in particular a creation whose runtime code is refused by the store - code equal to the deletion marker - fails in Finalise and is neither generated nor modelled); precompile recipients, contracts that CREATE and payloads that fail to unmarshal are neither generated nor modelled; branches of the model that the application cannot reach through ABCI in this tree because Validate runs first (TransitionDb nonce / EOA / funds / intrinsic-gas errors, ContractFeeHandling gas overflow, Validate passing on a shut meter (needs a cost of zero), EVM.Call / create insufficient balance, address collision, a panicking SubBalance) are covered by the theorems but not by the correspondence; the block gas meter is an input of the model, not modelled: Env.gasPool (what is left at the gas-pool test), Env.meterShut (the meter of the deliver / check state is at or over its limit when the transaction arrives: every read of Validate is refused and swallowed, the sender looks empty) and Env.feeGasLeft (what is left when the fee step starts: the contract gas may take the meter to its limit, AddToPool then fails and the transaction fails as a whole); in the finite-block-gas family histories run through meter overflow; transactions on a shut meter and transactions refused at the gas pool are compared with the model (incl. scripted case 4), but where the meter is within 5000 of the gas limit of a transaction, or crosses its limit in the middle of Validate (0 < left < 2500), the harness cannot observe the meter at the deciding instant and only the monitors run (the fee-refusal branch of the model is therefore covered by theorem precheck_failure_noop and the monitor, not by the correspondence)'),
    'C04': dict(
        lean_modules=['OLP.Props.C04', 'OLP.Props.C04Facts'], namespaces=['OLP.Props.C04'],
        required_theorems=['validateBasic_iff', 'validateBasic_never_panics', 'signature_count_mismatch_rejected', 'substituted_signer_rejected',
                           'unverified_signature_rejected', 'accepted_signatures_fix_signers', 'reordered_signatures_rejected',
                           'unser_ser', 'ser_injective', 'serBytes_injective', 'mutation_changes_signed_bytes', 'tamper_needs_fresh_signatures', 'tamper_rejected',
                           'authentic', 'accepted_signatures_bind_message', 'accepted_signatures_bind_transaction', 'no_acceptance_without_verification', 'handler_needs_wellformed_key', 'unusable_key_rejected',
                           'checkTx_admits_only_validated', 'deliverTx_executes_only_validated', 'invalid_signature_delivery_without_effect', 'sigAdmit_basic_iff',
                           'olvm_accepted_iff', 'olvm_sender_recovered', 'olvm_envelope_determined', 'olvm_covered', 'olvm_never_panics', 'olvm_memo_canonical', 'olvm_memo_pins_nonce',
                           'olvm_malformed_signature_rejected', 'olvm_missing_chainid_rejected', 'olvm_foreign_envelope_rejected', 'olvm_foreign_signer_key_rejected',
                           'olvmValidate_ok_iff', 'olvm_payload_bytes_determined', 'olvmValidate_never_panics', 'olvm_signer_key_through_address',
                           'every_handler_checks_signatures', 'every_registered_kind_validates', 'validate_guards_present', 'validate_precedes_processing'],
        run=run_c04, replay=replay_olh('sigm'), level='proof',
        assumptions=[
            'cryptography is a parameter of every theorem (verify / addrOf / Prims / EthLib are arbitrary functions): no unforgeability is assumed; tamper_rejected states it as an explicit hypothesis (every verifying signature was produced by the key owner, who signed nothing but the original bytes)',
            'strings of a parsed transaction are valid UTF-8 (json.Unmarshal replaces invalid bytes; checked on every run by the sigm engine, monitor parsed-string-not-utf8): ser_injective / serBytes_injective quantify over all Unicode strings, all integers and all byte payloads (nil and empty distinguished), base64 and the encoding/json escaping (Go >= 1.22: \\b and \\f short escapes, HTML escaping, U+2028/9) are modelled concretely and proved decodable',
            'premise ValidatesSignatures of the admission theorems (handler.Validate fails when the signature predicate of the kind is false) is tied to the source by the regenerated table validateRows: one row per Go type implementing action.Tx, classified by the shape of its Validate, discharged by decide (OLP/Props/C04Facts.lean); the entry-point discipline (Validate before ProcessCheck/ProcessDeliver/ProcessFee, failure returned) by validateGuards / sessionRule',
            'the shell model (checkTx / deliverTx) is tied to app/controller.go by the `shell` engine of C01/C05-C08; RawBytes(), ValidateBasic with the four key handlers, and the OLVM validateSigner are tied by the `sigm` engine on every run',
        ],
        model_limits='the library primitives (ed25519 / secp256k1 / go-ethereum / btcec point parsing, address hashes, signature verification, EIP-155 sender recovery) are uninterpreted parameters answered by the real libraries in the correspondence run; that a signature accepted for one message is accepted for no other message under the same key (hypothesis MessageBinding of accepted_signatures_bind_message / _transaction, the single-signature consequence of the unforgeability hypothesis of tamper_rejected) is not provable in the model and is VALIDATED per algorithm on every run by the sigm monitor accepted-signature-survives-message-change:<alg>:<position class> (message changed inside the first 32 bytes, at and after byte 32, in the last byte, one byte appended, one dropped) and at application level by the mutant classes on originals signed with ED25519, SECP256K1 and BTCEC accounts (ETHSECP cannot sign a transaction: go-ethereum verifies 32-byte digests only); the BTCEC oracle of sigm is defined independently of the handler (ECDSA over SHA-256(msg) with btcec directly), signatures are produced by two kinds of client (libraries as specified / the repo handlers); the JSON *decoder* is not modelled (unser is a proof device; acceptance of non-canonical encodings is C05); Go < 1.22 escapes \\b and \\f as \\u0008 / \\u000c, so nodes built with different toolchains would disagree on RawBytes() of such memos (outside the model); internal transactions created by block hooks (ExpireProposals / FinalizeProposals) do not pass Validate and are outside this property; OLVM: what remains outside the full-strength statements is (a) the cryptography itself (EthLib.sender is a parameter; go-ethereum enforces low-s) and (b) that the public key named in the signature entry is pinned through its address only (olvm_signer_key_through_address)'),
    'C19': dict(
        lean_modules=['OLP.Props.C19', 'OLP.Props.C19Arith', 'OLP.Props.C19Funcs'], namespaces=['OLP.Props.C19'],
        required_theorems=['bounty_is_source', 'source_bounty_le_penalty', 'verdict_iff_threshold', 'required_is_ceiling', 'votes_are_of_currently_active', 'verdict_from_active_votes_alone',
                           'tally_follows_verdict', 'guilty_only_by_verdict', 'no_active_no_verdict', 'tracker_is_a_set',
                           'one_vote_per_validator', 'second_vote_rejected', 'only_active_can_allege_or_vote',
                           'guilty_frozen_until_release', 'frozen_cannot_stake_unstake_withdraw', 'frozen_owner_cannot_withdraw',
                           'guilty_cannot_stake_until_release', 'penalty_exact_and_bounty_le_penalty',
                           'release_only_after_time', 'guilty_released_only_after_time', 'guilty_verdict_starts_the_clock',
                           'tally_order_independent', 'guilty_dropped_from_set',
                           'cleanup_keeps_requests', 'one_open_request_per_address', 'second_allegation_refused', 'tally_follows_verdict_reachable', 'required_votes_is_source', 'verdict_is_source'],
        run=run_c19, replay=replay_olh('alleg'), level='proof',
        assumptions=[
            'big.Float: the penalty Int(stake*base%/dec + 0.5) is a PARAMETER of the model (FloatOps.penalty); penalty_exact_and_bounty_le_penalty assumes it equals the exact rounding floor((2*stake*pct+dec)/(2*dec)) (Exact F). The harness evaluates the same big.Float expression on every tally line and counts every stake for which it differs from the exact reading (distribution float:penalty-differs-from-exact, never observed; exact for stake*base% < 2^53). The thresholds (required votes, guilty / innocent tests) are integer arithmetic in the code since 1d3139c and carry no assumption',
            'block times are whole seconds in UTC, so LastValidatorHistory.FrozenAt.AddDate(0,0,d) is +86400*d seconds; block times do not decrease (TimeFrom premise of guilty_released_only_after_time)',
            'the heap order in which GetEndBlockUpdate pops the validators is an input of the election model (it is C10\'s subject); the harness obtains it from the repo\'s own queue types on the committed records',
            'transaction admission (signatures, fee payer has a validator record) enters the model as two flags computed by the harness from the transaction bytes and the pre-state; balances, maturity and the validator-record side of STAKE/UNSTAKE/WITHDRAW belong to C11 (only their allegation guards and delegation-store effects are modelled; the validator records the WITHDRAW owner guard iterates are an input)',
            'store iterations: IterateRequests (CheckRequestExists: duplicate check of ALLEGATION, open-request guard of UNSTAKE) goes through State.IterateRangeAll since d2f2af2 and sees every visible request, the model iterates its own request records; the other iterations of the subsystem (IterateSuspiciousValidators at BeginBlock, Validators.Iterate of the WITHDRAW owner guard) still walk committed keys only: the validator records of the owner guard are an input of the model (records with committed keys, current values), which covers every frozen validator because IsFrozenValidator itself reads through the cache',
        ],
        model_limits='the monitor checks "drops out of the validator set" on the application\'s own election (update list and status records) at every height and, for validators that keep a record, on the simulated Tendermint set after 6 consecutive blocks IN WHICH SOMEBODY IS ELECTED: with nobody elected the application keeps the last set (c5836bc, Tendermint cannot run with an empty set), so a convicted last validator stays in Tendermint\'s set until somebody else qualifies (by design). Errors of balance.AddToAddress / delayHandleUnstake inside the tally (the `continue` paths after them) are not modelled (never observed); the refused-debit branch of the slash (MinusFromAddress is all-or-nothing since 7abde80, charged to the current stake address since ebb3d1d) is modelled and proved but not reached by generated histories (the staking handlers keep the three records equal). The nine regression scenarios of the repaired defects (corpus/C19, harness/apph/alleg_script.go) run first in every check and must end in the repaired outcome without any monitor signature.'),
    'C14': dict(
        lean_modules=['OLP.Props.C14', 'OLP.Props.C14Arith', 'OLP.Props.C14Funcs', 'OLP.Props.C14Goal'], namespaces=['OLP.Props.C14'],
        required_theorems=['fund_reaching_goal_starts_voting', 'still_funding_means_below_goal', 'pct_is_source', 'source_share_le_total', 'wf_init', 'wf_reachable', 'active_copy_is_exclusive', 'stage_monotone', 'stage_monotone_history',
                           'voting_starts_only_at_goal_before_deadline', 'expire_only_after_deadline', 'endblock_expiry_only_after_deadline',
                           'outcome_follows_snapshot_votes', 'open_vote_means_undecided', 'snapshot_fixed_when_voting_begins',
                           'config_applied_only_for_passed_proposal', 'config_applied_at_most_once',
                           'funds_returned_in_full_on_cancel_or_miss', 'withdrawal_pays_beneficiary_in_full',
                           'escrow_lowered_only_by_own_withdrawal_or_distribution', 'distributed_once_le_contributed', 'finalize_idempotent',
                           'gov_handlers_conserves_value', 'gov_history_conserves_value', 'distribution_conserves_value',
                           'distribution_refused_without_validator_record', 'expired_is_queued_for_finalisation', 'expired_finalisation_succeeds', 'endblock_finalises_expired',
                           'outsider_expiry_before_deadline_refused', 'outsider_expiry_in_voting_stage', 'boundary_vote_stays_undecided',
                           'expired_proposal_is_finalised_next_block', 'expired_without_vote_records_is_finalised', 'pass_condition_is_source', 'fail_condition_is_source'],
        run=run_c14, replay=replay_olh('gov'), level='proof',
        assumptions=[
            'the tally of ResultSoFar is integer arithmetic (the float percentages are only logged); Go evaluates yesPower*100, (totalPower-noPower)*100 and passPercent*totalPower in int64 while the model uses unbounded integers: total voting power below 2^63/100 (validator power is whole OLT staked). The rule as written in Go is compared every run with the rationals on all 0<=x<=total<=120, pass 1..100 (738000 points)',
            'distribution percentages enter as the integers int64(percentage*10000) computed by the harness with the same Go expression (exact for percentages with at most two decimals that are binary-representable after scaling; the awkward family 33.33/16.67/0.07 is driven through the correspondence)',
            'staking / proposal / evidence option groups are opaque in the model: an update of one of their keys is accepted iff the whole updated group validates, which in the small genesis family is never the case (Env.otherValid = false in the driver; every such proposal is predicted to be rejected at creation and the prediction is compared with the application); fee and ONS option updates are modelled exactly; no theorem constrains Env',
            'validator records, evidence status records and balances are changed by other subsystems between governance steps (ops setVals / setBal of the model); the correspondence feeds every step with the records decoded from the application at that moment',
            'DistOK (percentages non-negative, at most 100 % in total), OptsOK (initial funding thresholds non-negative) and VotingOK (voting periods non-negative) are hypotheses on the option record; genesis is not validated by the application (DESIGN App. C), option updates of these fields are rejected by ValidateProposal',
            'without a committed validator record a distribution is refused (ErrGettingValidatorList, the proposal is marked finalise-failed and keeps its escrow): an error branch of the model, theorem distribution_refused_without_validator_record; expired_finalisation_succeeds / endblock_finalises_expired therefore assume one validator record',
        ],
        model_limits='one model step = one handler execution with the fee as an input (price x gas used, read from the DeliverTx response); signatures, fee-price validation and gas metering belong to C04/C09; Validate is modelled for the amount signs and the validator check only; headline / description strings are not modelled; a fund or vote key deleted and re-created inside one block is modelled as freshly uncommitted (unreachable: records are deleted only at finalisation); EndBlock expiry / finalisation order across different proposals is the key order of the internal queue store (modelled by sorting ids); the internal queue itself is not observable and is tied through its effect at EndBlock (the `end` step receives the items as of BeginBlock); branches never reached by the generator because earlier checks exclude them: statusNotCompleted, finalize-time invalidOptions / finalizeConfigUpdateFailed, configuration update failing validation at finalisation, gettingValidatorList, DeleteAllFunds error; a failed fee step (reached only by an almost empty payer) is reproduced with the price of one gas unit as the lower bound of the charge, because a failed transaction does not report its gas.'),
    'C10': dict(
        lean_modules=['OLP.Props.C10', 'OLP.Props.C10Funcs'], namespaces=['OLP.Props.C10'],
        required_theorems=['feeShare_formula', 'fee_shares_le_total', 'fee_share_nonneg', 'heap_pop_sorted', 'updates_sorted_by_pubkey', 'positive_update_rule', 'at_most_top_count', 'prefers_higher_stake',
                           'removal_only_last_active', 'removal_only_last_active_once', 'no_duplicate_keys', 'no_duplicate_keys_reachable',
                           'nobody_elected_no_updates', 'deletion_rule', 'frozen_not_elected', 'tm_accepts_single_block', 'inv_after_genesis',
                           'removals_name_members', 'tm_accepts_step', 'tm_accepts_all', 'members_keep_records', 'deletion_spares_pending_validators',
                           'converges_within_5', 'all_below_minimum_keeps_the_set', 'unstaked_validator_is_purged_then_deleted',
                           'unbound_genesis_key_rejected', 'non_ed25519_genesis_key_rejected'],
        run=run_c10, replay=replay_olh('elect'), level='proof',
        assumptions=['hook inputs are decoded by the harness from the committed tree of the previous block (v_ records, purged_ heights, es__vss_ statuses, es__ssvk_ frozen records, g_ staking options through the last-update-height indirection) overlaid with the deliver state\'s pending writes (current v_ records for the deletion test), and from the simulated Tendermint (votes = the real ValidatorSet two heights back); the malicious set of a block = frozen records of the previous block + records written by this BeginBlock',
                     'Tendermint v0.33.3 validateValidatorUpdates + ValidatorSet.UpdateWithChangeSet is the acceptance rule; its Lean port `TM.apply` is compared with the real functions on every block of every history and on random component cases covering every rejection reason; consensus params are the defaults (PubKeyTypes = [ed25519])',
                     'an address / public key enters the model as the natural number that orders like its byte string; the Tendermint address of a key is an uninterpreted function `addrOf` in the theorems (hash collisions are outside)',
                     'what remains for Tendermint to accept every returned list (tm_accepts_all): (G) the genesis document gives every stake record the ed25519 key of its own address and every genesis validator a stake record (STAKE enforces the key binding since c35db7c, InitChain does not); (H) handler facts taken from reading the code and monitored on every block: records are keyed by address, no transaction deletes a record, no writer changes the key of a record; (M) MinSelfDelegationAmount > 0; (T) the total power stays below MaxTotalVotingPower (stakes are bounded by the supply). Convergence additionally needs somebody to be eligible (Tendermint has no empty set: with nobody to elect the application keeps the last set)'],
        model_limits='not in the model: fee distribution inside GetEndBlockUpdate, UpdateWithdrawReward and ExecuteAllegationTracker (same hook, no influence on the returned list), how stake / unstake / slashing change the records between blocks (C11: the multi-block theorems quantify over arbitrary record sequences that satisfy the handler facts (H)), how validators get flagged for missed votes (C19: the malicious set is an input); governance changes of the staking options are exercised through the fork block (applyUpdate) and one scripted CONFIG_UPDATE proposal lifecycle in the valid-range option family, not through generated proposals'),
    'C16': dict(
        lean_modules=['OLP.Props.C16'], namespaces=['OLP.Props.C16'],
        required_theorems=['step_refines', 'panics_are_shared', 'run_refines', 'impl_refines_ref_partial', 'impl_refines_ref_decidable_partial',
                           'impl_refines_ref_from_empty_partial', 'sane_storeOK', 'client_refines', 'any_client_same_result_partial', 'sim_init',
                           'storeOK_preserved', 'storeOK_empty', 'sameStart_empty',
                           'no_orphan_storage_step', 'no_orphan_storage_run', 'no_orphan_storage_invariant',
                           'ref_revert_restores', 'ref_finalise_promotes', 'marker_code_fails_finalise',
                           'regress_recreated_account_reads_empty_storage', 'regress_createAccount_over_storage',
                           'regress_historic_residue_not_read',
                           'regress_selfdestruct_balance', 'regress_paid_after_selfdestruct', 'regress_dirty_index',
                           'regress_reverted_transfer_keeps_empty_account'],
        run=run_c16, replay=replay_olh('evm'), level='proof',
        trusted_extra=['go-ethereum v1.10.8 core/state.StateDB over rawdb.NewMemoryDatabase() is the reference semantics (oracle of the monitor); the Lean `Ref` is compared with it call by call on every run',
                       'go-ethereum\'s EVM interpreter is a deterministic client of the vm.StateDB interface (the step from "same interface behaviour" to "same result of every bytecode program", theorem any_client_same_result_partial)'],
        assumptions=['Keccak-256 is injective on the codes and storage keys that occur (the model identifies a code hash with the code and keccak(addr||slot) with (addr, slot)); amounts, nonces and the refund counter are unbounded naturals (uint64 / 256-bit wrap-around is out of scope)',
                     'SubBalance is only called with amount <= balance (every EVM path checks CanTransfer / buyGas first): beyond it the adapter panics ("Failed to minus balance") while go-ethereum lets the balance go negative; counted as precondition-subbalance-underflow, both Lean models refuse',
                     'a contract code equal to the store\'s deletion marker (the 3 bytes e2 9b bc) is outside the property\'s input class: the store refuses the record and Finalise fails the transaction (b55dd24, 078c4d3), which the reference semantics has no counterpart for; counted as excluded-code-equals-deletion-marker, excluded by the guard of the theorems (theorem marker_code_fails_finalise shows the behaviour)',
                     'starting records are sane (Store.sane, decidable, checked by the driver): no empty account is stored and the code of every account is present; an invariant (kept by every call inside the guards, theorem storeOK_preserved; true of the empty records), a hypothesis only for arbitrary starting records. Storage records under an address without an account (left by deletions before 8684164) are allowed',
                     'oracle normalisation, interface-op mode only: go-ethereum journals a resetObjectChange (dirtied() = nil) when an object is created over a live or previously deleted one, so a bare CreateAccount / SubBalance(a,0) leaves the fresh object out of journal.dirties; the harness issues SetNonce(a, current nonce) on the oracle behind every creating call (the EVM itself always follows CreateAccount with SetNonce(1)); not applied when the calls come from the EVM',
                     'transition code cross-check (adapter\'s vm.ApplyMessage vs go-ethereum core.ApplyMessage over go-ethereum state) is modulo the chain\'s own parameters: refund quotient 3 instead of 5, no coinbase payment, zero base fee, nonce-too-high admitted (S12, another property)'],
        model_limits='impl_refines_ref / any_client_same_result are proved under Impl.safeRun / Client.safe, a decidable predicate on the adapter state evaluated by the driver on every correspondence line. After the repairs in /repo (the last one 8684164: the storage records of an account are deleted with it and a created object does not read those of its predecessor) it excludes four things. (1) Finalise returning the store\'s error because an object is written out whose new code is the deletion marker e2 9b bc: reachable from a transaction (a deployment with exactly that runtime code), deliberate since 078c4d3, the reason the theorems keep the name _partial; the guard is exact (Impl.finaliseGuard = this Finalise(true) returns no error). (2) Finalise(false): not reachable, the only call is Finalise(true) in vm/evm.go Apply. (3) Prepare with a non-empty journal or open revisions and (4) Reset with a non-empty journal: not reachable, Prepare is called at the top of DeliverTx and Reset in EndBlock, after the Finalise that ends every applied transaction and empties the journal even when it fails; 2-4 are restrictions of the reference model (go-ethereum\'s own Prepare is not journaled either). No longer excluded: storage residue (former S8 guards), the RIPEMD touch exception (its extra dirty count and the sticky touch decide nothing since the records hold no empty account). Proved as invariants of every reachable state: no journal operation / undo / dirty-counter update can fail, so the adapter panics exactly where the reference does (JOK); Finalise writes out every account with a live journal entry (JCnt, a lower bound on the dirty counters); every dirty slot has its original value cached when commitState runs, followed through createObject/resetObject entries (OOK); the access list is abstracted to counts. At the level of the records (which the interface cannot see because created objects hide old records): no storage record is left under an address without an account (no_orphan_storage_invariant), and the engine compares the raw balance and storage records of every universe address with the reference\'s committed state after every Finalise (signature records-differ-from-reference). dirties + addressToJournalIndex are modelled as one association list (the code keeps them consistent since f45414e; a regression would show as a panic in the correspondence run). The access list is modelled as flat lists (vm/access_list.go is a verbatim copy of go-ethereum\'s), preimages and ForEachStorage are not modelled (ForEachStorage still bounds its iteration with storage.Rangefix, wrong for binary keys; the EVM does not call it), gas metering constants and opcodes are go-ethereum\'s on both sides.'),
}

#!/usr/bin/env python3
"""remerge_slice.py <Cxx> <slice-verif-dir> <DriverModule|-> <lean-area> <harness-file>[,..] [sed-renames 'a=b,c=d']
Re-copies the slice-owned files of an already merged slice after the slice was adapted:
lean area, Props/Cxx*.lean, Driver module, the named harness/apph files, corpus/Cxx, the PROPS
entry, the claimed.Cxx manifest entry, and the property's known_findings entries (findings
replaced, fixed lines added)."""
import sys, os, re, json, shutil, ast
pid, S, drv, area, hfiles = sys.argv[1:6]
ren = dict(x.split('=') for x in sys.argv[6].split(',')) if len(sys.argv) > 6 else {}
V = '/verif'
def cp(rel, rename=False):
    src, dst = os.path.join(S, rel), os.path.join(V, rel)
    os.makedirs(os.path.dirname(dst), exist_ok=True)
    if rename and ren:
        t = open(src).read()
        for a, b in ren.items():
            t = re.sub(r'\b%s\b' % re.escape(a), b, t)
        open(dst, 'w').write(t)
    else:
        shutil.copy2(src, dst)
    print('  copied', rel)
d = os.path.join(S, 'lean/OLP', area)
for f in sorted(os.listdir(d)):
    if f.endswith('.lean'):
        cp(os.path.join('lean/OLP', area, f))
for f in sorted(os.listdir(os.path.join(S, 'lean/OLP/Props'))):
    if f.startswith(pid) and f.endswith('.lean'):
        cp(os.path.join('lean/OLP/Props', f))
if drv != '-':
    cp('lean/Driver/%s.lean' % drv)
for h in hfiles.split(','):
    cp('harness/apph/' + h, rename=True)
cdir = os.path.join(S, 'corpus', pid)
if os.path.isdir(cdir):
    for f in os.listdir(cdir):
        cp(os.path.join('corpus', pid, f))
def prop_span(text, pid):
    tree = ast.parse(text)
    for node in ast.walk(tree):
        if isinstance(node, ast.Assign) and getattr(node.targets[0], 'id', '') == 'PROPS':
            for k, v in zip(node.value.keys, node.value.values):
                if getattr(k, 'value', None) == pid:
                    return k.lineno - 1, v.end_lineno
sp = open(os.path.join(S, 'scripts/props.py')).read()
a, b = prop_span(sp, pid)
entry = sp.split('\n')[a:b]
p = os.path.join(V, 'scripts/props.py'); s = open(p).read()
a2, b2 = prop_span(s, pid)
L = s.split('\n')
e = '\n'.join(entry).rstrip().rstrip(',') + ','
L[a2:b2] = e.split('\n')
s = '\n'.join(L)
# run function of the property
m = re.search(r'^def run_%s\(.*?(?=^def |^PROPS|^SHELL_ASSUME|^[A-Z_]+ = )' % pid.lower(), sp, re.S | re.M)
if m:
    s = re.sub(r'^def run_%s\(.*?(?=^def |^PROPS|^SHELL_ASSUME|^[A-Z_]+ = )' % pid.lower(), lambda _: m.group(0), s, flags=re.S | re.M)
open(p, 'w').write(s)
ms = json.load(open(os.path.join(S, 'scripts/manifest_props.json'))); m = json.load(open(os.path.join(V, 'scripts/manifest_props.json')))
m['claimed'][pid] = ms['claimed'][pid]
m['pending'] = [x for x in m.get('pending', []) if x != pid]
json.dump(m, open(os.path.join(V, 'scripts/manifest_props.json'), 'w'), indent=1)
ks = json.load(open(os.path.join(S, 'known_findings.json'))); k = json.load(open(os.path.join(V, 'known_findings.json')))
k['findings'] = [f for f in k['findings'] if f.get('property') != pid] + [f for f in ks['findings'] if f.get('property') == pid]
for f in ks.get('fixed', []):
    if ('property=' + pid) in f:
        h = f.split()[2]
        k['fixed'] = [x for x in k['fixed'] if not (('property=' + pid) in x and x.split()[2] == h)] + [f]
json.dump(k, open(os.path.join(V, 'known_findings.json'), 'w'), indent=1)
print('  findings of', pid, ':', [f['id'] for f in k['findings'] if f.get('property') == pid])
import subprocess; subprocess.run(["python3", "/verif/scripts/add_arith.py"])

-- Root of the `OLP` library (formal model of Oneledger/protocol and its theorems).
import OLP.Base.Assoc
import OLP.KV.Model
import OLP.KV.Spec
import OLP.KV.Refine
import OLP.Shell.Model
import OLP.Shell.Spec
import OLP.Shell.LemmasA
import OLP.Shell.LemmasB
import OLP.Props.C01
import OLP.Props.C05
import OLP.Props.C06
import OLP.Props.C07
import OLP.Props.C08
import OLP.Props.C09
import OLP.Ons.Model
import OLP.Ons.Lemmas
import OLP.Props.C20

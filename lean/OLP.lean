-- Root of the `OLP` library (formal model of Oneledger/protocol and its theorems).
import OLP.Base.Assoc
import OLP.KV.Model
import OLP.KV.Spec
import OLP.KV.Refine
import OLP.Props.C09

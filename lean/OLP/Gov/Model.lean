/-
  Layer D — governance proposals (C14): lifecycle, votes, escrowed funds, configuration updates.

  Statement-by-statement port of
    action/governance/createProposal.go   (`runTx`)
    action/governance/fundProposal.go     (`runFundProposal`)
    action/governance/voteProposal.go     (`runVote`)
    action/governance/cancelProposal.go   (`runCancel`)
    action/governance/withdrawFunds.go    (`runWithdraw`)
    action/governance/expireVotes.go      (`runExpireVotes`: VOTING status and passed deadline required)
    action/governance/finalizeProposal.go (`runFinalizeProposal`, `distributeFunds`, `getPercentageCoin`,
                                           `setToFinalize*`)
    action/govUpdate.go                   (the update functions, as "validate / apply a named change")
    app/internalTX.go                     (`AddInternalTX`, `ExpireProposals`, `FinalizeProposals`)
    data/governance/proposal_store.go, proposal_vote_store.go (`Setup`, `Update`, `ResultSoFar`),
    proposal_fund_store.go, proposal_fund.go (`AddFunds`, `DeductFunds`, `DeleteAllFunds`).

  Representation.  The five prefix stores, the vote store and the fund store are all keyed by the
  proposal id, so the records are grouped per proposal (`Item`): one optional copy of the proposal
  per store prefix, its vote records, its individual fund records and its total-funds record.
  `State.IterateRange` enumerates the keys of the COMMITTED tree (minus pending deletes) and reads
  their current values, so vote / fund / validator records carry a `committed` flag: a record
  written in the current block is readable by key but invisible to iteration until the block is
  committed (`beginBlock` stands for "Commit of the previous block, then BeginBlock").

  `ResultSoFar` decides in integers (its float percentages are only logged); the distribution
  percentages are the already converted integers `int64(percentage * 10000)`.
  Amounts are unbounded integers.  No modelled path can panic (`distributeFunds` refuses an empty
  validator list).
  Core-only: linked into the driver executable.
-/
import OLP.Base.Assoc
import OLP.Ledger.Model

namespace OLP.Gov
open OLP OLP.Ledger

abbrev Addr := String
abbrev PID := String

/-- `ProposalState` = the prefix store a copy of the proposal lives in -/
inductive Store where
  | active | passed | failed | finalized | finFailed
  deriving DecidableEq, Repr

inductive Status where
  | funding | voting | completed
  deriving DecidableEq, Repr

inductive Outcome where
  | inProgress | insufficientFunds | insufficientVotes | completedNo | cancelled | completedYes
  deriving DecidableEq, Repr

inductive PType where
  | config | code | general
  deriving DecidableEq, Repr

inductive Opinion where
  | unknown | yes | no | giveup
  deriving DecidableEq, Repr

/-- `governance.Proposal` without headline / description (never read by any rule) -/
structure Proposal where
  ptype : PType
  status : Status
  outcome : Outcome
  proposer : Addr
  fundingDeadline : Int
  fundingGoal : Int
  votingDeadline : Int
  passPercent : Int
  cfg : String
  deriving DecidableEq, Repr

/-- `governance.ProposalVote` + visibility to iteration -/
structure VoteRec where
  opinion : Opinion
  power : Int
  committed : Bool
  deriving DecidableEq, Repr

/-- `propFunds_i_<id>_<funder>` + visibility to iteration -/
structure FundRec where
  amount : Int
  committed : Bool
  deriving DecidableEq, Repr

/-- `identity.Validator` (power), `evidence.ValidatorStatus.IsActive`, visibility to iteration -/
structure ValRec where
  power : Int
  active : Bool
  committed : Bool
  deriving DecidableEq, Repr

/-- everything the chain stores under one proposal id -/
structure Item where
  active : Option Proposal := none
  passed : Option Proposal := none
  failed : Option Proposal := none
  finalized : Option Proposal := none
  finFailed : Option Proposal := none
  votes : List (Addr × VoteRec) := []
  funds : List (Addr × FundRec) := []
  total : Int := 0                    -- `propFunds_t_<id>` (absent reads as 0)
  deriving DecidableEq, Repr

/-- `ProposalFundDistribution` as `getPercentageCoin` uses it: `int64(percentage * 10000)`.
    The fee-pool percentage is never read: the pool receives what is left. -/
structure Dist where
  validators : Int
  proposer : Int
  bounty : Int
  exec : Int
  burn : Int
  deriving DecidableEq, Repr

/-- `governance.ProposalOption` (fields the handlers read) -/
structure POpt where
  initialFunding : Int
  fundingGoal : Int
  votingDeadline : Int
  passPercent : Int
  passedDist : Dist
  failedDist : Dist
  execAddr : Addr
  deriving DecidableEq, Repr

/-- governance options: the three proposal option sets, and the option groups the small genesis
    family can change (fee, ONS); the other groups are opaque (`other` logs accepted changes) -/
structure Opts where
  config : POpt
  code : POpt
  general : POpt
  bountyAddr : Addr
  minFeeDecimal : Int
  perBlockFees : Int
  baseDomainPrice : Int
  luhFee : Int                          -- last update height of the fee group
  luhOns : Int
  other : List (String × String × Int)  -- accepted changes to un-modelled groups (key, value, height)
  deriving DecidableEq, Repr

def Opts.byType (o : Opts) : PType → POpt
  | .config => o.config
  | .code => o.code
  | .general => o.general

/-- parameter: the validation of the option groups that are not modelled (staking, proposal,
    evidence) -/
structure Env where
  /-- would `Validate<Group>` accept the group with `key` set to `value` -/
  otherValid : String → String → Bool

/-- the small genesis family: the un-modelled groups are out of range, every update of one of
    their keys is rejected -/
def smallEnv : Env := { otherValid := fun _ _ => false }

/-- the fee pool is the balance record `f_<POOL_KEY>` -/
def poolAcc : Addr := "feepool"

structure St where
  height : Int                    -- `ctx.Header.Height`
  items : List (PID × Item)
  bal : L                         -- OLT balances (and the fee pool)
  burned : Int                    -- ghost: value removed from circulation by distributions
  opts : Opts
  applied : List PID              -- ghost: proposals whose configuration update was executed
  vals : List (Addr × ValRec)
  qExpire : List PID              -- internal transaction queue (`intx` store)
  qFinalize : List PID
  deriving Repr

inductive Err where
  | invalid                       -- rejected by `Validate` (no JSON error code in the log)
  | feeFailed                     -- the fee step failed
  | invalidAmount | invalidFundingGoal | invalidPassPercentage | invalidVotingDeadline
  | invalidFundingDeadline | invalidOptions | validateGovState | proposalExists | deductFunding
  | proposalNotExists | fundingDeadlineCrossed | statusNotFunding | balanceMinusFailed
  | statusNotVoting | votingHeightReached | gettingValidatorList | addingVoteToVoteStore
  | peekingVoteResult | unmatchedProposer | withdrawNotEligible | noSuchFunder
  | statusNotCompleted | unableToQueryVoteResult | votingTBD | finalizeConfigUpdateFailed
  deriving DecidableEq, Repr

inductive Res where
  | ok | err (e : Err)
  deriving DecidableEq, Repr

/-! ### items -/

def Item.get (it : Item) : Store → Option Proposal
  | .active => it.active
  | .passed => it.passed
  | .failed => it.failed
  | .finalized => it.finalized
  | .finFailed => it.finFailed

/-- `ProposalStore.WithPrefixType(st).Set` -/
def Item.set (it : Item) (st : Store) (p : Proposal) : Item :=
  match st with
  | .active => { it with active := some p }
  | .passed => { it with passed := some p }
  | .failed => { it with failed := some p }
  | .finalized => { it with finalized := some p }
  | .finFailed => { it with finFailed := some p }

/-- `ProposalStore.WithPrefixType(st).Delete` (always succeeds) -/
def Item.del (it : Item) (st : Store) : Item :=
  match st with
  | .active => { it with active := none }
  | .passed => { it with passed := none }
  | .failed => { it with failed := none }
  | .finalized => { it with finalized := none }
  | .finFailed => { it with finFailed := none }

/-- replace the vote records -/
def Item.withVotes (it : Item) (vs : List (Addr × VoteRec)) : Item := { it with votes := vs }

/-- `ProposalStore.Exists` -/
def Item.exists (it : Item) : Bool :=
  it.active.isSome || it.passed.isSome || it.failed.isSome || it.finalized.isSome || it.finFailed.isSome

/-- `ProposalStore.QueryAllStores`: active, passed, failed, finalized, finalizeFailed in this order -/
def Item.queryAll (it : Item) : Option Proposal :=
  match it.active with
  | some p => some p
  | none =>
  match it.passed with
  | some p => some p
  | none =>
  match it.failed with
  | some p => some p
  | none =>
  match it.finalized with
  | some p => some p
  | none => it.finFailed

/-- the copy `runFinalizeProposal` works on: PASSED first, then FAILED -/
def Item.decided (it : Item) : Option Proposal :=
  match it.passed with
  | some p => some p
  | none => it.failed

def St.item (s : St) (pid : PID) : Item := (alookup pid s.items).getD {}
def St.setItem (s : St) (pid : PID) (it : Item) : St := { s with items := upsert s.items pid it }

/-! ### validators -/

/-- `ValidatorStore.GetValidatorSet`: iteration, hence committed records only -/
def cvals (vals : List (Addr × ValRec)) : List (Addr × ValRec) := vals.filter (·.2.committed)

/-- `GetActiveValidatorList` -/
def activeVals (vals : List (Addr × ValRec)) : List (Addr × ValRec) := (cvals vals).filter (·.2.active)

/-! ### votes (proposal_vote_store.go) -/

/-- `Setup`: writes `(validator, OPIN_UNKNOWN, power)`; an existing key keeps its place in the tree -/
def setupVote (votes : List (Addr × VoteRec)) (v : Addr) (power : Int) : List (Addr × VoteRec) :=
  match alookup v votes with
  | some r => upsert votes v { r with opinion := .unknown, power := power }
  | none => upsert votes v { opinion := .unknown, power := power, committed := false }

/-- the snapshot loop of `runFundProposal` -/
def snapshot (votes : List (Addr × VoteRec)) (vals : List (Addr × ValRec)) : List (Addr × VoteRec) :=
  (activeVals vals).foldl (fun vs v => setupVote vs v.1 v.2.power) votes

/-- `Update`: the record must exist (read by key); only the opinion changes -/
def updateVote (votes : List (Addr × VoteRec)) (v : Addr) (o : Opinion) : Option (List (Addr × VoteRec)) :=
  match alookup v votes with
  | some r => some (upsert votes v { r with opinion := o })
  | none => none

/-- power of the records holding opinion `o` -/
def powerOf (o : Opinion) : List (Addr × VoteRec) → Int
  | [] => 0
  | (_, r) :: t => (if r.opinion = o then r.power else 0) + powerOf o t

def allPower : List (Addr × VoteRec) → Int
  | [] => 0
  | (_, r) :: t => r.power + allPower t

/-- the records `GetVotesByID` finds: committed keys with their current values -/
def cvotes (votes : List (Addr × VoteRec)) : List (Addr × VoteRec) := votes.filter (·.2.committed)

inductive VoteResult where
  | passed | failed | tbd
  deriving DecidableEq, Repr

/-- PASSED: the yes power reaches the pass percentage of the power that did not give up
    (`yesPower*100 >= passPercent*totalPower`; without counted power: `passPercent <= 0`) -/
def passCond (yes all giveup pass : Int) : Prop :=
  if all - giveup > 0 then pass * (all - giveup) ≤ yes * 100 else pass ≤ 0

/-- FAILED: even with every other validator voting yes the percentage cannot be reached
    (`(totalPower-noPower)*100 < passPercent*totalPower`; without counted power: `passPercent > 100`) -/
def failCond (no all giveup pass : Int) : Prop :=
  if all - giveup > 0 then ((all - giveup) - no) * 100 < pass * (all - giveup) else 100 < pass

instance (yes all giveup pass : Int) : Decidable (passCond yes all giveup pass) := by
  unfold passCond; infer_instance
instance (no all giveup pass : Int) : Decidable (failCond no all giveup pass) := by
  unfold failCond; infer_instance

/-- the decision of `ResultSoFar` given the accumulated powers (integer arithmetic) -/
def decide3 (yes no all giveup pass : Int) : VoteResult :=
  if passCond yes all giveup pass then .passed
  else if failCond no all giveup pass then .failed
  else .tbd

/-- `ResultSoFar`: `none` = "no votes records found" (error) -/
def resultSoFar (votes : List (Addr × VoteRec)) (pass : Int) : Option VoteResult :=
  let c := cvotes votes
  if c.isEmpty then none
  else some (decide3 (powerOf .yes c) (powerOf .no c) (allPower c) (powerOf .giveup c) pass)

/-! ### funds (proposal_fund_store.go) -/

def fundAmount (funds : List (Addr × FundRec)) (f : Addr) : Int :=
  match alookup f funds with
  | some r => r.amount
  | none => 0

/-- `addAmount` on the individual key -/
def addFundRec (funds : List (Addr × FundRec)) (f : Addr) (v : Int) : List (Addr × FundRec) :=
  match alookup f funds with
  | some r => upsert funds f { r with amount := r.amount + v }
  | none => upsert funds f { amount := v, committed := false }

/-- `AddFunds` -/
def Item.addFunds (it : Item) (f : Addr) (v : Int) : Item :=
  { it with funds := addFundRec it.funds f v, total := it.total + v }

/-- `IsFundedByFunder`: iteration over committed keys -/
def isFundedBy (funds : List (Addr × FundRec)) (f : Addr) : Bool :=
  match alookup f funds with
  | some r => r.committed
  | none => false

/-- `DeductFunds`: individual record first, then the total; `Amount.Minus` refuses a negative result -/
def Item.deductFunds (it : Item) (f : Addr) (v : Int) : Option Item :=
  let a := fundAmount it.funds f
  if a - v < 0 then none
  else if it.total - v < 0 then none
  else
    let funds' := match alookup f it.funds with
      | some r => upsert it.funds f { r with amount := a - v }
      | none => upsert it.funds f { amount := a - v, committed := false }
    some { it with funds := funds', total := it.total - v }

/-- the loop of `DeleteAllFunds` over the committed records: each is deleted, then deducted from
    the total unless that would be negative (the error is remembered, the loop goes on) -/
def deductAll : List (Addr × FundRec) → Int → Int × Bool
  | [], tot => (tot, false)
  | (_, r) :: t, tot =>
    if tot - r.amount < 0 then ((deductAll t tot).1, true)
    else deductAll t (tot - r.amount)

/-- `DeleteAllFunds`: returns the item and whether an error was returned -/
def Item.deleteAllFunds (it : Item) : Item × Bool :=
  let (tot, bad) := deductAll (it.funds.filter (·.2.committed)) it.total
  ({ it with funds := it.funds.filter (fun kv => !kv.2.committed), total := if bad then tot else 0 }, bad)

/-! ### configuration updates (action/govUpdate.go) -/

inductive CfgKey where
  | feeDecimal | onsPerBlock | onsBase | other (name : String)
  deriving DecidableEq, Repr

inductive Cfg where
  | malformed                 -- `len(strings.Split(updates, ":")) != 2`
  | unknownKey                -- not in `GovernanceUpdateFunction`
  | upd (k : CfgKey) (v : String)
  deriving DecidableEq, Repr

/-- the registered keys other than the three modelled ones -/
def otherKeys : List String :=
  ["stakingOptions.minSelfDelegationAmount", "stakingOptions.topValidatorCount", "stakingOptions.maturityTime",
   "propOptions.configUpdate.initialFunding", "propOptions.codeChange.initialFunding", "propOptions.general.initialFunding",
   "propOptions.configUpdate.fundingGoal", "propOptions.codeChange.fundingGoal", "propOptions.general.fundingGoal",
   "propOptions.configUpdate.votingDeadline", "propOptions.codeChange.votingDeadline", "propOptions.general.votingDeadline",
   "propOptions.configUpdate.fundingDeadline", "propOptions.codeChange.fundingDeadline", "propOptions.general.fundingDeadline",
   "propOptions.configUpdate.passPercentage", "propOptions.codeChange.passPercentage", "propOptions.general.passPercentage",
   "evidenceOptions.minVotesRequired", "evidenceOptions.blockVotesDiff", "evidenceOptions.penaltyBasePercentage"]

def parseCfg (s : String) : Cfg :=
  match s.splitOn ":" with
  | [k, v] =>
    if k == "feeOption.minFeeDecimal" then .upd .feeDecimal v
    else if k == "onsOptions.perBlockFees" then .upd .onsPerBlock v
    else if k == "onsOptions.baseDomainPrice" then .upd .onsBase v
    else if otherKeys.contains k then .upd (.other k) v
    else .unknownKey
  | _ => .malformed

/-- `strconv.Atoi` / `big.Int.SetString(s, 10)`: an optional sign followed by decimal digits only -/
def parseInt (s : String) : Option Int :=
  let body := if s.startsWith "-" || s.startsWith "+" then s.drop 1 else s
  if body.isEmpty || !body.all Char.isDigit then none
  else
    match body.toNat? with
    | some n => some (if s.startsWith "-" then -(n : Int) else (n : Int))
    | none => none

/-- the update function in `ValidateOnly` mode: the options it would write, `none` = rejected -/
def validateUpd (E : Env) (o : Opts) (k : CfgKey) (v : String) : Option Opts :=
  match k with
  | .feeDecimal =>           -- `strconv.Atoi`, then `ValidateFee`: 0 ≤ minFeeDecimal ≤ 18
    match parseInt v with
    | some n => if 0 ≤ n ∧ n ≤ 18 then some { o with minFeeDecimal := n } else none
    | none => none
  | .onsPerBlock =>          -- `big.Int.SetString`, then `ValidateONS`: perBlockFees ≥ 1 (max = infinite)
    match parseInt v with
    | some n => if 1 ≤ n ∧ 0 ≤ o.baseDomainPrice then some { o with perBlockFees := n } else none
    | none => none
  | .onsBase =>              -- baseDomainPrice ≥ 0
    match parseInt v with
    | some n => if 0 ≤ n ∧ 1 ≤ o.perBlockFees then some { o with baseDomainPrice := n } else none
    | none => none
  | .other name => if E.otherValid name v then some o else none

/-- the update function in `ValidateAndUpdate` mode at height `h` -/
def applyUpd (E : Env) (o : Opts) (k : CfgKey) (v : String) (h : Int) : Option Opts :=
  match validateUpd E o k v with
  | none => none
  | some o' =>
    match k with
    | .feeDecimal => some { o' with luhFee := h }
    | .onsPerBlock => some { o' with luhOns := h }
    | .onsBase => some { o' with luhOns := h }
    | .other name => some { o' with other := o'.other ++ [(name, v, h)] }

/-! ### the seven handlers -/

/-- `runTx` of createProposal.go -/
def runCreate (E : Env) (s : St) (pid : PID) (ptype : PType) (proposer : Addr)
    (initial fundingDeadline goal votingDeadline passPercent : Int) (cfg : String) : Except Err St :=
  let o := s.opts.byType ptype
  if initial < o.initialFunding then .error .invalidAmount
  else if o.fundingGoal ≤ initial then .error .invalidAmount
  else if goal ≠ o.fundingGoal then .error .invalidFundingGoal
  else if passPercent ≠ o.passPercent then .error .invalidPassPercentage
  else if votingDeadline - fundingDeadline ≠ o.votingDeadline then .error .invalidVotingDeadline
  else if fundingDeadline ≤ s.height then .error .invalidFundingDeadline
  else
    let cfgErr : Option Err :=
      if ptype = .config then
        match parseCfg cfg with
        | .malformed => some .invalidOptions
        | .unknownKey => some .validateGovState
        | .upd k v => if (validateUpd E s.opts k v).isSome then none else some .validateGovState
      else none
    match cfgErr with
    | some e => .error e
    | none =>
      let it := s.item pid
      if it.exists then .error .proposalExists
      else
        let p : Proposal := { ptype := ptype, status := .funding, outcome := .inProgress, proposer := proposer,
                              fundingDeadline := fundingDeadline, fundingGoal := goal,
                              votingDeadline := votingDeadline, passPercent := passPercent, cfg := cfg }
        match minusFrom s.bal proposer initial with
        | .error _ => .error .deductFunding
        | .ok b => .ok { (s.setItem pid ((it.set .active p).addFunds proposer initial)) with bal := b }

/-- `runFundProposal` -/
def runFund (s : St) (pid : PID) (funder : Addr) (value : Int) : Except Err St :=
  let it := s.item pid
  match it.active with
  | none => .error .proposalNotExists
  | some p =>
    if s.height > p.fundingDeadline then .error .fundingDeadlineCrossed
    else if p.status ≠ .funding then .error .statusNotFunding
    else
      let it1 : Item :=
        if value + it.total ≥ p.fundingGoal then
          let p' := { p with status := .voting,
                             votingDeadline := s.height + (s.opts.byType p.ptype).votingDeadline }
          (it.set .active p').withVotes (snapshot it.votes s.vals)
        else it
      match minusFrom s.bal funder value with
      | .error _ => .error .balanceMinusFailed
      | .ok b => .ok { (s.setItem pid (it1.addFunds funder value)) with bal := b }

/-- `runVote` -/
def runVote (s : St) (pid : PID) (validator : Addr) (o : Opinion) : Except Err St :=
  let it := s.item pid
  match it.active with
  | none => .error .proposalNotExists
  | some p =>
    if p.status ≠ .voting then .error .statusNotVoting
    else if s.height > p.votingDeadline then .error .votingHeightReached
    else if (alookup validator s.vals).isNone then .error .gettingValidatorList
    else
      match updateVote it.votes validator o with
      | none => .error .addingVoteToVoteStore
      | some votes' =>
        match resultSoFar votes' (s.opts.byType p.ptype).passPercent with
        | none => .error .peekingVoteResult
        | some .passed =>
          .ok (s.setItem pid (((it.withVotes votes').set .passed
                { p with status := .completed, outcome := .completedYes }).del .active))
        | some .failed =>
          .ok (s.setItem pid (((it.withVotes votes').set .failed
                { p with status := .completed, outcome := .completedNo }).del .active))
        | some .tbd => .ok (s.setItem pid (it.withVotes votes'))

/-- `runCancel` -/
def runCancel (s : St) (pid : PID) (proposer : Addr) : Except Err St :=
  let it := s.item pid
  match it.active with
  | none => .error .proposalNotExists
  | some p =>
    if p.status ≠ .funding then .error .statusNotFunding
    else if s.height > p.fundingDeadline then .error .fundingDeadlineCrossed
    else if p.proposer ≠ proposer then .error .unmatchedProposer
    else .ok (s.setItem pid ((it.set .failed { p with status := .completed, outcome := .cancelled }).del .active))

/-- `runWithdraw` -/
def runWithdraw (s : St) (pid : PID) (funder : Addr) (value : Int) (beneficiary : Addr) : Except Err St :=
  let it := s.item pid
  match it.queryAll with
  | none => .error .proposalNotExists
  | some p =>
    let conv : Except Err Item :=
      if p.outcome ≠ .cancelled ∧ p.outcome ≠ .insufficientFunds then
        if it.total ≥ p.fundingGoal ∨ s.height ≤ p.fundingDeadline then .error .withdrawNotEligible
        else .ok ((it.set .failed { p with outcome := .insufficientFunds, status := .completed }).del .active)
      else .ok it
    match conv with
    | .error e => .error e
    | .ok it1 =>
      if !isFundedBy it1.funds funder then .error .noSuchFunder
      else
        match it1.deductFunds funder value with
        | none => .error .deductFunding
        | some it2 => .ok { (s.setItem pid it2) with bal := addTo s.bal beneficiary value }

/-- `runExpireVotes`: only a VOTING proposal whose deadline has passed -/
def runExpire (s : St) (pid : PID) : Except Err St :=
  let it := s.item pid
  match it.active with
  | none => .error .proposalNotExists
  | some p =>
    if p.status ≠ .voting ∨ s.height ≤ p.votingDeadline then .error .statusNotVoting
    else .ok (s.setItem pid ((it.set .failed { p with status := .completed, outcome := .insufficientVotes }).del .active))

/-- `getPercentageCoin`: `totalFunds * int64(percentage*10000) / 1000000` -/
def pct (total p10k : Int) : Int := total * p10k / 1000000

/-- credit every committed validator record (`GetValidatorSet`) -/
def creditAll (b : L) (vs : List (Addr × ValRec)) (amt : Int) : L :=
  vs.foldl (fun b v => addTo b v.1 amt) b

/-- the credits of `distributeFunds` for an escrow `total`: the new balances, and what is neither
    paid out nor pooled (the burn share and the remainder of the division among the validators) -/
def payouts (b : L) (vs : List (Addr × ValRec)) (proposer bounty exec : Addr) (total : Int) (d : Dist) : L × Int :=
  let vAmt := pct total d.validators
  let per := vAmt / (vs.length : Int)
  let pr := pct total d.proposer
  let bo := pct total d.bounty
  let ex := pct total d.exec
  let bu := pct total d.burn
  -- `fundTracker`: what the five `getPercentageCoin` calls left
  let tracker := total - vAmt - pr - bo - ex - bu
  (addTo (addTo (addTo (addTo (creditAll b vs per) proposer pr) bounty bo) exec ex) poolAcc tracker,
   bu + (vAmt - per * (vs.length : Int)))

/-- `distributeFunds`: `none` = refused before anything is written (no validator record:
    `ErrGettingValidatorList`); otherwise the new state and whether `DeleteAllFunds` returned an error -/
def distribute (s : St) (pid : PID) (p : Proposal) (d : Dist) : Option (St × Bool) :=
  let it := s.item pid
  let vs := cvals s.vals
  if vs.isEmpty then none
  else
    let pay := payouts s.bal vs p.proposer s.opts.bountyAddr (s.opts.byType p.ptype).execAddr it.total d
    some ({ (s.setItem pid it.deleteAllFunds.1) with bal := pay.1, burned := s.burned + pay.2 }, it.deleteAllFunds.2)

/-- `setToFinalizeFailed`: Set in FINALIZEFAILED, Delete from PASSED (whatever store it came from) -/
def toFinFailed (s : St) (pid : PID) (p : Proposal) : St :=
  s.setItem pid (((s.item pid).set .finFailed p).del .passed)

/-- `setToFinalizeFromPassed` / `setToFinalizeFromFailed` -/
def toFinalized (s : St) (pid : PID) (p : Proposal) (src : Store) : St :=
  s.setItem pid (((s.item pid).set .finalized p).del src)

/-- distribution then the final move; a distribution error still returns success: the proposal
    is marked finalise-failed, with nothing paid (refused distribution) or with all payouts kept
    (`DeleteAllFunds` error, the only other error source) -/
def distributeAndMove (s : St) (pid : PID) (p : Proposal) (d : Dist) (src : Store) : St :=
  match distribute s pid p d with
  | none => toFinFailed s pid p
  | some (s1, bad) => if bad then toFinFailed s1 pid p else toFinalized s1 pid p src

/-- the result the finalisation acts on: an expired proposal (outcome insufficient votes) whose
    tally is undecided, or that has no vote records at all, counts as failed; otherwise an
    undecided tally / missing records are errors -/
def finalResult (r : Option VoteResult) (p : Proposal) : Except Err VoteResult :=
  match r with
  | none => if p.outcome = .insufficientVotes then .ok .failed else .error .unableToQueryVoteResult
  | some .tbd => if p.outcome = .insufficientVotes then .ok .failed else .error .votingTBD
  | some .passed => .ok .passed
  | some .failed => .ok .failed

/-- `runFinalizeProposal` -/
def runFinalize (E : Env) (s : St) (pid : PID) : Except Err St :=
  let it := s.item pid
  if it.finalized.isSome then .ok s
  else if it.finFailed.isSome then .ok s
  else
    match it.decided with
    | none => .error .proposalNotExists
    | some p =>
      if p.status ≠ .completed then .error .statusNotCompleted
      else
        match finalResult (resultSoFar it.votes p.passPercent) p with
        | .error e => .error e
        | .ok .tbd => .error .votingTBD
        | .ok .passed =>
            let o := s.opts.byType p.ptype
            if p.ptype = .config then
              match parseCfg p.cfg with
              | .malformed => .error .invalidOptions
              | .unknownKey => .error .finalizeConfigUpdateFailed
              | .upd k v =>
                match applyUpd E s.opts k v s.height with
                | none => .ok (toFinFailed s pid p)
                | some opts' =>
                  -- the distribution reads the option object fetched before the update
                  .ok { (distributeAndMove s pid p o.passedDist .passed) with opts := opts', applied := s.applied ++ [pid] }
            else .ok (distributeAndMove s pid p o.passedDist .passed)
        | .ok .failed =>
            .ok (distributeAndMove s pid p (s.opts.byType p.ptype).failedDist .failed)

/-! ### transactions, block hooks, histories -/

/-- `BasicFeeHandling` after a successful handler: the first signer pays `fee` into the pool -/
def withFee (r : Except Err St) (payer : Addr) (fee : Int) : Except Err St :=
  match r with
  | .error e => .error e
  | .ok s' =>
    match transfer s'.bal payer poolAcc fee with
    | .error _ => .error .feeFailed
    | .ok b => .ok { s' with bal := b }

inductive Op where
  | create (pid : PID) (ptype : PType) (proposer : Addr)
      (initial fundingDeadline goal votingDeadline passPercent : Int) (cfg : String) (fee : Int)
  | fund (pid : PID) (funder : Addr) (value fee : Int)
  | vote (pid : PID) (payer validator : Addr) (opinion : Opinion) (fee : Int)
  | cancel (pid : PID) (proposer : Addr) (fee : Int)
  | withdraw (pid : PID) (funder : Addr) (value : Int) (beneficiary : Addr) (fee : Int)
  | expire (pid : PID)            -- EXPIRE_VOTES on the public router: any signer, no fee, same checks as the internal one
  | finalize (pid : PID)          -- PROPOSAL_FINALIZE on the public router: any signer, no fee
  | beginBlock (h : Int)          -- Commit of the previous block, then BeginBlock at height h
  | endBlock
  | setVals (vals : List (Addr × ValRec))   -- effect of other subsystems on the validator records
  | setBal (a : Addr) (v : Int)             -- effect of other subsystems on a balance
  deriving Repr

/-- a transaction: the part of `Validate` that concerns amounts and the validator, the handler,
    the fee step; any failure discards the session -/
def runTx (E : Env) (s : St) : Op → Except Err St
  | .create pid pt pr ini fd g vd pp cfg fee => withFee (runCreate E s pid pt pr ini fd g vd pp cfg) pr fee
  | .fund pid f v fee => if v < 0 then .error .invalid else withFee (runFund s pid f v) f fee
  | .vote pid payer val o fee =>
    -- `IsValidatorAddress`: a record with positive power
    match alookup val s.vals with
    | some r => if r.power > 0 then withFee (runVote s pid val o) payer fee else .error .invalid
    | none => .error .invalid
  | .cancel pid pr fee => withFee (runCancel s pid pr) pr fee
  | .withdraw pid f v b fee => if v < 0 then .error .invalid else withFee (runWithdraw s pid f v b) f fee
  | .expire pid => runExpire s pid
  | .finalize pid => runFinalize E s pid
  | _ => .ok s

def commitVotes (l : List (Addr × VoteRec)) : List (Addr × VoteRec) := l.map (fun kv => (kv.1, { kv.2 with committed := true }))
def commitFunds (l : List (Addr × FundRec)) : List (Addr × FundRec) := l.map (fun kv => (kv.1, { kv.2 with committed := true }))
def commitVals (l : List (Addr × ValRec)) : List (Addr × ValRec) := l.map (fun kv => (kv.1, { kv.2 with committed := true }))

def Item.commit (it : Item) : Item := { it with votes := commitVotes it.votes, funds := commitFunds it.funds }

/-- `AddInternalTX`: expiry for VOTING proposals whose deadline is below the height, finalisation
    for completed-yes in PASSED, completed-no and expired (insufficient votes) in FAILED; the queue store iterates in key order -/
def wantsExpire (h : Int) (it : Item) : Bool :=
  match it.active with
  | some p => p.status = .voting ∧ p.votingDeadline < h
  | none => false

def wantsFinalize (it : Item) : Bool :=
  (match it.passed with
   | some p => decide (p.status = .completed ∧ p.outcome = .completedYes)
   | none => false) ||
  (match it.failed with
   | some p => decide (p.status = .completed ∧ (p.outcome = .completedNo ∨ p.outcome = .insufficientVotes))
   | none => false)

/-- insertion sort by key (structural recursion, so that concrete histories evaluate in the kernel) -/
def insertPid (a : PID) : List PID → List PID
  | [] => [a]
  | b :: t => if a ≤ b then a :: b :: t else b :: insertPid a t

def sortPids (l : List PID) : List PID := l.foldr insertPid []

def beginBlock (s : St) (h : Int) : St :=
  let items := s.items.map (fun kv => (kv.1, kv.2.commit))
  { s with height := h, items := items, vals := commitVals s.vals,
           qExpire := sortPids ((items.filter (fun kv => wantsExpire h kv.2)).map (·.1)),
           qFinalize := sortPids ((items.filter (fun kv => wantsFinalize kv.2)).map (·.1)) }

/-- one internal transaction: `ProcessDeliver` only (no `Validate`, no fee); a failure discards
    the session -/
def internal (E : Env) (s : St) (op : Op) : St :=
  match runTx E s op with
  | .ok s' => s'
  | .error _ => s

/-- `ExpireProposals` then `FinalizeProposals`, then both queues are cleared -/
def endBlock (E : Env) (s : St) : St :=
  let s1 := s.qExpire.foldl (fun acc pid => internal E acc (.expire pid)) s
  let s2 := s.qFinalize.foldl (fun acc pid => internal E acc (.finalize pid)) s1
  { s2 with qExpire := [], qFinalize := [] }

/-- a delivered transaction: a failure discards the session -/
def txStep (E : Env) (s : St) (op : Op) : St × Res :=
  match runTx E s op with
  | .ok s' => (s', .ok)
  | .error e => (s, .err e)

def step (E : Env) (s : St) (op : Op) : St × Res :=
  match op with
  | .beginBlock h => (beginBlock s h, .ok)
  | .endBlock => (endBlock E s, .ok)
  | .setVals vals => ({ s with vals := vals }, .ok)
  | .setBal a v => ({ s with bal := setBal s.bal a v }, .ok)
  | op => txStep E s op

/-- a history -/
def run (E : Env) (s : St) (ops : List Op) : St := ops.foldl (fun s op => (step E s op).1) s

end OLP.Gov

/-
  Layer D — helper lemmas for the governance theorems (C14).

  Architecture.  Every handler reads and writes the records of ONE proposal id, so its effect on
  the governance state is a transformation of one `Item`.  `Trans` lists the item transformations
  the seven handlers and the block boundary can perform, with the guards under which they do
  (`runTx_trans`, `beginBlock_item`); the per-item invariant `WFI` is preserved by every `Trans`
  (`wfi_trans`), and the lifecycle facts are read off `Trans` once.
-/
import OLP.Gov.Model
import OLP.Ledger.Lemmas

set_option linter.unusedSimpArgs false
set_option linter.unusedVariables false

namespace OLP.Gov
open OLP OLP.Ledger

/-! ## items: projections of `set` / `del` / `addFunds` -/

@[simp] theorem Item.set_votes (it : Item) (st : Store) (p : Proposal) : (it.set st p).votes = it.votes := by
  cases st <;> rfl
@[simp] theorem Item.set_funds (it : Item) (st : Store) (p : Proposal) : (it.set st p).funds = it.funds := by
  cases st <;> rfl
@[simp] theorem Item.set_total (it : Item) (st : Store) (p : Proposal) : (it.set st p).total = it.total := by
  cases st <;> rfl
@[simp] theorem Item.del_votes (it : Item) (st : Store) : (it.del st).votes = it.votes := by
  cases st <;> rfl
@[simp] theorem Item.del_funds (it : Item) (st : Store) : (it.del st).funds = it.funds := by
  cases st <;> rfl
@[simp] theorem Item.del_total (it : Item) (st : Store) : (it.del st).total = it.total := by
  cases st <;> rfl

@[simp] theorem Item.withVotes_votes (it : Item) (vs : List (Addr × VoteRec)) : (it.withVotes vs).votes = vs := rfl
@[simp] theorem Item.withVotes_funds (it : Item) (vs : List (Addr × VoteRec)) : (it.withVotes vs).funds = it.funds := rfl
@[simp] theorem Item.withVotes_total (it : Item) (vs : List (Addr × VoteRec)) : (it.withVotes vs).total = it.total := rfl
@[simp] theorem Item.withVotes_active (it : Item) (vs : List (Addr × VoteRec)) : (it.withVotes vs).active = it.active := rfl
@[simp] theorem Item.withVotes_passed (it : Item) (vs : List (Addr × VoteRec)) : (it.withVotes vs).passed = it.passed := rfl
@[simp] theorem Item.withVotes_failed (it : Item) (vs : List (Addr × VoteRec)) : (it.withVotes vs).failed = it.failed := rfl
@[simp] theorem Item.withVotes_finalized (it : Item) (vs : List (Addr × VoteRec)) : (it.withVotes vs).finalized = it.finalized := rfl
@[simp] theorem Item.withVotes_finFailed (it : Item) (vs : List (Addr × VoteRec)) : (it.withVotes vs).finFailed = it.finFailed := rfl
@[simp] theorem Item.withVotes_get (it : Item) (vs : List (Addr × VoteRec)) (st : Store) : (it.withVotes vs).get st = it.get st := by
  cases st <;> rfl

theorem Item.get_set (it : Item) (st st' : Store) (p : Proposal) :
    (it.set st p).get st' = if st' = st then some p else it.get st' := by
  cases st <;> cases st' <;> simp [Item.set, Item.get]

theorem Item.get_del (it : Item) (st st' : Store) :
    (it.del st).get st' = if st' = st then none else it.get st' := by
  cases st <;> cases st' <;> simp [Item.del, Item.get]

@[simp] theorem Item.get_active (it : Item) : it.get .active = it.active := rfl
@[simp] theorem Item.get_passed (it : Item) : it.get .passed = it.passed := rfl
@[simp] theorem Item.get_failed (it : Item) : it.get .failed = it.failed := rfl
@[simp] theorem Item.get_finalized (it : Item) : it.get .finalized = it.finalized := rfl
@[simp] theorem Item.get_finFailed (it : Item) : it.get .finFailed = it.finFailed := rfl

@[simp] theorem Item.addFunds_active (it : Item) (f : Addr) (v : Int) : (it.addFunds f v).active = it.active := rfl
@[simp] theorem Item.addFunds_passed (it : Item) (f : Addr) (v : Int) : (it.addFunds f v).passed = it.passed := rfl
@[simp] theorem Item.addFunds_failed (it : Item) (f : Addr) (v : Int) : (it.addFunds f v).failed = it.failed := rfl
@[simp] theorem Item.addFunds_finalized (it : Item) (f : Addr) (v : Int) : (it.addFunds f v).finalized = it.finalized := rfl
@[simp] theorem Item.addFunds_finFailed (it : Item) (f : Addr) (v : Int) : (it.addFunds f v).finFailed = it.finFailed := rfl
@[simp] theorem Item.addFunds_votes (it : Item) (f : Addr) (v : Int) : (it.addFunds f v).votes = it.votes := rfl
@[simp] theorem Item.addFunds_total (it : Item) (f : Addr) (v : Int) : (it.addFunds f v).total = it.total + v := rfl
@[simp] theorem Item.addFunds_funds (it : Item) (f : Addr) (v : Int) : (it.addFunds f v).funds = addFundRec it.funds f v := rfl
@[simp] theorem Item.addFunds_get (it : Item) (f : Addr) (v : Int) (st : Store) : (it.addFunds f v).get st = it.get st := by
  cases st <;> rfl

@[simp] theorem Item.set_active (it : Item) (st : Store) (p : Proposal) :
    (it.set st p).active = if st = .active then some p else it.active := by cases st <;> simp [Item.set]
@[simp] theorem Item.set_passed (it : Item) (st : Store) (p : Proposal) :
    (it.set st p).passed = if st = .passed then some p else it.passed := by cases st <;> simp [Item.set]
@[simp] theorem Item.set_failed (it : Item) (st : Store) (p : Proposal) :
    (it.set st p).failed = if st = .failed then some p else it.failed := by cases st <;> simp [Item.set]
@[simp] theorem Item.set_finalized (it : Item) (st : Store) (p : Proposal) :
    (it.set st p).finalized = if st = .finalized then some p else it.finalized := by cases st <;> simp [Item.set]
@[simp] theorem Item.set_finFailed (it : Item) (st : Store) (p : Proposal) :
    (it.set st p).finFailed = if st = .finFailed then some p else it.finFailed := by cases st <;> simp [Item.set]
@[simp] theorem Item.del_active (it : Item) (st : Store) :
    (it.del st).active = if st = .active then none else it.active := by cases st <;> simp [Item.del]
@[simp] theorem Item.del_passed (it : Item) (st : Store) :
    (it.del st).passed = if st = .passed then none else it.passed := by cases st <;> simp [Item.del]
@[simp] theorem Item.del_failed (it : Item) (st : Store) :
    (it.del st).failed = if st = .failed then none else it.failed := by cases st <;> simp [Item.del]
@[simp] theorem Item.del_finalized (it : Item) (st : Store) :
    (it.del st).finalized = if st = .finalized then none else it.finalized := by cases st <;> simp [Item.del]
@[simp] theorem Item.del_finFailed (it : Item) (st : Store) :
    (it.del st).finFailed = if st = .finFailed then none else it.finFailed := by cases st <;> simp [Item.del]

theorem Item.exists_iff (it : Item) : it.exists = true ↔ ∃ st p, it.get st = some p := by
  constructor
  · intro h
    simp only [Item.exists, Bool.or_eq_true, Option.isSome_iff_exists] at h
    rcases h with (((⟨p, h⟩ | ⟨p, h⟩) | ⟨p, h⟩) | ⟨p, h⟩) | ⟨p, h⟩
    · exact ⟨.active, p, h⟩
    · exact ⟨.passed, p, h⟩
    · exact ⟨.failed, p, h⟩
    · exact ⟨.finalized, p, h⟩
    · exact ⟨.finFailed, p, h⟩
  · rintro ⟨st, p, h⟩
    cases st <;> simp [Item.get] at h <;> simp [Item.exists, h]

theorem Item.exists_of_get (it : Item) (st : Store) (p : Proposal) (h : it.get st = some p) : it.exists = true :=
  (Item.exists_iff it).mpr ⟨st, p, h⟩

theorem Item.exists_false (it : Item) (h : it.exists = false) :
    it.active = none ∧ it.passed = none ∧ it.failed = none ∧ it.finalized = none ∧ it.finFailed = none := by
  simp only [Item.exists, Bool.or_eq_false_iff, Option.isSome_eq_false_iff, Option.isNone_iff_eq_none] at h
  obtain ⟨⟨⟨⟨h1, h2⟩, h3⟩, h4⟩, h5⟩ := h
  exact ⟨h1, h2, h3, h4, h5⟩

theorem Item.queryAll_get (it : Item) (p : Proposal) (h : it.queryAll = some p) : ∃ st, it.get st = some p := by
  unfold Item.queryAll at h
  split at h
  · rename_i q hq; exact ⟨.active, by simpa [hq] using h⟩
  split at h
  · rename_i q hq; exact ⟨.passed, by simpa [hq] using h⟩
  split at h
  · rename_i q hq; exact ⟨.failed, by simpa [hq] using h⟩
  split at h
  · rename_i q hq; exact ⟨.finalized, by simpa [hq] using h⟩
  · exact ⟨.finFailed, h⟩

def rankA : Option Proposal → Nat
  | some p => (match p.status with | .funding => 1 | .voting => 2 | .completed => 3)
  | none => 0
def rankB (a b : Option Proposal) : Nat := if a.isSome ∨ b.isSome then 3 else 0
def rankC (a b : Option Proposal) : Nat := if a.isSome ∨ b.isSome then 4 else 0

/-- the stage of a proposal as a number: 0 unknown, 1 funding, 2 voting, 3 decided (passed,
    failed, expired, cancelled, missed its goal), 4 finalised; the highest over all stores -/
def Item.rank (it : Item) : Nat :=
  max (max (rankA it.active) (rankB it.passed it.failed)) (rankC it.finalized it.finFailed)

theorem rankA_le (o : Option Proposal) : rankA o ≤ 3 := by
  cases o with
  | none => simp [rankA]
  | some p => cases hs : p.status <;> simp [rankA, hs]
theorem rankB_le (a b : Option Proposal) : rankB a b ≤ 3 := by unfold rankB; split <;> omega
theorem rankC_le (a b : Option Proposal) : rankC a b ≤ 4 := by unfold rankC; split <;> omega
@[simp] theorem rankB_some_left (p : Proposal) (b : Option Proposal) : rankB (some p) b = 3 := by simp [rankB]
@[simp] theorem rankB_some_right (a : Option Proposal) (p : Proposal) : rankB a (some p) = 3 := by simp [rankB]
@[simp] theorem rankC_some_left (p : Proposal) (b : Option Proposal) : rankC (some p) b = 4 := by simp [rankC]
@[simp] theorem rankC_some_right (a : Option Proposal) (p : Proposal) : rankC a (some p) = 4 := by simp [rankC]
@[simp] theorem rankA_none : rankA none = 0 := rfl

/-! ## sums over fund records -/

def sumFunds : List (Addr × FundRec) → Int
  | [] => 0
  | (_, r) :: t => r.amount + sumFunds t

theorem fundAmount_cons (k : Addr) (r : FundRec) (t : List (Addr × FundRec)) (f : Addr) :
    fundAmount ((k, r) :: t) f = if k = f then r.amount else fundAmount t f := by
  unfold fundAmount
  by_cases h : k = f <;> simp [alookup, h]

theorem sumFunds_upsert (l : List (Addr × FundRec)) (f : Addr) (r : FundRec) :
    sumFunds (upsert l f r) = sumFunds l - fundAmount l f + r.amount := by
  induction l with
  | nil => simp [upsert, sumFunds, fundAmount]
  | cons hd t ih =>
    obtain ⟨k, w⟩ := hd
    by_cases hk : k = f
    · subst hk
      simp only [upsert, if_true, sumFunds, fundAmount_cons]
      omega
    · simp only [upsert, hk, if_false, sumFunds, fundAmount_cons, ih]
      omega

theorem sumFunds_addFundRec (l : List (Addr × FundRec)) (f : Addr) (v : Int) :
    sumFunds (addFundRec l f v) = sumFunds l + v := by
  unfold addFundRec
  cases h : alookup f l with
  | none =>
    have : fundAmount l f = 0 := by simp [fundAmount, h]
    simp only [sumFunds_upsert, this]; omega
  | some r =>
    have : fundAmount l f = r.amount := by simp [fundAmount, h]
    simp only [sumFunds_upsert, this]; omega

theorem mem_upsert_gen {K V : Type} [DecidableEq K] (l : List (K × V)) (a : K) (v : V) (p : K × V)
    (h : p ∈ upsert l a v) : p ∈ l ∨ p = (a, v) := by
  induction l with
  | nil => simp [upsert] at h; exact Or.inr h
  | cons hd t ih =>
    obtain ⟨k, w⟩ := hd
    by_cases hk : k = a
    · simp only [upsert, hk, if_true, List.mem_cons] at h
      rcases h with h | h
      · exact Or.inr h
      · exact Or.inl (List.mem_cons_of_mem _ h)
    · simp only [upsert, hk, if_false, List.mem_cons] at h
      rcases h with h | h
      · exact Or.inl (h ▸ List.mem_cons_self)
      · rcases ih h with h' | h'
        · exact Or.inl (List.mem_cons_of_mem _ h')
        · exact Or.inr h'

theorem alookup_mem {K V : Type} [DecidableEq K] (l : List (K × V)) (a : K) (v : V)
    (h : alookup a l = some v) : (a, v) ∈ l := by
  induction l with
  | nil => simp [alookup] at h
  | cons hd t ih =>
    obtain ⟨k, w⟩ := hd
    by_cases hk : k = a
    · simp [alookup, hk] at h; subst hk; subst h; exact List.mem_cons_self
    · simp [alookup, hk] at h; exact List.mem_cons_of_mem _ (ih h)

theorem upsert_ne_nil {K V : Type} [DecidableEq K] (l : List (K × V)) (a : K) (v : V) : upsert l a v ≠ [] := by
  cases l with
  | nil => simp [upsert]
  | cons hd t =>
    obtain ⟨k, w⟩ := hd
    by_cases hk : k = a <;> simp [upsert, hk]


/-! ## the item transformations -/

/-- every way a handler or the block boundary changes the records of one proposal, with the
    guards of the code path (h: block height; opts, vals: what is read) -/
inductive Trans (h : Int) (opts : Opts) (vals : List (Addr × ValRec)) : Item → Item → Prop
  | create (it : Item) (p : Proposal) (v : Int) :
      it.exists = false → p.status = .funding → p.outcome = .inProgress → 0 ≤ v → h < p.fundingDeadline →
      Trans h opts vals it ((it.set .active p).addFunds p.proposer v)
  | fundMore (it : Item) (p : Proposal) (f : Addr) (v : Int) :
      it.active = some p → p.status = .funding → h ≤ p.fundingDeadline → 0 ≤ v →
      ¬ (v + it.total ≥ p.fundingGoal) →
      Trans h opts vals it (it.addFunds f v)
  | fundStart (it : Item) (p : Proposal) (f : Addr) (v : Int) :
      it.active = some p → p.status = .funding → h ≤ p.fundingDeadline → 0 ≤ v →
      v + it.total ≥ p.fundingGoal →
      Trans h opts vals it
        (((it.set .active { p with status := .voting, votingDeadline := h + (opts.byType p.ptype).votingDeadline }).withVotes
              (snapshot it.votes vals)).addFunds f v)
  | voteTbd (it : Item) (p : Proposal) (a : Addr) (o : Opinion) (votes' : List (Addr × VoteRec)) :
      it.active = some p → p.status = .voting → h ≤ p.votingDeadline →
      updateVote it.votes a o = some votes' →
      resultSoFar votes' (opts.byType p.ptype).passPercent = some .tbd →
      Trans h opts vals it (it.withVotes votes')
  | votePass (it : Item) (p : Proposal) (a : Addr) (o : Opinion) (votes' : List (Addr × VoteRec)) :
      it.active = some p → p.status = .voting → h ≤ p.votingDeadline →
      updateVote it.votes a o = some votes' →
      resultSoFar votes' (opts.byType p.ptype).passPercent = some .passed →
      Trans h opts vals it
        (((it.withVotes votes').set .passed { p with status := .completed, outcome := .completedYes }).del .active)
  | voteFail (it : Item) (p : Proposal) (a : Addr) (o : Opinion) (votes' : List (Addr × VoteRec)) :
      it.active = some p → p.status = .voting → h ≤ p.votingDeadline →
      updateVote it.votes a o = some votes' →
      resultSoFar votes' (opts.byType p.ptype).passPercent = some .failed →
      Trans h opts vals it
        (((it.withVotes votes').set .failed { p with status := .completed, outcome := .completedNo }).del .active)
  | cancel (it : Item) (p : Proposal) :
      it.active = some p → p.status = .funding → h ≤ p.fundingDeadline →
      Trans h opts vals it ((it.set .failed { p with status := .completed, outcome := .cancelled }).del .active)
  | expire (it : Item) (p : Proposal) :
      it.active = some p → p.status = .voting → h > p.votingDeadline →
      Trans h opts vals it ((it.set .failed { p with status := .completed, outcome := .insufficientVotes }).del .active)
  | withdraw (it : Item) (p : Proposal) (f : Addr) (v : Int) (it2 : Item) :
      it.queryAll = some p → (p.outcome = .cancelled ∨ p.outcome = .insufficientFunds) →
      isFundedBy it.funds f = true → 0 ≤ v → it.deductFunds f v = some it2 →
      Trans h opts vals it it2
  | withdrawConv (it : Item) (p : Proposal) (f : Addr) (v : Int) (it2 : Item) :
      it.queryAll = some p → p.outcome ≠ .cancelled → p.outcome ≠ .insufficientFunds →
      it.total < p.fundingGoal → h > p.fundingDeadline →
      isFundedBy it.funds f = true → 0 ≤ v →
      ((it.set .failed { p with outcome := .insufficientFunds, status := .completed }).del .active).deductFunds f v = some it2 →
      Trans h opts vals it it2
  | finCfgFailed (it : Item) {r0 : VoteResult} (p : Proposal) :
      it.finalized = none → it.finFailed = none → it.decided = some p → p.status = .completed →
      finalResult (resultSoFar it.votes p.passPercent) p = .ok r0 →
      Trans h opts vals it ((it.set .finFailed p).del .passed)
  | finalize (it : Item) (p : Proposal) (r : VoteResult) (src : Store) :
      it.finalized = none → it.finFailed = none → it.decided = some p → p.status = .completed →
      finalResult (resultSoFar it.votes p.passPercent) p = .ok r →
      ((r = .passed ∧ src = .passed) ∨ (r = .failed ∧ src = .failed)) →
      it.deleteAllFunds.2 = false →
      Trans h opts vals it ((it.deleteAllFunds.1.set .finalized p).del src)
  | finBad (it : Item) (p : Proposal) (r : VoteResult) :
      it.finalized = none → it.finFailed = none → it.decided = some p → p.status = .completed →
      finalResult (resultSoFar it.votes p.passPercent) p = .ok r → (r = .passed ∨ r = .failed) →
      it.deleteAllFunds.2 = true →
      Trans h opts vals it ((it.deleteAllFunds.1.set .finFailed p).del .passed)
  | commit (it : Item) : Trans h opts vals it it.commit

/-! ## the per-item invariant -/

def refundable (p : Proposal) : Prop := p.outcome = .cancelled ∨ p.outcome = .insufficientFunds

structure WFI (it : Item) : Prop where
  /-- a proposal in the ACTIVE store is in no other store -/
  activeExcl : it.active.isSome → it.passed = none ∧ it.failed = none ∧ it.finalized = none ∧ it.finFailed = none
  /-- the ACTIVE copy is in progress -/
  activeOpen : ∀ p, it.active = some p → p.outcome = .inProgress ∧ p.status ≠ .completed
  /-- no records under an id that has no proposal -/
  noOrphans : it.exists = false → it.votes = [] ∧ it.funds = [] ∧ it.total = 0
  /-- no vote records before voting begins -/
  fundingNoVotes : ∀ p, it.active = some p → p.status = .funding → it.votes = []
  /-- a fund record written in this block excludes a committed vote record -/
  freshFunds : (∃ kv ∈ it.funds, kv.2.committed = false) → ∀ kv ∈ it.votes, kv.2.committed = false
  /-- once votes exist the goal was met, or the escrow is already empty -/
  votedFunded : it.votes ≠ [] → ∀ st p, it.get st = some p → it.total ≥ p.fundingGoal ∨ it.funds = []
  /-- a cancelled proposal or one that missed its goal has no vote records -/
  refundNoVotes : ∀ st p, it.get st = some p → refundable p → it.votes = []
  /-- the total record is the sum of the individual records, none negative -/
  totalIsSum : it.total = sumFunds it.funds
  fundsNonneg : ∀ kv ∈ it.funds, 0 ≤ kv.2.amount
  /-- an expired proposal has no fund record written in the current block -/
  expiredCommitted : ∀ st p, it.get st = some p → p.outcome = .insufficientVotes → ∀ kv ∈ it.funds, kv.2.committed = true


/-! ## vote records -/

theorem updateVote_some (votes votes' : List (Addr × VoteRec)) (a : Addr) (o : Opinion)
    (h : updateVote votes a o = some votes') :
    ∃ r, alookup a votes = some r ∧ votes' = upsert votes a { r with opinion := o } := by
  unfold updateVote at h
  cases hr : alookup a votes with
  | none => simp [hr] at h
  | some r => simp [hr] at h; exact ⟨r, rfl, h.symm⟩

theorem updateVote_ne_nil (votes votes' : List (Addr × VoteRec)) (a : Addr) (o : Opinion)
    (h : updateVote votes a o = some votes') : votes ≠ [] ∧ votes' ≠ [] := by
  obtain ⟨r, hr, rfl⟩ := updateVote_some votes votes' a o h
  refine ⟨?_, upsert_ne_nil _ _ _⟩
  intro e; subst e; simp [alookup] at hr

theorem updateVote_uncommitted (votes votes' : List (Addr × VoteRec)) (a : Addr) (o : Opinion)
    (h : updateVote votes a o = some votes') (hu : ∀ kv ∈ votes, kv.2.committed = false) :
    ∀ kv ∈ votes', kv.2.committed = false := by
  obtain ⟨r, hr, rfl⟩ := updateVote_some votes votes' a o h
  intro kv hkv
  rcases mem_upsert_gen _ _ _ _ hkv with h1 | h1
  · exact hu kv h1
  · subst h1
    exact hu (a, r) (alookup_mem _ _ _ hr)

theorem setupVote_uncommitted (votes : List (Addr × VoteRec)) (a : Addr) (pw : Int)
    (hu : ∀ kv ∈ votes, kv.2.committed = false) : ∀ kv ∈ setupVote votes a pw, kv.2.committed = false := by
  unfold setupVote
  cases hr : alookup a votes with
  | none =>
    intro kv hkv
    rcases mem_upsert_gen _ _ _ _ hkv with h1 | h1
    · exact hu kv h1
    · subst h1; rfl
  | some r =>
    intro kv hkv
    rcases mem_upsert_gen _ _ _ _ hkv with h1 | h1
    · exact hu kv h1
    · subst h1; exact hu (a, r) (alookup_mem _ _ _ hr)

theorem snapshot_uncommitted (votes : List (Addr × VoteRec)) (vals : List (Addr × ValRec))
    (hu : ∀ kv ∈ votes, kv.2.committed = false) : ∀ kv ∈ snapshot votes vals, kv.2.committed = false := by
  unfold snapshot
  generalize activeVals vals = l
  induction l generalizing votes with
  | nil => simpa using hu
  | cons hd t ih =>
    simp only [List.foldl_cons]
    exact ih _ (setupVote_uncommitted votes hd.1 hd.2.power hu)

theorem resultSoFar_some (votes : List (Addr × VoteRec)) (pass : Int) (r : VoteResult)
    (h : resultSoFar votes pass = some r) : ∃ kv ∈ votes, kv.2.committed = true := by
  unfold resultSoFar at h
  by_cases hc : (cvotes votes).isEmpty
  · simp [hc] at h
  · cases hl : cvotes votes with
    | nil => simp [hl] at hc
    | cons kv t =>
      have : kv ∈ cvotes votes := by rw [hl]; exact List.mem_cons_self
      unfold cvotes at this
      rw [List.mem_filter] at this
      exact ⟨kv, this.1, this.2⟩

/-! ## fund records -/

theorem mem_addFundRec (l : List (Addr × FundRec)) (f : Addr) (v : Int) (kv : Addr × FundRec)
    (h : kv ∈ addFundRec l f v) : kv ∈ l ∨ (kv.1 = f ∧ kv.2.amount = fundAmount l f + v) := by
  unfold addFundRec at h
  cases hr : alookup f l with
  | none =>
    simp only [hr] at h
    rcases mem_upsert_gen _ _ _ _ h with h1 | h1
    · exact Or.inl h1
    · subst h1; right; simp [fundAmount, hr]
  | some r =>
    simp only [hr] at h
    rcases mem_upsert_gen _ _ _ _ h with h1 | h1
    · exact Or.inl h1
    · subst h1; right; simp [fundAmount, hr]

theorem fundAmount_nonneg (l : List (Addr × FundRec)) (f : Addr) (hn : ∀ kv ∈ l, 0 ≤ kv.2.amount) :
    0 ≤ fundAmount l f := by
  unfold fundAmount
  cases hr : alookup f l with
  | none => simp
  | some r => exact hn (f, r) (alookup_mem _ _ _ hr)

theorem addFundRec_ne_nil (l : List (Addr × FundRec)) (f : Addr) (v : Int) : addFundRec l f v ≠ [] := by
  unfold addFundRec
  cases alookup f l <;> exact upsert_ne_nil _ _ _

/-- what a successful `DeductFunds` does when the record exists -/
theorem deductFunds_some (it it2 : Item) (f : Addr) (v : Int) (h : it.deductFunds f v = some it2)
    (hf : isFundedBy it.funds f = true) :
    ∃ r, alookup f it.funds = some r ∧ r.committed = true ∧ 0 ≤ r.amount - v ∧ 0 ≤ it.total - v ∧
      it2 = { it with funds := upsert it.funds f { r with amount := r.amount - v }, total := it.total - v } := by
  unfold isFundedBy at hf
  cases hr : alookup f it.funds with
  | none => simp [hr] at hf
  | some r =>
    simp only [hr] at hf
    have ha : fundAmount it.funds f = r.amount := by simp [fundAmount, hr]
    unfold Item.deductFunds at h
    simp only [ha, hr] at h
    by_cases h1 : r.amount - v < 0
    · simp [h1] at h
    · by_cases h2 : it.total - v < 0
      · simp [h1, h2] at h
      · simp only [h1, h2, if_false, Option.some.injEq] at h
        exact ⟨r, rfl, hf, by omega, by omega, h.symm⟩

/-- the sum of a sub-list of non-negative records -/
theorem sumFunds_filter_le (l : List (Addr × FundRec)) (q : Addr × FundRec → Bool)
    (hn : ∀ kv ∈ l, 0 ≤ kv.2.amount) : sumFunds (l.filter q) ≤ sumFunds l ∧ 0 ≤ sumFunds (l.filter q) := by
  induction l with
  | nil => simp [sumFunds]
  | cons hd t ih =>
    obtain ⟨k, r⟩ := hd
    have h0 : 0 ≤ r.amount := hn (k, r) List.mem_cons_self
    have ih' := ih (fun kv hkv => hn kv (List.mem_cons_of_mem _ hkv))
    by_cases hq : q (k, r) = true
    · simp only [List.filter_cons, hq, if_true, sumFunds]; omega
    · simp only [List.filter_cons, hq, sumFunds]
      simp only [Bool.false_eq_true, if_false]; omega

theorem sumFunds_nonneg (l : List (Addr × FundRec)) (hn : ∀ kv ∈ l, 0 ≤ kv.2.amount) : 0 ≤ sumFunds l := by
  induction l with
  | nil => simp [sumFunds]
  | cons hd t ih =>
    obtain ⟨k, r⟩ := hd
    have h0 : 0 ≤ r.amount := hn (k, r) List.mem_cons_self
    have := ih (fun kv hkv => hn kv (List.mem_cons_of_mem _ hkv))
    simp only [sumFunds]; omega

theorem deductAll_ok (l : List (Addr × FundRec)) (tot : Int) (hn : ∀ kv ∈ l, 0 ≤ kv.2.amount)
    (hs : sumFunds l ≤ tot) : deductAll l tot = (tot - sumFunds l, false) := by
  induction l generalizing tot with
  | nil => simp [deductAll, sumFunds]
  | cons hd t ih =>
    obtain ⟨k, r⟩ := hd
    have h0 : 0 ≤ r.amount := hn (k, r) List.mem_cons_self
    have hst : 0 ≤ sumFunds t := sumFunds_nonneg t (fun kv hkv => hn kv (List.mem_cons_of_mem _ hkv))
    simp only [sumFunds] at hs
    have hlt : ¬ (tot - r.amount < 0) := by omega
    simp only [deductAll, hlt, if_false]
    rw [ih (tot - r.amount) (fun kv hkv => hn kv (List.mem_cons_of_mem _ hkv)) (by omega)]
    simp only [sumFunds, Prod.mk.injEq, and_true]; omega

theorem deleteAllFunds_funds (it : Item) : it.deleteAllFunds.1.funds = it.funds.filter (fun kv => !kv.2.committed) := by
  unfold Item.deleteAllFunds; rfl

theorem deleteAllFunds_get (it : Item) (st : Store) : it.deleteAllFunds.1.get st = it.get st := by
  unfold Item.deleteAllFunds; cases st <;> rfl

theorem deleteAllFunds_votes (it : Item) : it.deleteAllFunds.1.votes = it.votes := by
  unfold Item.deleteAllFunds; rfl

/-- with the total equal to the sum of non-negative records `DeleteAllFunds` cannot fail -/
theorem deleteAllFunds_ok (it : Item) (hs : it.total = sumFunds it.funds) (hn : ∀ kv ∈ it.funds, 0 ≤ kv.2.amount) :
    it.deleteAllFunds.2 = false ∧ it.deleteAllFunds.1.total = 0 := by
  have hle := (sumFunds_filter_le it.funds (fun kv => kv.2.committed) hn).1
  have hd := deductAll_ok (it.funds.filter (fun kv => kv.2.committed)) it.total
    (fun kv hkv => hn kv (List.mem_filter.mp hkv).1) (by omega)
  unfold Item.deleteAllFunds
  simp [hd]

theorem filter_uncommitted_nil (l : List (Addr × FundRec)) (h : ∀ kv ∈ l, kv.2.committed = true) :
    l.filter (fun kv => !kv.2.committed) = [] := by
  rw [List.filter_eq_nil_iff]
  intro kv hkv
  simp [h kv hkv]


/-! ## every transformation preserves the invariant -/

theorem wfi_create (it : Item) (p : Proposal) (v : Int) (w : WFI it)
    (he : it.exists = false) (hs : p.status = .funding) (ho : p.outcome = .inProgress) (hv : 0 ≤ v) :
    WFI ((it.set .active p).addFunds p.proposer v) := by
  obtain ⟨h1, h2, h3, h4, h5⟩ := Item.exists_false it he
  obtain ⟨hv0, hf0, ht0⟩ := w.noOrphans he
  refine ⟨?_, ?_, ?_, ?_, ?_, ?_, ?_, ?_, ?_, ?_⟩
  · intro _; simp [h2, h3, h4, h5]
  · intro q hq; simp at hq; subst hq; simp [ho, hs]
  · intro hx
    have : ((it.set .active p).addFunds p.proposer v).exists = true :=
      Item.exists_of_get _ .active p (by simp)
    rw [this] at hx; cases hx
  · intro q _ _; simp [hv0]
  · intro _ kv hkv; simp [hv0] at hkv
  · intro hne; simp [hv0] at hne
  · intro st q hq hr
    simp [hv0]
  · simp [ht0, hf0, addFundRec, alookup, upsert, sumFunds]
  · intro kv hkv
    simp [hf0, addFundRec, alookup, upsert] at hkv
    subst hkv; exact hv
  · intro st q hq hoq
    simp only [Item.addFunds_get, Item.get_set] at hq
    by_cases hst : st = .active
    · simp [hst] at hq; subst hq; rw [ho] at hoq; cases hoq
    · simp only [hst, if_false] at hq
      cases st <;> simp [Item.get, h1, h2, h3, h4, h5] at hq

theorem wfi_fundMore (it : Item) (p : Proposal) (f : Addr) (v : Int) (w : WFI it)
    (ha : it.active = some p) (hs : p.status = .funding) (hv : 0 ≤ v) :
    WFI (it.addFunds f v) := by
  have hvotes : it.votes = [] := w.fundingNoVotes p ha hs
  refine ⟨?_, ?_, ?_, ?_, ?_, ?_, ?_, ?_, ?_, ?_⟩
  · simpa using w.activeExcl
  · simpa using w.activeOpen
  · intro hx
    have : (it.addFunds f v).exists = true := Item.exists_of_get _ .active p (by simp [ha])
    rw [this] at hx; cases hx
  · intro q hq hqs; simpa using hvotes
  · intro _ kv hkv; simp [hvotes] at hkv
  · intro hne; simp [hvotes] at hne
  · intro st q hq hr; simp at hq ⊢; exact w.refundNoVotes st q hq hr
  · simp [sumFunds_addFundRec, w.totalIsSum]
  · intro kv hkv
    simp at hkv
    rcases mem_addFundRec _ _ _ _ hkv with h1 | ⟨_, h2⟩
    · exact w.fundsNonneg kv h1
    · have := fundAmount_nonneg it.funds f w.fundsNonneg
      omega
  · intro st q hq hoq
    simp only [Item.addFunds_get] at hq
    obtain ⟨e1, e2, e3, e4⟩ := w.activeExcl (by simp [ha])
    obtain ⟨o1, _⟩ := w.activeOpen p ha
    cases st <;> simp [Item.get, ha, e1, e2, e3, e4] at hq
    subst hq; rw [o1] at hoq; cases hoq

theorem wfi_fundStart (it : Item) (p : Proposal) (f : Addr) (v vd : Int) (vals : List (Addr × ValRec)) (w : WFI it)
    (ha : it.active = some p) (hs : p.status = .funding) (hv : 0 ≤ v) (hg : v + it.total ≥ p.fundingGoal) :
    WFI (((it.set .active { p with status := .voting, votingDeadline := vd }).withVotes
              (snapshot it.votes vals)).addFunds f v) := by
  have hvotes : it.votes = [] := w.fundingNoVotes p ha hs
  obtain ⟨e1, e2, e3, e4⟩ := w.activeExcl (by simp [ha])
  obtain ⟨o1, _⟩ := w.activeOpen p ha
  refine ⟨?_, ?_, ?_, ?_, ?_, ?_, ?_, ?_, ?_, ?_⟩
  · intro _; simp [e1, e2, e3, e4]
  · intro q hq; simp at hq; subst hq; simp [o1]
  · intro hx
    have : (((it.set .active { p with status := .voting, votingDeadline := vd }).withVotes
              (snapshot it.votes vals)).addFunds f v).exists = true :=
      Item.exists_of_get _ .active { p with status := .voting, votingDeadline := vd } (by simp)
    rw [this] at hx; cases hx
  · intro q hq hqs; simp at hq; subst hq; simp at hqs
  · intro _ kv hkv
    simp at hkv
    exact snapshot_uncommitted it.votes vals (by simp [hvotes]) kv hkv
  · intro _ st q hq
    left
    cases st <;> simp [Item.get, e1, e2, e3, e4] at hq
    subst hq; simp; omega
  · intro st q hq hr
    cases st <;> simp [Item.get, e1, e2, e3, e4] at hq
    subst hq
    unfold refundable at hr; simp [o1] at hr
  · simp [sumFunds_addFundRec, w.totalIsSum]
  · intro kv hkv
    simp at hkv
    rcases mem_addFundRec _ _ _ _ hkv with h1 | ⟨_, h2⟩
    · exact w.fundsNonneg kv h1
    · have := fundAmount_nonneg it.funds f w.fundsNonneg
      omega
  · intro st q hq hoq
    cases st <;> simp [Item.get, e1, e2, e3, e4] at hq
    subst hq; simp [o1] at hoq

theorem wfi_voteTbd (it : Item) (p : Proposal) (a : Addr) (o : Opinion) (votes' : List (Addr × VoteRec)) (w : WFI it)
    (ha : it.active = some p) (hs : p.status = .voting) (hu : updateVote it.votes a o = some votes') :
    WFI (it.withVotes votes') := by
  obtain ⟨hne, hne'⟩ := updateVote_ne_nil _ _ _ _ hu
  refine ⟨?_, ?_, ?_, ?_, ?_, ?_, ?_, ?_, ?_, ?_⟩
  · simpa using w.activeExcl
  · simpa using w.activeOpen
  · intro hx
    have : (it.withVotes votes').exists = true := Item.exists_of_get _ .active p (by simp [ha])
    rw [this] at hx; cases hx
  · intro q hq hqs; simp [ha] at hq; subst hq; rw [hs] at hqs; cases hqs
  · intro hex kv hkv
    simp only [Item.withVotes_funds, Item.withVotes_votes] at hex hkv
    exact updateVote_uncommitted _ _ _ _ hu (w.freshFunds hex) kv hkv
  · intro _ st q hq
    simp at hq ⊢
    exact w.votedFunded hne st q hq
  · intro st q hq hr
    simp at hq
    exact absurd (w.refundNoVotes st q hq hr) hne
  · simpa using w.totalIsSum
  · simpa using w.fundsNonneg
  · intro st q hq hoq kv hkv
    simp only [Item.withVotes_get] at hq
    simp only [Item.withVotes_funds] at hkv
    exact w.expiredCommitted st q hq hoq kv hkv

theorem wfi_voteDecide (it : Item) (p : Proposal) (a : Addr) (o : Opinion) (votes' : List (Addr × VoteRec)) (w : WFI it)
    (st : Store) (oc : Outcome) (hst : st = .passed ∨ st = .failed) (hoc : oc = .completedYes ∨ oc = .completedNo)
    (ha : it.active = some p) (hs : p.status = .voting) (hu : updateVote it.votes a o = some votes') :
    WFI (((it.withVotes votes').set st { p with status := .completed, outcome := oc }).del .active) := by
  obtain ⟨hne, hne'⟩ := updateVote_ne_nil _ _ _ _ hu
  obtain ⟨e1, e2, e3, e4⟩ := w.activeExcl (by simp [ha])
  have hst' : st ≠ .active := by rcases hst with h | h <;> simp [h]
  refine ⟨?_, ?_, ?_, ?_, ?_, ?_, ?_, ?_, ?_, ?_⟩
  · intro hx; simp at hx
  · intro q hq; simp at hq
  · intro hx
    have : (((it.withVotes votes').set st { p with status := .completed, outcome := oc }).del .active).exists = true :=
      Item.exists_of_get _ st { p with status := .completed, outcome := oc } (by simp [Item.get_del, Item.get_set, hst'])
    rw [this] at hx; cases hx
  · intro q hq; simp at hq
  · intro hex kv hkv
    simp only [Item.del_funds, Item.set_funds, Item.withVotes_funds, Item.del_votes, Item.set_votes, Item.withVotes_votes] at hex hkv
    exact updateVote_uncommitted _ _ _ _ hu (w.freshFunds hex) kv hkv
  · intro _ st' q hq
    simp only [Item.get_del, Item.get_set, Item.withVotes_get] at hq
    simp only [Item.del_total, Item.set_total, Item.withVotes_total, Item.del_funds, Item.set_funds, Item.withVotes_funds]
    by_cases h1 : st' = .active
    · simp [h1] at hq
    · by_cases h2 : st' = st
      · simp [h1, h2] at hq; obtain ⟨_, rfl⟩ := hq
        exact w.votedFunded hne .active p (by simp [ha])
      · simp [h1, h2] at hq
        exact w.votedFunded hne st' q hq
  · intro st' q hq hr
    simp only [Item.get_del, Item.get_set, Item.withVotes_get] at hq
    by_cases h1 : st' = .active
    · simp [h1] at hq
    · by_cases h2 : st' = st
      · simp [h1, h2] at hq; obtain ⟨_, rfl⟩ := hq
        unfold refundable at hr
        rcases hoc with h | h <;> simp [h] at hr
      · simp [h1, h2] at hq
        exact absurd (w.refundNoVotes st' q hq hr) hne
  · simpa using w.totalIsSum
  · simpa using w.fundsNonneg
  · intro st' q hq hoq kv hkv
    simp only [Item.get_del, Item.get_set, Item.withVotes_get] at hq
    simp only [Item.del_funds, Item.set_funds, Item.withVotes_funds] at hkv
    by_cases h1 : st' = .active
    · simp [h1] at hq
    · by_cases h2 : st' = st
      · simp [h1, h2] at hq; obtain ⟨_, rfl⟩ := hq
        rcases hoc with h | h <;> simp [h] at hoq
      · simp [h1, h2] at hq; exact w.expiredCommitted st' q hq hoq kv hkv

/-- cancel and expire: the ACTIVE copy moves to FAILED with a new outcome -/
theorem wfi_toFailed (it : Item) (p : Proposal) (oc : Outcome) (w : WFI it)
    (ha : it.active = some p)
    (hoc : (oc = .cancelled ∧ p.status = .funding) ∨ oc = .insufficientVotes)
    (hcom : oc = .insufficientVotes → ∀ kv ∈ it.funds, kv.2.committed = true) :
    WFI ((it.set .failed { p with status := .completed, outcome := oc }).del .active) := by
  obtain ⟨e1, e2, e3, e4⟩ := w.activeExcl (by simp [ha])
  refine ⟨?_, ?_, ?_, ?_, ?_, ?_, ?_, ?_, ?_, ?_⟩
  · intro hx; simp at hx
  · intro q hq; simp at hq
  · intro hx
    have : ((it.set .failed { p with status := .completed, outcome := oc }).del .active).exists = true :=
      Item.exists_of_get _ .failed { p with status := .completed, outcome := oc } (by simp [Item.get_del, Item.get_set])
    rw [this] at hx; cases hx
  · intro q hq; simp at hq
  · intro hex kv hkv
    simp only [Item.del_funds, Item.set_funds, Item.del_votes, Item.set_votes] at hex hkv
    exact w.freshFunds hex kv hkv
  · intro hne st' q hq
    simp only [Item.del_votes, Item.set_votes] at hne
    simp only [Item.get_del, Item.get_set] at hq
    simp only [Item.del_total, Item.set_total, Item.del_funds, Item.set_funds]
    by_cases h1 : st' = .active
    · simp [h1] at hq
    · by_cases h2 : st' = .failed
      · simp [h2] at hq; subst hq
        exact w.votedFunded hne .active p (by simp [ha])
      · simp [h1, h2] at hq
        exact w.votedFunded hne st' q hq
  · intro st' q hq hr
    simp only [Item.get_del, Item.get_set] at hq
    simp only [Item.del_votes, Item.set_votes]
    by_cases h1 : st' = .active
    · simp [h1] at hq
    · by_cases h2 : st' = .failed
      · simp [h2] at hq; subst hq
        rcases hoc with ⟨_, hf⟩ | h
        · exact w.fundingNoVotes p ha hf
        · unfold refundable at hr; simp [h] at hr
      · simp [h1, h2] at hq
        exact w.refundNoVotes st' q hq hr
  · simpa using w.totalIsSum
  · simpa using w.fundsNonneg
  · intro st' q hq hoq kv hkv
    simp only [Item.get_del, Item.get_set] at hq
    simp only [Item.del_funds, Item.set_funds] at hkv
    by_cases h1 : st' = .active
    · simp [h1] at hq
    · by_cases h2 : st' = .failed
      · simp [h2] at hq; subst hq
        have hoc' : oc = .insufficientVotes := hoq
        exact hcom hoc' kv hkv
      · simp [h1, h2] at hq; exact w.expiredCommitted st' q hq hoq kv hkv

theorem wfi_deduct (it : Item) (r : FundRec) (f : Addr) (v : Int) (w : WFI it)
    (hr : alookup f it.funds = some r) (h0 : 0 ≤ r.amount - v) (hvotes : it.votes = []) :
    WFI { it with funds := upsert it.funds f { r with amount := r.amount - v }, total := it.total - v } := by
  have hfa : fundAmount it.funds f = r.amount := by simp [fundAmount, hr]
  refine ⟨?_, ?_, ?_, ?_, ?_, ?_, ?_, ?_, ?_, ?_⟩
  · exact w.activeExcl
  · exact w.activeOpen
  · intro hx
    have hx' : it.exists = false := hx
    have := (w.noOrphans hx').2.1
    rw [this] at hr; simp [alookup] at hr
  · intro q hq hqs; exact w.fundingNoVotes q hq hqs
  · intro _ kv hkv
    have hkv' : kv ∈ it.votes := hkv
    rw [hvotes] at hkv'; cases hkv'
  · intro hne
    exact absurd hvotes hne
  · intro st q hq hrf; exact hvotes
  · show it.total - v = sumFunds (upsert it.funds f { r with amount := r.amount - v })
    rw [sumFunds_upsert, hfa, w.totalIsSum]; simp; omega
  · intro kv hkv
    rcases mem_upsert_gen _ _ _ _ hkv with h1 | h1
    · exact w.fundsNonneg kv h1
    · subst h1; exact h0
  · intro st q hq hoq kv hkv
    have hq' : it.get st = some q := by cases st <;> exact hq
    rcases mem_upsert_gen _ _ _ _ hkv with h1 | h1
    · exact w.expiredCommitted st q hq' hoq kv h1
    · subst h1; exact w.expiredCommitted st q hq' hoq (f, r) (alookup_mem _ _ _ hr)

theorem Item.decided_get (it : Item) (p : Proposal) (h : it.decided = some p) :
    it.passed = some p ∨ (it.passed = none ∧ it.failed = some p) := by
  unfold Item.decided at h
  cases hp : it.passed with
  | some q => simp [hp] at h; left; rw [h]
  | none => simp [hp] at h; right; exact ⟨rfl, h⟩

/-- the withdraw path that first marks the proposal as having missed its goal -/
theorem wfi_convert (it : Item) (p : Proposal) (w : WFI it) (hvotes : it.votes = []) :
    WFI ((it.set .failed { p with outcome := .insufficientFunds, status := .completed }).del .active) := by
  refine ⟨?_, ?_, ?_, ?_, ?_, ?_, ?_, ?_, ?_, ?_⟩
  · intro hx; simp at hx
  · intro q hq; simp at hq
  · intro hx
    have : ((it.set .failed { p with outcome := .insufficientFunds, status := .completed }).del .active).exists = true :=
      Item.exists_of_get _ .failed { p with outcome := .insufficientFunds, status := .completed } (by simp [Item.get_del, Item.get_set])
    rw [this] at hx; cases hx
  · intro q hq; simp at hq
  · intro _ kv hkv
    simp only [Item.del_votes, Item.set_votes, hvotes] at hkv; cases hkv
  · intro hne
    simp only [Item.del_votes, Item.set_votes] at hne
    exact absurd hvotes hne
  · intro st' q hq hr
    simpa using hvotes
  · simpa using w.totalIsSum
  · simpa using w.fundsNonneg
  · intro st' q hq hoq kv hkv
    simp only [Item.get_del, Item.get_set] at hq
    simp only [Item.del_funds, Item.set_funds] at hkv
    by_cases h1 : st' = .active
    · simp [h1] at hq
    · by_cases h2 : st' = .failed
      · simp [h2] at hq; subst hq; simp at hoq
      · simp [h1, h2] at hq; exact w.expiredCommitted st' q hq hoq kv hkv

theorem wfi_finCfgFailed (it : Item) (p : Proposal) (w : WFI it) (hd : it.decided = some p) :
    WFI ((it.set .finFailed p).del .passed) := by
  have hact : it.active = none := by
    cases ha : it.active with
    | none => rfl
    | some q =>
      obtain ⟨e1, e2, _, _⟩ := w.activeExcl (by simp [ha])
      simp [Item.decided, e1, e2] at hd
  have hcopy : ∃ st, it.get st = some p := by
    rcases Item.decided_get it p hd with h | ⟨_, h⟩
    · exact ⟨.passed, h⟩
    · exact ⟨.failed, h⟩
  obtain ⟨st0, hst0⟩ := hcopy
  refine ⟨?_, ?_, ?_, ?_, ?_, ?_, ?_, ?_, ?_, ?_⟩
  · intro hx; simp [hact] at hx
  · intro q hq; simp [hact] at hq
  · intro hx
    have : ((it.set .finFailed p).del .passed).exists = true :=
      Item.exists_of_get _ .finFailed p (by simp [Item.get_del, Item.get_set])
    rw [this] at hx; cases hx
  · intro q hq; simp [hact] at hq
  · intro hex kv hkv
    simp only [Item.del_funds, Item.set_funds, Item.del_votes, Item.set_votes] at hex hkv
    exact w.freshFunds hex kv hkv
  · intro hne st' q hq
    simp only [Item.del_votes, Item.set_votes] at hne
    simp only [Item.get_del, Item.get_set] at hq
    simp only [Item.del_total, Item.set_total, Item.del_funds, Item.set_funds]
    by_cases h1 : st' = .passed
    · simp [h1] at hq
    · by_cases h2 : st' = .finFailed
      · simp [h2] at hq; subst hq
        exact w.votedFunded hne st0 p hst0
      · simp [h1, h2] at hq
        exact w.votedFunded hne st' q hq
  · intro st' q hq hr
    simp only [Item.get_del, Item.get_set] at hq
    simp only [Item.del_votes, Item.set_votes]
    by_cases h1 : st' = .passed
    · simp [h1] at hq
    · by_cases h2 : st' = .finFailed
      · simp [h2] at hq; subst hq
        exact w.refundNoVotes st0 p hst0 hr
      · simp [h1, h2] at hq
        exact w.refundNoVotes st' q hq hr
  · simpa using w.totalIsSum
  · simpa using w.fundsNonneg
  · intro st' q hq hoq kv hkv
    simp only [Item.get_del, Item.get_set] at hq
    simp only [Item.del_funds, Item.set_funds] at hkv
    by_cases h1 : st' = .passed
    · simp [h1] at hq
    · by_cases h2 : st' = .finFailed
      · simp [h2] at hq; subst hq; exact w.expiredCommitted st0 p hst0 hoq kv hkv
      · simp [h1, h2] at hq; exact w.expiredCommitted st' q hq hoq kv hkv

/-- at a finalisation every fund record is committed: a decided (or undecided) tally means a
    committed vote record, which excludes a fund record of this block; an expired proposal
    without vote records has none by `expiredCommitted` -/
theorem final_funds_committed (it : Item) (p : Proposal) (r : VoteResult) (w : WFI it)
    (hd : it.decided = some p) (ht : finalResult (resultSoFar it.votes p.passPercent) p = .ok r) :
    ∀ kv ∈ it.funds, kv.2.committed = true := by
  intro kv hkv
  cases hr : resultSoFar it.votes p.passPercent with
  | none =>
    rw [hr] at ht
    simp only [finalResult] at ht
    split at ht
    · rename_i ho
      have hcopy : ∃ st, it.get st = some p := by
        rcases Item.decided_get it p hd with h | ⟨_, h⟩
        · exact ⟨.passed, h⟩
        · exact ⟨.failed, h⟩
      obtain ⟨st0, hst0⟩ := hcopy
      exact w.expiredCommitted st0 p hst0 ho kv hkv
    · cases ht
  | some r0 =>
    cases hc : kv.2.committed with
    | true => rfl
    | false =>
      obtain ⟨kv', hkv', hc'⟩ := resultSoFar_some it.votes p.passPercent r0 hr
      have := w.freshFunds ⟨kv, hkv, hc⟩ kv' hkv'
      rw [this] at hc'; cases hc'

/-- with every fund record committed `DeleteAllFunds` removes every record and zeroes the total -/
theorem deleteAll_clears (it : Item) (w : WFI it) (hc : ∀ kv ∈ it.funds, kv.2.committed = true) :
    it.deleteAllFunds.2 = false ∧ it.deleteAllFunds.1.total = 0 ∧ it.deleteAllFunds.1.funds = [] := by
  obtain ⟨h1, h2⟩ := deleteAllFunds_ok it w.totalIsSum w.fundsNonneg
  refine ⟨h1, h2, ?_⟩
  rw [deleteAllFunds_funds]
  exact filter_uncommitted_nil _ hc

theorem wfi_finalize (it : Item) (p : Proposal) (r : VoteResult) (src : Store) (w : WFI it)
    (hd : it.decided = some p) (ht : finalResult (resultSoFar it.votes p.passPercent) p = .ok r)
    (hsrc : src = .passed ∨ src = .failed) :
    WFI ((it.deleteAllFunds.1.set .finalized p).del src) := by
  obtain ⟨_, htot, hfunds⟩ := deleteAll_clears it w (final_funds_committed it p r w hd ht)
  have hact : it.active = none := by
    cases ha : it.active with
    | none => rfl
    | some q =>
      obtain ⟨e1, e2, _, _⟩ := w.activeExcl (by simp [ha])
      simp [Item.decided, e1, e2] at hd
  have hact' : it.deleteAllFunds.1.active = none := by
    have := deleteAllFunds_get it .active; simpa [hact] using this
  have hcopy : ∃ st, it.get st = some p := by
    rcases Item.decided_get it p hd with h | ⟨_, h⟩
    · exact ⟨.passed, h⟩
    · exact ⟨.failed, h⟩
  obtain ⟨st0, hst0⟩ := hcopy
  have hsrc1 : src ≠ .active := by rcases hsrc with h | h <;> simp [h]
  have hsrc2 : src ≠ .finalized := by rcases hsrc with h | h <;> simp [h]
  refine ⟨?_, ?_, ?_, ?_, ?_, ?_, ?_, ?_, ?_, ?_⟩
  · intro hx; simp [hact', hsrc1] at hx
  · intro q hq; simp [hact', hsrc1] at hq
  · intro hx
    have : ((it.deleteAllFunds.1.set .finalized p).del src).exists = true :=
      Item.exists_of_get _ .finalized p (by simp [Item.get_del, Item.get_set, hsrc2, hsrc2.symm])
    rw [this] at hx; cases hx
  · intro q hq; simp [hact', hsrc1] at hq
  · intro hex
    simp only [Item.del_funds, Item.set_funds, hfunds] at hex
    obtain ⟨kv, hkv, _⟩ := hex; cases hkv
  · intro _ st' q _
    right; simp [hfunds]
  · intro st' q hq hr
    simp only [Item.get_del, Item.get_set, deleteAllFunds_get] at hq
    simp only [Item.del_votes, Item.set_votes, deleteAllFunds_votes]
    by_cases h1 : st' = src
    · simp [h1] at hq
    · by_cases h2 : st' = .finalized
      · simp [h2, hsrc2, hsrc2.symm] at hq; subst hq
        exact w.refundNoVotes st0 p hst0 hr
      · simp [h1, h2] at hq
        exact w.refundNoVotes st' q hq hr
  · simp [htot, hfunds, sumFunds]
  · intro kv hkv
    simp only [Item.del_funds, Item.set_funds, hfunds] at hkv; cases hkv
  · intro _ _ _ _ kv hkv
    simp only [Item.del_funds, Item.set_funds, hfunds] at hkv; cases hkv

theorem sumFunds_commit (l : List (Addr × FundRec)) : sumFunds (commitFunds l) = sumFunds l := by
  induction l with
  | nil => rfl
  | cons hd t ih => obtain ⟨k, r⟩ := hd; simp only [commitFunds, List.map_cons, sumFunds] at ih ⊢; omega

theorem wfi_commit (it : Item) (w : WFI it) : WFI it.commit := by
  refine ⟨?_, ?_, ?_, ?_, ?_, ?_, ?_, ?_, ?_, ?_⟩
  · exact w.activeExcl
  · exact w.activeOpen
  · intro hx
    have hx' : it.exists = false := hx
    obtain ⟨a, b, c⟩ := w.noOrphans hx'
    simp [Item.commit, a, b, c, commitVotes, commitFunds]
  · intro q hq hqs
    have := w.fundingNoVotes q hq hqs
    simp [Item.commit, this, commitVotes]
  · intro hex
    obtain ⟨kv, hkv, hc⟩ := hex
    simp only [Item.commit, commitFunds, List.mem_map] at hkv
    obtain ⟨kv0, _, rfl⟩ := hkv
    simp at hc
  · intro hne st q hq
    have hne' : it.votes ≠ [] := by
      intro e; apply hne; simp [Item.commit, e, commitVotes]
    have hq' : it.get st = some q := by cases st <;> exact hq
    rcases w.votedFunded hne' st q hq' with h | h
    · left; exact h
    · right; simp [Item.commit, h, commitFunds]
  · intro st q hq hr
    have hq' : it.get st = some q := by cases st <;> exact hq
    have := w.refundNoVotes st q hq' hr
    simp [Item.commit, this, commitVotes]
  · show it.total = sumFunds (commitFunds it.funds)
    rw [sumFunds_commit]; exact w.totalIsSum
  · intro kv hkv
    simp only [Item.commit, commitFunds, List.mem_map] at hkv
    obtain ⟨kv0, h0, rfl⟩ := hkv
    exact w.fundsNonneg kv0 h0
  · intro st q hq hoq kv hkv
    simp only [Item.commit, commitFunds, List.mem_map] at hkv
    obtain ⟨kv0, _, rfl⟩ := hkv
    rfl

/-- a VOTING proposal with a fund record written in the current block has its deadline ahead
    (voting began in this very block) -/
def FreshOK (h : Int) (it : Item) : Prop :=
  ∀ p, it.active = some p → p.status = .voting → (∃ kv ∈ it.funds, kv.2.committed = false) → h ≤ p.votingDeadline

theorem wfi_trans (h : Int) (opts : Opts) (vals : List (Addr × ValRec)) (it it' : Item)
    (w : WFI it) (hfresh : FreshOK h it) (t : Trans h opts vals it it') : WFI it' := by
  cases t with
  | create p v he hs ho hv _ => exact wfi_create it p v w he hs ho hv
  | fundMore p f v ha hs _ hv _ => exact wfi_fundMore it p f v w ha hs hv
  | fundStart p f v ha hs _ hv hg => exact wfi_fundStart it p f v _ vals w ha hs hv hg
  | voteTbd p a o votes' ha hs _ hu _ => exact wfi_voteTbd it p a o votes' w ha hs hu
  | votePass p a o votes' ha hs _ hu _ =>
    exact wfi_voteDecide it p a o votes' w .passed .completedYes (Or.inl rfl) (Or.inl rfl) ha hs hu
  | voteFail p a o votes' ha hs _ hu _ =>
    exact wfi_voteDecide it p a o votes' w .failed .completedNo (Or.inr rfl) (Or.inr rfl) ha hs hu
  | cancel p ha hs _ => exact wfi_toFailed it p .cancelled w ha (Or.inl ⟨rfl, hs⟩) (fun h => by cases h)
  | expire p ha hs hd =>
    refine wfi_toFailed it p .insufficientVotes w ha (Or.inr rfl) (fun _ kv hkv => ?_)
    cases hc : kv.2.committed with
    | true => rfl
    | false => have := hfresh p ha hs ⟨kv, hkv, hc⟩; omega
  | withdraw p f v it2 hq hr hf hv hd =>
    obtain ⟨st, hst⟩ := Item.queryAll_get it p hq
    have hvotes : it.votes = [] := w.refundNoVotes st p hst hr
    obtain ⟨r, hr', _, h0, _, rfl⟩ := deductFunds_some it it' f v hd hf
    exact wfi_deduct it r f v w hr' h0 hvotes
  | withdrawConv p f v it2 hq hn1 hn2 hlt _ hf hv hd =>
    obtain ⟨st, hst⟩ := Item.queryAll_get it p hq
    have hvotes : it.votes = [] := by
      cases hv' : it.votes with
      | nil => rfl
      | cons kv t =>
        have hne : it.votes ≠ [] := by simp [hv']
        rcases w.votedFunded hne st p hst with h1 | h1
        · omega
        · simp [isFundedBy, h1, alookup] at hf
    have w1 := wfi_convert it p w hvotes
    have hf1 : isFundedBy ((it.set .failed { p with outcome := .insufficientFunds, status := .completed }).del .active).funds f = true := by
      simpa using hf
    obtain ⟨r, hr', _, h0, _, rfl⟩ := deductFunds_some _ it' f v hd hf1
    exact wfi_deduct _ r f v w1 hr' h0 (by simpa using hvotes)
  | finCfgFailed p _ _ hd _ _ => exact wfi_finCfgFailed it p w hd
  | finalize p r src _ _ hd _ ht hsrc _ =>
    exact wfi_finalize it p r src w hd ht (by rcases hsrc with ⟨_, h⟩ | ⟨_, h⟩ <;> simp [h])
  | finBad p r _ _ hd _ ht _ hbad =>
    have := (deleteAll_clears it w (final_funds_committed it p r w hd ht)).1
    rw [this] at hbad; cases hbad
  | commit => exact wfi_commit it w


/-! ## the handlers, inverted -/


theorem St.item_setItem (s : St) (pid pid' : PID) (it : Item) :
    (s.setItem pid it).item pid' = if pid' = pid then it else s.item pid' := by
  unfold St.item St.setItem
  simp only [alookup_upsert]
  by_cases h : pid' = pid <;> simp [h]

/-- the initial-funding thresholds of the proposal options are not negative -/
def OptsOK (o : Opts) : Prop := ∀ t, 0 ≤ (o.byType t).initialFunding

/-- the part of the state a transaction can only change through one item -/
structure Frame (s s' : St) : Prop where
  height : s'.height = s.height
  vals : s'.vals = s.vals
  qExpire : s'.qExpire = s.qExpire
  qFinalize : s'.qFinalize = s.qFinalize

/-- `s'` is `s` with the records of at most one proposal transformed -/
def ItemStep (s s' : St) : Prop :=
  s'.items = s.items ∨ ∃ pid it', Trans s.height s.opts s.vals (s.item pid) it' ∧ s'.items = upsert s.items pid it'

theorem runCreate_ok (E : Env) (s s' : St) (pid : PID) (pt : PType) (pr : Addr) (ini fd g vd pp : Int) (cfg : String)
    (hopts : OptsOK s.opts) (h : runCreate E s pid pt pr ini fd g vd pp cfg = .ok s') :
    ∃ p b, p.status = .funding ∧ p.outcome = .inProgress ∧ p.proposer = pr ∧ 0 ≤ ini ∧ s.height < p.fundingDeadline ∧
      (s.item pid).exists = false ∧ minusFrom s.bal pr ini = .ok b ∧
      s' = { (s.setItem pid (((s.item pid).set .active p).addFunds pr ini)) with bal := b } := by
  unfold runCreate at h
  simp only at h
  split at h; · cases h
  rename_i h1
  split at h; · cases h
  split at h; · cases h
  split at h; · cases h
  split at h; · cases h
  split at h; · cases h
  rename_i h6
  split at h; · cases h
  split at h; · cases h
  rename_i hex
  split at h; · cases h
  rename_i b hb
  simp only [Except.ok.injEq] at h
  have h0 := hopts pt
  refine ⟨_, b, rfl, rfl, rfl, by omega, by simp; omega, by simpa using hex, hb, h.symm⟩



theorem runFund_ok (s s' : St) (pid : PID) (f : Addr) (v : Int) (h : runFund s pid f v = .ok s') :
    ∃ p b, (s.item pid).active = some p ∧ p.status = .funding ∧ s.height ≤ p.fundingDeadline ∧
      minusFrom s.bal f v = .ok b ∧
      ((¬ (v + (s.item pid).total ≥ p.fundingGoal) ∧
          s' = { (s.setItem pid ((s.item pid).addFunds f v)) with bal := b }) ∨
       (v + (s.item pid).total ≥ p.fundingGoal ∧
          s' = { (s.setItem pid ((((s.item pid).set .active { p with status := .voting, votingDeadline := s.height + (s.opts.byType p.ptype).votingDeadline }).withVotes
                    (snapshot (s.item pid).votes s.vals)).addFunds f v)) with bal := b })) := by
  unfold runFund at h
  simp only at h
  split at h; · cases h
  rename_i p hp
  split at h; · cases h
  rename_i h1
  split at h; · cases h
  rename_i h2
  split at h; · cases h
  rename_i b hb
  simp only [Except.ok.injEq] at h
  refine ⟨p, b, hp, by simpa using h2, by omega, hb, ?_⟩
  by_cases hg : v + (s.item pid).total ≥ p.fundingGoal
  · right; simp only [hg, if_true] at h; exact ⟨hg, h.symm⟩
  · left; simp only [hg, if_false] at h; exact ⟨hg, h.symm⟩

theorem runVote_ok (s s' : St) (pid : PID) (a : Addr) (o : Opinion) (h : runVote s pid a o = .ok s') :
    ∃ p votes' r, (s.item pid).active = some p ∧ p.status = .voting ∧ s.height ≤ p.votingDeadline ∧
      updateVote (s.item pid).votes a o = some votes' ∧
      resultSoFar votes' (s.opts.byType p.ptype).passPercent = some r ∧
      s' = s.setItem pid (match r with
        | .passed => ((((s.item pid).withVotes votes').set .passed { p with status := .completed, outcome := .completedYes }).del .active)
        | .failed => ((((s.item pid).withVotes votes').set .failed { p with status := .completed, outcome := .completedNo }).del .active)
        | .tbd => (s.item pid).withVotes votes') := by
  unfold runVote at h
  simp only at h
  split at h; · cases h
  rename_i p hp
  split at h; · cases h
  rename_i h1
  split at h; · cases h
  rename_i h2
  split at h; · cases h
  split at h; · cases h
  rename_i votes' hv
  split at h
  · cases h
  · rename_i hr; simp only [Except.ok.injEq] at h
    exact ⟨p, votes', .passed, hp, by simpa using h1, by omega, hv, hr, h.symm⟩
  · rename_i hr; simp only [Except.ok.injEq] at h
    exact ⟨p, votes', .failed, hp, by simpa using h1, by omega, hv, hr, h.symm⟩
  · rename_i hr; simp only [Except.ok.injEq] at h
    exact ⟨p, votes', .tbd, hp, by simpa using h1, by omega, hv, hr, h.symm⟩

theorem runCancel_ok (s s' : St) (pid : PID) (pr : Addr) (h : runCancel s pid pr = .ok s') :
    ∃ p, (s.item pid).active = some p ∧ p.status = .funding ∧ s.height ≤ p.fundingDeadline ∧ p.proposer = pr ∧
      s' = s.setItem pid (((s.item pid).set .failed { p with status := .completed, outcome := .cancelled }).del .active) := by
  unfold runCancel at h
  simp only at h
  split at h; · cases h
  rename_i p hp
  split at h; · cases h
  rename_i h1
  split at h; · cases h
  rename_i h2
  split at h; · cases h
  rename_i h3
  simp only [Except.ok.injEq] at h
  exact ⟨p, hp, by simpa using h1, by omega, by simpa using h3, h.symm⟩

theorem runExpire_ok (s s' : St) (pid : PID) (h : runExpire s pid = .ok s') :
    ∃ p, (s.item pid).active = some p ∧ p.status = .voting ∧ s.height > p.votingDeadline ∧
      s' = s.setItem pid (((s.item pid).set .failed { p with status := .completed, outcome := .insufficientVotes }).del .active) := by
  unfold runExpire at h
  simp only at h
  split at h; · cases h
  rename_i p hp
  split at h; · cases h
  rename_i hg
  simp only [Except.ok.injEq] at h
  have hs : p.status = .voting := by
    cases hst : p.status <;> simp [hst] at hg ⊢
  exact ⟨p, hp, hs, by omega, h.symm⟩

theorem runWithdraw_ok (s s' : St) (pid : PID) (f : Addr) (v : Int) (b : Addr) (h : runWithdraw s pid f v b = .ok s') :
    ∃ p it1 it2, (s.item pid).queryAll = some p ∧
      (((p.outcome = .cancelled ∨ p.outcome = .insufficientFunds) ∧ it1 = s.item pid) ∨
       (p.outcome ≠ .cancelled ∧ p.outcome ≠ .insufficientFunds ∧ (s.item pid).total < p.fundingGoal ∧
          s.height > p.fundingDeadline ∧
          it1 = (((s.item pid).set .failed { p with outcome := .insufficientFunds, status := .completed }).del .active))) ∧
      isFundedBy it1.funds f = true ∧ it1.deductFunds f v = some it2 ∧
      s' = { (s.setItem pid it2) with bal := addTo s.bal b v } := by
  unfold runWithdraw at h
  simp only at h
  split at h; · cases h
  rename_i p hp
  split at h; · cases h
  rename_i it1 hconv
  split at h; · cases h
  rename_i hf
  split at h; · cases h
  rename_i it2 hd
  simp only [Except.ok.injEq] at h
  refine ⟨p, it1, it2, hp, ?_, by simpa using hf, hd, h.symm⟩
  by_cases hc : p.outcome ≠ .cancelled ∧ p.outcome ≠ .insufficientFunds
  · right
    rw [if_pos hc] at hconv
    by_cases hg : (s.item pid).total ≥ p.fundingGoal ∨ s.height ≤ p.fundingDeadline
    · rw [if_pos hg] at hconv; cases hconv
    · rw [if_neg hg] at hconv
      simp only [Except.ok.injEq] at hconv
      refine ⟨hc.1, hc.2, by omega, by omega, hconv.symm⟩
  · left
    rw [if_neg hc] at hconv
    simp only [Except.ok.injEq] at hconv
    refine ⟨?_, hconv.symm⟩
    by_cases h1 : p.outcome = .cancelled
    · exact Or.inl h1
    · by_cases h2 : p.outcome = .insufficientFunds
      · exact Or.inr h2
      · exact absurd ⟨h1, h2⟩ hc



theorem finalResult_passed (r : Option VoteResult) (p : Proposal) (h : finalResult r p = .ok .passed) :
    r = some .passed := by
  unfold finalResult at h
  split at h
  · split at h <;> cases h
  · split at h <;> cases h
  · rfl
  · cases h

/-- the successful outcomes of `runFinalizeProposal` -/
theorem runFinalize_ok (E : Env) (s s' : St) (pid : PID) (h : runFinalize E s pid = .ok s') :
    (s' = s ∧ ((s.item pid).finalized.isSome ∨ (s.item pid).finFailed.isSome)) ∨
    ∃ p r, (s.item pid).finalized = none ∧ (s.item pid).finFailed = none ∧ (s.item pid).decided = some p ∧
      p.status = .completed ∧ finalResult (resultSoFar (s.item pid).votes p.passPercent) p = .ok r ∧
      ((r = .passed ∧ p.ptype = .config ∧ (∃ k v, parseCfg p.cfg = .upd k v ∧ applyUpd E s.opts k v s.height = none) ∧
          s' = toFinFailed s pid p) ∨
       ∃ d src s2, distributeAndMove s pid p d src = s2 ∧
          ((r = .passed ∧ src = .passed ∧ d = (s.opts.byType p.ptype).passedDist) ∨
           (r = .failed ∧ src = .failed ∧ d = (s.opts.byType p.ptype).failedDist)) ∧
          (s' = s2 ∨
           (r = .passed ∧ p.ptype = .config ∧ ∃ k v opts', parseCfg p.cfg = .upd k v ∧
              applyUpd E s.opts k v s.height = some opts' ∧
              s' = { s2 with opts := opts', applied := s.applied ++ [pid] }))) := by
  unfold runFinalize at h
  simp only at h
  split at h
  · rename_i h1; simp only [Except.ok.injEq] at h; left; exact ⟨h.symm, Or.inl h1⟩
  rename_i h1
  split at h
  · rename_i h2; simp only [Except.ok.injEq] at h; left; exact ⟨h.symm, Or.inr h2⟩
  rename_i h2
  right
  split at h; · cases h
  rename_i p hp
  split at h; · cases h
  rename_i hst
  have hst' : p.status = .completed := by simpa using hst
  have hf1 : (s.item pid).finalized = none := by simpa using h1
  have hf2 : (s.item pid).finFailed = none := by simpa using h2
  split at h
  · cases h
  · cases h
  · -- passed
    rename_i hr
    refine ⟨p, .passed, hf1, hf2, hp, hst', hr, ?_⟩
    split at h
    · rename_i hcfg
      split at h
      · cases h
      · cases h
      · rename_i k v hparse
        split at h
        · rename_i hupd
          simp only [Except.ok.injEq] at h
          left; exact ⟨rfl, hcfg, ⟨k, v, hparse, hupd⟩, h.symm⟩
        · rename_i opts' hupd
          simp only [Except.ok.injEq] at h
          right
          exact ⟨_, .passed, _, rfl, Or.inl ⟨rfl, rfl, rfl⟩, Or.inr ⟨rfl, hcfg, k, v, opts', hparse, hupd, h.symm⟩⟩
    · right
      simp only [Except.ok.injEq] at h
      exact ⟨_, .passed, s', h, Or.inl ⟨rfl, rfl, rfl⟩, Or.inl rfl⟩
  · -- failed
    rename_i hr
    refine ⟨p, .failed, hf1, hf2, hp, hst', hr, ?_⟩
    right
    simp only [Except.ok.injEq] at h
    exact ⟨_, .failed, s', h, Or.inr ⟨rfl, rfl, rfl⟩, Or.inl rfl⟩

theorem upsert_upsert {K V : Type} [DecidableEq K] (l : List (K × V)) (k : K) (a b : V) :
    upsert (upsert l k a) k b = upsert l k b := by
  induction l with
  | nil => simp [upsert]
  | cons hd t ih =>
    obtain ⟨k', v'⟩ := hd
    by_cases hk : k' = k
    · simp [upsert, hk]
    · simp [upsert, hk, ih]

theorem withFee_ok (r : Except Err St) (payer : Addr) (fee : Int) (s' : St) (h : withFee r payer fee = .ok s') :
    ∃ s1 b, r = .ok s1 ∧ transfer s1.bal payer poolAcc fee = .ok b ∧ s' = { s1 with bal := b } := by
  unfold withFee at h
  split at h; · cases h
  rename_i s1
  split at h; · cases h
  rename_i b hb
  simp only [Except.ok.injEq] at h
  exact ⟨s1, b, rfl, hb, h.symm⟩

theorem distribute_some (s s1 : St) (pid : PID) (p : Proposal) (d : Dist) (bad : Bool)
    (h : distribute s pid p d = some (s1, bad)) :
    (cvals s.vals) ≠ [] ∧ bad = (s.item pid).deleteAllFunds.2 ∧
    s1 = { (s.setItem pid (s.item pid).deleteAllFunds.1) with
           bal := (payouts s.bal (cvals s.vals) p.proposer s.opts.bountyAddr (s.opts.byType p.ptype).execAddr (s.item pid).total d).1,
           burned := s.burned + (payouts s.bal (cvals s.vals) p.proposer s.opts.bountyAddr (s.opts.byType p.ptype).execAddr (s.item pid).total d).2 } := by
  unfold distribute at h
  simp only at h
  split at h; · cases h
  rename_i hne
  simp only [Option.some.injEq, Prod.mk.injEq] at h
  refine ⟨?_, h.2.symm, h.1.symm⟩
  intro e; simp [e] at hne

theorem distribute_none (s : St) (pid : PID) (p : Proposal) (d : Dist) (h : distribute s pid p d = none) :
    cvals s.vals = [] := by
  unfold distribute at h
  simp only at h
  split at h
  · rename_i he; simpa using he
  · cases h

/-- the state after a distribution and the final move: without a validator record nothing is
    paid and the proposal is marked finalise-failed; otherwise the payouts are made, the escrow
    deleted, and the proposal moved -/
theorem distributeAndMove_items (s s' : St) (pid : PID) (p : Proposal) (d : Dist) (src : Store)
    (h : distributeAndMove s pid p d src = s') :
    s'.height = s.height ∧ s'.vals = s.vals ∧ s'.qExpire = s.qExpire ∧ s'.qFinalize = s.qFinalize ∧
    s'.opts = s.opts ∧ s'.applied = s.applied ∧
    ((cvals s.vals = [] ∧ s'.bal = s.bal ∧ s'.burned = s.burned ∧
        s'.items = upsert s.items pid (((s.item pid).set .finFailed p).del .passed)) ∨
     (cvals s.vals ≠ [] ∧
      s'.bal = (payouts s.bal (cvals s.vals) p.proposer s.opts.bountyAddr (s.opts.byType p.ptype).execAddr (s.item pid).total d).1 ∧
      s'.burned = s.burned + (payouts s.bal (cvals s.vals) p.proposer s.opts.bountyAddr (s.opts.byType p.ptype).execAddr (s.item pid).total d).2 ∧
      s'.items = upsert s.items pid
        (if (s.item pid).deleteAllFunds.2 then (((s.item pid).deleteAllFunds.1.set .finFailed p).del .passed)
         else (((s.item pid).deleteAllFunds.1.set .finalized p).del src)))) := by
  unfold distributeAndMove at h
  cases hd : distribute s pid p d with
  | none =>
    rw [hd] at h; simp only at h; subst h
    refine ⟨rfl, rfl, rfl, rfl, rfl, rfl, Or.inl ⟨distribute_none s pid p d hd, rfl, rfl, rfl⟩⟩
  | some x =>
    obtain ⟨s1, bad⟩ := x
    rw [hd] at h; simp only at h
    obtain ⟨hne, hbad, hs1⟩ := distribute_some s s1 pid p d bad hd
    subst hbad
    have hitem : s1.item pid = (s.item pid).deleteAllFunds.1 := by
      rw [hs1]; simp [St.item, St.setItem]
    have hitems : s1.items = upsert s.items pid (s.item pid).deleteAllFunds.1 := by rw [hs1]; rfl
    by_cases hb : (s.item pid).deleteAllFunds.2 = true
    · simp only [hb, if_true] at h ⊢
      subst h
      refine ⟨?_, ?_, ?_, ?_, ?_, ?_, Or.inr ⟨hne, ?_, ?_, ?_⟩⟩ <;> try (rw [hs1]; rfl)
      simp only [toFinFailed, St.setItem, hitem, hitems, upsert_upsert]
    · simp only [hb] at h ⊢
      simp only [Bool.false_eq_true, if_false] at h ⊢
      subst h
      refine ⟨?_, ?_, ?_, ?_, ?_, ?_, Or.inr ⟨hne, ?_, ?_, ?_⟩⟩ <;> try (rw [hs1]; rfl)
      simp only [toFinalized, St.setItem, hitem, hitems, upsert_upsert]

theorem Frame.refl (s : St) : Frame s s := ⟨rfl, rfl, rfl, rfl⟩

theorem runFinalize_step (E : Env) (s s' : St) (pid : PID) (h : runFinalize E s pid = .ok s') :
    Frame s s' ∧ ItemStep s s' := by
  rcases runFinalize_ok E s s' pid h with ⟨rfl, _⟩ | ⟨p, r, hf1, hf2, hd, hst, hr, hcase⟩
  · exact ⟨Frame.refl _, Or.inl rfl⟩
  · rcases hcase with ⟨hrp, _, _, rfl⟩ | ⟨d, src, s2, hdm, hsrc, hs'⟩
    · refine ⟨⟨rfl, rfl, rfl, rfl⟩, Or.inr ⟨pid, _, Trans.finCfgFailed (s.item pid) p hf1 hf2 hd hst hr, rfl⟩⟩
    · obtain ⟨f1, f2, f3, f4, _, _, hitems⟩ := distributeAndMove_items s s2 pid p d src hdm
      have hstep2 : ItemStep s s2 := by
        right
        rcases hitems with ⟨_, _, _, hitems⟩ | ⟨_, _, _, hitems⟩
        · exact ⟨pid, _, Trans.finCfgFailed (s.item pid) p hf1 hf2 hd hst hr, hitems⟩
        · by_cases hb : (s.item pid).deleteAllFunds.2 = true
          · simp only [hb, if_true] at hitems
            refine ⟨pid, _, Trans.finBad (s.item pid) p r hf1 hf2 hd hst hr ?_ hb, hitems⟩
            rcases hsrc with ⟨h1, _⟩ | ⟨h1, _⟩
            · exact Or.inl h1
            · exact Or.inr h1
          · have hb' : (s.item pid).deleteAllFunds.2 = false := by simpa using hb
            simp only [hb'] at hitems
            simp only [Bool.false_eq_true, if_false] at hitems
            refine ⟨pid, _, Trans.finalize (s.item pid) p r src hf1 hf2 hd hst hr ?_ hb', hitems⟩
            rcases hsrc with ⟨h1, h2, _⟩ | ⟨h1, h2, _⟩
            · exact Or.inl ⟨h1, h2⟩
            · exact Or.inr ⟨h1, h2⟩
      rcases hs' with rfl | ⟨_, _, k, v, opts', _, _, rfl⟩
      · exact ⟨⟨f1, f2, f3, f4⟩, hstep2⟩
      · exact ⟨⟨f1, f2, f3, f4⟩, hstep2⟩

theorem runTx_step (E : Env) (s s' : St) (op : Op) (hopts : OptsOK s.opts) (h : runTx E s op = .ok s') :
    Frame s s' ∧ ItemStep s s' := by
  cases op with
  | create pid pt pr ini fd g vd pp cfg fee =>
    simp only [runTx] at h
    obtain ⟨s1, b, h1, _, rfl⟩ := withFee_ok _ _ _ _ h
    obtain ⟨p, b1, hs, ho, hp, hi, hfd, hex, _, rfl⟩ := runCreate_ok E s s1 pid pt pr ini fd g vd pp cfg hopts h1
    refine ⟨⟨rfl, rfl, rfl, rfl⟩, Or.inr ⟨pid, _, ?_, rfl⟩⟩
    have := Trans.create (h := s.height) (opts := s.opts) (vals := s.vals) (s.item pid) p ini hex hs ho hi hfd
    rw [hp] at this; exact this
  | fund pid f v fee =>
    simp only [runTx] at h
    split at h; · cases h
    rename_i hv
    obtain ⟨s1, b, h1, _, rfl⟩ := withFee_ok _ _ _ _ h
    obtain ⟨p, b1, ha, hs, hd, _, hcase⟩ := runFund_ok s s1 pid f v h1
    rcases hcase with ⟨hg, rfl⟩ | ⟨hg, rfl⟩
    · exact ⟨⟨rfl, rfl, rfl, rfl⟩, Or.inr ⟨pid, _, Trans.fundMore (s.item pid) p f v ha hs hd (by omega) hg, rfl⟩⟩
    · exact ⟨⟨rfl, rfl, rfl, rfl⟩, Or.inr ⟨pid, _, Trans.fundStart (s.item pid) p f v ha hs hd (by omega) hg, rfl⟩⟩
  | vote pid payer val o fee =>
    simp only [runTx] at h
    split at h
    · split at h
      · obtain ⟨s1, b, h1, _, rfl⟩ := withFee_ok _ _ _ _ h
        obtain ⟨p, votes', r, ha, hs, hd, hu, hr, rfl⟩ := runVote_ok s s1 pid val o h1
        refine ⟨⟨rfl, rfl, rfl, rfl⟩, Or.inr ⟨pid, _, ?_, rfl⟩⟩
        cases r with
        | passed => exact Trans.votePass (s.item pid) p val o votes' ha hs hd hu hr
        | failed => exact Trans.voteFail (s.item pid) p val o votes' ha hs hd hu hr
        | tbd => exact Trans.voteTbd (s.item pid) p val o votes' ha hs hd hu hr
      · cases h
    · cases h
  | cancel pid pr fee =>
    simp only [runTx] at h
    obtain ⟨s1, b, h1, _, rfl⟩ := withFee_ok _ _ _ _ h
    obtain ⟨p, ha, hs, hd, _, rfl⟩ := runCancel_ok s s1 pid pr h1
    exact ⟨⟨rfl, rfl, rfl, rfl⟩, Or.inr ⟨pid, _, Trans.cancel (s.item pid) p ha hs hd, rfl⟩⟩
  | withdraw pid f v b fee =>
    simp only [runTx] at h
    split at h; · cases h
    rename_i hv
    obtain ⟨s1, b', h1, _, rfl⟩ := withFee_ok _ _ _ _ h
    obtain ⟨p, it1, it2, hq, hcase, hf, hd, rfl⟩ := runWithdraw_ok s s1 pid f v b h1
    refine ⟨⟨rfl, rfl, rfl, rfl⟩, Or.inr ⟨pid, it2, ?_, rfl⟩⟩
    rcases hcase with ⟨hr, rfl⟩ | ⟨hn1, hn2, hlt, hh, rfl⟩
    · exact Trans.withdraw (s.item pid) p f v it2 hq hr hf (by omega) hd
    · exact Trans.withdrawConv (s.item pid) p f v it2 hq hn1 hn2 hlt hh (by simpa using hf) (by omega) hd
  | expire pid =>
    simp only [runTx] at h
    obtain ⟨p, ha, hs, hd, rfl⟩ := runExpire_ok s s' pid h
    exact ⟨⟨rfl, rfl, rfl, rfl⟩, Or.inr ⟨pid, _, Trans.expire (s.item pid) p ha hs hd, rfl⟩⟩
  | finalize pid =>
    simp only [runTx] at h
    exact runFinalize_step E s s' pid h
  | beginBlock _ => simp only [runTx, Except.ok.injEq] at h; subst h; exact ⟨Frame.refl _, Or.inl rfl⟩
  | endBlock => simp only [runTx, Except.ok.injEq] at h; subst h; exact ⟨Frame.refl _, Or.inl rfl⟩
  | setVals _ => simp only [runTx, Except.ok.injEq] at h; subst h; exact ⟨Frame.refl _, Or.inl rfl⟩
  | setBal _ _ => simp only [runTx, Except.ok.injEq] at h; subst h; exact ⟨Frame.refl _, Or.inl rfl⟩


theorem item_of_upsert (s s' : St) (pid pid' : PID) (it : Item) (h : s'.items = upsert s.items pid it) :
    s'.item pid' = if pid' = pid then it else s.item pid' := by
  unfold St.item
  rw [h, alookup_upsert]
  by_cases hp : pid' = pid <;> simp [hp]

/-! ## facts read off `Trans` -/

theorem deductFunds_copies (it it2 : Item) (f : Addr) (v : Int) (h : it.deductFunds f v = some it2) :
    it2.active = it.active ∧ it2.passed = it.passed ∧ it2.failed = it.failed ∧ it2.finalized = it.finalized ∧
    it2.finFailed = it.finFailed ∧ it2.votes = it.votes := by
  unfold Item.deductFunds at h
  simp only at h
  split at h; · cases h
  split at h; · cases h
  simp only [Option.some.injEq] at h
  subst h
  exact ⟨rfl, rfl, rfl, rfl, rfl, rfl⟩

theorem deleteAllFunds_active (it : Item) : it.deleteAllFunds.1.active = it.active := deleteAllFunds_get it .active
theorem deleteAllFunds_finalized (it : Item) : it.deleteAllFunds.1.finalized = it.finalized := deleteAllFunds_get it .finalized
theorem deleteAllFunds_finFailed (it : Item) : it.deleteAllFunds.1.finFailed = it.finFailed := deleteAllFunds_get it .finFailed
theorem deleteAllFunds_passed (it : Item) : it.deleteAllFunds.1.passed = it.passed := deleteAllFunds_get it .passed
theorem deleteAllFunds_failed (it : Item) : it.deleteAllFunds.1.failed = it.failed := deleteAllFunds_get it .failed

/-- what a transformation can do to the ACTIVE copy: keep it, remove it, create it (only for an
    unknown id), or turn a FUNDING copy into a VOTING one -/
theorem trans_active (h : Int) (opts : Opts) (vals : List (Addr × ValRec)) (it it' : Item)
    (t : Trans h opts vals it it') :
    it'.active = it.active ∨ it'.active = none ∨ it.exists = false ∨
    (∃ p, it.active = some p ∧ p.status = .funding ∧ h ≤ p.fundingDeadline ∧ it'.total ≥ p.fundingGoal ∧
       it'.active = some { p with status := .voting, votingDeadline := h + (opts.byType p.ptype).votingDeadline }) := by
  cases t with
  | create p v he _ _ _ _ => exact Or.inr (Or.inr (Or.inl he))
  | fundMore p f v _ _ _ _ _ => left; simp
  | fundStart p f v ha hs hd hv hg =>
    right; right; right
    exact ⟨p, ha, hs, hd, by simp; omega, by simp⟩
  | voteTbd p a o votes' _ _ _ _ _ => left; simp
  | votePass p a o votes' _ _ _ _ _ => right; left; simp
  | voteFail p a o votes' _ _ _ _ _ => right; left; simp
  | cancel p _ _ _ => right; left; simp
  | expire p _ _ _ => right; left; simp
  | withdraw p f v it2 _ _ _ _ hd => left; exact (deductFunds_copies _ _ _ _ hd).1
  | withdrawConv p f v it2 _ _ _ _ _ _ _ hd =>
    right; left
    rw [(deductFunds_copies _ _ _ _ hd).1]; simp
  | finCfgFailed p _ _ _ _ _ => left; simp
  | finalize p r src _ _ _ _ _ hsrc _ =>
    left
    have : src ≠ .active := by rcases hsrc with ⟨_, h⟩ | ⟨_, h⟩ <;> simp [h]
    simp [this, deleteAllFunds_active]
  | finBad p r _ _ _ _ _ _ _ => left; simp [deleteAllFunds_active]
  | commit => left; rfl

theorem trans_exists (h : Int) (opts : Opts) (vals : List (Addr × ValRec)) (it it' : Item)
    (t : Trans h opts vals it it') (he : it.exists = true) : it'.exists = true := by
  cases t with
  | create p v he' _ _ _ _ => rw [he'] at he; cases he
  | fundMore p f v ha _ _ _ _ => exact Item.exists_of_get _ .active p (by simp [ha])
  | fundStart p f v ha _ _ _ _ => exact Item.exists_of_get _ .active _ (by simp; rfl)
  | voteTbd p a o votes' ha _ _ _ _ => exact Item.exists_of_get _ .active p (by simp [ha])
  | votePass p a o votes' _ _ _ _ _ => exact Item.exists_of_get _ .passed _ (by simp [Item.get_del, Item.get_set]; rfl)
  | voteFail p a o votes' _ _ _ _ _ => exact Item.exists_of_get _ .failed _ (by simp [Item.get_del, Item.get_set]; rfl)
  | cancel p _ _ _ => exact Item.exists_of_get _ .failed _ (by simp [Item.get_del, Item.get_set]; rfl)
  | expire p _ _ _ => exact Item.exists_of_get _ .failed _ (by simp [Item.get_del, Item.get_set]; rfl)
  | withdraw p f v it2 _ _ _ _ hd =>
    obtain ⟨a, b, c, d, e, _⟩ := deductFunds_copies _ _ _ _ hd
    simp only [Item.exists, a, b, c, d, e] at he ⊢; exact he
  | withdrawConv p f v it2 _ _ _ _ _ _ _ hd =>
    obtain ⟨a, b, c, d, e, _⟩ := deductFunds_copies _ _ _ _ hd
    simp only [Item.exists, a, b, c, d, e]; simp
  | finCfgFailed p _ _ _ _ _ => exact Item.exists_of_get _ .finFailed p (by simp [Item.get_del, Item.get_set])
  | finalize p r src _ _ _ _ _ hsrc _ =>
    have : src ≠ .finalized := by rcases hsrc with ⟨_, h⟩ | ⟨_, h⟩ <;> simp [h]
    exact Item.exists_of_get _ .finalized p (by simp [Item.get_del, Item.get_set, this, this.symm])
  | finBad p r _ _ _ _ _ _ _ => exact Item.exists_of_get _ .finFailed p (by simp [Item.get_del, Item.get_set])
  | commit => exact he

/-- a finalised proposal stays finalised -/
theorem trans_final (h : Int) (opts : Opts) (vals : List (Addr × ValRec)) (it it' : Item)
    (t : Trans h opts vals it it') (hf : it.finalized.isSome ∨ it.finFailed.isSome) :
    it'.finalized.isSome ∨ it'.finFailed.isSome := by
  cases t with
  | create p v he _ _ _ _ =>
    obtain ⟨_, _, _, h4, h5⟩ := Item.exists_false it he
    simp [h4, h5] at hf
  | fundMore p f v _ _ _ _ _ => simpa using hf
  | fundStart p f v _ _ _ _ _ => simpa using hf
  | voteTbd p a o votes' _ _ _ _ _ => simpa using hf
  | votePass p a o votes' _ _ _ _ _ => simpa using hf
  | voteFail p a o votes' _ _ _ _ _ => simpa using hf
  | cancel p _ _ _ => simpa using hf
  | expire p _ _ _ => simpa using hf
  | withdraw p f v it2 _ _ _ _ hd =>
    obtain ⟨_, _, _, d, e, _⟩ := deductFunds_copies _ _ _ _ hd
    rw [d, e]; exact hf
  | withdrawConv p f v it2 _ _ _ _ _ _ _ hd =>
    obtain ⟨_, _, _, d, e, _⟩ := deductFunds_copies _ _ _ _ hd
    rw [d, e]; simpa using hf
  | finCfgFailed p h1 h2 _ _ _ => simp [h1, h2] at hf
  | finalize p r src h1 h2 _ _ _ _ _ => simp [h1, h2] at hf
  | finBad p r h1 h2 _ _ _ _ _ => simp [h1, h2] at hf
  | commit => exact hf


/-- no transformation lowers the stage -/
theorem trans_rank (h : Int) (opts : Opts) (vals : List (Addr × ValRec)) (it it' : Item)
    (t : Trans h opts vals it it') : it.rank ≤ it'.rank := by
  have hA := rankA_le it.active
  have hB := rankB_le it.passed it.failed
  have hC := rankC_le it.finalized it.finFailed
  cases t with
  | create p v he _ _ _ _ =>
    obtain ⟨h1, h2, h3, h4, h5⟩ := Item.exists_false it he
    simp [Item.rank, h1, h2, h3, h4, h5, rankB, rankC]
  | fundMore p f v _ _ _ _ _ => simp [Item.rank]
  | fundStart p f v ha hs _ _ _ =>
    simp only [Item.rank, Item.addFunds_active, Item.addFunds_passed, Item.addFunds_failed, Item.addFunds_finalized,
      Item.addFunds_finFailed, Item.withVotes_active, Item.withVotes_passed, Item.withVotes_failed,
      Item.withVotes_finalized, Item.withVotes_finFailed, Item.set_active, Item.set_passed, Item.set_failed,
      Item.set_finalized, Item.set_finFailed, ha]
    simp [rankA, hs]
    omega
  | voteTbd p a o votes' _ _ _ _ _ => simp [Item.rank]
  | votePass p a o votes' _ _ _ _ _ => simp [Item.rank]; omega
  | voteFail p a o votes' _ _ _ _ _ => simp [Item.rank]; omega
  | cancel p _ _ _ => simp [Item.rank]; omega
  | expire p _ _ _ => simp [Item.rank]; omega
  | withdraw p f v it2 _ _ _ _ hd =>
    obtain ⟨a, b, c, d, e, _⟩ := deductFunds_copies _ _ _ _ hd
    simp [Item.rank, a, b, c, d, e]
  | withdrawConv p f v it2 _ _ _ _ _ _ _ hd =>
    obtain ⟨a, b, c, d, e, _⟩ := deductFunds_copies _ _ _ _ hd
    simp [Item.rank, a, b, c, d, e]; omega
  | finCfgFailed p _ _ _ _ _ =>
    have := rankB_le none it.failed
    simp [Item.rank]; omega
  | finalize p r src _ _ _ _ _ hsrc _ =>
    have h1 : src ≠ .active := by rcases hsrc with ⟨_, h⟩ | ⟨_, h⟩ <;> simp [h]
    have h2 : src ≠ .finalized := by rcases hsrc with ⟨_, h⟩ | ⟨_, h⟩ <;> simp [h]
    have := rankA_le ((it.deleteAllFunds.1.set .finalized p).del src).active
    have := rankB_le ((it.deleteAllFunds.1.set .finalized p).del src).passed ((it.deleteAllFunds.1.set .finalized p).del src).failed
    simp only [Item.rank]
    have hc : rankC ((it.deleteAllFunds.1.set .finalized p).del src).finalized ((it.deleteAllFunds.1.set .finalized p).del src).finFailed = 4 := by
      simp [h2, h2.symm]
    rw [hc]; omega
  | finBad p r _ _ _ _ _ _ _ =>
    have := rankA_le ((it.deleteAllFunds.1.set .finFailed p).del .passed).active
    have := rankB_le ((it.deleteAllFunds.1.set .finFailed p).del .passed).passed ((it.deleteAllFunds.1.set .finFailed p).del .passed).failed
    simp only [Item.rank]
    have hc : rankC ((it.deleteAllFunds.1.set .finFailed p).del .passed).finalized ((it.deleteAllFunds.1.set .finFailed p).del .passed).finFailed = 4 := by
      simp
    rw [hc]; omega
  | commit => exact Nat.le_refl _


/-! ## options and the application log -/

theorem applyUpd_byType (E : Env) (o o' : Opts) (k : CfgKey) (v : String) (h : Int)
    (hu : applyUpd E o k v h = some o') : o'.byType = o.byType := by
  unfold applyUpd at hu
  cases hv : validateUpd E o k v with
  | none => simp [hv] at hu
  | some o1 =>
    have h1 : o1.byType = o.byType := by
      unfold validateUpd at hv
      cases k with
      | feeDecimal =>
        simp only at hv
        split at hv
        · split at hv
          · simp only [Option.some.injEq] at hv; subst hv; funext t; cases t <;> rfl
          · cases hv
        · cases hv
      | onsPerBlock =>
        simp only at hv
        split at hv
        · split at hv
          · simp only [Option.some.injEq] at hv; subst hv; funext t; cases t <;> rfl
          · cases hv
        · cases hv
      | onsBase =>
        simp only at hv
        split at hv
        · split at hv
          · simp only [Option.some.injEq] at hv; subst hv; funext t; cases t <;> rfl
          · cases hv
        · cases hv
      | other name =>
        simp only at hv
        split at hv
        · simp only [Option.some.injEq] at hv; subst hv; rfl
        · cases hv
    simp only [hv] at hu
    cases k <;> simp only [Option.some.injEq] at hu <;> subst hu <;> rw [← h1] <;> funext t <;> cases t <;> rfl

/-- who changes the options or the application log: only a finalisation of a configuration
    proposal whose recorded votes pass it, not finalised before, and finalised afterwards -/
theorem runTx_opts (E : Env) (s s' : St) (op : Op) (h : runTx E s op = .ok s') :
    (s'.opts = s.opts ∧ s'.applied = s.applied) ∨
    ∃ pid p k v, op = .finalize pid ∧ (s.item pid).finalized = none ∧ (s.item pid).finFailed = none ∧
      (s.item pid).decided = some p ∧ p.status = .completed ∧ p.ptype = .config ∧
      resultSoFar (s.item pid).votes p.passPercent = some .passed ∧
      parseCfg p.cfg = .upd k v ∧ applyUpd E s.opts k v s.height = some s'.opts ∧
      s'.applied = s.applied ++ [pid] ∧
      ((s'.item pid).finalized.isSome ∨ (s'.item pid).finFailed.isSome) := by
  cases op with
  | create pid pt pr ini fd g vd pp cfg fee =>
    simp only [runTx] at h
    obtain ⟨s1, b, h1, _, rfl⟩ := withFee_ok _ _ _ _ h
    unfold runCreate at h1
    simp only at h1
    repeat' (split at h1; try cases h1)
    all_goals (simp only [Except.ok.injEq] at h1; subst h1; left; exact ⟨rfl, rfl⟩)
  | fund pid f v fee =>
    simp only [runTx] at h
    split at h; · cases h
    obtain ⟨s1, b, h1, _, rfl⟩ := withFee_ok _ _ _ _ h
    obtain ⟨p, b1, _, _, _, _, hcase⟩ := runFund_ok s s1 pid f v h1
    rcases hcase with ⟨_, rfl⟩ | ⟨_, rfl⟩ <;> (left; exact ⟨rfl, rfl⟩)
  | vote pid payer val o fee =>
    simp only [runTx] at h
    split at h
    · split at h
      · obtain ⟨s1, b, h1, _, rfl⟩ := withFee_ok _ _ _ _ h
        obtain ⟨p, votes', r, _, _, _, _, _, rfl⟩ := runVote_ok s s1 pid val o h1
        left; exact ⟨rfl, rfl⟩
      · cases h
    · cases h
  | cancel pid pr fee =>
    simp only [runTx] at h
    obtain ⟨s1, b, h1, _, rfl⟩ := withFee_ok _ _ _ _ h
    obtain ⟨p, _, _, _, _, rfl⟩ := runCancel_ok s s1 pid pr h1
    left; exact ⟨rfl, rfl⟩
  | withdraw pid f v b fee =>
    simp only [runTx] at h
    split at h; · cases h
    obtain ⟨s1, b', h1, _, rfl⟩ := withFee_ok _ _ _ _ h
    obtain ⟨p, it1, it2, _, _, _, _, rfl⟩ := runWithdraw_ok s s1 pid f v b h1
    left; exact ⟨rfl, rfl⟩
  | expire pid =>
    simp only [runTx] at h
    obtain ⟨p, _, _, _, rfl⟩ := runExpire_ok s s' pid h
    left; exact ⟨rfl, rfl⟩
  | finalize pid =>
    simp only [runTx] at h
    rcases runFinalize_ok E s s' pid h with ⟨rfl, _⟩ | ⟨p, r, hf1, hf2, hd, hst, hr, hcase⟩
    · left; exact ⟨rfl, rfl⟩
    · rcases hcase with ⟨_, _, _, rfl⟩ | ⟨d, src, s2, hdm, hsrc, hs'⟩
      · left; exact ⟨rfl, rfl⟩
      · obtain ⟨_, _, _, _, ho, ha, hitems⟩ := distributeAndMove_items s s2 pid p d src hdm
        rcases hs' with rfl | ⟨hrp, hcfg, k, v, opts', hparse, hupd, rfl⟩
        · left; exact ⟨ho, ha⟩
        · right
          subst hrp
          refine ⟨pid, p, k, v, rfl, hf1, hf2, hd, hst, hcfg, finalResult_passed _ _ hr, hparse, hupd, rfl, ?_⟩
          have hit : ({ s2 with opts := opts', applied := s.applied ++ [pid] } : St).item pid = s2.item pid := rfl
          have hsrc' : src ≠ .finalized := by rcases hsrc with ⟨_, h, _⟩ | ⟨_, h, _⟩ <;> simp [h]
          rcases hitems with ⟨_, _, _, hitems⟩ | ⟨_, _, _, hitems⟩
          · rw [hit, item_of_upsert s s2 pid pid _ hitems]
            simp only [if_true]
            right; simp
          · rw [hit, item_of_upsert s s2 pid pid _ hitems]
            simp only [if_true]
            split
            · right; simp
            · left; simp [hsrc', hsrc'.symm]
  | beginBlock _ => simp only [runTx, Except.ok.injEq] at h; subst h; left; exact ⟨rfl, rfl⟩
  | endBlock => simp only [runTx, Except.ok.injEq] at h; subst h; left; exact ⟨rfl, rfl⟩
  | setVals _ => simp only [runTx, Except.ok.injEq] at h; subst h; left; exact ⟨rfl, rfl⟩
  | setBal _ _ => simp only [runTx, Except.ok.injEq] at h; subst h; left; exact ⟨rfl, rfl⟩


/-! ## fund records of the current block -/

/-- the voting periods of the proposal options are not negative -/
def VotingOK (o : Opts) : Prop := ∀ t, 0 ≤ (o.byType t).votingDeadline

theorem trans_fresh (h : Int) (opts : Opts) (vals : List (Addr × ValRec)) (it it' : Item)
    (hv : VotingOK opts) (hf : FreshOK h it) (t : Trans h opts vals it it') : FreshOK h it' := by
  intro p' ha' hs' hex
  cases t with
  | create p v _ hs _ _ _ => simp at ha'; subst ha'; rw [hs] at hs'; cases hs'
  | fundMore p f v ha hs _ _ _ => simp [ha] at ha'; subst ha'; rw [hs] at hs'; cases hs'
  | fundStart p f v ha _ _ _ _ =>
    simp at ha'; subst ha'
    have := hv p.ptype
    simp only; omega
  | voteTbd p a o votes' _ _ _ _ _ => exact hf p' (by simpa using ha') hs' (by simpa using hex)
  | votePass p a o votes' _ _ _ _ _ => simp at ha'
  | voteFail p a o votes' _ _ _ _ _ => simp at ha'
  | cancel p _ _ _ => simp at ha'
  | expire p _ _ _ => simp at ha'
  | withdraw p f v it2 _ _ hfb _ hd =>
    obtain ⟨r, hr', hc, _, _, rfl⟩ := deductFunds_some it it' f v hd hfb
    refine hf p' ha' hs' ?_
    obtain ⟨kv, hkv, hkc⟩ := hex
    rcases mem_upsert_gen _ _ _ _ hkv with h1 | h1
    · exact ⟨kv, h1, hkc⟩
    · subst h1; simp [hc] at hkc
  | withdrawConv p f v it2 _ _ _ _ _ _ _ hd =>
    rw [(deductFunds_copies _ _ _ _ hd).1] at ha'; simp at ha'
  | finCfgFailed p _ _ _ _ _ => exact hf p' (by simpa using ha') hs' (by simpa using hex)
  | finalize p r src _ _ _ _ _ hsrc _ =>
    have h1 : src ≠ .active := by rcases hsrc with ⟨_, h⟩ | ⟨_, h⟩ <;> simp [h]
    refine hf p' (by simpa [h1, deleteAllFunds_active] using ha') hs' ?_
    obtain ⟨kv, hkv, hkc⟩ := hex
    simp only [Item.del_funds, Item.set_funds, deleteAllFunds_funds, List.mem_filter] at hkv
    exact ⟨kv, hkv.1, hkc⟩
  | finBad p r _ _ _ _ _ _ _ =>
    refine hf p' (by simpa [deleteAllFunds_active] using ha') hs' ?_
    obtain ⟨kv, hkv, hkc⟩ := hex
    simp only [Item.del_funds, Item.set_funds, deleteAllFunds_funds, List.mem_filter] at hkv
    exact ⟨kv, hkv.1, hkc⟩
  | commit =>
    obtain ⟨kv, hkv, hkc⟩ := hex
    simp only [Item.commit, commitFunds, List.mem_map] at hkv
    obtain ⟨kv0, _, rfl⟩ := hkv
    simp at hkc

theorem fresh_commit (h : Int) (it : Item) : FreshOK h it.commit := by
  intro p _ _ hex
  obtain ⟨kv, hkv, hkc⟩ := hex
  simp only [Item.commit, commitFunds, List.mem_map] at hkv
  obtain ⟨kv0, _, rfl⟩ := hkv
  simp at hkc

/-! ## the state invariant -/

structure WF (s : St) : Prop where
  keys : (akeys s.items).Nodup
  items : ∀ pid, WFI (s.item pid)
  /-- a VOTING proposal with a fund record of this block began voting in this block -/
  fresh : ∀ pid, FreshOK s.height (s.item pid)
  opts : OptsOK s.opts
  voting : VotingOK s.opts
  /-- what is queued for expiry exists and, while still ACTIVE, is a VOTING proposal past its deadline -/
  queue : ∀ pid ∈ s.qExpire, (s.item pid).exists = true ∧
            ∀ p, (s.item pid).active = some p → p.status = .voting ∧ p.votingDeadline < s.height
  appliedNodup : s.applied.Nodup
  appliedFinal : ∀ pid ∈ s.applied, (s.item pid).finalized.isSome ∨ (s.item pid).finFailed.isSome

theorem wfi_empty : WFI {} := by
  refine ⟨?_, ?_, ?_, ?_, ?_, ?_, ?_, ?_, ?_, ?_⟩ <;> simp [Item.get, sumFunds]

theorem nodup_akeys_upsert {V : Type} (l : List (PID × V)) (k : PID) (v : V) (h : (akeys l).Nodup) :
    (akeys (upsert l k v)).Nodup := by
  by_cases hk : k ∈ akeys l
  · rw [akeys_upsert_of_mem l k v hk]; exact h
  · rw [akeys_upsert_of_not_mem l k v hk]
    rw [List.nodup_append]
    refine ⟨h, by simp, ?_⟩
    intro a ha b hb
    simp at hb; subst hb
    intro e; subst e; exact hk ha

theorem alookup_of_mem_nodup {V : Type} (l : List (PID × V)) (k : PID) (v : V) (hn : (akeys l).Nodup)
    (hm : (k, v) ∈ l) : alookup k l = some v := by
  induction l with
  | nil => cases hm
  | cons hd t ih =>
    obtain ⟨k', v'⟩ := hd
    simp only [akeys, List.map_cons, List.nodup_cons] at hn
    by_cases hk : k' = k
    · subst hk
      simp only [List.mem_cons, Prod.mk.injEq, true_and] at hm
      rcases hm with rfl | hm
      · simp [alookup]
      · exfalso; apply hn.1
        exact List.mem_map.mpr ⟨(k', v), hm, rfl⟩
    · simp only [List.mem_cons, Prod.mk.injEq] at hm
      rcases hm with ⟨h1, _⟩ | hm
      · exact absurd h1.symm hk
      · simp only [alookup, hk, if_false]
        exact ih hn.2 hm

theorem wf_runTx (E : Env) (s s' : St) (op : Op) (w : WF s) (h : runTx E s op = .ok s') : WF s' := by
  obtain ⟨fr, hstep⟩ := runTx_step E s s' op w.opts h
  have hitem : ∀ pid, s'.item pid = s.item pid ∨ Trans s.height s.opts s.vals (s.item pid) (s'.item pid) := by
    intro pid
    rcases hstep with he | ⟨pid0, it', ht, he⟩
    · left; unfold St.item; rw [he]
    · rw [item_of_upsert s s' pid0 pid it' he]
      by_cases hp : pid = pid0
      · subst hp; simp only [if_true]; right; exact ht
      · simp only [hp, if_false]; left; trivial
  have hkeys : (akeys s'.items).Nodup := by
    rcases hstep with he | ⟨pid0, it', _, he⟩
    · rw [he]; exact w.keys
    · rw [he]; exact nodup_akeys_upsert _ _ _ w.keys
  have hfinal : ∀ pid, ((s.item pid).finalized.isSome ∨ (s.item pid).finFailed.isSome) →
      ((s'.item pid).finalized.isSome ∨ (s'.item pid).finFailed.isSome) := by
    intro pid hf
    rcases hitem pid with he | ht
    · rw [he]; exact hf
    · exact trans_final _ _ _ _ _ ht hf
  have hby : s'.opts.byType = s.opts.byType := by
    rcases runTx_opts E s s' op h with ⟨ho, _⟩ | ⟨pid, p, k, v, _, _, _, _, _, _, _, _, hu, _, _⟩
    · rw [ho]
    · exact applyUpd_byType E s.opts s'.opts k v s.height hu
  refine ⟨hkeys, ?_, ?_, ?_, ?_, ?_, ?_, ?_⟩
  · intro pid
    rcases hitem pid with he | ht
    · rw [he]; exact w.items pid
    · exact wfi_trans _ _ _ _ _ (w.items pid) (w.fresh pid) ht
  · intro pid
    rw [fr.height]
    rcases hitem pid with he | ht
    · rw [he]; exact w.fresh pid
    · exact trans_fresh _ _ _ _ _ w.voting (w.fresh pid) ht
  · intro t; rw [hby]; exact w.opts t
  · intro t; rw [hby]; exact w.voting t
  · intro pid hp
    rw [fr.qExpire] at hp
    obtain ⟨hex, hact⟩ := w.queue pid hp
    rw [fr.height]
    rcases hitem pid with he | ht
    · rw [he]; exact ⟨hex, hact⟩
    · refine ⟨trans_exists _ _ _ _ _ ht hex, ?_⟩
      intro p' hp'
      rcases trans_active _ _ _ _ _ ht with h1 | h1 | h1 | ⟨p, ha, hs, _, _, _⟩
      · rw [h1] at hp'; exact hact p' hp'
      · rw [h1] at hp'; cases hp'
      · rw [hex] at h1; cases h1
      · have := (hact p ha).1; rw [hs] at this; cases this
  · rcases runTx_opts E s s' op h with ⟨_, ha⟩ | ⟨pid, p, k, v, _, hf1, hf2, _, _, _, _, _, _, ha, _⟩
    · rw [ha]; exact w.appliedNodup
    · rw [ha, List.nodup_append]
      refine ⟨w.appliedNodup, by simp, ?_⟩
      intro a ha' b hb
      simp at hb; subst hb
      intro e; subst e
      have := w.appliedFinal a ha'
      simp [hf1, hf2] at this
  · rcases runTx_opts E s s' op h with ⟨_, ha⟩ | ⟨pid, p, k, v, _, _, _, _, _, _, _, _, _, ha, hfin⟩
    · intro pid hp; rw [ha] at hp; exact hfinal pid (w.appliedFinal pid hp)
    · intro pid' hp
      rw [ha, List.mem_append] at hp
      rcases hp with hp | hp
      · exact hfinal pid' (w.appliedFinal pid' hp)
      · simp at hp; subst hp; exact hfin


/-! ## block boundary -/

theorem alookup_map_val {V W : Type} (l : List (PID × V)) (f : V → W) (k : PID) :
    alookup k (l.map (fun kv => (kv.1, f kv.2))) = (alookup k l).map f := by
  induction l with
  | nil => rfl
  | cons hd t ih =>
    obtain ⟨k', v'⟩ := hd
    by_cases hk : k' = k <;> simp [alookup, hk, ih]

theorem commit_empty : ({} : Item).commit = {} := rfl

theorem beginBlock_item (s : St) (h : Int) (pid : PID) : (beginBlock s h).item pid = (s.item pid).commit := by
  unfold St.item beginBlock
  simp only [alookup_map_val]
  cases alookup pid s.items with
  | none => simp [commit_empty]
  | some it => simp

theorem akeys_map_val {V W : Type} (l : List (PID × V)) (f : V → W) :
    akeys (l.map (fun kv => (kv.1, f kv.2))) = akeys l := by
  simp [akeys, List.map_map, Function.comp_def]

theorem mem_insertPid (a b : PID) (l : List PID) : a ∈ insertPid b l ↔ a = b ∨ a ∈ l := by
  induction l with
  | nil => simp [insertPid]
  | cons c t ih =>
    simp only [insertPid]
    split
    · simp
    · simp only [List.mem_cons, ih]
      constructor
      · rintro (h | h | h)
        · exact Or.inr (Or.inl h)
        · exact Or.inl h
        · exact Or.inr (Or.inr h)
      · rintro (h | h | h)
        · exact Or.inr (Or.inl h)
        · exact Or.inl h
        · exact Or.inr (Or.inr h)

theorem mem_sortPids (l : List PID) (a : PID) : a ∈ sortPids l ↔ a ∈ l := by
  unfold sortPids
  induction l with
  | nil => simp
  | cons b t ih => simp only [List.foldr_cons, mem_insertPid, ih, List.mem_cons]

theorem wf_beginBlock (s : St) (h : Int) (w : WF s) : WF (beginBlock s h) := by
  have hk : (akeys (beginBlock s h).items).Nodup := by
    show (akeys (s.items.map (fun kv => (kv.1, kv.2.commit)))).Nodup
    rw [akeys_map_val]; exact w.keys
  refine ⟨hk, ?_, ?_, w.opts, w.voting, ?_, w.appliedNodup, ?_⟩
  · intro pid; rw [beginBlock_item]; exact wfi_commit _ (w.items pid)
  · intro pid; rw [beginBlock_item]; exact fresh_commit _ _
  · intro pid hp
    have hp' : pid ∈ ((s.items.map (fun kv => (kv.1, kv.2.commit))).filter (fun kv => wantsExpire h kv.2)).map (·.1) :=
      (mem_sortPids _ _).mp hp
    rw [List.mem_map] at hp'
    obtain ⟨kv, hkv, rfl⟩ := hp'
    rw [List.mem_filter] at hkv
    obtain ⟨hmem, hw⟩ := hkv
    have hl : (beginBlock s h).item kv.1 = kv.2 := by
      unfold St.item
      have : alookup kv.1 (beginBlock s h).items = some kv.2 := alookup_of_mem_nodup _ kv.1 kv.2 hk hmem
      rw [this]; rfl
    rw [hl]
    unfold wantsExpire at hw
    cases ha : kv.2.active with
    | none => simp [ha] at hw
    | some p =>
      simp only [ha, decide_eq_true_eq] at hw
      refine ⟨Item.exists_of_get _ .active p (by simp [ha]), ?_⟩
      intro p' hp'; simp only [Option.some.injEq] at hp'; subst hp'
      exact hw
  · intro pid hp
    rw [beginBlock_item]
    exact trans_final 0 s.opts [] _ _ (Trans.commit _) (w.appliedFinal pid hp)

theorem internal_cases (E : Env) (s : St) (op : Op) :
    internal E s op = s ∨ ∃ s', runTx E s op = .ok s' ∧ internal E s op = s' := by
  unfold internal
  split
  · rename_i s' h; right; exact ⟨s', h, rfl⟩
  · left; rfl

theorem wf_internal (E : Env) (s : St) (op : Op) (w : WF s) : WF (internal E s op) := by
  rcases internal_cases E s op with e | ⟨s', h, e⟩
  · rw [e]; exact w
  · rw [e]; exact wf_runTx E s s' op w h

/-- a property kept by every internal transaction is kept by a whole queue -/
theorem foldl_internal_inv (E : Env) (mk : PID → Op) (P : St → Prop)
    (hP : ∀ s pid, P s → P (internal E s (mk pid)))
    (l : List PID) (s : St) (hs : P s) :
    P (l.foldl (fun acc pid => internal E acc (mk pid)) s) := by
  induction l generalizing s with
  | nil => exact hs
  | cons hd t ih => simp only [List.foldl_cons]; exact ih _ (hP s hd hs)

theorem foldl_internal_inv_mem (E : Env) (mk : PID → Op) (P : St → Prop) (l : List PID)
    (hP : ∀ s pid, pid ∈ l → P s → P (internal E s (mk pid)))
    (s : St) (hs : P s) :
    P (l.foldl (fun acc pid => internal E acc (mk pid)) s) := by
  induction l generalizing s with
  | nil => exact hs
  | cons hd t ih =>
    simp only [List.foldl_cons]
    exact ih (fun a pid hm => hP a pid (List.mem_cons_of_mem _ hm)) _ (hP s hd List.mem_cons_self hs)

/-- the two queues of EndBlock, one after the other -/
def afterExpiries (E : Env) (s : St) : St := s.qExpire.foldl (fun acc pid => internal E acc (.expire pid)) s
def afterFinalisations (E : Env) (s : St) : St :=
  s.qFinalize.foldl (fun acc pid => internal E acc (.finalize pid)) (afterExpiries E s)

theorem endBlock_eq (E : Env) (s : St) :
    endBlock E s = { afterFinalisations E s with qExpire := [], qFinalize := [] } := rfl

theorem wf_endBlock (E : Env) (s : St) (w : WF s) : WF (endBlock E s) := by
  have w1 : WF (afterExpiries E s) := foldl_internal_inv E .expire WF (fun a pid wa => wf_internal E a _ wa) _ s w
  have w2 : WF (afterFinalisations E s) :=
    foldl_internal_inv E .finalize WF (fun a pid wa => wf_internal E a _ wa) _ _ w1
  rw [endBlock_eq]
  exact ⟨w2.keys, w2.items, w2.fresh, w2.opts, w2.voting, (fun pid hp => by cases hp), w2.appliedNodup, w2.appliedFinal⟩

theorem txStep_cases (E : Env) (s : St) (op : Op) :
    (txStep E s op).1 = s ∨ ∃ s', runTx E s op = .ok s' ∧ (txStep E s op).1 = s' := by
  unfold txStep
  split
  · rename_i s' h; right; exact ⟨s', h, rfl⟩
  · left; rfl

/-- `step` is a block hook, an environment change, or `txStep` -/
theorem step_cases (E : Env) (s : St) (op : Op) :
    (∃ h, op = .beginBlock h ∧ (step E s op).1 = beginBlock s h) ∨
    (op = .endBlock ∧ (step E s op).1 = endBlock E s) ∨
    (∃ vals, op = .setVals vals ∧ (step E s op).1 = { s with vals := vals }) ∨
    (∃ a v, op = .setBal a v ∧ (step E s op).1 = { s with bal := setBal s.bal a v }) ∨
    ((step E s op).1 = s ∨ ∃ s', runTx E s op = .ok s' ∧ (step E s op).1 = s') := by
  cases op with
  | beginBlock h => left; exact ⟨h, rfl, rfl⟩
  | endBlock => right; left; exact ⟨rfl, rfl⟩
  | setVals vals => right; right; left; exact ⟨vals, rfl, rfl⟩
  | setBal a v => right; right; right; left; exact ⟨a, v, rfl, rfl⟩
  | create pid pt pr ini fd g vd pp cfg fee => right; right; right; right; exact txStep_cases E s _
  | fund pid f v fee => right; right; right; right; exact txStep_cases E s _
  | vote pid payer val o fee => right; right; right; right; exact txStep_cases E s _
  | cancel pid pr fee => right; right; right; right; exact txStep_cases E s _
  | withdraw pid f v b fee => right; right; right; right; exact txStep_cases E s _
  | expire pid => right; right; right; right; exact txStep_cases E s _
  | finalize pid => right; right; right; right; exact txStep_cases E s _

theorem wf_step (E : Env) (s : St) (op : Op) (w : WF s) : WF (step E s op).1 := by
  rcases step_cases E s op with ⟨h, _, e⟩ | ⟨_, e⟩ | ⟨vals, _, e⟩ | ⟨a, v, _, e⟩ | e | ⟨s', h, e⟩
  · rw [e]; exact wf_beginBlock s h w
  · rw [e]; exact wf_endBlock E s w
  · rw [e]; exact ⟨w.keys, w.items, w.fresh, w.opts, w.voting, w.queue, w.appliedNodup, w.appliedFinal⟩
  · rw [e]; exact ⟨w.keys, w.items, w.fresh, w.opts, w.voting, w.queue, w.appliedNodup, w.appliedFinal⟩
  · rw [e]; exact w
  · rw [e]; exact wf_runTx E s s' op w h

theorem wf_run (E : Env) (s : St) (ops : List Op) (w : WF s) : WF (run E s ops) := by
  unfold run
  induction ops generalizing s with
  | nil => exact w
  | cons op t ih => simp only [List.foldl_cons]; exact ih _ (wf_step E s op w)


/-! ## value accounting -/

@[simp] theorem St.setItem_bal (s : St) (pid : PID) (it : Item) : (s.setItem pid it).bal = s.bal := rfl
@[simp] theorem St.setItem_burned (s : St) (pid : PID) (it : Item) : (s.setItem pid it).burned = s.burned := rfl

theorem total_addTo (l : L) (a : Acc) (c : Int) : total (addTo l a c) = total l + c := by
  unfold addTo; rw [total_setBal]; omega

theorem total_minusFrom (l l' : L) (a : Acc) (c : Int) (h : minusFrom l a c = .ok l') : total l' = total l - c := by
  obtain ⟨_, rfl⟩ := minusFrom_ok l l' a c h
  rw [total_setBal]; omega

theorem total_transfer (l l' : L) (a b : Acc) (c : Int) (h : transfer l a b c = .ok l') : total l' = total l := by
  obtain ⟨l1, hm, rfl⟩ := transfer_ok l l' a b c h
  rw [total_addTo, total_minusFrom l l1 a c hm]; omega

theorem total_creditAll (b : L) (vs : List (Addr × ValRec)) (amt : Int) :
    total (creditAll b vs amt) = total b + amt * (vs.length : Int) := by
  unfold creditAll
  induction vs generalizing b with
  | nil => simp
  | cons hd t ih =>
    simp only [List.foldl_cons, List.length_cons]
    rw [ih, total_addTo]
    push_cast
    rw [Int.mul_add]; omega

/-- the distribution moves exactly the escrow total: what is credited plus what is burned -/
theorem payouts_total (b : L) (vs : List (Addr × ValRec)) (pr bo ex : Addr) (T : Int) (d : Dist) :
    total (payouts b vs pr bo ex T d).1 + (payouts b vs pr bo ex T d).2 = total b + T := by
  unfold payouts
  simp only [total_addTo, total_creditAll]
  omega

/-- escrow totals of all proposals -/
def sumTotals : List (PID × Item) → Int
  | [] => 0
  | (_, it) :: t => it.total + sumTotals t

/-- balances (fee pool included) plus escrow -/
def value (s : St) : Int := total s.bal + sumTotals s.items

theorem sumTotals_upsert (l : List (PID × Item)) (k : PID) (it : Item) :
    sumTotals (upsert l k it) = sumTotals l - ((alookup k l).getD {}).total + it.total := by
  induction l with
  | nil => simp [upsert, sumTotals, alookup]
  | cons hd t ih =>
    obtain ⟨k', w⟩ := hd
    by_cases hk : k' = k
    · subst hk
      simp only [upsert, if_true, sumTotals, alookup, Option.getD_some]
      omega
    · simp only [upsert, hk, if_false, sumTotals, alookup, ih]
      omega

theorem sumTotals_setItem (s : St) (pid : PID) (it : Item) :
    sumTotals (s.setItem pid it).items = sumTotals s.items - (s.item pid).total + it.total := by
  unfold St.setItem St.item
  exact sumTotals_upsert _ _ _

theorem deductFunds_total (it it2 : Item) (f : Addr) (v : Int) (h : it.deductFunds f v = some it2) :
    it2.total = it.total - v := by
  unfold Item.deductFunds at h
  simp only at h
  split at h; · cases h
  split at h; · cases h
  simp only [Option.some.injEq] at h
  subst h; rfl

/-- every transaction conserves balances + escrow + burned (given the invariant, which makes the
    `DeleteAllFunds` error unreachable) -/
theorem runTx_value (E : Env) (s s' : St) (op : Op) (w : WF s) (h : runTx E s op = .ok s') :
    value s' + s'.burned = value s + s.burned := by
  cases op with
  | create pid pt pr ini fd g vd pp cfg fee =>
    simp only [runTx] at h
    obtain ⟨s1, b, h1, hfee, rfl⟩ := withFee_ok _ _ _ _ h
    obtain ⟨p, b1, _, _, _, _, _, _, hb1, rfl⟩ := runCreate_ok E s s1 pid pt pr ini fd g vd pp cfg w.opts h1
    have ht := total_transfer _ _ _ _ _ hfee
    have hm := total_minusFrom _ _ _ _ hb1
    simp only [value] at *
    have hs : sumTotals (s.setItem pid (((s.item pid).set .active p).addFunds pr ini)).items =
        sumTotals s.items - (s.item pid).total + ((s.item pid).total + ini) := by
      rw [sumTotals_setItem]; simp
    show total b + sumTotals (s.setItem pid (((s.item pid).set .active p).addFunds pr ini)).items + s.burned = _
    rw [hs]
    have e1 : total b = total b1 := by simpa using ht
    omega
  | fund pid f v fee =>
    simp only [runTx] at h
    split at h; · cases h
    obtain ⟨s1, b, h1, hfee, rfl⟩ := withFee_ok _ _ _ _ h
    obtain ⟨p, b1, _, _, _, hb1, hcase⟩ := runFund_ok s s1 pid f v h1
    have hm := total_minusFrom _ _ _ _ hb1
    rcases hcase with ⟨_, rfl⟩ | ⟨_, rfl⟩
    · have ht := total_transfer _ _ _ _ _ hfee
      simp only [value]
      show total b + sumTotals (s.setItem pid ((s.item pid).addFunds f v)).items + s.burned = _
      rw [sumTotals_setItem]
      have e1 : total b = total b1 := by simpa using ht
      simp only [Item.addFunds_total]; omega
    · have ht := total_transfer _ _ _ _ _ hfee
      simp only [value]
      show total b + sumTotals (s.setItem pid _).items + s.burned = _
      rw [sumTotals_setItem]
      have e1 : total b = total b1 := by simpa using ht
      simp only [Item.addFunds_total, Item.withVotes_total, Item.set_total]; omega
  | vote pid payer val o fee =>
    simp only [runTx] at h
    split at h
    · split at h
      · obtain ⟨s1, b, h1, hfee, rfl⟩ := withFee_ok _ _ _ _ h
        obtain ⟨p, votes', r, _, _, _, _, _, rfl⟩ := runVote_ok s s1 pid val o h1
        have ht := total_transfer _ _ _ _ _ hfee
        simp only [value]
        show total b + sumTotals (s.setItem pid _).items + s.burned = _
        rw [sumTotals_setItem]
        have e1 : total b = total s.bal := by simpa using ht
        cases r <;> simp only [Item.del_total, Item.set_total, Item.withVotes_total] <;> omega
      · cases h
    · cases h
  | cancel pid pr fee =>
    simp only [runTx] at h
    obtain ⟨s1, b, h1, hfee, rfl⟩ := withFee_ok _ _ _ _ h
    obtain ⟨p, _, _, _, _, rfl⟩ := runCancel_ok s s1 pid pr h1
    have ht := total_transfer _ _ _ _ _ hfee
    simp only [value]
    show total b + sumTotals (s.setItem pid _).items + s.burned = _
    rw [sumTotals_setItem]
    have e1 : total b = total s.bal := by simpa using ht
    simp only [Item.del_total, Item.set_total]; omega
  | withdraw pid f v b fee =>
    simp only [runTx] at h
    split at h; · cases h
    obtain ⟨s1, b', h1, hfee, rfl⟩ := withFee_ok _ _ _ _ h
    obtain ⟨p, it1, it2, _, hcase, _, hd, rfl⟩ := runWithdraw_ok s s1 pid f v b h1
    have ht := total_transfer _ _ _ _ _ hfee
    have hdt := deductFunds_total _ _ _ _ hd
    have hit1 : it1.total = (s.item pid).total := by
      rcases hcase with ⟨_, rfl⟩ | ⟨_, _, _, _, rfl⟩
      · rfl
      · simp
    simp only [value]
    show total b' + sumTotals (s.setItem pid it2).items + s.burned = _
    rw [sumTotals_setItem]
    have e1 : total b' = total (addTo s.bal b v) := by simpa using ht
    rw [total_addTo] at e1
    omega
  | expire pid =>
    simp only [runTx] at h
    obtain ⟨p, _, _, _, rfl⟩ := runExpire_ok s s' pid h
    simp only [value]
    show total s.bal + sumTotals (s.setItem pid _).items + s.burned = _
    rw [sumTotals_setItem]
    simp only [Item.del_total, Item.set_total]; omega
  | finalize pid =>
    simp only [runTx] at h
    rcases runFinalize_ok E s s' pid h with ⟨rfl, _⟩ | ⟨p, r, hf1, hf2, hd, hst, hr, hcase⟩
    · rfl
    · rcases hcase with ⟨_, _, _, rfl⟩ | ⟨d, src, s2, hdm, hsrc, hs'⟩
      · simp only [value, toFinFailed]
        rw [sumTotals_setItem]
        simp only [Item.del_total, Item.set_total, St.setItem_bal, St.setItem_burned]; omega
      · obtain ⟨_, _, _, _, _, _, hitems⟩ := distributeAndMove_items s s2 pid p d src hdm
        have hv2 : value s2 + s2.burned = value s + s.burned := by
          rcases hitems with ⟨_, hbal, hburn, hitems⟩ | ⟨_, hbal, hburn, hitems⟩
          · simp only [value]
            rw [hitems, hbal, hburn, sumTotals_upsert]
            simp only [Item.del_total, Item.set_total]
            have : ((alookup pid s.items).getD {}).total = (s.item pid).total := rfl
            omega
          · obtain ⟨hbad, htot, _⟩ := deleteAll_clears (s.item pid) (w.items pid)
              (final_funds_committed (s.item pid) p r (w.items pid) hd hr)
            simp only [hbad] at hitems
            simp only [Bool.false_eq_true, if_false] at hitems
            simp only [value]
            rw [hitems, hbal, hburn]
            have := sumTotals_upsert s.items pid (((s.item pid).deleteAllFunds.1.set .finalized p).del src)
            rw [this]
            have hpt := payouts_total s.bal (cvals s.vals) p.proposer s.opts.bountyAddr (s.opts.byType p.ptype).execAddr (s.item pid).total d
            simp only [Item.del_total, Item.set_total, htot]
            have : ((alookup pid s.items).getD {}).total = (s.item pid).total := rfl
            omega
        rcases hs' with rfl | ⟨_, _, k, v, opts', _, _, rfl⟩
        · exact hv2
        · exact hv2
  | beginBlock _ => simp only [runTx, Except.ok.injEq] at h; subst h; rfl
  | endBlock => simp only [runTx, Except.ok.injEq] at h; subst h; rfl
  | setVals _ => simp only [runTx, Except.ok.injEq] at h; subst h; rfl
  | setBal _ _ => simp only [runTx, Except.ok.injEq] at h; subst h; rfl


/-! ## stage, lifted to transactions, blocks and histories -/

theorem runTx_optsOK (E : Env) (s s' : St) (op : Op) (ho : OptsOK s.opts) (h : runTx E s op = .ok s') : OptsOK s'.opts := by
  rcases runTx_opts E s s' op h with ⟨e, _⟩ | ⟨pid, p, k, v, _, _, _, _, _, _, _, _, hu, _, _⟩
  · rw [e]; exact ho
  · intro t; rw [applyUpd_byType E s.opts s'.opts k v s.height hu]; exact ho t

theorem runTx_item (E : Env) (s s' : St) (op : Op) (ho : OptsOK s.opts) (h : runTx E s op = .ok s') (pid : PID) :
    s'.item pid = s.item pid ∨ Trans s.height s.opts s.vals (s.item pid) (s'.item pid) := by
  obtain ⟨_, hstep⟩ := runTx_step E s s' op ho h
  rcases hstep with he | ⟨pid0, it', ht, he⟩
  · left; unfold St.item; rw [he]
  · rw [item_of_upsert s s' pid0 pid it' he]
    by_cases hp : pid = pid0
    · subst hp; simp only [if_true]; right; exact ht
    · simp only [hp, if_false]; left; trivial

theorem runTx_rank (E : Env) (s s' : St) (op : Op) (ho : OptsOK s.opts) (h : runTx E s op = .ok s') (pid : PID) :
    (s.item pid).rank ≤ (s'.item pid).rank := by
  rcases runTx_item E s s' op ho h pid with e | t
  · rw [e]; exact Nat.le_refl _
  · exact trans_rank _ _ _ _ _ t

theorem internal_rank (E : Env) (s : St) (op : Op) (ho : OptsOK s.opts) (pid : PID) :
    (s.item pid).rank ≤ ((internal E s op).item pid).rank ∧ OptsOK (internal E s op).opts := by
  rcases internal_cases E s op with e | ⟨s', h, e⟩
  · rw [e]; exact ⟨Nat.le_refl _, ho⟩
  · rw [e]; exact ⟨runTx_rank E s s' op ho h pid, runTx_optsOK E s s' op ho h⟩

theorem commit_rank (it : Item) : it.commit.rank = it.rank := rfl

theorem step_rank (E : Env) (s : St) (op : Op) (ho : OptsOK s.opts) (pid : PID) :
    (s.item pid).rank ≤ ((step E s op).1.item pid).rank ∧ OptsOK (step E s op).1.opts := by
  rcases step_cases E s op with ⟨h, _, e⟩ | ⟨_, e⟩ | ⟨vals, _, e⟩ | ⟨a, v, _, e⟩ | e | ⟨s', h, e⟩
  · rw [e, beginBlock_item, commit_rank]; exact ⟨Nat.le_refl _, ho⟩
  · rw [e, endBlock_eq]
    have p1 := foldl_internal_inv E .expire (fun x => (s.item pid).rank ≤ (x.item pid).rank ∧ OptsOK x.opts)
      (fun a pid0 ⟨ha, hao⟩ => by
        obtain ⟨r1, r2⟩ := internal_rank E a (.expire pid0) hao pid
        exact ⟨Nat.le_trans ha r1, r2⟩) s.qExpire s ⟨Nat.le_refl _, ho⟩
    have p2 := foldl_internal_inv E .finalize (fun x => (s.item pid).rank ≤ (x.item pid).rank ∧ OptsOK x.opts)
      (fun a pid0 ⟨ha, hao⟩ => by
        obtain ⟨r1, r2⟩ := internal_rank E a (.finalize pid0) hao pid
        exact ⟨Nat.le_trans ha r1, r2⟩) s.qFinalize _ p1
    exact p2
  · rw [e]; exact ⟨Nat.le_refl _, ho⟩
  · rw [e]; exact ⟨Nat.le_refl _, ho⟩
  · rw [e]; exact ⟨Nat.le_refl _, ho⟩
  · rw [e]; exact ⟨runTx_rank E s s' op ho h pid, runTx_optsOK E s s' op ho h⟩

theorem run_rank (E : Env) (s : St) (ops : List Op) (ho : OptsOK s.opts) (pid : PID) :
    (s.item pid).rank ≤ ((run E s ops).item pid).rank := by
  unfold run
  induction ops generalizing s with
  | nil => exact Nat.le_refl _
  | cons op t ih =>
    simp only [List.foldl_cons]
    obtain ⟨r1, r2⟩ := step_rank E s op ho pid
    exact Nat.le_trans r1 (ih _ r2)


/-! ## the internal queue at EndBlock -/

/-- an internal expiry removes at most the ACTIVE copy of its own proposal -/
theorem internal_expire_active (E : Env) (s : St) (pid0 : PID) (pid : PID) :
    ((internal E s (.expire pid0)).item pid).active = (s.item pid).active ∨ pid = pid0 := by
  rcases internal_cases E s (.expire pid0) with e | ⟨s1, h1, e⟩
  · left; rw [e]
  · rw [e]
    simp only [runTx] at h1
    obtain ⟨p, _, _, _, rfl⟩ := runExpire_ok s s1 pid0 h1
    rw [St.item_setItem]
    by_cases hp : pid = pid0
    · right; exact hp
    · left; simp [hp]

/-- a finalisation changes the records of its own proposal only, never an ACTIVE copy, and not
    the validator records -/
theorem runFinalize_frame (E : Env) (s s' : St) (pid0 : PID) (h : runFinalize E s pid0 = .ok s') :
    s'.vals = s.vals ∧ s'.height = s.height ∧ (∀ pid, pid ≠ pid0 → s'.item pid = s.item pid) ∧
    (∀ pid, (s'.item pid).active = (s.item pid).active) := by
  obtain ⟨fr, _⟩ := runFinalize_step E s s' pid0 h
  refine ⟨fr.vals, fr.height, ?_, ?_⟩
  · intro pid hp
    rcases runFinalize_ok E s s' pid0 h with ⟨rfl, _⟩ | ⟨p, r, _, _, _, _, _, hcase⟩
    · rfl
    · rcases hcase with ⟨_, _, _, rfl⟩ | ⟨d, src, s2, hdm, _, hs'⟩
      · simp only [toFinFailed]; rw [St.item_setItem]; simp [hp]
      · obtain ⟨_, _, _, _, _, _, hitems⟩ := distributeAndMove_items s s2 pid0 p d src hdm
        have h2 : s2.item pid = s.item pid := by
          rcases hitems with ⟨_, _, _, hi⟩ | ⟨_, _, _, hi⟩ <;> (rw [item_of_upsert s s2 pid0 pid _ hi]; simp [hp])
        rcases hs' with rfl | ⟨_, _, k, v, opts', _, _, rfl⟩
        · exact h2
        · exact h2
  · intro pid
    rcases runFinalize_ok E s s' pid0 h with ⟨rfl, _⟩ | ⟨p, r, _, _, _, _, _, hcase⟩
    · rfl
    · rcases hcase with ⟨_, _, _, rfl⟩ | ⟨d, src, s2, hdm, hsrc, hs'⟩
      · simp only [toFinFailed]
        rw [St.item_setItem]
        by_cases hp : pid = pid0
        · subst hp; simp
        · simp [hp]
      · obtain ⟨_, _, _, _, _, _, hitems⟩ := distributeAndMove_items s s2 pid0 p d src hdm
        have hsrc' : src ≠ .active := by rcases hsrc with ⟨_, h, _⟩ | ⟨_, h, _⟩ <;> simp [h]
        have h2 : (s2.item pid).active = (s.item pid).active := by
          rcases hitems with ⟨_, _, _, hi⟩ | ⟨_, _, _, hi⟩
          · rw [item_of_upsert s s2 pid0 pid _ hi]
            by_cases hp : pid = pid0
            · subst hp; simp
            · simp [hp]
          · rw [item_of_upsert s s2 pid0 pid _ hi]
            by_cases hp : pid = pid0
            · subst hp
              simp only [if_true]
              split <;> simp [hsrc', deleteAllFunds_active]
            · simp [hp]
        rcases hs' with rfl | ⟨_, _, k, v, opts', _, _, rfl⟩
        · exact h2
        · exact h2

/-- an internal finalisation never touches an ACTIVE copy -/
theorem internal_finalize_active (E : Env) (s : St) (pid0 : PID) (pid : PID) :
    ((internal E s (.finalize pid0)).item pid).active = (s.item pid).active := by
  rcases internal_cases E s (.finalize pid0) with e | ⟨s1, h1, e⟩
  · rw [e]
  · rw [e]
    simp only [runTx] at h1
    exact (runFinalize_frame E s s1 pid0 h1).2.2.2 pid

/-- what EndBlock can do to an ACTIVE copy: nothing, unless the proposal is queued for expiry -/
theorem endBlock_active (E : Env) (s : St) (pid : PID) :
    ((endBlock E s).item pid).active = (s.item pid).active ∨ pid ∈ s.qExpire := by
  have p1 := foldl_internal_inv_mem E .expire (fun x => (x.item pid).active = (s.item pid).active ∨ pid ∈ s.qExpire) s.qExpire
    (fun a pid0 hm ha => by
      rcases ha with ha | ha
      · rcases internal_expire_active E a pid0 pid with e | e
        · left; rw [e]; exact ha
        · right; rw [e]; exact hm
      · right; exact ha) s (Or.inl rfl)
  have p2 := foldl_internal_inv E .finalize (fun x => (x.item pid).active = (s.item pid).active ∨ pid ∈ s.qExpire)
    (fun a pid0 ha => by
      rcases ha with ha | ha
      · left; rw [internal_finalize_active E a pid0 pid]; exact ha
      · right; exact ha) s.qFinalize _ p1
  exact p2

/-! ## decisions follow the tally -/

theorem decide3_passed (yes no all giveup pass : Int)
    (h : decide3 yes no all giveup pass = .passed) : passCond yes all giveup pass := by
  unfold decide3 at h
  split at h
  · assumption
  · split at h <;> cases h

theorem decide3_failed (yes no all giveup pass : Int)
    (h : decide3 yes no all giveup pass = .failed) :
    ¬ passCond yes all giveup pass ∧ failCond no all giveup pass := by
  unfold decide3 at h
  split at h
  · cases h
  · rename_i h1
    split at h
    · rename_i h2; exact ⟨h1, h2⟩
    · cases h

theorem decide3_tbd (yes no all giveup pass : Int)
    (h : decide3 yes no all giveup pass = .tbd) :
    ¬ passCond yes all giveup pass ∧ ¬ failCond no all giveup pass := by
  unfold decide3 at h
  split at h
  · cases h
  · rename_i h1
    split at h
    · cases h
    · rename_i h2; exact ⟨h1, h2⟩

/-- the tally `ResultSoFar` accumulates: powers of the committed vote records -/
def yesPower (votes : List (Addr × VoteRec)) : Int := powerOf .yes (cvotes votes)
def noPower (votes : List (Addr × VoteRec)) : Int := powerOf .no (cvotes votes)
def giveupPower (votes : List (Addr × VoteRec)) : Int := powerOf .giveup (cvotes votes)
def totalPower (votes : List (Addr × VoteRec)) : Int := allPower (cvotes votes)

theorem resultSoFar_decide3 (votes : List (Addr × VoteRec)) (pass : Int) (r : VoteResult)
    (h : resultSoFar votes pass = some r) :
    decide3 (yesPower votes) (noPower votes) (totalPower votes) (giveupPower votes) pass = r := by
  unfold resultSoFar at h
  simp only at h
  split at h
  · cases h
  · simp only [Option.some.injEq] at h; exact h

/-- a copy with a yes / no outcome appears only through a vote whose tally says so; every other
    transformation copies such a record from one that was already there -/
theorem trans_outcome (h : Int) (opts : Opts) (vals : List (Addr × ValRec)) (it it' : Item)
    (t : Trans h opts vals it it') (st : Store) (p' : Proposal) (hg : it'.get st = some p')
    (ho : p'.outcome = .completedYes ∨ p'.outcome = .completedNo) :
    (∃ st0 p0, it.get st0 = some p0 ∧ p0.outcome = p'.outcome) ∨
    (p'.outcome = .completedYes ∧ st = .passed ∧
       resultSoFar it'.votes (opts.byType p'.ptype).passPercent = some .passed) ∨
    (p'.outcome = .completedNo ∧ st = .failed ∧
       resultSoFar it'.votes (opts.byType p'.ptype).passPercent = some .failed) := by
  have same : ∀ (x : Item), (∀ s, x.get s = it.get s) → x.get st = some p' →
      (∃ st0 p0, it.get st0 = some p0 ∧ p0.outcome = p'.outcome) := by
    intro x hx hq; rw [hx] at hq; exact ⟨st, p', hq, rfl⟩
  cases t with
  | create p v he hs hop _ _ =>
    simp only [Item.addFunds_get, Item.get_set] at hg
    by_cases h1 : st = .active
    · simp [h1] at hg; subst hg; rw [hop] at ho; rcases ho with h | h <;> cases h
    · simp [h1] at hg; left; exact ⟨st, p', hg, rfl⟩
  | fundMore p f v _ _ _ _ _ => left; exact same _ (fun s => by simp) hg
  | fundStart p f v ha _ _ _ _ =>
    simp only [Item.addFunds_get, Item.withVotes_get, Item.get_set] at hg
    by_cases h1 : st = .active
    · simp [h1] at hg; subst hg; left; exact ⟨.active, p, by simp [ha], rfl⟩
    · simp [h1] at hg; left; exact ⟨st, p', hg, rfl⟩
  | voteTbd p a o votes' _ _ _ _ _ => left; exact same _ (fun s => by simp) hg
  | votePass p a o votes' ha _ _ _ hr =>
    simp only [Item.get_del, Item.get_set, Item.withVotes_get] at hg
    by_cases h1 : st = .active
    · simp [h1] at hg
    · by_cases h2 : st = .passed
      · simp [h2] at hg; subst hg
        right; left; exact ⟨rfl, h2, by simpa using hr⟩
      · simp [h1, h2] at hg; left; exact ⟨st, p', hg, rfl⟩
  | voteFail p a o votes' ha _ _ _ hr =>
    simp only [Item.get_del, Item.get_set, Item.withVotes_get] at hg
    by_cases h1 : st = .active
    · simp [h1] at hg
    · by_cases h2 : st = .failed
      · simp [h2] at hg; subst hg
        right; right; exact ⟨rfl, h2, by simpa using hr⟩
      · simp [h1, h2] at hg; left; exact ⟨st, p', hg, rfl⟩
  | cancel p _ _ _ =>
    simp only [Item.get_del, Item.get_set] at hg
    by_cases h1 : st = .active
    · simp [h1] at hg
    · by_cases h2 : st = .failed
      · simp [h2] at hg; subst hg; rcases ho with h | h <;> cases h
      · simp [h1, h2] at hg; left; exact ⟨st, p', hg, rfl⟩
  | expire p _ _ _ =>
    simp only [Item.get_del, Item.get_set] at hg
    by_cases h1 : st = .active
    · simp [h1] at hg
    · by_cases h2 : st = .failed
      · simp [h2] at hg; subst hg; rcases ho with h | h <;> cases h
      · simp [h1, h2] at hg; left; exact ⟨st, p', hg, rfl⟩
  | withdraw p f v it2 _ _ _ _ hd =>
    obtain ⟨a, b, c, d, e, _⟩ := deductFunds_copies _ _ _ _ hd
    left; exact same _ (fun s => by cases s <;> simp [Item.get, a, b, c, d, e]) hg
  | withdrawConv p f v it2 _ _ _ _ _ _ _ hd =>
    obtain ⟨a, b, c, d, e, _⟩ := deductFunds_copies _ _ _ _ hd
    have hg' : ((it.set .failed { p with outcome := .insufficientFunds, status := .completed }).del .active).get st = some p' := by
      cases st <;> simp only [Item.get] at hg ⊢ <;> first | (rw [← a]; exact hg) | (rw [← b]; exact hg) | (rw [← c]; exact hg) | (rw [← d]; exact hg) | (rw [← e]; exact hg)
    simp only [Item.get_del, Item.get_set] at hg'
    by_cases h1 : st = .active
    · simp [h1] at hg'
    · by_cases h2 : st = .failed
      · simp [h2] at hg'; subst hg'; rcases ho with h | h <;> cases h
      · simp [h1, h2] at hg'; left; exact ⟨st, p', hg', rfl⟩
  | finCfgFailed p _ _ hd _ _ =>
    simp only [Item.get_del, Item.get_set] at hg
    by_cases h1 : st = .passed
    · simp [h1] at hg
    · by_cases h2 : st = .finFailed
      · simp [h2] at hg; subst hg
        left
        rcases Item.decided_get it p hd with h | ⟨_, h⟩
        · exact ⟨.passed, p, h, rfl⟩
        · exact ⟨.failed, p, h, rfl⟩
      · simp [h1, h2] at hg; left; exact ⟨st, p', hg, rfl⟩
  | finalize p r src _ _ hd _ _ hsrc _ =>
    simp only [Item.get_del, Item.get_set, deleteAllFunds_get] at hg
    have hsrc' : src ≠ .finalized := by rcases hsrc with ⟨_, h⟩ | ⟨_, h⟩ <;> simp [h]
    by_cases h1 : st = src
    · simp [h1] at hg
    · by_cases h2 : st = .finalized
      · simp [h2, hsrc', hsrc'.symm] at hg; subst hg
        left
        rcases Item.decided_get it p hd with h | ⟨_, h⟩
        · exact ⟨.passed, p, h, rfl⟩
        · exact ⟨.failed, p, h, rfl⟩
      · simp [h1, h2] at hg; left; exact ⟨st, p', hg, rfl⟩
  | finBad p r _ _ hd _ _ _ _ =>
    simp only [Item.get_del, Item.get_set, deleteAllFunds_get] at hg
    by_cases h1 : st = .passed
    · simp [h1] at hg
    · by_cases h2 : st = .finFailed
      · simp [h2] at hg; subst hg
        left
        rcases Item.decided_get it p hd with h | ⟨_, h⟩
        · exact ⟨.passed, p, h, rfl⟩
        · exact ⟨.failed, p, h, rfl⟩
      · simp [h1, h2] at hg; left; exact ⟨st, p', hg, rfl⟩
  | commit => left; exact same _ (fun s => by cases s <;> rfl) hg


/-- a copy with the outcome "insufficient votes" appears only by expiring an ACTIVE proposal that
    is in its VOTING stage with the deadline below the height; every other transformation copies
    such a record from one that was already there -/
theorem trans_expiry (h : Int) (opts : Opts) (vals : List (Addr × ValRec)) (it it' : Item)
    (t : Trans h opts vals it it') (st : Store) (p' : Proposal) (hg : it'.get st = some p')
    (ho : p'.outcome = .insufficientVotes) :
    (∃ st0 p0, it.get st0 = some p0 ∧ p0.outcome = p'.outcome) ∨
    (st = .failed ∧ ∃ p, it.active = some p ∧ p.status = .voting ∧ p.votingDeadline < h ∧
       p' = { p with status := .completed, outcome := .insufficientVotes }) := by
  have same : ∀ (x : Item), (∀ s, x.get s = it.get s) → x.get st = some p' →
      (∃ st0 p0, it.get st0 = some p0 ∧ p0.outcome = p'.outcome) := by
    intro x hx hq; rw [hx] at hq; exact ⟨st, p', hq, rfl⟩
  cases t with
  | create p v he hs hop _ _ =>
    simp only [Item.addFunds_get, Item.get_set] at hg
    by_cases h1 : st = .active
    · simp [h1] at hg; subst hg; rw [hop] at ho; cases ho
    · simp [h1] at hg; left; exact ⟨st, p', hg, rfl⟩
  | fundMore p f v _ _ _ _ _ => left; exact same _ (fun s => by simp) hg
  | fundStart p f v ha _ _ _ _ =>
    simp only [Item.addFunds_get, Item.withVotes_get, Item.get_set] at hg
    by_cases h1 : st = .active
    · simp [h1] at hg; subst hg; left; exact ⟨.active, p, by simp [ha], rfl⟩
    · simp [h1] at hg; left; exact ⟨st, p', hg, rfl⟩
  | voteTbd p a o votes' _ _ _ _ _ => left; exact same _ (fun s => by simp) hg
  | votePass p a o votes' ha _ _ _ hr =>
    simp only [Item.get_del, Item.get_set, Item.withVotes_get] at hg
    by_cases h1 : st = .active
    · simp [h1] at hg
    · by_cases h2 : st = .passed
      · simp [h2] at hg; subst hg; cases ho
      · simp [h1, h2] at hg; left; exact ⟨st, p', hg, rfl⟩
  | voteFail p a o votes' ha _ _ _ hr =>
    simp only [Item.get_del, Item.get_set, Item.withVotes_get] at hg
    by_cases h1 : st = .active
    · simp [h1] at hg
    · by_cases h2 : st = .failed
      · simp [h2] at hg; subst hg; cases ho
      · simp [h1, h2] at hg; left; exact ⟨st, p', hg, rfl⟩
  | cancel p _ _ _ =>
    simp only [Item.get_del, Item.get_set] at hg
    by_cases h1 : st = .active
    · simp [h1] at hg
    · by_cases h2 : st = .failed
      · simp [h2] at hg; subst hg; cases ho
      · simp [h1, h2] at hg; left; exact ⟨st, p', hg, rfl⟩
  | expire p ha hs hd =>
    simp only [Item.get_del, Item.get_set] at hg
    by_cases h1 : st = .active
    · simp [h1] at hg
    · by_cases h2 : st = .failed
      · simp [h2] at hg; subst hg
        right; exact ⟨h2, p, ha, hs, by omega, rfl⟩
      · simp [h1, h2] at hg; left; exact ⟨st, p', hg, rfl⟩
  | withdraw p f v it2 _ _ _ _ hd =>
    obtain ⟨a, b, c, d, e, _⟩ := deductFunds_copies _ _ _ _ hd
    left; exact same _ (fun s => by cases s <;> simp [Item.get, a, b, c, d, e]) hg
  | withdrawConv p f v it2 _ _ _ _ _ _ _ hd =>
    obtain ⟨a, b, c, d, e, _⟩ := deductFunds_copies _ _ _ _ hd
    have hg' : ((it.set .failed { p with outcome := .insufficientFunds, status := .completed }).del .active).get st = some p' := by
      cases st <;> simp only [Item.get] at hg ⊢ <;> first | (rw [← a]; exact hg) | (rw [← b]; exact hg) | (rw [← c]; exact hg) | (rw [← d]; exact hg) | (rw [← e]; exact hg)
    simp only [Item.get_del, Item.get_set] at hg'
    by_cases h1 : st = .active
    · simp [h1] at hg'
    · by_cases h2 : st = .failed
      · simp [h2] at hg'; subst hg'; cases ho
      · simp [h1, h2] at hg'; left; exact ⟨st, p', hg', rfl⟩
  | finCfgFailed p _ _ hd _ _ =>
    simp only [Item.get_del, Item.get_set] at hg
    by_cases h1 : st = .passed
    · simp [h1] at hg
    · by_cases h2 : st = .finFailed
      · simp [h2] at hg; subst hg
        left
        rcases Item.decided_get it p hd with h | ⟨_, h⟩
        · exact ⟨.passed, p, h, rfl⟩
        · exact ⟨.failed, p, h, rfl⟩
      · simp [h1, h2] at hg; left; exact ⟨st, p', hg, rfl⟩
  | finalize p r src _ _ hd _ _ hsrc _ =>
    simp only [Item.get_del, Item.get_set, deleteAllFunds_get] at hg
    have hsrc' : src ≠ .finalized := by rcases hsrc with ⟨_, h⟩ | ⟨_, h⟩ <;> simp [h]
    by_cases h1 : st = src
    · simp [h1] at hg
    · by_cases h2 : st = .finalized
      · simp [h2, hsrc', hsrc'.symm] at hg; subst hg
        left
        rcases Item.decided_get it p hd with h | ⟨_, h⟩
        · exact ⟨.passed, p, h, rfl⟩
        · exact ⟨.failed, p, h, rfl⟩
      · simp [h1, h2] at hg; left; exact ⟨st, p', hg, rfl⟩
  | finBad p r _ _ hd _ _ _ _ =>
    simp only [Item.get_del, Item.get_set, deleteAllFunds_get] at hg
    by_cases h1 : st = .passed
    · simp [h1] at hg
    · by_cases h2 : st = .finFailed
      · simp [h2] at hg; subst hg
        left
        rcases Item.decided_get it p hd with h | ⟨_, h⟩
        · exact ⟨.passed, p, h, rfl⟩
        · exact ⟨.failed, p, h, rfl⟩
      · simp [h1, h2] at hg; left; exact ⟨st, p', hg, rfl⟩
  | commit => left; exact same _ (fun s => by cases s <;> rfl) hg


/-! ## the snapshot -/

/-- validator and power of every vote record -/
def powers (votes : List (Addr × VoteRec)) : List (Addr × Int) := votes.map (fun kv => (kv.1, kv.2.power))

theorem powers_upsert_same (l : List (Addr × VoteRec)) (a : Addr) (r r' : VoteRec)
    (hr : alookup a l = some r) (hp : r'.power = r.power) : powers (upsert l a r') = powers l := by
  induction l with
  | nil => simp [alookup] at hr
  | cons hd t ih =>
    obtain ⟨k, w⟩ := hd
    by_cases hk : k = a
    · subst hk
      simp only [alookup, if_true, Option.some.injEq] at hr
      subst hr
      simp [upsert, powers, hp]
    · simp only [alookup, hk, if_false] at hr
      simp only [upsert, hk, if_false, powers, List.map_cons, List.cons.injEq, true_and]
      exact ih hr

theorem powers_commit (l : List (Addr × VoteRec)) : powers (commitVotes l) = powers l := by
  simp [powers, commitVotes, List.map_map, Function.comp_def]

/-- vote records (who, with what power) are written when voting begins and never altered -/
theorem trans_votes (h : Int) (opts : Opts) (vals : List (Addr × ValRec)) (it it' : Item)
    (t : Trans h opts vals it it') :
    powers it'.votes = powers it.votes ∨
    (∃ p, it.active = some p ∧ p.status = .funding ∧ it'.votes = snapshot it.votes vals) := by
  cases t with
  | create p v _ _ _ _ _ => left; simp
  | fundMore p f v _ _ _ _ _ => left; simp
  | fundStart p f v ha hs _ _ _ => right; exact ⟨p, ha, hs, by simp⟩
  | voteTbd p a o votes' _ _ _ hu _ =>
    left
    obtain ⟨r, hr, rfl⟩ := updateVote_some _ _ _ _ hu
    simpa using powers_upsert_same it.votes a r { r with opinion := o } hr rfl
  | votePass p a o votes' _ _ _ hu _ =>
    left
    obtain ⟨r, hr, rfl⟩ := updateVote_some _ _ _ _ hu
    simpa using powers_upsert_same it.votes a r { r with opinion := o } hr rfl
  | voteFail p a o votes' _ _ _ hu _ =>
    left
    obtain ⟨r, hr, rfl⟩ := updateVote_some _ _ _ _ hu
    simpa using powers_upsert_same it.votes a r { r with opinion := o } hr rfl
  | cancel p _ _ _ => left; simp
  | expire p _ _ _ => left; simp
  | withdraw p f v it2 _ _ _ _ hd => left; rw [(deductFunds_copies _ _ _ _ hd).2.2.2.2.2]
  | withdrawConv p f v it2 _ _ _ _ _ _ _ hd => left; rw [(deductFunds_copies _ _ _ _ hd).2.2.2.2.2]; simp
  | finCfgFailed p _ _ _ _ _ => left; simp
  | finalize p r src _ _ _ _ _ _ _ => left; simp [deleteAllFunds_votes]
  | finBad p r _ _ _ _ _ _ _ => left; simp [deleteAllFunds_votes]
  | commit => left; exact powers_commit _

/-- every record of a snapshot taken from an empty vote store belongs to an active, committed
    validator record and carries its power, with no opinion yet -/
theorem snapshot_sound_aux (votes : List (Addr × VoteRec)) (l : List (Addr × ValRec))
    (P : Addr × VoteRec → Prop)
    (hv : ∀ kv ∈ votes, P kv)
    (hl : ∀ v ∈ l, ∀ c, P (v.1, { opinion := .unknown, power := v.2.power, committed := c })) :
    ∀ kv ∈ l.foldl (fun vs v => setupVote vs v.1 v.2.power) votes, P kv := by
  induction l generalizing votes with
  | nil => simpa using hv
  | cons hd t ih =>
    simp only [List.foldl_cons]
    apply ih
    · intro kv hkv
      unfold setupVote at hkv
      cases hr : alookup hd.1 votes with
      | none =>
        simp only [hr] at hkv
        rcases mem_upsert_gen _ _ _ _ hkv with h1 | h1
        · exact hv kv h1
        · subst h1; exact hl hd List.mem_cons_self false
      | some r =>
        simp only [hr] at hkv
        rcases mem_upsert_gen _ _ _ _ hkv with h1 | h1
        · exact hv kv h1
        · subst h1; exact hl hd List.mem_cons_self r.committed
    · intro v hvm c; exact hl v (List.mem_cons_of_mem _ hvm) c

theorem snapshot_sound (vals : List (Addr × ValRec)) :
    ∀ kv ∈ snapshot [] vals, kv.2.opinion = .unknown ∧
      ∃ v ∈ vals, v.1 = kv.1 ∧ v.2.power = kv.2.power ∧ v.2.active = true ∧ v.2.committed = true := by
  unfold snapshot
  apply snapshot_sound_aux [] (activeVals vals)
  · intro kv hkv; cases hkv
  · intro v hv c
    refine ⟨rfl, v, ?_, rfl, rfl, ?_, ?_⟩
    · unfold activeVals cvals at hv
      exact (List.mem_filter.mp (List.mem_filter.mp hv).1).1
    · unfold activeVals at hv; exact (List.mem_filter.mp hv).2
    · unfold activeVals cvals at hv
      exact (List.mem_filter.mp (List.mem_filter.mp hv).1).2

/-! ## escrow of a refundable proposal -/

theorem fundAmount_upsert (l : List (Addr × FundRec)) (f g : Addr) (r : FundRec) :
    fundAmount (upsert l f r) g = if g = f then r.amount else fundAmount l g := by
  unfold fundAmount
  rw [alookup_upsert]
  by_cases h : g = f <;> simp [h]

theorem fundAmount_commit (l : List (Addr × FundRec)) (g : Addr) : fundAmount (commitFunds l) g = fundAmount l g := by
  induction l with
  | nil => rfl
  | cons hd t ih =>
    obtain ⟨k, r⟩ := hd
    simp only [commitFunds, List.map_cons] at ih ⊢
    rw [fundAmount_cons, fundAmount_cons, ih]

/-- for a proposal that was cancelled or missed its goal, the only transformation that changes
    an escrow record is a withdrawal, which lowers one record and the total by the same amount -/
theorem trans_refundable (h : Int) (opts : Opts) (vals : List (Addr × ValRec)) (it it' : Item)
    (w : WFI it) (p : Proposal) (hq : it.queryAll = some p) (hr : refundable p)
    (t : Trans h opts vals it it') :
    it'.queryAll = some p ∧
    (((∀ g, fundAmount it'.funds g = fundAmount it.funds g) ∧ it'.total = it.total) ∨
     ∃ f v, 0 ≤ v ∧ v ≤ fundAmount it.funds f ∧ fundAmount it'.funds f = fundAmount it.funds f - v ∧
       (∀ g, g ≠ f → fundAmount it'.funds g = fundAmount it.funds g) ∧ it'.total = it.total - v) := by
  obtain ⟨st, hst⟩ := Item.queryAll_get it p hq
  have hvotes : it.votes = [] := w.refundNoVotes st p hst hr
  have hact : it.active = none := by
    cases ha : it.active with
    | none => rfl
    | some q =>
      have : it.queryAll = some q := by simp [Item.queryAll, ha]
      rw [hq] at this; simp only [Option.some.injEq] at this; subst this
      have := (w.activeOpen p ha).1
      unfold refundable at hr; rw [this] at hr; rcases hr with h | h <;> cases h
  have hex : it.exists = true := Item.exists_of_get it st p hst
  have notally : ∀ p' r, it.decided = some p' → finalResult (resultSoFar it.votes p'.passPercent) p' = .ok r → False := by
    intro p' r hd' hfr
    have hqa : it.queryAll = some p' := by
      rcases Item.decided_get it p' hd' with h1 | ⟨h1, h2⟩
      · simp [Item.queryAll, hact, h1]
      · simp [Item.queryAll, hact, h1, h2]
    rw [hq] at hqa; simp only [Option.some.injEq] at hqa; subst hqa
    have hnone : resultSoFar it.votes p.passPercent = none := by
      simp [resultSoFar, hvotes, cvotes]
    rw [hnone] at hfr
    simp only [finalResult] at hfr
    split at hfr
    · rename_i ho; unfold refundable at hr; rw [ho] at hr; rcases hr with h | h <;> cases h
    · cases hfr
  cases t with
  | create p' v he _ _ _ _ => rw [he] at hex; cases hex
  | fundMore p' f v ha _ _ _ _ => rw [hact] at ha; cases ha
  | fundStart p' f v ha _ _ _ _ => rw [hact] at ha; cases ha
  | voteTbd p' a o votes' ha _ _ _ _ => rw [hact] at ha; cases ha
  | votePass p' a o votes' ha _ _ _ _ => rw [hact] at ha; cases ha
  | voteFail p' a o votes' ha _ _ _ _ => rw [hact] at ha; cases ha
  | cancel p' ha _ _ => rw [hact] at ha; cases ha
  | expire p' ha _ _ => rw [hact] at ha; cases ha
  | withdraw p' f v it2 _ _ hf hv hd =>
    obtain ⟨r, hr', _, h0, _, rfl⟩ := deductFunds_some it it' f v hd hf
    have hfa : fundAmount it.funds f = r.amount := by simp [fundAmount, hr']
    refine ⟨hq, Or.inr ⟨f, v, hv, by omega, ?_, ?_, rfl⟩⟩
    · simp [fundAmount_upsert, hfa]
    · intro g hg; simp [fundAmount_upsert, hg]
  | withdrawConv p' f v it2 hq' hn1 hn2 _ _ _ _ _ =>
    rw [hq] at hq'; simp only [Option.some.injEq] at hq'; subst hq'
    unfold refundable at hr; rcases hr with h | h
    · exact absurd h hn1
    · exact absurd h hn2
  | finCfgFailed p' _ _ hd' _ ht => exact absurd (notally _ _ hd' ht) id
  | finalize p' r src _ _ hd' _ ht _ _ => exact absurd (notally _ _ hd' ht) id
  | finBad p' r _ _ hd' _ ht _ _ => exact absurd (notally _ _ hd' ht) id
  | commit =>
    refine ⟨hq, Or.inl ⟨?_, rfl⟩⟩
    intro g; exact fundAmount_commit _ _


/-! ## bounds of a distribution -/

/-- percentages are not negative and do not exceed 100 % in total (in units of 1/10000 %) -/
structure Dist.OK (d : Dist) : Prop where
  v : 0 ≤ d.validators
  p : 0 ≤ d.proposer
  b : 0 ≤ d.bounty
  e : 0 ≤ d.exec
  u : 0 ≤ d.burn
  sum : d.validators + d.proposer + d.bounty + d.exec + d.burn ≤ 1000000

theorem bal_addTo (l : L) (a x : Acc) (c : Int) : bal (addTo l a c) x = if x = a then bal l a + c else bal l x := by
  unfold addTo; rw [bal_setBal]

theorem bal_addTo_mono (l : L) (a x : Acc) (c : Int) (hc : 0 ≤ c) : bal l x ≤ bal (addTo l a c) x := by
  rw [bal_addTo]; by_cases h : x = a
  · subst h; simp; omega
  · simp [h]

theorem bal_creditAll_mono (b : L) (vs : List (Addr × ValRec)) (amt : Int) (h : 0 ≤ amt) (x : Acc) :
    bal b x ≤ bal (creditAll b vs amt) x := by
  unfold creditAll
  induction vs generalizing b with
  | nil => exact Int.le_refl _
  | cons hd t ih =>
    simp only [List.foldl_cons]
    exact Int.le_trans (bal_addTo_mono b hd.1 x amt h) (ih _)

/-- with sane percentages a distribution of a non-negative escrow debits nobody, burns a
    non-negative amount, and credits in total at most the escrow -/
theorem payouts_bounds (b : L) (vs : List (Addr × ValRec)) (pr bo ex : Addr) (T : Int) (d : Dist)
    (hd : d.OK) (hT : 0 ≤ T) (hvs : vs ≠ []) :
    (∀ x, bal b x ≤ bal (payouts b vs pr bo ex T d).1 x) ∧
    0 ≤ (payouts b vs pr bo ex T d).2 ∧
    total (payouts b vs pr bo ex T d).1 - total b ≤ T := by
  have hlen : (0 : Int) < (vs.length : Int) := by
    cases vs with
    | nil => exact absurd rfl hvs
    | cons hd t => simp only [List.length_cons]; omega
  have a1 : 0 ≤ T * d.validators := Int.mul_nonneg hT hd.v
  have a2 : 0 ≤ T * d.proposer := Int.mul_nonneg hT hd.p
  have a3 : 0 ≤ T * d.bounty := Int.mul_nonneg hT hd.b
  have a4 : 0 ≤ T * d.exec := Int.mul_nonneg hT hd.e
  have a5 : 0 ≤ T * d.burn := Int.mul_nonneg hT hd.u
  have hsum : T * d.validators + T * d.proposer + T * d.bounty + T * d.exec + T * d.burn ≤ T * 1000000 := by
    have := Int.mul_le_mul_of_nonneg_left hd.sum hT
    simp only [Int.mul_add] at this
    exact this
  have hper0 : 0 ≤ pct T d.validators / (vs.length : Int) := by
    apply Int.ediv_nonneg
    · unfold pct; omega
    · omega
  have hper1 : pct T d.validators / (vs.length : Int) * (vs.length : Int) ≤ pct T d.validators :=
    Int.ediv_mul_le _ (by omega)
  have htot := payouts_total b vs pr bo ex T d
  have hburn : 0 ≤ (payouts b vs pr bo ex T d).2 := by
    unfold payouts; simp only
    unfold pct at hper1 ⊢
    omega
  refine ⟨?_, hburn, by omega⟩
  intro x
  unfold payouts; simp only
  have c1 := bal_creditAll_mono b vs _ hper0 x
  have t0 : 0 ≤ T - pct T d.validators - pct T d.proposer - pct T d.bounty - pct T d.exec - pct T d.burn := by
    unfold pct; omega
  have p2 : 0 ≤ pct T d.proposer := by unfold pct; omega
  have p3 : 0 ≤ pct T d.bounty := by unfold pct; omega
  have p4 : 0 ≤ pct T d.exec := by unfold pct; omega
  exact Int.le_trans c1 (Int.le_trans (bal_addTo_mono _ pr x _ p2) (Int.le_trans (bal_addTo_mono _ bo x _ p3)
    (Int.le_trans (bal_addTo_mono _ ex x _ p4) (bal_addTo_mono _ poolAcc x _ t0))))


/-! ## escrow records after a transaction -/

theorem fundAmount_addFundRec_ge (l : List (Addr × FundRec)) (f g : Addr) (v : Int) (hv : 0 ≤ v) :
    fundAmount l g ≤ fundAmount (addFundRec l f v) g := by
  unfold addFundRec
  cases hr : alookup f l with
  | none =>
    simp only [fundAmount_upsert]
    by_cases hf : g = f
    · subst hf; simp [fundAmount, hr]; exact hv
    · simp [hf]
  | some r =>
    simp only [fundAmount_upsert]
    by_cases hf : g = f
    · subst hf; simp [fundAmount, hr]; omega
    · simp [hf]

/-- the fund records of a proposal after a transaction that replaced the item of `pid0` and the
    balances -/
theorem funds_after (s : St) (pid0 pid : PID) (it' : Item) (b : L) :
    (({ (s.setItem pid0 it') with bal := b } : St).item pid).funds =
      if pid = pid0 then it'.funds else (s.item pid).funds := by
  have : ({ (s.setItem pid0 it') with bal := b } : St).item pid = (s.setItem pid0 it').item pid := rfl
  rw [this, St.item_setItem]
  by_cases hp : pid = pid0 <;> simp [hp]


/-- a chain without proposals -/
def initSt (opts : Opts) (vals : List (Addr × ValRec)) (bal : L) : St :=
  { height := 0, items := [], bal := bal, burned := 0, opts := opts, applied := [], vals := vals,
    qExpire := [], qFinalize := [] }


/-! ## value accounting over block hooks and histories -/

theorem sumTotals_commit (l : List (PID × Item)) :
    sumTotals (l.map (fun kv => (kv.1, kv.2.commit))) = sumTotals l := by
  induction l with
  | nil => rfl
  | cons hd t ih =>
    obtain ⟨k, it⟩ := hd
    simp only [List.map_cons, sumTotals, ih]
    rfl

theorem internal_value (E : Env) (s : St) (op : Op) (w : WF s) :
    WF (internal E s op) ∧ value (internal E s op) + (internal E s op).burned = value s + s.burned := by
  refine ⟨wf_internal E s op w, ?_⟩
  rcases internal_cases E s op with e | ⟨s1, h1, e⟩
  · rw [e]
  · rw [e]; exact runTx_value E s s1 op w h1

/-- every operation of a history except a balance change by another subsystem conserves
    balances + escrow + burned: transactions, BeginBlock, EndBlock with its queued expiries and
    finalisations, validator record changes -/
theorem step_value (E : Env) (s : St) (op : Op) (w : WF s) (hop : ∀ a v, op ≠ .setBal a v) :
    value (step E s op).1 + (step E s op).1.burned = value s + s.burned := by
  rcases step_cases E s op with ⟨h, _, e⟩ | ⟨_, e⟩ | ⟨vals, _, e⟩ | ⟨a, v, ho, _⟩ | e | ⟨s', h, e⟩
  · rw [e]
    show total s.bal + sumTotals (s.items.map (fun kv => (kv.1, kv.2.commit))) + s.burned = _
    rw [sumTotals_commit]; rfl
  · rw [e, endBlock_eq]
    have p1 := foldl_internal_inv E .expire (fun x => WF x ∧ value x + x.burned = value s + s.burned)
      (fun a pid0 ⟨wa, ha⟩ => by
        obtain ⟨wb, hb⟩ := internal_value E a (.expire pid0) wa
        exact ⟨wb, by omega⟩) s.qExpire s ⟨w, rfl⟩
    have p2 := foldl_internal_inv E .finalize (fun x => WF x ∧ value x + x.burned = value s + s.burned)
      (fun a pid0 ⟨wa, ha⟩ => by
        obtain ⟨wb, hb⟩ := internal_value E a (.finalize pid0) wa
        exact ⟨wb, by omega⟩) s.qFinalize _ p1
    exact p2.2
  · rw [e]; rfl
  · exact absurd ho (hop a v)
  · rw [e]
  · rw [e]; exact runTx_value E s s' op w h

/-! ## an expired proposal is finalised -/

/-- the records of a proposal whose votes expired: only a FAILED copy, completed, outcome
    "insufficient votes", and a tally that does not pass it -/
structure Expired (it : Item) (p : Proposal) : Prop where
  noPassed : it.passed = none
  failed : it.failed = some p
  notFinal : it.finalized = none ∧ it.finFailed = none
  completed : p.status = .completed
  outcome : p.outcome = .insufficientVotes
  notPassed : resultSoFar it.votes p.passPercent ≠ some .passed

/-- the records once the escrow has been distributed -/
def Settled (it : Item) (p : Proposal) : Prop :=
  it.finalized = some p ∧ it.failed = none ∧ it.total = 0 ∧ it.funds = []

/-- BeginBlock queues every expired proposal for finalisation -/
theorem beginBlock_queues_expired (s : St) (h : Int) (pid : PID) (p : Proposal)
    (hf : (s.item pid).failed = some p) (hs : p.status = .completed) (ho : p.outcome = .insufficientVotes) :
    pid ∈ (beginBlock s h).qFinalize := by
  have hl : ∃ it, alookup pid s.items = some it ∧ it.failed = some p := by
    unfold St.item at hf
    cases ha : alookup pid s.items with
    | none => rw [ha] at hf; simp at hf
    | some it => rw [ha] at hf; exact ⟨it, rfl, by simpa using hf⟩
  obtain ⟨it, hit, hitf⟩ := hl
  have hmem : (pid, it) ∈ s.items := alookup_mem _ _ _ hit
  show pid ∈ sortPids (((s.items.map (fun kv => (kv.1, kv.2.commit))).filter (fun kv => wantsFinalize kv.2)).map (·.1))
  rw [mem_sortPids, List.mem_map]
  refine ⟨(pid, it.commit), ?_, rfl⟩
  rw [List.mem_filter]
  refine ⟨List.mem_map.mpr ⟨(pid, it), hmem, rfl⟩, ?_⟩
  have : it.commit.failed = some p := hitf
  simp [wantsFinalize, this, hs, ho]

theorem finalResult_expired (it : Item) (p : Proposal) (e : Expired it p) :
    finalResult (resultSoFar it.votes p.passPercent) p = .ok .failed := by
  cases hr : resultSoFar it.votes p.passPercent with
  | none => simp [finalResult, e.outcome]
  | some r =>
    cases r with
    | passed => exact absurd hr e.notPassed
    | failed => simp [finalResult]
    | tbd => simp [finalResult, e.outcome]

/-- finalising an expired proposal succeeds when there is a validator record: the failed
    distribution is made, the proposal is FINALIZED, the escrow is empty, and what was credited
    plus what was burned is the escrow -/
theorem expired_finalize (E : Env) (s : St) (pid : PID) (p : Proposal) (w : WF s)
    (e : Expired (s.item pid) p) (hv : cvals s.vals ≠ []) :
    ∃ s', runTx E s (.finalize pid) = .ok s' ∧ Settled (s'.item pid) p ∧
      (∀ pid', pid' ≠ pid → s'.item pid' = s.item pid') ∧ s'.vals = s.vals ∧
      total s'.bal + (s'.burned - s.burned) = total s.bal + (s.item pid).total := by
  have hdec : (s.item pid).decided = some p := by simp [Item.decided, e.noPassed, e.failed]
  have hfr := finalResult_expired _ _ e
  have hrun : runTx E s (.finalize pid) = .ok (distributeAndMove s pid p (s.opts.byType p.ptype).failedDist .failed) := by
    simp [runTx, runFinalize, e.notFinal.1, e.notFinal.2, hdec, e.completed, hfr]
  refine ⟨_, hrun, ?_⟩
  obtain ⟨_, hvals, _, _, _, _, hitems⟩ := distributeAndMove_items s _ pid p _ .failed rfl
  rcases hitems with ⟨hnil, _⟩ | ⟨_, hbal, hburn, hitems⟩
  · exact absurd hnil hv
  · obtain ⟨hbad, htot, hfunds⟩ := deleteAll_clears (s.item pid) (w.items pid)
      (final_funds_committed (s.item pid) p .failed (w.items pid) hdec hfr)
    simp only [hbad] at hitems
    simp only [Bool.false_eq_true, if_false] at hitems
    have hitem : ∀ pid', (distributeAndMove s pid p (s.opts.byType p.ptype).failedDist .failed).item pid' =
        if pid' = pid then (((s.item pid).deleteAllFunds.1.set .finalized p).del .failed) else s.item pid' :=
      fun pid' => item_of_upsert s _ pid pid' _ hitems
    refine ⟨?_, ?_, hvals, ?_⟩
    · rw [hitem pid]; simp only [if_true]
      refine ⟨by simp, by simp, by simpa using htot, by simpa using hfunds⟩
    · intro pid' hp; rw [hitem pid']; simp [hp]
    · rw [hbal, hburn]
      have := payouts_total s.bal (cvals s.vals) p.proposer s.opts.bountyAddr (s.opts.byType p.ptype).execAddr
        (s.item pid).total (s.opts.byType p.ptype).failedDist
      omega

theorem internal_of_ok (E : Env) (s s' : St) (op : Op) (h : runTx E s op = .ok s') : internal E s op = s' := by
  unfold internal; rw [h]

/-- an internal expiry leaves a proposal without ACTIVE copy, and the validator records, alone -/
theorem internal_expire_frame (E : Env) (s : St) (pid0 pid : PID) (ha : (s.item pid).active = none) :
    (internal E s (.expire pid0)).item pid = s.item pid ∧ (internal E s (.expire pid0)).vals = s.vals := by
  rcases internal_cases E s (.expire pid0) with e | ⟨s1, h1, e⟩
  · rw [e]; exact ⟨rfl, rfl⟩
  · rw [e]
    simp only [runTx] at h1
    obtain ⟨p, hp, _, _, rfl⟩ := runExpire_ok s s1 pid0 h1
    refine ⟨?_, rfl⟩
    rw [St.item_setItem]
    by_cases hpp : pid = pid0
    · subst hpp; rw [ha] at hp; cases hp
    · simp [hpp]

theorem internal_finalize_frame (E : Env) (s : St) (pid0 pid : PID) (hp : pid ≠ pid0) :
    (internal E s (.finalize pid0)).item pid = s.item pid ∧ (internal E s (.finalize pid0)).vals = s.vals := by
  rcases internal_cases E s (.finalize pid0) with e | ⟨s1, h1, e⟩
  · rw [e]; exact ⟨rfl, rfl⟩
  · rw [e]
    simp only [runTx] at h1
    obtain ⟨f1, _, f3, _⟩ := runFinalize_frame E s s1 pid0 h1
    exact ⟨f3 pid hp, f1⟩

/-- EndBlock finalises every queued expired proposal (given a validator record): whatever else
    is in the two queues, afterwards the proposal is FINALIZED and its escrow is empty -/
theorem endBlock_settles_expired (E : Env) (s : St) (pid : PID) (p : Proposal) (w : WF s)
    (hq : pid ∈ s.qFinalize) (e : Expired (s.item pid) p) (hv : cvals s.vals ≠ []) :
    Settled ((endBlock E s).item pid) p := by
  have hact : (s.item pid).active = none := by
    cases ha : (s.item pid).active with
    | none => rfl
    | some q =>
      have := ((w.items pid).activeExcl (by simp [ha])).2.1
      rw [e.failed] at this; cases this
  -- after the expiries nothing about this proposal has changed
  have p1 := foldl_internal_inv E .expire (fun x => WF x ∧ x.item pid = s.item pid ∧ x.vals = s.vals)
    (fun a pid0 ⟨wa, hi, hvv⟩ => by
      obtain ⟨f1, f2⟩ := internal_expire_frame E a pid0 pid (by rw [hi]; exact hact)
      exact ⟨wf_internal E a _ wa, by rw [f1]; exact hi, by rw [f2]; exact hvv⟩) s.qExpire s ⟨w, rfl, rfl⟩
  -- the finalisations: untouched until its turn, settled from then on
  have key : ∀ (l : List PID) (x : St),
      ((WF x ∧ x.item pid = s.item pid ∧ x.vals = s.vals) → pid ∈ l →
          Settled ((l.foldl (fun acc q => internal E acc (.finalize q)) x).item pid) p) ∧
      (Settled (x.item pid) p → Settled ((l.foldl (fun acc q => internal E acc (.finalize q)) x).item pid) p) := by
    intro l
    induction l with
    | nil =>
      intro x
      refine ⟨?_, fun h => h⟩
      intro _ hm
      cases hm
    | cons hd t ih =>
      intro x
      have settledStep : Settled (x.item pid) p → Settled ((internal E x (.finalize hd)).item pid) p := by
        intro hs
        by_cases hp : pid = hd
        · subst hp
          rcases internal_cases E x (.finalize pid) with e1 | ⟨s1, h1, e1⟩
          · rw [e1]; exact hs
          · rw [e1]
            simp only [runTx] at h1
            rcases runFinalize_ok E x s1 pid h1 with ⟨rfl, _⟩ | ⟨_, _, hf1, _⟩
            · exact hs
            · rw [hs.1] at hf1; cases hf1
        · rw [(internal_finalize_frame E x hd pid hp).1]; exact hs
      constructor
      · rintro ⟨wx, hi, hvv⟩ hm
        simp only [List.foldl_cons]
        by_cases hp : pid = hd
        · subst hp
          obtain ⟨s', hrun, hset, _⟩ := expired_finalize E x pid p wx (by rw [hi]; exact e) (by rw [hvv]; exact hv)
          rw [internal_of_ok E x s' _ hrun]
          exact (ih s').2 hset
        · have hm' : pid ∈ t := by
            rcases List.mem_cons.mp hm with h | h
            · exact absurd h hp
            · exact h
          obtain ⟨f1, f2⟩ := internal_finalize_frame E x hd pid hp
          exact (ih _).1 ⟨wf_internal E x _ wx, by rw [f1]; exact hi, by rw [f2]; exact hvv⟩ hm'
      · intro hs
        simp only [List.foldl_cons]
        exact (ih _).2 (settledStep hs)
  have := (key s.qFinalize (afterExpiries E s)).1 p1 hq
  rw [endBlock_eq]
  exact this


end OLP.Gov

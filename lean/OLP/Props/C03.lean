/-
  C03 — No unauthorised debit: only its signature or a guilty verdict debits an account.

  Generic part: which holders a debit/credit pair can decrease, the transfer handlers and the fee
  step. The tie to the source is the extracted `signerRows` table (who `Signers()` names for every
  message type, OLP/Props/C03Facts.lean) together with the per-subsystem theorems.
-/
import OLP.Ledger.Lemmas

namespace OLP.Props.C03
open OLP OLP.Ledger

/-- a debit touches nobody but the debited holder -/
theorem minusFrom_only_src (l l' : L) (a b : Acc) (c : Int) (h : minusFrom l a c = .ok l')
    (hb : b ≠ a) : bal l' b = bal l b := by
  obtain ⟨_, rfl⟩ := minusFrom_ok l l' a c h
  exact bal_setBal_ne l a b _ hb

theorem addTo_only_dst (l : L) (a b : Acc) (c : Int) (hb : b ≠ a) : bal (addTo l a c) b = bal l b := by
  unfold addTo
  exact bal_setBal_ne l a b _ hb

/-- with a non-negative coin, a debit/credit pair decreases nobody but the source -/
theorem transfer_debits_only_src (l l' : L) (s d a : Acc) (c : Int) (hc : 0 ≤ c)
    (h : transfer l s d c = .ok l') (hd : bal l' a < bal l a) : a = s := by
  obtain ⟨l₁, hm, rfl⟩ := transfer_ok l l' s d c h
  by_cases has : a = s
  · exact has
  · exfalso
    have h1 : bal l₁ a = bal l a := minusFrom_only_src l l₁ s a c hm has
    by_cases had : a = d
    · subst had
      have h2 : bal (addTo l₁ a c) a = bal l₁ a + c := by
        unfold addTo; exact bal_setBal_self l₁ a _
      omega
    · have h2 : bal (addTo l₁ d c) a = bal l₁ a := addTo_only_dst l₁ d a c had
      omega

/-- with a negative coin it is the *receiver* that is debited — a holder the signature does not
    cover (the shape of S26: PROPOSAL_WITHDRAW_FUNDS with a negative value debits `Beneficiary`) -/
theorem negative_coin_debits_receiver :
    ∃ l', transfer [("funder", 5), ("victim", 10)] "funder" "victim" (-4) = .ok l' ∧
      bal l' "victim" < bal [("funder", 5), ("victim", 10)] "victim" := by
  exact ⟨[("funder", 9), ("victim", 6)], by rfl, by decide⟩

/-- SEND at full strength: whatever the amount, only `From` (its signer) can lose value -/
theorem send_debits_only_from (l l' : L) (s d a : Acc) (amt : Int)
    (h : send l s d amt = .ok l') (hd : bal l' a < bal l a) : a = s := by
  obtain ⟨ha, ht⟩ := send_ok l l' s d amt h
  exact transfer_debits_only_src l l' s d a amt ha ht hd

/-- the fee step only ever charges the first signer (non-negative charge) -/
theorem feeStep_debits_only_signer (l l' : L) (s p a : Acc) (price used : Int) (hp : 0 ≤ price * used)
    (h : feeStep l s p price used = .ok l') (hd : bal l' a < bal l a) : a = s := by
  exact transfer_debits_only_src l l' s p a (price * used) hp h hd

theorem txSend_debits_only_from (l l' : L) (s d p a : Acc) (amt price used : Int)
    (hp : 0 ≤ price * used) (h : txSend l s d p amt price used = .ok l')
    (hd : bal l' a < bal l a) : a = s := by
  obtain ⟨l₁, hs, hf⟩ := txSend_ok l l' s d p amt price used h
  by_cases h1 : bal l₁ a < bal l a
  · exact send_debits_only_from l l₁ s d a amt hs h1
  · exact feeStep_debits_only_signer l₁ l' s p a price used hp hf (by omega)

/-- lifting: a block whose every transaction only debits holders in `auth tx` only debits holders
    authorised by some transaction of the block -/
theorem block_debits_only_authorised {Tx : Type} (step : L → Tx → L) (auth : Tx → Acc → Prop)
    (hstep : ∀ l tx a, bal (step l tx) a < bal l a → auth tx a)
    (l : L) (txs : List Tx) (a : Acc) (hd : bal (txs.foldl step l) a < bal l a) :
    ∃ tx ∈ txs, auth tx a := by
  induction txs generalizing l with
  | nil => simp at hd
  | cons tx t ih =>
    simp only [List.foldl_cons] at hd
    by_cases h1 : bal (step l tx) a < bal l a
    · exact ⟨tx, List.mem_cons_self, hstep l tx a h1⟩
    · obtain ⟨tx', hm, ha⟩ := ih (step l tx) (by omega)
      exact ⟨tx', List.mem_cons_of_mem _ hm, ha⟩

example : ∃ l', send [("a", 5), ("b", 0)] "a" "b" 3 = .ok l' ∧ bal l' "a" < bal [("a", 5), ("b", 0)] "a" :=
  ⟨[("a", 2), ("b", 3)], by rfl, by decide⟩

end OLP.Props.C03

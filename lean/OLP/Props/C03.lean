/-
  C03 — No unauthorised debit: only its signature or a guilty verdict debits an account.

  Generic part: which holders a debit/credit pair can decrease, the transfer handlers and the fee
  step. The tie to the source is the extracted `signerRows` table (who `Signers()` names for every
  message type, OLP/Props/C03Facts.lean) together with the per-subsystem theorems.
-/
import OLP.Ledger.Lemmas

namespace OLP.Props.C03
open OLP OLP.Ledger

/-- a debit touches nobody but the debited holder -/
theorem minusFrom_only_src (l l' : L) (a b : Acc) (c : Int) (h : minusFrom l a c = .ok l')
    (hb : b ≠ a) : bal l' b = bal l b := sorry

theorem addTo_only_dst (l : L) (a b : Acc) (c : Int) (hb : b ≠ a) : bal (addTo l a c) b = bal l b := sorry

/-- with a non-negative coin, a debit/credit pair decreases nobody but the source -/
theorem transfer_debits_only_src (l l' : L) (s d a : Acc) (c : Int) (hc : 0 ≤ c)
    (h : transfer l s d c = .ok l') (hd : bal l' a < bal l a) : a = s := sorry

/-- with a negative coin it is the *receiver* that is debited — a holder the signature does not
    cover (the shape of S26: PROPOSAL_WITHDRAW_FUNDS with a negative value debits `Beneficiary`) -/
theorem negative_coin_debits_receiver :
    ∃ l', transfer [("funder", 5), ("victim", 10)] "funder" "victim" (-4) = .ok l' ∧
      bal l' "victim" < bal [("funder", 5), ("victim", 10)] "victim" := sorry

/-- SEND at full strength: whatever the amount, only `From` (its signer) can lose value -/
theorem send_debits_only_from (l l' : L) (s d a : Acc) (amt : Int)
    (h : send l s d amt = .ok l') (hd : bal l' a < bal l a) : a = s := sorry

/-- the fee step only ever charges the first signer (non-negative charge) -/
theorem feeStep_debits_only_signer (l l' : L) (s p a : Acc) (price used : Int) (hp : 0 ≤ price * used)
    (h : feeStep l s p price used = .ok l') (hd : bal l' a < bal l a) : a = s := sorry

theorem txSend_debits_only_from (l l' : L) (s d p a : Acc) (amt price used : Int)
    (hp : 0 ≤ price * used) (h : txSend l s d p amt price used = .ok l')
    (hd : bal l' a < bal l a) : a = s := sorry

/-- lifting: a block whose every transaction only debits holders in `auth tx` only debits holders
    authorised by some transaction of the block -/
theorem block_debits_only_authorised {Tx : Type} (step : L → Tx → L) (auth : Tx → Acc → Prop)
    (hstep : ∀ l tx a, bal (step l tx) a < bal l a → auth tx a)
    (l : L) (txs : List Tx) (a : Acc) (hd : bal (txs.foldl step l) a < bal l a) :
    ∃ tx ∈ txs, auth tx a := sorry

example : ∃ l', send [("a", 5), ("b", 0)] "a" "b" 3 = .ok l' ∧ bal l' "a" < bal [("a", 5), ("b", 0)] "a" := sorry

end OLP.Props.C03

/-
  C07 — obligations over the REGENERATED fact tables (tie T3): the premises `AllAimed` and
  the shape of `checkTx` used by `OLP.Props.C07.checktx_isolation` are what the source says now.
-/
import OLP.Shell.Expect

namespace OLP.Props.C07.Facts
open OLP.Expect

/-- every BeginBlock hook reads state through a store re-aimed at the deliver state, except the
    classified in-memory-only uses -/
theorem begin_hooks_aimed : undominated "blockBeginner" = beginUnaimed := by decide

theorem end_hooks_aimed : undominated "blockEnder" = endUnaimed := by decide

theorem commit_and_init_aimed : undominated "commitor" = [] ∧ undominated "chainInitializer" = [] := by
  decide

/-- CheckTx: index lookup, session, Validate, ProcessCheck, ProcessFee, commit iff both ok -/
theorem checker_discipline :
    OLP.Gen.sessionRule.filter (fun r => r.fn == "txChecker") =
    sessionRule.filter (fun r => r.fn == "txChecker") := by decide

/-- the calls that overwrite in-memory option copies: the governance update functions are
    reachable from ProcessCheck (S13, a known finding of this property) -/
theorem volatile_setters_as_classified : OLP.Gen.volatileSets = volatileSets := by decide

end OLP.Props.C07.Facts

/-
  C07 — obligations over the REGENERATED fact tables (tie T3): the premises `AllAimed` and
  the shape of `checkTx` used by `OLP.Props.C07.checktx_isolation` are what the source says now.
-/
import OLP.Shell.Expect

namespace OLP.Props.C07.Facts
open OLP.Expect

/-- every BeginBlock hook reads state through a store re-aimed at the deliver state, except the
    classified in-memory-only uses -/
theorem begin_hooks_aimed : undominated "blockBeginner" = beginUnaimed := by decide

theorem end_hooks_aimed : undominated "blockEnder" = endUnaimed := by decide

theorem commit_and_init_aimed : undominated "commitor" = [] ∧ undominated "chainInitializer" = [] := by
  decide

/-- CheckTx: index lookup, session, Validate, ProcessCheck, ProcessFee, commit iff both ok -/
theorem checker_discipline :
    OLP.Gen.sessionRule.filter (fun r => r.fn == "txChecker") =
    sessionRule.filter (fun r => r.fn == "txChecker") := by decide

/-- the calls that overwrite in-memory option copies: start-up code, InitChain, BeginBlock's
    `feePool.SetupOpt` and the governance update functions; the latter run in `ValidateAndUpdate`
    mode only inside `runFinalizeProposal` … -/
theorem volatile_setters_as_classified : OLP.Gen.volatileSets = volatileSets := by decide

/-- … which no `ProcessCheck` calls (premise `CheckNoVset`; S13 was repaired by the fix: commit
    "do not run proposal finalisation in the mempool check") -/
theorem check_path_runs_no_finalisation :
    OLP.Gen.checkRuns.all (fun r => r.what != "runFinalizeProposal") = true ∧
    (OLP.Gen.checkRuns.filter (fun r => r.fn == "action/governance.FinalizeProposal.ProcessCheck")).map
      (fun r => r.what) = [""] := by decide

/-- the shared EVM state object (`CommitStateDB`: one instance with a state-agnostic object cache,
    used by both paths) is touched on the mempool path only to ask whether the fork is enabled and
    to obtain the account keeper; in particular OLVM `Validate` / `ProcessCheck` never read
    accounts through it and never execute the VM -/
theorem check_path_statedb_uses :
    OLP.Gen.checkStateDB =
      [⟨"action/olvm.olvmTx.Validate", "StateDB.Enabled"⟩,
       ⟨"action/olvm.olvmTx.Validate", "StateDB.GetAccountKeeper"⟩] := by decide

/-- the ABCI entry points the shell model ports are unchanged since the port was validated -/
theorem entry_points_source_pinned :
    OLP.Expect.pinnedOf OLP.Gen.pinned (pinnedShell.map (fun r => r.fn)) = pinnedShell := by decide

end OLP.Props.C07.Facts

/-
  C15 — vote counting and the two thresholds, tied to the source by translation (T2b).

  `Tracker.GetVotes` (a loop over the vote slots: translated as a left fold), `Tracker.Finalized`
  and `Tracker.Failed` are translated WHOLE from /repo's working tree; the model's `countVotes`,
  `Tracker.finalized` and `Tracker.failedV` are proved to be these functions. A changed
  comparison (`>=` for `>`), a changed threshold, a vote value counted for the wrong side or a
  slot skipped by the loop changes the generated definition and breaks a theorem here.
-/
import OLP.Gen.Funcs
import OLP.Eth.Model

namespace OLP.Props.C15
open OLP.Eth
open OLP.Gen

theorem foldl_pair_count {f : Int × Int → Int → Int × Int}
    (hf : ∀ a x, f a x = (a.1 + (if x = 1 then 1 else 0), a.2 + (if x = 2 then 1 else 0)))
    (vs : List Nat) (a : Int × Int) :
    List.foldl f a (vs.map Int.ofNat) = (a.1 + (countVotes 1 vs : Int), a.2 + (countVotes 2 vs : Int)) := by
  induction vs generalizing a with
  | nil => simp [countVotes]
  | cons v vs ih =>
    simp only [List.map_cons, List.foldl_cons, ih, hf, countVotes]
    by_cases e1 : v = 1 <;> by_cases e2 : v = 2 <;> simp [e1, e2] <;> omega

theorem getVotes_is_count (vs : List Nat) :
    Funcs.trackerGetVotes (vs.map Int.ofNat) = ((countVotes 1 vs : Int), (countVotes 2 vs : Int)) := by
  unfold Funcs.trackerGetVotes
  simp only []
  rw [foldl_pair_count]
  · simp
  · intro a x
    rcases a with ⟨y, n⟩
    by_cases h1 : x = 1 <;> by_cases h2 : x = 2 <;> simp [h1, h2] <;> omega

/-- the source's `Finalized` (whole function: the vote loop, the threshold, the comparison) is the
    model's -/
theorem finalized_is_source (t : Tracker) :
    t.finalized = Funcs.trackerFinalized t.witnesses.length (t.votes.map Int.ofNat) := by
  unfold Tracker.finalized Funcs.trackerFinalized
  simp only [getVotes_is_count]
  unfold Tracker.threshold Tracker.yes
  have h : Int.tdiv ((t.witnesses.length : Int) * 2) 3 = ((t.witnesses.length * 2 / 3 : Nat) : Int) := by
    rw [Int.tdiv_eq_ediv_of_nonneg (by omega)]; push_cast; rfl
  rw [h]
  by_cases hc : t.witnesses.length * 2 / 3 + 1 ≤ countVotes 1 t.votes
  · have : ((countVotes 1 t.votes : Nat) : Int) ≥ ((t.witnesses.length * 2 / 3 : Nat) : Int) + 1 := by omega
    simp [hc] <;> omega
  · have : ¬ ((countVotes 1 t.votes : Nat) : Int) ≥ ((t.witnesses.length * 2 / 3 : Nat) : Int) + 1 := by omega
    simp [hc] <;> omega

theorem failed_is_source (t : Tracker) :
    t.failedV = Funcs.trackerFailed t.witnesses.length (t.votes.map Int.ofNat) := by
  unfold Tracker.failedV Funcs.trackerFailed
  simp only [getVotes_is_count]
  unfold Tracker.threshold Tracker.no
  have h : Int.tdiv ((t.witnesses.length : Int) * 2) 3 = ((t.witnesses.length * 2 / 3 : Nat) : Int) := by
    rw [Int.tdiv_eq_ediv_of_nonneg (by omega)]; push_cast; rfl
  rw [h]
  by_cases hc : t.witnesses.length * 2 / 3 + 1 ≤ countVotes 2 t.votes
  · have : ((countVotes 2 t.votes : Nat) : Int) ≥ ((t.witnesses.length * 2 / 3 : Nat) : Int) + 1 := by omega
    simp [hc] <;> omega
  · have : ¬ ((countVotes 2 t.votes : Nat) : Int) ≥ ((t.witnesses.length * 2 / 3 : Nat) : Int) + 1 := by omega
    simp [hc] <;> omega

/-- both verdicts at once are impossible in the source's own terms: yes and no votes are counted
    over the same slots, and two thresholds of more than two thirds do not fit into the slots -/
theorem source_not_both (t : Tracker) (hl : t.votes.length = t.witnesses.length) :
    ¬ (Funcs.trackerFinalized t.witnesses.length (t.votes.map Int.ofNat) = true ∧
       Funcs.trackerFailed t.witnesses.length (t.votes.map Int.ofNat) = true) := by
  rw [← finalized_is_source, ← failed_is_source]
  unfold Tracker.finalized Tracker.failedV Tracker.threshold Tracker.yes Tracker.no
  have hsum : ∀ vs : List Nat, countVotes 1 vs + countVotes 2 vs ≤ vs.length := by
    intro vs
    induction vs with
    | nil => simp [countVotes]
    | cons v vs ih =>
      simp only [countVotes, List.length_cons]
      by_cases e1 : v = 1 <;> by_cases e2 : v = 2 <;> simp [e1, e2] <;> omega
  have := hsum t.votes
  simp only [decide_eq_true_eq]
  omega

end OLP.Props.C15

/-
  C18 — obligation over the REGENERATED fact tables (tie T3): every `Fatal` / `panic` / `os.Exit`
  call site in the consensus packages is one of the classified rows of OLP.Expect.fatalSites
  (a new one on a transaction-reachable path has to be classified before the check passes again).
-/
import OLP.Shell.Expect

namespace OLP.Props.C18.Facts
open OLP.Expect

theorem fatal_sites_as_classified : OLP.Gen.fatalSites = fatalSites := by decide

end OLP.Props.C18.Facts

/-
  C04 — Only authentically signed, untampered transactions are admitted or executed.

  Property theorems only (helper lemmas: OLP/Sig/Lemmas.lean, OLP/Shell/LemmasA.lean).
  Statements are about the executable models `OLP.Sig` (OLP/Sig/Model.lean: `action.ValidateBasic`,
  the key handlers of data/keys, `RawTx.RawBytes()`, the OLVM `validateSigner`) and `OLP.Shell`
  (`txChecker` / `txDeliverer`), which the `sigm` and `shell` engines compare with the real code and
  the `sig` engine monitors on the whole application.

  Cryptography is a parameter: `verify`, `addrOf`, `Prims`, `recover` are arbitrary functions.
  Nothing here assumes unforgeability; `tamper_rejected` states it as an explicit hypothesis.
-/
import OLP.Sig.Lemmas
import OLP.Shell.LemmasA

namespace OLP.Props.C04
open OLP OLP.Sig

/-! ## 1. `ValidateBasic`: accepted iff one matching, verifying signature per required signer, in order -/

section VB
variable {PK S A M : Type} [DecidableEq A]
variable (verify : PK → M → S → Bool) (addrOf : PK → Option A) (data : M)

/-- `ValidateBasic(data, signers, sigs) == nil` iff there are exactly as many signatures as
    required signers and, position by position, the signature's public key has the required
    signer's address and the signature verifies under that key over `data` -/
theorem validateBasic_iff (signers : List A) (sigs : List (Sig PK S)) :
    validateBasic verify addrOf data signers sigs = .ok ↔
      sigs.length = signers.length ∧
      ∀ i (hi : i < signers.length) (hj : i < sigs.length),
        addrOf sigs[i].signer = some signers[i] ∧ verify sigs[i].signer data sigs[i].signed = true := by
  unfold validateBasic
  by_cases h : sigs.length = signers.length
  · rw [if_neg (fun hn => hn h)]
    constructor
    · intro hk
      exact ⟨h, (vbLoop_ok_iff verify addrOf data signers sigs h).mp hk⟩
    · rintro ⟨_, hk⟩
      exact (vbLoop_ok_iff verify addrOf data signers sigs h).mpr hk
  · simp [h]

/-- the index panic of the loop is unreachable behind the length check -/
theorem validateBasic_never_panics (signers : List A) (sigs : List (Sig PK S)) :
    validateBasic verify addrOf data signers sigs ≠ .panic := by
  unfold validateBasic
  by_cases h : sigs.length = signers.length
  · simpa [h] using vbLoop_ne_panic verify addrOf data signers sigs h
  · simp [h]

/-- dropping a required signature (or adding one) is rejected, whatever the signatures are -/
theorem signature_count_mismatch_rejected (signers : List A) (sigs : List (Sig PK S))
    (h : sigs.length ≠ signers.length) :
    validateBasic verify addrOf data signers sigs = .unmatch := by
  simp [validateBasic, h]

/-- substituting a signer: a signature whose key does not have the address required at its
    position is rejected (this includes an unusable key, `addrOf = none`) -/
theorem substituted_signer_rejected (signers : List A) (sigs : List (Sig PK S))
    (i : Nat) (hi : i < signers.length) (hj : i < sigs.length)
    (h : addrOf sigs[i].signer ≠ some signers[i]) :
    validateBasic verify addrOf data signers sigs ≠ .ok := by
  intro hok
  exact h (((validateBasic_iff verify addrOf data signers sigs).mp hok).2 i hi hj).1

/-- signing with another key / over other bytes / altering the signature bytes: a signature that
    does not verify under the key it names is rejected -/
theorem unverified_signature_rejected (signers : List A) (sigs : List (Sig PK S))
    (i : Nat) (hj : i < sigs.length) (h : verify sigs[i].signer data sigs[i].signed = false) :
    validateBasic verify addrOf data signers sigs ≠ .ok := by
  intro hok
  have hh := (validateBasic_iff verify addrOf data signers sigs).mp hok
  have := (hh.2 i (hh.1 ▸ hj) hj).2
  rw [h] at this; cases this

/-- the accepted signatures determine the required signers: the same signatures cannot be
    accepted for two different signer lists (so changing the required signers — dropping,
    adding, reordering, substituting — without new signatures is rejected) -/
theorem accepted_signatures_fix_signers (signers signers' : List A) (sigs : List (Sig PK S))
    (h : validateBasic verify addrOf data signers sigs = .ok)
    (h' : validateBasic verify addrOf data signers' sigs = .ok) : signers' = signers := by
  have a := (validateBasic_iff verify addrOf data signers sigs).mp h
  have b := (validateBasic_iff verify addrOf data signers' sigs).mp h'
  apply List.ext_getElem (by omega)
  intro i h1 h2
  have x := (a.2 i h2 (by omega)).1
  have y := (b.2 i h1 (by omega)).1
  rw [x] at y
  exact (Option.some.inj y).symm

/-- reordering: if the accepted signatures are permuted so that position `i` now carries the
    signature that was accepted at position `j`, and the two positions require different
    signers, the result is rejected -/
theorem reordered_signatures_rejected (signers : List A) (sigs sigs' : List (Sig PK S))
    (h : validateBasic verify addrOf data signers sigs = .ok)
    (i j : Nat) (hi : i < signers.length) (hj : j < signers.length)
    (hi' : i < sigs'.length) (hj' : j < sigs.length)
    (hmoved : sigs'[i] = sigs[j]) (hdiff : signers[i] ≠ signers[j]) :
    validateBasic verify addrOf data signers sigs' ≠ .ok := by
  intro h'
  have a := ((validateBasic_iff verify addrOf data signers sigs).mp h).2 j hj hj'
  have b := ((validateBasic_iff verify addrOf data signers sigs').mp h').2 i hi hi'
  rw [hmoved, a.1] at b
  exact hdiff (Option.some.inj b.1).symm

end VB

/-! ### non-vacuity: a two-signer transaction (keys 1, 2 with addresses 10, 20; "signature" = data) -/

def exVerify : Nat → Nat → Nat → Bool := fun pk d s => s == pk + d
def exAddr : Nat → Option Nat := fun pk => if pk = 0 then none else some (pk * 10)

example : validateBasic exVerify exAddr 5 [10, 20] [⟨1, 6⟩, ⟨2, 7⟩] = .ok := by decide
example : validateBasic exVerify exAddr 5 [10, 20] [⟨2, 7⟩, ⟨1, 6⟩] = .unmatch := by decide   -- reordered
example : validateBasic exVerify exAddr 5 [10, 20] [⟨1, 6⟩] = .unmatch := by decide             -- dropped
example : validateBasic exVerify exAddr 5 [10, 20] [⟨1, 6⟩, ⟨3, 8⟩] = .unmatch := by decide   -- substituted
example : validateBasic exVerify exAddr 6 [10, 20] [⟨1, 6⟩, ⟨2, 7⟩] = .badSig := by decide    -- other bytes
example : validateBasic exVerify exAddr 5 [10, 20] [⟨1, 6⟩, ⟨2, 9⟩] = .badSig := by decide    -- second sig altered
example : validateBasic exVerify exAddr 5 [10, 0] [⟨1, 6⟩, ⟨0, 5⟩] = .badKey := by decide     -- unusable key

/-! ## 2. The signed bytes determine type, payload, fee and memo -/

/-- the serialisation can be decoded: `RawBytes()` loses nothing -/
theorem unser_ser (t : RawTx) : unser (ser t) = some t := OLP.Sig.unser_ser t

/-- `RawTx.RawBytes()` is injective on parsed values (type, payload bytes incl. nil vs empty,
    fee currency / price / gas and memo over all valid Unicode strings, all integers) -/
theorem ser_injective {t₁ t₂ : RawTx} (h : ser t₁ = ser t₂) : t₁ = t₂ := by
  have h1 := unser_ser t₁
  rw [h, unser_ser t₂] at h1
  exact (Option.some.inj h1).symm

/-- the same for the UTF-8 bytes that are actually signed -/
theorem serBytes_injective {t₁ t₂ : RawTx} (h : serBytes t₁ = serBytes t₂) : t₁ = t₂ := by
  unfold serBytes String.toUTF8 at h
  exact ser_injective (String.ofList_injective (String.toByteArray_inj.mp h))

/-- same statement for any `[]byte` text encoding that is decodable and quote-free (what the
    proof uses of base64) -/
theorem serWith_injective {b64 : Bytes → List Char} {unb64 : List Char → Option Bytes}
    (hs : B64Spec b64 unb64) {t₁ t₂ : RawTx} (h : serWith b64 t₁ = serWith b64 t₂) : t₁ = t₂ := by
  have h1 := unserWith_serWith hs t₁
  rw [h, unserWith_serWith hs t₂] at h1
  exact (Option.some.inj h1).symm

/-- any change of type, payload, fee or memo changes the bytes the signatures are checked against -/
theorem mutation_changes_signed_bytes {t t' : RawTx} (h : t' ≠ t) : serBytes t' ≠ serBytes t :=
  fun e => h (serBytes_injective e)

section Tamper
variable {PK S A : Type} [DecidableEq A]
variable (verify : PK → ByteArray → S → Bool) (addrOf : PK → Option A)

/-- a tampered transaction is accepted only with, for every required signer, a signature that
    verifies over the *tampered* bytes, which differ from the bytes originally signed -/
theorem tamper_needs_fresh_signatures (t t' : RawTx) (hne : t' ≠ t)
    (signers : List A) (sigs : List (Sig PK S))
    (h : validateBasic verify addrOf (serBytes t') signers sigs = .ok) :
    serBytes t' ≠ serBytes t ∧ sigs.length = signers.length ∧
    ∀ i (hi : i < signers.length) (hj : i < sigs.length),
      addrOf sigs[i].signer = some signers[i] ∧
      verify sigs[i].signer (serBytes t') sigs[i].signed = true := by
  have a := (validateBasic_iff verify addrOf (serBytes t') signers sigs).mp h
  exact ⟨mutation_changes_signed_bytes hne, a.1, a.2⟩

/-- `signedBy pk m`: the owner of `pk` produced a signature over `m`.  IF every verifying
    signature was produced by the key's owner (unforgeability — a hypothesis, not a claim) and
    the owners of the keys with a required signer's address signed nothing but `t`, THEN no
    `t' ≠ t` is accepted for these signers, with whatever signature bytes -/
theorem tamper_rejected (signedBy : PK → ByteArray → Prop)
    (hunf : ∀ pk m s, verify pk m s = true → signedBy pk m)
    (t t' : RawTx) (hne : t' ≠ t) (signers : List A) (hreq : signers ≠ [])
    (honly : ∀ pk a m, addrOf pk = some a → a ∈ signers → signedBy pk m → m = serBytes t)
    (sigs : List (Sig PK S)) :
    validateBasic verify addrOf (serBytes t') signers sigs ≠ .ok := by
  intro h
  obtain ⟨hb, hl, hall⟩ := tamper_needs_fresh_signatures verify addrOf t t' hne signers sigs h
  cases signers with
  | nil => exact hreq rfl
  | cons s ss =>
    have h0 := hall 0 (by simp) (by rw [hl]; simp)
    have := honly _ _ _ h0.1 (by simp) (hunf _ _ _ h0.2)
    exact hb this

end Tamper

/-! ### non-vacuity: single-field mutants of one transaction all have different signed text -/

def exTx : RawTx :=
  { type := 1, data := some [123, 125], currency := "OLT".toList, value := 10000000000, gas := 400000,
    memo := "m<1>\"\n".toList }

example : ser { exTx with memo := "m<1>\"\nx".toList } ≠ ser exTx := fun e => by
  have := ser_injective e; revert this; decide
example : ser { exTx with gas := 400001 } ≠ ser exTx := fun e => by
  have := ser_injective e; revert this; decide
example : ser { exTx with data := none } ≠ ser { exTx with data := some [] } := fun e => by
  have := ser_injective e; revert this; decide
example : escStr "a<\"\n".toList = "\"a\\u003c\\\"\\n\"".toList := by decide
example : base64 [1, 2, 3, 4, 255] = "AQIDBP8=".toList := by decide

/-! ## 3. The key handlers: every accepted signature passed a cryptographic verification

  Full strength since the fix "BTCEC public keys verify signatures and have an address"
  (/repo d272d58): before it `PublicKeyBTCEC.VerifyBytes` returned true and `Address()` nil, the
  statement held only under "no required signer is the empty address" (`authentic_partial`) and
  an EXPIRE_VOTES naming the empty address was executed with any bytes as signature.  The former
  counterexample is kept below as a regression example (refused), and as scenario
  corpus/C04/kf1_btcec_empty_signer.ops on the implementation. -/

section Keys
variable {M S : Type}

/-- accepted iff every required signer has, at its position, a signature by a key that has a
    handler (known algorithm, right size / parseable point) whose address is the signer, and the
    signature passed the LIBRARY verification of that algorithm — for all four algorithms -/
theorem authentic (p : Prims M S) (data : M) (signers : List Bytes) (sigs : List (Sig PubKey S)) :
    validateBasicK p data signers sigs = .ok ↔
      sigs.length = signers.length ∧
      ∀ i (hi : i < signers.length) (hj : i < sigs.length),
        keyAddr p sigs[i].signer = some signers[i] ∧
        p.sigVerify sigs[i].signer data sigs[i].signed = true := by
  unfold validateBasicK
  exact validateBasic_iff (keyVerify p) (keyAddr p) data signers sigs

/-- no algorithm tag buys acceptance without verification -/
theorem no_acceptance_without_verification (p : Prims M S) (data : M) (signers : List Bytes)
    (sigs : List (Sig PubKey S)) (i : Nat) (hj : i < sigs.length)
    (h : p.sigVerify sigs[i].signer data sigs[i].signed = false) :
    validateBasicK p data signers sigs ≠ .ok :=
  unverified_signature_rejected (keyVerify p) (keyAddr p) data signers sigs i hj h

/-- a key with a handler is of a known algorithm and well formed for it -/
theorem handler_needs_wellformed_key (p : Prims M S) (pk : PubKey) (a : Bytes)
    (h : keyAddr p pk = some a) :
    a = p.hashAddr pk ∧
    ((pk.alg = .ed25519 ∧ pk.data.length = ED25519_PUB_SIZE) ∨
     (pk.alg = .secp256k1 ∧ pk.data.length = SECP256K1_PUB_SIZE) ∨
     (pk.alg = .ethsecp ∧ p.parses pk = true) ∨
     (pk.alg = .btcec ∧ pk.data.length = SECP256K1_PUB_SIZE ∧ p.parses pk = true)) := by
  unfold keyAddr at h
  split at h
  · next ha => split at h
               · next hs => exact ⟨(Option.some.inj h).symm, .inl ⟨ha, hs⟩⟩
               · cases h
  · next ha => split at h
               · next hs => exact ⟨(Option.some.inj h).symm, .inr (.inl ⟨ha, hs⟩)⟩
               · cases h
  · next ha => split at h
               · next hs => exact ⟨(Option.some.inj h).symm, .inr (.inr (.inl ⟨ha, hs⟩))⟩
               · cases h
  · next ha => split at h
               · next hs =>
                 have hs' : pk.data.length = SECP256K1_PUB_SIZE ∧ p.parses pk = true := by
                   simpa using hs
                 exact ⟨(Option.some.inj h).symm, .inr (.inr (.inr ⟨ha, hs'⟩))⟩
               · cases h
  · cases h

/-- ASSUMPTION on the library verification, stated where it is used: a signature that verifies
    for `m` under a key does not verify for any other message under the same key.  (A digest
    based scheme that looked at the first 32 bytes of the message only — the BTCEC handler before
    /repo b2b7e17 — violates it.)  This is not provable here (`sigVerify` is a parameter); it is
    VALIDATED per algorithm on every run by the `sigm` monitor
    `accepted-signature-survives-message-change:<alg>:<position class>`: every accepted
    (key, message, signature) is offered again with the message changed inside the first 32
    bytes, at and after byte 32, in the last byte, with one byte appended and one dropped.
    It is the consequence of the two hypotheses of `tamper_rejected` (unforgeability + the owner
    signed one message only) that concerns one fixed signature. -/
def MessageBinding (p : Prims M S) : Prop :=
  ∀ pk m m' s, p.sigVerify pk m s = true → p.sigVerify pk m' s = true → m' = m

/-- under `MessageBinding`, the accepted signatures of at least one required signer pin the
    signed bytes: they are accepted for no other message -/
theorem accepted_signatures_bind_message (p : Prims M S) (hb : MessageBinding p) (data data' : M)
    (signers : List Bytes) (hreq : signers ≠ []) (sigs : List (Sig PubKey S))
    (h : validateBasicK p data signers sigs = .ok) (h' : validateBasicK p data' signers sigs = .ok) :
    data' = data := by
  have a := (authentic p data signers sigs).mp h
  have b := (authentic p data' signers sigs).mp h'
  cases signers with
  | nil => exact absurd rfl hreq
  | cons s ss =>
    have hj : 0 < sigs.length := by rw [a.1]; simp
    exact hb _ _ _ _ (a.2 0 (by simp) hj).2 (b.2 0 (by simp) hj).2

/-- …hence, with `serBytes_injective`, they pin type, payload, fee and memo: the same signatures
    are accepted for no other transaction -/
theorem accepted_signatures_bind_transaction {S : Type} (p : Prims ByteArray S) (hb : MessageBinding p)
    (t t' : RawTx) (signers : List Bytes) (hreq : signers ≠ []) (sigs : List (Sig PubKey S))
    (h : validateBasicK p (serBytes t) signers sigs = .ok)
    (h' : validateBasicK p (serBytes t') signers sigs = .ok) : t' = t :=
  serBytes_injective (accepted_signatures_bind_message p hb _ _ signers hreq sigs h h')

/-- keys of an unknown algorithm, or of the wrong size, are rejected as ErrInvalidPubkey -/
theorem unusable_key_rejected (p : Prims M S) (data : M) (s : Bytes) (ss : List Bytes)
    (g : Sig PubKey S) (gs : List (Sig PubKey S)) (hl : gs.length = ss.length)
    (h : keyAddr p g.signer = none) :
    validateBasicK p data (s :: ss) (g :: gs) = .badKey := by
  simp [validateBasicK, validateBasic, vbLoop, hl, h]

end Keys

/-- primitives that accept nothing: every verification fails, parsing succeeds, address = key bytes -/
def exPrims : Prims Nat Nat :=
  { parses := fun _ => true, hashAddr := fun pk => pk.data, sigVerify := fun _ _ _ => false }
/-- primitives that accept signature `s` for key `pk` over `m` iff `s = m + pk.data.length` -/
def exPrimsOK : Prims Nat Nat :=
  { parses := fun _ => true, hashAddr := fun pk => pk.data, sigVerify := fun pk m s => s == m + pk.data.length }

/-- `exPrimsOK` binds messages; a scheme reading only `m % 100` (the "first 32 bytes") does not -/
example : MessageBinding exPrimsOK := by
  intro pk m m' s h h'
  simp only [exPrimsOK, beq_iff_eq] at h h'
  omega
/-- a BTCEC key of the one accepted length -/
def bk : Bytes := List.replicate 33 2
def exPrimsPrefix : Prims Nat Nat :=
  { parses := fun _ => true, hashAddr := fun pk => pk.data, sigVerify := fun _ m s => s == m % 100 }
example : ¬ MessageBinding exPrimsPrefix := fun h => by
  have := h ⟨.btcec, []⟩ 7 107 7 (by decide) (by decide)
  revert this; decide
example : validateBasicK exPrimsPrefix 7 [bk] [⟨⟨.btcec, bk⟩, 7⟩] = .ok ∧
    validateBasicK exPrimsPrefix 107 [bk] [⟨⟨.btcec, bk⟩, 7⟩] = .ok := by decide

/-- regression (former `btcec_counterexample`): the empty address with a BTCEC key and junk -/
example : validateBasicK exPrims 7 [[]] [⟨⟨.btcec, bk⟩, 0⟩] = .unmatch := by decide
example : validateBasicK exPrims 7 [bk] [⟨⟨.btcec, bk⟩, 0⟩] = .badSig := by decide
example : validateBasicK exPrimsOK 7 [bk] [⟨⟨.btcec, bk⟩, 40⟩] = .ok := by decide
example : validateBasicK exPrimsOK 7 [bk] [⟨⟨.btcec, bk⟩, 39⟩] = .badSig := by decide
/-- a BTCEC key in another spelling (65 bytes: the uncompressed point) has no handler, although the
    library parses it and the signature would verify -/
example : validateBasicK exPrimsOK 7 [List.replicate 65 4] [⟨⟨.btcec, List.replicate 65 4⟩, 72⟩] = .badKey := by decide
example : validateBasicK exPrims 7 [[9]] [⟨⟨.ed25519, [9]⟩, 0⟩] = .badKey := by decide

/-! ## 4. Admission: CheckTx / DeliverTx run nothing of a transaction whose signatures do not validate -/

section Shell
open OLP.KV OLP.Shell
variable {K V C E T H D : Type} [DecidableEq K] [DecidableEq V] [DecidableEq C] [DecidableEq H]
variable (cfg : Cfg K V) (hs : Handlers K V C E T H D) (e : E)

/-- the content of the extracted table `validateRows` for the registered kinds (discharged by
    `decide` in OLP/Props/C04Facts.lean): `handler.Validate` fails whenever the signature
    predicate `sigOK` of the kind's class does not hold, whatever the state -/
def ValidatesSignatures (sigOK : T → Bool) : Prop :=
  ∀ tx, sigOK tx = false → ∀ s m, ((hs.validate tx).run cfg s m e).1 = none

omit [DecidableEq H] in
/-- a `Validate` of the extracted shape — signature check first, the rest only afterwards -/
theorem guarded_validate_validates (sigOK : T → Bool) (rest : T → Prog K V C E Unit)
    (hshape : ∀ tx, hs.validate tx = if sigOK tx then rest tx else .fail) :
    ValidatesSignatures cfg hs e sigOK := by
  intro tx hbad s m
  rw [hshape tx, hbad]
  rfl

/-- CheckTx admits a transaction only if its signatures validate -/
theorem checkTx_admits_only_validated (sigOK : T → Bool) (hv : ValidatesSignatures cfg hs e sigOK)
    (n : Node K V C T H D) (tx : T) (h : (checkTx cfg hs e n tx).2 = true) : sigOK tx = true := by
  cases hok : sigOK tx with
  | true => rfl
  | false =>
    exfalso
    unfold checkTx at h
    cases hidx : lookupIdx n.idx (hs.hash tx) with
    | some r => rw [hidx] at h; cases h
    | none =>
      rw [hidx] at h
      simp only at h
      rw [hv tx hok] at h
      cases h

/-- DeliverTx executes (returns success for a transaction that is not an indexed replay) only
    if its signatures validate -/
theorem deliverTx_executes_only_validated (sigOK : T → Bool) (hv : ValidatesSignatures cfg hs e sigOK)
    (n : Node K V C T H D) (tx : T) (hmiss : lookupIdx n.idx (hs.hash tx) = none)
    (h : (deliverTx cfg hs e n tx).2.ok = true) : sigOK tx = true := by
  cases hok : sigOK tx with
  | true => rfl
  | false =>
    exfalso
    unfold deliverTx at h
    rw [hmiss] at h
    simp only at h
    rw [hv tx hok] at h
    cases h

/-- …and a transaction whose signatures do not validate is without effect when delivered
    directly in a block: tree, block cache, check state, index and height are unchanged, no
    session stays open; the response is a failure unless it is the cached response of an
    already indexed transaction (in which case nothing ran at all) -/
theorem invalid_signature_delivery_without_effect (sigOK : T → Bool)
    (hv : ValidatesSignatures cfg hs e sigOK) (n : Node K V C T H D) (tx : T)
    (hbad : sigOK tx = false) :
    let r := deliverTx cfg hs e n tx
    r.1.tree = n.tree ∧ r.1.dlv.cache = n.dlv.cache ∧ r.1.chk = n.chk ∧ r.1.idx = n.idx ∧
    r.1.height = n.height ∧
    (lookupIdx n.idx (hs.hash tx) = none → r.2.ok = false ∧ r.1.dlv.sess = none) ∧
    (∀ c, lookupIdx n.idx (hs.hash tx) = some c → r = (n, c)) := by
  intro r
  cases hidx : lookupIdx n.idx (hs.hash tx) with
  | some c =>
    have hr : r = (n, c) := deliverTx_hit cfg hs e n tx c hidx
    rw [hr]
    exact ⟨rfl, rfl, rfl, rfl, rfl, (fun h => by cases h), (fun c' h => by cases h; rfl)⟩
  | none =>
    have hfail : r.2.ok = false := by
      cases hk : r.2.ok with
      | false => rfl
      | true =>
        have := deliverTx_executes_only_validated cfg hs e sigOK hv n tx hidx hk
        rw [hbad] at this; cases this
    have hr : r = deliverCore cfg hs e n tx := deliverTx_miss cfg hs e n tx hidx
    obtain ⟨f1, f2, f3, f4, _, f6, _, _, f9⟩ := deliverCore_frame cfg hs e n tx
    rw [hr] at hfail ⊢
    exact ⟨f1, f9 hfail, f2, f3, f4, (fun _ => ⟨hfail, f6⟩), (fun c h => by cases h)⟩

end Shell

/-! ### what an admitted transaction of a `basic` kind carries -/

section Admit
variable {PK S A M : Type} [DecidableEq A]
variable (verify : PK → M → S → Bool) (addrOf : PK → Option A) (enc : RawTx → M)
variable (signersOf : RawTx → Option (List A)) (olvm : SignedTx PK S → Bool)

/-- for a kind whose `Validate` is of class `basic` (every registered native kind, see
    C04Facts): the signature predicate holds iff the payload parses and every address returned by
    `Signers()` has, at its position, a signature by a key with that address verifying over
    `RawBytes()` of exactly this type, payload, fee and memo -/
theorem sigAdmit_basic_iff (tx : SignedTx PK S) :
    sigAdmit .basic verify addrOf enc signersOf olvm tx = true ↔
      ∃ signers, signersOf tx.raw = some signers ∧ tx.sigs.length = signers.length ∧
        ∀ i (hi : i < signers.length) (hj : i < tx.sigs.length),
          addrOf tx.sigs[i].signer = some signers[i] ∧
          verify tx.sigs[i].signer (enc tx.raw) tx.sigs[i].signed = true := by
  unfold sigAdmit
  cases h : signersOf tx.raw with
  | none => simp
  | some sg =>
    simp only [decide_eq_true_eq, Option.some.injEq, exists_eq_left']
    exact validateBasic_iff verify addrOf (enc tx.raw) sg tx.sigs

theorem sigAdmit_rejectAll (tx : SignedTx PK S) :
    sigAdmit .rejectAll verify addrOf enc signersOf olvm tx = false := rfl

end Admit

/-! ## 5. OLVM transactions: EIP-155 sender recovery and a canonical envelope

  The Ethereum signature covers (nonce, to, value, data, chain id) of the payload and (gas, price)
  of the fee — the view `eth`.  Everything else of the envelope is pinned by equality checks:
  `from` = recovered sender, payload chain id = the one encoded in the signature, payload `type`
  = 0 and `accessList` = nil, memo = the canonical decimal nonce, the public key of the signature
  entry has the address `from` (fixes /repo d9b5b70, e1e2119; before them the access list, the
  type field, leading zeros of the memo and the public key could be altered after signing, and
  a signature of the wrong length or a missing chain id made the handler panic and the node
  close itself — scenarios corpus/C04/kf2_*.ops, kf3_*.ops, now refused).
  Full strength: `olvm_accepted_iff`, `olvm_envelope_determined`, `olvm_covered`,
  `olvm_never_panics`.  WHAT REMAINS outside these statements, exactly:
  (a) cryptography — `lib.sender` is a parameter (signature malleability is go-ethereum's
      business: `Sender` enforces low-s);
  (b) the public key is pinned through its address only (`olvm_signer_key_through_address`);
  Former remainder (c) — the verdict was a function of the DECODED payload only, so the payload
  JSON could be re-spelled after signing — is closed by fix /repo f332fc0 (only the encoding
  `Marshal` produces is accepted): `olvm_payload_bytes_determined`. -/

section Olvm
variable {A E S PK : Type} [DecidableEq A]
variable (lib : EthLib A E S) (addrOf : PK → Option A)

/-- the memo rule is exactly "memo = canonical decimal spelling of the nonce" -/
theorem olvm_memo_canonical (memo : List Char) (n : Nat) (h : memoIsNonce memo n = true) :
    memo = natDigits n := by
  simp only [memoIsNonce, Bool.and_eq_true, decide_eq_true_eq] at h
  exact h.2

theorem olvm_canonical_memo_accepted (n : Nat) (h : n < 2 ^ 64) : memoIsNonce (natDigits n) n = true := by
  have hne : (natDigits n).isEmpty = false := by
    cases hh : natDigits n with
    | nil => exact absurd hh (natDigits_ne_nil n)
    | cons _ _ => rfl
  have hall : (natDigits n).all isDig = true := List.all_eq_true.mpr (natDigits_all_dig n)
  simp [memoIsNonce, hne, hall, digitsVal_natDigits, h]

/-- the memo pins the nonce, and the nonce pins the memo -/
theorem olvm_memo_pins_nonce (memo : List Char) (n m : Nat)
    (hn : memoIsNonce memo n = true) (hm : memoIsNonce memo m = true) : n = m := by
  have a := olvm_memo_canonical memo n hn
  have b := olvm_memo_canonical memo m hm
  rw [← digitsVal_natDigits n, ← a, b, digitsVal_natDigits]

theorem olvm_memo_unique (memo memo' : List Char) (n : Nat)
    (h : memoIsNonce memo n = true) (h' : memoIsNonce memo' n = true) : memo' = memo := by
  rw [olvm_memo_canonical memo n h, olvm_memo_canonical memo' n h']

/-- accepted iff: exactly one signature, of 65 bytes, whose recovery byte encodes the payload's
    chain id, from which the payload's `from` is recovered over the Ethereum view; the named
    public key has the address `from`; payload `type` = 0, no access list; memo = decimal nonce -/
theorem olvm_accepted_iff (v : OlvmView A E) (memo : List Char) (sigs : List (Sig PK S)) :
    olvmSig lib addrOf v memo sigs = .ok ↔
      ∃ g, sigs = [g] ∧ lib.sigLen g.signed = 65 ∧ v.chainID = some (lib.chainOf g.signed) ∧
        lib.sender v.eth g.signed = some v.sender ∧ addrOf g.signer = some v.sender ∧
        v.extra = ⟨0, false⟩ ∧ memoIsNonce memo v.nonce = true := by
  have hex : ∀ x : OlvmExtra, (x.txType = 0 ∧ x.hasAccessList = false) ↔ x = ⟨0, false⟩ := by
    intro x; cases x; simp
  constructor
  · intro h
    unfold olvmSig at h
    match sigs, h with
    | [g], h =>
      refine ⟨g, rfl, ?_⟩
      simp only at h
      cases hc : v.chainID with
      | none => rw [hc] at h; cases h
      | some c =>
        rw [hc] at h
        simp only at h
        by_cases hl : lib.sigLen g.signed = 65
        · rw [if_neg (fun hn => hn hl)] at h
          by_cases hk : lib.chainOf g.signed = c
          · rw [if_neg (fun hn => hn hk)] at h
            cases hs : lib.sender v.eth g.signed with
            | none => rw [hs] at h; cases h
            | some a =>
              rw [hs] at h
              simp only at h
              split at h
              · next hh =>
                obtain ⟨h1, h2, h3, h4, h5⟩ := hh
                exact ⟨hl, by rw [hk], by rw [h1], h2, (hex _).mp ⟨h3, h4⟩, h5⟩
              · cases h
          · rw [if_pos hk] at h; cases h
        · rw [if_pos hl] at h; cases h
  · rintro ⟨g, rfl, hl, hc, hs, ha, he, hm⟩
    have he' := (hex _).mpr he
    simp [olvmSig, hc, hl, hs, ha, he'.1, he'.2, hm]

/-- (kept name) the → direction on its own -/
theorem olvm_sender_recovered (v : OlvmView A E) (memo : List Char) (sigs : List (Sig PK S))
    (h : olvmSig lib addrOf v memo sigs = .ok) :
    ∃ g, sigs = [g] ∧ lib.sigLen g.signed = 65 ∧ v.chainID = some (lib.chainOf g.signed) ∧
      lib.sender v.eth g.signed = some v.sender ∧ memoIsNonce memo v.nonce = true := by
  obtain ⟨g, a, b, c, d, _, _, f⟩ := (olvm_accepted_iff lib addrOf v memo sigs).mp h
  exact ⟨g, a, b, c, d, f⟩

/-- FULL STATEMENT for everything outside the Ethereum view: the signature bytes, the Ethereum
    view and the nonce determine the whole accepted envelope — sender, chain id, type and access
    list, memo, and the address of the named public key.  (So after signing nothing of it can be
    changed; formerly false: `olvm_uncovered_fields_unsigned`, `olvm_memo_not_unique`,
    `olvm_signer_pubkey_unread`.) -/
theorem olvm_envelope_determined (v v' : OlvmView A E) (memo memo' : List Char) (g g' : Sig PK S)
    (h : olvmSig lib addrOf v memo [g] = .ok) (h' : olvmSig lib addrOf v' memo' [g'] = .ok)
    (hsig : g'.signed = g.signed) (heth : v'.eth = v.eth) (hn : v'.nonce = v.nonce) :
    v' = v ∧ memo' = memo ∧ addrOf g'.signer = addrOf g.signer := by
  obtain ⟨x, hx, _, c1, s1, a1, e1, m1⟩ := (olvm_accepted_iff lib addrOf v memo [g]).mp h
  obtain ⟨y, hy, _, c2, s2, a2, e2, m2⟩ := (olvm_accepted_iff lib addrOf v' memo' [g']).mp h'
  cases hx; cases hy
  rw [hsig] at c2 s2
  rw [heth] at s2
  have hsender : v'.sender = v.sender := by
    rw [s1] at s2; exact (Option.some.inj s2).symm
  refine ⟨?_, ?_, ?_⟩
  · cases v; cases v'
    simp only at hn heth hsender c1 c2 e1 e2
    simp [hn, heth, hsender, c1, c2, e1, e2]
  · rw [hn] at m2
    exact olvm_memo_unique memo memo' v.nonce m1 m2
  · rw [a1, a2, hsender]

/-- FULL STATEMENT for the Ethereum view (nonce, to, value, data, gas, price): a changed view is
    accepted only with a signature from which the sender is recovered over the CHANGED view
    (formerly `olvm_covered_partial`, partial only because the statement above was false) -/
theorem olvm_covered (v : OlvmView A E) (eth' : E) (memo : List Char) (g : Sig PK S)
    (h : olvmSig lib addrOf { v with eth := eth' } memo [g] = .ok) :
    lib.sender eth' g.signed = some v.sender := by
  obtain ⟨g', hg, _, _, hr, _⟩ := olvm_sender_recovered lib addrOf { v with eth := eth' } memo [g] h
  cases hg
  exact hr

/-- FULL STATEMENT (formerly `olvm_never_panics_partial` under "65 bytes and chain id present"):
    no input makes the handler panic -/
theorem olvm_never_panics (v : OlvmView A E) (memo : List Char) (sigs : List (Sig PK S)) :
    olvmSig lib addrOf v memo sigs ≠ .panic := by
  unfold olvmSig
  match sigs with
  | [] => simp
  | [g] =>
    simp only
    cases v.chainID with
    | none => simp
    | some c =>
      simp only
      split
      · simp
      · split
        · simp
        · split
          · simp
          · split <;> simp
  | _ :: _ :: _ => simp

/-- regressions of the repaired defects, in general form -/
theorem olvm_malformed_signature_rejected (v : OlvmView A E) (memo : List Char) (g : Sig PK S)
    (h : lib.sigLen g.signed ≠ 65) : olvmSig lib addrOf v memo [g] = .reject := by
  unfold olvmSig
  cases v.chainID <;> simp [h]

theorem olvm_missing_chainid_rejected (v : OlvmView A E) (memo : List Char) (sigs : List (Sig PK S))
    (hc : v.chainID = none) : olvmSig lib addrOf v memo sigs = .reject := by
  unfold olvmSig
  match sigs with
  | [] => rfl
  | [g] => simp [hc]
  | _ :: _ :: _ => rfl

theorem olvm_foreign_envelope_rejected (v : OlvmView A E) (memo : List Char) (sigs : List (Sig PK S))
    (h : v.extra ≠ ⟨0, false⟩) : olvmSig lib addrOf v memo sigs ≠ .ok := by
  intro hok
  obtain ⟨_, _, _, _, _, _, e, _⟩ := (olvm_accepted_iff lib addrOf v memo sigs).mp hok
  exact h e

theorem olvm_foreign_signer_key_rejected (v : OlvmView A E) (memo : List Char) (g : Sig PK S)
    (h : addrOf g.signer ≠ some v.sender) : olvmSig lib addrOf v memo [g] ≠ .ok := by
  intro hok
  obtain ⟨g', hg, _, _, _, a, _, _⟩ := (olvm_accepted_iff lib addrOf v memo [g]).mp hok
  cases hg
  exact h a

/-- remainder (b): the named public key enters through its address only -/
theorem olvm_signer_key_through_address {PK' : Type} (addrOf' : PK' → Option A) (v : OlvmView A E)
    (memo : List Char) (g : Sig PK S) (pk' : PK') (h : addrOf' pk' = addrOf g.signer) :
    olvmSig lib addrOf' v memo [(⟨pk', g.signed⟩ : Sig PK' S)] = olvmSig lib addrOf v memo [g] := by
  simp only [olvmSig, h]

/-- from the payload bytes: accepted iff they decode, are the canonical encoding of what they
    decode to, and the decoded envelope is accepted -/
theorem olvmValidate_ok_iff {B : Type} [DecidableEq B] (decode : B → Option (OlvmView A E))
    (encode : OlvmView A E → B) (d : B) (memo : List Char) (sigs : List (Sig PK S)) :
    olvmValidate lib addrOf decode encode d memo sigs = .ok ↔
      ∃ v, decode d = some v ∧ encode v = d ∧ olvmSig lib addrOf v memo sigs = .ok := by
  unfold olvmValidate
  cases h : decode d with
  | none => simp
  | some v =>
    by_cases he : encode v = d
    · simp [he]
    · simp [he]

/-- FULL STATEMENT for the payload bytes (formerly false: `decode` = json.Unmarshal tolerates
    spacing, key order and unknown keys): two accepted payloads that decode to the same value are
    the same bytes, so together with `olvm_envelope_determined` the signature bytes, the Ethereum
    view and the nonce determine the accepted payload byte for byte -/
theorem olvm_payload_bytes_determined {B : Type} [DecidableEq B] (decode : B → Option (OlvmView A E))
    (encode : OlvmView A E → B) (d d' : B) (memo memo' : List Char) (sigs sigs' : List (Sig PK S))
    (h : olvmValidate lib addrOf decode encode d memo sigs = .ok)
    (h' : olvmValidate lib addrOf decode encode d' memo' sigs' = .ok)
    (hv : decode d' = decode d) : d' = d := by
  obtain ⟨v, hd, he, _⟩ := (olvmValidate_ok_iff lib addrOf decode encode d memo sigs).mp h
  obtain ⟨v', hd', he', _⟩ := (olvmValidate_ok_iff lib addrOf decode encode d' memo' sigs').mp h'
  rw [hv, hd] at hd'
  cases hd'
  rw [← he, ← he']

theorem olvmValidate_never_panics {B : Type} [DecidableEq B] (decode : B → Option (OlvmView A E))
    (encode : OlvmView A E → B) (d : B) (memo : List Char) (sigs : List (Sig PK S)) :
    olvmValidate lib addrOf decode encode d memo sigs ≠ .panic := by
  unfold olvmValidate
  cases decode d with
  | none => simp
  | some v =>
    simp only
    split
    · simp
    · exact olvm_never_panics lib addrOf v memo sigs

end Olvm

/-- toy library: the "signature" is (length, chain id, sender, eth view it was made over);
    a public key is its own address -/
def exLib : EthLib Nat Nat (Nat × Int × Nat × Nat) :=
  { sigLen := fun s => s.1, chainOf := fun s => s.2.1,
    sender := fun eth s => if s.2.2.2 = eth then some s.2.2.1 else none }
def exKeyAddr : Nat → Option Nat := fun pk => if pk = 0 then none else some pk
def exView : OlvmView Nat Nat := { nonce := 12, sender := 7, chainID := some 1, eth := 99, extra := ⟨0, false⟩ }
def exSig : Sig Nat (Nat × Int × Nat × Nat) := ⟨7, (65, 1, 7, 99)⟩
/-- the memo of nonce 12 -/
abbrev memo12 : List Char := natDigits 12

example : olvmSig exLib exKeyAddr exView memo12 [exSig] = .ok :=
  (olvm_accepted_iff exLib exKeyAddr exView memo12 [exSig]).mpr
    ⟨exSig, rfl, rfl, rfl, rfl, rfl, rfl, olvm_canonical_memo_accepted 12 (by decide)⟩
-- regressions of the former counterexamples: every one is refused now
example : olvmSig exLib exKeyAddr { exView with extra := ⟨0, true⟩ } memo12 [exSig] ≠ .ok :=
  olvm_foreign_envelope_rejected _ _ _ _ _ (by decide)
example : olvmSig exLib exKeyAddr { exView with extra := ⟨2, false⟩ } memo12 [exSig] ≠ .ok :=
  olvm_foreign_envelope_rejected _ _ _ _ _ (by decide)
example : olvmSig exLib exKeyAddr exView memo12 [(⟨8, exSig.signed⟩ : Sig Nat _)] ≠ .ok :=
  olvm_foreign_signer_key_rejected _ _ _ _ _ (by decide)
example : memoIsNonce "012".toList 12 = false := by
  cases h : memoIsNonce "012".toList 12 with
  | false => rfl
  | true =>
    have := olvm_memo_canonical _ _ h
    have e : natDigits 12 = "12".toList := by simp [natDigits, digitChar]
    rw [e] at this
    revert this; decide
example : olvmSig exLib exKeyAddr exView memo12 [(⟨7, (64, 1, 7, 99)⟩ : Sig Nat (Nat × Int × Nat × Nat))] = .reject :=
  olvm_malformed_signature_rejected _ _ _ _ _ (by decide)
example : olvmSig exLib exKeyAddr { exView with chainID := none } memo12 [exSig] = .reject :=
  olvm_missing_chainid_rejected _ _ _ _ _ rfl
example : olvmSig exLib exKeyAddr { exView with eth := 98 } memo12 [exSig] = .reject := by decide
example : olvmSig exLib exKeyAddr { exView with sender := 8 } memo12 [exSig] = .reject := by decide
example : olvmSig exLib exKeyAddr { exView with chainID := some 2 } memo12 [exSig] = .reject := by decide
example : olvmSig exLib exKeyAddr exView memo12 [exSig, exSig] = .reject := by decide
-- payload bytes as numbers: 5 is the canonical encoding of `exView`, 6 another spelling of it
example : olvmValidate exLib exKeyAddr (fun d => if d = 5 ∨ d = 6 then some exView else none) (fun _ => 5)
    6 memo12 [exSig] = .reject := by decide
example : olvmValidate exLib exKeyAddr (fun d => if d = 5 ∨ d = 6 then some exView else none) (fun _ => 5)
    5 memo12 [exSig] = .ok :=
  (olvmValidate_ok_iff _ _ _ _ _ _ _).mpr ⟨exView, by simp, rfl,
    (olvm_accepted_iff exLib exKeyAddr exView memo12 [exSig]).mpr
      ⟨exSig, rfl, rfl, rfl, rfl, rfl, rfl, olvm_canonical_memo_accepted 12 (by decide)⟩⟩

end OLP.Props.C04

/-
  C04 — Only authentically signed, untampered transactions are admitted or executed.

  Property theorems only (helper lemmas: OLP/Sig/Lemmas.lean, OLP/Shell/LemmasA.lean).
  Statements are about the executable models `OLP.Sig` (OLP/Sig/Model.lean: `action.ValidateBasic`,
  the key handlers of data/keys, `RawTx.RawBytes()`, the OLVM `validateSigner`) and `OLP.Shell`
  (`txChecker` / `txDeliverer`), which the `sigm` and `shell` engines compare with the real code and
  the `sig` engine monitors on the whole application.

  Cryptography is a parameter: `verify`, `addrOf`, `Prims`, `recover` are arbitrary functions.
  Nothing here assumes unforgeability; `tamper_rejected` states it as an explicit hypothesis.
-/
import OLP.Sig.Lemmas
import OLP.Shell.LemmasA

namespace OLP.Props.C04
open OLP OLP.Sig

/-! ## 1. `ValidateBasic`: accepted iff one matching, verifying signature per required signer, in order -/

section VB
variable {PK S A M : Type} [DecidableEq A]
variable (verify : PK → M → S → Bool) (addrOf : PK → Option A) (data : M)

/-- `ValidateBasic(data, signers, sigs) == nil` iff there are exactly as many signatures as
    required signers and, position by position, the signature's public key has the required
    signer's address and the signature verifies under that key over `data` -/
theorem validateBasic_iff (signers : List A) (sigs : List (Sig PK S)) :
    validateBasic verify addrOf data signers sigs = .ok ↔
      sigs.length = signers.length ∧
      ∀ i (hi : i < signers.length) (hj : i < sigs.length),
        addrOf sigs[i].signer = some signers[i] ∧ verify sigs[i].signer data sigs[i].signed = true := by
  unfold validateBasic
  by_cases h : sigs.length = signers.length
  · rw [if_neg (fun hn => hn h)]
    constructor
    · intro hk
      exact ⟨h, (vbLoop_ok_iff verify addrOf data signers sigs h).mp hk⟩
    · rintro ⟨_, hk⟩
      exact (vbLoop_ok_iff verify addrOf data signers sigs h).mpr hk
  · simp [h]

/-- the index panic of the loop is unreachable behind the length check -/
theorem validateBasic_never_panics (signers : List A) (sigs : List (Sig PK S)) :
    validateBasic verify addrOf data signers sigs ≠ .panic := by
  unfold validateBasic
  by_cases h : sigs.length = signers.length
  · simpa [h] using vbLoop_ne_panic verify addrOf data signers sigs h
  · simp [h]

/-- dropping a required signature (or adding one) is rejected, whatever the signatures are -/
theorem signature_count_mismatch_rejected (signers : List A) (sigs : List (Sig PK S))
    (h : sigs.length ≠ signers.length) :
    validateBasic verify addrOf data signers sigs = .unmatch := by
  simp [validateBasic, h]

/-- substituting a signer: a signature whose key does not have the address required at its
    position is rejected (this includes an unusable key, `addrOf = none`) -/
theorem substituted_signer_rejected (signers : List A) (sigs : List (Sig PK S))
    (i : Nat) (hi : i < signers.length) (hj : i < sigs.length)
    (h : addrOf sigs[i].signer ≠ some signers[i]) :
    validateBasic verify addrOf data signers sigs ≠ .ok := by
  intro hok
  exact h (((validateBasic_iff verify addrOf data signers sigs).mp hok).2 i hi hj).1

/-- signing with another key / over other bytes / altering the signature bytes: a signature that
    does not verify under the key it names is rejected -/
theorem unverified_signature_rejected (signers : List A) (sigs : List (Sig PK S))
    (i : Nat) (hj : i < sigs.length) (h : verify sigs[i].signer data sigs[i].signed = false) :
    validateBasic verify addrOf data signers sigs ≠ .ok := by
  intro hok
  have hh := (validateBasic_iff verify addrOf data signers sigs).mp hok
  have := (hh.2 i (hh.1 ▸ hj) hj).2
  rw [h] at this; cases this

/-- the accepted signatures determine the required signers: the same signatures cannot be
    accepted for two different signer lists (so changing the required signers — dropping,
    adding, reordering, substituting — without new signatures is rejected) -/
theorem accepted_signatures_fix_signers (signers signers' : List A) (sigs : List (Sig PK S))
    (h : validateBasic verify addrOf data signers sigs = .ok)
    (h' : validateBasic verify addrOf data signers' sigs = .ok) : signers' = signers := by
  have a := (validateBasic_iff verify addrOf data signers sigs).mp h
  have b := (validateBasic_iff verify addrOf data signers' sigs).mp h'
  apply List.ext_getElem (by omega)
  intro i h1 h2
  have x := (a.2 i h2 (by omega)).1
  have y := (b.2 i h1 (by omega)).1
  rw [x] at y
  exact (Option.some.inj y).symm

/-- reordering: if the accepted signatures are permuted so that position `i` now carries the
    signature that was accepted at position `j`, and the two positions require different
    signers, the result is rejected -/
theorem reordered_signatures_rejected (signers : List A) (sigs sigs' : List (Sig PK S))
    (h : validateBasic verify addrOf data signers sigs = .ok)
    (i j : Nat) (hi : i < signers.length) (hj : j < signers.length)
    (hi' : i < sigs'.length) (hj' : j < sigs.length)
    (hmoved : sigs'[i] = sigs[j]) (hdiff : signers[i] ≠ signers[j]) :
    validateBasic verify addrOf data signers sigs' ≠ .ok := by
  intro h'
  have a := ((validateBasic_iff verify addrOf data signers sigs).mp h).2 j hj hj'
  have b := ((validateBasic_iff verify addrOf data signers sigs').mp h').2 i hi hi'
  rw [hmoved, a.1] at b
  exact hdiff (Option.some.inj b.1).symm

end VB

/-! ### non-vacuity: a two-signer transaction (keys 1, 2 with addresses 10, 20; "signature" = data) -/

def exVerify : Nat → Nat → Nat → Bool := fun pk d s => s == pk + d
def exAddr : Nat → Option Nat := fun pk => if pk = 0 then none else some (pk * 10)

example : validateBasic exVerify exAddr 5 [10, 20] [⟨1, 6⟩, ⟨2, 7⟩] = .ok := by decide
example : validateBasic exVerify exAddr 5 [10, 20] [⟨2, 7⟩, ⟨1, 6⟩] = .unmatch := by decide   -- reordered
example : validateBasic exVerify exAddr 5 [10, 20] [⟨1, 6⟩] = .unmatch := by decide             -- dropped
example : validateBasic exVerify exAddr 5 [10, 20] [⟨1, 6⟩, ⟨3, 8⟩] = .unmatch := by decide   -- substituted
example : validateBasic exVerify exAddr 6 [10, 20] [⟨1, 6⟩, ⟨2, 7⟩] = .badSig := by decide    -- other bytes
example : validateBasic exVerify exAddr 5 [10, 20] [⟨1, 6⟩, ⟨2, 9⟩] = .badSig := by decide    -- second sig altered
example : validateBasic exVerify exAddr 5 [10, 0] [⟨1, 6⟩, ⟨0, 5⟩] = .badKey := by decide     -- unusable key

/-! ## 2. The signed bytes determine type, payload, fee and memo -/

/-- the serialisation can be decoded: `RawBytes()` loses nothing -/
theorem unser_ser (t : RawTx) : unser (ser t) = some t := OLP.Sig.unser_ser t

/-- `RawTx.RawBytes()` is injective on parsed values (type, payload bytes incl. nil vs empty,
    fee currency / price / gas and memo over all valid Unicode strings, all integers) -/
theorem ser_injective {t₁ t₂ : RawTx} (h : ser t₁ = ser t₂) : t₁ = t₂ := by
  have h1 := unser_ser t₁
  rw [h, unser_ser t₂] at h1
  exact (Option.some.inj h1).symm

/-- the same for the UTF-8 bytes that are actually signed -/
theorem serBytes_injective {t₁ t₂ : RawTx} (h : serBytes t₁ = serBytes t₂) : t₁ = t₂ := by
  unfold serBytes String.toUTF8 at h
  exact ser_injective (String.ofList_injective (String.toByteArray_inj.mp h))

/-- same statement for any `[]byte` text encoding that is decodable and quote-free (what the
    proof uses of base64) -/
theorem serWith_injective {b64 : Bytes → List Char} {unb64 : List Char → Option Bytes}
    (hs : B64Spec b64 unb64) {t₁ t₂ : RawTx} (h : serWith b64 t₁ = serWith b64 t₂) : t₁ = t₂ := by
  have h1 := unserWith_serWith hs t₁
  rw [h, unserWith_serWith hs t₂] at h1
  exact (Option.some.inj h1).symm

/-- any change of type, payload, fee or memo changes the bytes the signatures are checked against -/
theorem mutation_changes_signed_bytes {t t' : RawTx} (h : t' ≠ t) : serBytes t' ≠ serBytes t :=
  fun e => h (serBytes_injective e)

section Tamper
variable {PK S A : Type} [DecidableEq A]
variable (verify : PK → ByteArray → S → Bool) (addrOf : PK → Option A)

/-- a tampered transaction is accepted only with, for every required signer, a signature that
    verifies over the *tampered* bytes, which differ from the bytes originally signed -/
theorem tamper_needs_fresh_signatures (t t' : RawTx) (hne : t' ≠ t)
    (signers : List A) (sigs : List (Sig PK S))
    (h : validateBasic verify addrOf (serBytes t') signers sigs = .ok) :
    serBytes t' ≠ serBytes t ∧ sigs.length = signers.length ∧
    ∀ i (hi : i < signers.length) (hj : i < sigs.length),
      addrOf sigs[i].signer = some signers[i] ∧
      verify sigs[i].signer (serBytes t') sigs[i].signed = true := by
  have a := (validateBasic_iff verify addrOf (serBytes t') signers sigs).mp h
  exact ⟨mutation_changes_signed_bytes hne, a.1, a.2⟩

/-- `signedBy pk m`: the owner of `pk` produced a signature over `m`.  IF every verifying
    signature was produced by the key's owner (unforgeability — a hypothesis, not a claim) and
    the owners of the keys with a required signer's address signed nothing but `t`, THEN no
    `t' ≠ t` is accepted for these signers, with whatever signature bytes -/
theorem tamper_rejected (signedBy : PK → ByteArray → Prop)
    (hunf : ∀ pk m s, verify pk m s = true → signedBy pk m)
    (t t' : RawTx) (hne : t' ≠ t) (signers : List A) (hreq : signers ≠ [])
    (honly : ∀ pk a m, addrOf pk = some a → a ∈ signers → signedBy pk m → m = serBytes t)
    (sigs : List (Sig PK S)) :
    validateBasic verify addrOf (serBytes t') signers sigs ≠ .ok := by
  intro h
  obtain ⟨hb, hl, hall⟩ := tamper_needs_fresh_signatures verify addrOf t t' hne signers sigs h
  cases signers with
  | nil => exact hreq rfl
  | cons s ss =>
    have h0 := hall 0 (by simp) (by rw [hl]; simp)
    have := honly _ _ _ h0.1 (by simp) (hunf _ _ _ h0.2)
    exact hb this

end Tamper

/-! ### non-vacuity: single-field mutants of one transaction all have different signed text -/

def exTx : RawTx :=
  { type := 1, data := some [123, 125], currency := "OLT".toList, value := 10000000000, gas := 400000,
    memo := "m<1>\"\n".toList }

example : ser { exTx with memo := "m<1>\"\nx".toList } ≠ ser exTx := fun e => by
  have := ser_injective e; revert this; decide
example : ser { exTx with gas := 400001 } ≠ ser exTx := fun e => by
  have := ser_injective e; revert this; decide
example : ser { exTx with data := none } ≠ ser { exTx with data := some [] } := fun e => by
  have := ser_injective e; revert this; decide
example : escStr "a<\"\n".toList = "\"a\\u003c\\\"\\n\"".toList := by decide
example : base64 [1, 2, 3, 4, 255] = "AQIDBP8=".toList := by decide

/-! ## 3. The key handlers: what "verifies under that address's key" means in the code

  FULL STATEMENT (false of the code as written, suspect S24):

    theorem authentic (p : Prims M S) data signers sigs :
        validateBasicK p data signers sigs = .ok →
        ∀ i, p.sigVerify sigs[i].signer data sigs[i].signed = true

  i.e. every accepted signature passed a cryptographic verification.  `PublicKeyBTCEC.VerifyBytes`
  returns true and `PublicKeyBTCEC.Address()` returns nil, so for a required signer with the empty
  address any parseable BTCEC key with arbitrary "signature" bytes is accepted
  (`btcec_accepts_unsigned`, concrete witness `btcec_counterexample`; the harness replays it on
  the implementation: an EXPIRE_VOTES with `validatorAddress: ""` is admitted and executed).
  Proved instead: the statement under the hypothesis that no required signer is the empty
  address (`authentic_partial`), and that BTCEC keys are accepted for the empty address only. -/

section Keys
variable {M S : Type}

/-- under "no required signer is the empty address": accepted iff every signature is by a
    non-BTCEC key with the required address and passed the cryptographic verification -/
theorem authentic_partial (p : Prims M S) (data : M) (signers : List Bytes)
    (sigs : List (Sig PubKey S)) (hne : ∀ a ∈ signers, a ≠ []) :
    validateBasicK p data signers sigs = .ok ↔
      sigs.length = signers.length ∧
      ∀ i (hi : i < signers.length) (hj : i < sigs.length),
        sigs[i].signer.alg ≠ .btcec ∧ keyAddr p sigs[i].signer = some signers[i] ∧
        p.sigVerify sigs[i].signer data sigs[i].signed = true := by
  unfold validateBasicK
  rw [validateBasic_iff]
  constructor
  · rintro ⟨hl, hall⟩
    refine ⟨hl, fun i hi hj => ?_⟩
    obtain ⟨ha, hv⟩ := hall i hi hj
    have hb : sigs[i].signer.alg ≠ .btcec := by
      intro hb
      have : keyAddr p sigs[i].signer = some [] ∨ keyAddr p sigs[i].signer = none := by
        unfold keyAddr; rw [hb]; simp only; split <;> simp
      rcases this with h | h
      · rw [h] at ha
        exact hne signers[i] (List.getElem_mem hi) (Option.some.inj ha).symm
      · rw [h] at ha; cases ha
    refine ⟨hb, ha, ?_⟩
    unfold keyVerify at hv
    split at hv
    · next h => exact absurd h hb
    · exact hv
  · rintro ⟨hl, hall⟩
    refine ⟨hl, fun i hi hj => ?_⟩
    obtain ⟨hb, ha, hv⟩ := hall i hi hj
    refine ⟨ha, ?_⟩
    unfold keyVerify
    split
    · rfl
    · exact hv

/-- S24, in general: a required signer with the empty address is satisfied by ANY parseable
    BTCEC public key with ANY signature bytes over ANY data -/
theorem btcec_accepts_unsigned (p : Prims M S) (data : M) (pk : PubKey) (junk : S)
    (halg : pk.alg = .btcec) (hparse : p.parses pk = true) :
    validateBasicK p data [[]] [⟨pk, junk⟩] = .ok := by
  simp [validateBasicK, validateBasic, vbLoop, keyAddr, keyVerify, halg, hparse]

/-- a BTCEC key is never accepted for a non-empty required signer -/
theorem btcec_only_for_empty_signer (p : Prims M S) (data : M) (signers : List Bytes)
    (sigs : List (Sig PubKey S)) (h : validateBasicK p data signers sigs = .ok)
    (i : Nat) (hi : i < signers.length) (hj : i < sigs.length)
    (hb : sigs[i].signer.alg = .btcec) : signers[i] = [] := by
  have ha := (((validateBasic_iff _ _ _ _ _).mp h).2 i hi hj).1
  unfold keyAddr at ha
  rw [hb] at ha
  simp only at ha
  split at ha
  · exact (Option.some.inj ha).symm
  · cases ha

/-- keys of an unknown algorithm, or of the wrong size, are rejected as ErrInvalidPubkey -/
theorem unusable_key_rejected (p : Prims M S) (data : M) (s : Bytes) (ss : List Bytes)
    (g : Sig PubKey S) (gs : List (Sig PubKey S)) (hl : gs.length = ss.length)
    (h : keyAddr p g.signer = none) :
    validateBasicK p data (s :: ss) (g :: gs) = .badKey := by
  simp [validateBasicK, validateBasic, vbLoop, hl, h]

end Keys

/-- primitives that accept nothing: every real verification fails, parsing succeeds -/
def exPrims : Prims Nat Nat :=
  { parses := fun _ => true, hashAddr := fun pk => pk.data, sigVerify := fun _ _ _ => false }

/-- the proved counterexample to the full statement (replayed on the implementation by the
    `sig` engine, mutant class `btcec-empty-signer`) -/
theorem btcec_counterexample :
    validateBasicK exPrims 7 [[]] [⟨⟨.btcec, [2, 1]⟩, 0⟩] = .ok ∧
    exPrims.sigVerify ⟨.btcec, [2, 1]⟩ 7 0 = false := by decide

example : validateBasicK exPrims 7 [[9]] [⟨⟨.btcec, [2, 1]⟩, 0⟩] = .unmatch := by decide
example : validateBasicK exPrims 7 [[9]] [⟨⟨.ed25519, [9]⟩, 0⟩] = .badKey := by decide

/-! ## 4. Admission: CheckTx / DeliverTx run nothing of a transaction whose signatures do not validate -/

section Shell
open OLP.KV OLP.Shell
variable {K V C E T H D : Type} [DecidableEq K] [DecidableEq V] [DecidableEq C] [DecidableEq H]
variable (cfg : Cfg K V) (hs : Handlers K V C E T H D) (e : E)

/-- the content of the extracted table `validateRows` for the registered kinds (discharged by
    `decide` in OLP/Props/C04Facts.lean): `handler.Validate` fails whenever the signature
    predicate `sigOK` of the kind's class does not hold, whatever the state -/
def ValidatesSignatures (sigOK : T → Bool) : Prop :=
  ∀ tx, sigOK tx = false → ∀ s m, ((hs.validate tx).run cfg s m e).1 = none

omit [DecidableEq H] in
/-- a `Validate` of the extracted shape — signature check first, the rest only afterwards -/
theorem guarded_validate_validates (sigOK : T → Bool) (rest : T → Prog K V C E Unit)
    (hshape : ∀ tx, hs.validate tx = if sigOK tx then rest tx else .fail) :
    ValidatesSignatures cfg hs e sigOK := by
  intro tx hbad s m
  rw [hshape tx, hbad]
  rfl

/-- CheckTx admits a transaction only if its signatures validate -/
theorem checkTx_admits_only_validated (sigOK : T → Bool) (hv : ValidatesSignatures cfg hs e sigOK)
    (n : Node K V C T H D) (tx : T) (h : (checkTx cfg hs e n tx).2 = true) : sigOK tx = true := by
  cases hok : sigOK tx with
  | true => rfl
  | false =>
    exfalso
    unfold checkTx at h
    cases hidx : lookupIdx n.idx (hs.hash tx) with
    | some r => rw [hidx] at h; cases h
    | none =>
      rw [hidx] at h
      simp only at h
      rw [hv tx hok] at h
      cases h

/-- DeliverTx executes (returns success for a transaction that is not an indexed replay) only
    if its signatures validate -/
theorem deliverTx_executes_only_validated (sigOK : T → Bool) (hv : ValidatesSignatures cfg hs e sigOK)
    (n : Node K V C T H D) (tx : T) (hmiss : lookupIdx n.idx (hs.hash tx) = none)
    (h : (deliverTx cfg hs e n tx).2.ok = true) : sigOK tx = true := by
  cases hok : sigOK tx with
  | true => rfl
  | false =>
    exfalso
    unfold deliverTx at h
    rw [hmiss] at h
    simp only at h
    rw [hv tx hok] at h
    cases h

/-- …and a transaction whose signatures do not validate is without effect when delivered
    directly in a block: tree, block cache, check state, index and height are unchanged, no
    session stays open; the response is a failure unless it is the cached response of an
    already indexed transaction (in which case nothing ran at all) -/
theorem invalid_signature_delivery_without_effect (sigOK : T → Bool)
    (hv : ValidatesSignatures cfg hs e sigOK) (n : Node K V C T H D) (tx : T)
    (hbad : sigOK tx = false) :
    let r := deliverTx cfg hs e n tx
    r.1.tree = n.tree ∧ r.1.dlv.cache = n.dlv.cache ∧ r.1.chk = n.chk ∧ r.1.idx = n.idx ∧
    r.1.height = n.height ∧
    (lookupIdx n.idx (hs.hash tx) = none → r.2.ok = false ∧ r.1.dlv.sess = none) ∧
    (∀ c, lookupIdx n.idx (hs.hash tx) = some c → r = (n, c)) := by
  intro r
  cases hidx : lookupIdx n.idx (hs.hash tx) with
  | some c =>
    have hr : r = (n, c) := deliverTx_hit cfg hs e n tx c hidx
    rw [hr]
    exact ⟨rfl, rfl, rfl, rfl, rfl, (fun h => by cases h), (fun c' h => by cases h; rfl)⟩
  | none =>
    have hfail : r.2.ok = false := by
      cases hk : r.2.ok with
      | false => rfl
      | true =>
        have := deliverTx_executes_only_validated cfg hs e sigOK hv n tx hidx hk
        rw [hbad] at this; cases this
    have hr : r = deliverCore cfg hs e n tx := deliverTx_miss cfg hs e n tx hidx
    obtain ⟨f1, f2, f3, f4, _, f6, _, _, f9⟩ := deliverCore_frame cfg hs e n tx
    rw [hr] at hfail ⊢
    exact ⟨f1, f9 hfail, f2, f3, f4, (fun _ => ⟨hfail, f6⟩), (fun c h => by cases h)⟩

end Shell

/-! ### what an admitted transaction of a `basic` kind carries -/

section Admit
variable {PK S A M : Type} [DecidableEq A]
variable (verify : PK → M → S → Bool) (addrOf : PK → Option A) (enc : RawTx → M)
variable (signersOf : RawTx → Option (List A)) (olvm : SignedTx PK S → Bool)

/-- for a kind whose `Validate` is of class `basic` (every registered native kind, see
    C04Facts): the signature predicate holds iff the payload parses and every address returned by
    `Signers()` has, at its position, a signature by a key with that address verifying over
    `RawBytes()` of exactly this type, payload, fee and memo -/
theorem sigAdmit_basic_iff (tx : SignedTx PK S) :
    sigAdmit .basic verify addrOf enc signersOf olvm tx = true ↔
      ∃ signers, signersOf tx.raw = some signers ∧ tx.sigs.length = signers.length ∧
        ∀ i (hi : i < signers.length) (hj : i < tx.sigs.length),
          addrOf tx.sigs[i].signer = some signers[i] ∧
          verify tx.sigs[i].signer (enc tx.raw) tx.sigs[i].signed = true := by
  unfold sigAdmit
  cases h : signersOf tx.raw with
  | none => simp
  | some sg =>
    simp only [decide_eq_true_eq, Option.some.injEq, exists_eq_left']
    exact validateBasic_iff verify addrOf (enc tx.raw) sg tx.sigs

theorem sigAdmit_rejectAll (tx : SignedTx PK S) :
    sigAdmit .rejectAll verify addrOf enc signersOf olvm tx = false := rfl

end Admit

/-! ## 5. OLVM transactions: EIP-155 sender recovery, memo = nonce

  FULL STATEMENT (false of the code as written): "changing the payload after signing is rejected".
  The Ethereum signature covers (nonce, to, value, data, chain id) of the payload and (gas, price)
  of the fee; `from`, the memo and the fee currency are pinned by equality checks; the payload
  fields `type` and `accessList` are covered by nothing, and `accessList` is handed to the EVM
  (`runOLVM` → `vm.NewEVMTransaction`, where it enters the intrinsic gas).
  The memo is pinned only up to leading zeros (`strconv.ParseUint`), the public key named in the
  signature entry is never read, and a signature of the wrong length (or a payload without chain
  id) is not rejected at all: the handler panics and `handlePanic` closes the application.
  Proved: the verdict depends only on the covered part (`olvm_uncovered_fields_unsigned`,
  `olvm_signer_pubkey_unread`, `olvm_memo_not_unique`, `olvm_malformed_signature_panics`: the
  counterexamples, in general form), on the covered part acceptance needs a signature from
  which the sender is recovered over exactly that part (`olvm_sender_recovered`,
  `olvm_covered_partial`), and well-formed input never panics (`olvm_never_panics_partial`). -/

section Olvm
variable {A E X S PK : Type} [DecidableEq A]
variable (lib : EthLib A E S)

/-- accepted ⇒ exactly one signature, of 65 bytes, whose recovery byte encodes the payload's chain
    id and which recovers (over the Ethereum view of nonce, to, value, data, gas, price) to the
    payload's `from`; and the memo parses to the nonce -/
theorem olvm_sender_recovered (v : OlvmView A E X) (memo : List Char) (sigs : List (Sig PK S))
    (h : olvmSig lib v memo sigs = .ok) :
    ∃ g, sigs = [g] ∧ lib.sigLen g.signed = 65 ∧ v.chainID = some (lib.chainOf g.signed) ∧
      lib.sender v.eth g.signed = some v.sender ∧ memoIsNonce memo v.nonce = true := by
  unfold olvmSig at h
  match sigs, h with
  | [g], h =>
    refine ⟨g, rfl, ?_⟩
    simp only at h
    by_cases hl : lib.sigLen g.signed = 65
    · simp only [hl, ne_eq, not_true_eq_false, if_false] at h
      cases hc : v.chainID with
      | none => rw [hc] at h; cases h
      | some c =>
        rw [hc] at h
        simp only at h
        by_cases hk : lib.chainOf g.signed = c
        · simp only [hk, not_true_eq_false, if_false] at h
          cases hs : lib.sender v.eth g.signed with
          | none => rw [hs] at h; cases h
          | some a =>
            rw [hs] at h
            simp only at h
            by_cases ha : a = v.sender ∧ memoIsNonce memo v.nonce = true
            · exact ⟨hl, by rw [hk], by rw [ha.1], ha.2⟩
            · rw [if_neg ha] at h; cases h
        · rw [if_pos hk] at h; cases h
    · rw [if_pos hl] at h; cases h

/-- the memo pins the nonce: one memo is never accepted for two different nonces, and the
    canonical decimal spelling of the nonce is accepted -/
theorem olvm_memo_pins_nonce (memo : List Char) (n m : Nat)
    (hn : memoIsNonce memo n = true) (hm : memoIsNonce memo m = true) : n = m := by
  simp only [memoIsNonce, Bool.and_eq_true, beq_iff_eq] at hn hm
  omega

theorem olvm_canonical_memo_accepted (n : Nat) (h : n < 2 ^ 64) : memoIsNonce (natDigits n) n = true := by
  have hne : (natDigits n).isEmpty = false := by
    cases hh : natDigits n with
    | nil => exact absurd hh (natDigits_ne_nil n)
    | cons _ _ => rfl
  have hall : (natDigits n).all isDig = true := List.all_eq_true.mpr (natDigits_all_dig n)
  simp [memoIsNonce, hne, hall, digitsVal_natDigits, h]

/-- …but not the other way round: leading zeros give further memos for the same nonce, so the
    memo of a signed OLVM transaction can be respelled without invalidating it (counterexample
    to "memo changed after signing ⇒ rejected"; replayed by the `sigm` engine, class
    `memo-leading-zero`) -/
theorem olvm_memo_not_unique :
    memoIsNonce "12".toList 12 = true ∧ memoIsNonce "012".toList 12 = true ∧
    memoIsNonce "0000000000000000000000012".toList 12 = true ∧
    memoIsNonce "+12".toList 12 = false ∧ memoIsNonce "1_2".toList 12 = false ∧
    memoIsNonce "".toList 0 = false ∧ memoIsNonce "18446744073709551616".toList 18446744073709551616 = false := by
  decide

/-- counterexample, in general form: the payload fields outside the Ethereum view (`type`,
    `accessList`) can be replaced after signing without affecting the verdict -/
theorem olvm_uncovered_fields_unsigned (v : OlvmView A E X) (x' : X) (memo : List Char)
    (sigs : List (Sig PK S)) :
    olvmSig lib { v with extra := x' } memo sigs = olvmSig lib v memo sigs := rfl

/-- …and so can the public key named in the signature entry: only the signature bytes are read -/
theorem olvm_signer_pubkey_unread {PK' : Type} (v : OlvmView A E X) (memo : List Char) (g : Sig PK S) (pk' : PK') :
    olvmSig lib v memo [(⟨pk', g.signed⟩ : Sig PK' S)] = olvmSig lib v memo [g] := rfl

/-- on the covered part: a changed Ethereum view is accepted only with a signature from which
    the sender is recovered over the CHANGED view -/
theorem olvm_covered_partial (v : OlvmView A E X) (eth' : E) (memo : List Char) (g : Sig PK S)
    (h : olvmSig lib { v with eth := eth' } memo [g] = .ok) :
    lib.sender eth' g.signed = some v.sender := by
  obtain ⟨g', hg, _, _, hr, _⟩ := olvm_sender_recovered lib { v with eth := eth' } memo [g] h
  cases hg
  exact hr

/-- counterexamples to "altered signature bytes / payload ⇒ rejected without effect": a single
    signature whose length is not 65 bytes, or a payload without chain id, is not rejected — the
    handler panics, and `handlePanic` closes the application (replayed by the `sigm` engine,
    classes `sig-truncated`, `sig-empty`, `payload-chainid-null`) -/
theorem olvm_malformed_signature_panics (v : OlvmView A E X) (memo : List Char) (g : Sig PK S)
    (h : lib.sigLen g.signed ≠ 65) : olvmSig lib v memo [g] = .panic := by
  simp [olvmSig, h]

theorem olvm_missing_chainid_panics (v : OlvmView A E X) (memo : List Char) (g : Sig PK S)
    (h : lib.sigLen g.signed = 65) (hc : v.chainID = none) : olvmSig lib v memo [g] = .panic := by
  simp [olvmSig, h, hc]

/-- the `_partial` form of rejection: with a 65-byte signature and a chain id present the
    verdict is never a panic, and anything but exactly one signature is rejected -/
theorem olvm_never_panics_partial (v : OlvmView A E X) (memo : List Char) (sigs : List (Sig PK S))
    (hlen : ∀ g ∈ sigs, lib.sigLen g.signed = 65) (hc : v.chainID ≠ none) :
    olvmSig lib v memo sigs ≠ .panic := by
  unfold olvmSig
  match sigs, hlen with
  | [], _ => simp
  | [g], hlen =>
    have hl := hlen g (by simp)
    cases hcc : v.chainID with
    | none => exact absurd hcc hc
    | some c =>
      simp only [hl, ne_eq, not_true_eq_false, if_false]
      split
      · simp
      · split
        · simp
        · split <;> simp
  | _ :: _ :: _, _ => simp

end Olvm

/-- toy library: the "signature" is (length, chain id, sender, eth view it was made over) -/
def exLib : EthLib Nat Nat (Nat × Int × Nat × Nat) :=
  { sigLen := fun s => s.1, chainOf := fun s => s.2.1,
    sender := fun eth s => if s.2.2.2 = eth then some s.2.2.1 else none }
def exView : OlvmView Nat Nat Nat := { nonce := 12, sender := 7, chainID := some 1, eth := 99, extra := 0 }
def exSig : Sig Nat (Nat × Int × Nat × Nat) := ⟨0, (65, 1, 7, 99)⟩

example : olvmSig exLib exView "12".toList [exSig] = .ok := by decide
example : olvmSig exLib { exView with extra := 5 } "012".toList [exSig] = .ok := by decide
example : olvmSig exLib { exView with eth := 98 } "12".toList [exSig] = .reject := by decide
example : olvmSig exLib exView "13".toList [exSig] = .reject := by decide
example : olvmSig exLib { exView with sender := 8 } "12".toList [exSig] = .reject := by decide
example : olvmSig exLib { exView with chainID := some 2 } "12".toList [exSig] = .reject := by decide
example : olvmSig exLib exView "12".toList [exSig, exSig] = .reject := by decide
example : olvmSig exLib exView "12".toList [(⟨0, (64, 1, 7, 99)⟩ : Sig Nat (Nat × Int × Nat × Nat))] = .panic := by decide
example : olvmSig exLib { exView with chainID := none } "12".toList [exSig] = .panic := by decide

end OLP.Props.C04

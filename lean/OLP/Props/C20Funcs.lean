import OLP.Gen.Funcs
import OLP.Ons.Lemmas

/-!
# C20 — what a payment buys, tied to the source by translation (T2b)

`action/ons.blocksFor`, `calculateExpiry`, `calculateRenewal` are translated WHOLE from /repo's
working tree, including the `IsInt64` / `Int64()` guards (as `wrap64`). The model's `blocksFor` is
the translated function; `calculateExpiry` / `calculateRenewal` are `blocksFor` of the price above
the base price / of the price, behind the source's "too less" guards.
-/

namespace OLP.Props.C20

open OLP.Ons
open OLP.Gen

theorem wrap64_of_int64 (x : Int) (h : -9223372036854775808 ≤ x ∧ x ≤ 9223372036854775807) :
    Funcs.wrap64 x = x := by
  unfold Funcs.wrap64; omega

/-- the model's block count is the source's: refused in the same cases, the same quotient otherwise -/
theorem blocksFor_is_source (a pb f : Int) :
    blocksFor a pb f =
      (match Funcs.blocksFor a pb f with
       | (q, false) => some q
       | (_, true) => none) := by
  have hmin : minInt64 = -9223372036854775808 := rfl
  have hmax : maxInt64 = 9223372036854775807 := rfl
  unfold blocksFor Funcs.blocksFor
  by_cases hc : a / pb < minInt64 ∨ maxInt64 < a / pb ∨ f < 0 ∨ maxInt64 - f < a / pb
  · simp only [hc, if_true]
    by_cases h1 : -9223372036854775808 ≤ a / pb ∧ a / pb ≤ 9223372036854775807
    · rw [wrap64_of_int64 _ h1]
      have : f < 0 ∨ a / pb > 9223372036854775807 - f := by omega
      rcases this with h | h <;> simp [h]
    · simp [h1]
  · simp only [hc, if_false]
    have h1 : -9223372036854775808 ≤ a / pb ∧ a / pb ≤ 9223372036854775807 := by omega
    rw [wrap64_of_int64 _ h1]
    have h2 : ¬ f < 0 := by omega
    have h3 : ¬ a / pb > 9223372036854775807 - f := by omega
    simp [h1, h2, h3]

/-- `calculateExpiry`: refused below the base price, otherwise the blocks the remainder buys -/
theorem calculateExpiry_is_blocksFor (price base pb f : Int) :
    Funcs.calculateExpiry price base pb f =
      if price < base then (0, true) else Funcs.blocksFor (price - base) pb f := by
  unfold Funcs.calculateExpiry
  by_cases h : price < base <;> simp [h]

/-- `calculateRenewal`: refused below the price of one block, otherwise the blocks the price buys -/
theorem calculateRenewal_is_blocksFor (price pb f : Int) :
    Funcs.calculateRenewal price pb f =
      if price < pb then (0, true) else Funcs.blocksFor price pb f := by
  unfold Funcs.calculateRenewal
  by_cases h : price < pb <;> simp [h]

/-- an accepted creation price buys exactly ⌊(price − base) / perBlock⌋ blocks, in the source -/
theorem expiry_exact_in_source (price base pb f q : Int)
    (h : Funcs.calculateExpiry price base pb f = (q, false)) :
    base ≤ price ∧ q = (price - base) / pb ∧ 0 ≤ f ∧ f + q ≤ 9223372036854775807 := by
  rw [calculateExpiry_is_blocksFor] at h
  by_cases hp : price < base
  · simp [hp] at h
  · rw [if_neg hp] at h
    have hm := blocksFor_is_source (price - base) pb f
    rw [h] at hm
    simp only at hm
    have hmin : minInt64 = -9223372036854775808 := rfl
    have hmax : maxInt64 = 9223372036854775807 := rfl
    unfold blocksFor at hm
    by_cases hc : (price - base) / pb < minInt64 ∨
        maxInt64 < (price - base) / pb ∨ f < 0 ∨
        maxInt64 - f < (price - base) / pb
    · rw [if_pos hc] at hm; cases hm
    · rw [if_neg hc] at hm
      injection hm with hq
      refine ⟨by omega, hq.symm, by omega, by omega⟩

/-- an accepted renewal price buys exactly ⌊price / perBlock⌋ blocks, in the source -/
theorem renewal_exact_in_source (price pb f q : Int)
    (h : Funcs.calculateRenewal price pb f = (q, false)) :
    pb ≤ price ∧ q = price / pb ∧ 0 ≤ f ∧ f + q ≤ 9223372036854775807 := by
  rw [calculateRenewal_is_blocksFor] at h
  by_cases hp : price < pb
  · simp [hp] at h
  · rw [if_neg hp] at h
    have hm := blocksFor_is_source price pb f
    rw [h] at hm
    simp only at hm
    have hmin : minInt64 = -9223372036854775808 := rfl
    have hmax : maxInt64 = 9223372036854775807 := rfl
    unfold blocksFor at hm
    by_cases hc : price / pb < minInt64 ∨ maxInt64 < price / pb ∨ f < 0 ∨ maxInt64 - f < price / pb
    · rw [if_pos hc] at hm; cases hm
    · rw [if_neg hc] at hm
      injection hm with hq
      refine ⟨by omega, hq.symm, by omega, by omega⟩

/-- more money never buys fewer blocks: the source's block count is monotone in the amount (for a
    positive price per block) -/
theorem blocks_monotone_in_amount (a b pb f q r : Int) (hpb : 0 < pb) (hab : a ≤ b)
    (ha : Funcs.blocksFor a pb f = (q, false)) (hb : Funcs.blocksFor b pb f = (r, false)) : q ≤ r := by
  have h1 := blocksFor_is_source a pb f
  have h2 := blocksFor_is_source b pb f
  rw [ha] at h1; rw [hb] at h2
  simp only at h1 h2
  have e1 := (blocksFor_some h1).1
  have e2 := (blocksFor_some h2).1
  rw [e1, e2]
  exact Int.ediv_le_ediv hpb hab

/-! ### the domain record's own predicates and the expiry a purchase writes -/

theorem changeable_is_source (d : Domain) (h : Int) :
    changeable d h = Funcs.domainIsChangeable d.lastUpdate h := by
  unfold changeable Funcs.domainIsChangeable
  by_cases hc : h ≥ d.lastUpdate + 1
  · simp [hc]
  · simp [hc]

theorem expiredAt_is_source (d : Domain) (h : Int) :
    expiredAt d h = Funcs.domainIsExpired d.expire h := rfl

/-- the integer and boolean fields `ResetAfterSale` writes are the model's: the new expiry is the
    later of the old expiry and the current height, plus the blocks bought -/
theorem resetAfterSale_is_source (d : Domain) (buyer account : Addr) (n cur : Int) (sp : Int) :
    let r := resetAfterSale d buyer account n cur
    Funcs.domainResetAfterSale d.lastUpdate d.expire d.active d.onSale sp n cur =
      (r.active, r.expire, r.lastUpdate, r.onSale) := by
  unfold resetAfterSale Funcs.domainResetAfterSale
  by_cases hc : d.expire > cur
  · simp [hc]
  · simp [hc]

/-- a purchase never shortens the time a name is held: the new expiry is at least the old one
    plus the blocks bought, and at least the current height plus the blocks bought -/
theorem purchase_expiry_lower_bounds (lu ex : Int) (a o : Bool) (sp n cur : Int) :
    (Funcs.domainResetAfterSale lu ex a o sp n cur).2.1 ≥ ex + n ∧
    (Funcs.domainResetAfterSale lu ex a o sp n cur).2.1 ≥ cur + n := by
  unfold Funcs.domainResetAfterSale
  by_cases hc : ex > cur <;> simp [hc] <;> omega

example : Funcs.calculateExpiry 1500 500 10 7 = (100, false) := by decide
example : Funcs.calculateExpiry 400 500 10 7 = (0, true) := by decide
example : Funcs.blocksFor 9223372036854775807 1 1 = (0, true) := by decide

end OLP.Props.C20

/-
  C04 — obligations over the REGENERATED fact tables (tie T3, `olx` on /repo's working tree).

  `validateRows` has one row per Go type implementing `action.Tx` (so every handler that could
  ever be put into a router, not only the ones registered today), classified by the shape of its
  `Validate(ctx, signedTx)`:
    basic      `msg.Unmarshal(tx.Data)` and `action.ValidateBasic(tx.RawBytes(), msg.Signers(),
               tx.Signatures)`, each followed by `if err != nil { return false, … }`, at the top
               level of the body and before any `return true`
    ethSigner  the same with `msg.validateSigner(ctx, tx)` (OLVM, EIP-155 sender recovery)
    rejectAll  every return is `false, …` (unknownTx)
    unchecked  anything else
  `retsOK`: every return is `(false, non-nil)` or `(true, nil)`, so the `err != nil` test of
  txChecker and the `err != nil || !valid` test of txDeliverer see the same verdict.
  These rows are the syntactic content of premise `ValidatesSignatures` of
  `OLP.Props.C04.checkTx_admits_only_validated` / `deliverTx_executes_only_validated`.
-/
import OLP.Gen.Facts

namespace OLP.Props.C04.Facts
open OLP.Gen

def sigChecked (v : ValidateRow) : Bool :=
  (v.cls == "basic" ||
   (v.cls == "ethSigner" && v.handler == "action/olvm.olvmTx") ||
   (v.cls == "rejectAll" && v.handler == "action.unknownTx")) && v.retsOK

/-- every implementation of `action.Tx` checks signatures over `RawBytes()` against `Signers()`
    of the payload it parsed (OLVM: recovers the sender; unknownTx: rejects) before accepting -/
theorem every_handler_checks_signatures : validateRows.all sigChecked = true := by decide

/-- the one registration whose handler is not a literal: the loop over `ExtTxs` in
    `external_apps.RegisterExtApp`; its elements are the `common.ExtTx{…}` literals (rows `ext:`) -/
def dynamicRoute : RouteRow := ⟨"external_apps.RegisterExtApp", "tx.Msg.Type()", "dynamic:tx.Tx"⟩

/-- every kind registered in a router (public, internal, external apps) is served by a handler
    whose `Validate` checks signatures -/
theorem every_registered_kind_validates :
    routeRows.all (fun r => r == dynamicRoute ||
      validateRows.any (fun v => v.handler == r.handler && sigChecked v)) = true := by decide

/-- the native kinds of the public router are all of class `basic`, OLVM is `ethSigner` -/
theorem olvm_is_the_only_non_basic_route :
    (routeRows.filter (fun r => r != dynamicRoute &&
      !validateRows.any (fun v => v.handler == r.handler && v.cls == "basic"))).map (·.kind) =
    ["action.OLVM"] := by decide

/-- both entry points stop at a failing `Validate`: CheckTx answers `getCode(ok)` with the `ok`
    that came with the error (false, by `retsOK`), DeliverTx answers CodeNotOK -/
theorem validate_guards_present :
    validateGuards =
      [⟨"txChecker", "err != nil", "validate-guard", "getCode(ok).uint32()"⟩,
       ⟨"txDeliverer", "err != nil || !valid", "validate-guard", "CodeNotOK.uint32()"⟩] := by decide

/-- …and `Validate` runs before ProcessCheck / ProcessDeliver / ProcessFee in both -/
theorem validate_precedes_processing :
    (sessionRule.filter (fun r => r.thenDo == "order")).map (fun r => (r.fn, r.cond)) =
      [("txChecker", "VerifyCache>BeginTxSession>Validate>ProcessCheck>ProcessFee"),
       ("txDeliverer", "GetTxFromCache>BeginTxSession>Validate>ProcessDeliver>ProcessFee")] := by decide

end OLP.Props.C04.Facts

/-
  C09 — obligation over the REGENERATED fact tables (tie T3): the functions of storage/ that
  OLP/KV/Model.lean ports statement by statement are unchanged since the port was validated
  (the behavioural tie is the exhaustive kv correspondence that runs on every check).
-/
import OLP.Shell.Expect

namespace OLP.Props.C09.Facts
open OLP.Expect

theorem store_stack_source_pinned :
    pinnedOf OLP.Gen.pinned (pinnedStore.map (fun r => r.fn)) = pinnedStore := by decide

end OLP.Props.C09.Facts

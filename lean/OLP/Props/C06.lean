/-
  C06 — Failed transactions are atomic no-ops.
  Statements about the shell model (OLP/Shell/Model.lean) for ARBITRARY handler programs.
-/
import OLP.Shell.LemmasA

namespace OLP.Props.C06
open OLP OLP.KV OLP.Shell

variable {K V C E T H D : Type} [DecidableEq K] [DecidableEq V] [DecidableEq C] [DecidableEq H]
variable (cfg : Cfg K V) (hs : Handlers K V C E T H D) (e : E)

/-- whatever the handler and fee programs did before failing, tree, block cache, check state,
    index and height are exactly as before; no session is left open -/
theorem failed_tx_keeps_store (n : Node K V C T H D) (tx : T)
    (hf : (deliverTx cfg hs e n tx).2.ok = false) :
    let n' := (deliverTx cfg hs e n tx).1
    n'.tree = n.tree ∧ n'.dlv.cache = n.dlv.cache ∧ n'.dlv.metered = n.dlv.metered ∧
    n'.dlv.gas.limit = n.dlv.gas.limit ∧ n'.chk = n.chk ∧ n'.idx = n.idx ∧ n'.height = n.height ∧
    (lookupIdx n.idx (hs.hash tx) = none → n'.dlv.sess = none) := by
  intro n'
  cases h : lookupIdx n.idx (hs.hash tx) with
  | some r =>
    have hn : n' = n := by
      show (deliverTx cfg hs e n tx).1 = n
      rw [deliverTx_hit cfg hs e n tx r h]
    rw [hn]
    exact ⟨rfl, rfl, rfl, rfl, rfl, rfl, rfl, fun h' => by cases h'⟩
  | none =>
    have hn : n' = (deliverCore cfg hs e n tx).1 := by
      show (deliverTx cfg hs e n tx).1 = _
      rw [deliverTx_miss cfg hs e n tx h]
    rw [deliverTx_miss cfg hs e n tx h] at hf
    obtain ⟨f1, f2, f3, f4, _, f6, f7, f8, f9⟩ := deliverCore_frame cfg hs e n tx
    rw [hn]
    exact ⟨f1, f9 hf, f7, f8, f2, f3, f4, fun _ => f6⟩

/-- if, in addition, deliver-path programs write no volatile cell, the running gas total is the
    only thing a failed transaction advances -/
theorem failed_tx_noop (hnv : DeliverNoVset hs) (n : Node K V C T H D) (tx : T)
    (hs0 : n.dlv.sess = none) (hf : (deliverTx cfg hs e n tx).2.ok = false) :
    ∃ d, ShiftNode d n (deliverTx cfg hs e n tx).1 :=
  deliverTx_failed_shift cfg hs e hnv n tx hs0 hf

/-- a transaction that succeeded lands in the block cache through `CommitTxSession` only: the
    tree itself is never touched before Commit -/
theorem deliver_never_touches_tree (n : Node K V C T H D) (tx : T) :
    (deliverTx cfg hs e n tx).1.tree = n.tree := by
  cases h : lookupIdx n.idx (hs.hash tx) with
  | some r => rw [deliverTx_hit cfg hs e n tx r h]
  | none => rw [deliverTx_miss cfg hs e n tx h]; exact (deliverCore_frame cfg hs e n tx).1

/-- removing every failed transaction from a list of transactions yields the same results for
    the remaining ones and the same state up to the gas level -/
theorem remove_failed_deliverAll (hb : GasBlind cfg hs) (hnv : DeliverNoVset hs)
    (n : Node K V C T H D) (hs0 : n.dlv.sess = none) (txs : List T) :
    let r := deliverAll cfg hs e n txs
    let r' := deliverAll cfg hs e n (survivors txs r.2)
    r'.2 = r.2.filter (·.ok) ∧ ∃ d, ShiftNode d r'.1 r.1 :=
  deliverAll_shift cfg hs e hb hnv txs 0 n n (ShiftNode.rfl0 n) hs0

/-- block level: same surviving results, same commit write log (hence the same application
    hash), same tree and volatile memory -/
theorem remove_failed_same_block (hb : GasBlind cfg hs) (hhb : HooksGasBlind cfg hs)
    (hnv : DeliverNoVset hs) (ha : AllAimed hs) (n : Node K V C T H D) (txs : List T) :
    let r := execBlock cfg hs e n txs
    let r' := execBlock cfg hs e n (survivors txs r.2.results)
    r'.2.results = r.2.results.filter (·.ok) ∧ r'.2.log = r.2.log ∧
    r'.1.tree = r.1.tree ∧ r'.1.vol = r.1.vol ∧ r'.1.height = r.1.height := by
  have hb0 := (beginBlock_frame cfg hs e n).2.2.2
  obtain ⟨h1, d, h2⟩ := deliverAll_shift cfg hs e hb hnv txs 0 _ _
    (ShiftNode.rfl0 (beginBlock cfg hs e n)) hb0
  have h3 := endBlock_shift cfg hs e hhb ha d _ _ h2
  obtain ⟨c1, c2, c3⟩ := commit_shift cfg hs d _ _ h3
  refine ⟨h1, ?_, c1.symm, c2.symm, c3.symm⟩
  exact congrArg (fun t : Tree K V => t.log.drop n.tree.log.length) c1.symm

/-! ## Non-vacuity -/

/-- a handler that writes key 1, then key 2, then fails -/
def exH : Handlers Nat Nat Nat Unit Nat Nat Nat :=
  { hash := id, validate := fun _ => .ret (), check := fun _ => .ret 0,
    deliver := fun tx => .set 1 tx (fun _ => .set 2 tx (fun _ => if tx = 0 then .fail else .ret tx)),
    fee := fun _ g0 => .gas (fun g => .ret (g - g0)),
    begin := fun _ => [], endb := fun _ => [], gasLimit := 1000000 }
def exCfg : Cfg Nat Nat := { tomb := 0, vlen := fun _ => 1, lt := fun a b => decide (a < b) }
def exN : Node Nat Nat Nat Nat Nat Nat :=
  { tree := Tree.empty ⟨1, 0, 0⟩, dlv := Ov.fresh 1000000, chk := Ov.fresh 1000000, vol := fun _ => none,
    idx := [], aim := .check, height := 0, closed := false }

example : (deliverTx exCfg exH () exN 0).2.ok = false ∧ (deliverTx exCfg exH () exN 7).2.ok = true ∧
    (deliverTx exCfg exH () exN 7).1.dlv.cache = [(1, 7), (2, 7)] ∧
    (deliverTx exCfg exH () exN 0).1.dlv.cache = [] := by decide

end OLP.Props.C06

/-
  C06 — Failed transactions are atomic no-ops.
  Statements about the shell model (OLP/Shell/Model.lean) for ARBITRARY handler programs.

  The gas carve-out: a failed transaction advances the running gas total of the block and nothing
  else (`failed_tx_noop`). Hence removing the failed transactions of a block changes nothing else
  (`remove_failed_same_block`): the block hooks run unmetered (359026c, fc77c5a), so the level the
  failed transactions left behind is seen by later TRANSACTIONS only, and one that did not fail ran
  below the limit throughout. The hypotheses on the handlers follow from their syntax
  (`RoomBlind.of_syntax`), a concrete block meets all of them (`remove_failed_instance`), and the
  block that was a counterexample while the EndBlock hooks were metered is none any more
  (`remove_failed_former_counterexample_holds`).
-/
import OLP.Shell.LemmasGas

namespace OLP.Props.C06
open OLP OLP.KV OLP.Shell

variable {K V C E T H D : Type} [DecidableEq K] [DecidableEq V] [DecidableEq C] [DecidableEq H]
variable (cfg : Cfg K V) (hs : Handlers K V C E T H D) (e : E)

/-- whatever the handler and fee programs did before failing, tree, block cache, check state,
    index and height are exactly as before; no session is left open -/
theorem failed_tx_keeps_store (n : Node K V C T H D) (tx : T)
    (hf : (deliverTx cfg hs e n tx).2.ok = false) :
    let n' := (deliverTx cfg hs e n tx).1
    n'.tree = n.tree ∧ n'.dlv.cache = n.dlv.cache ∧ n'.dlv.metered = n.dlv.metered ∧
    n'.dlv.gas.limit = n.dlv.gas.limit ∧ n'.chk = n.chk ∧ n'.idx = n.idx ∧ n'.height = n.height ∧
    (lookupIdx n.idx (hs.hash tx) = none → n'.dlv.sess = none) := by
  intro n'
  cases h : lookupIdx n.idx (hs.hash tx) with
  | some r =>
    have hn : n' = n := by
      show (deliverTx cfg hs e n tx).1 = n
      rw [deliverTx_hit cfg hs e n tx r h]
    rw [hn]
    exact ⟨rfl, rfl, rfl, rfl, rfl, rfl, rfl, fun h' => by cases h'⟩
  | none =>
    have hn : n' = (deliverCore cfg hs e n tx).1 := by
      show (deliverTx cfg hs e n tx).1 = _
      rw [deliverTx_miss cfg hs e n tx h]
    rw [deliverTx_miss cfg hs e n tx h] at hf
    obtain ⟨f1, f2, f3, f4, _, f6, f7, f8, f9⟩ := deliverCore_frame cfg hs e n tx
    rw [hn]
    exact ⟨f1, f9 hf, f7, f8, f2, f3, f4, fun _ => f6⟩

/-- if, in addition, deliver-path programs write no volatile cell, the running gas total is the
    only thing a failed transaction advances -/
theorem failed_tx_noop (hnv : DeliverNoVset hs) (n : Node K V C T H D) (tx : T)
    (hs0 : n.dlv.sess = none) (hf : (deliverTx cfg hs e n tx).2.ok = false) :
    ∃ d, ShiftNode d n (deliverTx cfg hs e n tx).1 :=
  deliverTx_failed_shift cfg hs e hnv n tx hs0 hf

/-- a transaction that succeeded lands in the block cache through `CommitTxSession` only: the
    tree itself is never touched before Commit -/
theorem deliver_never_touches_tree (n : Node K V C T H D) (tx : T) :
    (deliverTx cfg hs e n tx).1.tree = n.tree := by
  cases h : lookupIdx n.idx (hs.hash tx) with
  | some r => rw [deliverTx_hit cfg hs e n tx r h]
  | none => rw [deliverTx_miss cfg hs e n tx h]; exact (deliverCore_frame cfg hs e n tx).1

/-! ### removing the failed transactions

  The hypotheses are the ones real handlers meet (`RoomBlind`, which follows from the SYNTAX of the
  programs by `RoomBlind.of_syntax`: no `.gas` node outside the fee step, no negative `.burn`).
  Nothing is asked of the block hooks beyond `AllAimed`, and nothing of the block's gas meter: the
  hooks run on the unmetered view of the deliver state (`runHook`). All hypotheses are proved for a
  concrete block below (`Non-vacuity`). -/

/-- removing every failed transaction from a list of transactions yields the same results for
    the remaining ones and the same state up to the gas level, which the failed ones can only
    have advanced (`0 ≤ d`).

    No premise on the meter is needed here: since `txDeliverer` fails a transaction that ends
    with the block gas used up, a transaction that did NOT fail ran below the limit throughout,
    and so does its twin in the run without the failed ones, whose level is lower. Transactions
    delivered after the meter ran out have all failed and are removed with the others. -/
theorem remove_failed_deliverAll (hb : RoomBlind cfg hs) (hnv : DeliverNoVset hs)
    (n : Node K V C T H D) (hs0 : n.dlv.sess = none) (txs : List T) :
    let r := deliverAll cfg hs e n txs
    let r' := deliverAll cfg hs e n (survivors txs r.2)
    r'.2 = r.2.filter (·.ok) ∧ ∃ d, 0 ≤ d ∧ ShiftNode d r'.1 r.1 :=
  deliverAll_room_shift cfg hs e hb hnv txs 0 n n (Int.le_refl 0) (ShiftNode.rfl0 n) hs0

/-- EndBlock leaves the block's gas meter exactly where the last transaction left it, and
    BeginBlock hands the transactions a meter at 0: the block hooks run unmetered -/
theorem hooks_keep_meter (n : Node K V C T H D) :
    (endBlock cfg hs e n).dlv.gas = n.dlv.gas ∧ (endBlock cfg hs e n).dlv.metered = n.dlv.metered ∧
    (beginBlock cfg hs e n).dlv.gas = ⟨hs.gasLimit, 0⟩ ∧ (beginBlock cfg hs e n).dlv.metered = true :=
  ⟨(endBlock_gas cfg hs e n).1, (endBlock_gas cfg hs e n).2, (beginBlock_gas cfg hs e n).1,
   (beginBlock_gas cfg hs e n).2⟩

/-- … so the meter at the end of the block is the meter after its last transaction -/
theorem blockEndGas_eq_after_txs (n : Node K V C T H D) (txs : List T) :
    blockEndGas cfg hs e n txs = (deliverAll cfg hs e (beginBlock cfg hs e n) txs).1.dlv.gas :=
  (endBlock_gas cfg hs e _).1

/-- block level: removing the failed transactions of a block gives the same surviving results,
    the same commit write log (hence the same application hash), the same tree, volatile memory and
    height — WHATEVER the level of the block's gas meter, used up or not.

    No premise on the meter: the transactions are covered by `remove_failed_deliverAll`, and the
    EndBlock hooks, which run on the unmetered view of the deliver state, do the same from two
    nodes that differ in the level of the meter only (`endBlock_shift`). `AllAimed` is needed for
    that last step: the block without its failed transactions may deliver nothing at all, and a
    hook that does not re-aim its stores would then run against the check state instead. -/
theorem remove_failed_same_block (hb : RoomBlind cfg hs)
    (hnv : DeliverNoVset hs) (ha : AllAimed hs) (n : Node K V C T H D) (txs : List T) :
    let r := execBlock cfg hs e n txs
    let r' := execBlock cfg hs e n (survivors txs r.2.results)
    r'.2.results = r.2.results.filter (·.ok) ∧ r'.2.log = r.2.log ∧
    r'.1.tree = r.1.tree ∧ r'.1.vol = r.1.vol ∧ r'.1.height = r.1.height := by
  have hb0 := (beginBlock_frame cfg hs e n).2.2.2
  obtain ⟨h1, d, hd, h2⟩ := deliverAll_room_shift cfg hs e hb hnv txs 0 _ _ (Int.le_refl 0)
    (ShiftNode.rfl0 (beginBlock cfg hs e n)) hb0
  have h3 := endBlock_shift cfg hs e ha d _ _ h2
  obtain ⟨c1, c2, c3⟩ := commit_shift cfg hs d _ _ h3
  refine ⟨h1, ?_, c1.symm, c2.symm, c3.symm⟩
  exact congrArg (fun t : Tree K V => t.log.drop n.tree.log.length) c1.symm

/-- a block whose meter has room at its end had room after its last transaction (hence, by
    `deliverAll_mono`, after each one). With the hooks unmetered this is `blockEndGas_eq_after_txs`
    read from right to left; no hypothesis on the hooks is left. -/
theorem block_room_after_txs
    (n : Node K V C T H D) (txs : List T) (hroom : hasRoom (blockEndGas cfg hs e n txs)) :
    hasRoom (deliverAll cfg hs e (beginBlock cfg hs e n) txs).1.dlv.gas := by
  rw [← blockEndGas_eq_after_txs]
  exact hroom

/-- an application without EndBlock hooks does not even need `AllAimed` (its BeginBlock hooks may
    be aimed anywhere: both blocks begin from the same node) -/
theorem remove_failed_same_block_of_no_hooks (hb : RoomBlind cfg hs) (hnv : DeliverNoVset hs)
    (hne : ∀ h, hs.endb h = []) (n : Node K V C T H D) (txs : List T) :
    let r := execBlock cfg hs e n txs
    let r' := execBlock cfg hs e n (survivors txs r.2.results)
    r'.2.results = r.2.results.filter (·.ok) ∧ r'.2.log = r.2.log ∧
    r'.1.tree = r.1.tree ∧ r'.1.vol = r.1.vol ∧ r'.1.height = r.1.height := by
  have hb0 := (beginBlock_frame cfg hs e n).2.2.2
  obtain ⟨h1, d, hd, h2⟩ := deliverAll_room_shift cfg hs e hb hnv txs 0 _ _ (Int.le_refl 0)
    (ShiftNode.rfl0 (beginBlock cfg hs e n)) hb0
  have he : ∀ a : Node K V C T H D, endBlock cfg hs e a = a := by
    intro a; unfold endBlock; rw [hne]; rfl
  obtain ⟨c1, c2, c3⟩ := commit_shift cfg hs d _ _ h2
  refine ⟨h1, ?_, ?_, ?_, ?_⟩
  · show (commit cfg hs (endBlock cfg hs e _)).tree.log.drop _ =
      (commit cfg hs (endBlock cfg hs e _)).tree.log.drop _
    rw [he, he]
    exact congrArg (fun t : Tree K V => t.log.drop n.tree.log.length) c1.symm
  · show (commit cfg hs (endBlock cfg hs e _)).tree = (commit cfg hs (endBlock cfg hs e _)).tree
    rw [he, he]; exact c1.symm
  · show (commit cfg hs (endBlock cfg hs e _)).vol = (commit cfg hs (endBlock cfg hs e _)).vol
    rw [he, he]; exact c2.symm
  · show (commit cfg hs (endBlock cfg hs e _)).height = (commit cfg hs (endBlock cfg hs e _)).height
    rw [he, he]; exact c3.symm

/-! ## Non-vacuity -/

/-- a handler that writes key 1, then key 2, then fails -/
def exH : Handlers Nat Nat Nat Unit Nat Nat Nat :=
  { hash := id, validate := fun _ => .ret (), check := fun _ => .ret 0,
    deliver := fun tx => .set 1 tx (fun _ => .set 2 tx (fun _ => if tx = 0 then .fail else .ret tx)),
    fee := fun _ g0 => .gas (fun g => .ret (g - g0)),
    begin := fun _ => [], endb := fun _ => [], gasLimit := 1000000 }
def exCfg : Cfg Nat Nat := { tomb := 0, vlen := fun _ => 1, lt := fun a b => decide (a < b) }
def exN : Node Nat Nat Nat Nat Nat Nat :=
  { tree := Tree.empty ⟨1, 0, 0⟩, dlv := Ov.fresh 1000000, chk := Ov.fresh 1000000, vol := fun _ => none,
    idx := [], aim := .check, height := 0, closed := false }

example : (deliverTx exCfg exH () exN 0).2.ok = false ∧ (deliverTx exCfg exH () exN 7).2.ok = true ∧
    (deliverTx exCfg exH () exN 7).1.dlv.cache = [(1, 7), (2, 7)] ∧
    (deliverTx exCfg exH () exN 0).1.dlv.cache = [] := by decide

/-! ### a concrete block that meets ALL hypotheses of `remove_failed_same_block`

  Validate burns the signature-check gas. ProcessDeliver reads key 1 (a read of the metered block
  cache), writes keys 1 and 2 into the session and then — transaction 0 only — burns more gas and
  fails: a failure after partial writes. The fee step reports the gas used since the start level.
  One EndBlock hook, aimed at the deliver state, reads key 1 and records its value under key 9 (a
  read and a write outside any session, on the unmetered view of the deliver state: served whatever
  the level of the block's meter, and charged to nobody). The block gas limit is a parameter. -/

def rmCfg : Cfg Nat Nat := { tomb := 0, vlen := fun _ => 1, lt := fun a b => decide (a < b) }

def rmH (limit : Int) : Handlers Nat Nat Nat Unit Nat Nat Nat :=
  { hash := id, validate := fun _ => .burn 5 (.ret ()), check := fun _ => .ret 0,
    deliver := fun tx => .get 1 (fun _ => .set 1 (tx + 1) (fun _ => .set 2 (tx + 1) (fun _ =>
      if tx = 0 then .burn 500 .fail else .ret tx))),
    fee := fun _ g0 => .gas (fun g => .ret (g - g0)),
    begin := fun _ => [],
    endb := fun _ => [(true, .get 1 (fun r => match r with
      | .val (some v) => .set 9 v (fun _ => .ret ())
      | _ => .ret ()))],
    gasLimit := limit }

def rmN (limit : Int) : Node Nat Nat Nat Nat Nat Nat :=
  { tree := Tree.empty ⟨1, 0, 0⟩, dlv := Ov.fresh limit, chk := Ov.fresh limit, vol := fun _ => none,
    idx := [], aim := .check, height := 0, closed := false }

/-- the handlers are `RoomBlind`, whatever the limit: by syntax -/
theorem rm_roomBlind (limit : Int) : RoomBlind rmCfg (rmH limit) := by
  refine RoomBlind.of_syntax rmCfg (rmH limit) ?_ ?_ (fun _ x => .ret x) (fun _ _ => rfl)
    (fun _ _ => ⟨trivial, trivial⟩)
  · intro tx
    exact ⟨by simp [rmH, Prog.NoGasRead], by simp [rmH, Prog.BurnNonneg]⟩
  · intro tx
    constructor
    · simp only [rmH, Prog.NoGasRead]
      intro _ _ _
      split <;> simp [Prog.NoGasRead]
    · simp only [rmH, Prog.BurnNonneg]
      intro _ _ _
      split <;> simp [Prog.BurnNonneg]

theorem rm_noVset (limit : Int) : DeliverNoVset (rmH limit) := by
  intro tx
  refine ⟨by simp [rmH, Prog.NoVset], ?_, fun g => by simp [rmH, Prog.NoVset]⟩
  simp only [rmH, Prog.NoVset]
  intro _ _ _
  split <;> simp [Prog.NoVset]

theorem rm_aimed (limit : Int) : AllAimed (rmH limit) := by
  intro h
  constructor
  · intro hk hm; simp [rmH] at hm
  · intro hk hm
    simp only [rmH, List.mem_singleton] at hm
    subst hm
    rfl

/-- what the block does: transaction 0 fails, after it wrote keys 1 and 2 into its session
    (which is discarded), the other two succeed; 25 + 527 + 27 units of gas are consumed by the
    transactions, none by the EndBlock hook -/
theorem rm_block_facts :
    let r := execBlock rmCfg (rmH 10000) () (rmN 10000) [5, 0, 7]
    r.2.results = [⟨true, some 5, 25⟩, ⟨false, none, 527⟩, ⟨true, some 7, 27⟩] ∧
    survivors [5, 0, 7] r.2.results = [5, 7] ∧
    (txRun rmCfg (rmH 10000) () 0 ((Ov.fresh 10000).toSt (rmN 10000).tree).begin (fun _ => none)).2.1.sess
      = some [(1, 1), (2, 1)] ∧
    r.2.log = [.set 1 8, .set 2 8, .set 9 8, .save] ∧
    blockEndGas rmCfg (rmH 10000) () (rmN 10000) [5, 0, 7] = ⟨10000, 579⟩ := by
  dsimp only
  decide

/-- `remove_failed_same_block` applied to this block: all its hypotheses are proved -/
theorem remove_failed_instance :
    let r := execBlock rmCfg (rmH 10000) () (rmN 10000) [5, 0, 7]
    let r' := execBlock rmCfg (rmH 10000) () (rmN 10000) (survivors [5, 0, 7] r.2.results)
    r'.2.results = r.2.results.filter (·.ok) ∧ r'.2.log = r.2.log ∧
    r'.1.tree = r.1.tree ∧ r'.1.vol = r.1.vol ∧ r'.1.height = r.1.height :=
  remove_failed_same_block rmCfg (rmH 10000) () (rm_roomBlind 10000)
    (rm_noVset 10000) (rm_aimed 10000) (rmN 10000) [5, 0, 7]

/-- … and its conclusion, spelled out and recomputed: the block without transaction 0 -/
example :
    (execBlock rmCfg (rmH 10000) () (rmN 10000) [5, 7]).2.results =
      [⟨true, some 5, 25⟩, ⟨true, some 7, 27⟩] ∧
    (execBlock rmCfg (rmH 10000) () (rmN 10000) [5, 7]).2.log = [.set 1 8, .set 2 8, .set 9 8, .save] ∧
    blockEndGas rmCfg (rmH 10000) () (rmN 10000) [5, 7] = ⟨10000, 52⟩ := by
  decide

/-! ### no premise on the meter -/

/-- The block that WAS a counterexample while the EndBlock hooks were metered. Same handlers, block
    gas limit 300: the failed transaction 0 uses up the meter (552 of 300). The EndBlock hook's
    read used to be refused then, it wrote nothing, and the commit log of the full block lacked
    `.set 9 6` (the former `remove_failed_needs_room`). The hook now runs unmetered: it is served
    with and without transaction 0, the two commit logs are the same list, and the conclusion of
    `remove_failed_same_block` holds although the meter has no room. -/
theorem remove_failed_former_counterexample_holds :
    let r := execBlock rmCfg (rmH 300) () (rmN 300) [5, 0]
    let r' := execBlock rmCfg (rmH 300) () (rmN 300) (survivors [5, 0] r.2.results)
    ¬ hasRoom (blockEndGas rmCfg (rmH 300) () (rmN 300) [5, 0]) ∧
    blockEndGas rmCfg (rmH 300) () (rmN 300) [5, 0] = ⟨300, 552⟩ ∧
    survivors [5, 0] r.2.results = [5] ∧
    r.2.results = [⟨true, some 5, 25⟩, ⟨false, none, 527⟩] ∧
    r'.2.results = r.2.results.filter (·.ok) ∧
    r.2.log = [.set 1 6, .set 2 6, .set 9 6, .save] ∧ r'.2.log = [.set 1 6, .set 2 6, .set 9 6, .save] ∧
    r'.2.log = r.2.log := by
  dsimp only
  decide

/-- … as an instance of the theorem (limit 300, every hypothesis proved) -/
theorem remove_failed_former_counterexample_instance :
    let r := execBlock rmCfg (rmH 300) () (rmN 300) [5, 0]
    let r' := execBlock rmCfg (rmH 300) () (rmN 300) (survivors [5, 0] r.2.results)
    r'.2.results = r.2.results.filter (·.ok) ∧ r'.2.log = r.2.log ∧
    r'.1.tree = r.1.tree ∧ r'.1.vol = r.1.vol ∧ r'.1.height = r.1.height :=
  remove_failed_same_block rmCfg (rmH 300) () (rm_roomBlind 300)
    (rm_noVset 300) (rm_aimed 300) (rmN 300) [5, 0]

/-- why `failed_tx_noop` carves out the gas level: a failed transaction that uses up the meter
    makes a later TRANSACTION fail that succeeds without it (its read is refused, its handler still
    returns, and `txDeliverer` fails it because the block gas is used up). That later transaction
    has then failed too, and `remove_failed_*` remove it with the first: this is why the removal
    theorems remove ALL failed transactions while removing ONE would need a premise on the meter.
    (Transactions only: the block hooks are not starved, they run unmetered.) -/
theorem failed_tx_starves_later :
    let n := beginBlock rmCfg (rmH 300) () (rmN 300)
    (deliverAll rmCfg (rmH 300) () n [0, 7]).2 = [⟨false, none, 525⟩, ⟨false, some 7, 5⟩] ∧
    (deliverAll rmCfg (rmH 300) () n [7]).2 = [⟨true, some 7, 25⟩] := by
  dsimp only
  decide

end OLP.Props.C06

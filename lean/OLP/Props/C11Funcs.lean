import OLP.Gen.Funcs
import OLP.Stake.Model

/-!
# C11 / C10 — the validator record's stake and power, tied to the source by translation (T2b)

`identity.calculatePower` is translated whole; the new stake of `HandleStake` / `handleUnstake` is
the translated assignment `amt`. The model's `powerOf` is the source's `calculatePower`, and the
record a stake / unstake writes carries the source's sum / difference and its power.
-/

namespace OLP.Props.C11

open OLP.Stake
open OLP.Gen

theorem int64Of_is_wrap64 (x : Int) : int64Of x = Funcs.wrap64 x := by
  unfold int64Of wrapU Funcs.wrap64 two63 two64
  simp only
  split <;> (repeat' split) <;> omega

theorem powerOf_is_source (staking : Int) : powerOf staking = Funcs.calculatePower staking := by
  unfold powerOf Funcs.calculatePower
  exact int64Of_is_wrap64 staking

/-- the record `HandleStake` writes for an existing validator: the source's sum and its power -/
theorem handleStake_record_is_source (s : St) (v d : Addr) (a : Int) (u : Bool) (h : Int) (r : VRec) (s' : St)
    (hr : s.vals v = some r) (hs : handleStake s v d a u h = some s') :
    ∃ r', s'.vals v = some r' ∧
      r'.staking = Funcs.stakeAfterStake r.staking a ∧
      r'.power = Funcs.calculatePower (Funcs.stakeAfterStake r.staking a) := by
  unfold handleStake at hs
  simp only [hr] at hs
  split at hs
  · cases hs
  · injection hs with hs
    subst hs
    refine ⟨⟨r.staking + a, powerOf (r.staking + a), if u then d else r.sa⟩, by simp [upd], rfl, ?_⟩
    exact powerOf_is_source _

example : Funcs.calculatePower 18446744073709551617 = 1 := by decide
example : Funcs.stakeAfterUnstake 10 3 = 7 := by decide

end OLP.Props.C11

/-
  C15 — Cross-chain lock/redeem: threshold-gated, exactly-once mint and refund.

  Property theorems only (helper lemmas: OLP/Eth/Lemmas.lean).  All statements are about the
  executable model `OLP.Eth` (OLP/Eth/Model.lean), a port of data/ethereum/tracker.go,
  action/eth/{ext_lock,ext_redeem,ext_ERC20Lock,ext_ERC20redeem,check_finalty}.go,
  event/eth_{lock,redeem}_transitions.go and app/controller.go doEthTransitions, which the
  `ethtrk` correspondence engine compares with the real application on every run.

  Vocabulary: `run c St.empty ops` executes an arbitrary list of transactions and block ends from
  the empty state and returns the final state and the ghost list of value movements
  (`Event.mint/refund/debit/xfer`); `mintCount n evs` / `refundCount n evs` count the mints /
  refunds for the external transaction (tracker name) `n`; `TwoThirds c ops n ok` says that
  pairwise different recorded witnesses, more than two thirds of the witness list, each sent a
  report with verdict `ok` for `n` somewhere in `ops`.

  Two clauses of the property are FALSE of the code as written; for each the full statement is
  kept in a comment, a `_partial` theorem is proved under exactly the hypothesis the code forces,
  and a concrete counterexample is proved (`decide`) which the harness replays on the
  implementation (known findings KF-C15-1, KF-C15-2).
-/
import OLP.Eth.Lemmas

namespace OLP.Props.C15
open OLP OLP.Eth

/-! ## 1. Votes: only the slot of the matching witness, only once -/

/-- An accepted vote either changes nothing or fills the *empty* slot `idx`, and then the sender
    is the witness recorded at that very index.  (AddVote) -/
theorem vote_only_own_slot_once {t t' : Tracker} {a : Addr} {idx : Int} {v : Bool} (wf : t.WF)
    (h : addVote t a idx v = .ok t') :
    t' = t ∨ (∃ i : Nat, idx = (i : Int) ∧ t.witnesses[i]? = some a ∧ t.votes[i]? = some 0 ∧
      t' = { t with votes := t.votes.set i (if v then 1 else 2) }) :=
  addVote_ok_cases wf h

/-- the vote of an address that is not a recorded witness never counts -/
theorem nonwitness_vote_does_not_count {t t' : Tracker} {a : Addr} {idx : Int} {v : Bool} (wf : t.WF)
    (ha : a ∉ t.witnesses) (h : addVote t a idx v = .ok t') : t' = t := by
  rcases addVote_ok_cases wf h with e | ⟨i, _, hw, _, _⟩
  · exact e
  · exact absurd (List.mem_of_getElem? hw) ha

/-- a witness voting under somebody else's index changes nothing -/
theorem wrong_index_does_not_count {t t' : Tracker} {a w : Addr} {i : Nat} {v : Bool} (wf : t.WF)
    (hw : t.witnesses[i]? = some w) (hne : w ≠ a) (h : addVote t a (i : Int) v = .ok t') : t' = t := by
  rcases addVote_ok_cases wf h with e | ⟨j, hj, hw', _, _⟩
  · exact e
  · have : i = j := by omega
    subst this; rw [hw] at hw'; cases hw'; exact absurd rfl hne

/-- a witness whose slot is already filled is refused (whatever index and verdict it sends) -/
theorem second_vote_refused {t : Tracker} {a : Addr} {i : Nat} {x : Nat} (idx : Int) (v : Bool)
    (hi : firstIdx t.witnesses a = some i) (hx : t.votes[i]? = some x) (hpos : x > 0)
    (hidx : idx < (t.witnesses.length : Int)) : addVote t a idx v = .err := by
  unfold addVote
  have : ¬ ((t.witnesses.length : Int) ≤ idx) := by omega
  simp [this, hi, hx, hpos]

theorem yes_count_monotone {t t' : Tracker} {a : Addr} {idx : Int} {v : Bool} (wf : t.WF)
    (h : addVote t a idx v = .ok t') : t.yes ≤ t'.yes ∧ (t.yes < t'.yes → v = true) :=
  ⟨(addVote_ok_counts wf h).1, (addVote_ok_counts wf h).2.2.2.2.1⟩

theorem no_count_monotone {t t' : Tracker} {a : Addr} {idx : Int} {v : Bool} (wf : t.WF)
    (h : addVote t a idx v = .ok t') : t.no ≤ t'.no ∧ (t.no < t'.no → v = false) :=
  ⟨(addVote_ok_counts wf h).2.1, (addVote_ok_counts wf h).2.2.2.2.2⟩

/-- `Finalized`/`Failed` need floor(2n/3)+1 votes: strictly more than two thirds, and minimal -/
theorem threshold_is_more_than_two_thirds (t : Tracker) :
    2 * t.witnesses.length < 3 * t.threshold ∧ 3 * (t.threshold - 1) ≤ 2 * t.witnesses.length ∧
    (t.finalized = true ↔ t.threshold ≤ t.yes) ∧ (t.failedV = true ↔ t.threshold ≤ t.no) :=
  ⟨(threshold_more_than_two_thirds t).1, (threshold_more_than_two_thirds t).2,
   by simp [Tracker.finalized], by simp [Tracker.failedV]⟩

/-- a tracker cannot be both finalized and failed -/
theorem never_both_decided (t : Tracker) (wf : t.WF) : ¬ (t.finalized = true ∧ t.failedV = true) :=
  not_finalized_and_failed t wf.len

/-- on a well-formed record a non-negative VoteIndex never panics (the negative index does: C18) -/
theorem vote_never_panics {t : Tracker} (wf : t.WF) (a : Addr) {idx : Int} (hidx : 0 ≤ idx) (v : Bool) :
    addVote t a idx v ≠ .panic := addVote_no_panic wf a hidx v

example : (newTracker .lock 1 7 40 false [11, 12, 13]).WF := ⟨by decide, by decide⟩
example : addVote (newTracker .lock 1 7 40 false [11, 12, 13]) 12 1 true =
    .ok { newTracker .lock 1 7 40 false [11, 12, 13] with votes := [0, 1, 0] } := by decide
example : addVote (newTracker .lock 1 7 40 false [11, 12, 13]) 12 0 true =
    .ok (newTracker .lock 1 7 40 false [11, 12, 13]) := by decide          -- wrong index: no-op
example : addVote (newTracker .lock 1 7 40 false [11, 12, 13]) 55 1 true =
    .ok (newTracker .lock 1 7 40 false [11, 12, 13]) := by decide          -- stranger: no-op
example : addVote { newTracker .lock 1 7 40 false [11, 12, 13] with votes := [0, 2, 0] } 12 1 true = .err := by
  decide                                                                   -- second vote refused
example : addVote (newTracker .lock 1 7 40 false [11, 12, 13]) 12 (-1) true = .panic := by decide

/-! ## 2. Reachable states are well formed; the block end never panics and moves no value -/

/-- every state reachable from the empty state is well formed: one vote slot per witness, the
    witness list is the genesis list, a finalized record is Released, no record is ever in the
    state `Finalized` (whose next step, MINTING / BURN, is not a registered transition) -/
theorem wf_reachable {c : Cfg} (hc : c.WF) (ops : List Op) : St.WF c (run c St.empty ops).1 :=
  (run_invR hc ops St.empty [] (invR_empty c)).wf

/-- doEthTransitions never hits the unregistered transition and never dereferences a missing
    tracker, for every set of distinct ongoing names the iteration yields and every job-store
    behaviour -/
theorem endBlock_never_panics {c : Cfg} (hc : c.WF) (ops : List Op) (ns je : List Name) (hnd : ns.Nodup)
    (hin : ∀ n ∈ ns, has (run c St.empty ops).1.ongoing n = true) :
    (step c (run c St.empty ops).1 (.endBlock ns je)).res ≠ .panic := by
  obtain ⟨s', h⟩ := endBlock_some je ns (wf_reachable hc ops) hnd hin
  simp [step, h]

/-- no wrapped balance changes at the block end (in particular nothing is minted there) -/
theorem block_end_moves_no_value (c : Cfg) (s : St) (ns je : List Name) :
    (step c s (.endBlock ns je)).st.bal = s.bal ∧ (step c s (.endBlock ns je)).ev = [] := by
  simp only [step]
  split
  · exact ⟨rfl, rfl⟩
  · rename_i s' h; exact ⟨endBlock_bal ns h, rfl⟩

/-- Cleanup: a Released record is moved to the passed store (cleaned) and leaves the ongoing store -/
theorem cleanup_moves_released {s : St} {t : Tracker} {n : Name} (je : List Name)
    (hget : alookup n s.ongoing = some t) (hst : t.state = .released) (hj : je.contains n = false) :
    endOne s je n = some { s with passed := upsert s.passed n t.clean, ongoing := aerase s.ongoing n } := by
  unfold endOne; rw [hget]; simp only
  unfold transition; rw [hst, hj]; cases t.typ.isLock <;> simp

/-- CleanupFailed: a Failed record is moved to the failed store -/
theorem cleanup_moves_failed {s : St} {t : Tracker} {n : Name} (je : List Name)
    (hget : alookup n s.ongoing = some t) (hst : t.state = .failed) (hj : je.contains n = false) :
    endOne s je n = some { s with failed := upsert s.failed n t.clean, ongoing := aerase s.ongoing n } := by
  unfold endOne; rw [hget]; simp only
  unfold transition; rw [hst, hj]; cases t.typ.isLock <;> simp

example : has (run exCfg St.empty exHonest).1.passed 7 = true ∧ has (run exCfg St.empty exHonest).1.ongoing 7 = false := by
  decide
-- the hypotheses of `endBlock_never_panics` hold on a state with an ongoing tracker, and the block end runs
example : [7].Nodup ∧ (∀ n ∈ [7], has (run exCfg St.empty (exHonest.take 4)).1.ongoing n = true) ∧
    (step exCfg (run exCfg St.empty (exHonest.take 4)).1 (.endBlock [7] [])).res = .ok "end" := by decide
-- a Released record and a job-error-free node: the hypotheses of `cleanup_moves_released`
example : (alookup 7 (run exCfg St.empty (exHonest.take 4)).1.ongoing).map (·.state) = some .released := by decide

/-! ## 3. Mint: only after more than two thirds reported success, exactly the locked amount -/

/-- Every mint of every history is justified by the history: pairwise different recorded witnesses,
    more than two thirds of the list, each reported success for this tracker (so reports of
    non-witnesses, repeated reports and reports under a wrong index did not count); the minted
    amount and currency are those of a lock submission of this external transaction; and the
    beneficiary is the `Locker` named by one of the success reports. -/
theorem mint_requires_two_thirds_and_locked_amount {c : Cfg} (hc : c.WF) (ops : List Op)
    (n : Name) (to : Addr) (cur amt : Nat) (h : Event.mint n to cur amt ∈ (run c St.empty ops).2) :
    TwoThirds c ops n true ∧
    (∃ op ∈ ops, ∃ typ owner, op.info = .sub typ owner n amt ∧ typ.isLock = true ∧ typ.cur = cur) ∧
    (∃ v i, Op.report n to v i true ∈ ops) := by
  have := (run_invH hc ops St.empty [] [] (invH_empty c)).mints n to cur amt (by simpa using h)
  simpa [MintOK] using this

/-
  FULL STATEMENT (false of the code, suspect S21, known finding KF-C15-1):

    theorem mint_to_submitter {c} (hc : c.WF) (ops) (n to cur amt)
        (h : Event.mint n to cur amt ∈ (run c St.empty ops).2) :
        ∃ op ∈ ops, ∃ typ, op.info = .sub typ to n amt ∧ typ.isLock = true

  mintTokens / mintERC20tokens credit `oltTx.Locker`, the beneficiary named by the finality report
  that crosses the threshold, not `tracker.ProcessOwner`.  What the code forces: every report names
  the submitter.
-/

/-- if every finality report names as `Locker` the account that submitted the lock, every mint
    goes to the submitter, in exactly the locked amount -/
theorem mint_to_submitter_partial {c : Cfg} (hc : c.WF) (ops : List Op)
    (honest : ∀ n l v i ok, Op.report n l v i ok ∈ ops →
      ∀ op ∈ ops, ∀ typ o a, op.info = .sub typ o n a → l = o)
    (n : Name) (to : Addr) (cur amt : Nat) (h : Event.mint n to cur amt ∈ (run c St.empty ops).2) :
    ∃ op ∈ ops, ∃ typ, op.info = .sub typ to n amt ∧ typ.isLock = true ∧ typ.cur = cur := by
  obtain ⟨_, ⟨op, hop, typ, owner, hi, hl, hcur⟩, ⟨v, i, hr⟩⟩ :=
    mint_requires_two_thirds_and_locked_amount hc ops n to cur amt h
  have := honest n to v i true hr op hop typ owner amt hi
  subst this
  exact ⟨op, hop, typ, hi, hl, hcur⟩

/-- the step-level fact behind S21: whoever the submitter is, a minting report credits exactly the
    `locker` field of that report -/
theorem mint_credits_the_reports_locker (c : Cfg) (s : St) (n : Name) (locker voter : Addr) (idx : Int) (ok : Bool)
    (m : Name) (to : Addr) (cur amt : Nat)
    (h : Event.mint m to cur amt ∈ (report c s n locker voter idx ok).ev) : m = n ∧ to = locker := by
  have he := report_eff c s n locker voter idx ok
  generalize (report c s n locker voter idx ok).st = st' at he
  generalize (report c s n locker voter idx ok).ev = ev' at he h
  cases he with
  | mint n' t t' l' v' i' o' hi _ _ _ _ _ _ =>
    simp only [OpInfo.rep.injEq] at hi
    obtain ⟨rfl, rfl, rfl, rfl, rfl⟩ := hi
    simp at h; exact ⟨h.1, h.2.1⟩
  | create _ _ _ _ _ _ _ hi => cases hi
  | _ => simp at h

/-- COUNTEREXAMPLE (replayed on the implementation): account 1 locks 40 wei; the third, crossing
    success report names account 2; account 2 is credited, account 1 gets nothing. -/
theorem mint_goes_to_named_locker_not_submitter :
    (run exCfg St.empty exLiar).2 = [.mint 7 2 0 40] ∧
    balGet (run exCfg St.empty exLiar).1.bal 2 0 = 40 ∧ balGet (run exCfg St.empty exLiar).1.bal 1 0 = 0 := by
  decide

example : (run exCfg St.empty exHonest).2 = [.mint 7 1 0 40] := by decide
example : ∀ n l v i ok, Op.report n l v i ok ∈ exHonest → ∀ op ∈ exHonest, ∀ typ o a, op.info = .sub typ o n a → l = o := by
  intro n l v i ok h op hop typ o a hi
  simp [exHonest] at h hop
  rcases hop with rfl | rfl | rfl | rfl | rfl <;> simp [Op.info, subTyp] at hi
  obtain ⟨_, rfl, rfl, _⟩ := hi
  rcases h with ⟨_, rfl, _⟩ | ⟨_, rfl, _⟩ | ⟨_, rfl, _⟩ <;> rfl

/-! ## 4. Mint at most once; one tracker per external transaction -/

/-
  FULL STATEMENTS (false of the code, known finding KF-C15-2):

    theorem mint_at_most_once {c} (hc : c.WF) (ops) (n) : mintCount n (run c St.empty ops).2 ≤ 1
    theorem same_external_tx_one_tracker {c} (hc : c.WF) (ops) (n) :
        let s := (run c St.empty ops).1
        ¬ (has s.ongoing n ∧ has s.passed n) ∧ ¬ (has s.ongoing n ∧ has s.failed n) ∧ ¬ (has s.passed n ∧ has s.failed n)

  runERC20Lock has no existence check at all (it overwrites an ongoing tracker — owner and votes —
  and ignores the passed store), runERC20Reddem does not consult the failed store.  What the code
  forces: `FreshERC ops` — every ERC20 submission carries an external transaction that no earlier
  submission carried.  ETH_LOCK / ETH_REDEEM need no hypothesis: their checks are in the model.
-/

theorem mint_at_most_once_partial {c : Cfg} (hc : c.WF) (ops : List Op) (hf : FreshERC ops) (n : Name) :
    mintCount n (run c St.empty ops).2 ≤ 1 := by
  obtain ⟨u, I⟩ := run_invM hc ops St.empty [] [] (invM_empty c) hf
  simpa using I.once n

/-- at every reachable state an external transaction backs at most one tracker record -/
theorem same_external_tx_one_tracker_partial {c : Cfg} (hc : c.WF) (ops : List Op) (hf : FreshERC ops) (n : Name) :
    ¬ (has (run c St.empty ops).1.ongoing n = true ∧ has (run c St.empty ops).1.passed n = true) ∧
    ¬ (has (run c St.empty ops).1.ongoing n = true ∧ has (run c St.empty ops).1.failed n = true) ∧
    ¬ (has (run c St.empty ops).1.passed n = true ∧ has (run c St.empty ops).1.failed n = true) := by
  obtain ⟨u, I⟩ := run_invM hc ops St.empty [] [] (invM_empty c) hf
  refine ⟨fun h => ?_, fun h => ?_, fun h => ?_⟩
  · have := I.dOP n h.1; rw [h.2] at this; cases this
  · have := I.dOF n h.1; rw [h.2] at this; cases this
  · have := I.dPF n h.1; rw [h.2] at this; cases this

/-- the existence checks of ETH_LOCK: while the external transaction backs an ongoing or a completed
    tracker, a second submission is rejected and changes nothing (any state, any submitter) -/
theorem duplicate_eth_lock_rejected (c : Cfg) (s : St) (pre : Nat) (l : Addr) (n : Name) (a : Nat)
    (h : has s.ongoing n = true ∨ has s.passed n = true) :
    (step c s (.lock false pre l n a)).st = s ∧ (step c s (.lock false pre l n a)).ev = [] ∧
    ∃ r, (step c s (.lock false pre l n a)).res = .fail r := by
  simp only [step, lockEth]
  split; · exact ⟨rfl, rfl, _, rfl⟩
  split; · exact ⟨rfl, rfl, _, rfl⟩
  split; · exact ⟨rfl, rfl, _, rfl⟩
  split; · exact ⟨rfl, rfl, _, rfl⟩
  split
  · exact ⟨rfl, rfl, _, rfl⟩
  · rename_i hex
    rcases h with h | h <;> simp [h] at hex

/-- the existence checks of ETH_REDEEM cover all three stores -/
theorem duplicate_eth_redeem_rejected (c : Cfg) (s : St) (pre : Nat) (tt : Bool) (o : Addr) (n : Name) (a : Nat)
    (hpre : pre ≠ 9) (h : s.knows n = true) :
    (step c s (.redeem false pre tt o n a)).st = s ∧ (step c s (.redeem false pre tt o n a)).ev = [] ∧
    ∃ r, (step c s (.redeem false pre tt o n a)).res = .fail r := by
  simp only [step, redeemEth, hpre, if_false]
  split; · exact ⟨rfl, rfl, _, rfl⟩
  split
  · exact ⟨rfl, rfl, _, rfl⟩
  · split
    · exact ⟨rfl, rfl, _, rfl⟩
    · split
      · exact ⟨rfl, rfl, _, rfl⟩
      · rename_i hex
        simp only [St.knows, Bool.or_eq_true] at h
        simp only [Bool.or_eq_true, not_or, Bool.not_eq_true] at hex
        rcases h with (h | h) | h
        · rw [hex.1.1] at h; cases h
        · rw [hex.2] at h; cases h
        · rw [hex.1.2] at h; cases h

/-- COUNTEREXAMPLE (replayed on the implementation): the same ERC20 lock transaction is accepted
    again after it completed; the witnesses, who see the same final Ethereum transaction, report
    success again and the 30 tokens are minted a second time; the name then sits in the ongoing
    and in the passed store. -/
theorem erc20_lock_resubmission_mints_twice :
    mintCount 8 (run exCfg St.empty exDoubleMint).2 = 2 ∧
    balGet (run exCfg St.empty exDoubleMint).1.bal 1 1 = 60 ∧
    has (run exCfg St.empty exDoubleMint).1.ongoing 8 = true ∧ has (run exCfg St.empty exDoubleMint).1.passed 8 = true ∧
    ¬ FreshERC exDoubleMint := by
  decide

example : FreshERC exHonest ∧ FreshERC exRefund ∧ mintCount 7 (run exCfg St.empty exRefund).2 = 1 := by decide
-- the hypotheses of the two rejection theorems hold on reachable states (ongoing, then completed)
example : has (run exCfg St.empty (exHonest.take 2)).1.ongoing 7 = true ∧ has (run exCfg St.empty exHonest).1.passed 7 = true ∧
    (step exCfg (run exCfg St.empty exHonest).1 (.lock false 0 2 7 40)).res = .fail "exists" ∧
    (run exCfg St.empty exHonest).1.knows 7 = true ∧
    (step exCfg (run exCfg St.empty exHonest).1 (.redeem false 0 false 1 7 5)).res = .fail "exists" := by decide

/-! ## 5. Redeem: debit with the tracker, refund once, to the owner, only after two thirds said no -/

/-- An accepted redeem (ETH or ERC20) debits the owner and the supply counter by exactly the
    redeemed amount in the very step that creates the tracker; a rejected one changes nothing: in
    no state does a redeem tracker exist whose tokens were not debited. -/
theorem redeem_debits_before_tracker (c : Cfg) (s : St) (erc : Bool) (pre : Nat) (tt : Bool) (o : Addr) (n : Name) (a : Nat) :
    let out := step c s (.redeem erc pre tt o n a)
    (out.st = s ∧ out.ev = []) ∨
    (∃ b1, balSub s.bal o (subTyp true erc).cur a = some b1 ∧
       balSub b1 c.supply (subTyp true erc).cur a = some out.st.bal ∧
       out.ev = [.debit n o (subTyp true erc).cur a] ∧
       alookup n out.st.ongoing = some (newTracker (subTyp true erc) o n a (erc && tt) c.witnesses) ∧
       (a : Int) ≤ balGet s.bal o (subTyp true erc).cur) := by
  intro out
  have hle : ∀ (b b1 : Bal) (cu : Nat), balSub b o cu a = some b1 → (a : Int) ≤ balGet b o cu := by
    intro b b1 cu hb
    unfold balSub at hb
    split at hb
    · cases hb
    · omega
  cases erc
  · have : out = redeemEth c s pre o n a := rfl
    rw [this]; unfold redeemEth
    split; · exact Or.inl ⟨rfl, rfl⟩
    split; · exact Or.inl ⟨rfl, rfl⟩
    split
    · exact Or.inl ⟨rfl, rfl⟩
    · rename_i b1 hb1
      split
      · exact Or.inl ⟨rfl, rfl⟩
      · rename_i b2 hb2
        split
        · exact Or.inl ⟨rfl, rfl⟩
        · exact Or.inr ⟨b1, hb1, hb2, rfl, by simp [subTyp], hle _ _ _ hb1⟩
  · have : out = redeemErc c s pre tt o n a := rfl
    rw [this]; unfold redeemErc
    split; · exact Or.inl ⟨rfl, rfl⟩
    split; · exact Or.inl ⟨rfl, rfl⟩
    split
    · exact Or.inl ⟨rfl, rfl⟩
    · rename_i b1 hb1
      split
      · exact Or.inl ⟨rfl, rfl⟩
      · rename_i b2 hb2
        split
        · exact Or.inl ⟨rfl, rfl⟩
        · exact Or.inr ⟨b1, hb1, hb2, rfl, by simp [subTyp], hle _ _ _ hb1⟩

/-- at most one refund per external transaction, for every history (no hypothesis needed) -/
theorem refund_at_most_once {c : Cfg} (hc : c.WF) (ops : List Op) (n : Name) :
    refundCount n (run c St.empty ops).2 ≤ 1 := by
  simpa using (run_invR hc ops St.empty [] (invR_empty c)).once n

/-- every refund is justified: more than two thirds of the recorded witnesses (pairwise different)
    reported failure, and it pays the account that submitted an ETH redeem of this external
    transaction exactly the redeemed amount, in ETH -/
theorem refund_requires_two_thirds_no_and_pays_owner {c : Cfg} (hc : c.WF) (ops : List Op)
    (n : Name) (to : Addr) (cur amt : Nat) (h : Event.refund n to cur amt ∈ (run c St.empty ops).2) :
    TwoThirds c ops n false ∧ (∃ op ∈ ops, op.info = .sub .redeem to n amt) ∧ cur = 0 := by
  have := (run_invH hc ops St.empty [] [] (invH_empty c)).refunds n to cur amt (by simpa using h)
  simpa [RefundOK] using this

-- an accepted redeem: the second disjunct of `redeem_debits_before_tracker` occurs (balance 40 -> 15, counter 40 -> 15)
example : (step exCfg (run exCfg St.empty exHonest).1 (.redeem false 0 false 1 9 25)).ev = [.debit 9 1 0 25] ∧
    balGet (step exCfg (run exCfg St.empty exHonest).1 (.redeem false 0 false 1 9 25)).st.bal 1 0 = 15 ∧
    balGet (step exCfg (run exCfg St.empty exHonest).1 (.redeem false 0 false 1 9 25)).st.bal 99 0 = 15 := by decide
example : (run exCfg St.empty exRefund).2 = [.mint 7 1 0 40, .debit 9 1 0 25, .refund 9 1 0 25] ∧
    balGet (run exCfg St.empty exRefund).1.bal 1 0 = 40 ∧ has (run exCfg St.empty exRefund).1.failed 9 = true := by
  decide

/-! ## 6. Every counted vote was sent by its witness -/

/-- in every reachable state, every non-empty vote slot `j` of every ongoing tracker was filled by a
    report that the witness recorded at `j` sent for this tracker under index `j`, with the recorded
    verdict -/
theorem counted_votes_are_witness_reports {c : Cfg} (hc : c.WF) (ops : List Op) (n : Name) (t : Tracker)
    (h : alookup n (run c St.empty ops).1.ongoing = some t) (j v : Nat) (hv : t.votes[j]? = some v) (h0 : v ≠ 0) :
    ∃ l w ok, t.witnesses[j]? = some w ∧ v = (if ok then 1 else 2) ∧ Op.report n l w (j : Int) ok ∈ ops := by
  have := (run_invH hc ops St.empty [] [] (invH_empty c)).backed n t h j v hv h0
  simpa using this

-- a reachable state with counted votes (slots 0 and 1 filled by witnesses 11 and 12)
example : (alookup 7 (run exCfg St.empty (exHonest.take 3)).1.ongoing).map (·.votes) = some [1, 1, 0] := by decide

/-- an ongoing tracker's owner, type and amount are those of a submission of the history -/
theorem tracker_comes_from_submission {c : Cfg} (hc : c.WF) (ops : List Op) (n : Name) (t : Tracker)
    (h : alookup n (run c St.empty ops).1.ongoing = some t) :
    ∃ op ∈ ops, op.info = .sub t.typ t.owner n t.amount := by
  have := (run_invH hc ops St.empty [] [] (invH_empty c)).origin n t h
  simpa using this

/-! ## 7. The supply counter equals the wrapped tokens in circulation -/

/-
  FULL STATEMENT (false of the code in one corner): the counter equals the circulation after every
  history.  A finality report may name the supply address itself as `Locker` (S21 again): the mint
  then raises the counter twice and the circulation not at all.  What the code forces: no
  submitter, named beneficiary, sender or receiver is the supply address (`Op.avoids`); submitters
  and senders cannot be (nobody holds a key for that address, SEND validation refuses the
  22-byte address), the report's `Locker` can.
-/
theorem supply_eq_circulation_partial {c : Cfg} (hc : c.WF) (ops : List Op)
    (hav : ∀ op ∈ ops, op.avoids c.supply = true) (cur : Nat) :
    balGet (run c St.empty ops).1.bal c.supply cur = circ c.supply cur (run c St.empty ops).1.bal ∧
    (akeys (run c St.empty ops).1.bal).Nodup := by
  have I := run_invS hc ops St.empty (invS_empty c) hav
  have := I.eq cur
  unfold gap at this
  exact ⟨by omega, I.nodup⟩

/-- COUNTEREXAMPLE: the crossing report names the supply address 99: counter 80, circulation 0 -/
theorem lying_locker_can_double_count_the_supply :
    let ops : List Op := [.lock false 0 1 7 40, .report 7 1 11 0 true, .report 7 1 12 1 true, .report 7 99 13 2 true]
    balGet (run exCfg St.empty ops).1.bal 99 0 = 80 ∧ circ 99 0 (run exCfg St.empty ops).1.bal = 0 := by
  decide

example : (∀ op ∈ exRefund, op.avoids exCfg.supply = true) ∧
    balGet (run exCfg St.empty exRefund).1.bal 99 0 = 40 ∧ circ 99 0 (run exCfg St.empty exRefund).1.bal = 40 := by
  decide

end OLP.Props.C15

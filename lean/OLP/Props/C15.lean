/-
  C15 — Cross-chain lock/redeem: threshold-gated, exactly-once mint and refund.

  Property theorems only (helper lemmas: OLP/Eth/Lemmas.lean).  All statements are about the
  executable model `OLP.Eth` (OLP/Eth/Model.lean), a port of data/ethereum/tracker.go,
  action/eth/{ext_lock,ext_redeem,ext_ERC20Lock,ext_ERC20redeem,check_finalty}.go,
  event/eth_{lock,redeem}_transitions.go and app/controller.go doEthTransitions, which the
  `ethtrk` correspondence engine compares with the real application on every run.

  Vocabulary: `run c St.empty ops` executes an arbitrary list of transactions and block ends from
  the empty state and returns the final state and the ghost list of value movements
  (`Event.mint/refund/debit/xfer`); `mintCount n evs` / `refundCount n evs` count the mints /
  refunds for the external transaction (tracker name) `n`; `TwoThirds c ops n ok` says that
  pairwise different recorded witnesses, more than two thirds of the witness list, each sent a
  report with verdict `ok` for `n` somewhere in `ops`.

  History: three points of the property were false of the code as first read (mint credited the
  report's `Locker`; runERC20Lock had no existence check; runERC20Reddem ignored the failed store).
  All were confirmed on the implementation by this slice and repaired in /repo (0a509b2, 9de5f06,
  efdfa81); the model follows the repaired code and `mint_to_submitter`, `mint_at_most_once` and
  `same_external_tx_one_tracker` are now proved at full strength, with the former counterexample
  histories kept as regression examples.  One `_partial` theorem remains
  (`supply_eq_circulation_partial`), with the reason in a comment.
-/
import OLP.Eth.Lemmas

namespace OLP.Props.C15
open OLP OLP.Eth

/-! ## 1. Votes: only the slot of the matching witness, only once -/

/-- An accepted vote either changes nothing or fills the *empty* slot `idx`, and then the sender
    is the witness recorded at that very index.  (AddVote) -/
theorem vote_only_own_slot_once {t t' : Tracker} {a : Addr} {idx : Int} {v : Bool} (wf : t.WF)
    (h : addVote t a idx v = .ok t') :
    t' = t ∨ (∃ i : Nat, idx = (i : Int) ∧ t.witnesses[i]? = some a ∧ t.votes[i]? = some 0 ∧
      t' = { t with votes := t.votes.set i (if v then 1 else 2) }) :=
  addVote_ok_cases wf h

/-- the vote of an address that is not a recorded witness never counts -/
theorem nonwitness_vote_does_not_count {t t' : Tracker} {a : Addr} {idx : Int} {v : Bool} (wf : t.WF)
    (ha : a ∉ t.witnesses) (h : addVote t a idx v = .ok t') : t' = t := by
  rcases addVote_ok_cases wf h with e | ⟨i, _, hw, _, _⟩
  · exact e
  · exact absurd (List.mem_of_getElem? hw) ha

/-- a witness voting under somebody else's index changes nothing -/
theorem wrong_index_does_not_count {t t' : Tracker} {a w : Addr} {i : Nat} {v : Bool} (wf : t.WF)
    (hw : t.witnesses[i]? = some w) (hne : w ≠ a) (h : addVote t a (i : Int) v = .ok t') : t' = t := by
  rcases addVote_ok_cases wf h with e | ⟨j, hj, hw', _, _⟩
  · exact e
  · have : i = j := by omega
    subst this; rw [hw] at hw'; cases hw'; exact absurd rfl hne

/-- a witness whose slot is already filled is refused (whatever index and verdict it sends) -/
theorem second_vote_refused {t : Tracker} {a : Addr} {i : Nat} {x : Nat} (idx : Int) (v : Bool)
    (hi : firstIdx t.witnesses a = some i) (hx : t.votes[i]? = some x) (hpos : x > 0)
    (hidx : idx < (t.witnesses.length : Int)) : addVote t a idx v = .err := by
  unfold addVote
  have : ¬ ((t.witnesses.length : Int) ≤ idx) := by omega
  simp [this, hi, hx, hpos]

theorem yes_count_monotone {t t' : Tracker} {a : Addr} {idx : Int} {v : Bool} (wf : t.WF)
    (h : addVote t a idx v = .ok t') : t.yes ≤ t'.yes ∧ (t.yes < t'.yes → v = true) :=
  ⟨(addVote_ok_counts wf h).1, (addVote_ok_counts wf h).2.2.2.2.1⟩

theorem no_count_monotone {t t' : Tracker} {a : Addr} {idx : Int} {v : Bool} (wf : t.WF)
    (h : addVote t a idx v = .ok t') : t.no ≤ t'.no ∧ (t.no < t'.no → v = false) :=
  ⟨(addVote_ok_counts wf h).2.1, (addVote_ok_counts wf h).2.2.2.2.2⟩

/-- `Finalized`/`Failed` need floor(2n/3)+1 votes: strictly more than two thirds, and minimal -/
theorem threshold_is_more_than_two_thirds (t : Tracker) :
    2 * t.witnesses.length < 3 * t.threshold ∧ 3 * (t.threshold - 1) ≤ 2 * t.witnesses.length ∧
    (t.finalized = true ↔ t.threshold ≤ t.yes) ∧ (t.failedV = true ↔ t.threshold ≤ t.no) :=
  ⟨(threshold_more_than_two_thirds t).1, (threshold_more_than_two_thirds t).2,
   by simp [Tracker.finalized], by simp [Tracker.failedV]⟩

/-- a tracker cannot be both finalized and failed -/
theorem never_both_decided (t : Tracker) (wf : t.WF) : ¬ (t.finalized = true ∧ t.failedV = true) :=
  not_finalized_and_failed t wf.len

/-- on a well-formed record a non-negative VoteIndex never panics (the negative index does: C18) -/
theorem vote_never_panics {t : Tracker} (wf : t.WF) (a : Addr) {idx : Int} (hidx : 0 ≤ idx) (v : Bool) :
    addVote t a idx v ≠ .panic := addVote_no_panic wf a hidx v

example : (newTracker .lock 1 7 40 false [11, 12, 13]).WF := ⟨by decide, by decide⟩
example : addVote (newTracker .lock 1 7 40 false [11, 12, 13]) 12 1 true =
    .ok { newTracker .lock 1 7 40 false [11, 12, 13] with votes := [0, 1, 0] } := by decide
example : addVote (newTracker .lock 1 7 40 false [11, 12, 13]) 12 0 true =
    .ok (newTracker .lock 1 7 40 false [11, 12, 13]) := by decide          -- wrong index: no-op
example : addVote (newTracker .lock 1 7 40 false [11, 12, 13]) 55 1 true =
    .ok (newTracker .lock 1 7 40 false [11, 12, 13]) := by decide          -- stranger: no-op
example : addVote { newTracker .lock 1 7 40 false [11, 12, 13] with votes := [0, 2, 0] } 12 1 true = .err := by
  decide                                                                   -- second vote refused
example : addVote (newTracker .lock 1 7 40 false [11, 12, 13]) 12 (-1) true = .panic := by decide

/-! ## 2. Reachable states are well formed; the block end never panics and moves no value -/

/-- every state reachable from the empty state is well formed: one vote slot per witness, the
    witness list is the genesis list, a finalized record is Released, no record is ever in the
    state `Finalized` (whose next step, MINTING / BURN, is not a registered transition) -/
theorem wf_reachable {c : Cfg} (hc : c.WF) (ops : List Op) : St.WF c (run c St.empty ops).1 :=
  (run_invR hc ops St.empty [] (invR_empty c)).wf

/-- doEthTransitions never hits the unregistered transition and never dereferences a missing
    tracker, for every set of distinct ongoing names the iteration yields (since 7ff9062 there is no
    job-store behaviour left to quantify over) -/
theorem endBlock_never_panics {c : Cfg} (hc : c.WF) (ops : List Op) (ns : List Name) (hnd : ns.Nodup)
    (hin : ∀ n ∈ ns, has (run c St.empty ops).1.ongoing n = true) :
    (step c (run c St.empty ops).1 (.endBlock ns)).res ≠ .panic := by
  obtain ⟨s', h⟩ := endNames_some ns (wf_reachable hc ops) hnd hin
  simp [step, h]

/-- The block-end step is a function of chain state only (repair 7ff9062; this was suspect S3, which
    made a restarted witness diverge): its only inputs are the state and the names the iteration of
    the ongoing store yields — the keys of the committed tree, chain state as well.  There is no
    witness-role or job-store input any more (`Op.endBlock` lost its `jobErr` argument, `transition`
    its flag), and not even the configuration matters.  That the implementation is such a function
    is what the engine checks: the same model agrees with witness and non-witness nodes and with
    nodes whose witness role flips mid-history, so that their job store lacks the jobs. -/
theorem block_end_is_a_function_of_chain_state (c c' : Cfg) (s : St) (ns : List Name) :
    step c s (.endBlock ns) = step c' s (.endBlock ns) := rfl

/-- the transition of a tracker at the block end is determined by its type, state and votes -/
theorem transition_depends_on_record_only (t u : Tracker) (h1 : t.typ = u.typ) (h2 : t.state = u.state)
    (h3 : t.votes = u.votes) (h4 : t.witnesses = u.witnesses) :
    (transition t = .none ↔ transition u = .none) ∧ (transition t = .toPassed ↔ transition u = .toPassed) ∧
    (transition t = .toFailed ↔ transition u = .toFailed) ∧ (transition t = .panic ↔ transition u = .panic) := by
  have hy : t.yes = u.yes := by simp [Tracker.yes, h3]
  have hn : t.no = u.no := by simp [Tracker.no, h3]
  have hf : t.finalized = u.finalized := by unfold Tracker.finalized Tracker.threshold; rw [hy, h4]
  unfold transition
  rw [h1, h2, hy, hn, hf]
  cases u.typ.isLock <;> cases u.state <;> simp <;> split <;> simp

/-- no wrapped balance changes at the block end (in particular nothing is minted there) -/
theorem block_end_moves_no_value (c : Cfg) (s : St) (ns : List Name) :
    (step c s (.endBlock ns)).st.bal = s.bal ∧ (step c s (.endBlock ns)).ev = [] := by
  simp only [step]
  split
  · exact ⟨rfl, rfl⟩
  · rename_i s' h; exact ⟨endNames_bal _ h, rfl⟩

/-- after the block end no visited tracker is left Released or Failed in the ongoing store -/
theorem block_end_archives_every_decided_tracker {c : Cfg} (hc : c.WF) (ops : List Op) (ns : List Name)
    (hnd : ns.Nodup) (hin : ∀ n ∈ ns, has (run c St.empty ops).1.ongoing n = true) (n : Name) (hn : n ∈ ns)
    (t : Tracker) (h : alookup n (step c (run c St.empty ops).1 (.endBlock ns)).st.ongoing = some t) :
    t.state ≠ .released ∧ t.state ≠ .failed := by
  obtain ⟨s', hs⟩ := endNames_some ns (wf_reachable hc ops) hnd hin
  simp only [step, hs] at h
  have key : ¬ t.decided := fun hd => (endNames_decided ns (wf_reachable hc ops) hs n t h hd).1 hn
  exact ⟨fun e => key (Or.inl e), fun e => key (Or.inr e)⟩

/-- Cleanup: a Released record is moved to the passed store (cleaned) and leaves the ongoing store -/
theorem cleanup_moves_released {s : St} {t : Tracker} {n : Name}
    (hget : alookup n s.ongoing = some t) (hst : t.state = .released) :
    endOne s n = some { s with passed := upsert s.passed n t.clean, ongoing := aerase s.ongoing n } := by
  unfold endOne; rw [hget]; simp only
  rw [transition_released hst]

/-- CleanupFailed: a Failed record is moved to the failed store -/
theorem cleanup_moves_failed {s : St} {t : Tracker} {n : Name}
    (hget : alookup n s.ongoing = some t) (hst : t.state = .failed) :
    endOne s n = some { s with failed := upsert s.failed n t.clean, ongoing := aerase s.ongoing n } := by
  unfold endOne; rw [hget]; simp only
  rw [transition_failed hst]

example : has (run exCfg St.empty exHonest).1.passed 7 = true ∧ has (run exCfg St.empty exHonest).1.ongoing 7 = false := by
  decide
-- the hypotheses of `endBlock_never_panics` / `block_end_archives_every_decided_tracker` hold on a reachable state
example : [7].Nodup ∧ (∀ n ∈ [7], has (run exCfg St.empty (exHonest.take 4)).1.ongoing n = true) ∧
    (step exCfg (run exCfg St.empty (exHonest.take 4)).1 (.endBlock [7])).res = .ok "end" := by decide
-- a Released record: the hypotheses of `cleanup_moves_released`
example : (alookup 7 (run exCfg St.empty (exHonest.take 4)).1.ongoing).map (·.state) = some .released := by decide

/-! ## 3. Mint: only after more than two thirds reported success, exactly the locked amount, to the submitter -/

/-- Every mint of every history is justified by the history: pairwise different recorded witnesses,
    more than two thirds of the list, each reported success for this tracker (so reports of
    non-witnesses, repeated reports and reports under a wrong index did not count); and the
    beneficiary itself submitted a lock of this external transaction with exactly the minted amount
    and currency. -/
theorem mint_requires_two_thirds_and_locked_amount {c : Cfg} (hc : c.WF) (ops : List Op)
    (n : Name) (to : Addr) (cur amt : Nat) (h : Event.mint n to cur amt ∈ (run c St.empty ops).2) :
    TwoThirds c ops n true ∧
    (∃ op ∈ ops, ∃ typ, op.info = .sub typ to n amt ∧ typ.isLock = true ∧ typ.cur = cur) := by
  have := (run_invH hc ops St.empty [] [] (invH_empty c)).mints n to cur amt (by simpa using h)
  simpa [MintOK] using this

/-- every mint goes to an account that submitted the lock, in exactly the locked amount (full
    strength since repair 0a509b2; formerly `mint_to_submitter_partial`) -/
theorem mint_to_submitter {c : Cfg} (hc : c.WF) (ops : List Op)
    (n : Name) (to : Addr) (cur amt : Nat) (h : Event.mint n to cur amt ∈ (run c St.empty ops).2) :
    ∃ op ∈ ops, ∃ typ, op.info = .sub typ to n amt ∧ typ.isLock = true ∧ typ.cur = cur :=
  (mint_requires_two_thirds_and_locked_amount hc ops n to cur amt h).2

/-- the `Locker` field of a finality report has no influence at all -/
theorem report_ignores_the_locker_field (c : Cfg) (s : St) (n : Name) (l1 l2 voter : Addr) (idx : Int) (ok : Bool) :
    report c s n l1 voter idx ok = report c s n l2 voter idx ok := rfl

/-- a minting report credits the owner recorded in the tracker -/
theorem mint_credits_the_tracker_owner {c : Cfg} (hc : c.WF) {s : St} (wf : St.WF c s) (n : Name)
    (locker voter : Addr) (idx : Int) (ok : Bool) (m : Name) (to : Addr) (cur amt : Nat)
    (h : Event.mint m to cur amt ∈ (report c s n locker voter idx ok).ev) :
    m = n ∧ ∃ t, alookup n s.ongoing = some t ∧ to = t.owner ∧ amt = t.amount := by
  have he := eff2_of_eff hc wf (report_eff c s n locker voter idx ok)
  cases he with
  | noop _ h2 => rw [h2] at h; simp at h
  | create _ _ _ _ _ hi => cases hi
  | xfer _ _ _ _ _ hi => cases hi
  | rep n' l' v' i' o' t t' X hi hr =>
    simp only [OpInfo.rep.injEq] at hi
    obtain ⟨rfl, rfl, rfl, rfl, rfl⟩ := hi
    rcases hr.kind with ⟨hev, _⟩ | ⟨hev, _⟩ | ⟨hev, _⟩
    · rw [hev] at h; simp at h
    · rw [hev] at h; simp at h
      exact ⟨h.1, t, hr.vs.hget, h.2.1, h.2.2.2⟩
    · rw [hev] at h; simp at h

/-- REGRESSION EXAMPLE (was the counterexample of KF-C15-1, replayed on the implementation as a
    scripted scenario): account 1 locks 40 wei; the crossing success report names account 2;
    account 1 is credited, account 2 gets nothing. -/
theorem lying_report_is_harmless :
    (run exCfg St.empty exLiar).2 = [.mint 7 1 0 40] ∧
    balGet (run exCfg St.empty exLiar).1.bal 1 0 = 40 ∧ balGet (run exCfg St.empty exLiar).1.bal 2 0 = 0 := by
  decide

example : (run exCfg St.empty exHonest).2 = [.mint 7 1 0 40] := by decide

/-! ## 4. Mint at most once; one tracker per external transaction -/

/-- at most one mint per external transaction, for every history (full strength since repair
    9de5f06; formerly `mint_at_most_once_partial`) -/
theorem mint_at_most_once {c : Cfg} (hc : c.WF) (ops : List Op) (n : Name) :
    mintCount n (run c St.empty ops).2 ≤ 1 := by
  simpa using (run_invM hc ops St.empty [] (invM_empty c)).once n

/-- in no reachable state does an external transaction back an ongoing tracker and a completed one
    (full strength) -/
theorem never_ongoing_and_completed {c : Cfg} (hc : c.WF) (ops : List Op) (n : Name) :
    ¬ (has (run c St.empty ops).1.ongoing n = true ∧ has (run c St.empty ops).1.passed n = true) := by
  intro h
  have := (run_invM hc ops St.empty [] (invM_empty c)).dOP n h.1
  rw [h.2] at this; cases this

/-- at every reachable state an external transaction backs at most one tracker record across the
    three stores (full strength since repairs 9de5f06 and efdfa81; formerly
    `same_external_tx_one_tracker_partial` under a freshness hypothesis for ERC20 submissions) -/
theorem same_external_tx_one_tracker {c : Cfg} (hc : c.WF) (ops : List Op) (n : Name) :
    ¬ (has (run c St.empty ops).1.ongoing n = true ∧ has (run c St.empty ops).1.passed n = true) ∧
    ¬ (has (run c St.empty ops).1.ongoing n = true ∧ has (run c St.empty ops).1.failed n = true) ∧
    ¬ (has (run c St.empty ops).1.passed n = true ∧ has (run c St.empty ops).1.failed n = true) := by
  have I := run_invD hc ops St.empty (invD_empty c)
  refine ⟨fun h => ?_, fun h => ?_, fun h => ?_⟩
  · have := I.dOP n h.1; rw [h.2] at this; cases this
  · have := I.dOF n h.1; rw [h.2] at this; cases this
  · have := I.dPF n h.1; rw [h.2] at this; cases this

/-- REGRESSION EXAMPLE (was the counterexample for the hypothesis runERC20Reddem forced, replayed on
    the implementation as a scripted scenario): after a failed ETH redeem of external transaction 9
    an ERC20 redeem carrying the same transaction is refused; 9 stays in the failed store only and
    no token is debited. -/
theorem erc20_redeem_after_failed_redeem_is_refused :
    has (run exCfg St.empty exTwoRecords).1.ongoing 9 = false ∧ has (run exCfg St.empty exTwoRecords).1.failed 9 = true ∧
    balGet (run exCfg St.empty exTwoRecords).1.bal 1 1 = 30 ∧ refundCount 9 (run exCfg St.empty exTwoRecords).2 = 1 := by
  decide

/-- the existence checks of ERC20_REDEEM now cover all three stores as well -/
theorem duplicate_erc20_redeem_rejected (c : Cfg) (s : St) (pre : Nat) (tt : Bool) (o : Addr) (n : Name) (a : Nat)
    (h : s.knows n = true) :
    (step c s (.redeem true pre tt o n a)).st = s ∧ (step c s (.redeem true pre tt o n a)).ev = [] ∧
    ∃ r, (step c s (.redeem true pre tt o n a)).res = .fail r := by
  simp only [step, redeemErc]
  split; · exact ⟨rfl, rfl, _, rfl⟩
  split
  · exact ⟨rfl, rfl, _, rfl⟩
  · split
    · exact ⟨rfl, rfl, _, rfl⟩
    · split
      · exact ⟨rfl, rfl, _, rfl⟩
      · rename_i hex
        simp only [St.knows, Bool.or_eq_true] at h
        simp only [Bool.or_eq_true, not_or, Bool.not_eq_true] at hex
        rcases h with (h | h) | h
        · rw [hex.1.1] at h; cases h
        · rw [hex.2] at h; cases h
        · rw [hex.1.2] at h; cases h

/-- the existence checks of ETH_LOCK: while the external transaction backs an ongoing or a completed
    tracker, a second submission is rejected and changes nothing (any state, any submitter) -/
theorem duplicate_eth_lock_rejected (c : Cfg) (s : St) (pre : Nat) (l : Addr) (n : Name) (a : Nat)
    (h : has s.ongoing n = true ∨ has s.passed n = true) :
    (step c s (.lock false pre l n a)).st = s ∧ (step c s (.lock false pre l n a)).ev = [] ∧
    ∃ r, (step c s (.lock false pre l n a)).res = .fail r := by
  simp only [step, lockEth]
  split; · exact ⟨rfl, rfl, _, rfl⟩
  split; · exact ⟨rfl, rfl, _, rfl⟩
  split; · exact ⟨rfl, rfl, _, rfl⟩
  split; · exact ⟨rfl, rfl, _, rfl⟩
  split
  · exact ⟨rfl, rfl, _, rfl⟩
  · rename_i hex
    rcases h with h | h <;> simp [h] at hex

/-- the existence checks of ETH_REDEEM cover all three stores -/
theorem duplicate_eth_redeem_rejected (c : Cfg) (s : St) (pre : Nat) (tt : Bool) (o : Addr) (n : Name) (a : Nat)
    (h : s.knows n = true) :
    (step c s (.redeem false pre tt o n a)).st = s ∧ (step c s (.redeem false pre tt o n a)).ev = [] ∧
    ∃ r, (step c s (.redeem false pre tt o n a)).res = .fail r := by
  simp only [step, redeemEth]
  split; · exact ⟨rfl, rfl, _, rfl⟩
  split
  · exact ⟨rfl, rfl, _, rfl⟩
  · split
    · exact ⟨rfl, rfl, _, rfl⟩
    · split
      · exact ⟨rfl, rfl, _, rfl⟩
      · rename_i hex
        simp only [St.knows, Bool.or_eq_true] at h
        simp only [Bool.or_eq_true, not_or, Bool.not_eq_true] at hex
        rcases h with (h | h) | h
        · rw [hex.1.1] at h; cases h
        · rw [hex.2] at h; cases h
        · rw [hex.1.2] at h; cases h

/-- the same for ERC20_LOCK (repair 9de5f06): a resubmission changes nothing and moves no value -/
theorem duplicate_erc20_lock_rejected (c : Cfg) (s : St) (pre : Nat) (l : Addr) (n : Name) (a : Nat)
    (h : has s.ongoing n = true ∨ has s.passed n = true) :
    (step c s (.lock true pre l n a)).st = s ∧ (step c s (.lock true pre l n a)).ev = [] ∧
    ∀ b, (step c s (.lock true pre l n a)).res ≠ .ok b := by
  simp only [step, lockErc]
  split; · exact ⟨rfl, rfl, by simp [failOut]⟩
  split; · exact ⟨rfl, rfl, by simp [failOut]⟩
  split; · exact ⟨rfl, rfl, by simp [failOut]⟩
  split; · exact ⟨rfl, rfl, by simp [failOut]⟩
  split
  · exact ⟨rfl, rfl, by simp [failOut]⟩
  · rename_i hex
    rcases h with h | h <;> simp [h] at hex

/-- REGRESSION EXAMPLE (was the counterexample of KF-C15-2, replayed on the implementation as a
    scripted scenario): the ERC20 lock transaction 8 is resubmitted after it completed; it is
    refused, the later reports find no tracker, 30 tokens were minted once. -/
theorem erc20_lock_resubmission_is_refused :
    mintCount 8 (run exCfg St.empty exDoubleMint).2 = 1 ∧
    balGet (run exCfg St.empty exDoubleMint).1.bal 1 1 = 30 ∧
    has (run exCfg St.empty exDoubleMint).1.ongoing 8 = false ∧ has (run exCfg St.empty exDoubleMint).1.passed 8 = true := by
  decide

example : mintCount 7 (run exCfg St.empty exRefund).2 = 1 := by decide
-- the hypotheses of the rejection theorems hold on reachable states (ongoing, then completed)
example : has (run exCfg St.empty (exHonest.take 2)).1.ongoing 7 = true ∧ has (run exCfg St.empty exHonest).1.passed 7 = true ∧
    (step exCfg (run exCfg St.empty exHonest).1 (.lock false 0 2 7 40)).res = .fail "exists" ∧
    (step exCfg (run exCfg St.empty exHonest).1 (.lock true 0 2 7 40)).res = .fail "exists" ∧
    (run exCfg St.empty exHonest).1.knows 7 = true ∧
    (step exCfg (run exCfg St.empty exHonest).1 (.redeem false 0 false 1 7 5)).res = .fail "exists" := by decide

/-! ## 5. Redeem: debit with the tracker, refund once, to the owner, only after two thirds said no -/

/-- An accepted redeem (ETH or ERC20) debits the owner and the supply counter by exactly the
    redeemed amount in the very step that creates the tracker; a rejected one changes nothing: in
    no state does a redeem tracker exist whose tokens were not debited. -/
theorem redeem_debits_before_tracker (c : Cfg) (s : St) (erc : Bool) (pre : Nat) (tt : Bool) (o : Addr) (n : Name) (a : Nat) :
    let out := step c s (.redeem erc pre tt o n a)
    (out.st = s ∧ out.ev = []) ∨
    (∃ b1, balSub s.bal o (subTyp true erc).cur a = some b1 ∧
       balSub b1 c.supply (subTyp true erc).cur a = some out.st.bal ∧
       out.ev = [.debit n o (subTyp true erc).cur a] ∧
       alookup n out.st.ongoing = some (newTracker (subTyp true erc) o n a (erc && tt) c.witnesses) ∧
       (a : Int) ≤ balGet s.bal o (subTyp true erc).cur) := by
  intro out
  have hle : ∀ (b b1 : Bal) (cu : Nat), balSub b o cu a = some b1 → (a : Int) ≤ balGet b o cu := by
    intro b b1 cu hb
    unfold balSub at hb
    split at hb
    · cases hb
    · omega
  cases erc
  · have : out = redeemEth c s pre o n a := rfl
    rw [this]; unfold redeemEth
    split; · exact Or.inl ⟨rfl, rfl⟩
    split
    · exact Or.inl ⟨rfl, rfl⟩
    · rename_i b1 hb1
      split
      · exact Or.inl ⟨rfl, rfl⟩
      · rename_i b2 hb2
        split
        · exact Or.inl ⟨rfl, rfl⟩
        · exact Or.inr ⟨b1, hb1, hb2, rfl, by simp [subTyp], hle _ _ _ hb1⟩
  · have : out = redeemErc c s pre tt o n a := rfl
    rw [this]; unfold redeemErc
    split; · exact Or.inl ⟨rfl, rfl⟩
    split
    · exact Or.inl ⟨rfl, rfl⟩
    · rename_i b1 hb1
      split
      · exact Or.inl ⟨rfl, rfl⟩
      · rename_i b2 hb2
        split
        · exact Or.inl ⟨rfl, rfl⟩
        · exact Or.inr ⟨b1, hb1, hb2, rfl, by simp [subTyp], hle _ _ _ hb1⟩

/-- at most one refund per external transaction, for every history (no hypothesis needed) -/
theorem refund_at_most_once {c : Cfg} (hc : c.WF) (ops : List Op) (n : Name) :
    refundCount n (run c St.empty ops).2 ≤ 1 := by
  simpa using (run_invR hc ops St.empty [] (invR_empty c)).once n

/-- every refund is justified: more than two thirds of the recorded witnesses (pairwise different)
    reported failure, and it pays the account that submitted an ETH redeem of this external
    transaction exactly the redeemed amount, in ETH -/
theorem refund_requires_two_thirds_no_and_pays_owner {c : Cfg} (hc : c.WF) (ops : List Op)
    (n : Name) (to : Addr) (cur amt : Nat) (h : Event.refund n to cur amt ∈ (run c St.empty ops).2) :
    TwoThirds c ops n false ∧ (∃ op ∈ ops, op.info = .sub .redeem to n amt) ∧ cur = 0 := by
  have := (run_invH hc ops St.empty [] [] (invH_empty c)).refunds n to cur amt (by simpa using h)
  simpa [RefundOK] using this

-- an accepted redeem: the second disjunct of `redeem_debits_before_tracker` occurs (balance 40 -> 15, counter 40 -> 15)
example : (step exCfg (run exCfg St.empty exHonest).1 (.redeem false 0 false 1 9 25)).ev = [.debit 9 1 0 25] ∧
    balGet (step exCfg (run exCfg St.empty exHonest).1 (.redeem false 0 false 1 9 25)).st.bal 1 0 = 15 ∧
    balGet (step exCfg (run exCfg St.empty exHonest).1 (.redeem false 0 false 1 9 25)).st.bal 99 0 = 15 := by decide
example : (run exCfg St.empty exRefund).2 = [.mint 7 1 0 40, .debit 9 1 0 25, .refund 9 1 0 25] ∧
    balGet (run exCfg St.empty exRefund).1.bal 1 0 = 40 ∧ has (run exCfg St.empty exRefund).1.failed 9 = true := by
  decide

/-! ## 6. Every counted vote was sent by its witness -/

/-- in every reachable state, every non-empty vote slot `j` of every ongoing tracker was filled by a
    report that the witness recorded at `j` sent for this tracker under index `j`, with the recorded
    verdict -/
theorem counted_votes_are_witness_reports {c : Cfg} (hc : c.WF) (ops : List Op) (n : Name) (t : Tracker)
    (h : alookup n (run c St.empty ops).1.ongoing = some t) (j v : Nat) (hv : t.votes[j]? = some v) (h0 : v ≠ 0) :
    ∃ l w ok, t.witnesses[j]? = some w ∧ v = (if ok then 1 else 2) ∧ Op.report n l w (j : Int) ok ∈ ops := by
  have := (run_invH hc ops St.empty [] [] (invH_empty c)).backed n t h j v hv h0
  simpa using this

-- a reachable state with counted votes (slots 0 and 1 filled by witnesses 11 and 12)
example : (alookup 7 (run exCfg St.empty (exHonest.take 3)).1.ongoing).map (·.votes) = some [1, 1, 0] := by decide

/-- an ongoing tracker's owner, type and amount are those of a submission of the history -/
theorem tracker_comes_from_submission {c : Cfg} (hc : c.WF) (ops : List Op) (n : Name) (t : Tracker)
    (h : alookup n (run c St.empty ops).1.ongoing = some t) :
    ∃ op ∈ ops, op.info = .sub t.typ t.owner n t.amount := by
  have := (run_invH hc ops St.empty [] [] (invH_empty c)).origin n t h
  simpa using this

/-! ## 7. The supply counter equals the wrapped tokens in circulation -/

/-
  FULL STATEMENT: the counter equals the circulation after every history.  Since repair 0a509b2 a
  report can no longer touch it (the former counterexample `lying_locker_can_double_count_the_supply`
  is gone; see the regression example below).  A hypothesis is still forced, but by the model's
  scope rather than by a defect: the model has no signature / validation layer, so nothing in it
  stops a history in which the supply address itself submits a lock or redeem, or sends or receives
  a SEND; then the counter's own record is also a holder's record and the equation cannot hold.  In
  the implementation nobody holds a key for that address (it is the raw bytes of the option string
  `TotalSupplyAddr`, 22 bytes in the devnet) and Send.Validate — now also run in DeliverTx — refuses
  a receiver that is not 20 bytes long; both are outside this slice (C03/C04).  Hypothesis:
  `Op.avoids c.supply` for every operation (it constrains submitters, senders and receivers only,
  no longer the report's `Locker`).
-/
theorem supply_eq_circulation_partial {c : Cfg} (hc : c.WF) (ops : List Op)
    (hav : ∀ op ∈ ops, op.avoids c.supply = true) (cur : Nat) :
    balGet (run c St.empty ops).1.bal c.supply cur = circ c.supply cur (run c St.empty ops).1.bal ∧
    (akeys (run c St.empty ops).1.bal).Nodup := by
  have I := run_invS hc ops St.empty (invS_empty c) hav
  have := I.eq cur
  unfold gap at this
  exact ⟨by omega, I.nodup⟩

/-- REGRESSION EXAMPLE (was a counterexample of KF-C15-1): the crossing report names the supply
    address 99; the mint goes to account 1 and counter = circulation = 40; such a history satisfies
    the hypothesis of `supply_eq_circulation_partial` -/
theorem lying_report_cannot_touch_the_supply :
    let ops : List Op := [.lock false 0 1 7 40, .report 7 1 11 0 true, .report 7 1 12 1 true, .report 7 99 13 2 true]
    (∀ op ∈ ops, op.avoids exCfg.supply = true) ∧
    balGet (run exCfg St.empty ops).1.bal 99 0 = 40 ∧ circ 99 0 (run exCfg St.empty ops).1.bal = 40 := by
  decide

example : (∀ op ∈ exRefund, op.avoids exCfg.supply = true) ∧
    balGet (run exCfg St.empty exRefund).1.bal 99 0 = 40 ∧ circ 99 0 (run exCfg St.empty exRefund).1.bal = 40 := by
  decide

end OLP.Props.C15

/-
  C03 — obligation over the REGENERATED fact tables (tie T3): who `Signers()` names for every
  message type. Classification (by reading every run* / ProcessFee): the field debited by the
  handler and its fee step is the first signer for every kind; validator operations (STAKE,
  UNSTAKE, WITHDRAW, PROPOSAL_VOTE) are signed by stake account AND validator key.
-/
import OLP.Shell.Expect

namespace OLP.Props.C03.Facts
open OLP.Expect

theorem signers_as_classified : OLP.Gen.signerRows = signerRows := by decide

/-- the coin / balance-store / fee-step / transfer functions the ledger model ports are unchanged -/
theorem ledger_leaves_source_pinned :
    OLP.Expect.pinnedOf OLP.Gen.pinned (pinnedLedger.map (fun r => r.fn)) = pinnedLedger := by decide

end OLP.Props.C03.Facts

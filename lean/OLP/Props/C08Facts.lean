/-
  C08 — obligations over the REGENERATED fact tables (tie T3): start-up (`Prepare`) reloads the
  in-memory option copies that InitChain (`setupState`) sets, so that they are functions of the
  persisted state (`VolDerived`).
-/
import OLP.Shell.Expect

namespace OLP.Props.C08.Facts
open OLP.Expect

/-- option copies set at InitChain but not reloaded by Prepare, each classified:
    * domains.SetOptions     — the copy is only read in setupState itself (genesis domains)
    * btcTrackers.SetOption  — BTC handlers are not registered -/
theorem prepare_reloads_option_copies :
    OLP.Gen.setupStateSetters.filter (fun s => !OLP.Gen.prepareSetters.contains s) =
    ["btcTrackers.SetOption", "domains.SetOptions"] := by decide

theorem volatile_setters_as_classified : OLP.Gen.volatileSets = volatileSets := by decide

/-- the ABCI entry points the shell model ports are unchanged since the port was validated -/
theorem entry_points_source_pinned :
    OLP.Expect.pinnedOf OLP.Gen.pinned (pinnedShell.map (fun r => r.fn)) = pinnedShell := by decide

end OLP.Props.C08.Facts

import OLP.Gen.Funcs
import OLP.Alleg.Model

/-!
# C19 — the bounty of a guilty verdict, tied to the source by translation (T2b)

The three assignments to `bountyAmt` in `ExecuteAllegationTracker` are translated with each other
inlined: `pAmt · decimal · PenaltyBountyPercentage / PenaltyBountyDecimals`. The model's bounty is
that expression at `decimal = 10^18`.
-/

namespace OLP.Props.C19

open OLP.Alleg
open OLP.Gen

theorem bounty_is_source (p : Int) (o : Opts) :
    p * e18 * o.bountyPct / o.bountyDec = Funcs.allegBounty p e18 o.bountyPct o.bountyDec := rfl

/-- the bounty never exceeds the penalty (in the smallest unit) when the share is a proper fraction -/
theorem source_bounty_le_penalty (p pctv dec : Int) (hp : 0 ≤ p) (h0 : 0 ≤ pctv) (hd : 0 < dec) (hle : pctv ≤ dec) :
    0 ≤ Funcs.allegBounty p e18 pctv dec ∧ Funcs.allegBounty p e18 pctv dec ≤ p * e18 := by
  unfold Funcs.allegBounty
  have he : (0:Int) ≤ p * e18 := Int.mul_nonneg hp (by decide)
  constructor
  · exact Int.ediv_nonneg (Int.mul_nonneg he h0) (Int.le_of_lt hd)
  · have h2 : p * e18 * pctv ≤ p * e18 * dec := Int.mul_le_mul_of_nonneg_left hle he
    have := Int.ediv_le_ediv hd h2
    rwa [Int.mul_ediv_cancel _ (Int.ne_of_gt hd)] at this

example : Funcs.allegBounty 3 e18 50 100 = 1500000000000000000 := by decide

end OLP.Props.C19

/-
  C13 — Block rewards stay within the pulled amount and the yearly schedule.

  Property theorems only (helpers: OLP/Rewards/Lemmas.lean, OLP/Rewards/CalcLemmas.lean).  All
  statements are about the executable model OLP/Rewards/Model.lean, which the `rewards`
  correspondence engine compares with the real application on every run.

  Part I   the split between validators, delegators and the proposer (clause 1), the bookkeeping of
           the consumed amount, the validator chunks / matured balance and the reward withdrawal
           (clause 3).
  Part II  the reward calculator: the per-block amount stays within what was left of the reward
           year when the calculation cycle began, the burnout rate is capped by the pool (clause 2),
           and the amount does not depend on when a node was restarted (clause 4).

  Clauses 2 and 4 are FALSE of the code as written for extreme block-time sequences (a calculation
  cycle that took longer than the time left to the year close), and one reading of clause 3 is
  false for amounts beyond int64.  The full statements are kept in comments, the `_partial`
  theorems carry exactly the hypotheses the code forces, and the counterexamples are proved on
  concrete runs whose shape the harness replays on the implementation (known findings
  KF-C13-1..4: signatures `pulled-exceeds-year-left-after-failed-pull`,
  `restart-changed-rewards-after-failed-pull`, `restart-changed-rewards-sticky-burnout`,
  `withdraw-raised-matured-balance-int64-wrap`).

  The hypothesis predicates and the small history vocabularies the statements use are defined in
  `OLP.Props.C13Defs` (below, same file) so that `#audit_ns OLP.Props.C13` lists the property
  theorems only.
-/
import OLP.Rewards.Lemmas
import OLP.Rewards.CalcLemmas

namespace OLP.Props.C13Defs
open OLP OLP.Rewards


/-! ## hypotheses (decidable predicates on the consensus inputs of a block) -/

/-- Tendermint's last-commit info: one entry per validator, non-negative voting power -/
def VotesOK (votes : List Vote) : Prop :=
  (votes.map (·.addr)).Nodup ∧ ∀ v ∈ votes, 0 ≤ v.power

/-- C12's invariant as far as the split needs it: active delegations are non-negative and covered
    by the balance of the delegation pool -/
def ActiveOK (D : Int) (active : List (Addr × Int)) : Prop :=
  (∀ p ∈ active, 0 ≤ p.2) ∧ sumSnd active ≤ D

instance (votes : List Vote) : Decidable (VotesOK votes) := by unfold VotesOK; infer_instance
instance (D : Int) (active : List (Addr × Int)) : Decidable (ActiveOK D active) := by
  unfold ActiveOK; infer_instance


/-! ## non-negativity of the reward records -/

def ChunksNonneg (cs : Chunks) : Prop := ∀ p ∈ cs, 0 ≤ p.2
def BalsNonneg (b : Bals) : Prop := ∀ p ∈ b, 0 ≤ p.2

/-- histories of one validator's reward records: maturity credits and withdrawal transactions -/
inductive WOp where
  | mature (x : Int)
  | withdraw (curOK : Bool) (stake : Option Addr) (signer : Addr) (value charge : Int)

def wstep (w : WSt) : WOp → WSt
  | .mature x => { w with matured := w.matured + x }
  | .withdraw curOK stake signer value charge =>
    match withdrawTx w curOK stake signer value charge with
    | .ok w' => w'
    | .error _ => w

def maturedTotal : List WOp → Int
  | [] => 0
  | .mature x :: t => x + maturedTotal t
  | _ :: t => maturedTotal t


/-! ## hypotheses of the calculator theorems -/

/-- the float quotient of a non-negative by a positive number is non-negative (IEEE-754 division
    of two finite non-negative doubles, truncated to int64) -/
def FqNonneg (fq : Int → Int → Int) : Prop := ∀ a b, 0 ≤ a → 0 < b → 0 ≤ fq a b

/-- sane options, and the last complete cycle before `h` took a positive number of seconds
    (Tendermint block times increase) -/
def EnvOK (e : Env) (h : Int) : Prop :=
  0 < e.o.cycle ∧ 0 ≤ e.o.window ∧ 0 < (secondsPerCycleLatest e h).1

/-- cache invariant: a burned-out cache holds the burnout rate -/
def CacheWF (o : Opts) (c : Cache) : Prop := c.burnedout = true → c.amount = o.burnout

/-- once the forecast says "no reward year left" it says so at every later height (block times
    only move forward and no later cycle is so much faster that a skipped year comes back) -/
def BurnoutSticky (e : Env) (years : List Year) (h0 : Int) : Prop :=
  ∀ h1 h2, h0 ≤ h1 → h1 ≤ h2 → (numMoreBlocks e years h1).1 = 0 → (numMoreBlocks e years h2).1 = 0

/-- a node that is restarted before every block: the calculator as a pure function of the
    persisted records and the block store -/
def allTrue (rs : List Bool) : List Bool := rs.map (fun _ => true)

/-- the states before each block of a run -/
def calcStates (e : Env) (use : Int → Int → Int) (pool : Int → Int) : CS → Int → List Bool → List CS
  | _, _, [] => []
  | s, h, r :: rs => s :: calcStates e use pool (calcStep e use pool s h r).1 (h + 1) rs


/-- the concrete environment of the counterexamples: cycle 2, close window 10 s, one reward year
    of 1 000 000 closing at t = 1000, exact integer quotient, everything pulled is consumed -/
def cexEnv (tm : Int → Int) : Env :=
  ⟨⟨1, 10, 2, 10, [1000000], 1⟩, tm, fun _ => 1000, fun a b => a / b⟩

/-- block times of counterexample 1: blocks 1,2 one second apart, then a stall of 599 s (more than
    half of what is left of the year), then one block per second -/
def cexStall (h : Int) : Int := if h ≤ 2 then h - 1 else 597 + h


/-- block times of counterexample 2: a stall of 899 s that ends 100 s before the close -/
def cexSlow (h : Int) : Int := if h ≤ 2 then h - 1 else 897 + h


end OLP.Props.C13Defs

namespace OLP.Props.C13
open OLP OLP.Rewards OLP.Props.C13Defs

/-! # Part I — split, records, withdrawal -/

/-! ## 1. credits ≤ consumed ≤ pulled -/

/-- the amount handed to `ConsumeRewards` never exceeds the pulled amount: for every pulled amount
    T ≥ 0, every voting pattern (absent signers, unknown validators, any powers ≥ 0), every
    delegation pool balance (zero included) -/
theorem consumed_le_pulled (T D : Int) (votes : List Vote) (proposer : Addr)
    (active : List (Addr × Int)) (sp : Split)
    (hT : 0 ≤ T) (hD : 0 ≤ D) (hv : VotesOK votes)
    (h : split T D votes proposer active = some sp) : sp.consumed ≤ T := by
  exact split_consumed_le T D votes proposer active sp hT hD hv.1 hv.2 h

/-- what is actually credited (validator chunks + delegator reward balances; the proposer's share
    is part of its validator credit) never exceeds what is recorded as consumed -/
theorem credited_le_consumed (T D : Int) (votes : List Vote) (proposer : Addr)
    (active : List (Addr × Int)) (sp : Split)
    (hT : 0 ≤ T) (hD : 0 ≤ D) (hv : VotesOK votes) (ha : ActiveOK D active)
    (h : split T D votes proposer active = some sp) :
    sumSnd sp.vals + sumSnd sp.resp.credits ≤ sp.consumed := by
  exact split_credited_le T D votes proposer active sp hT hD hv.2 ha.2 h

/-- clause 1 of the property -/
theorem credited_le_pulled (T D : Int) (votes : List Vote) (proposer : Addr)
    (active : List (Addr × Int)) (sp : Split)
    (hT : 0 ≤ T) (hD : 0 ≤ D) (hv : VotesOK votes) (ha : ActiveOK D active)
    (h : split T D votes proposer active = some sp) :
    sumSnd sp.vals + sumSnd sp.resp.credits ≤ T := by
  have h1 := credited_le_consumed T D votes proposer active sp hT hD hv ha h
  have h2 := consumed_le_pulled T D votes proposer active sp hT hD hv h
  omega

/-- the premise `ActiveOK` is needed: were the pool balance below the active delegations (C12
    broken), the delegators' credits would exceed the pulled amount -/
theorem pool_below_active_breaks_bound :
    ∃ sp, split 1000 (10 * base18) [⟨"v", 10, true, true⟩] "v"
        [("a", 100 * base18), ("b", 100 * base18)] = some sp ∧
      ¬ (sumSnd sp.vals + sumSnd sp.resp.credits ≤ 1000) := by
  exact ⟨⟨⟨375, 25, 100, [("a", 3750), ("b", 3750)], true⟩, [("v", 575)], 950⟩, by decide, by decide⟩

/-- every credit is non-negative -/
theorem credits_nonneg (T D : Int) (votes : List Vote) (proposer : Addr)
    (active : List (Addr × Int)) (sp : Split)
    (hT : 0 ≤ T) (hD : 0 ≤ D) (hv : VotesOK votes) (ha : ∀ p ∈ active, 0 ≤ p.2)
    (h : split T D votes proposer active = some sp) :
    (∀ p ∈ sp.vals, 0 ≤ p.2) ∧ (∀ p ∈ sp.resp.credits, 0 ≤ p.2) := by
  exact split_credits_nonneg T D votes proposer active sp hT hD hv.2 ha h

/-- only validators that signed the last block (and have a validator record) are credited — in
    particular an absent proposer gets nothing -/
theorem absent_not_credited (T D : Int) (votes : List Vote) (proposer : Addr)
    (active : List (Addr × Int)) (sp : Split)
    (h : split T D votes proposer active = some sp) :
    ∀ p ∈ sp.vals, ∃ v ∈ votes, v.addr = p.1 ∧ v.signed = true ∧ v.known = true := by
  exact split_vals_mem T D votes proposer active sp h

/-- the split divides by zero only when the total power is zero -/
theorem split_total (T D : Int) (votes : List Vote) (proposer : Addr) (active : List (Addr × Int))
    (hP : sumPower votes + D ≠ 0) : (split T D votes proposer active).isSome = true := by
  exact split_isSome T D votes proposer active hP

/-- the model reproduces the aliasing of `totalPower` / `totValPower`: the validators' commission
    is divided by validator + delegation power, which pays less than the un-aliased reading -/
theorem aliasing_lowers_commission :
    ∃ sp sp', split 1000000 (30 * base18) [⟨"v", 10, true, true⟩] "v" [("a", 30 * base18)] = some sp ∧
      splitUnaliased 1000000 (30 * base18) [⟨"v", 10, true, true⟩] "v" [("a", 30 * base18)] = some sp' ∧
      sumSnd sp.vals < sumSnd sp'.vals ∧ sp.resp = sp'.resp := by
  exact ⟨⟨⟨562500, 37500, 150000, [("a", 562500)], true⟩, [("v", 325000)], 887500⟩,
    ⟨⟨562500, 37500, 150000, [("a", 562500)], true⟩, [("v", 437500)], 1000000⟩,
    by decide, by decide, by decide, rfl⟩

/-! ## 2. the consumed amount is what `tdist` / `ydist` record -/

theorem consumed_eq_recorded (e : Env) (s s' : St) (b : BlockIn) (T : Int) (sp : Split)
    (h : blockRewards e s b = .done s' T sp) :
    s'.tdist = s.tdist + sp.consumed ∧
    (s'.cache.burnedout = true → s'.ydist = some (getYears e s.ydist)) ∧
    (s'.cache.burnedout = false → ∃ (y : Nat) (yr : Year), s'.cache.year = (y : Int) ∧
        (getYears e s.ydist)[y]? = some yr ∧
        s'.ydist = some ((getYears e s.ydist).set y
          ⟨yr.close, yr.dist + sp.consumed,
            if lastInCycle e.o b.h then yr.dist + sp.consumed else yr.till⟩)) := by
  obtain ⟨c, ys, td, _, _, hcons, rfl⟩ := blockRewards_done e s s' b T sp h
  obtain ⟨h1, h2, h3⟩ := consumeRewards_some e.o _ s.tdist c b.h sp.consumed ys td hcons
  refine ⟨h1, fun hb => by rw [h2 hb], fun hb => ?_⟩
  obtain ⟨y, yr, hy, hyr, hys⟩ := h3 hb
  exact ⟨y, yr, hy, hyr, by rw [hys]⟩

/-- the split of a block is the split of the amount that was pulled for it -/
theorem block_split_of_pulled (e : Env) (s s' : St) (b : BlockIn) (T : Int) (sp : Split)
    (h : blockRewards e s b = .done s' T sp) :
    split T b.D b.votes b.proposer b.active = some sp ∧
    s'.delegTotal = s.delegTotal + sumSnd sp.resp.credits := by
  obtain ⟨c, ys, td, _, hsp, _, rfl⟩ := blockRewards_done e s s' b T sp h
  exact ⟨hsp, rfl⟩

/-! ## 3. chunks, maturity, withdrawal -/


/-- reward chunks and matured balances stay non-negative through every BeginBlock -/
theorem block_keeps_nonneg (e : Env) (s s' : St) (b : BlockIn) (T : Int) (sp : Split)
    (hT : 0 ≤ T) (hD : 0 ≤ b.D) (hv : VotesOK b.votes) (ha : ∀ p ∈ b.active, 0 ≤ p.2)
    (hc : ChunksNonneg s.chunks) (hm : BalsNonneg s.matured)
    (h : blockRewards e s b = .done s' T sp) :
    ChunksNonneg s'.chunks ∧ BalsNonneg s'.matured := by
  exact blockRewards_keeps_nonneg e s s' b T sp hT hD hv.2 ha hc hm h

/-- without interval records (the running chain never writes one: the reward options cannot be
    changed) the chunk index is `height / interval + 1`, so a maturity height `h2` matures a
    chunk that no earlier height matured: no chunk is paid into the matured balance twice -/
theorem chunk_matures_once (o : Opts) (h1 h2 : Int) (hi : 0 < o.interval)
    (p1 : 0 ≤ h1) (hlt : h1 < h2)
    (m2 : h2.tmod o.interval = 0) :
    chunkIndex o [] h1 - 2 ≠ chunkIndex o [] h2 - 2 := by
  have := chunkIndex_nil_lt_of_multiples o h1 h2 hi p1 hlt m2
  omega

/-- … and the chunk that matures is closed: no later block credits into it -/
theorem matured_chunk_is_closed (o : Opts) (h h' : Int) (hi : 0 < o.interval) (p : 0 ≤ h)
    (hle : h ≤ h') : chunkIndex o [] h - 2 < chunkIndex o [] h' := by
  have := chunkIndex_nil_mono o h h' hi p hle
  omega

/-- a successful withdrawal moves exactly the coin: out of the matured balance (never below zero)
    and the rewards pool, into the withdrawn total and the signer's balance -/
theorem withdraw_le_matured (w w' : WSt) (stake : Option Addr) (signer : Addr) (value : Int)
    (h : runWithdraw w stake signer value = .ok w') :
    Ledger.toCoinWithBase value 18 ≤ w.matured ∧
    w'.matured = w.matured - Ledger.toCoinWithBase value 18 ∧ 0 ≤ w'.matured ∧
    w'.withdrawn = w.withdrawn + Ledger.toCoinWithBase value 18 ∧
    w'.pool = w.pool - Ledger.toCoinWithBase value 18 ∧
    w'.signer = w.signer + Ledger.toCoinWithBase value 18 := by
  obtain ⟨h0, rfl⟩ := runWithdraw_ok w w' stake signer value h
  refine ⟨by omega, rfl, h0, rfl, rfl, rfl⟩

/-- clause 3, over all histories: the matured balance is never negative and the total withdrawn
    never exceeds the total matured — whatever amounts the transactions carry -/
theorem validator_withdraw_le_matured (w : WSt) (ops : List WOp)
    (hm : ∀ x, WOp.mature x ∈ ops → 0 ≤ x) (h0 : 0 ≤ w.matured) :
    0 ≤ (ops.foldl wstep w).matured ∧
    (ops.foldl wstep w).matured + (ops.foldl wstep w).withdrawn =
      w.matured + w.withdrawn + maturedTotal ops ∧
    (ops.foldl wstep w).withdrawn ≤ w.matured + w.withdrawn + maturedTotal ops := by
  suffices hs : 0 ≤ (ops.foldl wstep w).matured ∧
      (ops.foldl wstep w).matured + (ops.foldl wstep w).withdrawn =
        w.matured + w.withdrawn + maturedTotal ops by
    obtain ⟨a, b⟩ := hs
    exact ⟨a, b, by omega⟩
  induction ops generalizing w with
  | nil => simp [maturedTotal, h0]
  | cons op t ih =>
    have hm' : ∀ x, WOp.mature x ∈ t → 0 ≤ x := fun x hx => hm x (List.mem_cons_of_mem _ hx)
    rw [List.foldl_cons]
    cases op with
    | mature x =>
      have hx : 0 ≤ x := hm x List.mem_cons_self
      obtain ⟨a, b⟩ := ih (wstep w (.mature x)) hm' (by simp only [wstep]; omega)
      refine ⟨a, ?_⟩
      rw [b]
      simp only [wstep, maturedTotal]
      omega
    | withdraw curOK stake signer value charge =>
      cases hw : withdrawTx w curOK stake signer value charge with
      | error err =>
        have e1 : wstep w (.withdraw curOK stake signer value charge) = w := by
          simp only [wstep, hw]
        rw [e1]
        simpa only [maturedTotal] using ih w hm' h0
      | ok w1 =>
        have e1 : wstep w (.withdraw curOK stake signer value charge) = w1 := by
          simp only [wstep, hw]
        rw [e1]
        obtain ⟨g0, g1⟩ := withdrawTx_matured w w1 curOK stake signer value charge hw
        obtain ⟨a, b⟩ := ih w1 hm' g0
        refine ⟨a, ?_⟩
        rw [b]
        simp only [maturedTotal]
        omega

/- FULL STATEMENT (false of the code as written):
     theorem withdraw_never_raises_matured (w w') … (value charge : Int)
       (h : withdrawTx w curOK stake signer value charge = .ok w') : w'.matured ≤ w.matured
   `Validate` checks `0 ≤ value`, the handler withdraws `Value.Int64() * 10^18`
   (`ToCoinWithBase`): a value in [2^63, 2^64) mod 2^64 is a NEGATIVE withdrawal. -/

/-- under the hypothesis the code forces (the whole-token value fits an int64) a withdrawal never
    raises the matured balance and never pays a negative amount -/
theorem withdraw_never_raises_matured_partial (w w' : WSt) (curOK : Bool) (stake : Option Addr)
    (signer : Addr) (value charge : Int) (hv : value < 9223372036854775808)
    (h : withdrawTx w curOK stake signer value charge = .ok w') :
    w'.matured ≤ w.matured ∧ w.withdrawn ≤ w'.withdrawn := by
  obtain ⟨hv0, w1, hr, rfl⟩ := withdrawTx_ok w w' curOK stake signer value charge h
  obtain ⟨_, rfl⟩ := runWithdraw_ok w w1 stake signer value hr
  have := toCoinWithBase_nonneg value hv0 hv
  simp only []
  omega

/-- the counterexample the harness replays on the implementation: WithdrawAmount 2^64-1 passes
    `Validate` and RAISES the matured balance by one token (paid by the signer into the pool) -/
theorem wrapped_withdraw_raises_matured :
    withdrawTx ⟨0, 0, 5 * base18, 3 * base18⟩ true none "s" 18446744073709551615 1000 =
      .ok ⟨base18, -base18, 6 * base18, 2 * base18 - 1000⟩ := by
  rfl

/-! ## non-vacuity -/

example : VotesOK [⟨"v1", 10, true, true⟩, ⟨"v2", 13, false, true⟩] ∧
    ActiveOK (40 * base18) [("a", 15 * base18), ("b", 20 * base18)] ∧
    (∃ sp, split 7000000000000000000 (40 * base18) [⟨"v1", 10, true, true⟩, ⟨"v2", 13, false, true⟩] "v1"
        [("a", 15 * base18), ("b", 20 * base18)] = some sp ∧ 0 < sumSnd sp.vals ∧
        0 < sumSnd sp.resp.credits ∧ 0 < sp.resp.proposerReward) := by
  refine ⟨by decide, by decide, _, rfl, by decide, by decide, by decide⟩


/-! # Part II — the calculator -/

/-! ## 1. one recalculation: within what is left of the year -/

/-- a recalculated amount is non-negative, at most `supply − TillLastCycle` of the selected year,
    and the selected year is not yet inside its close window -/
theorem pulled_le_year_left (e : Env) (years : List Year) (c c' : Cache) (h amt : Int)
    (hfq : FqNonneg e.fq) (he : EnvOK e h)
    (hr : recalc e years c h = .ok amt c') (hb : c'.burnedout = false) :
    ∃ (y : Nat) (supply : Int) (yr : Year), c'.year = (y : Int) ∧ c'.amount = amt ∧
      (numMoreBlocks e years h).2 = (y : Int) ∧
      e.o.shares[y]? = some supply ∧ years[y]? = some yr ∧
      0 ≤ amt ∧ amt ≤ supply - yr.till ∧
      e.o.window ≤ yr.close - (secondsPerCycleLatest e h).2 := by
  exact recalc_ok_spec e years c c' h amt hfq he.1 he.2.1 he.2.2 hr hb

/-- `Calculate` keeps the cache invariant, and a burned-out answer is the burnout rate -/
theorem calculate_keeps_cacheWF (e : Env) (years : List Year) (c c' : Cache) (h amt : Int)
    (hw : CacheWF e.o c) (hr : calculate e years c h = .ok amt c') :
    CacheWF e.o c' ∧ c'.amount = amt := by
  exact calculate_ok_spec e years c c' h amt hw hr

/-- after the schedule is over the pulled amount is the burnout rate capped by the rewards pool -/
theorem burnout_capped_by_pool (e : Env) (years : List Year) (c c' : Cache) (h pool amt : Int)
    (hw : CacheWF e.o c) (hp : pullRewards e years c h pool = .ok amt c') (hb : c'.burnedout = true) :
    amt ≤ pool ∧ amt ≤ e.o.burnout ∧ (amt = pool ∨ amt = e.o.burnout) := by
  exact pullRewards_burnedout_spec e years c c' h pool amt hw hp hb

/-- the year records change only through the consumed amount: `TillLastCycle` moves only in the
    last block of a cycle … -/
theorem till_changes_only_at_cycle_end (e : Env) (use : Int → Int → Int) (pool : Int → Int)
    (s : CS) (h : Int) (r : Bool) (hl : lastInCycle e.o h = false) :
    (calcStep e use pool s h r).1.years.map (·.till) = s.years.map (·.till) ∧
    (calcStep e use pool s h r).1.years.map (·.close) = s.years.map (·.close) := by
  exact calcStep_till_close e use pool s h r hl

/-- … where it becomes the year's `Distributed` -/
theorem till_eq_dist_at_cycle_end (e : Env) (use : Int → Int → Int) (pool : Int → Int)
    (s : CS) (h amt : Int) (r : Bool) (hl : lastInCycle e.o h = true)
    (ho : (calcStep e use pool s h r).2 = some amt)
    (hb : (calcStep e use pool s h r).1.cache.burnedout = false) :
    ∃ (y : Nat) (yr : Year), (calcStep e use pool s h r).1.cache.year = (y : Int) ∧
      (calcStep e use pool s h r).1.years[y]? = some yr ∧ yr.till = yr.dist := by
  exact calcStep_till_eq_dist e use pool s h amt r hl ho hb

/-! ## 2. restart independence -/

/- FULL STATEMENT (false of the code as written):
     theorem calc_cache_restart_invariant (e use pool years tdist h) (rs : List Bool) (hh : 1 ≤ h)
       (hc : 0 < e.o.cycle) :
       (calcRun e use pool ⟨years, tdist, Cache.fresh⟩ h rs).2 =
       (calcRun e use pool ⟨years, tdist, Cache.fresh⟩ h (allTrue rs)).2
   The cache is used whenever `cycleNo > 0` without comparing it with the current cycle, an error
   of `Calculate` leaves the previous cycle's cache in place, and `burnedout` is never reset. -/

/-- clause 4 under the hypotheses the code forces: if the always-recomputing node never hits the
    "year burned out unexpectedly" error (nor a crash) and burnout is permanent, then a node
    restarted at ANY set of heights pulls the same amounts and records the same `ydist`/`tdist`
    as a node restarted before every block — hence any two restart patterns agree -/
theorem calc_cache_restart_invariant_partial (e : Env) (use : Int → Int → Int) (pool : Int → Int)
    (years : List Year) (tdist h : Int) (rs : List Bool) (hh : 1 ≤ h) (hc : 0 < e.o.cycle)
    (hst : BurnoutSticky e years h)
    (hok : ∀ x ∈ (calcRun e use pool ⟨years, tdist, Cache.fresh⟩ h (allTrue rs)).2, x.isSome = true) :
    (calcRun e use pool ⟨years, tdist, Cache.fresh⟩ h rs).2 =
      (calcRun e use pool ⟨years, tdist, Cache.fresh⟩ h (allTrue rs)).2 ∧
    (calcRun e use pool ⟨years, tdist, Cache.fresh⟩ h rs).1.years =
      (calcRun e use pool ⟨years, tdist, Cache.fresh⟩ h (allTrue rs)).1.years ∧
    (calcRun e use pool ⟨years, tdist, Cache.fresh⟩ h rs).1.tdist =
      (calcRun e use pool ⟨years, tdist, Cache.fresh⟩ h (allTrue rs)).1.tdist := by
  obtain ⟨h1, h2, h3, _⟩ := calcRun_sim e use pool years h hst hc rs ⟨years, tdist, Cache.fresh⟩
    ⟨years, tdist, Cache.fresh⟩ h hh (Int.le_refl h) rfl rfl rfl (goodCache_fresh e years h years) hok
  exact ⟨h1, h2, h3⟩

/-- corollary: two nodes with different restart histories agree -/
theorem restart_patterns_agree_partial (e : Env) (use : Int → Int → Int) (pool : Int → Int)
    (years : List Year) (tdist h : Int) (rs rs' : List Bool) (hlen : rs.length = rs'.length)
    (hh : 1 ≤ h) (hc : 0 < e.o.cycle) (hst : BurnoutSticky e years h)
    (hok : ∀ x ∈ (calcRun e use pool ⟨years, tdist, Cache.fresh⟩ h (allTrue rs)).2, x.isSome = true) :
    (calcRun e use pool ⟨years, tdist, Cache.fresh⟩ h rs).2 =
      (calcRun e use pool ⟨years, tdist, Cache.fresh⟩ h rs').2 := by
  have hall : allTrue rs = allTrue rs' := by
    unfold allTrue
    rw [List.map_const', List.map_const', hlen]
  have hok' := hok
  rw [hall] at hok'
  rw [(calc_cache_restart_invariant_partial e use pool years tdist h rs hh hc hst hok).1,
    (calc_cache_restart_invariant_partial e use pool years tdist h rs' hh hc hst hok').1, hall]

/-- counterexample 1 (error, then stale cache): the cycle after the stall forecasts ONE more
    block, so blocks 3 and 4 each pay everything that is left; block 5 then fails with "burned out
    unexpectedly" and pays nothing; block 6 pays the stale cached amount again on a node that kept
    running — and nothing on a node restarted before block 6 -/
theorem stale_cache_after_error_counterexample :
    (calcRun (cexEnv cexStall) (fun _ a => a) (fun _ => 0) ⟨initYears (cexEnv cexStall), 0, Cache.fresh⟩ 1
        [false, false, false, false, false, false]).2
      = [some 5000, some 5000, some 990000, some 990000, none, some 990000] ∧
    (calcRun (cexEnv cexStall) (fun _ a => a) (fun _ => 0) ⟨initYears (cexEnv cexStall), 0, Cache.fresh⟩ 1
        [false, false, false, false, false, true]).2
      = [some 5000, some 5000, some 990000, some 990000, none, none] := by
  decide

/-- counterexample 2 (sticky burnout): the slow cycle forecasts 0 more blocks for the only year
    that is still open, the node caches "burned out" for ever; a node restarted two blocks later
    finds the year open again -/
theorem sticky_burnout_counterexample :
    (calcRun (cexEnv cexSlow) (fun _ a => a) (fun _ => 100) ⟨initYears (cexEnv cexSlow), 0, Cache.fresh⟩ 1
        [false, false, false, false, false]).2
      = [some 5000, some 5000, some 1, some 1, some 1] ∧
    (calcRun (cexEnv cexSlow) (fun _ a => a) (fun _ => 100) ⟨initYears (cexEnv cexSlow), 0, Cache.fresh⟩ 1
        [false, false, false, false, true]).2
      = [some 5000, some 5000, some 1, some 1, some 10102] := by
  decide

/-! ## 3. the schedule over whole runs -/

/- FULL STATEMENT (false of the code as written): in every run from a clean state, every pulled
   amount of a block that is not burned out is at most `supply − Distributed` of its reward year
   as recorded when the block's calculation cycle began.  Counterexample 1 above: block 6 pulls
   990000 although 990000 MORE than the year's supply had been distributed when its cycle began. -/

/-- clause 2, per block, under the same hypotheses as restart independence: in any run with any
    restart pattern every pulled amount is non-negative and at most `supply − TillLastCycle` of
    the forecast's year, read from the records as they are before that block -/
theorem pulled_le_year_left_by_till_partial (e : Env) (use : Int → Int → Int) (pool : Int → Int)
    (years : List Year) (tdist h : Int) (rs : List Bool) (hh : 1 ≤ h)
    (hfq : FqNonneg e.fq) (he : ∀ k, h ≤ k → EnvOK e k)
    (hst : BurnoutSticky e years h)
    (hok : ∀ x ∈ (calcRun e use pool ⟨years, tdist, Cache.fresh⟩ h (allTrue rs)).2, x.isSome = true)
    (j : Nat) (amt : Int) (sj : CS)
    (hj : (calcRun e use pool ⟨years, tdist, Cache.fresh⟩ h rs).2[j]? = some (some amt))
    (hs : (calcStates e use pool ⟨years, tdist, Cache.fresh⟩ h rs)[j]? = some sj)
    (hn : (numMoreBlocks e years (h + j)).1 ≠ 0) :
    ∃ (y : Nat) (supply : Int) (yr : Year), (numMoreBlocks e years (h + j)).2 = (y : Int) ∧
      e.o.shares[y]? = some supply ∧ sj.years[y]? = some yr ∧ 0 ≤ amt ∧ amt ≤ supply - yr.till := by
  have hcs : ∀ (rs : List Bool) (s : CS) (k : Int),
      calcStates e use pool s k rs = calcStatesL e use pool s k rs := by
    intro rs
    induction rs with
    | nil => intro s k; rfl
    | cons r rs ih => intro s k; simp only [calcStates, calcStatesL, ih]
  rw [hcs] at hs
  exact pulled_le_year_left_by_till_aux e use pool years tdist h rs hh hfq he hst hok j amt sj hj hs hn

/-- clause 2 as the property states it: from a clean start (every year's `TillLastCycle` equal to
    its `Distributed`, e.g. the genesis state at height 1), every pulled
    amount of a block `j` is at most what was left of its reward year — supply minus
    `Distributed` — in the state before the FIRST block `i` of `j`'s calculation cycle -/
theorem pulled_le_year_left_at_cycle_start_partial (e : Env) (use : Int → Int → Int) (pool : Int → Int)
    (years : List Year) (tdist h : Int) (rs : List Bool) (hh : 1 ≤ h)
    (hfq : FqNonneg e.fq) (he : ∀ k, h ≤ k → EnvOK e k)
    (hst : BurnoutSticky e years h)
    (hok : ∀ x ∈ (calcRun e use pool ⟨years, tdist, Cache.fresh⟩ h (allTrue rs)).2, x.isSome = true)
    (hclean : ∀ yr ∈ years, yr.till = yr.dist)
    (i j : Nat) (hij : i ≤ j) (amt : Int) (si : CS)
    (hi : firstInCycle e.o (h + i) = true) (hcyc : cycleNo e.o (h + i) = cycleNo e.o (h + j))
    (hj : (calcRun e use pool ⟨years, tdist, Cache.fresh⟩ h rs).2[j]? = some (some amt))
    (hs : (calcStates e use pool ⟨years, tdist, Cache.fresh⟩ h rs)[i]? = some si)
    (hn : (numMoreBlocks e years (h + j)).1 ≠ 0) :
    ∃ (y : Nat) (supply : Int) (yr : Year), (numMoreBlocks e years (h + j)).2 = (y : Int) ∧
      e.o.shares[y]? = some supply ∧ si.years[y]? = some yr ∧ amt ≤ supply - yr.dist := by
  have hcs : ∀ (rs : List Bool) (s : CS) (k : Int),
      calcStates e use pool s k rs = calcStatesL e use pool s k rs := by
    intro rs
    induction rs with
    | nil => intro s k; rfl
    | cons r rs ih => intro s k; simp only [calcStates, calcStatesL, ih]
  rw [hcs] at hs
  exact pulled_le_year_left_at_cycle_start_aux e use pool years tdist h rs hh hfq he hst hok hclean
    i j hij amt si hi hcyc hj hs hn

/-! ## non-vacuity -/

/-- a regular chain (one block per second) satisfies the hypotheses of the `_partial` theorems on
    a non-trivial run that crosses three cycle boundaries, and the run pays out -/
example :
    let e : Env := cexEnv (fun h => h - 1)
    FqNonneg e.fq ∧ EnvOK e 3 ∧ EnvOK e 5 ∧
    (calcRun e (fun _ a => a) (fun _ => 0) ⟨initYears e, 0, Cache.fresh⟩ 1
        (allTrue [false, false, false, false, false, false])).2 =
      (calcRun e (fun _ a => a) (fun _ => 0) ⟨initYears e, 0, Cache.fresh⟩ 1
        [false, true, false, false, true, false]).2 ∧
    (∀ x ∈ (calcRun e (fun _ a => a) (fun _ => 0) ⟨initYears e, 0, Cache.fresh⟩ 1
        (allTrue [false, false, false, false, false, false])).2, x.isSome = true) := by
  intro e
  refine ⟨fun a b ha hb => Int.ediv_nonneg ha (Int.le_of_lt hb), ?_, ?_, ?_, ?_⟩
  · unfold EnvOK; decide
  · unfold EnvOK; decide
  · decide
  · decide


end OLP.Props.C13

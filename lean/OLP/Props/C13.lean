/-
  C13 — Block rewards stay within the pulled amount and the yearly schedule.

  Property theorems only (helpers: OLP/Rewards/Lemmas.lean, OLP/Rewards/CalcLemmas.lean).  All
  statements are about the executable model OLP/Rewards/Model.lean, which the `rewards`
  correspondence engine compares with the real application on every run.

  Part I   the split between validators, delegators and the proposer (clause 1), the bookkeeping of
           the consumed amount, the validator chunks / matured balance and the reward withdrawal
           (clause 3).
  Part II  the reward calculator: the per-block amount stays within what was left of the reward
           year when the calculation cycle began, the burnout rate is capped by the pool (clause 2),
           and the amount does not depend on when a node was restarted (clause 4).

  Every clause is proved at full strength.  Three genuine defects found by this slice were
  repaired in /repo and the model follows the repaired code: d8159a7 (int64 guard of the reward
  withdrawal, formerly KF-C13-4), 729d203 (the calculator cache is valid for its own cycle only,
  formerly KF-C13-2/3 and the stale amount of KF-C13-1) and 2606b58 (the forecast is at least one
  calculation cycle, formerly the over-distribution of KF-C13-1).  The former counterexamples are
  kept as regression examples (`stall_regression_example`, `slow_cycle_regression_example`, and
  the necessity example `wrapped_withdraw_raises_matured`); the harness replays their shape on the
  implementation in every run.

  The hypothesis predicates and the small history vocabularies the statements use are defined in
  `OLP.Props.C13Defs` (below, same file) so that `#audit_ns OLP.Props.C13` lists the property
  theorems only.
-/
import OLP.Rewards.Lemmas
import OLP.Rewards.CalcLemmas

namespace OLP.Props.C13Defs
open OLP OLP.Rewards


/-! ## hypotheses (decidable predicates on the consensus inputs of a block) -/

/-- Tendermint's last-commit info: one entry per validator, non-negative voting power -/
def VotesOK (votes : List Vote) : Prop :=
  (votes.map (·.addr)).Nodup ∧ ∀ v ∈ votes, 0 ≤ v.power

/-- C12's invariant as far as the split needs it: active delegations are non-negative and covered
    by the balance of the delegation pool -/
def ActiveOK (D : Int) (active : List (Addr × Int)) : Prop :=
  (∀ p ∈ active, 0 ≤ p.2) ∧ sumSnd active ≤ D

instance (votes : List Vote) : Decidable (VotesOK votes) := by unfold VotesOK; infer_instance
instance (D : Int) (active : List (Addr × Int)) : Decidable (ActiveOK D active) := by
  unfold ActiveOK; infer_instance


/-! ## non-negativity of the reward records -/

def ChunksNonneg (cs : Chunks) : Prop := ∀ p ∈ cs, 0 ≤ p.2
def BalsNonneg (b : Bals) : Prop := ∀ p ∈ b, 0 ≤ p.2

/-- histories of one validator's reward records: maturity credits and withdrawal transactions -/
inductive WOp where
  | mature (x : Int)
  | withdraw (curOK : Bool) (stake : Option Addr) (signer : Addr) (value charge : Int)

def wstep (w : WSt) : WOp → WSt
  | .mature x => { w with matured := w.matured + x }
  | .withdraw curOK stake signer value charge =>
    match withdrawTx w curOK stake signer value charge with
    | .ok w' => w'
    | .error _ => w

def maturedTotal : List WOp → Int
  | [] => 0
  | .mature x :: t => x + maturedTotal t
  | _ :: t => maturedTotal t


/-! ## vocabulary of the calculator theorems -/

/-- cache invariant: a burned-out cache holds the burnout rate -/
def CacheWF (o : Opts) (c : Cache) : Prop := c.burnedout = true → c.amount = o.burnout

/-- a node that is restarted before every block: the calculator as a pure function of the
    persisted records and the block store -/
def allTrue (rs : List Bool) : List Bool := rs.map (fun _ => true)

/-- the states before each block of a run -/
def calcStates (e : Env) (use : Int → Int → Int) (pool : Int → Int) : CS → Int → List Bool → List CS
  | _, _, [] => []
  | s, h, r :: rs => s :: calcStates e use pool (calcStep e use pool s h r).1 (h + 1) rs

/-- what the split does with a pulled amount: it consumes between nothing and all of it
    (`consumed_le_pulled`, `credits_nonneg` of Part I) -/
def UseOK (use : Int → Int → Int) : Prop := ∀ k a, 0 ≤ a → 0 ≤ use k a ∧ use k a ≤ a

/-- every year's `Distributed` is within its supply -/
def WithinSupply (o : Opts) (years : List Year) : Prop :=
  ∀ (y : Nat) (yr : Year) (supply : Int), years[y]? = some yr → o.shares[y]? = some supply →
    yr.dist ≤ supply

/-- the concrete environment of the regression examples: cycle 2, close window 10 s, one reward
    year of 1 000 000 closing at t = 1000, exact integer quotient, everything pulled is consumed -/
def cexEnv (tm : Int → Int) : Env :=
  ⟨⟨1, 10, 2, 10, [1000000], 1⟩, tm, fun _ => 1000, fun a b => a / b⟩

/-- block times of regression example 1: blocks 1,2 one second apart, then a stall of 599 s (more
    than half of what is left of the year), then one block per second -/
def cexStall (h : Int) : Int := if h ≤ 2 then h - 1 else 597 + h

/-- block times of regression example 2: a stall of 899 s that ends 100 s before the close -/
def cexSlow (h : Int) : Int := if h ≤ 2 then h - 1 else 897 + h

end OLP.Props.C13Defs

namespace OLP.Props.C13
open OLP OLP.Rewards OLP.Props.C13Defs

/-! # Part I — split, records, withdrawal -/

/-! ## 1. credits ≤ consumed ≤ pulled -/

/-- the amount handed to `ConsumeRewards` never exceeds the pulled amount: for every pulled amount
    T ≥ 0, every voting pattern (absent signers, unknown validators, any powers ≥ 0), every
    delegation pool balance (zero included) -/
theorem consumed_le_pulled (T D : Int) (votes : List Vote) (proposer : Addr)
    (active : List (Addr × Int)) (sp : Split)
    (hT : 0 ≤ T) (hD : 0 ≤ D) (hv : VotesOK votes)
    (h : split T D votes proposer active = some sp) : sp.consumed ≤ T := by
  exact split_consumed_le T D votes proposer active sp hT hD hv.1 hv.2 h

/-- what is actually credited (validator chunks + delegator reward balances; the proposer's share
    is part of its validator credit) never exceeds what is recorded as consumed -/
theorem credited_le_consumed (T D : Int) (votes : List Vote) (proposer : Addr)
    (active : List (Addr × Int)) (sp : Split)
    (hT : 0 ≤ T) (hD : 0 ≤ D) (hv : VotesOK votes) (ha : ActiveOK D active)
    (h : split T D votes proposer active = some sp) :
    sumSnd sp.vals + sumSnd sp.resp.credits ≤ sp.consumed := by
  exact split_credited_le T D votes proposer active sp hT hD hv.2 ha.2 h

/-- clause 1 of the property -/
theorem credited_le_pulled (T D : Int) (votes : List Vote) (proposer : Addr)
    (active : List (Addr × Int)) (sp : Split)
    (hT : 0 ≤ T) (hD : 0 ≤ D) (hv : VotesOK votes) (ha : ActiveOK D active)
    (h : split T D votes proposer active = some sp) :
    sumSnd sp.vals + sumSnd sp.resp.credits ≤ T := by
  have h1 := credited_le_consumed T D votes proposer active sp hT hD hv ha h
  have h2 := consumed_le_pulled T D votes proposer active sp hT hD hv h
  omega

/-- the premise `ActiveOK` is needed: were the pool balance below the active delegations (C12
    broken), the delegators' credits would exceed the pulled amount -/
theorem pool_below_active_breaks_bound :
    ∃ sp, split 1000 (10 * base18) [⟨"v", 10, true, true⟩] "v"
        [("a", 100 * base18), ("b", 100 * base18)] = some sp ∧
      ¬ (sumSnd sp.vals + sumSnd sp.resp.credits ≤ 1000) := by
  exact ⟨⟨⟨375, 25, 100, [("a", 3750), ("b", 3750)], true⟩, [("v", 575)], 950⟩, by decide, by decide⟩

/-- every credit is non-negative -/
theorem credits_nonneg (T D : Int) (votes : List Vote) (proposer : Addr)
    (active : List (Addr × Int)) (sp : Split)
    (hT : 0 ≤ T) (hD : 0 ≤ D) (hv : VotesOK votes) (ha : ∀ p ∈ active, 0 ≤ p.2)
    (h : split T D votes proposer active = some sp) :
    (∀ p ∈ sp.vals, 0 ≤ p.2) ∧ (∀ p ∈ sp.resp.credits, 0 ≤ p.2) := by
  exact split_credits_nonneg T D votes proposer active sp hT hD hv.2 ha h

/-- only validators that signed the last block (and have a validator record) are credited — in
    particular an absent proposer gets nothing -/
theorem absent_not_credited (T D : Int) (votes : List Vote) (proposer : Addr)
    (active : List (Addr × Int)) (sp : Split)
    (h : split T D votes proposer active = some sp) :
    ∀ p ∈ sp.vals, ∃ v ∈ votes, v.addr = p.1 ∧ v.signed = true ∧ v.known = true := by
  exact split_vals_mem T D votes proposer active sp h

/-- the split divides by zero only when the total power is zero -/
theorem split_total (T D : Int) (votes : List Vote) (proposer : Addr) (active : List (Addr × Int))
    (hP : sumPower votes + D ≠ 0) : (split T D votes proposer active).isSome = true := by
  exact split_isSome T D votes proposer active hP

/-- the model reproduces the aliasing of `totalPower` / `totValPower`: the validators' commission
    is divided by validator + delegation power, which pays less than the un-aliased reading -/
theorem aliasing_lowers_commission :
    ∃ sp sp', split 1000000 (30 * base18) [⟨"v", 10, true, true⟩] "v" [("a", 30 * base18)] = some sp ∧
      splitUnaliased 1000000 (30 * base18) [⟨"v", 10, true, true⟩] "v" [("a", 30 * base18)] = some sp' ∧
      sumSnd sp.vals < sumSnd sp'.vals ∧ sp.resp = sp'.resp := by
  exact ⟨⟨⟨562500, 37500, 150000, [("a", 562500)], true⟩, [("v", 325000)], 887500⟩,
    ⟨⟨562500, 37500, 150000, [("a", 562500)], true⟩, [("v", 437500)], 1000000⟩,
    by decide, by decide, by decide, rfl⟩

/-! ## 2. the consumed amount is what `tdist` / `ydist` record -/

theorem consumed_eq_recorded (e : Env) (s s' : St) (b : BlockIn) (T : Int) (sp : Split)
    (h : blockRewards e s b = .done s' T sp) :
    s'.tdist = s.tdist + sp.consumed ∧
    (s'.cache.burnedout = true → s'.ydist = some (getYears e s.ydist)) ∧
    (s'.cache.burnedout = false → ∃ (y : Nat) (yr : Year), s'.cache.year = (y : Int) ∧
        (getYears e s.ydist)[y]? = some yr ∧
        s'.ydist = some ((getYears e s.ydist).set y
          ⟨yr.close, yr.dist + sp.consumed,
            if lastInCycle e.o b.h then yr.dist + sp.consumed else yr.till⟩)) := by
  obtain ⟨c, ys, td, _, _, hcons, rfl⟩ := blockRewards_done e s s' b T sp h
  obtain ⟨h1, h2, h3⟩ := consumeRewards_some e.o _ s.tdist c b.h sp.consumed ys td hcons
  refine ⟨h1, fun hb => by rw [h2 hb], fun hb => ?_⟩
  obtain ⟨y, yr, hy, hyr, hys⟩ := h3 hb
  exact ⟨y, yr, hy, hyr, by rw [hys]⟩

/-- the split of a block is the split of the amount that was pulled for it -/
theorem block_split_of_pulled (e : Env) (s s' : St) (b : BlockIn) (T : Int) (sp : Split)
    (h : blockRewards e s b = .done s' T sp) :
    split T b.D b.votes b.proposer b.active = some sp ∧
    s'.delegTotal = s.delegTotal + sumSnd sp.resp.credits := by
  obtain ⟨c, ys, td, _, hsp, _, rfl⟩ := blockRewards_done e s s' b T sp h
  exact ⟨hsp, rfl⟩

/-! ## 3. chunks, maturity, withdrawal -/


/-- reward chunks and matured balances stay non-negative through every BeginBlock -/
theorem block_keeps_nonneg (e : Env) (s s' : St) (b : BlockIn) (T : Int) (sp : Split)
    (hT : 0 ≤ T) (hD : 0 ≤ b.D) (hv : VotesOK b.votes) (ha : ∀ p ∈ b.active, 0 ≤ p.2)
    (hc : ChunksNonneg s.chunks) (hm : BalsNonneg s.matured)
    (h : blockRewards e s b = .done s' T sp) :
    ChunksNonneg s'.chunks ∧ BalsNonneg s'.matured := by
  exact blockRewards_keeps_nonneg e s s' b T sp hT hD hv.2 ha hc hm h

/-- without interval records (the running chain never writes one: the reward options cannot be
    changed) the chunk index is `height / interval + 1`, so a maturity height `h2` matures a
    chunk that no earlier height matured: no chunk is paid into the matured balance twice -/
theorem chunk_matures_once (o : Opts) (h1 h2 : Int) (hi : 0 < o.interval)
    (p1 : 0 ≤ h1) (hlt : h1 < h2)
    (m2 : h2.tmod o.interval = 0) :
    chunkIndex o [] h1 - 2 ≠ chunkIndex o [] h2 - 2 := by
  have := chunkIndex_nil_lt_of_multiples o h1 h2 hi p1 hlt m2
  omega

/-- … and the chunk that matures is closed: no later block credits into it -/
theorem matured_chunk_is_closed (o : Opts) (h h' : Int) (hi : 0 < o.interval) (p : 0 ≤ h)
    (hle : h ≤ h') : chunkIndex o [] h - 2 < chunkIndex o [] h' := by
  have := chunkIndex_nil_mono o h h' hi p hle
  omega

/-- a successful withdrawal moves exactly the coin: out of the matured balance (never below zero)
    and the rewards pool, into the withdrawn total and the signer's balance -/
theorem withdraw_le_matured (w w' : WSt) (stake : Option Addr) (signer : Addr) (value : Int)
    (h : runWithdraw w stake signer value = .ok w') :
    Ledger.toCoinWithBase value 18 ≤ w.matured ∧
    w'.matured = w.matured - Ledger.toCoinWithBase value 18 ∧ 0 ≤ w'.matured ∧
    w'.withdrawn = w.withdrawn + Ledger.toCoinWithBase value 18 ∧
    w'.pool = w.pool - Ledger.toCoinWithBase value 18 ∧
    w'.signer = w.signer + Ledger.toCoinWithBase value 18 := by
  obtain ⟨h0, rfl⟩ := runWithdraw_ok w w' stake signer value h
  refine ⟨by omega, rfl, h0, rfl, rfl, rfl⟩

/-- clause 3, over all histories: the matured balance is never negative and the total withdrawn
    never exceeds the total matured — whatever amounts the transactions carry -/
theorem validator_withdraw_le_matured (w : WSt) (ops : List WOp)
    (hm : ∀ x, WOp.mature x ∈ ops → 0 ≤ x) (h0 : 0 ≤ w.matured) :
    0 ≤ (ops.foldl wstep w).matured ∧
    (ops.foldl wstep w).matured + (ops.foldl wstep w).withdrawn =
      w.matured + w.withdrawn + maturedTotal ops ∧
    (ops.foldl wstep w).withdrawn ≤ w.matured + w.withdrawn + maturedTotal ops := by
  suffices hs : 0 ≤ (ops.foldl wstep w).matured ∧
      (ops.foldl wstep w).matured + (ops.foldl wstep w).withdrawn =
        w.matured + w.withdrawn + maturedTotal ops by
    obtain ⟨a, b⟩ := hs
    exact ⟨a, b, by omega⟩
  induction ops generalizing w with
  | nil => simp [maturedTotal, h0]
  | cons op t ih =>
    have hm' : ∀ x, WOp.mature x ∈ t → 0 ≤ x := fun x hx => hm x (List.mem_cons_of_mem _ hx)
    rw [List.foldl_cons]
    cases op with
    | mature x =>
      have hx : 0 ≤ x := hm x List.mem_cons_self
      obtain ⟨a, b⟩ := ih (wstep w (.mature x)) hm' (by simp only [wstep]; omega)
      refine ⟨a, ?_⟩
      rw [b]
      simp only [wstep, maturedTotal]
      omega
    | withdraw curOK stake signer value charge =>
      cases hw : withdrawTx w curOK stake signer value charge with
      | error err =>
        have e1 : wstep w (.withdraw curOK stake signer value charge) = w := by
          simp only [wstep, hw]
        rw [e1]
        simpa only [maturedTotal] using ih w hm' h0
      | ok w1 =>
        have e1 : wstep w (.withdraw curOK stake signer value charge) = w1 := by
          simp only [wstep, hw]
        rw [e1]
        obtain ⟨g0, g1⟩ := withdrawTx_matured w w1 curOK stake signer value charge hw
        obtain ⟨a, b⟩ := ih w1 hm' g0
        refine ⟨a, ?_⟩
        rw [b]
        simp only [maturedTotal]
        omega

/-- per transaction, at full strength (since fix d8159a7 `Validate` also requires the whole-token
    value to fit an int64, so `Value.Int64()` is the value): a withdrawal never raises the matured
    balance, never lowers the withdrawn total, and what it pays is within what had matured -/
theorem withdraw_never_raises_matured (w w' : WSt) (curOK : Bool) (stake : Option Addr)
    (signer : Addr) (value charge : Int)
    (h : withdrawTx w curOK stake signer value charge = .ok w') :
    w'.matured ≤ w.matured ∧ w.withdrawn ≤ w'.withdrawn ∧
    w'.withdrawn - w.withdrawn = value * base18 ∧ value * base18 ≤ w.matured := by
  obtain ⟨⟨hv0, hv⟩, w1, hr, rfl⟩ := withdrawTx_ok w w' curOK stake signer value charge h
  obtain ⟨h0, rfl⟩ := runWithdraw_ok w w1 stake signer value hr
  have hn := toCoinWithBase_nonneg value hv0 hv
  have hc : Ledger.toCoinWithBase value 18 = value * base18 := by
    unfold Ledger.toCoinWithBase
    rw [wrap64_of_range value hv0 hv]
    rfl
  simp only []
  rw [hc] at hn h0 ⊢
  omega

/-- the int64 guard is needed: with the sign check alone (the code before d8159a7)
    WithdrawAmount 2^64-1 passes `Validate` and RAISES the matured balance by one token, paid by
    the signer into the pool — the regression scenario the harness offers to CheckTx and
    DeliverTx in every run (both must refuse it) -/
theorem wrapped_withdraw_raises_matured :
    withdrawTxNoInt64 ⟨0, 0, 5 * base18, 3 * base18⟩ true none "s" 18446744073709551615 1000 =
      .ok ⟨base18, -base18, 6 * base18, 2 * base18 - 1000⟩ ∧
    withdrawTx ⟨0, 0, 5 * base18, 3 * base18⟩ true none "s" 18446744073709551615 1000 =
      .error .invalid := by
  exact ⟨rfl, rfl⟩

/-! ## non-vacuity -/

example : VotesOK [⟨"v1", 10, true, true⟩, ⟨"v2", 13, false, true⟩] ∧
    ActiveOK (40 * base18) [("a", 15 * base18), ("b", 20 * base18)] ∧
    (∃ sp, split 7000000000000000000 (40 * base18) [⟨"v1", 10, true, true⟩, ⟨"v2", 13, false, true⟩] "v1"
        [("a", 15 * base18), ("b", 20 * base18)] = some sp ∧ 0 < sumSnd sp.vals ∧
        0 < sumSnd sp.resp.credits ∧ 0 < sp.resp.proposerReward) := by
  refine ⟨by decide, by decide, _, rfl, by decide, by decide, by decide⟩


/-! # Part II — the calculator (after fixes 729d203 and 2606b58)

  Environment hypotheses that remain: heights start at 1 and the cycle length is positive
  (`1 ≤ h`, `0 < e.o.cycle`).  NOTHING is assumed about the float quotient `fq`, about block times
  (they need not even increase) or about the close window: the clamp makes every forecast at least
  one cycle, whatever `fq` returns.  (That `fq` is the same function on every node — IEEE-754
  division is, the int64 conversion of ±Inf/NaN is platform-defined — is a determinism premise of
  C01, not of the bounds proved here.) -/

/-! ## 1. one recalculation -/

/-- the forecast is 0 exactly when no reward year is open any more (every close is less than
    `window` seconds after the end of the last complete cycle); otherwise it is at least one
    calculation cycle -/
theorem forecast_zero_iff_schedule_over (e : Env) (years : List Year) (h : Int) (hc : 0 < e.o.cycle) :
    ((numMoreBlocks e years h).1 = 0 ↔
        ∀ yr ∈ years, yr.close - (secondsPerCycleLatest e h).2 < e.o.window) ∧
    ((numMoreBlocks e years h).1 ≠ 0 → e.o.cycle ≤ (numMoreBlocks e years h).1) := by
  exact numMoreBlocks_zero_iff e years h hc

/-- a recalculated amount is non-negative, at most `supply − TillLastCycle` of the selected year
    — even a whole cycle of it is — and the selected year is not yet inside its close window -/
theorem pulled_le_year_left (e : Env) (years : List Year) (c c' : Cache) (h amt : Int)
    (hc : 0 < e.o.cycle)
    (hr : recalc e years c h = .ok amt c') (hb : c'.burnedout = false) :
    ∃ (y : Nat) (supply : Int) (yr : Year), c'.year = (y : Int) ∧ c'.amount = amt ∧
      (numMoreBlocks e years h).2 = (y : Int) ∧
      e.o.shares[y]? = some supply ∧ years[y]? = some yr ∧
      0 ≤ amt ∧ amt ≤ supply - yr.till ∧ e.o.cycle * amt ≤ supply - yr.till ∧
      e.o.window ≤ yr.close - (secondsPerCycleLatest e h).2 := by
  exact recalc_ok_spec e years c c' h amt hc hr hb

/-- `Calculate` keeps the cache invariant, and the answer is what the cache then holds -/
theorem calculate_keeps_cacheWF (e : Env) (years : List Year) (c c' : Cache) (h amt : Int)
    (hw : CacheWF e.o c) (hr : calculate e years c h = .ok amt c') :
    CacheWF e.o c' ∧ c'.amount = amt := by
  exact calculate_ok_spec e years c c' h amt hw hr

/-- after the schedule the pulled amount is the burnout rate capped by the rewards pool -/
theorem burnout_capped_by_pool (e : Env) (years : List Year) (c c' : Cache) (h pool amt : Int)
    (hw : CacheWF e.o c) (hp : pullRewards e years c h pool = .ok amt c') (hb : c'.burnedout = true) :
    amt ≤ pool ∧ amt ≤ e.o.burnout ∧ (amt = pool ∨ amt = e.o.burnout) := by
  exact pullRewards_burnedout_spec e years c c' h pool amt hw hp hb

/-- the year records change only through the consumed amount: `TillLastCycle` moves only in the
    last block of a cycle … -/
theorem till_changes_only_at_cycle_end (e : Env) (use : Int → Int → Int) (pool : Int → Int)
    (s : CS) (h : Int) (r : Bool) (hl : lastInCycle e.o h = false) :
    (calcStep e use pool s h r).1.years.map (·.till) = s.years.map (·.till) ∧
    (calcStep e use pool s h r).1.years.map (·.close) = s.years.map (·.close) := by
  exact calcStep_till_close e use pool s h r hl

/-- … where it becomes the year's `Distributed` -/
theorem till_eq_dist_at_cycle_end (e : Env) (use : Int → Int → Int) (pool : Int → Int)
    (s : CS) (h amt : Int) (r : Bool) (hl : lastInCycle e.o h = true)
    (ho : (calcStep e use pool s h r).2 = some amt)
    (hb : (calcStep e use pool s h r).1.cache.burnedout = false) :
    ∃ (y : Nat) (yr : Year), (calcStep e use pool s h r).1.cache.year = (y : Int) ∧
      (calcStep e use pool s h r).1.years[y]? = some yr ∧ yr.till = yr.dist := by
  exact calcStep_till_eq_dist e use pool s h amt r hl ho hb

/-! ## 2. restart independence (clause 4, full strength) -/

/-- a node restarted at ANY set of heights pulls the same amounts (failures included) and records
    the same `ydist` / `tdist` as a node restarted before every block: the per-block amount is a
    function of the persisted records and the block store, for every block-time sequence, every
    float quotient, every consumption pattern -/
theorem calc_cache_restart_invariant (e : Env) (use : Int → Int → Int) (pool : Int → Int)
    (years : List Year) (tdist h : Int) (rs : List Bool) (hh : 1 ≤ h) (hc : 0 < e.o.cycle) :
    (calcRun e use pool ⟨years, tdist, Cache.fresh⟩ h rs).2 =
      (calcRun e use pool ⟨years, tdist, Cache.fresh⟩ h (allTrue rs)).2 ∧
    (calcRun e use pool ⟨years, tdist, Cache.fresh⟩ h rs).1.years =
      (calcRun e use pool ⟨years, tdist, Cache.fresh⟩ h (allTrue rs)).1.years ∧
    (calcRun e use pool ⟨years, tdist, Cache.fresh⟩ h rs).1.tdist =
      (calcRun e use pool ⟨years, tdist, Cache.fresh⟩ h (allTrue rs)).1.tdist := by
  obtain ⟨h1, h2, h3, _⟩ := calcRun_sim e use pool hc rs ⟨years, tdist, Cache.fresh⟩
    ⟨years, tdist, Cache.fresh⟩ h hh rfl rfl (goodCache_fresh e h years hh hc)
  exact ⟨h1, h2, h3⟩

/-- corollary: two nodes with different restart histories agree -/
theorem restart_patterns_agree (e : Env) (use : Int → Int → Int) (pool : Int → Int)
    (years : List Year) (tdist h : Int) (rs rs' : List Bool) (hlen : rs.length = rs'.length)
    (hh : 1 ≤ h) (hc : 0 < e.o.cycle) :
    (calcRun e use pool ⟨years, tdist, Cache.fresh⟩ h rs).2 =
      (calcRun e use pool ⟨years, tdist, Cache.fresh⟩ h rs').2 := by
  have hall : allTrue rs = allTrue rs' := by
    unfold allTrue
    rw [List.map_const', List.map_const', hlen]
  rw [(calc_cache_restart_invariant e use pool years tdist h rs hh hc).1,
    (calc_cache_restart_invariant e use pool years tdist h rs' hh hc).1, hall]

/-- regression example 1 (was the counterexample of KF-C13-1/2 before 729d203 + 2606b58): after
    the stall the forecast is clamped to one cycle, blocks 3 and 4 share what is left of the year
    (no over-distribution: exactly the supply), blocks 5 and 6 pull 0, nothing fails, and a node
    restarted before block 6 agrees with the node that kept running -/
theorem stall_regression_example :
    calcRun (cexEnv cexStall) (fun _ a => a) (fun _ => 0) ⟨initYears (cexEnv cexStall), 0, Cache.fresh⟩ 1
        [false, false, false, false, false, false]
      = (⟨[⟨1000, 1000000, 1000000⟩], 1000000, ⟨0, 3, false, 0⟩⟩,
         [some 5000, some 5000, some 495000, some 495000, some 0, some 0]) ∧
    (calcRun (cexEnv cexStall) (fun _ a => a) (fun _ => 0) ⟨initYears (cexEnv cexStall), 0, Cache.fresh⟩ 1
        [false, false, false, false, false, true]).2
      = [some 5000, some 5000, some 495000, some 495000, some 0, some 0] := by
  decide

/-- regression example 2 (was the counterexample of KF-C13-3): the slow cycle no longer forecasts
    0 blocks for a year that is still open, the node never caches "burned out" while the schedule
    runs, and a node restarted before block 5 agrees -/
theorem slow_cycle_regression_example :
    (calcRun (cexEnv cexSlow) (fun _ a => a) (fun _ => 100) ⟨initYears (cexEnv cexSlow), 0, Cache.fresh⟩ 1
        [false, false, false, false, false]).2
      = [some 5000, some 5000, some 495000, some 495000, some 0] ∧
    (calcRun (cexEnv cexSlow) (fun _ a => a) (fun _ => 100) ⟨initYears (cexEnv cexSlow), 0, Cache.fresh⟩ 1
        [false, false, false, false, true]).2
      = [some 5000, some 5000, some 495000, some 495000, some 0] := by
  decide

/-! ## 3. the schedule over whole runs (clause 2, full strength) -/

/-- per block: in any run with any restart pattern every pulled amount of a block whose forecast
    is not 0 is non-negative and at most `supply − TillLastCycle` of the forecast's year, read
    from the records as they are before that block -/
theorem pulled_le_year_left_by_till (e : Env) (use : Int → Int → Int) (pool : Int → Int)
    (years : List Year) (tdist h : Int) (rs : List Bool) (hh : 1 ≤ h) (hc : 0 < e.o.cycle)
    (j : Nat) (amt : Int) (sj : CS)
    (hj : (calcRun e use pool ⟨years, tdist, Cache.fresh⟩ h rs).2[j]? = some (some amt))
    (hs : (calcStates e use pool ⟨years, tdist, Cache.fresh⟩ h rs)[j]? = some sj)
    (hn : (numMoreBlocks e years (h + j)).1 ≠ 0) :
    ∃ (y : Nat) (supply : Int) (yr : Year), (numMoreBlocks e years (h + j)).2 = (y : Int) ∧
      e.o.shares[y]? = some supply ∧ sj.years[y]? = some yr ∧ 0 ≤ amt ∧ amt ≤ supply - yr.till := by
  have hcs : ∀ (rs : List Bool) (s : CS) (k : Int),
      calcStates e use pool s k rs = calcStatesL e use pool s k rs := by
    intro rs
    induction rs with
    | nil => intro s k; rfl
    | cons r rs ih => intro s k; simp only [calcStates, calcStatesL, ih]
  rw [hcs] at hs
  exact pulled_le_year_left_by_till_aux e use pool years tdist h rs hh hc j amt sj hj hs hn

/-- clause 2 as the property states it: from a clean start (every year's `TillLastCycle` equal to
    its `Distributed`, e.g. the genesis state at height 1), every pulled amount of a block `j` is
    at most what was left of its reward year — supply minus `Distributed` — in the state before
    the FIRST block `i` of `j`'s calculation cycle; and when the forecast is 0 the schedule is over
    (`forecast_zero_iff_schedule_over`) and the amount is the capped burnout rate
    (`burnout_capped_by_pool`) -/
theorem pulled_le_year_left_at_cycle_start (e : Env) (use : Int → Int → Int) (pool : Int → Int)
    (years : List Year) (tdist h : Int) (rs : List Bool) (hh : 1 ≤ h) (hc : 0 < e.o.cycle)
    (hclean : ∀ yr ∈ years, yr.till = yr.dist)
    (i j : Nat) (hij : i ≤ j) (amt : Int) (si : CS)
    (hi : firstInCycle e.o (h + i) = true) (hcyc : cycleNo e.o (h + i) = cycleNo e.o (h + j))
    (hj : (calcRun e use pool ⟨years, tdist, Cache.fresh⟩ h rs).2[j]? = some (some amt))
    (hs : (calcStates e use pool ⟨years, tdist, Cache.fresh⟩ h rs)[i]? = some si)
    (hn : (numMoreBlocks e years (h + j)).1 ≠ 0) :
    ∃ (y : Nat) (supply : Int) (yr : Year), (numMoreBlocks e years (h + j)).2 = (y : Int) ∧
      e.o.shares[y]? = some supply ∧ si.years[y]? = some yr ∧ amt ≤ supply - yr.dist := by
  have hcs : ∀ (rs : List Bool) (s : CS) (k : Int),
      calcStates e use pool s k rs = calcStatesL e use pool s k rs := by
    intro rs
    induction rs with
    | nil => intro s k; rfl
    | cons r rs ih => intro s k; simp only [calcStates, calcStatesL, ih]
  rw [hcs] at hs
  exact pulled_le_year_left_at_cycle_start_aux e use pool years tdist h rs hh hc hclean
    i j hij amt si hi hcyc hj hs hn

/-- the yearly schedule itself (new with fix 2606b58): from a clean start within supply, when every
    block consumes between nothing and what it pulled, NO reward year is ever over-distributed —
    in every state of every run, with any restart pattern, any block times, any float quotient -/
theorem year_never_overdistributed (e : Env) (use : Int → Int → Int) (pool : Int → Int)
    (years : List Year) (tdist h : Int) (rs : List Bool) (hh : 1 ≤ h) (hc : 0 < e.o.cycle)
    (huse : UseOK use) (hclean : ∀ yr ∈ years, yr.till = yr.dist)
    (hsup : WithinSupply e.o years) :
    (∀ s ∈ calcStates e use pool ⟨years, tdist, Cache.fresh⟩ h rs, WithinSupply e.o s.years) ∧
    WithinSupply e.o (calcRun e use pool ⟨years, tdist, Cache.fresh⟩ h rs).1.years := by
  have hcs : ∀ (rs : List Bool) (s : CS) (k : Int),
      calcStates e use pool s k rs = calcStatesL e use pool s k rs := by
    intro rs
    induction rs with
    | nil => intro s k; rfl
    | cons r rs ih => intro s k; simp only [calcStates, calcStatesL, ih]
  rw [hcs]
  exact year_never_overdistributed_aux e use pool years tdist h rs hh hc huse hclean hsup

/-- … hence "Year rewards burned out unexpectedly" is dead code: with a share for every year no
    block of such a run fails -/
theorem pull_never_fails (e : Env) (use : Int → Int → Int) (pool : Int → Int)
    (years : List Year) (tdist h : Int) (rs : List Bool) (hh : 1 ≤ h) (hc : 0 < e.o.cycle)
    (huse : UseOK use) (hclean : ∀ yr ∈ years, yr.till = yr.dist)
    (hsup : WithinSupply e.o years) (hlen : e.o.shares.length = years.length) :
    ∀ x ∈ (calcRun e use pool ⟨years, tdist, Cache.fresh⟩ h rs).2, x.isSome = true := by
  exact pull_never_fails_aux e use pool years tdist h rs hh hc huse hclean hsup hlen

/-! ## non-vacuity -/

/-- the hypotheses are satisfiable on a non-trivial run that crosses three cycle boundaries, pays
    out, and is restarted twice -/
example :
    let e : Env := cexEnv (fun h => h - 1)
    UseOK (fun _ a => a) ∧ WithinSupply e.o (initYears e) ∧ (∀ yr ∈ initYears e, yr.till = yr.dist) ∧
    e.o.shares.length = (initYears e).length ∧
    (calcRun e (fun _ a => a) (fun _ => 0) ⟨initYears e, 0, Cache.fresh⟩ 1
        [false, true, false, false, true, false]).2 =
      [some 5000, some 5000, some 991, some 991, some 991, some 991] := by
  intro e
  have hy : initYears e = [⟨1000, 0, 0⟩] := by decide
  refine ⟨fun k a ha => ⟨ha, Int.le_refl a⟩, ?_, ?_, by decide, by decide⟩
  · intro y yr supply h1 h2
    rw [hy] at h1
    cases y with
    | zero =>
      simp only [List.getElem?_cons_zero, Option.some.injEq] at h1
      have h3 : e.o.shares[0]? = some 1000000 := rfl
      rw [h3] at h2
      simp only [Option.some.injEq] at h2
      rw [← h1, ← h2]
      decide
    | succ n => simp at h1
  · intro yr hyr
    rw [hy] at hyr
    simp only [List.mem_singleton] at hyr
    rw [hyr]

end OLP.Props.C13

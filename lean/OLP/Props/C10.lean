/-
  C10 — Validator-set updates are well formed and follow the staking rule.

  Property theorems only (helper lemmas: OLP/Elect/Lemmas.lean).  All statements are about the
  executable model OLP/Elect/Model.lean (`elect` = GetEndBlockUpdate, `Heap` = container/heap on
  utils.PriorityQueue, `TM.apply` = validateValidatorUpdates + ValidatorSet.UpdateWithChangeSet,
  `step`/`run` = application and Tendermint over several blocks with the +2 delay), which the
  `elect` correspondence engine compares with the real code on every run.

  Where the code violates a clause of the property the full statement is kept in a comment, a
  `_partial` theorem is proved under exactly the hypothesis the code forces, and a concrete
  counterexample is proved by evaluation; the harness replays the same witness on the real
  application (scripted histories of harness/apph/elect.go, known_findings.json).
-/
import OLP.Elect.Lemmas

namespace OLP.Props.C10
open OLP OLP.Elect

/-! ## 1. The queue: popping everything yields every element once, highest priority first -/

theorem heap_pop_sorted (l : List Item) :
    (Heap.drain l).Perm l ∧ (Heap.drain l).Pairwise (fun a b => a.prio ≥ b.prio) :=
  Heap.drain_spec l

/-- non-vacuity: seven elements with ties; the pop order below is also what the real
    `ValidatorQueue` returns (heap cases of the engine) -/
example : (Heap.drain [⟨0, 3⟩, ⟨1, 1⟩, ⟨2, 3⟩, ⟨3, 2⟩, ⟨4, 3⟩, ⟨5, 0⟩, ⟨6, 2⟩]).map (·.val) = [0, 4, 2, 3, 6, 1, 5] := by
  decide

/-! ## 2. The update list of one block -/

/-- a running example: five records, top count 2, minimum 5; `c` is malicious, `e` below the
    minimum, `d` active but beaten, `b` purged two blocks ago (guarded) -/
def ex : Input :=
  { height := 7, minSelf := 5, top := 2
    recs := [⟨10, 110, 0, 9⟩, ⟨20, 120, 0, 7⟩, ⟨30, 130, 0, 12⟩, ⟨40, 140, 0, 8⟩, ⟨50, 150, 0, 4⟩]
    lastActive := [10, 20, 40, 50], malicious := [30], purge := [(20, 5)], status := [(10, ⟨true, 2⟩)] }

example : (elect ex).updates = [⟨110, 0, 9⟩, ⟨140, 0, 8⟩, ⟨150, 0, 0⟩] ∧ (elect ex).purgeW = [(50, 7)] ∧
    (elect ex).activeCount = 2 := by decide

/-- the list is sorted by public key -/
theorem updates_sorted_by_pubkey (inp : Input) :
    (elect inp).updates.Pairwise (fun a b => a.pub ≤ b.pub) := by
  by_cases h : 1 < inp.height
  · rw [elect_updates inp h]; exact sortUpd_sorted _
  · rw [elect_low inp (by omega)]; exact List.Pairwise.nil

/-- every positive-power update names a record of the previous version with at least the minimum
    self delegation that is not in the malicious set, and carries that record's power -/
theorem positive_update_rule (inp : Input) (u : Upd) (hu : u ∈ (elect inp).updates) (hp : 0 < u.power) :
    ∃ r ∈ inp.recs, r.pub = u.pub ∧ r.ktype = u.ktype ∧ r.power ≥ inp.minSelf ∧
      r.addr ∉ inp.malicious ∧ u.power = r.power := by
  by_cases h : 1 < inp.height
  · rcases (mem_updates inp h u).mp hu with ⟨r, hr, e⟩ | ⟨r, _, e⟩
    · obtain ⟨m, hm, hmal⟩ := mem_electedRecs hr
      exact ⟨r, m, by rw [e]; rfl, by rw [e]; rfl, hm, hmal, by rw [e]; rfl⟩
    · rw [e] at hp; exact absurd hp (Int.lt_irrefl 0)
  · rw [elect_low inp (by omega)] at hu; cases hu

example : ∃ u ∈ (elect ex).updates, 0 < u.power := ⟨⟨110, 0, 9⟩, by decide, by decide⟩

/-- at most `TopValidatorCount` positive updates per block -/
theorem at_most_top_count (inp : Input) :
    ((elect inp).updates.filter (fun u => decide (0 < u.power))).length ≤ inp.top.toNat := by
  by_cases h : 1 < inp.height
  · rw [((updates_perm inp h).filter _).length_eq, List.filter_append, List.length_append]
    have h2 : ((purged inp).map Rec.removal).filter (fun u => decide (0 < u.power)) = [] := by
      rw [List.filter_eq_nil_iff]
      intro a ha
      obtain ⟨r, _, e⟩ := List.mem_map.mp ha
      rw [← e]; simp [Rec.removal]
    rw [h2]
    have h1 := List.length_filter_le (fun u => decide (0 < u.power)) ((electedRecs inp).map Rec.upd)
    have h3 : (electedRecs inp).length ≤ inp.top.toNat := List.length_take_le _ _
    simp only [List.length_map, List.length_nil, Nat.add_zero] at h1 ⊢
    omega
  · rw [elect_low inp (by omega)]; simp

/-- higher stake is preferred: a positive update never has less power than an eligible record
    that no positive update names (`0 < minSelf`: positive updates are exactly the elected ones) -/
theorem prefers_higher_stake (inp : Input) (hn : (inp.recs.map (·.addr)).Nodup) (hmin : 0 < inp.minSelf)
    (u : Upd) (hu : u ∈ (elect inp).updates) (hp : 0 < u.power)
    (r' : Rec) (hr' : r' ∈ inp.recs) (he : r'.power ≥ inp.minSelf) (hm : r'.addr ∉ inp.malicious)
    (hout : ∀ u' ∈ (elect inp).updates, 0 < u'.power → u'.pub ≠ r'.pub) :
    u.power ≥ r'.power := by
  by_cases h : 1 < inp.height
  · rcases (mem_updates inp h u).mp hu with ⟨r, hr, e⟩ | ⟨r, _, e⟩
    · have hsorted := eligInOrder_sorted inp hn
      rw [← List.take_append_drop inp.top.toNat (eligInOrder inp), List.pairwise_append] at hsorted
      have hin := mem_eligInOrder inp hn r' hr' he hm
      rw [← List.take_append_drop inp.top.toNat (eligInOrder inp), List.mem_append] at hin
      rcases hin with hin | hin
      · -- r' itself is elected: then a positive update names it
        have : r'.upd ∈ (elect inp).updates := (mem_updates inp h _).mpr (Or.inl ⟨r', hin, rfl⟩)
        have hpos : 0 < r'.upd.power := by show 0 < r'.power; omega
        exact absurd rfl (hout _ this hpos)
      · have := hsorted.2.2 r hr r' hin
        rw [e]; exact this
    · rw [e] at hp; exact absurd hp (Int.lt_irrefl 0)
  · rw [elect_low inp (by omega)] at hu; cases hu

/-- in the running example `d` (power 8) wins the second seat over `b` (power 7) -/
example : (ex.recs.map (·.addr)).Nodup ∧ 0 < ex.minSelf := by decide

/-- a power-0 update names a record that was active in the last commit, is not elected, and whose
    last purge is more than two blocks old; its purge height is set to this block -/
theorem removal_only_last_active (inp : Input) (hmin : 0 < inp.minSelf)
    (u : Upd) (hu : u ∈ (elect inp).updates) (hz : u.power = 0) :
    ∃ r ∈ inp.recs, r.pub = u.pub ∧ r.addr ∈ inp.lastActive ∧ guarded inp r.addr = false ∧
      (r.addr, inp.height) ∈ (elect inp).purgeW := by
  by_cases h : 1 < inp.height
  · rcases (mem_updates inp h u).mp hu with ⟨r, hr, e⟩ | ⟨r, hr, e⟩
    · obtain ⟨_, hm, _⟩ := mem_electedRecs hr
      rw [e] at hz
      have : r.power = 0 := hz
      omega
    · obtain ⟨hnt, hla, hg⟩ := mem_purged hr
      refine ⟨r, runLoop_sound inp r (List.mem_append_right _ hnt), by rw [e]; rfl, hla, hg, ?_⟩
      rw [elect_purgeW inp h]
      exact List.mem_map.mpr ⟨r, hr, rfl⟩
  · rw [elect_low inp (by omega)] at hu; cases hu

/-- the purge guard: once the removal of an address was emitted at height `h`, no election at
    heights `h+1`, `h+2` emits it again, whatever the records, votes and options are then -/
theorem removal_only_last_active_once (inp inp' : Input) (a : Nat)
    (hw : (a, inp.height) ∈ (elect inp).purgeW)
    (hkept : alookup a inp'.purge = some inp.height)
    (hlt : inp.height < inp'.height) (hle : inp'.height ≤ inp.height + 2) :
    ∀ p ∈ (elect inp').purgeW, p.1 ≠ a := by
  have h1 : 1 < inp.height := by
    by_cases h : 1 < inp.height
    · exact h
    · rw [elect_low inp (by omega)] at hw; cases hw
  intro p hp e
  rw [elect_purgeW inp' (by omega)] at hp
  obtain ⟨r, hr, e2⟩ := List.mem_map.mp hp
  have hg := (mem_purged hr).2.2
  have : r.addr = a := by rw [← e, ← e2]
  rw [this] at hg
  unfold guarded at hg
  rw [hkept] at hg
  simp at hg
  omega

/-- in the running example `b` (purged at 5) is not purged at 7 although it lost its seat -/
example : guarded ex 20 = true ∧ ∀ p ∈ (elect ex).purgeW, p.1 ≠ 20 := by decide

/-- no key twice.  FULL STATEMENT (false of the code): `((elect inp).updates.map (·.pub)).Nodup`
    for the records of every reachable state.  STAKE does not bind `ValidatorPubKey` to
    `ValidatorAddress` (S16), so two records may carry one key; the theorem needs the hypothesis
    that they do not. -/
theorem no_duplicate_keys_partial (inp : Input) (hn : (inp.recs.map (·.addr)).Nodup)
    (hk : (inp.recs.map (·.pub)).Nodup) : ((elect inp).updates.map (·.pub)).Nodup := by
  by_cases h : 1 < inp.height
  · have hperm := ((updates_perm inp h).map (·.pub))
    rw [hperm.nodup_iff]
    have hsplit := runLoop_split inp hn
    rw [runLoop_elected] at hsplit
    have hinj := inj_on_of_nodup_map (·.pub) inp.recs hk
    have hall : ((electedRecs inp ++ (runLoop inp).nonTop).map (·.addr)).Nodup :=
      ((hsplit.map (·.addr)).nodup_iff).mpr hn
    rw [List.map_append, List.nodup_append] at hall
    simp only [List.map_append, List.map_map]
    rw [List.nodup_append]
    have hE : ∀ r ∈ electedRecs inp, r ∈ inp.recs := fun r hr => (mem_electedRecs hr).1
    have hP : ∀ r ∈ purged inp, r ∈ inp.recs := fun r hr =>
      runLoop_sound inp r (List.mem_append_right _ (mem_purged hr).1)
    refine ⟨?_, ?_, ?_⟩
    · -- elected keys are distinct
      have : (electedRecs inp).Nodup := by
        have := hall.1
        unfold List.Nodup at this ⊢
        rw [List.pairwise_map] at this
        exact List.Pairwise.imp (fun hne e => hne (by rw [e])) this
      exact nodup_map_of_inj_on _ _ this (fun a ha b hb e => hinj a (hE a ha) b (hE b hb) e)
    · have hpa := purged_addr_nodup inp
      have : (purged inp).Nodup := by
        unfold List.Nodup at hpa ⊢
        rw [List.pairwise_map] at hpa
        exact List.Pairwise.imp (fun hne e => hne (by rw [e])) hpa
      exact nodup_map_of_inj_on _ _ this (fun a ha b hb e => hinj a (hP a ha) b (hP b hb) e)
    · intro x hx y hy exy
      obtain ⟨r1, hr1, e1⟩ := List.mem_map.mp hx
      obtain ⟨r2, hr2, e2⟩ := List.mem_map.mp hy
      have : r1 = r2 := hinj r1 (hE r1 hr1) r2 (hP r2 hr2) (by
        simp only [Function.comp, Rec.upd, Rec.removal] at e1 e2; rw [e1, e2]; exact exy)
      subst this
      exact hall.2.2 r1.addr (List.mem_map.mpr ⟨r1, hr1, rfl⟩) r1.addr
        (List.mem_map.mpr ⟨r1, (mem_purged hr2).1, rfl⟩) rfl
  · rw [elect_low inp (by omega)]; exact List.Pairwise.nil

example : (ex.recs.map (·.pub)).Nodup := by decide

/-- counterexample to the full statement (S16; replayed by the engine's `script-foreign-pubkey`
    history, where the real `UpdateWithChangeSet` answers "duplicate entry"): two records with one
    key are both elected -/
theorem duplicate_keys_possible :
    ∃ inp : Input, (inp.recs.map (·.addr)).Nodup ∧ ¬ ((elect inp).updates.map (·.pub)).Nodup :=
  ⟨{ height := 3, minSelf := 5, top := 4, recs := [⟨1, 77, 0, 8⟩, ⟨2, 99, 0, 12⟩, ⟨3, 77, 0, 10⟩]
     lastActive := [2, 3], malicious := [], purge := [], status := [] }, by decide, by decide⟩

/-! ## 3. Frozen validators -/

/-- FULL STATEMENT (false of the code): no positive update names a validator that is frozen in the
    previous block's records.  `CheckMaliciousValidators` returns before it collects the frozen
    records while `height <= BlockVotesDiff` (1000 in production), so inside the first vote window
    the malicious set is empty.  Outside the window frozen and freshly flagged validators are in
    the set, and by `positive_update_rule` no positive update names them. -/
theorem frozen_not_elected_partial (inp : Input) (vd : Int) (frozen flagged : List Nat)
    (hm : inp.malicious = maliciousSet inp.height vd frozen flagged) (hvd : vd < inp.height)
    (u : Upd) (hu : u ∈ (elect inp).updates) (hp : 0 < u.power) :
    ∃ r ∈ inp.recs, r.pub = u.pub ∧ u.power = r.power ∧ r.addr ∉ frozen ∧ r.addr ∉ flagged := by
  obtain ⟨r, hr, e1, _, _, hmal, e2⟩ := positive_update_rule inp u hu hp
  refine ⟨r, hr, e1, e2, ?_, ?_⟩
  all_goals
    intro hf
    apply hmal
    rw [hm]
    unfold maliciousSet
    have : ¬ inp.height ≤ vd := by omega
    simp [this, hf]

/-- counterexample inside the window (replayed by `script-frozen-early`): height 6, window 50,
    validator 40 frozen — and elected -/
theorem frozen_elected_inside_first_window :
    ∃ inp : Input, ∃ frozen : List Nat, inp.malicious = maliciousSet inp.height 50 frozen [] ∧
      40 ∈ frozen ∧ (⟨140, 0, 16⟩ : Upd) ∈ (elect inp).updates :=
  ⟨{ height := 6, minSelf := 5, top := 4, recs := [⟨10, 110, 0, 10⟩, ⟨40, 140, 0, 16⟩]
     lastActive := [10, 40], malicious := [], purge := [], status := [] }, [40], by decide, by decide, by decide⟩

/-! ## 4. Tendermint accepts the list -/

/-- FULL STATEMENT (false of the code): for the records of every reachable state and every set `s`
    that contains the validators of the last commit not purged in the last two blocks,
    `TM.apply s (tmChanges addrOf (elect inp).updates)` is `.ok`.  The code forces four hypotheses:
      * `Bound` / distinct keys / key type ed25519 — STAKE accepts any well-formed key (S16),
      * `0 < activeCount` — nothing keeps the last eligible validator from leaving or being
        frozen, and then every member is removed ("would result in empty set"),
      * the total power bound — stake amounts are only bounded by the supply.
    SINGLE BLOCK: under them the list is accepted and the new set is the old one with the elected
    records written and the purged ones gone. -/
theorem tm_accepts_single_block_partial (addrOf : Nat → Nat) (inp : Input) (s : TM.VSet)
    (h : 1 < inp.height)
    (hn : (inp.recs.map (·.addr)).Nodup) (hb : Bound addrOf inp.recs)
    (hkt : ∀ r ∈ inp.recs, r.ktype = 0) (hmin : 0 < inp.minSelf)
    (hne : 0 < (elect inp).activeCount)
    (hin : ∀ r ∈ purged inp, (alookup r.addr s).isSome)
    (hs : ∀ x ∈ s, 0 ≤ x.2)
    (htot : TM.total s + TM.sumPow (tmChanges addrOf (elect inp).updates) ≤ TM.maxTotal) :
    ∃ s', TM.apply s (tmChanges addrOf (elect inp).updates) = .ok s' ∧
      (∀ r ∈ purged inp, alookup r.addr s' = none) ∧
      (∀ r ∈ electedRecs inp, alookup r.addr s' = some r.power) ∧
      (∀ k, k ∉ (electedRecs inp).map (·.addr) → k ∉ (purged inp).map (·.addr) → alookup k s' = alookup k s) :=
  let ⟨s', ok, a, b, c, _⟩ := elect_tm_ok addrOf inp s h hn hb hkt hmin hne hin hs htot
  ⟨s', ok, a, b, c⟩

/-- the running example in front of a set that holds the four voters -/
example : TM.apply [(10, 9), (20, 7), (40, 8), (50, 4)] (tmChanges (· - 100) (elect ex).updates) =
    .ok [(10, 9), (20, 7), (40, 8)] := by decide

/-- MULTI BLOCK.  `Inv` relates the purge heights to the three pending validator sets; it holds
    after genesis, every accepted block preserves it, and with it the removals of a block always
    name members of the set they are applied to ("never removing a validator that is not in the
    set" holds without further hypothesis, `purged_in_next_set`).  For any history whose blocks
    meet the side conditions (`BlockOK`: the forced hypotheses above, per block) Tendermint
    accepts every list. -/
theorem inv_after_genesis (g : TM.VSet) (hg : ∀ x ∈ g, 0 ≤ x.2) : Inv (genesisChain g) := inv_genesis g hg

theorem removals_name_members (s : Chain) (b : BlockIn) (hI : Inv s) (h : 1 < s.next) :
    ∀ r ∈ purged (inputOf s b), (alookup r.addr s.vN).isSome := purged_in_next_set s b hI h

theorem tm_accepts_step_partial (addrOf : Nat → Nat) (s : Chain) (b : BlockIn) (hI : Inv s)
    (hB : BlockOK addrOf s b) : ∃ s', step addrOf s b = .ok s' ∧ Inv s' :=
  let ⟨s', ok, hI', _⟩ := step_ok addrOf s b hI hB
  ⟨s', ok, hI'⟩

theorem tm_accepts_all_partial (addrOf : Nat → Nat) (g : TM.VSet) (hg : ∀ x ∈ g, 0 ≤ x.2)
    (bs : List BlockIn) (hS : SideAll addrOf (genesisChain g) bs) :
    ∃ s', run addrOf (genesisChain g) bs = .ok s' ∧ Inv s' :=
  run_ok addrOf bs _ (inv_genesis g hg) hS

/-- a three-validator chain, records as committed after blocks 1–3 (key = address + 100) -/
def exBlocks : List BlockIn :=
  [⟨[], [], 5, 2⟩,
   ⟨[⟨1, 101, 0, 10⟩, ⟨2, 102, 0, 12⟩, ⟨3, 103, 0, 14⟩], [], 5, 2⟩,
   ⟨[⟨1, 101, 0, 10⟩, ⟨2, 102, 0, 12⟩, ⟨3, 103, 0, 6⟩], [], 5, 2⟩,
   ⟨[⟨1, 101, 0, 10⟩, ⟨2, 102, 0, 12⟩, ⟨3, 103, 0, 6⟩], [], 5, 2⟩]

/-- non-vacuity: the history is accepted; validator 1 is purged at height 2 (top count 2), comes
    back at height 3 when validator 3 dropped to 6, and validator 3 is purged at height 3 -/
example : run (· - 100) (genesisChain [(1, 10), (2, 12), (3, 14)]) exBlocks =
    .ok ⟨5, [(2, 12), (3, 14)], [(1, 10), (2, 12)], [(1, 10), (2, 12)], [(1, 2), (3, 3)],
         [(3, ⟨false, 3⟩), (2, ⟨true, 2⟩), (1, ⟨true, 3⟩)]⟩ := by decide

/-- counterexample "never emptying the set" (replayed by `script-all-below-min`, where the real
    `UpdateWithChangeSet` answers "applying the validator changes would result in empty set"):
    both validators drop below the minimum self delegation -/
theorem empties_validator_set :
    run id (genesisChain [(1, 10), (2, 10)])
      [⟨[], [], 5, 4⟩, ⟨[⟨1, 1, 0, 10⟩, ⟨2, 2, 0, 10⟩], [], 5, 4⟩, ⟨[⟨1, 1, 0, 4⟩, ⟨2, 2, 0, 4⟩], [], 5, 4⟩]
      = .error .emptySet := by decide

/-- counterexample "no duplicate keys" at the chain level (S16, `script-foreign-pubkey`): record 3
    carries the key of validator 1 -/
theorem duplicate_key_rejected :
    run id (genesisChain [(1, 10), (2, 12)])
      [⟨[], [], 5, 4⟩, ⟨[⟨1, 1, 0, 10⟩, ⟨2, 2, 0, 12⟩], [], 5, 4⟩,
       ⟨[⟨1, 1, 0, 10⟩, ⟨2, 2, 0, 12⟩, ⟨3, 1, 0, 8⟩], [], 5, 4⟩]
      = .error .duplicate := by decide

/-- counterexample: a secp256k1 consensus key (`script-secp-pubkey`; Tendermint: "is using pubkey
    secp256k1, which is unsupported for consensus") -/
theorem unsupported_key_type_rejected :
    run id (genesisChain [(1, 10), (2, 12)])
      [⟨[], [], 5, 4⟩, ⟨[⟨1, 1, 0, 10⟩, ⟨2, 2, 0, 12⟩], [], 5, 4⟩,
       ⟨[⟨1, 1, 0, 10⟩, ⟨2, 2, 0, 12⟩, ⟨3, 3, 1, 8⟩], [], 5, 4⟩]
      = .error .keyType := by decide

/-! ## 5. Convergence -/

/-- FULL STATEMENT (false of the code): once the records stop changing, after five blocks the
    three pending sets are exactly the election of those records.  The election re-emits every
    elected validator in every block, and a member that lost its seat is removed as soon as the
    guard allows — provided it still has a record: `GetEndBlockUpdate` deletes a record whose
    power is 0 whether or not the validator is in (or on its way into) the set, and the purge loop
    only sees validators that have a record.  Forced hypothesis: every member of the pending set
    has a record (`hrec`), plus the per-block side conditions of section 4. -/
theorem converges_within_5_partial (addrOf : Nat → Nat) (s0 : Chain) (b : BlockIn) (hI : Inv s0)
    (h1 : 1 < s0.next) (hS : SideAll addrOf s0 [b, b, b, b, b])
    (hrec : ∀ a, (alookup a s0.vN).isSome → ∃ r ∈ b.recs, r.addr = a) :
    ∃ s5, run addrOf s0 [b, b, b, b, b] = .ok s5 ∧
      ∀ a, alookup a s5.vP = electionMap b a ∧ alookup a s5.vC = electionMap b a ∧
        alookup a s5.vN = electionMap b a :=
  converge5 addrOf s0 b hI h1 hS hrec

/-- non-vacuity: the example chain continued with constant records converges to {1 ↦ 10, 2 ↦ 12} -/
example :
    let b : BlockIn := ⟨[⟨1, 101, 0, 10⟩, ⟨2, 102, 0, 12⟩, ⟨3, 103, 0, 6⟩], [], 5, 2⟩
    (run (· - 100) (genesisChain [(1, 10), (2, 12), (3, 14)]) (exBlocks ++ [b, b, b, b, b])).toOption.map
      (fun s => [s.vP, s.vC, s.vN]) = some [[(1, 10), (2, 12)], [(1, 10), (2, 12)], [(1, 10), (2, 12)]] ∧
    electionMap b 1 = some 10 ∧ electionMap b 2 = some 12 ∧ electionMap b 3 = none := by decide

/-- counterexample (replayed by `script-stake-then-unstake-all`): validator 3 stakes 8 in block 2,
    is elected at the end of block 3, unstakes everything in block 3; at the end of block 4 its
    record has power 0: it is not among the voters yet, so nothing is purged, and the record is
    deleted.  It enters the set at height 5 and, having no record, is never removed: ten quiet
    blocks later it still votes with power 8 while the election of the records is {1, 2}. -/
theorem unstaked_validator_stays_active :
    let quiet : BlockIn := ⟨[⟨1, 1, 0, 10⟩, ⟨2, 2, 0, 12⟩], [], 5, 4⟩
    (run id (genesisChain [(1, 10), (2, 12)])
      ([⟨[], [], 5, 4⟩, quiet, ⟨[⟨1, 1, 0, 10⟩, ⟨2, 2, 0, 12⟩, ⟨3, 3, 0, 8⟩], [], 5, 4⟩,
        ⟨[⟨1, 1, 0, 10⟩, ⟨2, 2, 0, 12⟩, ⟨3, 3, 0, 0⟩], [], 5, 4⟩] ++ List.replicate 10 quiet)).toOption.map
      (fun s => s.vN) = some [(1, 10), (2, 12), (3, 8)] ∧ electionMap quiet 3 = none := by decide

end OLP.Props.C10

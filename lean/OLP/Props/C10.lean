/-
  C10 — Validator-set updates are well formed and follow the staking rule.

  Property theorems only (helper lemmas: OLP/Elect/Lemmas.lean).  All statements are about the
  executable model OLP/Elect/Model.lean (`elect` = GetEndBlockUpdate, `Heap` = container/heap on
  utils.PriorityQueue, `TM.apply` = validateValidatorUpdates + ValidatorSet.UpdateWithChangeSet,
  `step`/`run` = application and Tendermint over several blocks with the +2 delay), which the
  `elect` correspondence engine compares with the real code on every run.

  Round 1 found six ways in which the code violated the property (known_findings.json, "fixed:"
  lines for C10); they are repaired in /repo and the model follows the repaired code.  The former
  counterexamples are kept as regression examples with the repaired outcome; the engine replays
  the same histories on the real application (corpus/C10, scripted histories of
  harness/apph/elect.go).  What the theorems still assume is said at each theorem; section 4
  lists exactly what remains for Tendermint to accept every returned list.
-/
import OLP.Elect.Lemmas

namespace OLP.Props.C10
open OLP OLP.Elect

/-! ## 1. The queue: popping everything yields every element once, highest priority first -/

theorem heap_pop_sorted (l : List Item) :
    (Heap.drain l).Perm l ∧ (Heap.drain l).Pairwise (fun a b => a.prio ≥ b.prio) :=
  Heap.drain_spec l

/-- non-vacuity: seven elements with ties; the pop order below is also what the real
    `ValidatorQueue` returns (heap cases of the engine) -/
example : (Heap.drain [⟨0, 3⟩, ⟨1, 1⟩, ⟨2, 3⟩, ⟨3, 2⟩, ⟨4, 3⟩, ⟨5, 0⟩, ⟨6, 2⟩]).map (·.val) = [0, 4, 2, 3, 6, 1, 5] := by
  decide

/-! ## 2. The update list of one block -/

/-- a running example: five records, top count 2, minimum 5; `c` is malicious, `e` below the
    minimum, `d` active but beaten, `b` purged two blocks ago (guarded) -/
def ex : Input :=
  { height := 7, minSelf := 5, top := 2
    recs := [⟨10, 110, 0, 9⟩, ⟨20, 120, 0, 7⟩, ⟨30, 130, 0, 12⟩, ⟨40, 140, 0, 8⟩, ⟨50, 150, 0, 4⟩]
    lastActive := [10, 20, 40, 50], malicious := [30], purge := [(20, 5)], status := [(10, ⟨true, 2⟩)] }

example : (elect ex).updates = [⟨110, 0, 9⟩, ⟨140, 0, 8⟩, ⟨150, 0, 0⟩] ∧ (elect ex).purgeW = [(50, 7)] ∧
    (elect ex).activeCount = 2 := by decide

/-- the list is sorted by public key -/
theorem updates_sorted_by_pubkey (inp : Input) :
    (elect inp).updates.Pairwise (fun a b => a.pub ≤ b.pub) := by
  by_cases h : 1 < inp.height
  · rw [elect_updates inp h]; exact sortUpd_sorted _
  · rw [elect_low inp (by omega)]; exact List.Pairwise.nil

/-- every positive-power update names a record of the previous version with at least the minimum
    self delegation that is not in the malicious set, and carries that record's power -/
theorem positive_update_rule (inp : Input) (u : Upd) (hu : u ∈ (elect inp).updates) (hp : 0 < u.power) :
    ∃ r ∈ inp.recs, r.pub = u.pub ∧ r.ktype = u.ktype ∧ r.power ≥ inp.minSelf ∧
      r.addr ∉ inp.malicious ∧ u.power = r.power := by
  by_cases h : 1 < inp.height
  · rcases (mem_updates inp h u).mp hu with ⟨r, hr, e⟩ | ⟨r, _, e⟩
    · obtain ⟨m, hm, hmal⟩ := mem_electedRecs hr
      exact ⟨r, m, by rw [e]; rfl, by rw [e]; rfl, hm, hmal, by rw [e]; rfl⟩
    · rw [e] at hp; exact absurd hp (Int.lt_irrefl 0)
  · rw [elect_low inp (by omega)] at hu; cases hu

example : ∃ u ∈ (elect ex).updates, 0 < u.power := ⟨⟨110, 0, 9⟩, by decide, by decide⟩

/-- at most `TopValidatorCount` positive updates per block -/
theorem at_most_top_count (inp : Input) :
    ((elect inp).updates.filter (fun u => decide (0 < u.power))).length ≤ inp.top.toNat := by
  by_cases h : 1 < inp.height
  · rw [((updates_perm inp h).filter _).length_eq, List.filter_append, List.length_append]
    have h2 : ((purged inp).map Rec.removal).filter (fun u => decide (0 < u.power)) = [] := by
      rw [List.filter_eq_nil_iff]
      intro a ha
      obtain ⟨r, _, e⟩ := List.mem_map.mp ha
      rw [← e]; simp [Rec.removal]
    rw [h2]
    have h1 := List.length_filter_le (fun u => decide (0 < u.power)) ((electedRecs inp).map Rec.upd)
    have h3 : (electedRecs inp).length ≤ inp.top.toNat := List.length_take_le _ _
    simp only [List.length_map, List.length_nil, Nat.add_zero] at h1 ⊢
    omega
  · rw [elect_low inp (by omega)]; simp

/-- higher stake is preferred: a positive update never has less power than an eligible record
    that no positive update names (`0 < minSelf`: positive updates are exactly the elected ones) -/
theorem prefers_higher_stake (inp : Input) (hn : (inp.recs.map (·.addr)).Nodup) (hmin : 0 < inp.minSelf)
    (u : Upd) (hu : u ∈ (elect inp).updates) (hp : 0 < u.power)
    (r' : Rec) (hr' : r' ∈ inp.recs) (he : r'.power ≥ inp.minSelf) (hm : r'.addr ∉ inp.malicious)
    (hout : ∀ u' ∈ (elect inp).updates, 0 < u'.power → u'.pub ≠ r'.pub) :
    u.power ≥ r'.power := by
  by_cases h : 1 < inp.height
  · rcases (mem_updates inp h u).mp hu with ⟨r, hr, e⟩ | ⟨r, _, e⟩
    · have hsorted := eligInOrder_sorted inp hn
      rw [← List.take_append_drop inp.top.toNat (eligInOrder inp), List.pairwise_append] at hsorted
      have hin := mem_eligInOrder inp hn r' hr' he hm
      rw [← List.take_append_drop inp.top.toNat (eligInOrder inp), List.mem_append] at hin
      rcases hin with hin | hin
      · -- r' itself is elected: then a positive update names it
        have : r'.upd ∈ (elect inp).updates := (mem_updates inp h _).mpr (Or.inl ⟨r', hin, rfl⟩)
        have hpos : 0 < r'.upd.power := by show 0 < r'.power; omega
        exact absurd rfl (hout _ this hpos)
      · have := hsorted.2.2 r hr r' hin
        rw [e]; exact this
    · rw [e] at hp; exact absurd hp (Int.lt_irrefl 0)
  · rw [elect_low inp (by omega)] at hu; cases hu

/-- in the running example `d` (power 8) wins the second seat over `b` (power 7) -/
example : (ex.recs.map (·.addr)).Nodup ∧ 0 < ex.minSelf := by decide

/-- a power-0 update names a record that was active in the last commit, is not elected, and whose
    last purge is more than two blocks old; its purge height is set to this block -/
theorem removal_only_last_active (inp : Input) (hmin : 0 < inp.minSelf)
    (u : Upd) (hu : u ∈ (elect inp).updates) (hz : u.power = 0) :
    ∃ r ∈ inp.recs, r.pub = u.pub ∧ r.addr ∈ inp.lastActive ∧ guarded inp r.addr = false ∧
      (r.addr, inp.height) ∈ (elect inp).purgeW := by
  by_cases h : 1 < inp.height
  · rcases (mem_updates inp h u).mp hu with ⟨r, hr, e⟩ | ⟨r, hr, e⟩
    · obtain ⟨_, hm, _⟩ := mem_electedRecs hr
      rw [e] at hz
      have : r.power = 0 := hz
      omega
    · obtain ⟨hnt, hla, hg⟩ := mem_purged hr
      refine ⟨r, runLoop_sound inp r (List.mem_append_right _ hnt), by rw [e]; rfl, hla, hg, ?_⟩
      rw [elect_purgeW inp h]
      exact List.mem_map.mpr ⟨r, hr, rfl⟩
  · rw [elect_low inp (by omega)] at hu; cases hu

/-- the purge guard: once the removal of an address was emitted at height `h`, no election at
    heights `h+1`, `h+2` emits it again, whatever the records, votes and options are then -/
theorem removal_only_last_active_once (inp inp' : Input) (a : Nat)
    (hw : (a, inp.height) ∈ (elect inp).purgeW)
    (hkept : alookup a inp'.purge = some inp.height)
    (hlt : inp.height < inp'.height) (hle : inp'.height ≤ inp.height + 2) :
    ∀ p ∈ (elect inp').purgeW, p.1 ≠ a := by
  have h1 : 1 < inp.height := by
    by_cases h : 1 < inp.height
    · exact h
    · rw [elect_low inp (by omega)] at hw; cases hw
  intro p hp e
  rw [elect_purgeW inp' (by omega)] at hp
  obtain ⟨r, hr, e2⟩ := List.mem_map.mp hp
  have hg := (mem_purged hr).2.2
  have : r.addr = a := by rw [← e, ← e2]
  rw [this] at hg
  unfold guarded at hg
  rw [hkept] at hg
  simp at hg
  omega

/-- in the running example `b` (purged at 5) is not purged at 7 although it lost its seat -/
example : guarded ex 20 = true ∧ ∀ p ∈ (elect ex).purgeW, p.1 ≠ 20 := by decide

/-- no key twice, given distinct keys among the records (the general form) -/
theorem no_duplicate_keys_of_distinct_keys (inp : Input) (hn : (inp.recs.map (·.addr)).Nodup)
    (hk : (inp.recs.map (·.pub)).Nodup) : ((elect inp).updates.map (·.pub)).Nodup := by
  by_cases h : 1 < inp.height
  · have hperm := ((updates_perm inp h).map (·.pub))
    rw [hperm.nodup_iff]
    have hsplit := runLoop_split inp hn
    rw [runLoop_elected] at hsplit
    have hinj := inj_on_of_nodup_map (·.pub) inp.recs hk
    have hall : ((electedRecs inp ++ (runLoop inp).nonTop).map (·.addr)).Nodup :=
      ((hsplit.map (·.addr)).nodup_iff).mpr hn
    rw [List.map_append, List.nodup_append] at hall
    simp only [List.map_append, List.map_map]
    rw [List.nodup_append]
    have hE : ∀ r ∈ electedRecs inp, r ∈ inp.recs := fun r hr => (mem_electedRecs hr).1
    have hP : ∀ r ∈ purged inp, r ∈ inp.recs := fun r hr =>
      runLoop_sound inp r (List.mem_append_right _ (mem_purged hr).1)
    refine ⟨?_, ?_, ?_⟩
    · have : (electedRecs inp).Nodup := by
        have := hall.1
        unfold List.Nodup at this ⊢
        rw [List.pairwise_map] at this
        exact List.Pairwise.imp (fun hne e => hne (by rw [e])) this
      exact nodup_map_of_inj_on _ _ this (fun a ha b hb e => hinj a (hE a ha) b (hE b hb) e)
    · have hpa := purged_addr_nodup inp
      have : (purged inp).Nodup := by
        unfold List.Nodup at hpa ⊢
        rw [List.pairwise_map] at hpa
        exact List.Pairwise.imp (fun hne e => hne (by rw [e])) hpa
      exact nodup_map_of_inj_on _ _ this (fun a ha b hb e => hinj a (hP a ha) b (hP b hb) e)
    · intro x hx y hy exy
      obtain ⟨r1, hr1, e1⟩ := List.mem_map.mp hx
      obtain ⟨r2, hr2, e2⟩ := List.mem_map.mp hy
      have : r1 = r2 := hinj r1 (hE r1 hr1) r2 (hP r2 hr2) (by
        simp only [Function.comp, Rec.upd, Rec.removal] at e1 e2; rw [e1, e2]; exact exy)
      subst this
      exact hall.2.2 r1.addr (List.mem_map.mpr ⟨r1, hr1, rfl⟩) r1.addr
        (List.mem_map.mpr ⟨r1, (mem_purged hr2).1, rfl⟩) rfl
  · rw [elect_low inp (by omega)]; exact List.Pairwise.nil

/-- no key twice: a consequence of the key binding.  Since the repair STAKE only creates a record
    whose key is the ed25519 key of the validator address (`Bound`; for the genesis records it is a
    hypothesis on the genesis document, `GenesisOK`); `Inv.bound` (section 4) shows it holds for the
    records of every reachable state. -/
theorem no_duplicate_keys (addrOf : Nat → Nat) (inp : Input) (hn : (inp.recs.map (·.addr)).Nodup)
    (hb : Bound addrOf inp.recs) : ((elect inp).updates.map (·.pub)).Nodup := by
  apply no_duplicate_keys_of_distinct_keys inp hn
  apply nodup_map_of_inj_on
  · have := hn
    unfold List.Nodup at this ⊢
    rw [List.pairwise_map] at this
    exact List.Pairwise.imp (fun hne e => hne (by rw [e])) this
  · intro a ha b hb' e
    have e2 : a.addr = b.addr := by rw [← hb a ha, ← hb b hb', e]
    exact inj_on_of_nodup_map (·.addr) inp.recs hn a ha b hb' e2

example : (ex.recs.map (·.pub)).Nodup ∧ Bound (· - 100) ex.recs := by
  refine ⟨by decide, ?_⟩
  intro r hr
  simp only [ex, List.mem_cons, List.mem_nil_iff, or_false] at hr
  rcases hr with rfl | rfl | rfl | rfl | rfl <;> rfl

/-- the binding is needed (regression example of the repaired S16 defect, where a STAKE could
    carry another validator's key; today only a genesis document can do this): two records with one
    key are both elected -/
theorem duplicate_keys_possible :
    ∃ inp : Input, (inp.recs.map (·.addr)).Nodup ∧ ¬ ((elect inp).updates.map (·.pub)).Nodup :=
  ⟨{ height := 3, minSelf := 5, top := 4, recs := [⟨1, 77, 0, 8⟩, ⟨2, 99, 0, 12⟩, ⟨3, 77, 0, 10⟩]
     lastActive := [2, 3], malicious := [], purge := [], status := [] }, by decide, by decide⟩

/-- nobody eligible: no updates at all — the last set is kept (repair of "never emptying the set") -/
theorem nobody_elected_no_updates (inp : Input) (h : (elect inp).activeCount = 0) :
    (elect inp).updates = [] ∧ (elect inp).purgeW = [] := by
  by_cases hh : 1 < inp.height
  · have hE : electedRecs inp = [] := by
      rw [elect_activeCount inp hh] at h
      cases hl : electedRecs inp with
      | nil => rfl
      | cons _ _ => rw [hl] at h; simp only [List.length_cons] at h; omega
    obtain ⟨hp, hu⟩ := elect_nobody inp hh hE
    exact ⟨hu, by rw [elect_purgeW inp hh, hp]; rfl⟩
  · rw [elect_low inp (by omega)]; exact ⟨rfl, rfl⟩

example : (elect { ex with minSelf := 100 }).activeCount = 0 := by decide

/-- a record is deleted only when the previous version had no power, the validator did not vote in
    the last commit, is not elected now, and its status has been inactive for more than two blocks -/
theorem deletion_rule (inp : Input) (hn : (inp.recs.map (·.addr)).Nodup) (a : Nat)
    (ha : a ∈ (elect inp).deleted) :
    a ∉ inp.lastActive ∧ a ∉ (electedRecs inp).map (·.addr) ∧
    (∃ r ∈ inp.recs, r.addr = a ∧ r.power ≤ 0) ∧
    ∃ x, alookup a inp.status = some x ∧ x.active = false ∧ x.height + 2 < inp.height :=
  deleted_facts inp hn a ha

/-- non-vacuity: validator 50 unstaked everything, has been inactive since height 3, did not vote -/
example : (elect { height := 7, minSelf := 5, top := 2, recs := [⟨10, 110, 0, 9⟩, ⟨50, 150, 0, 0⟩]
                   lastActive := [10], malicious := [], purge := [(50, 3)]
                   status := [(10, ⟨true, 2⟩), (50, ⟨false, 3⟩)], cur := [(10, 9), (50, 0)] }).deleted = [50] := by
  decide

/-- … and a stake of the same block keeps the record -/
example : (elect { height := 7, minSelf := 5, top := 2, recs := [⟨10, 110, 0, 9⟩, ⟨50, 150, 0, 0⟩]
                   lastActive := [10], malicious := [], purge := [(50, 3)]
                   status := [(10, ⟨true, 2⟩), (50, ⟨false, 3⟩)], cur := [(10, 9), (50, 6)] }).deleted = [] := by
  decide

/-! ## 3. Frozen validators -/

/-- no positive update names a validator that is frozen in the previous block's records or was
    flagged in this BeginBlock (full strength since the repair: the frozen records are loaded
    before the height check of `CheckMaliciousValidators`) -/
theorem frozen_not_elected (inp : Input) (frozen flagged : List Nat)
    (hm : inp.malicious = maliciousSet frozen flagged)
    (u : Upd) (hu : u ∈ (elect inp).updates) (hp : 0 < u.power) :
    ∃ r ∈ inp.recs, r.pub = u.pub ∧ u.power = r.power ∧ r.addr ∉ frozen ∧ r.addr ∉ flagged := by
  obtain ⟨r, hr, e1, _, _, hmal, e2⟩ := positive_update_rule inp u hu hp
  refine ⟨r, hr, e1, e2, ?_, ?_⟩
  all_goals
    intro hf
    apply hmal
    rw [hm]
    unfold maliciousSet
    simp [hf]

/-- regression example (`script-frozen-early`, formerly elected inside the first vote window):
    height 6, validator 40 frozen — only validator 10 is named -/
example : (elect { height := 6, minSelf := 5, top := 4, recs := [⟨10, 110, 0, 10⟩, ⟨40, 140, 0, 16⟩]
                   lastActive := [10, 40], malicious := maliciousSet [40] [], purge := [], status := [] }).updates
    = [⟨110, 0, 10⟩, ⟨140, 0, 0⟩] := by decide

/-! ## 4. Tendermint accepts the list

  What remains for `TM.apply` to accept every list the hook returns, exactly:
    (G) the genesis document (`GenesisOK`): every genesis stake record carries the ed25519 key of
        its own address, and every member of the genesis validator set has a stake record
        (`InitChain` checks only the latter);
    (H) three facts about the transaction handlers (`BlockOK.addrs/persist/keys`): records are
        keyed by address, no handler deletes a record, a new record comes from a STAKE whose key
        is the ed25519 key of the validator address and no writer changes the key of a record —
        read off the code and monitored by the engine on every block
        (`record-consensus-key-changed`, `unbound-consensus-key-staked`, the `del=` delta);
    (M) `0 < MinSelfDelegationAmount` (an elected record has positive power);
    (T) the total power stays within Tendermint's bound (stakes are bounded by the supply).
  Nothing else: in particular not that somebody is elected (no updates then), and removals are
  always members of the set they are applied to (`removals_name_members`). -/

/-- SINGLE BLOCK: the list is accepted by a set that contains every validator the list removes;
    the new set is the old one with the elected records written and the purged ones gone -/
theorem tm_accepts_single_block (addrOf : Nat → Nat) (inp : Input) (s : TM.VSet)
    (h : 1 < inp.height)
    (hn : (inp.recs.map (·.addr)).Nodup) (hb : Bound addrOf inp.recs)
    (hkt : ∀ r ∈ inp.recs, r.ktype = 0) (hmin : 0 < inp.minSelf)
    (hin : ∀ r ∈ purged inp, (alookup r.addr s).isSome)
    (hs : ∀ x ∈ s, 0 ≤ x.2)
    (htot : TM.total s + TM.sumPow (tmChanges addrOf (elect inp).updates) ≤ TM.maxTotal) :
    ∃ s', TM.apply s (tmChanges addrOf (elect inp).updates) = .ok s' ∧
      (∀ r ∈ purged inp, alookup r.addr s' = none) ∧
      (∀ r ∈ electedRecs inp, alookup r.addr s' = some r.power) ∧
      (∀ k, k ∉ (electedRecs inp).map (·.addr) → k ∉ (purged inp).map (·.addr) → alookup k s' = alookup k s) :=
  let ⟨s', ok, a, b, c, _⟩ := elect_tm_ok' addrOf inp s h hn hb hkt hmin hin hs htot
  ⟨s', ok, a, b, c⟩

/-- the running example in front of a set that holds the four voters -/
example : TM.apply [(10, 9), (20, 7), (40, 8), (50, 4)] (tmChanges (· - 100) (elect ex).updates) =
    .ok [(10, 9), (20, 7), (40, 8)] := by decide

/-- MULTI BLOCK.  `Inv` (OLP/Elect/Lemmas.lean) ties the purge heights to the three pending sets,
    says that every committed record carries the ed25519 key of its address, that a validator on
    its way into the set has an active status, and that every member of a pending set has a
    record.  It holds after block 1 given (G), and every block that meets (H), (M), (T) is
    accepted and preserves it. -/
theorem inv_after_genesis (addrOf : Nat → Nat) (g : TM.VSet) (recs : List Rec)
    (hg : GenesisOK addrOf g recs) : Inv addrOf (startChain g recs) := inv_start addrOf g recs hg

theorem removals_name_members (addrOf : Nat → Nat) (s : Chain) (b : BlockIn) (hI : Inv addrOf s) :
    ∀ r ∈ purged (inputOf s b), (alookup r.addr s.vN).isSome := purged_in_next_set addrOf s b hI

theorem tm_accepts_step (addrOf : Nat → Nat) (s : Chain) (b : BlockIn) (hI : Inv addrOf s)
    (hB : BlockOK addrOf s b) : ∃ s', step addrOf s b = .ok s' ∧ Inv addrOf s' :=
  let ⟨s', ok, hI', _⟩ := step_ok addrOf s b hI hB
  ⟨s', ok, hI'⟩

/-- every list of every history is accepted -/
theorem tm_accepts_all (addrOf : Nat → Nat) (g : TM.VSet) (recs : List Rec)
    (hg : GenesisOK addrOf g recs) (bs : List BlockIn) (hS : SideAll addrOf (startChain g recs) bs) :
    ∃ s', run addrOf (startChain g recs) bs = .ok s' ∧ Inv addrOf s' :=
  run_ok addrOf bs _ (inv_start addrOf g recs hg) hS

/-- in every reachable state the update list names no key twice -/
theorem no_duplicate_keys_reachable (addrOf : Nat → Nat) (s : Chain) (b : BlockIn) (hI : Inv addrOf s) :
    ((elect (inputOf s b)).updates.map (·.pub)).Nodup :=
  no_duplicate_keys addrOf (inputOf s b) hI.addrs hI.bound

/-- in every reachable state every member of a pending validator set has a stake record: the
    deletion of records without power spares whoever is in, or on its way into, the set -/
theorem members_keep_records (addrOf : Nat → Nat) (s : Chain) (hI : Inv addrOf s) (a : Nat)
    (h : (alookup a s.vP).isSome ∨ (alookup a s.vC).isSome ∨ (alookup a s.vN).isSome) :
    ∃ r ∈ s.recs, r.addr = a := hI.recd a h

/-- … said about the deletion itself: a record deleted by a block belongs to none of the sets of
    the next three blocks -/
theorem deletion_spares_pending_validators (addrOf : Nat → Nat) (s s' : Chain) (b : BlockIn)
    (hI : Inv addrOf s) (hB : BlockOK addrOf s b) (hs : step addrOf s b = .ok s') (a : Nat)
    (ha : a ∈ (elect (inputOf s b)).deleted) :
    (alookup a s'.vP).isNone ∧ (alookup a s'.vC).isNone ∧ (alookup a s'.vN).isNone := by
  obtain ⟨s1, ok, hI', _, _, _, er, _⟩ := step_ok addrOf s b hI hB
  rw [hs] at ok
  cases ok
  have hno : ¬ ∃ r ∈ s'.recs, r.addr = a := by
    rintro ⟨r, hr, e⟩
    rw [er] at hr
    have := (List.mem_filter.mp hr).2
    simp only [Bool.not_eq_true', List.contains_eq_mem, decide_eq_false_iff_not] at this
    exact this (by rw [e]; exact ha)
  refine ⟨?_, ?_, ?_⟩ <;> apply isNone_of_not_isSome <;> intro hh <;> apply hno
  · exact hI'.recd a (Or.inl hh)
  · exact hI'.recd a (Or.inr (Or.inl hh))
  · exact hI'.recd a (Or.inr (Or.inr hh))

/-- a three-validator chain (key = address + 100): records after block 1, then validator 3 drops
    from 14 to 6 in block 2 -/
def recsA : List Rec := [⟨1, 101, 0, 10⟩, ⟨2, 102, 0, 12⟩, ⟨3, 103, 0, 14⟩]
def recsB : List Rec := [⟨1, 101, 0, 10⟩, ⟨2, 102, 0, 12⟩, ⟨3, 103, 0, 6⟩]
def exBlocks : List BlockIn := [⟨recsB, [], 5, 2⟩, ⟨recsB, [], 5, 2⟩, ⟨recsB, [], 5, 2⟩]

/-- non-vacuity: the history is accepted; validator 1 is purged at height 2 (top count 2), comes
    back at height 3 when validator 3 has dropped to 6, and validator 3 is purged at height 3 -/
example : (run (· - 100) (startChain [(1, 10), (2, 12), (3, 14)] recsA) exBlocks).toOption.map
    (fun s => ([s.vP, s.vC, s.vN], s.purge)) =
    some ([[(2, 12), (3, 14)], [(1, 10), (2, 12)], [(1, 10), (2, 12)]], [(1, 2), (3, 3)]) := by decide

/-- regression example "never emptying the set" (`script-all-below-min`; formerly every member was
    removed and Tendermint answered "would result in empty set"): both validators drop below the
    minimum self delegation — no updates, the set stays -/
theorem all_below_minimum_keeps_the_set :
    (run id (startChain [(1, 10), (2, 10)] [⟨1, 1, 0, 10⟩, ⟨2, 2, 0, 10⟩])
      [⟨[⟨1, 1, 0, 4⟩, ⟨2, 2, 0, 4⟩], [], 5, 4⟩, ⟨[⟨1, 1, 0, 4⟩, ⟨2, 2, 0, 4⟩], [], 5, 4⟩]).toOption.map
      (fun s => s.vN) = some [(1, 10), (2, 10)] := by decide

/-- (G) is needed: a genesis record carrying another validator's key is elected with it and
    Tendermint answers "duplicate entry" (before the repair a STAKE could do the same) -/
theorem unbound_genesis_key_rejected :
    run id (startChain [(1, 10), (2, 12)] [⟨1, 1, 0, 10⟩, ⟨2, 2, 0, 12⟩, ⟨3, 1, 0, 8⟩])
      [⟨[⟨1, 1, 0, 10⟩, ⟨2, 2, 0, 12⟩, ⟨3, 1, 0, 8⟩], [], 5, 4⟩] = .error .duplicate := by decide

/-- (G) is needed: a secp256k1 genesis key ("is using pubkey secp256k1, which is unsupported for
    consensus") -/
theorem non_ed25519_genesis_key_rejected :
    run id (startChain [(1, 10), (2, 12)] [⟨1, 1, 0, 10⟩, ⟨2, 2, 0, 12⟩, ⟨3, 3, 1, 8⟩])
      [⟨[⟨1, 1, 0, 10⟩, ⟨2, 2, 0, 12⟩, ⟨3, 3, 1, 8⟩], [], 5, 4⟩] = .error .keyType := by decide

/-! ## 5. Convergence -/

/-- once the records stop changing (five quiet blocks: no transaction touches a record, the hook
    deletes none) the three pending sets are exactly the election of those records — from every
    state that satisfies the invariant, i.e. every reachable one, provided somebody is eligible
    (`hE`: Tendermint has no empty validator set; with nobody to elect the application keeps the
    last set, `nobody_elected_no_updates`).  The former hypothesis "every member of the pending
    set has a record" is now part of the invariant (`members_keep_records`). -/
theorem converges_within_5 (addrOf : Nat → Nat) (s0 : Chain) (b : BlockIn) (hI : Inv addrOf s0)
    (hS : QuietAll addrOf b s0 5) (hE : electionOf s0.recs b ≠ []) :
    ∃ s5, run addrOf s0 [b, b, b, b, b] = .ok s5 ∧ s5.recs = s0.recs ∧
      ∀ a, alookup a s5.vP = electionMap s0.recs b a ∧ alookup a s5.vC = electionMap s0.recs b a ∧
        alookup a s5.vN = electionMap s0.recs b a :=
  converge5 addrOf s0 b hI hS hE

/-- non-vacuity: the example chain continued with quiet blocks converges to {1 ↦ 10, 2 ↦ 12} -/
example :
    let b : BlockIn := ⟨recsB, [], 5, 2⟩
    (run (· - 100) (startChain [(1, 10), (2, 12), (3, 14)] recsA) (exBlocks ++ [b, b, b, b, b])).toOption.map
      (fun s => [s.vP, s.vC, s.vN]) = some [[(1, 10), (2, 12)], [(1, 10), (2, 12)], [(1, 10), (2, 12)]] ∧
    electionMap recsB b 1 = some 10 ∧ electionMap recsB b 2 = some 12 ∧ electionMap recsB b 3 = none := by decide

/-- regression example (`script-stake-then-unstake-all`; formerly the record was deleted at the end
    of block 4 and the validator stayed in the set for ever): validator 3 stakes 8 in block 2, is
    elected at the end of block 3, unstakes everything in block 3.  Its record is kept, it enters
    the set at height 5, is purged at height 6 (gone from the set of block 8), and only at the end
    of block 9 — inactive for more than two blocks and out of the last commit — the record is
    deleted -/
theorem unstaked_validator_is_purged_then_deleted :
    let z0 : List Rec := [⟨1, 1, 0, 10⟩, ⟨2, 2, 0, 12⟩]
    let z8 : BlockIn := ⟨[⟨1, 1, 0, 10⟩, ⟨2, 2, 0, 12⟩, ⟨3, 3, 0, 8⟩], [], 5, 4⟩
    let zz : BlockIn := ⟨[⟨1, 1, 0, 10⟩, ⟨2, 2, 0, 12⟩, ⟨3, 3, 0, 0⟩], [], 5, 4⟩
    (run id (startChain [(1, 10), (2, 12)] z0) [z8, zz, zz, zz, zz]).toOption.map
      (fun s => ([s.vP, s.vC, s.vN], s.purge, s.recs.map (·.addr))) =
      some ([[(1, 10), (2, 12), (3, 8)], [(1, 10), (2, 12), (3, 8)], [(1, 10), (2, 12)]], [(3, 6)], [1, 2, 3]) ∧
    (run id (startChain [(1, 10), (2, 12)] z0) ([z8] ++ List.replicate 6 zz)).toOption.map
      (fun s => ([s.vP, s.vC, s.vN], s.recs.map (·.addr))) =
      some ([[(1, 10), (2, 12)], [(1, 10), (2, 12)], [(1, 10), (2, 12)]], [1, 2, 3]) ∧
    (run id (startChain [(1, 10), (2, 12)] z0) ([z8] ++ List.replicate 7 zz)).toOption.map
      (fun s => (s.next, s.recs.map (·.addr))) = some (10, [1, 2]) := by decide

end OLP.Props.C10

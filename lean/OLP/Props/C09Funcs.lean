import OLP.Gen.Funcs
import OLP.KV.Model

/-!
# C09 — the gas calculator of the store stack, tied to the source by translation (T2b)

`storage.gasCalculator.Consume / IsEnough / GetLeft` are translated WHOLE from /repo's working tree
(`OLP.Gen.Funcs.gasConsume`, `gasIsEnough`, `gasGetLeft`); the model's `Gas.consumeStrict` /
`Gas.consumeAlways` are those functions. The refusal rule (`consumed ≥ limit`, tested BEFORE the
cost is added, so one operation may overshoot) is what every metered theorem of C09 rests on.
-/

namespace OLP.Props.C09

open OLP.KV
open OLP.Gen

/-- `Consume(amount, category, false)` is the model's strict consumption of `amount * category` -/
theorem consumeStrict_is_source (g : Gas) (amount category : Int) :
    g.consumeStrict (amount * category) =
      (match Funcs.gasConsume g.limit g.consumed amount category false with
       | (true, c) => some { g with consumed := c }
       | (false, _) => none) := by
  unfold Gas.consumeStrict Funcs.gasConsume
  by_cases h : g.consumed ≥ g.limit <;> simp [h]

/-- `Consume(amount, category, true)` never refuses and adds the cost -/
theorem consumeAlways_is_source (g : Gas) (amount category : Int) :
    Funcs.gasConsume g.limit g.consumed amount category true =
      (true, (g.consumeAlways (amount * category)).consumed) := by
  simp [Funcs.gasConsume, Gas.consumeAlways]

/-- a strict consumption is refused exactly when the source's `IsEnough` says the block is full -/
theorem refusal_iff_isEnough (g : Gas) (cost : Int) :
    g.consumeStrict cost = none ↔ Funcs.gasIsEnough g.limit g.consumed = true := by
  unfold Gas.consumeStrict Funcs.gasIsEnough
  by_cases h : g.consumed ≥ g.limit <;> simp [h]

/-- `GetLeft` is the room that remains, never negative -/
theorem getLeft_is_room (g : Gas) :
    Funcs.gasGetLeft g.limit g.consumed = max 0 (g.limit - g.consumed) := by
  unfold Funcs.gasGetLeft
  by_cases h : g.consumed ≥ g.limit <;> simp [h] <;> omega

/-- the refusal test does not look at the cost: a refused operation leaves the meter as it was, an
    accepted one adds exactly the product (no rounding, no cap) -/
theorem consume_effect (limit consumed amount category : Int) :
    (Funcs.gasConsume limit consumed amount category false).2 =
      if consumed ≥ limit then consumed else consumed + amount * category := by
  unfold Funcs.gasConsume
  by_cases h : consumed ≥ limit <;> simp [h]


/-- a meter never runs backwards on costs that are not negative, accepted or refused -/
theorem consume_monotone (limit consumed amount category : Int) (ov : Bool) (h : 0 ≤ amount * category) :
    consumed ≤ (Funcs.gasConsume limit consumed amount category ov).2 := by
  unfold Funcs.gasConsume
  cases ov
  · by_cases hc : consumed ≥ limit
    · simp [hc]
    · simp [hc]; omega
  · simp; omega

/-- once a strict consumption was refused every later strict consumption is refused too (the
    refusal leaves the meter where it was, and nothing but a new block lowers it): the block is
    over for metered operations -/
theorem refusal_is_permanent (limit consumed : Int) (costs : List (Int × Int))
    (h : (Funcs.gasConsume limit consumed 1 1 false).1 = false) :
    ∀ c ∈ costs, Funcs.gasConsume limit consumed c.1 c.2 false = (false, consumed) := by
  intro c _
  unfold Funcs.gasConsume at h ⊢
  by_cases hc : consumed ≥ limit
  · simp [hc]
  · simp [hc] at h

/-- what `GetLeft` reports is exactly what a strict consumer may still start: it is positive iff
    the next strict consumption is accepted -/
theorem left_pos_iff_accepted (limit consumed amount category : Int) :
    0 < Funcs.gasGetLeft limit consumed ↔ (Funcs.gasConsume limit consumed amount category false).1 = true := by
  unfold Funcs.gasGetLeft Funcs.gasConsume
  by_cases hc : consumed ≥ limit <;> simp [hc] <;> omega

example : Funcs.gasConsume 100 99 7 3 false = (true, 120) := by decide
example : Funcs.gasConsume 100 100 7 3 false = (false, 100) := by decide

end OLP.Props.C09

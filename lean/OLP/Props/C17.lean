/-
  C17 — OLVM transactions keep one ledger and charge exactly the gas used.

  "An account's OLT balance is the same number whether read natively or through the EVM, before
  and after every transaction of either kind. An executed OLVM transaction, successful or
  reverted, debits the sender exactly gas used times gas price plus the value actually
  transferred, credits exactly gas used times gas price to the fee pool and the transferred value
  to the recipient, and raises the sender's nonce by exactly one; an OLVM transaction that fails
  its consensus pre-checks changes nothing."

  Model: OLP/Olvm/Model.lean (port of the keeper, the CommitStateDB object cache, TransitionDb, the
  outer layers of EVM.Call / EVM.create, runOLVM, ContractFeeHandling and the session rule; the
  interpreter's run is the parameter `VmOut`). Helper lemmas: OLP/Olvm/Lemmas.lean.
  The model follows /repo HEAD: RemoveAccount leaves a zero balance record (da864f3, c90a103), the
  undo of a balance entry no longer leaves a dirty mark (d411c44), Validate refuses a missing chain
  id, a signature that is not 65 bytes long, a non-canonical payload or memo, a foreign envelope
  key, a transaction type or access list (d9b5b70, e1e2119, f332fc0).
  The standing hypothesis `s.cache = []` ("the EVM object cache is empty between transactions") is
  an invariant of every history (`step_keeps_cache_empty`), so it holds in every reachable state.
-/
import OLP.Olvm.Lemmas

namespace OLP.Props.C17
open OLP OLP.Ledger OLP.Olvm

/-- a well-formed transaction for the examples below: every decoded check passes -/
def okTx : Tx :=
  { sender := "a", to := some "t", nonce := 0, value := 0, gas := 21000, price := 1, nz := 0, z := 0,
    size := 110, memo := some 0, sigs := 1, sigOk := true, chainOk := true, senderOk := true,
    feeCurOk := true, amtCurOk := true, addrOk := true, chainNil := false, payloadCanon := true,
    signerKeyOk := true, typeOk := true, memoCanon := true }

/-! ## one ledger -/

/-- with an empty object cache the EVM reads the very record the native side reads -/
theorem one_ledger (s : St) (h : s.cache = []) (a : Addr) :
    evmBalance s a = nativeBalance s.w a :=
  evmBalance_empty_cache s a h

/-- … and the nonce the EVM sees is the keeper record's -/
theorem evm_nonce_is_keeper_record (s : St) (h : s.cache = []) (a : Addr) :
    evmNonce s a = keeperNonce s.w a :=
  evmNonce_empty_cache s a h

/-- every kind of step — any native transaction or block hook (arbitrary rewrite of balances and
    fee pool), an OLVM DeliverTx with any interpreter behaviour, an OLVM CheckTx, the end of a
    block — leaves the object cache empty -/
theorem step_keeps_cache_empty (s : St) (st : Step) (h : s.cache = []) : (step s st).cache = [] := by
  cases st with
  | native nb np => exact h
  | olvm env tx vm =>
    simp only [step]
    cases hd : deliverOlvm env s tx vm with
    | mk s' r =>
      by_cases hc : r.code = 0
      · obtain ⟨s1, er, -, -, -, -, hfee, rfl, -⟩ := deliver_ok env s s' tx vm r hd hc
        rfl
      · rcases deliver_refused env s s' tx vm r hd hc with rfl | rfl
        · exact h
        · rfl
  | check env tx =>
    simp only [step, checkOlvm]
    split <;> exact h
  | endBlock => rfl

/-- ONE LEDGER, for every history: after any mix of native and OLVM transactions in any order,
    within and across blocks, both views of every account agree (the statement at every
    intermediate point is this theorem for the prefix) -/
theorem one_ledger_history (s : St) (h : s.cache = []) (steps : List Step) (a : Addr) :
    evmBalance (run s steps) a = nativeBalance (run s steps).w a ∧
    evmNonce (run s steps) a = keeperNonce (run s steps).w a := by
  have hc : (run s steps).cache = [] := by
    unfold run
    induction steps generalizing s with
    | nil => exact h
    | cons st t ih => exact ih _ (step_keeps_cache_empty s st h)
  exact ⟨one_ledger _ hc a, evm_nonce_is_keeper_record _ hc a⟩

/-- the invariant is needed: an object left in the cache makes the views differ as soon as a native
    transaction credits the account (what `Finalise` / `Reset` dropping the cache prevents) -/
theorem stale_cache_breaks_one_ledger :
    let s : St := ⟨⟨[("a", 5)], [], 0⟩, [("a", ⟨5, 0, false, false, false⟩)]⟩
    let s' := step s (.native [("a", 9)] 0)
    evmBalance s "a" = nativeBalance s.w "a" ∧ evmBalance s' "a" = 5 ∧ nativeBalance s'.w "a" = 9 := by
  decide

/-! ## an executed transaction -/

/-- the fee pool is credited exactly gas used × gas price -/
theorem feepool_credit_exact (env : Env) (s s' : St) (tx : Tx) (vm : VmOut) (r : Resp)
    (h : deliverOlvm env s tx vm = (s', r)) (hc : r.code = 0) :
    s'.w.pool = s.w.pool + r.gasUsed * tx.price := by
  obtain ⟨s1, er, -, ht, -, -, hfee, rfl, rfl⟩ := deliver_ok env s s' tx vm r h hc
  obtain ⟨s2, gl, f, -, hr, -, -, rfl, -⟩ := transitionDb_ok env s s1 tx vm er ht
  simp only [finalise_w, finW_pool, addBalance_w, runVm_w _ _ _ _ _ _ _ hr, bought_w]
  rw [Int.mul_comm]

/-- gas used is positive and within the signed limit; gas wanted is the signed limit -/
theorem gas_used_within_limit (env : Env) (s s' : St) (tx : Tx) (vm : VmOut) (r : Resp)
    (h : deliverOlvm env s tx vm = (s', r)) (hc : r.code = 0) :
    0 < r.gasUsed ∧ r.gasUsed ≤ tx.gas ∧ r.gasWanted = tx.gas := by
  obtain ⟨s1, er, -, -, hne, hle, hfee, -, rfl⟩ := deliver_ok env s s' tx vm r h hc
  exact ⟨by simp only; omega, hle, rfl⟩

/-- SENDER: an executed transaction, successful or reverted, debits the sender exactly
    gas used × gas price plus the value actually transferred (the whole value on success, nothing
    when the interpreter ended in an error). Stated for transactions whose code does not pay the
    sender back (`heff`; the general form is `sender_debit_general`) and that are not sent to self. -/
theorem sender_debit_exact (env : Env) (s s' : St) (tx : Tx) (vm : VmOut) (r : Resp)
    (h0 : s.cache = []) (hto : tx.to ≠ some tx.sender) (hnew : tx.sender ≠ env.newAddr)
    (heff : ∀ e ∈ vm.effs, e.addr ≠ tx.sender)
    (h : deliverOlvm env s tx vm = (s', r)) (hc : r.code = 0) :
    nativeBalance s'.w tx.sender =
      nativeBalance s.w tx.sender - r.gasUsed * tx.price - (if r.stage = .success then tx.value else 0) := by
  obtain ⟨s1, er, hv, ht, hne, -, hfee, rfl, rfl⟩ := deliver_ok env s s' tx vm r h hc
  obtain ⟨gf, hu, o, ho, hob, hon, hod, hos⟩ :=
    transitionDb_sender env s s1 tx vm er h0 (validate_none_value env s.w tx hv) hto hnew heff ht
  obtain ⟨hw, hwf⟩ := transitionDb_ok_w env s s1 tx vm er (wf_of_empty s h0) ht
  have hg : gone o = false := by
    simp [gone, hos, isEmpty, hon]
  simp only [nativeBalance] at hob ⊢
  simp only [finalise_w]
  rw [finW_bal _ _ _ hwf, ho]
  simp only [hg, hod, if_true, Bool.false_eq_true, if_false]
  rw [hob]
  have hlt : gf < gasU tx := by omega
  have hcast : ((er.usedGas : Nat) : Int) = (gasU tx : Int) - (gf : Int) := by omega
  rw [hcast, Int.sub_mul]
  cases hf : er.failed <;> simp <;> omega

/-- NONCE: an executed transaction, successful or reverted, whatever nonce it carried, raises the
    sender's nonce by exactly one -/
theorem nonce_plus_one (env : Env) (s s' : St) (tx : Tx) (vm : VmOut) (r : Resp)
    (h0 : s.cache = []) (hto : tx.to ≠ some tx.sender) (hnew : tx.sender ≠ env.newAddr)
    (heff : ∀ e ∈ vm.effs, e.addr ≠ tx.sender)
    (h : deliverOlvm env s tx vm = (s', r)) (hc : r.code = 0) :
    keeperNonce s'.w tx.sender = keeperNonce s.w tx.sender + 1 ∧
    evmNonce s' tx.sender = evmNonce s tx.sender + 1 := by
  have key : keeperNonce s'.w tx.sender = keeperNonce s.w tx.sender + 1 := by
    obtain ⟨s1, er, hv, ht, hne, -, hfee, rfl, rfl⟩ := deliver_ok env s s' tx vm r h hc
    obtain ⟨gf, hu, o, ho, hob, hon, hod, hos⟩ :=
      transitionDb_sender env s s1 tx vm er h0 (validate_none_value env s.w tx hv) hto hnew heff ht
    obtain ⟨hw, hwf⟩ := transitionDb_ok_w env s s1 tx vm er (wf_of_empty s h0) ht
    have hg : gone o = false := by
      simp [gone, hos, isEmpty, hon]
    rw [loadAcct_nonce]
    simp only [finalise_w]
    rw [finW_keeper _ _ _ hwf, ho]
    simp [hg, hod, hon]
  refine ⟨key, ?_⟩
  have hc' : s'.cache = [] := by
    have := step_keeps_cache_empty s (.olvm env tx vm) h0
    simpa [step, h] using this
  rw [evmNonce_empty_cache s' _ hc', evmNonce_empty_cache s _ h0, key]

/-- RECIPIENT: an executed call credits the recipient exactly the transferred value (the whole value
    on success, nothing when the interpreter ended in an error — including the EIP-158 case of a
    zero-value call to a missing account). Stated for recipients whose balance the code itself does
    not move (`heff`: plain accounts, contracts that keep what they get). -/
theorem recipient_credit_exact (env : Env) (s s' : St) (tx : Tx) (vm : VmOut) (r : Resp) (t : Addr)
    (h0 : s.cache = []) (hto : tx.to = some t) (hat : t ≠ tx.sender)
    (heff : ∀ e ∈ vm.effs, e.addr ≠ t)
    (h : deliverOlvm env s tx vm = (s', r)) (hc : r.code = 0) :
    nativeBalance s'.w t = nativeBalance s.w t + (if r.stage = .success then tx.value else 0) := by
  obtain ⟨s1, er, hv, ht, -, -, hfee, rfl, rfl⟩ := deliver_ok env s s' tx vm r h hc
  obtain ⟨hw, hwf⟩ := transitionDb_ok_w env s s1 tx vm er (wf_of_empty s h0) ht
  have htr := transitionDb_recipient env s s1 tx vm er t h0 (by simp [hto]) hat heff ht
  have hfin := tracks_finalise s1 t _ hwf htr
  simp only [nativeBalance] at hfin ⊢
  rw [hfin]
  cases hf : er.failed <;> simp

/-- CREATED CONTRACT: an executed creation credits the new contract address exactly the transferred
    value on top of whatever the address already held (pre-funded addresses keep their balance) -/
theorem created_contract_credit_exact (env : Env) (s s' : St) (tx : Tx) (vm : VmOut) (r : Resp)
    (h0 : s.cache = []) (hto : tx.to = none) (hat : env.newAddr ≠ tx.sender)
    (heff : ∀ e ∈ vm.effs, e.addr ≠ env.newAddr)
    (h : deliverOlvm env s tx vm = (s', r)) (hc : r.code = 0) :
    nativeBalance s'.w env.newAddr =
      nativeBalance s.w env.newAddr + (if r.stage = .success then tx.value else 0) := by
  obtain ⟨s1, er, hv, ht, -, -, hfee, rfl, rfl⟩ := deliver_ok env s s' tx vm r h hc
  obtain ⟨hw, hwf⟩ := transitionDb_ok_w env s s1 tx vm er (wf_of_empty s h0) ht
  have htr := transitionDb_recipient env s s1 tx vm er env.newAddr h0 (by simp [hto]) hat heff ht
  have hfin := tracks_finalise s1 env.newAddr _ hwf htr
  simp only [nativeBalance] at hfin ⊢
  rw [hfin]
  cases hf : er.failed <;> simp

/-- NOBODY ELSE: an account that is neither the sender, nor the recipient / new contract, nor named
    by a balance call of the interpreter keeps its balance -/
theorem bystander_untouched (env : Env) (s s' : St) (tx : Tx) (vm : VmOut) (r : Resp) (c : Addr)
    (h0 : s.cache = []) (hcs : c ≠ tx.sender) (hct : tx.to ≠ some c) (hcn : c ≠ env.newAddr)
    (heff : ∀ e ∈ vm.effs, e.addr ≠ c)
    (h : deliverOlvm env s tx vm = (s', r)) : nativeBalance s'.w c = nativeBalance s.w c := by
  by_cases hc : r.code = 0
  · obtain ⟨s1, er, hv, ht, -, -, hfee, rfl, rfl⟩ := deliver_ok env s s' tx vm r h hc
    obtain ⟨hw, hwf⟩ := transitionDb_ok_w env s s1 tx vm er (wf_of_empty s h0) ht
    have htr := transitionDb_bystander env s s1 tx vm er c h0 hcs hct hcn heff ht
    have hfin := tracks_finalise s1 c _ hwf htr
    simpa [nativeBalance] using hfin
  · rcases deliver_refused env s s' tx vm r h hc with rfl | rfl <;> rfl

/-! ## a refused transaction -/

/-- an OLVM transaction that fails `Validate` or a consensus pre-check of `TransitionDb`
    (or whose fee step fails) changes nothing: not a record, not the object cache — whatever it
    did to the sender's working copy before failing is discarded with the session -/
theorem precheck_failure_noop (env : Env) (s s' : St) (tx : Tx) (vm : VmOut) (r : Resp)
    (h0 : s.cache = []) (h : deliverOlvm env s tx vm = (s', r)) (hc : r.code ≠ 0) : s' = s := by
  rcases deliver_refused env s s' tx vm r h hc with rfl | rfl
  · rfl
  · cases s; simp_all

/-- a refused transaction reports no gas used (the one exception is the unreachable gas-overflow
    answer of the fee step) -/
theorem precheck_failure_reports_no_gas (env : Env) (s s' : St) (tx : Tx) (vm : VmOut) (r : Resp)
    (h : deliverOlvm env s tx vm = (s', r)) (hc : r.code ≠ 0) (hs : r.stage ≠ .gasOverflow) :
    r.gasUsed = 0 := by
  unfold deliverOlvm at h
  repeat' split at h
  all_goals (simp only [Prod.mk.injEq] at h; obtain ⟨-, rfl⟩ := h; simp_all)

/-- CheckTx of an OLVM transaction never changes anything (`ProcessCheck` does not execute) -/
theorem checktx_changes_nothing (env : Env) (s : St) (tx : Tx) : (checkOlvm env s tx).1 = s := by
  unfold checkOlvm; split <;> rfl

/-! ## nothing created; lost only what a deleted account still holds

  History of this clause: until da864f3 `RemoveAccount` deleted the keeper record only, so a
  selfdestructed contract kept its balance record and value was CREATED (S8, former KF-C17-1).
  The first repair wrote the object's working balance; c90a103 writes zero: a removed account is
  gone with whatever it holds, so what a contract is paid AFTER its SELFDESTRUCT in the same
  transaction is burnt, as in go-ethereum. The clause therefore reads: the total never grows, and
  it shrinks exactly by `burnt` — what the objects `Finalise` drops still hold. Both scenarios
  (create / fund / trigger; pay-the-dead) are replayed on the implementation on every run (scripted
  cases 0 and 3). -/

/-- VALUE ACCOUNTING, exact, for every state, transaction and interpreter behaviour — executed,
    reverted or refused; inner transfers and SELFDESTRUCT included: the sum of all OLT balance
    records plus the fee pool changes by exactly minus the burnt amount. Hypotheses: the empty
    object cache (an invariant of every history) and the contract of the interpreter itself: the
    balance calls it makes on the state it is handed (`vmInput`) net to zero (`vmNet`): an inner
    transfer credits what it debits, SELFDESTRUCT pays the beneficiary exactly what `Suicide` then
    clears. -/
theorem olvm_value_accounting (env : Env) (s s' : St) (tx : Tx) (vm : VmOut) (r : Resp)
    (h0 : s.cache = []) (hz : vmNet (vmInput env s tx) vm.effs = 0)
    (h : deliverOlvm env s tx vm = (s', r)) :
    total s'.w.bal + s'.w.pool = total s.w.bal + s.w.pool - burnt env s tx vm := by
  by_cases hc : r.code = 0
  · obtain ⟨s1, er, hv, ht, hne, hle, hfee, rfl, rfl⟩ := deliver_ok env s s' tx vm r h hc
    obtain ⟨hw, hwf⟩ := transitionDb_ok_w env s s1 tx vm er (wf_of_empty s h0) ht
    have hmir := mirror_transitionDb env s s1 tx vm er h0 ht
    obtain ⟨gf, hu, hpend⟩ := pend_transitionDb env s s1 tx vm er h0 hz ht
    rw [burnt_of_ok env s s1 tx vm er hv ht hne hle hfee]
    simp only
    rw [total_finalise s1 hwf hmir, finalise_w, finW_pool, hw, hpend]
    have hlt : gf < gasU tx := by omega
    have hcast : ((er.usedGas : Nat) : Int) = (gasU tx : Int) - (gf : Int) := by omega
    rw [hcast, Int.mul_sub, Int.mul_comm tx.price, Int.mul_comm tx.price]
    omega
  · rw [burnt_of_refused env s s' tx vm r h hc]
    rcases deliver_refused env s s' tx vm r h hc with rfl | rfl <;> simp

/-- VALUE CONSERVATION: when no deleted object holds a balance (`burnt = 0`: every run in which no
    contract is paid after its own SELFDESTRUCT), the total is unchanged -/
theorem olvm_conserves_value (env : Env) (s s' : St) (tx : Tx) (vm : VmOut) (r : Resp)
    (h0 : s.cache = []) (hz : vmNet (vmInput env s tx) vm.effs = 0) (hb : burnt env s tx vm = 0)
    (h : deliverOlvm env s tx vm = (s', r)) :
    total s'.w.bal + s'.w.pool = total s.w.bal + s.w.pool := by
  rw [olvm_value_accounting env s s' tx vm r h0 hz h, hb]; omega

/-- THE TOTAL NEVER GROWS: in general `burnt ≥ 0`, given two more facts about the interpreter: its
    credits are non-negative amounts and the sender (an account without code) does not
    selfdestruct -/
theorem olvm_total_never_grows (env : Env) (s s' : St) (tx : Tx) (vm : VmOut) (r : Resp)
    (h0 : s.cache = []) (hz : vmNet (vmInput env s tx) vm.effs = 0)
    (hadd : ∀ a n, Eff.add a n ∈ vm.effs → 0 ≤ n) (hsnd : Eff.suicide tx.sender ∉ vm.effs)
    (h : deliverOlvm env s tx vm = (s', r)) :
    0 ≤ burnt env s tx vm ∧ total s'.w.bal + s'.w.pool ≤ total s.w.bal + s.w.pool := by
  have hacc := olvm_value_accounting env s s' tx vm r h0 hz h
  have hb : 0 ≤ burnt env s tx vm := by
    by_cases hc : r.code = 0
    · obtain ⟨s1, er, hv, ht, hne, hle, hfee, -, -⟩ := deliver_ok env s s' tx vm r h hc
      obtain ⟨-, hwf⟩ := transitionDb_ok_w env s s1 tx vm er (wf_of_empty s h0) ht
      rw [burnt_of_ok env s s1 tx vm er hv ht hne hle hfee]
      exact burntAt_nonneg tx.sender s1 hwf (suiOk_transitionDb env s s1 tx vm er h0 hadd hsnd ht)
    · rw [burnt_of_refused env s s' tx vm r h hc]; omega
  exact ⟨hb, by omega⟩

/-- nothing is burnt when no `Suicide` call of the interpreter survives -/
theorem nothing_burnt_without_selfdestruct (env : Env) (s s' : St) (tx : Tx) (vm : VmOut) (r : Resp)
    (h0 : s.cache = []) (hn : noSuicide vm.effs = true)
    (h : deliverOlvm env s tx vm = (s', r)) : burnt env s tx vm = 0 := by
  by_cases hc : r.code = 0
  · obtain ⟨s1, er, hv, ht, hne, hle, hfee, -, -⟩ := deliver_ok env s s' tx vm r h hc
    obtain ⟨-, hwf⟩ := transitionDb_ok_w env s s1 tx vm er (wf_of_empty s h0) ht
    rw [burnt_of_ok env s s1 tx vm er hv ht hne hle hfee]
    exact burntAt_zero_of_noSui s1 hwf (noSui_transitionDb env s s1 tx vm er h0 hn ht)
  · exact burnt_of_refused env s s' tx vm r h hc

/-- conservation in the state-independent form, for every run without SELFDESTRUCT: the credits of
    the interpreter's calls equal its debits -/
theorem olvm_conserves_value_balanced_effs (env : Env) (s s' : St) (tx : Tx) (vm : VmOut) (r : Resp)
    (h0 : s.cache = []) (hn : noSuicide vm.effs = true) (hz : effSum vm.effs = 0)
    (h : deliverOlvm env s tx vm = (s', r)) :
    total s'.w.bal + s'.w.pool = total s.w.bal + s.w.pool :=
  olvm_conserves_value env s s' tx vm r h0 (by rw [vmNet_noSuicide _ _ hn, hz])
    (nothing_burnt_without_selfdestruct env s s' tx vm r h0 hn h) h

/-- … in particular, unconditionally on the interpreter, for every transaction during which no
    balance call of the interpreter survives: all plain transfers, every reverted or out-of-gas
    run, creations and calls of code that moves no value itself -/
theorem olvm_conserves_value_no_inner_moves (env : Env) (s s' : St) (tx : Tx) (vm : VmOut) (r : Resp)
    (h0 : s.cache = []) (he : vm.effs = [])
    (h : deliverOlvm env s tx vm = (s', r)) :
    total s'.w.bal + s'.w.pool = total s.w.bal + s.w.pool :=
  olvm_conserves_value_balanced_effs env s s' tx vm r h0 (by rw [he]; rfl) (by rw [he]; rfl) h

def cxEnv : Env := ⟨true, 1, 1000000, "n", false, 1000000⟩
def cxTx : Tx := { okTx with to := some "c", value := 7, gas := 30000, nz := 1 }
/-- `c` is a contract holding 5; called with value 7 it pays 12 to `b` and selfdestructs -/
def cxState : St := ⟨⟨[("a", 100000), ("c", 5)], [("c", ⟨1, true⟩)], 0⟩, []⟩
def cxVm : VmOut := ⟨1000, 0, false, false, [.add "b" 12, .suicide "c"]⟩

/-- SELFDESTRUCT (the former counterexample to conservation, now a regression example): the
    hypotheses of `olvm_conserves_value` hold, the beneficiary gets everything, the contract's record
    is 0, its keeper record is gone, nothing is burnt and the total is unchanged -/
theorem selfdestruct_conserves_value :
    let out := deliverOlvm cxEnv cxState cxTx cxVm
    vmNet (vmInput cxEnv cxState cxTx) cxVm.effs = 0 ∧ burnt cxEnv cxState cxTx cxVm = 0 ∧
    out.2.code = 0 ∧ out.2.stage = .success ∧
    nativeBalance out.1.w "b" = 12 ∧ nativeBalance out.1.w "c" = 0 ∧
    alookup "c" out.1.w.keeper = none ∧
    total out.1.w.bal + out.1.w.pool = total cxState.w.bal + cxState.w.pool := by
  decide

/-- PAY THE DEAD: contract `p` (holding 3) is called with value 7, calls `c` (holding 5), which pays
    its 5 to `b` and selfdestructs, and then pays `c` 1: `c` is deleted with that 1 — the record is 0,
    the keeper record gone, exactly 1 is burnt, the total shrinks by 1 and does not grow -/
theorem pay_the_dead_burns_exactly_that :
    let tx : Tx := { okTx with to := some "p", value := 7, gas := 90000 }
    let vm : VmOut := ⟨1000, 0, false, false,
      [.sub "p" 0, .add "c" 0, .add "b" 5, .suicide "c", .sub "p" 1, .add "c" 1]⟩
    let s : St := ⟨⟨[("a", 100000), ("p", 3), ("c", 5)], [("p", ⟨1, true⟩), ("c", ⟨1, true⟩)], 0⟩, []⟩
    let out := deliverOlvm cxEnv s tx vm
    vmNet (vmInput cxEnv s tx) vm.effs = 0 ∧ burnt cxEnv s tx vm = 1 ∧ out.2.code = 0 ∧
    nativeBalance out.1.w "p" = 9 ∧ nativeBalance out.1.w "b" = 5 ∧ nativeBalance out.1.w "c" = 0 ∧
    alookup "c" out.1.w.keeper = none ∧
    total out.1.w.bal + out.1.w.pool = total s.w.bal + s.w.pool - 1 := by
  decide

/-- S12 (outside the statement of C17, which only asks for "+1"; relevant to C05): only
    `stNonce > msgNonce` is refused, so a transaction carrying nonce state+2 executes and leaves
    nonce state+1, and a DIFFERENT transaction carrying the same nonce executes afterwards: the
    nonce of an executed OLVM transaction is not unique per sender. Witness replayed on the
    implementation by scripted case 1 (counters `s12_*`). -/
theorem nonce_above_state_executes_and_can_be_reused :
    let tx1 : Tx := { okTx with nonce := 2, value := 11, memo := some 2 }
    let tx2 : Tx := { tx1 with value := 22 }
    let vm : VmOut := ⟨0, 0, false, false, []⟩
    let s0 : St := ⟨⟨[("a", 100000)], [], 0⟩, []⟩
    let o1 := deliverOlvm cxEnv s0 tx1 vm
    let o2 := deliverOlvm cxEnv o1.1 tx2 vm
    keeperNonce s0.w "a" = 0 ∧ o1.2.code = 0 ∧ keeperNonce o1.1.w "a" = 1 ∧
    o2.2.code = 0 ∧ keeperNonce o2.1.w "a" = 2 ∧ nativeBalance o2.1.w "t" = 33 := by
  decide

/-! ## non-vacuity: the hypotheses of the theorems above are met by concrete, non-trivial runs -/

/-- a successful plain transfer: every hypothesis of `sender_debit_exact`, `recipient_credit_exact`,
    `nonce_plus_one`, `feepool_credit_exact`, `bystander_untouched` holds, and the numbers are the
    expected ones (gas used 21000 at price 3) -/
example :
    let env : Env := ⟨true, 1, 1000000, "n", false, 1000000⟩
    let tx : Tx := { okTx with nonce := 4, value := 500, gas := 25000, price := 3, memo := some 4 }
    let vm : VmOut := ⟨0, 0, false, false, []⟩
    let s : St := ⟨⟨[("a", 100000), ("t", 9), ("z", 1)], [("a", ⟨4, false⟩)], 40⟩, []⟩
    let out := deliverOlvm env s tx vm
    s.cache = [] ∧ tx.to ≠ some tx.sender ∧ tx.sender ≠ env.newAddr ∧ (∀ e ∈ vm.effs, e.addr ≠ tx.sender) ∧
    out.2.code = 0 ∧ out.2.stage = .success ∧ out.2.gasUsed = 21000 ∧
    nativeBalance out.1.w "a" = 100000 - 21000 * 3 - 500 ∧ nativeBalance out.1.w "t" = 509 ∧
    out.1.w.pool = 40 + 21000 * 3 ∧ keeperNonce out.1.w "a" = 5 ∧ nativeBalance out.1.w "z" = 1 := by
  decide

/-- an executed but reverted call with a refund-free out-of-gas: all gas is charged, no value moves,
    the nonce still goes up -/
example :
    let env : Env := ⟨true, 1, 1000000, "n", false, 1000000⟩
    let tx : Tx := { okTx with to := some "c", value := 500, gas := 30000, price := 2, nz := 1 }
    let vm : VmOut := ⟨0, 0, true, false, []⟩
    let s : St := ⟨⟨[("a", 100000)], [("c", ⟨1, true⟩)], 0⟩, []⟩
    let out := deliverOlvm env s tx vm
    out.2.code = 0 ∧ out.2.stage = .reverted ∧ out.2.gasUsed = 30000 ∧
    nativeBalance out.1.w "a" = 100000 - 30000 * 2 ∧ nativeBalance out.1.w "c" = 0 ∧
    out.1.w.pool = 60000 ∧ keeperNonce out.1.w "a" = 1 := by
  decide

/-- a creation at a pre-funded address with a refund: gas used = 60000 − (5000 + min(55000/3, 4800)) -/
example :
    let env : Env := ⟨true, 1, 1000000, "n", false, 1000000⟩
    let tx : Tx := { okTx with to := none, value := 7, gas := 60000, nz := 10, z := 2, size := 130 }
    let vm : VmOut := ⟨5000, 4800, false, true, []⟩
    let s : St := ⟨⟨[("a", 100000), ("n", 3)], [], 0⟩, []⟩
    let out := deliverOlvm env s tx vm
    tx.to = none ∧ env.newAddr ≠ tx.sender ∧ out.2.code = 0 ∧ out.2.stage = .success ∧ out.2.gasUsed = 50200 ∧
    nativeBalance out.1.w "n" = 10 ∧ alookup "n" out.1.w.keeper = some ⟨1, true⟩ ∧
    nativeBalance out.1.w "a" = 100000 - 50200 - 7 := by
  decide

/-- a forwarding contract: the hypothesis of `olvm_conserves_value` holds for a run with inner
    value movement (contract `c` passes the 7 it receives on to `t`), and the total is unchanged -/
example :
    let env : Env := ⟨true, 1, 1000000, "n", false, 1000000⟩
    let tx : Tx := { okTx with to := some "c", value := 7, gas := 90000 }
    let vm : VmOut := ⟨20000, 0, false, false, [.sub "c" 7, .add "t" 7]⟩
    let s : St := ⟨⟨[("a", 100000), ("c", 5)], [("c", ⟨1, true⟩)], 0⟩, []⟩
    let out := deliverOlvm env s tx vm
    s.cache = [] ∧ vmNet (vmInput env s tx) vm.effs = 0 ∧ out.2.code = 0 ∧
    nativeBalance out.1.w "t" = 7 ∧ nativeBalance out.1.w "c" = 5 ∧
    total out.1.w.bal + out.1.w.pool = total s.w.bal + s.w.pool := by
  decide

/-- refused transactions of both kinds (Validate: nonce too low; TransitionDb: block gas pool) meet
    the hypothesis of `precheck_failure_noop` -/
example :
    let tx : Tx := { okTx with nonce := 1, value := 5, memo := some 1 }
    let vm : VmOut := ⟨0, 0, false, false, []⟩
    let s : St := ⟨⟨[("a", 100000)], [("a", ⟨2, false⟩)], 0⟩, []⟩
    (deliverOlvm ⟨true, 1, 1000000, "n", false, 1000000⟩ s tx vm).2.stage = .invalid .nonceLow ∧
    (deliverOlvm ⟨true, 1, 20000, "n", false, 20000⟩ s { tx with nonce := 2, memo := some 2 } vm).2.stage = .consensus .gasPool ∧
    (deliverOlvm ⟨true, 1, 20000, "n", false, 20000⟩ s { tx with nonce := 2, memo := some 2 } vm).1 = s := by
  decide

/-- the inputs that used to panic in `validateSigner` and the spellings that used to be admitted
    although they are outside the signature are refused like any other invalid transaction, in the
    order of the Go code, and change nothing -/
example :
    let tx : Tx := { okTx with value := 5 }
    let vm : VmOut := ⟨0, 0, false, false, []⟩
    let s : St := ⟨⟨[("a", 100000)], [], 0⟩, []⟩
    (deliverOlvm cxEnv s tx vm).2.code = 0 ∧
    (deliverOlvm cxEnv s { tx with sigOk := false } vm).2.stage = .invalid .sigBad ∧
    (deliverOlvm cxEnv s { tx with chainNil := true, chainOk := false, sigOk := false } vm).2.stage = .invalid .chainId ∧
    (deliverOlvm cxEnv s { tx with payloadCanon := false, sigs := 2 } vm).2.stage = .invalid .payloadEnc ∧
    (deliverOlvm cxEnv s { tx with signerKeyOk := false, typeOk := false } vm).2.stage = .invalid .signerKey ∧
    (deliverOlvm cxEnv s { tx with typeOk := false } vm).2.stage = .invalid .txType ∧
    (deliverOlvm cxEnv s { tx with memoCanon := false } vm).2.stage = .invalid .memoNonce ∧
    (deliverOlvm cxEnv s { tx with memoCanon := false } vm).1 = s := by
  decide

/-- the block gas meter: a transaction that arrives on a shut meter cannot read its sender and is
    refused for lack of funds; one whose contract gas takes the meter to its limit fails in the fee
    step; both leave no trace -/
example :
    let tx : Tx := { okTx with value := 5 }
    let vm : VmOut := ⟨0, 0, false, false, []⟩
    let s : St := ⟨⟨[("a", 100000)], [], 7⟩, []⟩
    (deliverOlvm ⟨true, 1, 1000000, "n", false, 1000000⟩ s tx vm).2.code = 0 ∧
    (deliverOlvm ⟨true, 1, 0, "n", true, 0⟩ s tx vm).2.stage = .invalid .funds ∧
    (deliverOlvm ⟨true, 1, 21000, "n", false, 20900⟩ s tx vm).2.stage = .feeRefused ∧
    (deliverOlvm ⟨true, 1, 21000, "n", false, 20900⟩ s tx vm).1 = s ∧
    (checkOlvm ⟨true, 1, 0, "n", true, 0⟩ s tx).2 = 1 := by
  decide

end OLP.Props.C17

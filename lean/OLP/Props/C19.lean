/-
  C19 — Allegations: verdicts follow votes, frozen stays frozen, penalties bounded.

  "A validator is declared guilty or innocent only when the yes or no votes of distinct currently
  active validators cross the configured share, each active validator counting at most once per
  allegation; a guilty validator is frozen, loses exactly the configured percentage of its stake of
  which at most the penalty goes to the bounty program, drops out of the validator set, and can
  neither stake, unstake nor withdraw until it is released after the configured release time.
  Accounts that are not active validators cannot open or vote on allegations."

  Theorems are over the model `OLP.Alleg` (a port of the Go code as written, tied to it by the
  `alleg` correspondence engine).  Eight deviations this check found in the code were repaired
  (7eb2406, 73dca0f, 6709f41, 1d3139c, 8e5280a, df2e1ab, 92417eb, d2f2af2); the clauses they concerned are
  proved at full strength now and their former counterexamples are kept as regression examples
  (`decide`), the harness replays the same scenarios on the implementation
  (harness/apph/alleg_script.go, corpus/C19).

  Float assumption (`Exact F`): only the penalty is still computed in `big.Float`; it is a
  parameter of the model and `penalty_exact_and_bounty_le_penalty` assumes it equals the exact
  rounding.  The thresholds are integer arithmetic in the code and in the model.
-/
import OLP.Alleg.Lemmas

namespace OLP.Props.C19
open OLP OLP.Alleg

/-! ## sample world for the non-vacuity and regression examples -/

/-- options: vote share 50 %, allegation share 50 %, penalty 30 %, bounty 50 %, release after 1 day,
    missed-votes window 3 blocks / 2 votes -/
def o50 : Opts := ⟨2, 3, 30, 100, 50, 100, 1, 50, 100, 50, 100⟩

def prev4 : List (Addr × ValRec) := [("a0", ⟨"s0", 10⟩), ("a1", ⟨"s1", 10⟩), ("a2", ⟨"s2", 10⟩), ("a3", ⟨"s3", 15⟩)]

/-- four active validators, one open request `r1` by `a0` against `a3` with the given votes -/
def sampleState (votes : List Vote) : State :=
  { State.empty with
    reqs := [("r1", ⟨"a0", "a3", 5, 1, votes⟩)], tracker := ["r1"],
    vstat := [("a0", ⟨true, 2⟩), ("a1", ⟨true, 2⟩), ("a2", ⟨true, 2⟩), ("a3", ⟨true, 2⟩)],
    total := [("a3", 15)], vd := [(("a3", "s3"), 15)], de := [("s3", 15)], db := [("s3", 4)] }

def env4 (h t : Int) : Env := ⟨h, t, 4, o50, prev4, prev4⟩

/-! ## 1. verdict iff threshold, over the votes of currently active validators -/

/-- the decision of the tally loop: with `required = (active·vote% + dec − 1) / dec` and the yes / no
    counts taken over the votes of addresses whose status record is active at the tally,
    guilty ⇔ yes/required > alleg%, innocent ⇔ ¬guilty ∧ no/required > 1 − alleg%, else no verdict
    (integer arithmetic, no float assumption) -/
theorem verdict_iff_threshold (env : Env) (vs : List (Addr × VStat)) (ar : Request) :
    let o := env.opts
    let required := requiredVotes env.active o
    let yes := countChoice 1 (activeVotes vs ar)
    let no := countChoice 2 (activeVotes vs ar)
    (verdictOf env vs ar = .guilty ↔ yes * o.allegDec > o.allegPct * required) ∧
    (verdictOf env vs ar = .innocent ↔
        ¬ (yes * o.allegDec > o.allegPct * required) ∧ no * o.allegDec > (o.allegDec - o.allegPct) * required) ∧
    (verdictOf env vs ar = .none ↔
        ¬ (yes * o.allegDec > o.allegPct * required) ∧ ¬ (no * o.allegDec > (o.allegDec - o.allegPct) * required)) := by
  simp only
  have hg := verdictOf_guilty env vs ar
  have hi := verdictOf_innocent env vs ar
  refine ⟨hg, hi, ?_⟩
  cases hv : verdictOf env vs ar with
  | guilty => simp [hg.mp hv]
  | innocent => simp [(hi.mp hv).2]
  | none =>
    simp only [true_iff]
    constructor
    · intro h; rw [hg.mpr h] at hv; cases hv
    · intro h
      by_cases hgu : countChoice 1 (activeVotes vs ar) * env.opts.allegDec >
          env.opts.allegPct * requiredVotes env.active env.opts
      · rw [hg.mpr hgu] at hv; cases hv
      · rw [hi.mpr ⟨hgu, h⟩] at hv; cases hv

/-- `required` is the ceiling of `active·votePct / voteDec` -/
theorem required_is_ceiling (active : Int) (o : Opts) (hd : 0 < o.voteDec) (hp : 0 ≤ o.votePct) (ha : 0 < active) :
    let r := requiredVotes active o
    o.voteDec * (r - 1) < active * o.votePct ∧ active * o.votePct ≤ o.voteDec * r :=
  required_is_ceil active o hd hp ha

/-- the verdict depends on the votes of CURRENTLY active validators only (6709f41): votes of
    addresses whose status record is not active at the tally can be added or removed at will -/
theorem votes_are_of_currently_active (env : Env) (vs : List (Addr × VStat)) (ar ar' : Request)
    (h : activeVotes vs ar = activeVotes vs ar') : verdictOf env vs ar = verdictOf env vs ar' :=
  verdictOf_congr_votes env vs ar ar' h

theorem verdict_from_active_votes_alone (env : Env) (vs : List (Addr × VStat)) (ar : Request) :
    verdictOf env vs ar = verdictOf env vs { ar with votes := activeVotes vs ar } :=
  verdictOf_congr_votes env vs _ _ (activeVotes_idem vs ar).symm

/-- regression (was `departed_voter_still_counts`): `a0` voted yes and then left the active set
    (3 active, required 2); with one more yes vote only one currently active validator has voted
    yes, which is not more than 50 % of 2 — no verdict; with `a0` still active it is guilty -/
example :
    let ar : Request := ⟨"a0", "a3", 5, 1, [⟨"a0", 1⟩, ⟨"a1", 1⟩]⟩
    let env : Env := ⟨6, 600, 3, o50, prev4, prev4⟩
    verdictOf env [("a0", ⟨false, 5⟩), ("a1", ⟨true, 2⟩), ("a2", ⟨true, 2⟩), ("a3", ⟨true, 2⟩)] ar = .none ∧
    verdictOf env (sampleState []).vstat ar = .guilty := by decide

/-- regression (was `innocent_without_crossing_if_float_inexact`): share 80/100, five required:
    one no vote is exactly 20 %, not more — no verdict; two no votes acquit -/
example :
    let o : Opts := { o50 with allegPct := 80, votePct := 100 }
    let env : Env := ⟨6, 600, 5, o, prev4, prev4⟩
    let vs : List (Addr × VStat) := [("a0", ⟨true, 2⟩), ("a1", ⟨true, 2⟩), ("a2", ⟨true, 2⟩)]
    requiredVotes 5 o = 5 ∧
    verdictOf env vs ⟨"a0", "a3", 5, 1, [⟨"a1", 2⟩]⟩ = .none ∧
    verdictOf env vs ⟨"a0", "a3", 5, 1, [⟨"a1", 2⟩, ⟨"a2", 2⟩]⟩ = .innocent := by decide

/-- at the block end the verdict is what happens to the request: a guilty verdict writes the
    byzantine-fault record of this block for the accused; an innocent verdict (or a guilty one
    against an address with a validator record) removes the request; no verdict leaves it as it was.
    The status records are those the election pass of the same block end left. -/
theorem tally_follows_verdict (F : FloatOps) (env : Env) (st : State) (id : ReqId) (ar : Request)
    (hrun : TallyRuns env) (hid : id ∈ st.tracker) (har : alookup id (cleanTracker st).reqs = some ar) :
    (verdictOf env st.vstat ar = .guilty → alookup ar.accused (tally F env st).susp = some (byzRec env)) ∧
    (verdictOf env st.vstat ar = .none → alookup id (tally F env st).reqs = some ar) ∧
    (verdictOf env st.vstat ar = .innocent ∨ (verdictOf env st.vstat ar = .guilty ∧ (alookup ar.accused env.prev).isSome) →
        alookup id (tally F env st).reqs = none) := by
  obtain ⟨hs, hr, _⟩ := tallyWith_eq F env st.tracker st.tracker st hrun
  have hid' : id ∈ sortIds st.tracker := mem_sortIds.mpr hid
  have hvs : (cleanTrackerWith st.tracker st, ([] : List ReqId)).1.vstat = st.vstat :=
    (cleanTrackerWith_fields st.tracker st).2.1
  refine ⟨fun hv => ?_, fun hv => ?_, fun hv => ?_⟩
  · unfold tally; rw [hs]; exact tallyFold_guilty F env st.vstat _ _ id ar hvs hid' har hv
  · unfold tally; rw [hr]; exact tallyFold_none_keeps F env st.vstat _ _ id ar hvs har hv
  · unfold tally; rw [hr]; exact tallyFold_decided_erases F env st.vstat _ _ id ar hvs hid' har hv

/-- … and ONLY then: the tally changes the suspicious-validator record of an address only through
    a guilty verdict on a tracked request against it -/
theorem guilty_only_by_verdict (F : FloatOps) (env : Env) (st : State) (a : Addr)
    (h : alookup a (tally F env st).susp ≠ alookup a st.susp) :
    TallyRuns env ∧ ∃ id ar, id ∈ st.tracker ∧ alookup id (cleanTracker st).reqs = some ar ∧ ar.accused = a ∧
      verdictOf env st.vstat ar = .guilty := by
  by_cases hrun : TallyRuns env
  · refine ⟨hrun, ?_⟩
    unfold tally at h
    rw [(tallyWith_eq F env st.tracker st.tracker st hrun).1] at h
    have h' : alookup a ((sortIds st.tracker).foldl (tallyOne F env) (cleanTrackerWith st.tracker st, [])).1.susp ≠
        alookup a (cleanTrackerWith st.tracker st, ([] : List ReqId)).1.susp := by
      simp only [(cleanTrackerWith_fields st.tracker st).1]; exact h
    obtain ⟨id, ar, hid, har, hacc, hv⟩ := tallyFold_susp_change F env st.vstat _ _ a
      (cleanTrackerWith_fields st.tracker st).2.1 h'
    exact ⟨id, ar, mem_sortIds.mp hid, har, hacc, hv⟩
  · unfold tally at h; rw [tallyWith_skipped F env _ _ st hrun] at h; exact absurd rfl h

/-- without active validators (or with an option group without decimals) nothing is decided -/
theorem no_active_no_verdict (F : FloatOps) (env : Env) (st : State) (h : ¬ TallyRuns env) : tally F env st = st :=
  tallyWith_skipped F env _ _ st h

/-- the tracker keys are a set in every reachable state (it is a Go map) -/
theorem tracker_is_a_set (ops : List Op) : (run State.empty ops).tracker.Nodup :=
  run_trackerNodup State.empty ops (by simp [State.empty])

/-- every tracked request keeps its place until its own votes decide it: in every reachable state
    the cleanup step of the tally (`CleanTracker`) changes nothing.  Full strength since d2f2af2:
    the duplicate check of PerformAllegation (`IterateRequests`, now `IterateRangeAll`) sees the
    requests opened earlier in the same block, so no two open requests are ever against one
    address (`one_open_request_per_address`), which is all `CleanTracker` looks for (it walks the
    tracker record, not store keys). -/
theorem cleanup_keeps_requests (ops : List Op) : cleanTracker (run State.empty ops) = run State.empty ops :=
  cleanTrackerWith_noop _ _ (run_trackerNodup State.empty ops (by simp [State.empty]))
    (run_onePerAccused State.empty ops (by intro i j a b ha; simp [State.empty] at ha))

theorem one_open_request_per_address (ops : List Op) : OnePerAccused (run State.empty ops) :=
  run_onePerAccused State.empty ops (by intro i j a b ha; simp [State.empty] at ha)

/-- a second allegation against an address that already has an open request is refused, also
    inside the block in which the first was opened, and changes nothing -/
theorem second_allegation_refused (st : State) (h : Int) (rep acc : Addr) (id : ReqId) (bh : Int) (sig fee : Bool)
    (j : ReqId) (b : Request) (hb : alookup j st.reqs = some b) (hacc : b.accused = acc) :
    (txAllege st h rep acc id bh sig fee).1 ≠ .ok ∧ (txAllege st h rep acc id bh sig fee).2 = st := by
  have hex : requestExists st acc = true := by
    cases hc : requestExists st acc with
    | true => rfl
    | false => exact absurd hacc (requestExists_false hc j b hb)
  have hr : (runAllege st h rep acc id bh).1 ≠ .ok := by
    unfold runAllege performAllegation
    repeat' split
    all_goals simp_all
  unfold txAllege withAdmission
  generalize runAllege st h rep acc id bh = r at *
  obtain ⟨res, st'⟩ := r
  cases sig <;> cases fee <;> cases res <;> simp_all

/-- regression (was `duplicate_request_dropped`): with `r1` against `a3` open (opened in this very
    block or earlier), a second allegation against `a3` is refused as existing -/
example : (txAllege (sampleState []) 6 "a1" "a3" "r2" 5 true true).1 = .exists := by decide

/-- in a reachable state the cleanup step is the identity, so the request is the stored one -/
theorem tally_follows_verdict_reachable (F : FloatOps) (env : Env) (ops : List Op) (id : ReqId) (ar : Request)
    (hrun : TallyRuns env) (hid : id ∈ (run State.empty ops).tracker) (har : alookup id (run State.empty ops).reqs = some ar) :
    let st := run State.empty ops
    (verdictOf env st.vstat ar = .guilty → alookup ar.accused (tally F env st).susp = some (byzRec env)) ∧
    (verdictOf env st.vstat ar = .none → alookup id (tally F env st).reqs = some ar) ∧
    (verdictOf env st.vstat ar = .innocent ∨ (verdictOf env st.vstat ar = .guilty ∧ (alookup ar.accused env.prev).isSome) →
        alookup id (tally F env st).reqs = none) :=
  tally_follows_verdict F env _ id ar hrun hid (by rw [cleanup_keeps_requests ops]; exact har)

/-- regression (was `empty_id_request_dropped`): three yes votes of the four active validators
    under the EMPTY request id convict like under any other id -/
example :
    let st : State := { sampleState [] with
      reqs := [("", ⟨"a0", "a3", 5, 1, [⟨"a0", 1⟩, ⟨"a1", 1⟩, ⟨"a2", 1⟩]⟩)], tracker := [""] }
    alookup "" (tally exactOps (env4 6 600) st).reqs = none ∧
    alookup "a3" (tally exactOps (env4 6 600) st).susp = some (byzRec (env4 6 600)) := by
  simp only [tally]
  rw [tallyWith_core _ _ _ _ _ (by decide) (by decide)]
  decide

example : -- the hypotheses of `tally_follows_verdict` are satisfiable
    (sampleState [⟨"a0", 1⟩, ⟨"a1", 1⟩]).tracker.Nodup ∧ TallyRuns (env4 6 600) ∧
    verdictOf (env4 6 600) (sampleState []).vstat ⟨"a0", "a3", 5, 1, [⟨"a0", 1⟩, ⟨"a1", 1⟩]⟩ = .guilty ∧
    verdictOf (env4 6 600) (sampleState []).vstat ⟨"a0", "a3", 5, 1, [⟨"a0", 1⟩, ⟨"a1", 2⟩]⟩ = .none ∧
    verdictOf (env4 6 600) (sampleState []).vstat ⟨"a0", "a3", 5, 1, [⟨"a1", 2⟩, ⟨"a2", 2⟩]⟩ = .innocent := by
  refine ⟨by decide, ⟨by decide, by decide, by decide⟩, by decide, by decide, by decide⟩

/-! ## 2. one vote per validator -/

/-- in every state reachable from one without double votes (the empty state in particular), no
    request holds two votes of one address — for every history of operations -/
theorem one_vote_per_validator (st : State) (ops : List Op) (h : VotesNodup st) : VotesNodup (run st ops) :=
  run_votesNodup st ops h

theorem one_vote_per_validator_from_genesis (ops : List Op) : VotesNodup (run State.empty ops) :=
  run_votesNodup State.empty ops (by intro p hp; simp [State.empty] at hp)

/-- a second vote of the same address is refused and changes nothing -/
theorem second_vote_rejected (st : State) (id : ReqId) (ar : Request) (voter : Addr) (c : Int) (sig fee : Bool)
    (har : alookup id st.reqs = some ar) (hvoted : voter ∈ ar.votes.map (·.addr)) :
    (txVote st id voter c sig fee).1 ≠ .ok ∧ (txVote st id voter c sig fee).2 = st := by
  have hany : ar.votes.any (fun v => v.addr == voter) = true := by
    obtain ⟨v, hv, rfl⟩ := List.mem_map.mp hvoted
    exact List.any_eq_true.mpr ⟨v, hv, by simp⟩
  have hc : (castVote st id voter c).1 ≠ .ok ∧ (castVote st id voter c).2 = st := by
    unfold castVote
    rw [har]
    simp only [hany, if_true]
    repeat' split
    all_goals simp
  have hr : (runVote st id voter c).1 ≠ .ok ∧ (runVote st id voter c).2 = st := by
    unfold runVote
    repeat' split
    all_goals first | exact hc | simp
  unfold txVote withAdmission
  obtain ⟨h1, h2⟩ := hr
  generalize runVote st id voter c = r at *
  obtain ⟨res, st'⟩ := r
  cases sig <;> cases fee <;> cases res <;> simp_all

/-- so each voter adds at most one to the two counts of the tally -/
theorem counts_bounded_by_voters (ar : Request) :
    countChoice 1 ar.votes + countChoice 2 ar.votes ≤ (ar.votes.length : Int) := counts_le_voters ar.votes

example : VotesNodup (sampleState [⟨"a0", 1⟩, ⟨"a1", 2⟩]) ∧
    (txVote (sampleState [⟨"a0", 1⟩, ⟨"a1", 2⟩]) "r1" "a1" 1 true true).1 = .dupVote := by
  constructor
  · intro p hp; simp [sampleState, State.empty] at hp; subst hp; decide
  · decide

/-! ## 3. only active validators open or vote -/

theorem only_active_can_allege_or_vote (st st' : State) :
    (∀ h rep acc id bh sig fee, txAllege st h rep acc id bh sig fee = (.ok, st') →
        isActive st rep = true ∧ sig = true ∧ fee = true) ∧
    (∀ id voter c sig fee, txVote st id voter c sig fee = (.ok, st') →
        isActive st voter = true ∧ isFrozen st voter = false ∧ sig = true ∧ fee = true) := by
  constructor
  · intro h rep acc id bh sig fee hok
    obtain ⟨hr, hs, hf⟩ := withAdmission_ok hok
    refine ⟨?_, hs, hf⟩
    unfold runAllege at hr
    split at hr
    · cases hr
    · split at hr
      · cases hr
      · split at hr
        · cases hr
        · rename_i hna; simpa using hna
  · intro id voter c sig fee hok
    obtain ⟨hr, hs, hf⟩ := withAdmission_ok hok
    unfold runVote at hr
    split at hr
    · cases hr
    · rename_i hnf
      split at hr
      · cases hr
      · rename_i hna
        exact ⟨by simpa using hna, by simpa using hnf, hs, hf⟩

/-- a failed attempt leaves the state as it was -/
theorem rejected_allege_or_vote_is_noop (st : State) :
    (∀ h rep acc id bh sig fee, (txAllege st h rep acc id bh sig fee).1 ≠ .ok → (txAllege st h rep acc id bh sig fee).2 = st) ∧
    (∀ id voter c sig fee, (txVote st id voter c sig fee).1 ≠ .ok → (txVote st id voter c sig fee).2 = st) := by
  constructor
  · intro h rep acc id bh sig fee hne
    unfold txAllege withAdmission at *
    generalize runAllege st h rep acc id bh = r at *
    obtain ⟨res, st'⟩ := r
    cases sig <;> cases fee <;> cases res <;> simp_all
  · intro id voter c sig fee hne
    unfold txVote withAdmission at *
    generalize runVote st id voter c = r at *
    obtain ⟨res, st'⟩ := r
    cases sig <;> cases fee <;> cases res <;> simp_all

example : -- an active validator opens and votes; an address without an active status record cannot
    (txAllege (sampleState []) 6 "a1" "a2" "r2" 5 true true).1 = .ok ∧
    (txAllege (sampleState []) 6 "x9" "a2" "r2" 5 true true).1 = .nonActive ∧
    (txVote (sampleState []) "r1" "x9" 1 true true).1 = .nonActive := by decide

/-! ## 4. guilty ⇒ frozen, until released -/

/-- a guilty verdict freezes the accused, and a frozen validator stays frozen through every
    history that contains no RELEASE of it (allegations, votes, staking operations, BeginBlock
    freeze checks, elections, further tallies, commits) -/
theorem guilty_frozen_until_release (F : FloatOps) (env : Env) (st : State) (id : ReqId) (ar : Request)
    (hrun : TallyRuns env) (hid : id ∈ st.tracker) (har : alookup id (cleanTracker st).reqs = some ar)
    (hv : verdictOf env st.vstat ar = .guilty) (ops : List Op) (hnr : ∀ op, op ∈ ops → NotRelease ar.accused op) :
    isFrozen (tally F env st) ar.accused = true ∧ isFrozen (run (tally F env st) ops) ar.accused = true := by
  have h1 : isFrozen (tally F env st) ar.accused = true := by
    have := (tally_follows_verdict F env st id ar hrun hid har).1 hv
    unfold isFrozen; rw [this]; rfl
  exact ⟨h1, run_frozen_mono _ ops ar.accused hnr h1⟩

example : -- a conviction at height 6
    isFrozen (tally exactOps (env4 6 600) (sampleState [⟨"a0", 1⟩, ⟨"a1", 1⟩])) "a3" = true := by
  simp only [tally]
  rw [tallyWith_core _ _ _ _ _ (by decide) (by decide)]
  decide

/-! ## 5. frozen ⇒ no stake, unstake, withdraw -/

/-- the three staking handlers refuse a transaction that names a frozen validator, and change
    nothing -/
theorem frozen_cannot_stake_unstake_withdraw (st : State) (val : Addr) (hf : isFrozen st val = true)
    (vals : List (Addr × ValRec)) (stakeAddr : Addr) (amt : Int) :
    runStake st val stakeAddr amt = (.frozen, st) ∧ runUnstake st val stakeAddr amt = (.frozen, st) ∧
    runWithdraw st vals val stakeAddr amt = (.frozen, st) ∧
    (∀ kind, stakingGuard st vals kind val stakeAddr = .frozen) := by
  refine ⟨?_, ?_, ?_, ?_⟩
  · unfold runStake; simp [hf]
  · unfold runUnstake; simp [hf]
  · unfold runWithdraw; simp [hf]
  · intro kind; unfold stakingGuard; simp [hf]

/-- … and (df2e1ab, 92417eb) the money side: while validator `v` whose record names the stake
    account `s` is frozen, NO withdraw from `s` succeeds, whatever validator address the message
    names (`vals` = the validator records `Validators.Iterate` finds) -/
theorem frozen_owner_cannot_withdraw (st : State) (vals : List (Addr × ValRec)) (v s : Addr) (r : ValRec)
    (hm : (v, r) ∈ vals) (hs : r.stakeAddr = s) (hf : isFrozen st v = true) (named : Addr) (amt : Int) :
    runWithdraw st vals named s amt = (.frozen, st) ∧ stakingGuard st vals "withdraw" named s = .frozen := by
  have ho := frozenOwner_of_mem st vals v s r hm hs hf
  constructor
  · unfold runWithdraw; split
    · rfl
    · rfl
  · unfold stakingGuard; split
    · rfl
    · simp; exact ho

/-- the two clauses together: from the guilty verdict on, through every history without a RELEASE of
    the convicted validator, STAKE and UNSTAKE naming it and every WITHDRAW from its stake account
    are refused -/
theorem guilty_cannot_stake_until_release (F : FloatOps) (env : Env) (st : State) (id : ReqId) (ar : Request)
    (hrun : TallyRuns env) (hid : id ∈ st.tracker) (har : alookup id (cleanTracker st).reqs = some ar)
    (hv : verdictOf env st.vstat ar = .guilty) (ops : List Op) (hnr : ∀ op, op ∈ ops → NotRelease ar.accused op)
    (vals : List (Addr × ValRec)) (r : ValRec) (hm : (ar.accused, r) ∈ vals) (named stakeAddr : Addr) (amt : Int) :
    let s := run (tally F env st) ops
    runStake s ar.accused stakeAddr amt = (.frozen, s) ∧ runUnstake s ar.accused stakeAddr amt = (.frozen, s) ∧
    runWithdraw s vals named r.stakeAddr amt = (.frozen, s) := by
  have hf := (guilty_frozen_until_release F env st id ar hrun hid har hv ops hnr).2
  obtain ⟨h1, h2, _, _⟩ := frozen_cannot_stake_unstake_withdraw _ ar.accused hf vals stakeAddr amt
  exact ⟨h1, h2, (frozen_owner_cannot_withdraw _ vals ar.accused r.stakeAddr r hm rfl hf named amt).1⟩

/-- regression (was `frozen_owner_withdraws_naming_other_address`): the stake account `s3` of the
    frozen `a3` names the non-validator `x9`: refused; once `a3` is released it withdraws -/
example :
    let st : State := { sampleState [] with susp := [("a3", ⟨2, 6, 600, 0, none⟩)] }
    let st' : State := { sampleState [] with susp := [("a3", ⟨2, 6, 600, 9, some 90000⟩)] }
    runWithdraw st prev4 "x9" "s3" 4 = (.frozen, st) ∧ runWithdraw st prev4 "a3" "s3" 4 = (.frozen, st) ∧
    (runWithdraw st' prev4 "x9" "s3" 4).1 = .ok ∧ getI (runWithdraw st' prev4 "x9" "s3" 4).2.db "s3" = 0 := by decide

/-! ## 6. the penalty -/

/-- a guilty verdict against a validator with stake `s`, charged to `sa` — the stake address of its
    current record (ebb3d1d), else of the previous block's:
    * the penalty `P` is `s·base%` rounded to the nearest integer (half up), `0 ≤ P ≤ s`;
    * when the two delegation records of the stake account cover `P` (they equal the stake in
      every state the staking handlers produce: C11) all three records fall by exactly `P`, the
      bounty address gains `⌊P·10¹⁸·bounty%⌋ ≤ P·10¹⁸`, and the power update of `P` is scheduled
      for the next block;
    * otherwise the debit is refused as a whole (7abde80): no stake record, no bounty and no
      scheduled update changes.
    `Exact F`: the `big.Float` expression equals the exact rounding (stake·base% < 2^53). -/
theorem penalty_exact_and_bounty_le_penalty (F : FloatOps) (hF : Exact F) (env : Env) (st : State)
    (del : List ReqId) (id : ReqId) (ar : Request) (v : ValRec)
    (har : alookup id st.reqs = some ar) (hv : verdictOf env st.vstat ar = .guilty)
    (hp : alookup ar.accused env.prev = some v)
    (hbd : 0 < env.opts.penBaseDec) (hb0 : 0 ≤ env.opts.penBasePct) (hb1 : env.opts.penBasePct ≤ env.opts.penBaseDec)
    (hcd : 0 < env.opts.bountyDec) (hc0 : 0 ≤ env.opts.bountyPct) (hc1 : env.opts.bountyPct ≤ env.opts.bountyDec)
    (hs : 0 ≤ getI st.total ar.accused) :
    let s := getI st.total ar.accused
    let sa := slashAddr env ar.accused v
    let P := (2 * s * env.opts.penBasePct + env.opts.penBaseDec) / (2 * env.opts.penBaseDec)
    let st' := (tallyOne F env (st, del) id).1
    (2 * env.opts.penBaseDec * P ≤ 2 * s * env.opts.penBasePct + env.opts.penBaseDec ∧
      2 * s * env.opts.penBasePct + env.opts.penBaseDec < 2 * env.opts.penBaseDec * (P + 1)) ∧
    (0 ≤ P ∧ P ≤ s) ∧
    (0 ≤ st'.bounty - st.bounty ∧ st'.bounty - st.bounty ≤ P * e18) ∧
    (P ≤ getI st.vd (ar.accused, sa) → P ≤ getI st.de sa →
        getI st'.total ar.accused = s - P ∧
        getI st'.vd (ar.accused, sa) = getI st.vd (ar.accused, sa) - P ∧
        getI st'.de sa = getI st.de sa - P ∧
        st'.bounty = st.bounty + P * e18 * env.opts.bountyPct / env.opts.bountyDec ∧
        alookup (env.height, ar.accused) st'.delayed = some P) ∧
    (¬ (P ≤ getI st.vd (ar.accused, sa) ∧ P ≤ getI st.de sa) →
        st'.total = st.total ∧ st'.vd = st.vd ∧ st'.de = st.de ∧ st'.bounty = st.bounty ∧ st'.delayed = st.delayed) := by
  simp only
  have hP : F.penalty (getI st.total ar.accused) env.opts =
      (2 * getI st.total ar.accused * env.opts.penBasePct + env.opts.penBaseDec) / (2 * env.opts.penBaseDec) := by
    rw [hF.penalty]; rfl
  have hbounds := penalty_bounds (getI st.total ar.accused) env.opts.penBasePct env.opts.penBaseDec hbd hs hb0 hb1
  have hbty := bounty_bounds _ env.opts.bountyPct env.opts.bountyDec hcd hbounds.1 hc0 hc1
  rw [tallyOne_guilty_eq F env st del id ar v har hv hp]
  simp only [hP]
  generalize hPd : (2 * getI st.total ar.accused * env.opts.penBasePct + env.opts.penBaseDec) / (2 * env.opts.penBaseDec) = P at *
  generalize slashAddr env ar.accused v = sa
  refine ⟨by rw [← hPd]; exact penalty_round _ _ _ hbd, hbounds, ?_, ?_, ?_⟩
  · have hb := minusFromAddress_bounty { st with susp := upsert st.susp ar.accused (byzRec env) } ar.accused sa P
    split
    · simp only [hb]
      constructor <;> omega
    · simp only [hb]
      have := Int.mul_nonneg hbounds.1 (show (0 : Int) ≤ e18 by decide)
      constructor <;> omega
  · intro h2 h3
    rw [minusFromAddress_ok { st with susp := upsert st.susp ar.accused (byzRec env) } ar.accused sa P hbounds.2 h2 h3]
    simp [getI]
  · intro hno
    rw [minusFromAddress_refused { st with susp := upsert st.susp ar.accused (byzRec env) } ar.accused sa P
      (by intro ⟨_, h2, h3⟩; exact hno ⟨h2, h3⟩)]
    simp

example : -- stake 15, penalty 30 % = 4.5, rounded half up to 5; bounty 50 % of 5·10¹⁸
    let r := (tallyOne exactOps (env4 6 600) (sampleState [⟨"a0", 1⟩, ⟨"a1", 1⟩], []) "r1").1
    getI r.total "a3" = 10 ∧ getI r.vd ("a3", "s3") = 10 ∧ getI r.de "s3" = 10 ∧
    r.bounty = 2500000000000000000 ∧ alookup (6, "a3") r.delayed = some 5 := by decide

example : -- the stake address changed in the block of the verdict (current record names `t3`, which holds the stake)
    let env : Env := { env4 6 600 with cur := [("a3", ⟨"t3", 15⟩)] }
    let st : State := { sampleState [⟨"a0", 1⟩, ⟨"a1", 1⟩] with vd := [(("a3", "t3"), 15)], de := [("t3", 15)] }
    let r := (tallyOne exactOps env (st, []) "r1").1
    getI r.total "a3" = 10 ∧ getI r.vd ("a3", "t3") = 10 ∧ getI r.de "t3" = 10 ∧ alookup (6, "a3") r.delayed = some 5 := by decide

/-! ## 7. release only after the release time -/

/-- `HandleRelease` succeeds on a byzantine-fault record only strictly after
    `FrozenAt + ValidatorReleaseTime` days -/
theorem release_only_after_time (st st' : State) (days : Int) (a : Addr) (h now t0 : Int) (sig fee : Bool)
    (hb : ByzSince st a t0) (hok : txRelease st days a h now sig fee = (.ok, st')) :
    now > t0 + 86400 * days := by
  obtain ⟨hr, _, _⟩ := withAdmission_ok hok
  exact handleRelease_ok_time st st' days a h now t0 hb hr

/-- over histories (full strength since 73dca0f: the BeginBlock freeze check skips addresses that
    are already frozen, so it cannot replace the byzantine-fault record any more): a validator
    convicted at time `t0` is released only after `t0 + days`, whatever happens in between —
    allegations, votes, staking operations, missed block votes, elections, further convictions
    (block times do not run backwards: `TimeFrom`) -/
theorem guilty_released_only_after_time (st : State) (a : Addr) (t0 : Int) (ops : List Op)
    (hb : ByzSince st a t0)
    (hops : ∀ op, op ∈ ops → NotRelease a op ∧ TimeFrom t0 op)
    (st' : State) (days h now : Int) (sig fee : Bool)
    (hok : txRelease (run st ops) days a h now sig fee = (.ok, st')) :
    now > t0 + 86400 * days :=
  release_only_after_time (run st ops) st' days a h now t0 sig fee (run_byzSince st ops a t0 hops hb) hok

/-- a guilty verdict establishes the premise: the record it writes is a frozen byzantine-fault
    record of the verdict's block time -/
theorem guilty_verdict_starts_the_clock (F : FloatOps) (env : Env) (st : State) (id : ReqId) (ar : Request)
    (hrun : TallyRuns env) (hid : id ∈ st.tracker) (har : alookup id (cleanTracker st).reqs = some ar)
    (hv : verdictOf env st.vstat ar = .guilty) : ByzSince (tally F env st) ar.accused env.time :=
  ⟨byzRec env, (tally_follows_verdict F env st id ar hrun hid har).1 hv, rfl, rfl, Int.le_refl _⟩

/-- regression (was `missed_votes_record_lifts_release_time`): `a3` found guilty at time 600 (release
    time one day) misses votes; the BeginBlock of the next block leaves its record alone and a
    RELEASE two seconds after the verdict is refused -/
example :
    let st : State := { sampleState [] with susp := [("a3", ⟨2, 6, 600, 0, none⟩)] }
    let st1 := step st (.beginBlock o50 7 601 [("a3", 1)] prev4)
    st1 = st ∧ (txRelease st1 1 "a3" 8 602 true true).1 = .tooEarly := by
  simp only [step]
  rw [beginBlock_of_sorted _ _ _ _ _ _ (by decide)]
  decide

example : -- a release after the day has passed succeeds, one second earlier it does not
    let st : State := { sampleState [] with susp := [("a3", ⟨2, 6, 600, 0, none⟩)] }
    (txRelease st 1 "a3" 9 87000 true true).1 = .tooEarly ∧ (txRelease st 1 "a3" 9 87001 true true).1 = .ok := by decide

/-! ## 8. the tally does not depend on the map order -/

/-- `ExecuteAllegationTracker` and `CleanTracker` range over Go maps; both sort the keys first, so
    the result is the same for every order in which the runtime produces them (any two
    permutations of the tracker keys) -/
theorem tally_order_independent (F : FloatOps) (env : Env) (st : State) (c₁ c₂ t₁ t₂ : List ReqId)
    (hc₁ : c₁.Perm st.tracker) (hc₂ : c₂.Perm st.tracker) (ht₁ : t₁.Perm st.tracker) (ht₂ : t₂.Perm st.tracker) :
    tallyWith F env c₁ t₁ st = tallyWith F env c₂ t₂ st :=
  tallyWith_perm F env (hc₁.trans hc₂.symm) (ht₁.trans ht₂.symm) st

example : ["r2", "r1"].Perm ["r1", "r2"] := by decide

/-! ## 9. a frozen validator drops out of the validator set -/

/-- a validator that is frozen when a block begins is not elected at that block's end, at every
    height (full strength since 7eb2406: the frozen records are loaded before the early return
    of the missed-votes check), and once popped its status record says inactive -/
theorem guilty_dropped_from_set (minSelf top h : Int) (pop : List (Addr × Int))
    (suspAfterBegin : List (Addr × Susp)) (vstat : List (Addr × VStat)) (a : Addr) (s : Susp)
    (hl : alookup a suspAfterBegin = some s) (hf : isFrozenRec s = true) :
    let r := elect minSelf top h (malOf suspAfterBegin) pop vstat
    a ∉ r.elected ∧ (a ∈ pop.map (·.1) → ∃ vs, alookup a r.vstat = some vs ∧ vs.active = false) :=
  elect_mal minSelf top h (malOf suspAfterBegin) pop vstat a (mem_frozenSet hl hf)

/-- regression (was `frozen_elected_inside_first_window`): `a3` frozen at height 3 is skipped at
    height 4 although the missed-votes window is 5 blocks -/
example :
    let susp : List (Addr × Susp) := [("a3", ⟨2, 3, 300, 0, none⟩)]
    let r := elect 5 4 4 (malOf susp) [("a3", 15), ("a0", 10), ("a1", 10), ("a2", 10)] (sampleState []).vstat
    r.elected = ["a0", "a1", "a2"] ∧ r.cnt = 3 ∧ alookup "a3" r.vstat = some ⟨false, 4⟩ := by decide

end OLP.Props.C19

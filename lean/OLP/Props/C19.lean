/-
  C19 — Allegations: verdicts follow votes, frozen stays frozen, penalties bounded.

  "A validator is declared guilty or innocent only when the yes or no votes of distinct currently
  active validators cross the configured share, each active validator counting at most once per
  allegation; a guilty validator is frozen, loses exactly the configured percentage of its stake of
  which at most the penalty goes to the bounty program, drops out of the validator set, and can
  neither stake, unstake nor withdraw until it is released after the configured release time.
  Accounts that are not active validators cannot open or vote on allegations."

  Theorems are over the model `OLP.Alleg` (a port of the Go code as written, tied to it by the
  `alleg` correspondence engine).  Where the code does not satisfy a clause the full statement is
  kept in a comment, a `_partial` theorem carries exactly the hypothesis the code forces, and a
  concrete counterexample is proved; the harness replays each of them on the implementation
  (harness/apph/alleg_script.go, `allegWitnesses`).

  Float assumption (`Exact F`): the `float64` / `big.Float` expressions of the tally agree with
  exact rationals on the arguments they are evaluated at.  The harness evaluates the Go
  expressions on every tally and reports where that fails: it does fail for
  `no/required > 1 - pct/dec` at exact ties (e.g. 1/5 > 1 - 80/100), see
  `innocent_without_crossing_if_float_inexact`.
-/
import OLP.Alleg.Lemmas

namespace OLP.Props.C19
open OLP OLP.Alleg

/-! ## sample world for the non-vacuity examples and the counterexamples -/

/-- options: vote share 50 %, allegation share 50 %, penalty 30 %, bounty 50 %, release after 1 day,
    missed-votes window 3 blocks / 2 votes -/
def o50 : Opts := ⟨2, 3, 30, 100, 50, 100, 1, 50, 100, 50, 100⟩

def prev4 : List (Addr × ValRec) := [("a0", ⟨"s0", 10⟩), ("a1", ⟨"s1", 10⟩), ("a2", ⟨"s2", 10⟩), ("a3", ⟨"s3", 15⟩)]

/-- four active validators, one open request `r1` by `a0` against `a3` with the given votes -/
def sampleState (votes : List Vote) : State :=
  { State.empty with
    reqs := [("r1", ⟨"a0", "a3", 5, 1, votes⟩)], committed := ["r1"], tracker := ["r1"],
    vstat := [("a0", ⟨true, 2⟩), ("a1", ⟨true, 2⟩), ("a2", ⟨true, 2⟩), ("a3", ⟨true, 2⟩)],
    total := [("a3", 15)], vd := [(("a3", "s3"), 15)], de := [("s3", 15)], db := [("s3", 4)] }

def env4 (h t : Int) : Env := ⟨h, t, 4, o50, prev4⟩

/-! ## 1. verdict iff threshold -/

/-- the decision of the tally loop in exact rationals: with `required = ⌈active·vote% ⌉`,
    guilty ⇔ yes/required > alleg%, innocent ⇔ ¬guilty ∧ no/required > 1 − alleg%, else no verdict -/
theorem verdict_iff_threshold (F : FloatOps) (hF : Exact F) (env : Env) (ar : Request) :
    let o := env.opts
    let required := (env.active * o.votePct + o.voteDec - 1) / o.voteDec
    let yes := countChoice 1 ar.votes
    let no := countChoice 2 ar.votes
    (verdictOf F env ar = .guilty ↔ yes * o.allegDec > o.allegPct * required) ∧
    (verdictOf F env ar = .innocent ↔
        ¬ (yes * o.allegDec > o.allegPct * required) ∧ no * o.allegDec > (o.allegDec - o.allegPct) * required) ∧
    (verdictOf F env ar = .none ↔
        ¬ (yes * o.allegDec > o.allegPct * required) ∧ ¬ (no * o.allegDec > (o.allegDec - o.allegPct) * required)) := by
  simp only
  rw [verdictOf_of_exact hF]
  have hg := verdictOf_exact_guilty env ar
  have hi := verdictOf_exact_innocent env ar
  refine ⟨hg, hi, ?_⟩
  cases hv : verdictOf exactOps env ar with
  | guilty => simp [hg.mp hv]
  | innocent => simp [(hi.mp hv).2]
  | none =>
    simp only [true_iff]
    constructor
    · intro h; rw [hg.mpr h] at hv; cases hv
    · intro h
      by_cases hgu : countChoice 1 ar.votes * env.opts.allegDec >
          env.opts.allegPct * ((env.active * env.opts.votePct + env.opts.voteDec - 1) / env.opts.voteDec)
      · rw [hg.mpr hgu] at hv; cases hv
      · rw [hi.mpr ⟨hgu, h⟩] at hv; cases hv

/-- `required` is the ceiling of `active·votePct / voteDec` -/
theorem required_is_ceiling (active : Int) (o : Opts) (hd : 0 < o.voteDec) :
    let r := exactOps.required active o
    o.voteDec * (r - 1) < active * o.votePct ∧ active * o.votePct ≤ o.voteDec * r :=
  required_is_ceil active o hd

/-- at the block end the verdict is what happens to the request: a guilty verdict writes the
    byzantine-fault record of this block for the accused; an innocent verdict (or a guilty one
    against an address with a validator record) removes the request; no verdict leaves it as it was -/
theorem tally_follows_verdict (F : FloatOps) (env : Env) (st : State) (id : ReqId) (ar : Request)
    (hact : env.active ≠ 0) (hid : id ∈ st.tracker) (har : alookup id (cleanTracker st).reqs = some ar) :
    (verdictOf F env ar = .guilty → alookup ar.accused (tally F env st).susp = some (byzRec env)) ∧
    (verdictOf F env ar = .none → alookup id (tally F env st).reqs = some ar) ∧
    (verdictOf F env ar = .innocent ∨ (verdictOf F env ar = .guilty ∧ (alookup ar.accused env.prev).isSome) →
        alookup id (tally F env st).reqs = none) := by
  obtain ⟨hs, hr⟩ := tallyWith_eq F env st.tracker st.tracker st hact
  have hid' : id ∈ sortIds st.tracker := mem_sortIds.mpr hid
  refine ⟨fun hv => ?_, fun hv => ?_, fun hv => ?_⟩
  · unfold tally; rw [hs]; exact tallyFold_guilty F env _ _ id ar hid' har hv
  · unfold tally; rw [hr]; exact tallyFold_none_keeps F env _ _ id ar har hv
  · unfold tally; rw [hr]; exact tallyFold_decided_erases F env _ _ id ar hid' har hv

/-- … and ONLY then: the tally changes the suspicious-validator record of an address only through
    a guilty verdict on a tracked request against it -/
theorem guilty_only_by_verdict (F : FloatOps) (env : Env) (st : State) (a : Addr)
    (h : alookup a (tally F env st).susp ≠ alookup a st.susp) :
    env.active ≠ 0 ∧ ∃ id ar, id ∈ st.tracker ∧ alookup id (cleanTracker st).reqs = some ar ∧ ar.accused = a ∧
      verdictOf F env ar = .guilty := by
  by_cases hact : env.active = 0
  · unfold tally at h; rw [tallyWith_inactive F env _ _ st hact] at h; exact absurd rfl h
  · refine ⟨hact, ?_⟩
    unfold tally at h
    rw [(tallyWith_eq F env st.tracker st.tracker st hact).1] at h
    have h' : alookup a ((sortIds st.tracker).foldl (tallyOne F env) (cleanTrackerWith st.tracker st, [])).1.susp ≠
        alookup a (cleanTrackerWith st.tracker st, ([] : List ReqId)).1.susp := by
      simp only [(cleanTrackerWith_fields st.tracker st).1]; exact h
    obtain ⟨id, ar, hid, har, hacc, hv⟩ := tallyFold_susp_change F env _ _ a h'
    exact ⟨id, ar, mem_sortIds.mp hid, har, hacc, hv⟩

/-- without active validators nothing is decided -/
theorem no_active_no_verdict (F : FloatOps) (env : Env) (st : State) (h : env.active = 0) : tally F env st = st :=
  tallyWith_inactive F env _ _ st h

/-
  FULL STATEMENT (false of the code): every tracked request keeps its place until its own votes
  decide it:  `∀ id ∈ st.tracker, alookup id (cleanTracker st).reqs = alookup id st.reqs`.
  `CleanTracker` builds its id list with `make([]string, len)` followed by `append`, i.e. with `len`
  leading empty strings: a request stored under the EMPTY id is its own duplicate and is deleted,
  whatever its votes; the second request against one address (two allegations in one block — the
  existence check iterates committed keys only) is deleted as well.
-/
theorem cleanup_keeps_requests_partial (st : State) (hnd : st.tracker.Nodup)
    (hempty : alookup "" st.reqs = none)
    (hinj : ∀ i j a b, alookup i st.reqs = some a → alookup j st.reqs = some b → a.accused = b.accused → i = j) :
    cleanTracker st = st :=
  cleanTrackerWith_noop st.tracker st hnd hempty hinj

/-- counterexample: three yes votes of the four active validators (required 2, share 50 %) against
    `a3` under the empty request id: no record is written for `a3`, the request is gone -/
theorem empty_id_request_dropped :
    let st : State := { sampleState [⟨"a0", 1⟩, ⟨"a1", 1⟩, ⟨"a2", 1⟩] with
      reqs := [("", ⟨"a0", "a3", 5, 1, [⟨"a0", 1⟩, ⟨"a1", 1⟩, ⟨"a2", 1⟩]⟩)], committed := [""], tracker := [""] }
    verdictOf exactOps (env4 6 600) ⟨"a0", "a3", 5, 1, [⟨"a0", 1⟩, ⟨"a1", 1⟩, ⟨"a2", 1⟩]⟩ = .guilty ∧
    alookup "" (tally exactOps (env4 6 600) st).reqs = none ∧
    isFrozen (tally exactOps (env4 6 600) st) "a3" = false := by
  simp only [tally]
  rw [tallyWith_core _ _ _ _ _ (by decide) (by decide)]
  decide

example : -- the hypotheses of `cleanup_keeps_requests_partial` and `tally_follows_verdict` are satisfiable
    (sampleState [⟨"a0", 1⟩, ⟨"a1", 1⟩]).tracker.Nodup ∧ alookup "" (sampleState [⟨"a0", 1⟩, ⟨"a1", 1⟩]).reqs = none ∧
    verdictOf exactOps (env4 6 600) ⟨"a0", "a3", 5, 1, [⟨"a0", 1⟩, ⟨"a1", 1⟩]⟩ = .guilty ∧
    verdictOf exactOps (env4 6 600) ⟨"a0", "a3", 5, 1, [⟨"a0", 1⟩, ⟨"a1", 2⟩]⟩ = .none ∧
    verdictOf exactOps (env4 6 600) ⟨"a0", "a3", 5, 1, [⟨"a1", 2⟩, ⟨"a2", 2⟩]⟩ = .innocent := by decide

/-
  FULL STATEMENT (false of the code, through IEEE arithmetic): the innocent verdict needs
  `no/required > 1 − pct/dec` in exact rationals.  The code computes `1 - float64(pct)/float64(dec)`;
  for pct/dec = 80/100 that is 0.19999999999999996, so ONE no vote of five required (exactly 20 %)
  acquits.  Stated for any `FloatOps` that returns what the Go runtime returns at that point (the
  harness evaluates the Go expression and replays the case on the implementation).
-/
theorem innocent_without_crossing_if_float_inexact (F : FloatOps) (env : Env) (ar : Request)
    (hopts : env.opts.allegPct = 80 ∧ env.opts.allegDec = 100)
    (hreq : F.required env.active env.opts = 5) (hno : countChoice 2 ar.votes = 1) (hyes : countChoice 1 ar.votes = 0)
    (hg : F.guiltyGt 0 5 env.opts = false)
    (hfloat : F.innocentGt 1 5 env.opts = true) :   -- float64: 1/5 > 1 - 80/100
    verdictOf F env ar = .innocent ∧
    ¬ (countChoice 2 ar.votes * env.opts.allegDec > (env.opts.allegDec - env.opts.allegPct) * 5) := by
  constructor
  · unfold verdictOf; simp [hreq, hno, hyes, hg, hfloat]
  · rw [hno, hopts.1, hopts.2]; decide

/-! ## 2. one vote per validator -/

/-- in every state reachable from one without double votes (the empty state in particular), no
    request holds two votes of one address — for every history of operations -/
theorem one_vote_per_validator (st : State) (ops : List Op) (h : VotesNodup st) : VotesNodup (run st ops) :=
  run_votesNodup st ops h

theorem one_vote_per_validator_from_genesis (ops : List Op) : VotesNodup (run State.empty ops) :=
  run_votesNodup State.empty ops (by intro p hp; simp [State.empty] at hp)

/-- a second vote of the same address is refused and changes nothing -/
theorem second_vote_rejected (st : State) (id : ReqId) (ar : Request) (voter : Addr) (c : Int) (sig fee : Bool)
    (har : alookup id st.reqs = some ar) (hvoted : voter ∈ ar.votes.map (·.addr)) :
    (txVote st id voter c sig fee).1 ≠ .ok ∧ (txVote st id voter c sig fee).2 = st := by
  have hany : ar.votes.any (fun v => v.addr == voter) = true := by
    obtain ⟨v, hv, rfl⟩ := List.mem_map.mp hvoted
    exact List.any_eq_true.mpr ⟨v, hv, by simp⟩
  have hc : (castVote st id voter c).1 ≠ .ok ∧ (castVote st id voter c).2 = st := by
    unfold castVote
    rw [har]
    simp only [hany, if_true]
    repeat' split
    all_goals simp
  have hr : (runVote st id voter c).1 ≠ .ok ∧ (runVote st id voter c).2 = st := by
    unfold runVote
    repeat' split
    all_goals first | exact hc | simp
  unfold txVote withAdmission
  obtain ⟨h1, h2⟩ := hr
  generalize runVote st id voter c = r at *
  obtain ⟨res, st'⟩ := r
  cases sig <;> cases fee <;> cases res <;> simp_all

/-- so each voter adds at most one to the two counts of the tally -/
theorem counts_bounded_by_voters (ar : Request) :
    countChoice 1 ar.votes + countChoice 2 ar.votes ≤ (ar.votes.length : Int) := counts_le_voters ar.votes

example : VotesNodup (sampleState [⟨"a0", 1⟩, ⟨"a1", 2⟩]) ∧
    (txVote (sampleState [⟨"a0", 1⟩, ⟨"a1", 2⟩]) "r1" "a1" 1 true true).1 = .dupVote := by
  constructor
  · intro p hp; simp [sampleState, State.empty] at hp; subst hp; decide
  · decide

/-! ## 3. only active validators open or vote -/

theorem only_active_can_allege_or_vote (st st' : State) :
    (∀ h rep acc id bh sig fee, txAllege st h rep acc id bh sig fee = (.ok, st') →
        isActive st rep = true ∧ sig = true ∧ fee = true) ∧
    (∀ id voter c sig fee, txVote st id voter c sig fee = (.ok, st') →
        isActive st voter = true ∧ isFrozen st voter = false ∧ sig = true ∧ fee = true) := by
  constructor
  · intro h rep acc id bh sig fee hok
    obtain ⟨hr, hs, hf⟩ := withAdmission_ok hok
    refine ⟨?_, hs, hf⟩
    unfold runAllege at hr
    split at hr
    · cases hr
    · split at hr
      · cases hr
      · split at hr
        · cases hr
        · rename_i hna; simpa using hna
  · intro id voter c sig fee hok
    obtain ⟨hr, hs, hf⟩ := withAdmission_ok hok
    unfold runVote at hr
    split at hr
    · cases hr
    · rename_i hnf
      split at hr
      · cases hr
      · rename_i hna
        exact ⟨by simpa using hna, by simpa using hnf, hs, hf⟩

/-- a failed attempt leaves the state as it was -/
theorem rejected_allege_or_vote_is_noop (st : State) :
    (∀ h rep acc id bh sig fee, (txAllege st h rep acc id bh sig fee).1 ≠ .ok → (txAllege st h rep acc id bh sig fee).2 = st) ∧
    (∀ id voter c sig fee, (txVote st id voter c sig fee).1 ≠ .ok → (txVote st id voter c sig fee).2 = st) := by
  constructor
  · intro h rep acc id bh sig fee hne
    unfold txAllege withAdmission at *
    generalize runAllege st h rep acc id bh = r at *
    obtain ⟨res, st'⟩ := r
    cases sig <;> cases fee <;> cases res <;> simp_all
  · intro id voter c sig fee hne
    unfold txVote withAdmission at *
    generalize runVote st id voter c = r at *
    obtain ⟨res, st'⟩ := r
    cases sig <;> cases fee <;> cases res <;> simp_all

example : -- an active validator opens and votes; an address without an active status record cannot
    (txAllege (sampleState []) 6 "a1" "a2" "r2" 5 true true).1 = .ok ∧
    (txAllege (sampleState []) 6 "x9" "a2" "r2" 5 true true).1 = .nonActive ∧
    (txVote (sampleState []) "r1" "x9" 1 true true).1 = .nonActive := by decide

/-
  FULL STATEMENT (false of the code; suspect S25 CONFIRMED on the implementation): the verdict is
  computed from the votes of validators that are active WHEN THE TALLY RUNS:
      verdictOf F env ar = verdictOf F env { ar with votes := ar.votes.filter (isActive st ·.addr) }.
  The tally counts every stored vote; a vote stays counted after its voter left the active set.
-/
theorem votes_are_of_currently_active_partial (F : FloatOps) (env : Env) (st : State) (ar : Request)
    (hall : ∀ v, v ∈ ar.votes → isActive st v.addr = true) :   -- voter set unchanged since the votes
    verdictOf F env ar = verdictOf F env { ar with votes := ar.votes.filter fun v => isActive st v.addr } := by
  rw [filter_active_self st ar.votes hall]

/-- counterexample (the replayed witness): `a0` voted yes and then left the active set (3 active,
    required 2); one more yes vote convicts `a3` although only one currently active validator
    voted yes, which is not more than 50 % of 2 -/
theorem departed_voter_still_counts :
    let st : State := { sampleState [⟨"a0", 1⟩, ⟨"a1", 1⟩] with
      vstat := [("a0", ⟨false, 5⟩), ("a1", ⟨true, 2⟩), ("a2", ⟨true, 2⟩), ("a3", ⟨true, 2⟩)] }
    let env : Env := ⟨6, 600, 3, o50, prev4⟩
    let ar : Request := ⟨"a0", "a3", 5, 1, [⟨"a0", 1⟩, ⟨"a1", 1⟩]⟩
    verdictOf exactOps env ar = .guilty ∧
    verdictOf exactOps env { ar with votes := ar.votes.filter fun v => isActive st v.addr } = .none := by decide

/-! ## 4. guilty ⇒ frozen, until released -/

/-- a guilty verdict freezes the accused, and a frozen validator stays frozen through every
    history that contains no RELEASE of it (allegations, votes, staking operations, BeginBlock
    freeze checks, elections, further tallies, commits) -/
theorem guilty_frozen_until_release (F : FloatOps) (env : Env) (st : State) (id : ReqId) (ar : Request)
    (hact : env.active ≠ 0) (hid : id ∈ st.tracker) (har : alookup id (cleanTracker st).reqs = some ar)
    (hv : verdictOf F env ar = .guilty) (ops : List Op) (hnr : ∀ op, op ∈ ops → NotRelease ar.accused op) :
    isFrozen (tally F env st) ar.accused = true ∧ isFrozen (run (tally F env st) ops) ar.accused = true := by
  have h1 : isFrozen (tally F env st) ar.accused = true := by
    have := (tally_follows_verdict F env st id ar hact hid har).1 hv
    unfold isFrozen; rw [this]; rfl
  exact ⟨h1, run_frozen_mono _ ops ar.accused hnr h1⟩

example : -- a conviction at height 6; a later vote, BeginBlock and commit do not thaw
    isFrozen (tally exactOps (env4 6 600) (sampleState [⟨"a0", 1⟩, ⟨"a1", 1⟩])) "a3" = true := by
  simp only [tally]
  rw [tallyWith_core _ _ _ _ _ (by decide) (by decide)]
  decide

/-! ## 5. frozen ⇒ no stake, unstake, withdraw -/

/-- the three staking handlers refuse a transaction that NAMES a frozen validator, and change
    nothing -/
theorem frozen_cannot_stake_unstake_withdraw (st : State) (val : Addr) (hf : isFrozen st val = true)
    (stakeAddr : Addr) (amt : Int) :
    runStake st val stakeAddr amt = (.frozen, st) ∧ runUnstake st val stakeAddr amt = (.frozen, st) ∧
    runWithdraw st val stakeAddr amt = (.frozen, st) ∧
    (∀ kind, stakingGuard st kind val = .frozen) := by
  refine ⟨?_, ?_, ?_, ?_⟩
  · unfold runStake; simp [hf]
  · unfold runUnstake; simp [hf]
  · unfold runWithdraw; simp [hf]
  · intro kind; unfold stakingGuard; simp [hf]

/-- the two clauses together: from the guilty verdict on, through every history without a RELEASE of
    the convicted validator, each of the three staking transactions naming it is refused -/
theorem guilty_cannot_stake_until_release (F : FloatOps) (env : Env) (st : State) (id : ReqId) (ar : Request)
    (hact : env.active ≠ 0) (hid : id ∈ st.tracker) (har : alookup id (cleanTracker st).reqs = some ar)
    (hv : verdictOf F env ar = .guilty) (ops : List Op) (hnr : ∀ op, op ∈ ops → NotRelease ar.accused op)
    (stakeAddr : Addr) (amt : Int) :
    let s := run (tally F env st) ops
    runStake s ar.accused stakeAddr amt = (.frozen, s) ∧ runUnstake s ar.accused stakeAddr amt = (.frozen, s) ∧
    runWithdraw s ar.accused stakeAddr amt = (.frozen, s) := by
  have hf := (guilty_frozen_until_release F env st id ar hact hid har hv ops hnr).2
  obtain ⟨h1, h2, h3, _⟩ := frozen_cannot_stake_unstake_withdraw _ ar.accused hf stakeAddr amt
  exact ⟨h1, h2, h3⟩

/-
  FULL STATEMENT (false of the code): while validator `v` with stake account `s` is frozen, no
  WITHDRAW lowers the matured stake of `s`:
      isFrozen st v → (∀ val amt, getI (runWithdraw st val s amt).2.db s = getI st.db s).
  The guard looks at the `ValidatorAddress` field of the message, the money at `StakeAddress`:
  naming any address that is not a frozen validator (it must co-sign, so any second key of the
  owner does) passes the guard.  The theorem above is the `_partial` form ("the transaction names
  the frozen validator").
-/
theorem frozen_owner_withdraws_naming_other_address :
    let st : State := { sampleState [] with susp := [("a3", ⟨2, 6, 600, 0, none⟩)] }
    isFrozen st "a3" = true ∧ runWithdraw st "a3" "s3" 4 = (.frozen, st) ∧
    (runWithdraw st "x9" "s3" 4).1 = .ok ∧ getI (runWithdraw st "x9" "s3" 4).2.db "s3" = 0 := by decide

/-! ## 6. the penalty -/

/-- a guilty verdict against a validator with stake `s`:
    * the penalty `P` is `s·base%` rounded to the nearest integer (half up), `0 ≤ P ≤ s`;
    * the validator's stake record falls by exactly `P`; so do the two delegation records of its
      stake account when they cover `P` (they are the same amount in every state the staking
      handlers produce: C11);
    * the bounty address gains `⌊P·10¹⁸·bounty%⌋`, which is at most the penalty — and nothing if the
      debit failed;
    * the power update of `P` is scheduled for the next block. -/
theorem penalty_exact_and_bounty_le_penalty (F : FloatOps) (hF : Exact F) (env : Env) (st : State)
    (del : List ReqId) (id : ReqId) (ar : Request) (v : ValRec)
    (har : alookup id st.reqs = some ar) (hv : verdictOf F env ar = .guilty)
    (hp : alookup ar.accused env.prev = some v)
    (hbd : 0 < env.opts.penBaseDec) (hb0 : 0 ≤ env.opts.penBasePct) (hb1 : env.opts.penBasePct ≤ env.opts.penBaseDec)
    (hcd : 0 < env.opts.bountyDec) (hc0 : 0 ≤ env.opts.bountyPct) (hc1 : env.opts.bountyPct ≤ env.opts.bountyDec)
    (hs : 0 ≤ getI st.total ar.accused) :
    let s := getI st.total ar.accused
    let P := (2 * s * env.opts.penBasePct + env.opts.penBaseDec) / (2 * env.opts.penBaseDec)
    let st' := (tallyOne F env (st, del) id).1
    (2 * env.opts.penBaseDec * P ≤ 2 * s * env.opts.penBasePct + env.opts.penBaseDec ∧
      2 * s * env.opts.penBasePct + env.opts.penBaseDec < 2 * env.opts.penBaseDec * (P + 1)) ∧
    (0 ≤ P ∧ P ≤ s) ∧
    getI st'.total ar.accused = s - P ∧
    (0 ≤ st'.bounty - st.bounty ∧ st'.bounty - st.bounty ≤ P * e18) ∧
    (P ≤ getI st.vd (ar.accused, v.stakeAddr) → P ≤ getI st.de v.stakeAddr →
        getI st'.vd (ar.accused, v.stakeAddr) = getI st.vd (ar.accused, v.stakeAddr) - P ∧
        getI st'.de v.stakeAddr = getI st.de v.stakeAddr - P ∧
        st'.bounty = st.bounty + P * e18 * env.opts.bountyPct / env.opts.bountyDec) ∧
    alookup (env.height, ar.accused) st'.delayed = some P := by
  simp only
  have hP : F.penalty (getI st.total ar.accused) env.opts =
      (2 * getI st.total ar.accused * env.opts.penBasePct + env.opts.penBaseDec) / (2 * env.opts.penBaseDec) := by
    rw [hF.penalty]; rfl
  have hbounds := penalty_bounds (getI st.total ar.accused) env.opts.penBasePct env.opts.penBaseDec hbd hs hb0 hb1
  have hbty := bounty_bounds _ env.opts.bountyPct env.opts.bountyDec hcd hbounds.1 hc0 hc1
  rw [tallyOne_guilty_eq F env st del id ar v har hv hp]
  simp only [hP]
  generalize hPd : (2 * getI st.total ar.accused * env.opts.penBasePct + env.opts.penBaseDec) / (2 * env.opts.penBaseDec) = P at *
  refine ⟨by rw [← hPd]; exact penalty_round _ _ _ hbd, hbounds, ?_, ?_, ?_, ?_⟩
  · -- the stake record
    have ht := minusFromAddress_total { st with susp := upsert st.susp ar.accused (byzRec env) } ar.accused v.stakeAddr P hbounds.2
    split
    · simpa using ht
    · simpa using ht
  · -- the bounty is at most the penalty
    have hb := minusFromAddress_bounty { st with susp := upsert st.susp ar.accused (byzRec env) } ar.accused v.stakeAddr P
    split
    · simp only [hb]
      constructor <;> omega
    · simp only [hb]
      have := Int.mul_nonneg hbounds.1 (show (0 : Int) ≤ e18 by decide)
      constructor <;> omega
  · -- all three records and the exact bounty when the debit goes through
    intro h2 h3
    rw [minusFromAddress_ok { st with susp := upsert st.susp ar.accused (byzRec env) } ar.accused v.stakeAddr P hbounds.2 h2 h3]
    simp [getI]
  · split <;> simp

example : -- stake 15, penalty 30 % = 4.5, rounded half up to 5; bounty 50 % of 5·10¹⁸
    let r := (tallyOne exactOps (env4 6 600) (sampleState [⟨"a0", 1⟩, ⟨"a1", 1⟩], []) "r1").1
    getI r.total "a3" = 10 ∧ getI r.vd ("a3", "s3") = 10 ∧ getI r.de "s3" = 10 ∧
    r.bounty = 2500000000000000000 ∧ alookup (6, "a3") r.delayed = some 5 := by decide

/-! ## 7. release only after the release time -/

/-- `HandleRelease` succeeds on a byzantine-fault record only strictly after
    `FrozenAt + ValidatorReleaseTime` days, and what it writes is a released record -/
theorem release_only_after_time (st st' : State) (days : Int) (a : Addr) (h now t0 : Int) (sig fee : Bool)
    (hb : ByzSince st a t0) (hok : txRelease st days a h now sig fee = (.ok, st')) :
    now > t0 + 86400 * days := by
  obtain ⟨hr, _, _⟩ := withAdmission_ok hok
  exact handleRelease_ok_time st st' days a h now t0 hb hr

/-
  FULL STATEMENT (false of the code): a validator found guilty at time `t0` is released only after
  `t0 + days`:  for every history `ops` after the verdict that contains no RELEASE of `a`,
      txRelease (run st ops) days a h now … = (.ok, _) → now > t0 + 86400·days.
  `CheckMaliciousValidators` re-records a validator that is short of block votes as
  MISSED_REQUIRED_VOTES with `CreateSuspiciousValidator`, which OVERWRITES the byzantine-fault
  record (the guilty validator is still "active" in the block after the verdict); that status has
  no waiting time.  The hypothesis the code forces: the freeze check never finds `a` short of votes.
-/
theorem release_only_after_time_partial (st : State) (a : Addr) (t0 : Int) (ops : List Op)
    (hb : ByzSince st a t0)
    (hops : ∀ op, op ∈ ops → NotRelease a op ∧ NoMissed a op ∧ TimeFrom t0 op)
    (st' : State) (days h now : Int) (sig fee : Bool)
    (hok : txRelease (run st ops) days a h now sig fee = (.ok, st')) :
    now > t0 + 86400 * days :=
  release_only_after_time (run st ops) st' days a h now t0 sig fee (run_byzSince st ops a t0 hops hb) hok

/-- counterexample (the replayed witness): `a3` found guilty at time 600 (release time one day)
    misses votes; the BeginBlock of the next block re-records it, and a RELEASE two seconds after
    the verdict succeeds -/
theorem missed_votes_record_lifts_release_time :
    let st : State := { sampleState [] with susp := [("a3", ⟨2, 6, 600, 0, none⟩)] }
    let st1 := step st (.beginBlock o50 7 601 [("a3", 1)] prev4)
    ByzSince st "a3" 600 ∧
    (txRelease st 1 "a3" 8 602 true true).1 = .tooEarly ∧
    (txRelease st1 1 "a3" 8 602 true true).1 = .ok ∧
    isFrozen (txRelease st1 1 "a3" 8 602 true true).2 "a3" = false := by
  refine ⟨⟨⟨2, 6, 600, 0, none⟩, by decide, rfl, rfl, by decide⟩, by decide, ?_, ?_⟩
  all_goals
    simp only [step]
    rw [beginBlock_of_sorted _ _ _ _ _ _ (by decide)]
    decide

example : -- a release after the day has passed succeeds, one second earlier it does not
    let st : State := { sampleState [] with susp := [("a3", ⟨2, 6, 600, 0, none⟩)] }
    (txRelease st 1 "a3" 9 87000 true true).1 = .tooEarly ∧ (txRelease st 1 "a3" 9 87001 true true).1 = .ok := by decide

/-! ## 8. the tally does not depend on the map order -/

/-- `ExecuteAllegationTracker` and `CleanTracker` range over Go maps; both sort the keys first, so
    the result is the same for every order in which the runtime produces them (any two
    permutations of the tracker keys) -/
theorem tally_order_independent (F : FloatOps) (env : Env) (st : State) (c₁ c₂ t₁ t₂ : List ReqId)
    (hc₁ : c₁.Perm st.tracker) (hc₂ : c₂.Perm st.tracker) (ht₁ : t₁.Perm st.tracker) (ht₂ : t₂.Perm st.tracker) :
    tallyWith F env c₁ t₁ st = tallyWith F env c₂ t₂ st :=
  tallyWith_perm F env (hc₁.trans hc₂.symm) (ht₁.trans ht₂.symm) st

example : ["r2", "r1"].Perm ["r1", "r2"] := by decide

/-! ## 9. a frozen validator drops out of the validator set -/

/-
  FULL STATEMENT (false of the code): a validator that is frozen when a block begins is not
  elected at that block's end.  `CheckMaliciousValidators` returns before it fetches the frozen
  records while `height ≤ BlockVotesDiff`, so inside the first window the election knows no
  malicious validator.
-/
theorem guilty_dropped_from_set_partial (minSelf top h diff : Int) (pop : List (Addr × Int))
    (suspAfterBegin : List (Addr × Susp)) (vstat : List (Addr × VStat)) (a : Addr) (s : Susp)
    (hwin : diff < h)                                   -- forced: past the first missed-votes window
    (hl : alookup a suspAfterBegin = some s) (hf : isFrozenRec s = true) :
    let r := elect minSelf top h (malOf h diff suspAfterBegin) pop vstat
    a ∉ r.elected ∧ (a ∈ pop.map (·.1) → ∃ vs, alookup a r.vstat = some vs ∧ vs.active = false) := by
  have hm : (malOf h diff suspAfterBegin).contains a = true := by
    unfold malOf
    have : ¬ h ≤ diff := by omega
    simp only [this, if_false]
    exact mem_frozenSet hl hf
  exact elect_mal minSelf top h (malOf h diff suspAfterBegin) pop vstat a hm

/-- counterexample (the replayed witness): window 5, `a3` frozen at height 3, elected again at 4 -/
theorem frozen_elected_inside_first_window :
    let susp : List (Addr × Susp) := [("a3", ⟨2, 3, 300, 0, none⟩)]
    let r := elect 5 4 4 (malOf 4 5 susp) [("a3", 15), ("a0", 10), ("a1", 10), ("a2", 10)] (sampleState []).vstat
    "a3" ∈ r.elected ∧ r.cnt = 4 := by decide

example : -- past the window the same validator is skipped and its status record says inactive
    let susp : List (Addr × Susp) := [("a3", ⟨2, 3, 300, 0, none⟩)]
    let r := elect 5 4 6 (malOf 6 5 susp) [("a3", 15), ("a0", 10), ("a1", 10), ("a2", 10)] (sampleState []).vstat
    r.elected = ["a0", "a1", "a2"] ∧ r.cnt = 3 ∧ alookup "a3" r.vstat = some ⟨false, 6⟩ := by decide

end OLP.Props.C19

/-
  C09 — The layered state store behaves like a transactional, versioned map.

  Property theorems only (helper lemmas live in OLP/KV/Refine.lean).  All statements are
  about the executable model `OLP.KV` (OLP/KV/Model.lean), which the `kv` correspondence
  engine compares with the real `storage.State` on every run.

  `view c s : K → Option V` is what a reader of the state sees; `baseView` is what remains when
  the open transaction session is dropped; `upd f k x` is the point-wise update.
-/
import OLP.KV.Refine

namespace OLP.Props.C09
open OLP OLP.KV

variable {K V : Type} [DecidableEq K] [DecidableEq V] (c : Cfg K V)

/-! ## 1. Reads return the most recent write in scope (session ▹ block ▹ last write-out) -/

theorem get_returns_view (s : St K V) (hm : s.metered = false) (k : K) :
    s.get c k = (s, .val (view c s k)) := get_unmetered c s hm k

theorem has_returns_view (s : St K V) (hm : s.metered = false) (k : K) :
    s.has c k = (s, (view c s k).isSome) := has_unmetered c s hm k

/-- iteration enumerates the keys of the tree in range that are not deleted in an overlay and
    reports for each the value a `get` would return -/
theorem iter_returns_view (s : St K V) (hm : s.metered = false) (lo hi : Option K) (asc : Bool) :
    s.iter c lo hi asc =
      (s, ((s.tree.rangeKeys c lo hi asc).filter (fun k => !s.deleted c k)).map
            (fun k => (k, view c s k))) := iter_unmetered c s hm lo hi asc

theorem view_set (s : St K V) (hm : s.metered = false) (k : K) (v : V) (hv : v ≠ c.tomb) :
    (s.set c k v).2 = .ok ∧ view c (s.set c k v).1 = upd (view c s) k (some v) :=
  view_set_gen c s hm k v hv

/-- the TOMBSTONE marker is reserved: a write of exactly that value is refused with
    `ErrReservedValue` and changes nothing (before the fix "refuse the tombstone marker as a value"
    it was silently turned into a delete, the former known finding KF-C09-1) -/
theorem set_tombstone_refused (s : St K V) (k : K) : s.set c k c.tomb = (s, .errReserved) :=
  set_tomb c s k

/-- so every write that is accepted is read back: no hypothesis on the value -/
theorem accepted_set_is_read_back (s : St K V) (hm : s.metered = false) (k : K) (v : V)
    (h : (s.set c k v).2 = .ok) : ((s.set c k v).1.get c k).2 = .val (some v) := by
  have hv : v ≠ c.tomb := set_ok_ne_tomb c s k v h
  have hm' : (s.set c k v).1.metered = false := (set_data c s k v).2.trans hm
  rw [get_unmetered c _ hm', (view_set_gen c s hm k v hv).2]
  simp [upd]

/-! ## 2. A deleted key reads as absent -/

theorem view_del (s : St K V) (hm : s.metered = false) (k : K) :
    view c (s.del c k) = upd (view c s) k none := view_del_gen c s hm k

theorem deleted_reads_absent (s : St K V) (hm : s.metered = false) (k : K) :
    ((s.del c k).get c k).2 = .val none ∧ ((s.del c k).has c k).2 = false := by
  have hm' : (s.del c k).metered = false := (del_data c s k).2.trans hm
  rw [get_unmetered c _ hm', has_unmetered c _ hm', view_del_gen c s hm]
  simp [upd]

/-! ## 1–2 for every state, metered or not

  Since the fix "reads after the block gas is used up fail" a `Get` the meter refuses is an error
  (`ErrExceedGasLimit`), not a read of the committed tree; `Exists`, which has no error channel,
  looks at the block cache once more without the meter.  So for *every* state a read returns the
  most recent write in scope or says that it could not be served; it never returns anything else.

  `Refused s k`  : metered ∧ consumed ≥ limit ∧ the open session does not hold `k`.
  `readCost c s k` : what a served read is charged.  `s.addGas d` : `s` with `d` more gas consumed. -/

/-- `State.Get`, exactly: refused (and then nothing at all changes), or the view, at the price
    `readCost` -/
theorem get_exactly (s : St K V) (k : K) :
    s.get c k = if Refused s k then (s, .errGas)
                else (s.addGas (readCost c s k), .val (view c s k)) := get_exact c s k

/-- a read returns the view or is refused by the meter; it is refused only by a metered state whose
    gas is used up, for a key the session does not answer, and then the state is untouched -/
theorem get_returns_view_or_gas_error (s : St K V) (k : K) :
    (s.get c k).2 = .val (view c s k) ∨
    ((s.get c k).2 = .errGas ∧ s.metered = true ∧ s.gas.consumed ≥ s.gas.limit ∧
      s.sess.bind (alookup k) = none ∧ (s.get c k).1 = s) := by
  rcases get_val_or_refused c s k with ⟨h, _⟩ | ⟨h, hr⟩
  · left; rw [h]
  · right; rw [h]; exact ⟨rfl, hr.1, hr.2.1, hr.2.2, rfl⟩

/-- the error arises exactly then -/
theorem get_gas_error_iff (s : St K V) (k : K) :
    (s.get c k).2 = .errGas ↔
      (s.metered = true ∧ s.gas.consumed ≥ s.gas.limit ∧ s.sess.bind (alookup k) = none) := by
  rcases get_val_or_refused c s k with ⟨h, hr⟩ | ⟨h, hr⟩
  · rw [h]
    exact ⟨fun e => (by cases e), fun e => absurd e hr⟩
  · rw [h]
    exact ⟨fun _ => hr, fun _ => rfl⟩

/-- the converse direction: unmetered, or gas left, or the key is in the session ⇒ the view -/
theorem get_returns_view_when_served (s : St K V) (k : K)
    (h : s.metered = false ∨ s.gas.consumed < s.gas.limit ∨
         (s.sess.bind (alookup k)).isSome = true) :
    s.get c k = (s.addGas (readCost c s k), .val (view c s k)) := by
  rcases get_val_or_refused c s k with ⟨h', _⟩ | ⟨_, hm, hx, hs⟩
  · exact h'
  · rcases h with h | h | h
    · rw [hm] at h; cases h
    · omega
    · rw [hs] at h; cases h

/-- THE REPAIRED DEFECT IS GONE: whatever the state, a `Get` never returns a value other than the
    most recent write in scope (before the fix a refused read returned the tree's stale value) -/
theorem no_stale_read (s : St K V) (k : K) (v : Option V) (h : (s.get c k).2 = .val v) :
    v = view c s k := by
  rcases get_returns_view_or_gas_error c s k with h' | ⟨h', _⟩
  · rw [h'] at h; exact (GetRes.val.inj h).symm
  · rw [h'] at h; cases h

/-- the same at the line protocol of the `kv` engine: the answer to `get k` is the view or the
    gas error, the latter only when `Refused` -/
theorem get_op_output (s : St K V) (k : K) :
    ((step c s (.get k)).2 = .val (view c s k) ∧ ¬ Refused s k) ∨
    ((step c s (.get k)).2 = .errGas ∧ Refused s k ∧ (step c s (.get k)).1 = s) := by
  show ((match (s.get c k).2 with | .val v => Out.val v | .errGas => Out.errGas) = _ ∧ _) ∨
       ((match (s.get c k).2 with | .val v => Out.val v | .errGas => Out.errGas) = _ ∧ _ ∧
        (s.get c k).1 = s)
  rcases get_val_or_refused c s k with ⟨h, hr⟩ | ⟨h, hr⟩
  · left; rw [h]; exact ⟨rfl, hr⟩
  · right; rw [h]; exact ⟨rfl, hr, rfl⟩

/-- … in particular in every state reachable from a fresh (metered or unmetered) state over any
    tree by any sequence of operations -/
theorem no_stale_read_reachable (t : Tree K V) (limit : Option Int) (ops : List (Op K V)) (k : K)
    (v : Option V) :
    let s0 : St K V := match limit with | none => St.new t | some l => St.newGas t l
    let s := (run c s0 ops).1
    ((s.get c k).2 = .val v → v = view c s k) ∧
    ((step c s (.get k)).2 = .val v → v = view c s k) := by
  intro s0 s
  refine ⟨no_stale_read c s k v, ?_⟩
  intro h
  rcases get_op_output c s k with ⟨h', _⟩ | ⟨h', _⟩
  · rw [h'] at h; exact (Out.val.inj h).symm
  · rw [h'] at h; cases h

/-- `State.Exists`, exactly: the answer is always the view's (also when the meter refuses: this is
    what the second, unmetered look at the cache gives); the flat read cost is charged iff the
    metered cache was asked while gas was left -/
theorem has_exactly (s : St K V) (k : K) :
    s.has c k =
      (s.addGas (if (s.sess.bind (alookup k)).isSome = false ∧ s.metered = true ∧
                    s.gas.consumed < s.gas.limit then 20 else 0),
       (view c s k).isSome) := has_exact c s k

theorem has_returns_view_always (s : St K V) (k : K) :
    (s.has c k).2 = (view c s k).isSome ∧
    (s.has c k).1.tree = s.tree ∧ (s.has c k).1.cache = s.cache ∧ (s.has c k).1.sess = s.sess := by
  rw [has_exact]
  exact ⟨rfl, rfl, rfl, rfl⟩

/-- a read and an existence test agree whenever the read is served -/
theorem get_has_agree (s : St K V) (k : K) (v : Option V) (h : (s.get c k).2 = .val v) :
    (s.has c k).2 = v.isSome := by
  rw [no_stale_read c s k v h, has_exact]

/-- iteration, exactly: there is a cut-off `n` (the point where the meter ran out; the whole range
    if it did not) such that the keys before it are all read (`listed`: every key of the tree in
    range that is not deleted in an overlay, in range order, with the value of the view), the keys
    after it are read only if the session answers them (`listedSess`); the charge is that of the
    reads before the cut-off, and a cut-off inside the range means the gas is used up -/
theorem iter_returns_view_metered (s : St K V) (lo hi : Option K) (asc : Bool) :
    ∃ n, n ≤ (s.tree.rangeKeys c lo hi asc).length ∧
      s.iter c lo hi asc =
        (s.addGas (iterCost c s ((s.tree.rangeKeys c lo hi asc).take n)),
         listed c s ((s.tree.rangeKeys c lo hi asc).take n) ++
           listedSess c s ((s.tree.rangeKeys c lo hi asc).drop n)) ∧
      (n < (s.tree.rangeKeys c lo hi asc).length →
        s.metered = true ∧
        s.gas.limit ≤ s.gas.consumed + iterCost c s ((s.tree.rangeKeys c lo hi asc).take n)) :=
  iter_cutoff c s lo hi asc

/-- every listed pair is `(k, view c s k)` for a key of the tree in range that is not deleted in
    an overlay, and the pairs come in range order: the listing is a sublist of the full one -/
theorem iter_lists_only_views (s : St K V) (lo hi : Option K) (asc : Bool) :
    (s.iter c lo hi asc).2.Sublist
      (((s.tree.rangeKeys c lo hi asc).filter (fun k => !s.deleted c k)).map
        (fun k => (k, view c s k))) := iter_sublist c s lo hi asc

/-- spelled out: a listed pair is a key of the working tree inside `[lo, hi)`, not deleted in an
    overlay, with the value the view has for it -/
theorem iter_listed_pair (s : St K V) (lo hi : Option K) (asc : Bool) (p : K × Option V)
    (hp : p ∈ (s.iter c lo hi asc).2) :
    p.2 = view c s p.1 ∧ s.deleted c p.1 = false ∧ p.1 ∈ akeys s.tree.working ∧
    (∀ l, lo = some l → c.lt p.1 l = false) ∧ (∀ h, hi = some h → c.lt p.1 h = true) := by
  have h := (mem_listed_iff c s _ p).mp ((iter_sublist c s lo hi asc).subset hp)
  have hr := (mem_rangeKeys c s.tree lo hi asc p.1).mp h.1
  exact ⟨h.2.2, h.2.1, hr.1, hr.2.1, hr.2.2⟩

/-- a key of the range is missing from the listing only if it is deleted in an overlay or its read
    was refused: the state is metered, the gas was used up by the end of the iteration and the
    session does not hold the key -/
theorem iter_misses_only_refused (s : St K V) (lo hi : Option K) (asc : Bool) (k : K)
    (hk : k ∈ s.tree.rangeKeys c lo hi asc) (hd : s.deleted c k = false)
    (hmiss : (k, view c s k) ∉ (s.iter c lo hi asc).2) :
    s.metered = true ∧ s.gas.limit ≤ (s.iter c lo hi asc).1.gas.consumed ∧
    s.sess.bind (alookup k) = none := iter_missing c s lo hi asc k hk hd hmiss

/-- with gas for all the reads nothing is missing (an unmetered state needs none) -/
theorem iter_complete_when_gas_suffices (s : St K V) (lo hi : Option K) (asc : Bool)
    (h : s.metered = true →
      s.gas.consumed + iterCost c s (s.tree.rangeKeys c lo hi asc) ≤ s.gas.limit) :
    s.iter c lo hi asc =
      (s.addGas (iterCost c s (s.tree.rangeKeys c lo hi asc)),
       ((s.tree.rangeKeys c lo hi asc).filter (fun k => !s.deleted c k)).map
         (fun k => (k, view c s k))) := by
  rw [iter_eq_foldl, iter_foldl_enough_gas c _ s [] h]
  simp [listed]

/-- every read, of whatever kind and in whatever state, only advances the gas counter -/
theorem reads_change_only_gas (s : St K V) (op : Op K V) (hr : op.isRead = true) :
    ∃ d, 0 ≤ d ∧ (step c s op).1 = s.addGas d := step_read_addGas c s op hr

/-- a write is accepted and visible, or refused by the meter and then changes nothing -/
theorem view_set_always (s : St K V) (k : K) (v : V) (hv : v ≠ c.tomb) :
    (¬ WriteRefused s ∧ (s.set c k v).2 = .ok ∧
      view c (s.set c k v).1 = upd (view c s) k (some v)) ∨
    (WriteRefused s ∧ s.set c k v = (s, .errGas)) := set_exact c s k v hv

/-- every accepted write is read back, or the read says that it could not be served -/
theorem accepted_set_is_read_back_always (s : St K V) (k : K) (v : V)
    (h : (s.set c k v).2 = .ok) :
    ((s.set c k v).1.get c k).2 = .val (some v) ∨
    (((s.set c k v).1.get c k).2 = .errGas ∧ Refused (s.set c k v).1 k) := by
  have hv : v ≠ c.tomb := set_ok_ne_tomb c s k v h
  rcases set_exact c s k v hv with ⟨_, _, hview⟩ | ⟨_, he⟩
  · rcases get_val_or_refused c (s.set c k v).1 k with ⟨hg, _⟩ | ⟨hg, hr⟩
    · left; rw [hg, hview]; simp [upd]
    · right; rw [hg]; exact ⟨rfl, hr⟩
  · rw [he] at h; cases h

/-- … and `Exists` sees every accepted write, whatever the meter says -/
theorem accepted_set_exists_always (s : St K V) (k : K) (v : V) (h : (s.set c k v).2 = .ok) :
    ((s.set c k v).1.has c k).2 = true := by
  have hv : v ≠ c.tomb := set_ok_ne_tomb c s k v h
  rcases set_exact c s k v hv with ⟨_, _, hview⟩ | ⟨_, he⟩
  · rw [has_exact, hview]; simp [upd]
  · rw [he] at h; cases h

/-- a delete takes effect, or is (silently: `Delete` reports success) refused by the meter and
    changes nothing -/
theorem view_del_always (s : St K V) (k : K) :
    (¬ WriteRefused s ∧ view c (s.del c k) = upd (view c s) k none) ∨
    (WriteRefused s ∧ s.del c k = s) := del_exact c s k

/-- a key whose delete took effect never reads as present -/
theorem deleted_reads_absent_always (s : St K V) (k : K) (hw : ¬ WriteRefused s) :
    ((s.del c k).has c k).2 = false ∧
    (((s.del c k).get c k).2 = .val none ∨ ((s.del c k).get c k).2 = .errGas) := by
  rcases del_exact c s k with ⟨_, hview⟩ | ⟨h, _⟩
  · refine ⟨by rw [has_exact, hview]; simp [upd], ?_⟩
    rcases get_val_or_refused c (s.del c k) k with ⟨hg, _⟩ | ⟨hg, _⟩
    · left; rw [hg, hview]; simp [upd]
    · right; rw [hg]
  · exact absurd h hw

/-! ## `IterateRangeAll`: an iteration that visits what `Get` would find

  `IterateRange` / `Iterate` (`St.iter`, the theorems `iter_…` above) enumerate the keys of the
  TREE only: a key written earlier in the same block or transaction is not iterated (pinned
  behaviour).  The additional method `IterateRangeAll` (`St.iterAll`, the theorems `iterAll_…`)
  enumerates the keys of the tree AND the keys pending in the block cache or the open session:
  it lists exactly what `Get` would find.

  `inRange c lo hi k` : `k` lies in `[lo, hi)`.  `dir asc l` : `l`, reversed when descending.
  `SortedDir lt asc l` : `l` is sorted in that direction.  `StrictTotal lt` : the byte order is a
  strict total order.  `s.iterKeys c lo hi asc` : the keys visited — those of the tree, the block
  cache and the session in `[lo, hi)`, each once, in iteration order (`mem_iterKeys`,
  `nodup_iterKeys`, `sorted_iterKeys`). -/

/-- `IterateRangeAll` on an unmetered state enumerates the keys in range that some layer holds
    (tree, block cache, session: `St.iterKeys`) and that are not deleted in an overlay, and reports
    for each the value a `get` would return (`iterAll_lists_exactly_visible_keys` below says the
    same without `iterKeys`) -/
theorem iterAll_returns_view (s : St K V) (hm : s.metered = false) (lo hi : Option K) (asc : Bool) :
    s.iterAll c lo hi asc =
      (s, ((s.iterKeys c lo hi asc).filter (fun k => !s.deleted c k)).map
            (fun k => (k, view c s k))) := iterAll_unmetered c s hm lo hi asc

/-- `IterateRangeAll`, exactly, whatever the state: there is a cut-off `n` (the point where the
    meter ran out; the whole range
    if it did not) such that the keys before it are all read (`listed`: every key of the tree in
    range that is not deleted in an overlay, in range order, with the value of the view), the keys
    after it are read only if the session answers them (`listedSess`); the charge is that of the
    reads before the cut-off, and a cut-off inside the range means the gas is used up.
    The keys visited are `s.iterKeys c lo hi asc`: those of the tree, the block cache and the
    session in `[lo, hi)`, each once, in iteration order (`mem_iterKeys`, `nodup_iterKeys`,
    `sorted_iterKeys`) -/
theorem iterAll_returns_view_metered (s : St K V) (lo hi : Option K) (asc : Bool) :
    ∃ n, n ≤ (s.iterKeys c lo hi asc).length ∧
      s.iterAll c lo hi asc =
        (s.addGas (iterCost c s ((s.iterKeys c lo hi asc).take n)),
         listed c s ((s.iterKeys c lo hi asc).take n) ++
           listedSess c s ((s.iterKeys c lo hi asc).drop n)) ∧
      (n < (s.iterKeys c lo hi asc).length →
        s.metered = true ∧
        s.gas.limit ≤ s.gas.consumed + iterCost c s ((s.iterKeys c lo hi asc).take n)) :=
  iterAll_cutoff c s lo hi asc

/-- every listed pair is `(k, view c s k)` for a key some layer holds, in range, not deleted in
    an overlay, and the pairs come in range order: the listing is a sublist of the full one -/
theorem iterAll_lists_only_views (s : St K V) (lo hi : Option K) (asc : Bool) :
    (s.iterAll c lo hi asc).2.Sublist
      (((s.iterKeys c lo hi asc).filter (fun k => !s.deleted c k)).map
        (fun k => (k, view c s k))) := iterAll_sublist c s lo hi asc

/-- spelled out: a listed pair is a key that the tree, the block cache or the session holds,
    inside `[lo, hi)`, visible to a reader (not deleted in an overlay), with the value the view has
    for it -/
theorem iterAll_listed_pair (s : St K V) (lo hi : Option K) (asc : Bool) (p : K × Option V)
    (hp : p ∈ (s.iterAll c lo hi asc).2) :
    p.2 = view c s p.1 ∧ (view c s p.1).isSome = true ∧ s.deleted c p.1 = false ∧
    (p.1 ∈ akeys s.tree.working ∨ p.1 ∈ akeys s.cache ∨ ∃ o, s.sess = some o ∧ p.1 ∈ akeys o) ∧
    (∀ l, lo = some l → c.lt p.1 l = false) ∧ (∀ h, hi = some h → c.lt p.1 h = true) := by
  have h := iterAll_listed_visible c s lo hi asc p hp
  have hv := (mem_visKeys c s lo hi asc p.1).mp h.2
  have ha := (visible_iff c s p.1).mp hv.2
  have hr := (inRange_iff c lo hi p.1).mp hv.1
  exact ⟨h.1, hv.2, ha.2, (mem_allKeys s p.1).mp ha.1, hr.1, hr.2⟩

/-- a key of the range is missing from the listing only if it is deleted in an overlay or its read
    was refused: the state is metered, the gas was used up by the end of the iteration and the
    session does not hold the key -/
theorem iterAll_misses_only_refused (s : St K V) (lo hi : Option K) (asc : Bool) (k : K)
    (hk : k ∈ s.iterKeys c lo hi asc) (hd : s.deleted c k = false)
    (hmiss : (k, view c s k) ∉ (s.iterAll c lo hi asc).2) :
    s.metered = true ∧ s.gas.limit ≤ (s.iterAll c lo hi asc).1.gas.consumed ∧
    s.sess.bind (alookup k) = none := iterAll_missing c s lo hi asc k hk hd hmiss

/-- with gas for all the reads nothing is missing (an unmetered state needs none) -/
theorem iterAll_complete_when_gas_suffices (s : St K V) (lo hi : Option K) (asc : Bool)
    (h : s.metered = true →
      s.gas.consumed + iterCost c s (s.iterKeys c lo hi asc) ≤ s.gas.limit) :
    s.iterAll c lo hi asc =
      (s.addGas (iterCost c s (s.iterKeys c lo hi asc)),
       ((s.iterKeys c lo hi asc).filter (fun k => !s.deleted c k)).map
         (fun k => (k, view c s k))) := by
  rw [iterAll_eq_foldl, iter_foldl_enough_gas c _ s [] h]
  simp [listed]

/-- THE FULL STATEMENT, with gas for all the reads (an unmetered state needs none): an iteration
    lists EXACTLY the keys in `[lo, hi)` a reader can see (`view ≠ none`: written in the session,
    the block or the tree and not deleted since), each once, each with the value of the view, in
    the order asked for — it is the sorted duplicate-free list of those keys -/
theorem iterAll_lists_exactly_visible_keys_when_gas_suffices (s : St K V) (lo hi : Option K)
    (asc : Bool)
    (hg : s.metered = true →
      s.gas.consumed + iterCost c s (s.iterKeys c lo hi asc) ≤ s.gas.limit) :
    let ks := (s.iterAll c lo hi asc).2.map Prod.fst
    (s.iterAll c lo hi asc).2 = ks.map (fun k => (k, view c s k)) ∧
    (∀ k, k ∈ ks ↔ inRange c lo hi k = true ∧ (view c s k).isSome = true) ∧
    ks.Nodup ∧
    (StrictTotal c.lt →
      SortedDir c.lt asc ks ∧
      ∀ L : List K, L.Nodup →
        (∀ k, k ∈ L ↔ inRange c lo hi k = true ∧ (view c s k).isSome = true) →
        ks = dir asc (sortKeys c.lt L)) := by
  intro ks
  have hk : ks = visKeys c s lo hi asc := by
    show (s.iterAll c lo hi asc).2.map Prod.fst = _
    rw [iterAll_enough_gas_visible c s lo hi asc hg]
    exact map_fst_pairs _ _
  rw [hk]
  refine ⟨by rw [iterAll_enough_gas_visible c s lo hi asc hg], mem_visKeys c s lo hi asc,
    nodup_visKeys c s lo hi asc, fun ho => ⟨sorted_visKeys c ho s lo hi asc, ?_⟩⟩
  intro L hn hL
  exact visKeys_unique c ho s lo hi asc L hn hL

/-- … in particular for every unmetered state -/
theorem iterAll_lists_exactly_visible_keys (s : St K V) (hm : s.metered = false) (lo hi : Option K)
    (asc : Bool) :
    let ks := (s.iterAll c lo hi asc).2.map Prod.fst
    (s.iterAll c lo hi asc).2 = ks.map (fun k => (k, view c s k)) ∧
    (∀ k, k ∈ ks ↔ inRange c lo hi k = true ∧ (view c s k).isSome = true) ∧
    ks.Nodup ∧
    (StrictTotal c.lt →
      SortedDir c.lt asc ks ∧
      ∀ L : List K, L.Nodup →
        (∀ k, k ∈ L ↔ inRange c lo hi k = true ∧ (view c s k).isSome = true) →
        ks = dir asc (sortKeys c.lt L)) :=
  iterAll_lists_exactly_visible_keys_when_gas_suffices c s lo hi asc
    (fun h => by rw [hm] at h; cases h)

/-- the same as one equation (`visKeys` = the keys `iterKeys` visits that a reader can see) -/
theorem iterAll_exactly_when_gas_suffices (s : St K V) (lo hi : Option K) (asc : Bool)
    (hg : s.metered = true →
      s.gas.consumed + iterCost c s (s.iterKeys c lo hi asc) ≤ s.gas.limit) :
    s.iterAll c lo hi asc =
      (s.addGas (iterCost c s (s.iterKeys c lo hi asc)),
       (visKeys c s lo hi asc).map (fun k => (k, view c s k))) :=
  iterAll_enough_gas_visible c s lo hi asc hg

/-- whatever the state, metered or not: only visible keys of the range are listed, with their
    value (so no listed value is `none`) … -/
theorem iterAll_lists_only_visible (s : St K V) (lo hi : Option K) (asc : Bool) (p : K × Option V)
    (hp : p ∈ (s.iterAll c lo hi asc).2) :
    p.2 = view c s p.1 ∧ (view c s p.1).isSome = true ∧ inRange c lo hi p.1 = true := by
  have h := iterAll_listed_visible c s lo hi asc p hp
  have hv := (mem_visKeys c s lo hi asc p.1).mp h.2
  exact ⟨h.1, hv.2, hv.1⟩

/-- … and every visible key of the range is listed unless the meter refused its read (metered,
    gas used up by the end of the iteration, key not answered by the session) -/
theorem iterAll_lists_visible_unless_refused (s : St K V) (lo hi : Option K) (asc : Bool) (k : K)
    (hr : inRange c lo hi k = true) (hv : (view c s k).isSome = true) :
    (k, view c s k) ∈ (s.iterAll c lo hi asc).2 ∨
    (s.metered = true ∧ s.gas.limit ≤ (s.iterAll c lo hi asc).1.gas.consumed ∧
      s.sess.bind (alookup k) = none) := iterAll_visible_listed c s lo hi asc k hr hv

/-- WHAT `IterateRangeAll` IS FOR: a key written earlier in the same block or transaction is
    iterated, whether or not the tree holds it — unless the meter refuses the read, which can
    only happen to a write that went to the metered block cache (no session open) -/
theorem iterAll_sees_pending_writes (s : St K V) (k : K) (v : V) (lo hi : Option K) (asc : Bool)
    (h : (s.set c k v).2 = .ok) (hr : inRange c lo hi k = true) :
    (k, some v) ∈ ((s.set c k v).1.iterAll c lo hi asc).2 ∨
    (s.metered = true ∧ s.sess = none ∧
      s.gas.limit ≤ ((s.set c k v).1.iterAll c lo hi asc).1.gas.consumed) := by
  have hv : v ≠ c.tomb := set_ok_ne_tomb c s k v h
  rcases set_exact c s k v hv with ⟨_, _, hview⟩ | ⟨_, he⟩
  · have hvk : view c (s.set c k v).1 k = some v := by rw [hview]; simp [upd]
    rcases iterAll_visible_listed c (s.set c k v).1 lo hi asc k hr (by rw [hvk]; rfl) with
      hl | ⟨hm, hx, hs⟩
    · left; rw [hvk] at hl; exact hl
    · right
      refine ⟨(set_data c s k v).2.symm.trans hm, ?_, ?_⟩
      · cases ho : s.sess with
        | none => rfl
        | some o =>
          rw [set_sess c s o ho k v hv] at hs
          simp at hs
      · have hlim : (s.set c k v).1.gas.limit = s.gas.limit := by
          unfold St.set
          split
          · rfl
          · split
            · rfl
            · split
              · split
                · rfl
                · next g hg => rw [consumeStrict_some _ _ _ hg]; rfl
              · rfl
        rw [← hlim]; exact hx
  · rw [he] at h; cases h

/-- … in an unmetered state always -/
theorem iterAll_sees_pending_writes_unmetered (s : St K V) (hm : s.metered = false) (k : K) (v : V)
    (lo hi : Option K) (asc : Bool) (h : (s.set c k v).2 = .ok) (hr : inRange c lo hi k = true) :
    (k, some v) ∈ ((s.set c k v).1.iterAll c lo hi asc).2 := by
  rcases iterAll_sees_pending_writes c s k v lo hi asc h hr with hl | ⟨hm', _⟩
  · exact hl
  · rw [hm] at hm'; cases hm'

/-- … and what a transaction wrote itself (session open) always, metered or not, gas or not -/
theorem iterAll_sees_pending_writes_session (s : St K V) (hs : s.sess.isSome = true) (k : K) (v : V)
    (lo hi : Option K) (asc : Bool) (h : (s.set c k v).2 = .ok) (hr : inRange c lo hi k = true) :
    (k, some v) ∈ ((s.set c k v).1.iterAll c lo hi asc).2 := by
  rcases iterAll_sees_pending_writes c s k v lo hi asc h hr with hl | ⟨_, hn, _⟩
  · exact hl
  · rw [hn] at hs; cases hs

/-- a key whose delete took effect is not iterated, whatever the tree holds for it -/
theorem iterAll_skips_pending_deletes (s : St K V) (hw : ¬ WriteRefused s) (k : K)
    (lo hi : Option K) (asc : Bool) :
    ∀ p ∈ ((s.del c k).iterAll c lo hi asc).2, p.1 ≠ k := by
  intro p hp hk
  rcases del_exact c s k with ⟨_, hview⟩ | ⟨h, _⟩
  · have := (iterAll_lists_only_visible c (s.del c k) lo hi asc p hp).2.1
    rw [hk, hview] at this
    simp [upd] at this
  · exact hw h

/-- every key pending as deleted in an overlay is skipped (it is not visible) -/
theorem iterAll_skips_deleted (s : St K V) (lo hi : Option K) (asc : Bool) (k : K)
    (hd : s.deleted c k = true) : ∀ p ∈ (s.iterAll c lo hi asc).2, p.1 ≠ k := by
  intro p hp hk
  have := (iterAll_listed_pair c s lo hi asc p hp).2.2.1
  rw [hk, hd] at this
  cases this

/-! ### `IterateRangeAll` and `IterateRange` -/

/-- the trees of reachable states hold no key twice (in the working tree and in every retained
    version): `Tree.KeysNodup` is kept by every operation … -/
theorem tree_keys_nodup_step (s : St K V) (h : s.tree.KeysNodup) (op : Op K V) :
    (step c s op).1.tree.KeysNodup := step_keysNodup c s h op

/-- … so it holds in every state reachable from a fresh store -/
theorem tree_keys_nodup_reachable (rot : Rot) (ops : List (Op K V)) :
    (run c (St.new (Tree.empty rot)) ops).1.tree.KeysNodup := by
  have h0 : (St.new (Tree.empty rot) : St K V).tree.KeysNodup := by
    refine ⟨by simp [St.new, Tree.empty, akeys], ?_⟩
    intro p hp; simp [St.new, Tree.empty] at hp
  suffices ∀ (ops : List (Op K V)) (s : St K V), s.tree.KeysNodup → (run c s ops).1.tree.KeysNodup
    from this ops _ h0
  intro ops
  induction ops with
  | nil => intro s h; simpa [run] using h
  | cons op ops ih =>
    intro s h
    have := ih (step c s op).1 (tree_keys_nodup_step c s h op)
    simpa [run] using this

/-- with nothing pending (empty block cache, no session: the state of a query, or of a block
    before its first write) the two iterations are the same, state and listing -/
theorem iterAll_eq_iter_when_nothing_pending (s : St K V) (hc : s.cache = []) (hs : s.sess = none)
    (hn : (akeys s.tree.working).Nodup) (lo hi : Option K) (asc : Bool) :
    s.iterAll c lo hi asc = s.iter c lo hi asc :=
  iterAll_eq_iter_nothing_pending c s hc hs hn lo hi asc

/-- the keys `IterateRange` visits are among those `IterateRangeAll` visits -/
theorem rangeKeys_subset_iterKeys (s : St K V) (lo hi : Option K) (asc : Bool) (k : K)
    (hk : k ∈ s.tree.rangeKeys c lo hi asc) : k ∈ s.iterKeys c lo hi asc :=
  OLP.KV.rangeKeys_subset_iterKeys c s lo hi asc k hk

/-- whatever the state: a pair `IterateRange` lists is listed by `IterateRangeAll` too, unless
    the meter refuses the read there -/
theorem iter_listed_by_iterAll_unless_refused (s : St K V) (lo hi : Option K) (asc : Bool)
    (p : K × Option V) (hp : p ∈ (s.iter c lo hi asc).2) :
    p ∈ (s.iterAll c lo hi asc).2 ∨
    (s.metered = true ∧ s.gas.limit ≤ (s.iterAll c lo hi asc).1.gas.consumed ∧
      s.sess.bind (alookup p.1) = none) := iter_listed_iterAll c s lo hi asc p hp

/-- with gas for all the reads of `IterateRangeAll` (an unmetered state needs none) every pair
    `IterateRange` lists is listed by `IterateRangeAll` -/
theorem iter_sublist_of_iterAll (s : St K V) (lo hi : Option K) (asc : Bool)
    (hg : s.metered = true →
      s.gas.consumed + iterCost c s (s.iterKeys c lo hi asc) ≤ s.gas.limit)
    (p : K × Option V) (hp : p ∈ (s.iter c lo hi asc).2) : p ∈ (s.iterAll c lo hi asc).2 := by
  have h := (mem_listed_iff c s _ p).mp ((iter_sublist c s lo hi asc).subset hp)
  rw [iterAll_complete_when_gas_suffices c s lo hi asc hg]
  exact (mem_listed_iff c s _ p).mpr
    ⟨OLP.KV.rangeKeys_subset_iterKeys c s lo hi asc p.1 h.1, h.2.1, h.2.2⟩

/-- `IterateRange` does NOT see a key that is only pending (this is the pinned behaviour
    `IterateRangeAll` was added beside): a key the tree does not hold is never listed by it -/
theorem iter_misses_pending_only_keys (s : St K V) (lo hi : Option K) (asc : Bool) (k : K)
    (hk : k ∉ akeys s.tree.working) : ∀ p ∈ (s.iter c lo hi asc).2, p.1 ≠ k := by
  intro p hp e
  exact hk (e ▸ (iter_listed_pair c s lo hi asc p hp).2.2.1)

/-! ## 3. Sessions: writes of a discarded session are never visible -/

theorem view_begin (s : St K V) : view c s.begin = baseView c s := by
  funext k
  simp [view, St.begin, baseView, blockView]

theorem baseView_begin (s : St K V) : baseView c s.begin = baseView c s := rfl

theorem session_writes_keep_base (s : St K V) (h : s.sess.isSome) (k : K) (v : V) :
    baseView c (s.set c k v).1 = baseView c s ∧ baseView c (s.del c k) = baseView c s := by
  cases hs : s.sess with
  | none => simp [hs] at h
  | some o =>
    rw [del_sess c s o hs]
    refine ⟨?_, rfl⟩
    by_cases hv : v = c.tomb
    · rw [hv, set_tomb]
    · rw [set_sess c s o hs k v hv]
      rfl

theorem discard_invisible (s : St K V) : view c s.dsess = baseView c s ∧ s.dsess.sess = none := by
  refine ⟨?_, rfl⟩
  funext k
  simp [view, St.dsess, baseView, blockView]

/-- committing the session keeps what readers see (`wf`: overlays hold no key twice, which
    `wf_step` shows for every reachable state) -/
theorem csess_keeps_view (s s' : St K V) (wf : s.WF) (h : s.csess = some s') :
    view c s' = view c s ∧ baseView c s' = view c s ∧ s'.sess = none :=
  csess_keeps_view_of_nodup c s s' h wf.2.1

theorem csess_panics_iff_no_session (s : St K V) : s.csess = none ↔ s.sess = none := by
  unfold St.csess
  cases s.sess <;> simp

/-- a whole session that ends in a discard leaves the state exactly as it was -/
theorem discarded_session_noop (s : St K V) (hm : s.metered = false) (hs : s.sess = none)
    (ws : List (Op K V)) (hw : ∀ o ∈ ws, o.isKeyWrite = true ∨ o.isRead = true) :
    (run c s (.begin :: ws ++ [.dsess])).1 = s := by
  rw [List.cons_append, run_cons_fst, run_append_fst]
  obtain ⟨o', h⟩ := run_session_writes c (step c s .begin).1 hm [] rfl ws hw
  rw [h]
  show ({ s with sess := none } : St K V) = s
  cases s
  simp only at hs
  subst hs
  rfl

/-- … metered or not: only the gas counter has advanced (by what the reads were charged) -/
theorem discarded_session_noop_always (s : St K V) (hs : s.sess = none)
    (ws : List (Op K V)) (hw : ∀ o ∈ ws, o.isKeyWrite = true ∨ o.isRead = true) :
    ∃ d, 0 ≤ d ∧ (run c s (.begin :: ws ++ [.dsess])).1 = s.addGas d := by
  rw [List.cons_append, run_cons_fst, run_append_fst]
  obtain ⟨o', d, hd, h⟩ := run_session_writes_gen c (step c s .begin).1 [] rfl ws hw
  refine ⟨d, hd, ?_⟩
  rw [h]
  show (({ s with sess := none } : St K V).addGas d) = s.addGas d
  cases s
  simp only at hs
  subst hs
  rfl

/-! ## 4. Commit persists exactly the block's surviving writes as a new immutable version -/

theorem commit_persists_block (s : St K V) (wf : s.WF) :
    (∀ k, (s.commit c).tree.get k = baseView c s k) ∧
    view c (s.commit c) = baseView c s ∧
    (s.commit c).tree.version = s.tree.version + 1 ∧
    (∀ k, (s.commit c).tree.getVersioned ((s.tree.version + 1 : Nat) : Int) k = baseView c s k) :=
  commit_persists_block_of_nodup c s wf.2.2 wf.1

theorem wf_empty (rot : Rot) : (Tree.empty rot : Tree K V).WF := by
  simp [Tree.WF, Tree.empty]

theorem wf_step (s : St K V) (wf : s.WF) (op : Op K V) : (step c s op).1.WF := step_WF c s wf op

/-- every state reachable from a fresh store is well formed -/
theorem wf_reachable (rot : Rot) (ops : List (Op K V)) :
    (run c (St.new (Tree.empty rot)) ops).1.WF := by
  have h0 : (St.new (Tree.empty rot) : St K V).WF := by
    refine ⟨?_, ?_, wf_empty rot⟩
    · simp [St.new, akeys]
    · intro o ho; simp [St.new] at ho
  suffices ∀ (ops : List (Op K V)) (s : St K V), s.WF → (run c s ops).1.WF from this ops _ h0
  intro ops
  induction ops with
  | nil => intro s h; simpa [run] using h
  | cons op ops ih =>
    intro s h
    have := ih (step c s op).1 (wf_step c s h op)
    simpa [run] using this

/-- earlier versions keep returning their old values (or nothing, once rotated away) -/
theorem old_versions_immutable (s : St K V) (wf : s.tree.WF) (op : Op K V) (ver : Int) (k : K)
    (hver : ver ≤ (s.tree.version : Int)) :
    (step c s op).1.tree.getVersioned ver k = s.tree.getVersioned ver k ∨
    (step c s op).1.tree.getVersioned ver k = none := by
  have _ := wf
  by_cases hc : op = .commit
  · subst hc
    have hv := writeInto_versions c s.cache s.tree
    have h := commit_getVersioned_old (writeInto c s.tree s.cache) ver k (by rw [hv.2.1]; exact hver)
    rw [getVersioned_congr s.tree (writeInto c s.tree s.cache) hv.1] at h
    exact h
  · exact Or.inl (getVersioned_congr _ _ (step_noncommit_versions c s op hc).1 ver k)

theorem noncommit_keeps_versions (s : St K V) (op : Op K V) (h : op ≠ .commit) :
    (step c s op).1.tree.versions = s.tree.versions ∧ (step c s op).1.tree.version = s.tree.version := by
  exact step_noncommit_versions c s op h

/-- reopening the database returns the last commit -/
theorem reopen_returns_last_commit (s : St K V) (wf : s.tree.WF) (k : K) :
    view c (step c s .reopen).1 k = s.tree.getVersioned (s.tree.version : Int) k := by
  have _ := wf
  rw [← reopen_get]
  simp [step, view, St.new, blockView]

/-! ## 5. The root hash input (the write log) is a function of the writes only -/

/-- reads leave an unmetered state untouched -/
theorem reads_change_nothing (s : St K V) (hm : s.metered = false) (op : Op K V)
    (hr : op.isRead = true) : (step c s op).1 = s := step_read_unmetered c s hm op hr

/-- metered or not, reads never touch overlays or tree (only the gas counter) -/
theorem reads_never_touch_data (s : St K V) (op : Op K V) (hr : op.isRead = true) :
    (step c s op).1.tree = s.tree ∧ (step c s op).1.cache = s.cache ∧ (step c s op).1.sess = s.sess := by
  have h := step_read_gasOnly c s op hr
  exact ⟨h.1, h.2.1, h.2.2.1⟩

theorem erase_reads_same_state (s : St K V) (hm : s.metered = false) (ops : List (Op K V))
    (hnm : ∀ op ∈ ops, op.isMeteredNew = false) :
    (run c s (ops.filter (fun o => !o.isRead))).1 = (run c s ops).1 := by
  induction ops generalizing s with
  | nil => rfl
  | cons op t ih =>
    have hnm' : ∀ op ∈ t, op.isMeteredNew = false := fun o ho => hnm o (List.mem_cons_of_mem _ ho)
    by_cases hr : op.isRead = true
    · rw [List.filter_cons_of_neg (by simp [hr]), run_cons_fst, step_read_unmetered c s hm op hr]
      exact ih s hm hnm'
    · rw [List.filter_cons_of_pos (by simp [hr]), run_cons_fst, run_cons_fst]
      exact ih _ (step_unmetered c s hm op (hnm op List.mem_cons_self)) hnm'

theorem log_changes_only_at_write_commit_reopen (s : St K V) (op : Op K V)
    (h : match op with | .write | .commit | .reopen => False | _ => True) :
    (step c s op).1.tree.log = s.tree.log := step_log c s op h

/-- `Write()` replays the block cache in first-write order; tombstones become removals -/
theorem commit_log_first_write_order (s : St K V) :
    (s.commit c).tree.log = s.tree.log ++ s.cache.map (toTreeOp c) ++ [.save] := by
  simp only [St.commit]
  rw [(commit_fields _).2.2.1, writeInto_log]

/-- a committed session lands in the block cache in first-write order, behind the keys
    the block already wrote -/
theorem csess_first_write_order (s s' : St K V) (o : List (K × V)) (ho : s.sess = some o)
    (hn : (akeys o).Nodup) (h : s.csess = some s') :
    akeys s'.cache = akeys s.cache ++ (akeys o).filter (fun k => decide (k ∉ akeys s.cache)) := by
  rw [csess_of_some s o ho] at h
  have h' := (Option.some.inj h).symm
  subst h'
  exact akeys_foldl_upsert o s.cache hn

/-! ## 6. Gas metering -/

theorem gas_monotone (s : St K V) (op : Op K V)
    (h : match op with | .newState _ | .reopen => False | _ => True) :
    s.gas.consumed ≤ (step c s op).1.gas.consumed := step_gas c s op h

/-- once `consumed ≥ limit` the metered block cache refuses (no session open): writes fail and
    change nothing, a `Get` fails with the gas error and changes nothing (before the fix it fell
    through to the committed tree), `Exists` still answers for the view, free of charge, and an
    iteration lists nothing -/
theorem gas_refusal (s : St K V) (hm : s.metered = true) (hx : s.gas.consumed ≥ s.gas.limit)
    (hs : s.sess = none) (k : K) (v : V) :
    (v ≠ c.tomb → s.set c k v = (s, .errGas)) ∧ s.del c k = s ∧ s.get c k = (s, .errGas) ∧
    s.has c k = (s, (view c s k).isSome) ∧
    (∀ lo hi asc, s.iter c lo hi asc = (s, [])) ∧
    (∀ lo hi asc, s.iterAll c lo hi asc = (s, [])) := by
  have hg : ∀ cost, s.gas.consumeStrict cost = none := fun cost => consumeStrict_none _ cost hx
  have hb : ∀ k, s.sess.bind (alookup k) = none := fun k => by rw [hs]; rfl
  refine ⟨?_, ?_, ?_, ?_, ?_, ?_⟩
  · intro hv
    simp [St.set, hs, hm, hg, hv]
  · simp [St.del, hs, hm, hg]
  · rw [get_exact, if_pos ⟨hm, hx, hb k⟩]
  · have : ¬ s.gas.consumed < s.gas.limit := by omega
    rw [has_exact]
    simp [this, addGas_zero]
  · intro lo hi asc
    rw [iter_eq_foldl, iter_foldl_exhausted c s hm hx]
    simp [listedSess, hb]
  · intro lo hi asc
    rw [iterAll_eq_foldl, iter_foldl_exhausted c s hm hx]
    simp [listedSess, hb]

/-- with a session open the refusal concerns only the keys the session does not hold: what the
    transaction wrote itself stays readable -/
theorem gas_refusal_in_session (s : St K V) (hm : s.metered = true)
    (hx : s.gas.consumed ≥ s.gas.limit) (k : K) :
    ((s.sess.bind (alookup k)).isSome = true → s.get c k = (s, .val (view c s k))) ∧
    (s.sess.bind (alookup k) = none → s.get c k = (s, .errGas)) ∧
    s.has c k = (s, (view c s k).isSome) := by
  refine ⟨?_, ?_, ?_⟩
  · intro h
    rw [get_returns_view_when_served c s k (Or.inr (Or.inr h)), readCost_sess c s k h, addGas_zero]
  · intro h
    rw [get_exact, if_pos ⟨hm, hx, h⟩]
  · have : ¬ s.gas.consumed < s.gas.limit := by omega
    rw [has_exact]
    simp [this, addGas_zero]

/-! ## Non-vacuity: the hypotheses are met by concrete non-trivial states -/

def exCfg : Cfg Nat Nat := { tomb := 0, vlen := fun _ => 1, lt := fun a b => decide (a < b) }
def exState : St Nat Nat := (run exCfg (St.new (Tree.empty ⟨1, 0, 0⟩))
  [.set 1 10, .set 2 20, .commit, .begin, .del 1, .set 3 30]).1

example : exState.metered = false ∧ exState.sess.isSome ∧ exState.tree.WF ∧
    view exCfg exState 1 = none ∧ view exCfg exState 3 = some 30 ∧
    baseView exCfg exState 1 = some 10 ∧ exState.tree.version = 1 := by
  have hv : exState.tree.versions = [(1, [(1, 10), (2, 20)])] := by decide
  have hn : exState.tree.version = 1 := by decide
  refine ⟨by decide, by decide, ?_, by decide, by decide, by decide, hn⟩
  unfold Tree.WF
  rw [hv, hn]
  simp

/-- a metered state below its limit: block cache over a committed tree -/
def exMetered : St Nat Nat := (run exCfg (St.new (Tree.empty ⟨1, 0, 0⟩))
  [.set 1 10, .set 2 20, .commit, .newState (some 1000), .set 3 30, .del 2]).1

example : exMetered.metered = true ∧ exMetered.gas.consumed = 270 ∧ exMetered.gas.limit = 1000 ∧
    ¬ Refused exMetered 1 ∧
    (exMetered.get exCfg 1).2 = .val (some 10) ∧ (exMetered.get exCfg 2).2 = .val none ∧
    (exMetered.get exCfg 3).2 = .val (some 30) ∧ (exMetered.get exCfg 3).1.gas.consumed = 292 ∧
    (exMetered.has exCfg 2).2 = false ∧ (exMetered.has exCfg 3).2 = true ∧
    exMetered.tree.get 2 = some 20 ∧
    (exMetered.iter exCfg none none true).2 = [(1, some 10)] ∧
    exMetered.gas.consumed + iterCost exCfg exMetered (exMetered.tree.rangeKeys exCfg none none true)
      ≤ exMetered.gas.limit := by
  decide

/-- the same block with a limit it has used up: the delete of key 2 was refused, every `Get`
    fails instead of showing the tree, `Exists` still answers for the view -/
def exFull : St Nat Nat := (run exCfg (St.new (Tree.empty ⟨1, 0, 0⟩))
  [.set 1 10, .set 2 20, .commit, .newState (some 100), .set 3 30, .del 2]).1

example : exFull.metered = true ∧ exFull.gas.consumed = 220 ∧ exFull.gas.limit = 100 ∧
    exFull.sess = none ∧ Refused exFull 1 ∧ Refused exFull 3 ∧ WriteRefused exFull ∧
    (exFull.get exCfg 1).2 = .errGas ∧ view exCfg exFull 1 = some 10 ∧
    (exFull.get exCfg 3).2 = .errGas ∧ view exCfg exFull 3 = some 30 ∧
    exFull.tree.get 3 = none ∧
    (exFull.has exCfg 1).2 = true ∧ (exFull.has exCfg 3).2 = true ∧ (exFull.has exCfg 4).2 = false ∧
    (exFull.set exCfg 5 50).2 = .errGas ∧ view exCfg (exFull.del exCfg 1) 1 = some 10 ∧
    (exFull.iter exCfg none none true).2 = [] := by
  decide

/-- … and with a session opened over it: the session's own writes stay readable, iteration lists
    the tree keys the session answers and misses the others -/
def exFullSess : St Nat Nat := (run exCfg exFull [.begin, .set 1 11, .set 5 50]).1

example : exFullSess.metered = true ∧ exFullSess.gas.consumed ≥ exFullSess.gas.limit ∧
    (exFullSess.get exCfg 1).2 = .val (some 11) ∧ (exFullSess.get exCfg 5).2 = .val (some 50) ∧
    (exFullSess.get exCfg 2).2 = .errGas ∧ view exCfg exFullSess 2 = some 20 ∧
    (exFullSess.has exCfg 2).2 = true ∧
    (exFullSess.iter exCfg none none true).2 = [(1, some 11)] ∧
    exFullSess.tree.rangeKeys exCfg none none true = [1, 2] := by
  decide

/-- pending keys are iterated: key 1 is in the tree (and deleted in the session), key 2 only in
    the block cache, key 3 only in the session; `IterateRange` lists nothing, `IterateRangeAll` the two pending keys -/
def exPending : St Nat Nat := (run exCfg (St.new (Tree.empty ⟨1, 0, 0⟩))
  [.set 1 10, .commit, .set 2 20, .begin, .set 3 30, .del 1]).1

example : exPending.metered = false ∧
    akeys exPending.tree.working = [1] ∧ akeys exPending.cache = [2] ∧
    exPending.sess.map akeys = some [3, 1] ∧
    exPending.tree.rangeKeys exCfg none none true = [1] ∧
    exPending.iterKeys exCfg none none true = [1, 2, 3] ∧
    (exPending.iter exCfg none none true).2 = [] ∧
    (exPending.iterAll exCfg none none true).2 = [(2, some 20), (3, some 30)] ∧
    (exPending.iterAll exCfg none none false).2 = [(3, some 30), (2, some 20)] ∧
    (exPending.iterAll exCfg (some 3) none true).2 = [(3, some 30)] ∧
    (exPending.iterAll exCfg none (some 3) true).2 = [(2, some 20)] ∧
    view exCfg exPending 1 = none ∧ view exCfg exPending 2 = some 20 ∧
    view exCfg exPending 3 = some 30 := by
  decide

/-- the same under a meter with gas left -/
def exPendingMetered : St Nat Nat := (run exCfg (St.new (Tree.empty ⟨1, 0, 0⟩))
  [.set 1 10, .commit, .newState (some 1000), .set 2 20, .begin, .set 3 30]).1

example : exPendingMetered.metered = true ∧
    (exPendingMetered.iter exCfg none none true).2 = [(1, some 10)] ∧
    (exPendingMetered.iterAll exCfg none none true).2 = [(1, some 10), (2, some 20), (3, some 30)] ∧
    exPendingMetered.gas.consumed +
      iterCost exCfg exPendingMetered (exPendingMetered.iterKeys exCfg none none true)
        ≤ exPendingMetered.gas.limit := by
  decide

/-- the byte order of the examples is a strict total order -/
example : StrictTotal exCfg.lt :=
  ⟨fun a => by simp [exCfg], fun a b c h1 h2 => by simp [exCfg] at *; omega,
   fun a b h => by simp [exCfg]; omega⟩

/-- with the gas used up and a session open (`exFullSess`): both iterations list only what the
    session answers; `IterateRangeAll` also the key 5 that only the session holds -/
example : (exFullSess.iter exCfg none none true).2 = [(1, some 11)] ∧
    (exFullSess.iterAll exCfg none none true).2 = [(1, some 11), (5, some 50)] ∧
    exFullSess.iterKeys exCfg none none true = [1, 2, 3, 5] ∧
    (exFull.iterAll exCfg none none true).2 = [] ∧
    (exMetered.iterAll exCfg none none true).2 = [(1, some 10), (3, some 30)] := by
  decide

/-- nothing pending: the two iterations agree (hypotheses of `iterAll_eq_iter_when_nothing_pending`) -/
def exClean : St Nat Nat := (run exCfg (St.new (Tree.empty ⟨1, 0, 0⟩))
  [.set 2 20, .set 1 10, .commit, .newState (some 1000)]).1

example : exClean.cache = [] ∧ exClean.sess = none ∧ (akeys exClean.tree.working).Nodup ∧
    (exClean.iterAll exCfg none none true).2 = [(1, some 10), (2, some 20)] ∧
    (exClean.iter exCfg none none true).2 = [(1, some 10), (2, some 20)] := by
  decide

end OLP.Props.C09

/-
  C09 — The layered state store behaves like a transactional, versioned map.

  Property theorems only (helper lemmas live in OLP/KV/Refine.lean).  All statements are
  about the executable model `OLP.KV` (OLP/KV/Model.lean), which the `kv` correspondence
  engine compares with the real `storage.State` on every run.

  `view c s : K → Option V` is what a reader of the state sees; `baseView` is what remains when
  the open transaction session is dropped; `upd f k x` is the point-wise update.
-/
import OLP.KV.Refine

namespace OLP.Props.C09
open OLP OLP.KV

variable {K V : Type} [DecidableEq K] [DecidableEq V] (c : Cfg K V)

/-! ## 1. Reads return the most recent write in scope (session ▹ block ▹ last write-out) -/

theorem get_returns_view (s : St K V) (hm : s.metered = false) (k : K) :
    s.get c k = (s, view c s k) := get_unmetered c s hm k

theorem has_returns_view (s : St K V) (hm : s.metered = false) (k : K) :
    s.has c k = (s, (view c s k).isSome) := has_unmetered c s hm k

/-- iteration enumerates the keys of the tree in range that are not deleted in an overlay and
    reports for each the value a `get` would return -/
theorem iter_returns_view (s : St K V) (hm : s.metered = false) (lo hi : Option K) (asc : Bool) :
    s.iter c lo hi asc =
      (s, ((s.tree.rangeKeys c lo hi asc).filter (fun k => !s.deleted c k)).map
            (fun k => (k, view c s k))) := iter_unmetered c s hm lo hi asc

theorem view_set (s : St K V) (hm : s.metered = false) (k : K) (v : V) (hv : v ≠ c.tomb) :
    (s.set c k v).2 = .ok ∧ view c (s.set c k v).1 = upd (view c s) k (some v) :=
  view_set_gen c s hm k v hv

/-- the TOMBSTONE marker is reserved: a write of exactly that value is refused with
    `ErrReservedValue` and changes nothing (before the fix "refuse the tombstone marker as a value"
    it was silently turned into a delete, the former known finding KF-C09-1) -/
theorem set_tombstone_refused (s : St K V) (k : K) : s.set c k c.tomb = (s, .errReserved) :=
  set_tomb c s k

/-- so every write that is accepted is read back: no hypothesis on the value -/
theorem accepted_set_is_read_back (s : St K V) (hm : s.metered = false) (k : K) (v : V)
    (h : (s.set c k v).2 = .ok) : ((s.set c k v).1.get c k).2 = some v := by
  have hv : v ≠ c.tomb := set_ok_ne_tomb c s k v h
  have hm' : (s.set c k v).1.metered = false := (set_data c s k v).2.trans hm
  rw [get_unmetered c _ hm', (view_set_gen c s hm k v hv).2]
  simp [upd]

/-! ## 2. A deleted key reads as absent -/

theorem view_del (s : St K V) (hm : s.metered = false) (k : K) :
    view c (s.del c k) = upd (view c s) k none := view_del_gen c s hm k

theorem deleted_reads_absent (s : St K V) (hm : s.metered = false) (k : K) :
    ((s.del c k).get c k).2 = none ∧ ((s.del c k).has c k).2 = false := by
  have hm' : (s.del c k).metered = false := (del_data c s k).2.trans hm
  rw [get_unmetered c _ hm', has_unmetered c _ hm', view_del_gen c s hm]
  simp [upd]

/-! ## 3. Sessions: writes of a discarded session are never visible -/

theorem view_begin (s : St K V) : view c s.begin = baseView c s := by
  funext k
  simp [view, St.begin, baseView, blockView]

theorem baseView_begin (s : St K V) : baseView c s.begin = baseView c s := rfl

theorem session_writes_keep_base (s : St K V) (h : s.sess.isSome) (k : K) (v : V) :
    baseView c (s.set c k v).1 = baseView c s ∧ baseView c (s.del c k) = baseView c s := by
  cases hs : s.sess with
  | none => simp [hs] at h
  | some o =>
    rw [del_sess c s o hs]
    refine ⟨?_, rfl⟩
    by_cases hv : v = c.tomb
    · rw [hv, set_tomb]
    · rw [set_sess c s o hs k v hv]
      rfl

theorem discard_invisible (s : St K V) : view c s.dsess = baseView c s ∧ s.dsess.sess = none := by
  refine ⟨?_, rfl⟩
  funext k
  simp [view, St.dsess, baseView, blockView]

/-- committing the session keeps what readers see (`wf`: overlays hold no key twice, which
    `wf_step` shows for every reachable state) -/
theorem csess_keeps_view (s s' : St K V) (wf : s.WF) (h : s.csess = some s') :
    view c s' = view c s ∧ baseView c s' = view c s ∧ s'.sess = none :=
  csess_keeps_view_of_nodup c s s' h wf.2.1

theorem csess_panics_iff_no_session (s : St K V) : s.csess = none ↔ s.sess = none := by
  unfold St.csess
  cases s.sess <;> simp

/-- a whole session that ends in a discard leaves the state exactly as it was -/
theorem discarded_session_noop (s : St K V) (hm : s.metered = false) (hs : s.sess = none)
    (ws : List (Op K V)) (hw : ∀ o ∈ ws, o.isKeyWrite = true ∨ o.isRead = true) :
    (run c s (.begin :: ws ++ [.dsess])).1 = s := by
  rw [List.cons_append, run_cons_fst, run_append_fst]
  obtain ⟨o', h⟩ := run_session_writes c (step c s .begin).1 hm [] rfl ws hw
  rw [h]
  show ({ s with sess := none } : St K V) = s
  cases s
  simp only at hs
  subst hs
  rfl

/-! ## 4. Commit persists exactly the block's surviving writes as a new immutable version -/

theorem commit_persists_block (s : St K V) (wf : s.WF) :
    (∀ k, (s.commit c).tree.get k = baseView c s k) ∧
    view c (s.commit c) = baseView c s ∧
    (s.commit c).tree.version = s.tree.version + 1 ∧
    (∀ k, (s.commit c).tree.getVersioned ((s.tree.version + 1 : Nat) : Int) k = baseView c s k) :=
  commit_persists_block_of_nodup c s wf.2.2 wf.1

theorem wf_empty (rot : Rot) : (Tree.empty rot : Tree K V).WF := by
  simp [Tree.WF, Tree.empty]

theorem wf_step (s : St K V) (wf : s.WF) (op : Op K V) : (step c s op).1.WF := step_WF c s wf op

/-- every state reachable from a fresh store is well formed -/
theorem wf_reachable (rot : Rot) (ops : List (Op K V)) :
    (run c (St.new (Tree.empty rot)) ops).1.WF := by
  have h0 : (St.new (Tree.empty rot) : St K V).WF := by
    refine ⟨?_, ?_, wf_empty rot⟩
    · simp [St.new, akeys]
    · intro o ho; simp [St.new] at ho
  suffices ∀ (ops : List (Op K V)) (s : St K V), s.WF → (run c s ops).1.WF from this ops _ h0
  intro ops
  induction ops with
  | nil => intro s h; simpa [run] using h
  | cons op ops ih =>
    intro s h
    have := ih (step c s op).1 (wf_step c s h op)
    simpa [run] using this

/-- earlier versions keep returning their old values (or nothing, once rotated away) -/
theorem old_versions_immutable (s : St K V) (wf : s.tree.WF) (op : Op K V) (ver : Int) (k : K)
    (hver : ver ≤ (s.tree.version : Int)) :
    (step c s op).1.tree.getVersioned ver k = s.tree.getVersioned ver k ∨
    (step c s op).1.tree.getVersioned ver k = none := by
  have _ := wf
  by_cases hc : op = .commit
  · subst hc
    have hv := writeInto_versions c s.cache s.tree
    have h := commit_getVersioned_old (writeInto c s.tree s.cache) ver k (by rw [hv.2.1]; exact hver)
    rw [getVersioned_congr s.tree (writeInto c s.tree s.cache) hv.1] at h
    exact h
  · exact Or.inl (getVersioned_congr _ _ (step_noncommit_versions c s op hc).1 ver k)

theorem noncommit_keeps_versions (s : St K V) (op : Op K V) (h : op ≠ .commit) :
    (step c s op).1.tree.versions = s.tree.versions ∧ (step c s op).1.tree.version = s.tree.version := by
  exact step_noncommit_versions c s op h

/-- reopening the database returns the last commit -/
theorem reopen_returns_last_commit (s : St K V) (wf : s.tree.WF) (k : K) :
    view c (step c s .reopen).1 k = s.tree.getVersioned (s.tree.version : Int) k := by
  have _ := wf
  rw [← reopen_get]
  simp [step, view, St.new, blockView]

/-! ## 5. The root hash input (the write log) is a function of the writes only -/

/-- reads leave an unmetered state untouched -/
theorem reads_change_nothing (s : St K V) (hm : s.metered = false) (op : Op K V)
    (hr : op.isRead = true) : (step c s op).1 = s := step_read_unmetered c s hm op hr

/-- metered or not, reads never touch overlays or tree (only the gas counter) -/
theorem reads_never_touch_data (s : St K V) (op : Op K V) (hr : op.isRead = true) :
    (step c s op).1.tree = s.tree ∧ (step c s op).1.cache = s.cache ∧ (step c s op).1.sess = s.sess := by
  have h := step_read_gasOnly c s op hr
  exact ⟨h.1, h.2.1, h.2.2.1⟩

theorem erase_reads_same_state (s : St K V) (hm : s.metered = false) (ops : List (Op K V))
    (hnm : ∀ op ∈ ops, op.isMeteredNew = false) :
    (run c s (ops.filter (fun o => !o.isRead))).1 = (run c s ops).1 := by
  induction ops generalizing s with
  | nil => rfl
  | cons op t ih =>
    have hnm' : ∀ op ∈ t, op.isMeteredNew = false := fun o ho => hnm o (List.mem_cons_of_mem _ ho)
    by_cases hr : op.isRead = true
    · rw [List.filter_cons_of_neg (by simp [hr]), run_cons_fst, step_read_unmetered c s hm op hr]
      exact ih s hm hnm'
    · rw [List.filter_cons_of_pos (by simp [hr]), run_cons_fst, run_cons_fst]
      exact ih _ (step_unmetered c s hm op (hnm op List.mem_cons_self)) hnm'

theorem log_changes_only_at_write_commit_reopen (s : St K V) (op : Op K V)
    (h : match op with | .write | .commit | .reopen => False | _ => True) :
    (step c s op).1.tree.log = s.tree.log := step_log c s op h

/-- `Write()` replays the block cache in first-write order; tombstones become removals -/
theorem commit_log_first_write_order (s : St K V) :
    (s.commit c).tree.log = s.tree.log ++ s.cache.map (toTreeOp c) ++ [.save] := by
  simp only [St.commit]
  rw [(commit_fields _).2.2.1, writeInto_log]

/-- a committed session lands in the block cache in first-write order, behind the keys
    the block already wrote -/
theorem csess_first_write_order (s s' : St K V) (o : List (K × V)) (ho : s.sess = some o)
    (hn : (akeys o).Nodup) (h : s.csess = some s') :
    akeys s'.cache = akeys s.cache ++ (akeys o).filter (fun k => decide (k ∉ akeys s.cache)) := by
  rw [csess_of_some s o ho] at h
  have h' := (Option.some.inj h).symm
  subst h'
  exact akeys_foldl_upsert o s.cache hn

/-! ## 6. Gas metering -/

theorem gas_monotone (s : St K V) (op : Op K V)
    (h : match op with | .newState _ | .reopen => False | _ => True) :
    s.gas.consumed ≤ (step c s op).1.gas.consumed := step_gas c s op h

/-- once `consumed ≥ limit` the block cache refuses: writes fail and change nothing, reads fall
    through to the tree -/
theorem gas_refusal (s : St K V) (hm : s.metered = true) (hx : s.gas.consumed ≥ s.gas.limit)
    (hs : s.sess = none) (k : K) (v : V) :
    (v ≠ c.tomb → s.set c k v = (s, .errGas)) ∧ s.del c k = s ∧ s.get c k = (s, s.tree.get k) ∧
    s.has c k = (s, s.tree.has k) := by
  have hg : ∀ cost, s.gas.consumeStrict cost = none := fun cost => consumeStrict_none _ cost hx
  refine ⟨?_, ?_, ?_, ?_⟩
  · intro hv
    simp [St.set, hs, hm, hg, hv]
  · simp [St.del, hs, hm, hg]
  · simp [St.get, St.cacheGet, hs, hm, hg]
  · simp [St.has, St.cacheHas, hs, hm, hg]

/-! ## Non-vacuity: the hypotheses are met by concrete non-trivial states -/

def exCfg : Cfg Nat Nat := { tomb := 0, vlen := fun _ => 1, lt := fun a b => decide (a < b) }
def exState : St Nat Nat := (run exCfg (St.new (Tree.empty ⟨1, 0, 0⟩))
  [.set 1 10, .set 2 20, .commit, .begin, .del 1, .set 3 30]).1

example : exState.metered = false ∧ exState.sess.isSome ∧ exState.tree.WF ∧
    view exCfg exState 1 = none ∧ view exCfg exState 3 = some 30 ∧
    baseView exCfg exState 1 = some 10 ∧ exState.tree.version = 1 := by
  have hv : exState.tree.versions = [(1, [(1, 10), (2, 20)])] := by decide
  have hn : exState.tree.version = 1 := by decide
  refine ⟨by decide, by decide, ?_, by decide, by decide, by decide, hn⟩
  unfold Tree.WF
  rw [hv, hn]
  simp

end OLP.Props.C09

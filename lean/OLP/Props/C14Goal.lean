import OLP.Gov.Lemmas

/-!
# C14 — "then voting once its goal is met before the funding deadline" (the IF direction)

`voting_starts_only_at_goal_before_deadline` (Props/C14.lean) says that voting starts ONLY through
a contribution that reaches the goal before the deadline. This file has the other direction, the
one seed C14-funds-summed-from-committed-records broke: an ACCEPTED contribution that takes the
escrow to the goal DOES start the vote, in the same transaction, with the deadline counted from
this block and the validators of this block as the electorate — a proposal cannot sit in the
funding stage with its goal met. (The monitor `goal-met-but-still-funding` of the governance engine
evaluates the same predicate on the implementation.)
-/

namespace OLP.Props.C14

open OLP OLP.Gov OLP.Ledger

/-- an accepted PROPOSAL_FUND whose value takes the escrow to the goal moves the proposal to the
    voting stage -/
theorem fund_reaching_goal_starts_voting (E : Env) (s s' : St) (pid : PID) (f : Addr) (v fee : Int) (p : Proposal)
    (ha : (s.item pid).active = some p) (hf : p.status = .funding)
    (hg : v + (s.item pid).total ≥ p.fundingGoal)
    (h : runTx E s (.fund pid f v fee) = .ok s') :
    ∃ p', (s'.item pid).active = some p' ∧ p'.status = .voting ∧
      p'.votingDeadline = s.height + (s.opts.byType p.ptype).votingDeadline ∧
      (s'.item pid).total = (s.item pid).total + v ∧
      (s'.item pid).votes = snapshot (s.item pid).votes s.vals := by
  simp only [runTx] at h
  split at h
  · cases h
  · unfold withFee at h
    split at h
    · cases h
    · rename_i s1 hs1
      split at h
      · cases h
      · rename_i b hb
        injection h with h
        subst h
        unfold runFund at hs1
        simp only [ha] at hs1
        by_cases h1 : s.height > p.fundingDeadline
        · rw [if_pos h1] at hs1; cases hs1
        · rw [if_neg h1] at hs1
          have h2 : ¬ (p.status ≠ .funding) := by simp [hf]
          rw [if_neg h2, if_pos hg] at hs1
          split at hs1
          · cases hs1
          · injection hs1 with hs1
            subst hs1
            refine ⟨{ p with status := .voting, votingDeadline := s.height + (s.opts.byType p.ptype).votingDeadline }, ?_, rfl, rfl, ?_, ?_⟩
            · simp [St.item, St.setItem, Item.addFunds, Item.withVotes, Item.set]
            · simp [St.item, St.setItem, Item.addFunds, Item.withVotes, Item.set]
            · simp [St.item, St.setItem, Item.addFunds, Item.withVotes, Item.set]

/-- the contrapositive the monitor uses: after an accepted contribution a proposal that is still
    in the funding stage has an escrow below its goal -/
theorem still_funding_means_below_goal (E : Env) (s s' : St) (pid : PID) (f : Addr) (v fee : Int) (p p' : Proposal)
    (ha : (s.item pid).active = some p) (hf : p.status = .funding)
    (h : runTx E s (.fund pid f v fee) = .ok s')
    (ha' : (s'.item pid).active = some p') (hf' : p'.status = .funding) :
    v + (s.item pid).total < p.fundingGoal := by
  by_cases hg : v + (s.item pid).total ≥ p.fundingGoal
  · obtain ⟨q, hq, hv, _⟩ := fund_reaching_goal_starts_voting E s s' pid f v fee p ha hf hg h
    rw [hq] at ha'; injection ha' with ha'; subst ha'; rw [hv] at hf'; cases hf'
  · omega

end OLP.Props.C14

import OLP.Gen.Arith
import OLP.Rewards.Model

/-!
# C13 — arithmetic leaves tied to the source by translation (T2)

`getCycleNo` as regenerated from /repo's working tree is the model's cycle arithmetic.
-/

namespace OLP.Props.C13

open OLP.Rewards

theorem cycle_no_is_source (o : Opts) (h : Int) :
    cycleNo o h = OLP.Gen.Arith.rewardCycleNo h o.cycle := rfl

theorem first_in_cycle_is_source (o : Opts) (h : Int) :
    firstInCycle o h = OLP.Gen.Arith.rewardFirstInCycle h o.cycle := rfl

theorem last_in_cycle_is_source (o : Opts) (h : Int) :
    lastInCycle o h = OLP.Gen.Arith.rewardLastInCycle h o.cycle := rfl

end OLP.Props.C13

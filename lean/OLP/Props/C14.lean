/-
  C14 — Governance proposals follow their lifecycle and their funds are accounted for.

  Property theorems only (helper lemmas live in OLP/Gov/Lemmas.lean).  All statements are about
  the executable model `OLP.Gov` (OLP/Gov/Model.lean), which the `gov` correspondence engine
  compares step by step with the real application on every run.

  Vocabulary.  `s.item pid` = every record stored under a proposal id (one optional copy of the
  proposal per prefix store, vote records, fund records, total).  `runTx E s op = .ok s'` = one
  execution of a handler — delivered in a block by ANY account, or run from the internal queue at
  EndBlock (`internal` is `runTx` without the fee).  `step` / `run` = block-level histories
  (transactions of all seven kinds, BeginBlock, EndBlock, changes of the validator records and of
  balances by other subsystems).  `WF` is the state invariant: it holds initially (`wf_init`) and
  is preserved by every operation (`wf_reachable`), so every hypothesis `WF s` below is satisfied
  by every reachable state.  `E` is the validation oracle of the option groups that are not
  modelled (staking, proposal, evidence); no theorem constrains it.
-/
import OLP.Gov.Lemmas

namespace OLP.Props.C14
open OLP OLP.Gov OLP.Ledger

/-! ## 0. The invariant holds in every reachable state -/

theorem wf_init (opts : Opts) (vals : List (Addr × ValRec)) (bal : L) (ho : OptsOK opts) (hv : VotingOK opts) :
    WF (initSt opts vals bal) := by
  refine ⟨by simp [initSt, akeys], ?_, ?_, ho, hv, ?_, by simp [initSt], ?_⟩
  · intro pid; exact wfi_empty
  · intro pid p ha; simp [initSt, St.item, alookup] at ha
  · intro pid hp; simp [initSt] at hp
  · intro pid hp; simp [initSt] at hp

/-- for all histories of create / fund / vote / cancel / withdraw / expire / finalise transactions
    from any account at any height, interleaved with validator-set changes and block progress -/
theorem wf_reachable (E : Env) (s : St) (ops : List Op) (w : WF s) : WF (run E s ops) := wf_run E s ops w

/-- a proposal in the ACTIVE store is in no other store, and it is in progress -/
theorem active_copy_is_exclusive (s : St) (w : WF s) (pid : PID) (p : Proposal) (h : (s.item pid).active = some p) :
    (s.item pid).passed = none ∧ (s.item pid).failed = none ∧ (s.item pid).finalized = none ∧
    (s.item pid).finFailed = none ∧ p.outcome = .inProgress ∧ p.status ≠ .completed := by
  obtain ⟨a, b, c, d⟩ := (w.items pid).activeExcl (by simp [h])
  obtain ⟨e, f⟩ := (w.items pid).activeOpen p h
  exact ⟨a, b, c, d, e, f⟩

/-! ## 1. A proposal moves only forward -/

/-- the stage (`Item.rank`: 0 unknown, 1 funding, 2 voting, 3 passed / failed / expired /
    cancelled / missed its goal, 4 finalised) never decreases, whatever the operation and whoever
    sends it -/
theorem stage_monotone (E : Env) (s : St) (op : Op) (ho : OptsOK s.opts) (pid : PID) :
    (s.item pid).rank ≤ ((step E s op).1.item pid).rank := (step_rank E s op ho pid).1

theorem stage_monotone_history (E : Env) (s : St) (ops : List Op) (ho : OptsOK s.opts) (pid : PID) :
    (s.item pid).rank ≤ ((run E s ops).item pid).rank := run_rank E s ops ho pid

/-- funding turns into voting only by a contribution that meets the goal, not after the funding
    deadline; the voting deadline is then set from the options -/
theorem voting_starts_only_at_goal_before_deadline (E : Env) (s s' : St) (op : Op) (ho : OptsOK s.opts)
    (h : runTx E s op = .ok s') (pid : PID) (p p' : Proposal)
    (ha : (s.item pid).active = some p) (hf : p.status = .funding)
    (ha' : (s'.item pid).active = some p') (hv : p'.status = .voting) :
    s.height ≤ p.fundingDeadline ∧ (s'.item pid).total ≥ p.fundingGoal ∧
    p'.votingDeadline = s.height + (s.opts.byType p.ptype).votingDeadline := by
  rcases runTx_item E s s' op ho h pid with e | t
  · rw [e, ha] at ha'; simp only [Option.some.injEq] at ha'; subst ha'; rw [hf] at hv; cases hv
  · rcases trans_active _ _ _ _ _ t with h1 | h1 | h1 | ⟨q, hq, _, hd, hg, hn⟩
    · rw [h1, ha] at ha'; simp only [Option.some.injEq] at ha'; subst ha'; rw [hf] at hv; cases hv
    · rw [h1] at ha'; cases ha'
    · have := Item.exists_of_get (s.item pid) .active p (by simp [ha])
      rw [h1] at this; cases this
    · rw [ha] at hq; simp only [Option.some.injEq] at hq; subst hq
      rw [hn] at ha'; simp only [Option.some.injEq] at ha'; subst ha'
      exact ⟨hd, hg, rfl⟩

/-! ## 2. Expiry only after the voting deadline

  (Full strength since the repair 66ec62f: `runExpireVotes` — registered on the public router
  and used by the internal queue alike — refuses unless the proposal is VOTING and the height is
  above its voting deadline.  Before, the statement held for the internal queue only.) -/

/-- whoever executes whatever, from any account, as a transaction or from the internal queue: a
    copy with outcome "insufficient votes" that was not there before comes from an ACTIVE
    proposal in its VOTING stage whose deadline is below the block height, and it is that
    proposal, completed -/
theorem expire_only_after_deadline (E : Env) (s s' : St) (op : Op) (ho : OptsOK s.opts)
    (h : runTx E s op = .ok s') (pid : PID) (st : Store) (q : Proposal)
    (hg : (s'.item pid).get st = some q) (hq : q.outcome = .insufficientVotes)
    (hnew : ∀ st0 p0, (s.item pid).get st0 = some p0 → p0.outcome ≠ .insufficientVotes) :
    st = .failed ∧ ∃ p, (s.item pid).active = some p ∧ p.status = .voting ∧ p.votingDeadline < s.height ∧
      q = { p with status := .completed, outcome := .insufficientVotes } := by
  rcases runTx_item E s s' op ho h pid with e | t
  · rw [e] at hg; exact absurd hq (hnew st q hg)
  · rcases trans_expiry _ _ _ _ _ t st q hg hq with ⟨st0, p0, h0, h1⟩ | h1
    · rw [hq] at h1; exact absurd h1 (hnew st0 p0 h0)
    · exact h1

/-- EndBlock as a whole: an ACTIVE copy that is gone afterwards was a VOTING proposal past its
    deadline (the queue built at BeginBlock holds nothing else) -/
theorem endblock_expiry_only_after_deadline (E : Env) (s : St) (w : WF s)
    (pid : PID) (p : Proposal) (ha : (s.item pid).active = some p) (hgone : ((endBlock E s).item pid).active = none) :
    p.status = .voting ∧ p.votingDeadline < s.height := by
  rcases endBlock_active E s pid with e | hm
  · rw [e, ha] at hgone; cases hgone
  · exact (w.queue pid hm).2 p ha

/-! ## 3. Pass / fail follows the recorded votes of the snapshot

  (Full strength since the repair aed50ba: `ResultSoFar` decides in integers, the float
  percentages are only logged.  What remains outside the theorem: Go evaluates `yesPower*100`,
  `(totalPower-noPower)*100` and `passPercent*totalPower` in int64 while the model uses unbounded
  integers, i.e. total voting power below 2^63/100 — validator power is whole OLT staked.) -/

/-- a copy with outcome yes / no that was not there before is backed by the tally over the
    committed vote records: PASSED means yes·100 ≥ pass·(all − giveup), FAILED means that even
    all remaining power voting yes would stay below the pass percentage (and it did not pass) -/
theorem outcome_follows_snapshot_votes (E : Env) (s s' : St) (op : Op) (ho : OptsOK s.opts)
    (h : runTx E s op = .ok s') (pid : PID) (st : Store) (p' : Proposal)
    (hg : (s'.item pid).get st = some p')
    (hnew : ∀ st0 p0, (s.item pid).get st0 = some p0 → p0.outcome ≠ p'.outcome) :
    (p'.outcome = .completedYes →
      passCond (yesPower (s'.item pid).votes) (totalPower (s'.item pid).votes) (giveupPower (s'.item pid).votes)
        (s.opts.byType p'.ptype).passPercent) ∧
    (p'.outcome = .completedNo →
      failCond (noPower (s'.item pid).votes) (totalPower (s'.item pid).votes) (giveupPower (s'.item pid).votes)
        (s.opts.byType p'.ptype).passPercent ∧
      ¬ passCond (yesPower (s'.item pid).votes) (totalPower (s'.item pid).votes) (giveupPower (s'.item pid).votes)
        (s.opts.byType p'.ptype).passPercent) := by
  have key : ∀ (hoc : p'.outcome = .completedYes ∨ p'.outcome = .completedNo),
      (p'.outcome = .completedYes ∧
         resultSoFar (s'.item pid).votes (s.opts.byType p'.ptype).passPercent = some .passed) ∨
      (p'.outcome = .completedNo ∧
         resultSoFar (s'.item pid).votes (s.opts.byType p'.ptype).passPercent = some .failed) := by
    intro hoc
    rcases runTx_item E s s' op ho h pid with e | t
    · rw [e] at hg; exact absurd rfl (hnew st p' hg)
    · rcases trans_outcome _ _ _ _ _ t st p' hg hoc with ⟨st0, p0, h0, h1⟩ | ⟨h1, _, h2⟩ | ⟨h1, _, h2⟩
      · exact absurd h1 (hnew st0 p0 h0)
      · exact Or.inl ⟨h1, h2⟩
      · exact Or.inr ⟨h1, h2⟩
  constructor
  · intro hy
    rcases key (Or.inl hy) with ⟨_, hr⟩ | ⟨hn, _⟩
    · exact decide3_passed _ _ _ _ _ (resultSoFar_decide3 _ _ _ hr)
    · rw [hy] at hn; cases hn
  · intro hn
    rcases key (Or.inr hn) with ⟨hy, _⟩ | ⟨_, hr⟩
    · rw [hn] at hy; cases hy
    · have := decide3_failed _ _ _ _ _ (resultSoFar_decide3 _ _ _ hr)
      exact ⟨this.2, this.1⟩

/-- a vote that leaves the proposal open means that neither threshold is crossed: no decision is
    missed either -/
theorem open_vote_means_undecided (s s' : St) (pid : PID) (a : Addr) (o : Opinion) (p : Proposal)
    (h : runVote s pid a o = .ok s') (ha : (s'.item pid).active = some p) :
    ¬ passCond (yesPower (s'.item pid).votes) (totalPower (s'.item pid).votes) (giveupPower (s'.item pid).votes)
        (s.opts.byType p.ptype).passPercent ∧
    ¬ failCond (noPower (s'.item pid).votes) (totalPower (s'.item pid).votes) (giveupPower (s'.item pid).votes)
        (s.opts.byType p.ptype).passPercent := by
  obtain ⟨p0, votes', r, ha0, _, _, _, hr, rfl⟩ := runVote_ok s s' pid a o h
  rw [St.item_setItem] at ha ⊢
  simp only [if_true] at ha ⊢
  cases r with
  | passed => simp at ha
  | failed => simp at ha
  | tbd =>
    simp only [Item.withVotes_active, ha0, Option.some.injEq] at ha
    subst ha
    simp only [Item.withVotes_votes]
    exact decide3_tbd _ _ _ _ _ (resultSoFar_decide3 _ _ _ hr)

/-- the vote records (validator, power) are written when voting begins — from the validator
    records that are active and committed at that moment — and no operation alters them later -/
theorem snapshot_fixed_when_voting_begins (E : Env) (s s' : St) (op : Op) (w : WF s)
    (h : runTx E s op = .ok s') (pid : PID) :
    powers (s'.item pid).votes = powers (s.item pid).votes ∨
    ((∃ p, (s.item pid).active = some p ∧ p.status = .funding) ∧ (s.item pid).votes = [] ∧
      ∀ kv ∈ (s'.item pid).votes, kv.2.opinion = .unknown ∧
        ∃ v ∈ s.vals, v.1 = kv.1 ∧ v.2.power = kv.2.power ∧ v.2.active = true ∧ v.2.committed = true) := by
  rcases runTx_item E s s' op w.opts h pid with e | t
  · left; rw [e]
  · rcases trans_votes _ _ _ _ _ t with h1 | ⟨p, ha, hs, hv⟩
    · left; exact h1
    · right
      have h0 := (w.items pid).fundingNoVotes p ha hs
      refine ⟨⟨p, ha, hs⟩, h0, ?_⟩
      rw [hv, h0]; exact snapshot_sound s.vals

/-! ## 4. A configuration change is applied once, only for a proposal its votes pass -/

/-- whoever executes whatever: the options and the application log change only when a
    configuration proposal that was not finalised before, whose recorded votes pass it, is
    finalised — and it is finalised (or marked finalise-failed) afterwards -/
theorem config_applied_only_for_passed_proposal (E : Env) (s s' : St) (op : Op) (h : runTx E s op = .ok s') :
    (s'.opts = s.opts ∧ s'.applied = s.applied) ∨
    ∃ pid p k v, op = .finalize pid ∧ (s.item pid).finalized = none ∧ (s.item pid).finFailed = none ∧
      (s.item pid).decided = some p ∧ p.status = .completed ∧ p.ptype = .config ∧
      resultSoFar (s.item pid).votes p.passPercent = some .passed ∧
      parseCfg p.cfg = .upd k v ∧ applyUpd E s.opts k v s.height = some s'.opts ∧
      s'.applied = s.applied ++ [pid] ∧
      ((s'.item pid).finalized.isSome ∨ (s'.item pid).finFailed.isSome) :=
  runTx_opts E s s' op h

/-- over any history no proposal's configuration change is executed twice -/
theorem config_applied_at_most_once (E : Env) (s : St) (ops : List Op) (w : WF s) :
    (run E s ops).applied.Nodup := (wf_run E s ops w).appliedNodup

/-! ## 5. Funds of a cancelled proposal, or of one that missed its goal, stay returnable in full -/

/-- for a proposal whose outcome is cancelled / insufficient funds no execution of any handler,
    by anybody, changes an escrow record or the total — except a withdrawal, which lowers one
    record and the total by the same non-negative amount, not below zero; the proposal stays
    refundable.  In particular such a proposal is never distributed. -/
theorem funds_returned_in_full_on_cancel_or_miss (E : Env) (s s' : St) (op : Op) (w : WF s)
    (h : runTx E s op = .ok s') (pid : PID) (p : Proposal)
    (hq : (s.item pid).queryAll = some p) (hr : refundable p) :
    (s'.item pid).queryAll = some p ∧
    (((∀ g, fundAmount (s'.item pid).funds g = fundAmount (s.item pid).funds g) ∧
        (s'.item pid).total = (s.item pid).total) ∨
     ∃ f v, 0 ≤ v ∧ v ≤ fundAmount (s.item pid).funds f ∧
       fundAmount (s'.item pid).funds f = fundAmount (s.item pid).funds f - v ∧
       (∀ g, g ≠ f → fundAmount (s'.item pid).funds g = fundAmount (s.item pid).funds g) ∧
       (s'.item pid).total = (s.item pid).total - v) := by
  rcases runTx_item E s s' op w.opts h pid with e | t
  · rw [e]; exact ⟨hq, Or.inl ⟨fun _ => rfl, rfl⟩⟩
  · exact trans_refundable _ _ _ _ _ (w.items pid) p hq hr t

/-- a withdrawal pays exactly the withdrawn amount to the named beneficiary (the fee step then
    moves the fee from the funder to the pool), and only the funder who signs can trigger it -/
theorem withdrawal_pays_beneficiary_in_full (E : Env) (s s' : St) (pid : PID) (f : Addr) (v : Int) (b : Addr) (fee : Int)
    (h : runTx E s (.withdraw pid f v b fee) = .ok s') :
    0 ≤ v ∧ transfer (addTo s.bal b v) f poolAcc fee = .ok s'.bal ∧
    (s'.item pid).total = (s.item pid).total - v := by
  simp only [runTx] at h
  split at h; · cases h
  rename_i hv
  obtain ⟨s1, b', h1, hfee, rfl⟩ := withFee_ok _ _ _ _ h
  obtain ⟨p, it1, it2, _, hcase, _, hd, rfl⟩ := runWithdraw_ok s s1 pid f v b h1
  have hit1 : it1.total = (s.item pid).total := by
    rcases hcase with ⟨_, rfl⟩ | ⟨_, _, _, _, rfl⟩
    · rfl
    · simp
  refine ⟨by omega, hfee, ?_⟩
  show ((s.setItem pid it2).item pid).total = _
  rw [St.item_setItem]; simp only [if_true]
  rw [deductFunds_total _ _ _ _ hd, hit1]

/-- an escrow record is lowered only by a withdrawal naming that funder (who must sign it) or by
    the distribution at finalisation -/
theorem escrow_lowered_only_by_own_withdrawal_or_distribution (E : Env) (s s' : St) (op : Op) (ho : OptsOK s.opts)
    (h : runTx E s op = .ok s') (pid : PID) (f : Addr)
    (hlt : fundAmount (s'.item pid).funds f < fundAmount (s.item pid).funds f) :
    (∃ v b fee, op = .withdraw pid f v b fee) ∨ op = .finalize pid := by
  cases op with
  | create pid0 pt pr ini fd g vd pp cfg fee =>
    exfalso
    simp only [runTx] at h
    obtain ⟨s1, b, h1, _, rfl⟩ := withFee_ok _ _ _ _ h
    obtain ⟨p, b1, _, _, _, hi, _, hex, _, rfl⟩ := runCreate_ok E s s1 pid0 pt pr ini fd g vd pp cfg ho h1
    have e : (({ ({ (s.setItem pid0 (((s.item pid0).set .active p).addFunds pr ini)) with bal := b1 } : St) with bal := b } : St).item pid).funds =
        if pid = pid0 then (((s.item pid0).set .active p).addFunds pr ini).funds else (s.item pid).funds :=
      funds_after s pid0 pid _ b
    rw [e] at hlt
    by_cases hp : pid = pid0
    · subst hp
      simp only [if_true, Item.addFunds_funds, Item.set_funds] at hlt
      have := fundAmount_addFundRec_ge (s.item pid).funds pr f ini hi
      omega
    · simp only [hp, if_false] at hlt; omega
  | fund pid0 f0 v fee =>
    exfalso
    simp only [runTx] at h
    split at h; · cases h
    rename_i hv
    obtain ⟨s1, b, h1, _, rfl⟩ := withFee_ok _ _ _ _ h
    obtain ⟨p, b1, _, _, _, _, hcase⟩ := runFund_ok s s1 pid0 f0 v h1
    have hfunds : (({ s1 with bal := b } : St).item pid).funds =
        if pid = pid0 then addFundRec (s.item pid0).funds f0 v else (s.item pid).funds := by
      rcases hcase with ⟨_, rfl⟩ | ⟨_, rfl⟩
      · have := funds_after s pid0 pid ((s.item pid0).addFunds f0 v) b
        simpa using this
      · have := funds_after s pid0 pid ((((s.item pid0).set .active { p with status := .voting, votingDeadline := s.height + (s.opts.byType p.ptype).votingDeadline }).withVotes (snapshot (s.item pid0).votes s.vals)).addFunds f0 v) b
        simpa using this
    rw [hfunds] at hlt
    by_cases hp : pid = pid0
    · subst hp
      simp only [if_true] at hlt
      have := fundAmount_addFundRec_ge (s.item pid).funds f0 f v (by omega)
      omega
    · simp only [hp, if_false] at hlt; omega
  | vote pid0 payer val o fee =>
    exfalso
    simp only [runTx] at h
    split at h
    · split at h
      · obtain ⟨s1, b, h1, _, rfl⟩ := withFee_ok _ _ _ _ h
        obtain ⟨p, votes', r, _, _, _, _, _, rfl⟩ := runVote_ok s s1 pid0 val o h1
        have hfunds : ∀ it', it'.funds = (s.item pid0).funds →
            (({ (s.setItem pid0 it') with bal := b } : St).item pid).funds = (s.item pid).funds := by
          intro it' hit
          rw [funds_after]
          by_cases hp : pid = pid0
          · subst hp; simp [hit]
          · simp [hp]
        cases r with
        | passed => rw [hfunds _ (by simp)] at hlt; omega
        | failed => rw [hfunds _ (by simp)] at hlt; omega
        | tbd => rw [hfunds _ (by simp)] at hlt; omega
      · cases h
    · cases h
  | cancel pid0 pr fee =>
    exfalso
    simp only [runTx] at h
    obtain ⟨s1, b, h1, _, rfl⟩ := withFee_ok _ _ _ _ h
    obtain ⟨p, _, _, _, _, rfl⟩ := runCancel_ok s s1 pid0 pr h1
    rw [funds_after] at hlt
    by_cases hp : pid = pid0
    · subst hp; simp at hlt
    · simp [hp] at hlt
  | withdraw pid0 f0 v b fee =>
    left
    simp only [runTx] at h
    split at h; · cases h
    obtain ⟨s1, b', h1, _, rfl⟩ := withFee_ok _ _ _ _ h
    obtain ⟨p, it1, it2, _, hcase, hfb, hd, rfl⟩ := runWithdraw_ok s s1 pid0 f0 v b h1
    have e : (({ ({ (s.setItem pid0 it2) with bal := addTo s.bal b v } : St) with bal := b' } : St).item pid).funds =
        if pid = pid0 then it2.funds else (s.item pid).funds := funds_after s pid0 pid it2 b'
    rw [e] at hlt
    by_cases hp : pid = pid0
    · subst hp
      simp only [if_true] at hlt
      have hf1 : it1.funds = (s.item pid).funds := by
        rcases hcase with ⟨_, rfl⟩ | ⟨_, _, _, _, rfl⟩
        · rfl
        · simp
      obtain ⟨r, hr', _, _, _, rfl⟩ := deductFunds_some it1 it2 f0 v hd hfb
      simp only at hlt
      rw [fundAmount_upsert, hf1] at hlt
      by_cases hf : f = f0
      · subst hf; exact ⟨v, b, fee, rfl⟩
      · simp only [hf, if_false] at hlt; omega
    · simp only [hp, if_false] at hlt; omega
  | expire pid0 =>
    exfalso
    simp only [runTx] at h
    obtain ⟨p, _, _, _, rfl⟩ := runExpire_ok s s' pid0 h
    rw [St.item_setItem] at hlt
    by_cases hp : pid = pid0
    · subst hp; simp at hlt
    · simp [hp] at hlt
  | finalize pid0 =>
    right
    by_cases hp : pid = pid0
    · rw [hp]
    · exfalso
      simp only [runTx] at h
      rcases runFinalize_ok E s s' pid0 h with ⟨rfl, _⟩ | ⟨p, r, _, _, _, _, _, hcase⟩
      · omega
      · rcases hcase with ⟨_, _, _, rfl⟩ | ⟨d, src, s2, hdm, _, hs'⟩
        · simp only [toFinFailed] at hlt
          rw [St.item_setItem] at hlt; simp [hp] at hlt
        · obtain ⟨_, _, _, _, _, _, hitems⟩ := distributeAndMove_items s s2 pid0 p d src hdm
          have h2 : s2.item pid = s.item pid := by
            rcases hitems with ⟨_, _, _, hi⟩ | ⟨_, _, _, hi⟩ <;> (rw [item_of_upsert s s2 pid0 pid _ hi]; simp [hp])
          rcases hs' with rfl | ⟨_, _, k, v, opts', _, _, rfl⟩
          · rw [h2] at hlt; omega
          · have : ({ s2 with opts := opts', applied := s.applied ++ [pid0] } : St).item pid = s2.item pid := rfl
            rw [this, h2] at hlt; omega
  | beginBlock _ => simp only [runTx, Except.ok.injEq] at h; subst h; omega
  | endBlock => simp only [runTx, Except.ok.injEq] at h; subst h; omega
  | setVals _ => simp only [runTx, Except.ok.injEq] at h; subst h; omega
  | setBal _ _ => simp only [runTx, Except.ok.injEq] at h; subst h; omega

/-! ## 6. Otherwise the funds are distributed once at finalisation, never exceeding the escrow -/

/-- a finalisation that distributes (the proposal was not finalised before and is in the FINALIZED
    store afterwards) — of a passed, a failed or an expired proposal alike: nobody is debited, the
    sum credited is at most the escrow total, the rest is burned (≥ 0), the escrow is empty
    afterwards.  Hypothesis as read: percentages of the option set not negative and ≤ 100 % in
    total.  (Without a validator record the distribution is refused, see
    `distribution_refused_without_validator_record`.) -/
theorem distributed_once_le_contributed (E : Env) (s s' : St) (pid : PID) (w : WF s)
    (hd : ∀ t, ((s.opts.byType t).passedDist).OK ∧ ((s.opts.byType t).failedDist).OK)
    (h : runTx E s (.finalize pid) = .ok s')
    (hbefore : (s.item pid).finalized = none) (hafter : (s'.item pid).finalized.isSome) :
    (∀ x, bal s.bal x ≤ bal s'.bal x) ∧
    total s'.bal - total s.bal ≤ (s.item pid).total ∧
    0 ≤ s'.burned - s.burned ∧
    total s'.bal + (s'.burned - s.burned) = total s.bal + (s.item pid).total ∧
    (s'.item pid).total = 0 ∧ (s'.item pid).funds = [] := by
  simp only [runTx] at h
  rcases runFinalize_ok E s s' pid h with ⟨rfl, _⟩ | ⟨p, r, hf1, hf2, hdec, hst, hr, hcase⟩
  · rw [hbefore] at hafter; cases hafter
  · rcases hcase with ⟨_, _, _, rfl⟩ | ⟨d, src, s2, hdm, hsrc, hs'⟩
    · simp only [toFinFailed] at hafter
      rw [St.item_setItem] at hafter; simp [hf1] at hafter
    · obtain ⟨_, _, _, _, _, _, hitems⟩ := distributeAndMove_items s s2 pid p d src hdm
      have hafter2 : (s2.item pid).finalized.isSome := by
        rcases hs' with rfl | ⟨_, _, k, v, opts', _, _, rfl⟩
        · exact hafter
        · exact hafter
      rcases hitems with ⟨_, _, _, hitems⟩ | ⟨hne, hbal, hburn, hitems⟩
      · rw [item_of_upsert s s2 pid pid _ hitems] at hafter2
        simp [hf1] at hafter2
      · obtain ⟨hbad, htot, hfunds⟩ := deleteAll_clears (s.item pid) (w.items pid)
          (final_funds_committed (s.item pid) p r (w.items pid) hdec hr)
        simp only [hbad] at hitems
        simp only [Bool.false_eq_true, if_false] at hitems
        have hdok : d.OK := by
          rcases hsrc with ⟨_, _, e⟩ | ⟨_, _, e⟩ <;> rw [e]
          · exact (hd p.ptype).1
          · exact (hd p.ptype).2
        have hT : 0 ≤ (s.item pid).total := by
          rw [(w.items pid).totalIsSum]; exact sumFunds_nonneg _ (w.items pid).fundsNonneg
        obtain ⟨b1, b2, b3⟩ := payouts_bounds s.bal (cvals s.vals) p.proposer s.opts.bountyAddr
          (s.opts.byType p.ptype).execAddr (s.item pid).total d hdok hT hne
        have b4 := payouts_total s.bal (cvals s.vals) p.proposer s.opts.bountyAddr
          (s.opts.byType p.ptype).execAddr (s.item pid).total d
        have hitem2 : s2.item pid = (((s.item pid).deleteAllFunds.1.set .finalized p).del src) := by
          rw [item_of_upsert s s2 pid pid _ hitems]; simp
        have main : (∀ x, bal s.bal x ≤ bal s2.bal x) ∧ total s2.bal - total s.bal ≤ (s.item pid).total ∧
            0 ≤ s2.burned - s.burned ∧ total s2.bal + (s2.burned - s.burned) = total s.bal + (s.item pid).total ∧
            (s2.item pid).total = 0 ∧ (s2.item pid).funds = [] := by
          rw [hbal, hburn, hitem2]
          refine ⟨b1, b3, by omega, by omega, by simpa using htot, by simpa using hfunds⟩
        rcases hs' with rfl | ⟨_, _, k, v, opts', _, _, rfl⟩
        · exact main
        · exact main

/-- the former division by zero (S20) is an error branch now: without a validator record a
    finalisation pays nothing, burns nothing and leaves the escrow as it is (the proposal is
    marked finalise-failed) -/
theorem distribution_refused_without_validator_record (E : Env) (s s' : St) (pid : PID)
    (hv : cvals s.vals = []) (h : runTx E s (.finalize pid) = .ok s') :
    s'.bal = s.bal ∧ s'.burned = s.burned ∧ (s'.item pid).total = (s.item pid).total ∧
    (s'.item pid).funds = (s.item pid).funds ∧ (s'.item pid).finalized = (s.item pid).finalized := by
  simp only [runTx] at h
  rcases runFinalize_ok E s s' pid h with ⟨rfl, _⟩ | ⟨p, r, hf1, hf2, hdec, hst, hr, hcase⟩
  · exact ⟨rfl, rfl, rfl, rfl, rfl⟩
  · rcases hcase with ⟨_, _, _, rfl⟩ | ⟨d, src, s2, hdm, hsrc, hs'⟩
    · simp only [toFinFailed]
      rw [St.item_setItem]; simp
    · obtain ⟨_, _, _, _, _, _, hitems⟩ := distributeAndMove_items s s2 pid p d src hdm
      rcases hitems with ⟨_, hbal, hburn, hitems⟩ | ⟨hne, _⟩
      · have h2 : s2.bal = s.bal ∧ s2.burned = s.burned ∧ (s2.item pid).total = (s.item pid).total ∧
            (s2.item pid).funds = (s.item pid).funds ∧ (s2.item pid).finalized = (s.item pid).finalized := by
          rw [item_of_upsert s s2 pid pid _ hitems]
          simp [hbal, hburn]
        rcases hs' with rfl | ⟨_, _, k, v, opts', _, _, rfl⟩
        · exact h2
        · exact h2
      · exact absurd hv hne

/-! ## 6b. An expired proposal does not keep its escrow: it is finalised like a failed one

  `Expired it p`: the only copy is in FAILED, completed, outcome "insufficient votes", not yet
  finalised, and the tally of its vote records — if it has any — does not pass it.
  `Settled it p`: `p` is in FINALIZED, no longer in FAILED, total 0, no fund records. -/

/-- BeginBlock queues every expired proposal for finalisation -/
theorem expired_is_queued_for_finalisation (s : St) (h : Int) (pid : PID) (p : Proposal)
    (hf : (s.item pid).failed = some p) (hs : p.status = .completed) (ho : p.outcome = .insufficientVotes) :
    pid ∈ (beginBlock s h).qFinalize := beginBlock_queues_expired s h pid p hf hs ho

/-- its finalisation — by the queue or by anybody's PROPOSAL_FINALIZE — succeeds as soon as there
    is one validator record, with or without vote records: failed distribution, FINALIZED, escrow
    empty, credits + burn = escrow; no other proposal is touched -/
theorem expired_finalisation_succeeds (E : Env) (s : St) (pid : PID) (p : Proposal) (w : WF s)
    (e : Expired (s.item pid) p) (hv : cvals s.vals ≠ []) :
    ∃ s', runTx E s (.finalize pid) = .ok s' ∧ Settled (s'.item pid) p ∧
      (∀ pid', pid' ≠ pid → s'.item pid' = s.item pid') ∧ s'.vals = s.vals ∧
      total s'.bal + (s'.burned - s.burned) = total s.bal + (s.item pid).total :=
  expired_finalize E s pid p w e hv

/-- and EndBlock does it: whatever else the two queues hold, a queued expired proposal is
    FINALIZED with an empty escrow when the block ends -/
theorem endblock_finalises_expired (E : Env) (s : St) (pid : PID) (p : Proposal) (w : WF s)
    (hq : pid ∈ s.qFinalize) (e : Expired (s.item pid) p) (hv : cvals s.vals ≠ []) :
    Settled ((endBlock E s).item pid) p := endBlock_settles_expired E s pid p w hq e hv

/-- a finalised proposal is never distributed again: finalising it once more changes nothing -/
theorem finalize_idempotent (E : Env) (s s' : St) (pid : PID)
    (hfin : (s.item pid).finalized.isSome ∨ (s.item pid).finFailed.isSome)
    (h : runTx E s (.finalize pid) = .ok s') : s' = s := by
  simp only [runTx] at h
  rcases runFinalize_ok E s s' pid h with ⟨e, _⟩ | ⟨p, r, hf1, hf2, _⟩
  · exact e
  · simp [hf1, hf2] at hfin

/-! ## 7. Value accounting of the proposal-fund handlers (for C02) -/

/-- every execution of a governance handler — create, fund, vote, cancel, withdraw, expire,
    finalise with its floor-percentage distribution, fee step included — conserves
    balances (fee pool included) + escrow totals + burned:
    Σ payouts + fee-pool remainder + burn = escrow total -/
theorem gov_handlers_conserves_value (E : Env) (s s' : St) (op : Op) (w : WF s) (h : runTx E s op = .ok s') :
    value s' + s'.burned = value s + s.burned := runTx_value E s s' op w h

/-- the same for whole blocks: every operation of a history except a balance change made by
    another subsystem — transactions from any account, BeginBlock, EndBlock with the queued
    expiries and finalisations, validator record changes — conserves balances + escrow + burned -/
theorem gov_history_conserves_value (E : Env) (s : St) (op : Op) (w : WF s) (hop : ∀ a v, op ≠ .setBal a v) :
    value (step E s op).1 + (step E s op).1.burned = value s + s.burned := step_value E s op w hop

/-- the floor split itself, for any percentages and any escrow: what is credited plus what is
    burned (burn share + remainder of the division among the validators) is the escrow total -/
theorem distribution_conserves_value (b : L) (vs : List (Addr × ValRec)) (pr bo ex : Addr) (T : Int) (d : Dist) :
    total (payouts b vs pr bo ex T d).1 + (payouts b vs pr bo ex T d).2 = total b + T :=
  payouts_total b vs pr bo ex T d

/-! ## Non-vacuity: the hypotheses are satisfiable on non-trivial states, and the counterexample -/

end OLP.Props.C14

/-! the concrete states of the non-vacuity examples and of the counterexample -/
namespace OLP.Gov.Examples
open OLP OLP.Gov OLP.Ledger OLP.Props.C14


def dPass : Dist := { validators := 180000, proposer := 180000, bounty := 100000, exec := 180000, burn := 180000 }
def dFail : Dist := { validators := 100000, proposer := 0, bounty := 500000, exec := 200000, burn := 100000 }
def po (ex : Addr) (pass : Int) : POpt :=
  { initialFunding := 10, fundingGoal := 100, votingDeadline := 4, passPercent := pass,
    passedDist := dPass, failedDist := dFail, execAddr := ex }
def opts0 (pass : Int) : Opts :=
  { config := po "xc" pass, code := po "xk" pass, general := po "xg" pass, bountyAddr := "bounty",
    minFeeDecimal := 9, perBlockFees := 1, baseDomainPrice := 0, luhFee := 0, luhOns := 0, other := [] }
def vals0 : List (Addr × ValRec) :=
  [("v1", { power := 33, active := true, committed := true }), ("v2", { power := 33, active := true, committed := true }),
   ("v3", { power := 34, active := true, committed := true })]
def bal0 : L := [("alice", 1000), ("bob", 1000), ("mallory", 50)]
def g0 : St := { initSt (opts0 51) vals0 bal0 with height := 5 }

theorem optsOK0 : OptsOK (opts0 51) := by intro t; cases t <;> decide
theorem votingOK0 : VotingOK (opts0 51) := by intro t; cases t <;> decide
theorem wf_g0 : WF g0 := by
  have := wf_init (opts0 51) vals0 bal0 optsOK0 votingOK0
  exact ⟨this.keys, this.items, fun pid p ha => by simp [g0, initSt, St.item, alookup] at ha, this.opts, this.voting,
    fun pid hp => by simp [g0, initSt] at hp, this.appliedNodup, this.appliedFinal⟩

/-- alice creates a general proposal (funding deadline 9, voting deadline 13) -/
def g1 : St := run smallEnv g0 [.create "p" .general "alice" 20 9 100 13 51 "" 1]

/-- a full lifecycle: bob funds to the goal in block 6 (snapshot 33/33/34), v3 and v1 vote yes in
    block 7 (67 ≥ 51 %: passed), EndBlock 8 finalises and distributes the 100 units -/
def g2 : St := run smallEnv g1 [.beginBlock 6, .fund "p" "bob" 80 1, .endBlock]
def g3 : St := run smallEnv g2 [.beginBlock 7, .vote "p" "alice" "v3" .yes 1, .vote "p" "bob" "v1" .yes 1, .endBlock]
def g4 : St := run smallEnv g3 [.beginBlock 8, .endBlock]
/-- cancel and refund: alice cancels, then withdraws her 20 in two parts to bob and to herself -/
def c1 : St := run smallEnv g1 [.cancel "p" "alice" 1]
def c2 : St := run smallEnv c1 [.beginBlock 6, .withdraw "p" "alice" 5 "bob" 1, .withdraw "p" "alice" 15 "alice" 1]
/-- … and an internal expiry (voting deadline 10, block 11), finalised in block 12 -/
def e1 : St := run smallEnv g2 [.beginBlock 11]
def e2 : St := run smallEnv e1 [.endBlock, .beginBlock 12]
def pe : Proposal := { ptype := .general, status := .completed, outcome := .insufficientVotes, proposer := "alice", fundingDeadline := 9, fundingGoal := 100, votingDeadline := 10, passPercent := 51, cfg := "" }
def e3 : St := run smallEnv e2 [.endBlock]
/-- the same chain while no validator is marked active: voting begins with an empty snapshot -/
def vals1 : List (Addr × ValRec) :=
  [("v1", { power := 33, active := false, committed := true }), ("v2", { power := 67, active := false, committed := true })]
def n0 : St := { initSt (opts0 51) vals1 bal0 with height := 5 }
def n1 : St := run smallEnv n0 [.create "p" .general "alice" 20 9 100 13 51 "" 1, .beginBlock 6, .fund "p" "bob" 80 1, .endBlock,
  .beginBlock 11, .endBlock, .beginBlock 12]
def n2 : St := run smallEnv n1 [.endBlock]

end OLP.Gov.Examples

namespace OLP.Props.C14
open OLP OLP.Gov OLP.Ledger OLP.Gov.Examples
/-- regression for the repaired S19 (KF-C14-1): at height 5 the proposal is in its FUNDING stage,
    deadlines 9 and 13 ahead; mallory — neither proposer, funder nor validator — sends
    EXPIRE_VOTES: refused with "not in voting status", nothing changes, nothing is charged -/
theorem outsider_expiry_before_deadline_refused :
    ((g1.item "p").active.map (fun p => (p.status, p.fundingDeadline, p.votingDeadline))) = some (.funding, 9, 13) ∧
    g1.height = 5 ∧
    (step smallEnv g1 (.expire "p")).2 = .err .statusNotVoting ∧
    ((step smallEnv g1 (.expire "p")).1.item "p") = g1.item "p" ∧
    (step smallEnv g1 (.expire "p")).1.bal = g1.bal := by decide

/-- … also in the voting stage while the deadline (10) has not passed; at height 11 anybody may -/
theorem outsider_expiry_in_voting_stage :
    (step smallEnv (run smallEnv g2 [.beginBlock 10]) (.expire "p")).2 = .err .statusNotVoting ∧
    (step smallEnv (run smallEnv g2 [.beginBlock 11]) (.expire "p")).2 = .ok := by decide

/-- regression for the repaired tally (KF-C14-2): pass percentage 67, powers 33/33/34, one NO of
    power 33 is exactly the boundary (100−33)/100 = 67/100: the proposal stays undecided, and a
    second NO fails it -/
theorem boundary_vote_stays_undecided :
    decide3 0 33 100 0 67 = .tbd ∧ decide3 0 66 100 0 67 = .failed ∧ decide3 67 33 100 0 67 = .passed := by decide

example : (g2.item "p").active.map (·.status) = some .voting ∧ powers (g2.item "p").votes = [("v1", 33), ("v2", 33), ("v3", 34)] := by decide
example : (g3.item "p").passed.map (·.outcome) = some .completedYes ∧ (g3.item "p").rank = 3 := by decide
example : (g4.item "p").finalized.isSome ∧ (g4.item "p").total = 0 ∧ (g4.item "p").rank = 4 ∧
    bal g4.bal "v1" = 6 ∧ bal g4.bal "bounty" = 10 ∧ bal g4.bal "xg" = 18 ∧ g4.burned = 18 ∧
    value g4 + g4.burned = value g0 + g0.burned := by decide

/-- `WF`, `OptsOK`, `Dist.OK` hold of these states; the hypotheses of the theorems above are met -/
example : WF g3 := wf_reachable smallEnv _ _ (wf_reachable smallEnv _ _ (wf_reachable smallEnv g0 _ wf_g0))
example : (dPass).OK ∧ (dFail).OK := ⟨⟨by decide, by decide, by decide, by decide, by decide, by decide⟩,
  ⟨by decide, by decide, by decide, by decide, by decide, by decide⟩⟩
example : ∃ s', runTx smallEnv (beginBlock g3 8) (.finalize "p") = .ok s' ∧ (s'.item "p").finalized.isSome := by
  refine ⟨_, rfl, by decide⟩

example : (c1.item "p").queryAll.map (·.outcome) = some .cancelled ∧ (c1.item "p").total = 20 := by decide
example : (c2.item "p").total = 0 ∧ bal c2.bal "bob" = 1005 ∧ fundAmount (c2.item "p").funds "alice" = 0 := by decide
example : e1.qExpire = ["p"] ∧ ((step smallEnv e1 .endBlock).1.item "p").failed.map (·.outcome) = some .insufficientVotes := by decide

/-- regression for the repaired locked escrow (53b7f97): the proposal that expired in block 11 is
    queued in block 12 and finalised at its end with the failed distribution; value is conserved -/
theorem expired_proposal_is_finalised_next_block :
    e2.qFinalize = ["p"] ∧ (e2.item "p").total = 100 ∧
    (e3.item "p").finalized.isSome ∧ (e3.item "p").failed = none ∧ (e3.item "p").total = 0 ∧ (e3.item "p").funds = [] ∧
    bal e3.bal "bounty" = 50 ∧ value e3 + e3.burned = value g0 + g0.burned := by decide

/-- the hypotheses of `expired_finalisation_succeeds` / `endblock_finalises_expired` are met there -/
example : Expired (e2.item "p") pe ∧ "p" ∈ e2.qFinalize ∧ cvals e2.vals ≠ [] :=
  ⟨⟨by decide, by decide, by decide, by decide, by decide, by decide⟩, by decide, by decide⟩

/-- regression for ef9520b: voting began while no validator was active (no vote records at all);
    the expired proposal is finalised all the same -/
theorem expired_without_vote_records_is_finalised :
    (n1.item "p").votes = [] ∧ (n1.item "p").failed.map (·.outcome) = some .insufficientVotes ∧ n1.qFinalize = ["p"] ∧
    (n2.item "p").finalized.isSome ∧ (n2.item "p").total = 0 ∧ value n2 + n2.burned = value n0 + n0.burned := by decide



end OLP.Props.C14

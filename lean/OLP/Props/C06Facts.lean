/-
  C06 — obligations over the REGENERATED fact tables (tie T3).
-/
import OLP.Shell.Expect

namespace OLP.Props.C06.Facts
open OLP.Expect

/-- DeliverTx: index lookup, BeginTxSession, ProcessDeliver, ProcessFee, and
    `if !(ok && feeOk) { Discard } else { Commit }` — the shape `OLP.Shell.deliverTx` models -/
theorem deliverer_discipline :
    OLP.Gen.sessionRule.filter (fun r => r.fn == "txDeliverer") =
    sessionRule.filter (fun r => r.fn == "txDeliverer") := by decide

/-- the only deliver-path writers of in-memory option copies are the governance update functions
    (run inside PROPOSAL_FINALIZE, which never fails after they ran) -/
theorem volatile_setters_as_classified : OLP.Gen.volatileSets = volatileSets := by decide

/-- the ABCI entry points the shell model ports are unchanged since the port was validated -/
theorem entry_points_source_pinned :
    OLP.Expect.pinnedOf OLP.Gen.pinned (pinnedShell.map (fun r => r.fn)) = pinnedShell := by decide

end OLP.Props.C06.Facts

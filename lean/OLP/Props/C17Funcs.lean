import OLP.Gen.Funcs
import OLP.Olvm.Model

/-!
# C17 — the money side of an OLVM transaction, tied to the source by translation (T2b)

`StateTransition.gasUsed` is translated whole; the cost bought in `buyGas`, the quotient of
`refundGas` and the amount it returns are translated assignments. The model's debit, its gas left
after the refund and its credit are these expressions, so "exactly gas used times gas price" is
a statement about the source's own formulas.
-/

namespace OLP.Props.C17

open OLP.Olvm
open OLP.Gen

/-- what `buyGas` debits is gas limit × price of the source -/
theorem buyGas_cost_is_source (tx : Tx) :
    ((gasU tx : Int) * tx.price) = Funcs.olvmBuyGasCost (gasU tx) tx.price := rfl

/-- the gas left after `refundGas`: what the run left plus the source's quotient of the gas used,
    capped by the refund counter -/
theorem gasFinal_is_source (tx : Tx) (vm : VmOut) (gasLeft : Nat) (h : gasLeft ≤ gasU tx) :
    (gasFinal tx vm gasLeft : Int) =
      gasLeft + min (Funcs.olvmRefundQuot (Funcs.olvmGasUsed gasLeft (gasU tx)) 3) (vm.refund : Int) := by
  unfold gasFinal Funcs.olvmRefundQuot Funcs.olvmGasUsed refundQuotient
  have h1 : ((gasU tx - gasLeft : Nat) : Int) = (gasU tx : Int) - (gasLeft : Int) := by omega
  rw [← h1]
  have h2 : Int.tdiv ((gasU tx - gasLeft : Nat) : Int) 3 = (((gasU tx - gasLeft) / 3 : Nat) : Int) := by
    rw [Int.tdiv_eq_ediv_of_nonneg (by omega)]; rfl
  rw [h2]
  omega

/-- what `refundGas` credits is gas left × price of the source -/
theorem refund_credit_is_source (tx : Tx) (vm : VmOut) (gasLeft : Nat) :
    ((gasFinal tx vm gasLeft : Int) * tx.price) = Funcs.olvmRemaining (gasFinal tx vm gasLeft) tx.price := rfl

/-- debit minus credit is gas used × price, in the source's own terms -/
theorem net_charge_is_gas_used_times_price (g0 gEnd price : Int) :
    Funcs.olvmBuyGasCost g0 price - Funcs.olvmRemaining gEnd price = Funcs.olvmGasUsed gEnd g0 * price := by
  unfold Funcs.olvmBuyGasCost Funcs.olvmRemaining Funcs.olvmGasUsed
  rw [Int.sub_mul]

example : Funcs.olvmRefundQuot (Funcs.olvmGasUsed 4000 25000) 3 = 7000 := by decide

/-! ### intrinsic gas: the whole function, byte loop and overflow guards included -/

/-- the non-zero bytes of a payload -/
def nzCount (data : List Int) : Nat := (data.filter (fun b => b ≠ 0)).length

theorem foldl_nz {f : Int → Int → Int} (hf : ∀ a b, f a b = a + (if b ≠ 0 then 1 else 0))
    (data : List Int) (a : Int) : List.foldl f a data = a + (nzCount data : Int) := by
  induction data generalizing a with
  | nil => simp [nzCount]
  | cons b bs ih =>
    simp only [List.foldl_cons, ih, hf, nzCount, List.filter_cons]
    by_cases hb : b = 0 <;> simp [hb] <;> omega

theorem nzCount_le (data : List Int) : nzCount data ≤ data.length := by
  unfold nzCount; exact List.length_filter_le _ _

theorem guard16 (g z : Int) (hg : 0 ≤ g ∧ g ≤ 100000000) (hz : z ≤ 131072) :
    ¬ Int.tdiv (18446744073709551615 - g) 16 < z := by
  rw [Int.tdiv_eq_ediv_of_nonneg (by omega)]; omega

theorem guard4 (g z : Int) (hg : 0 ≤ g ∧ g ≤ 100000000) (hz : z ≤ 131072) :
    ¬ Int.tdiv (18446744073709551615 - g) 4 < z := by
  rw [Int.tdiv_eq_ediv_of_nonneg (by omega)]; omega

/-- `IntrinsicGas` of the source (whole function, with its two overflow guards and the byte
    loop) is the model's formula for every payload below the transaction size limit and no access
    list -/
theorem intrinsicGas_is_source (data : List Int) (create : Bool) (hs : data.length ≤ txMaxSize) :
    Funcs.olvmIntrinsicGas data create true 0 0 =
      (((intrinsicGas (nzCount data) (data.length - nzCount data) create : Nat) : Int), false) := by
  have hle := nzCount_le data
  have hsz : data.length ≤ 131072 := hs
  have hf : ∀ a b : Int, (if decide (b ≠ 0) = true then a + 1 else a) = a + (if b ≠ 0 then 1 else 0) := by
    intro a b; by_cases hb : b = 0 <;> simp [hb]
  unfold Funcs.olvmIntrinsicGas intrinsicGas
  by_cases hd : data.length = 0
  · have hn : nzCount data = 0 := by omega
    cases create <;> simp [hd, hn]
  · have hpos : (0 : Int) < (data.length : Int) := by omega
    have e16a := guard16 53000 (nzCount data : Int) (by omega) (by omega)
    have e16b := guard16 21000 (nzCount data : Int) (by omega) (by omega)
    have e4a := guard4 (53000 + (nzCount data : Int) * 16) ((data.length : Int) - (nzCount data : Int)) (by omega) (by omega)
    have e4b := guard4 (21000 + (nzCount data : Int) * 16) ((data.length : Int) - (nzCount data : Int)) (by omega) (by omega)
    cases create
    · simp only [Bool.false_eq_true, if_false]
      rw [foldl_nz]
      · have p1 : decide (Int.ofNat data.length > 0) = true := by
          rw [decide_eq_true_eq]; exact hpos
        rw [if_pos p1, Int.zero_add]
        have q1 : ¬ decide ((18446744073709551615 - 21000 : Int).tdiv 16 < ↑(nzCount data)) = true := by
          rw [decide_eq_true_eq]; exact e16b
        rw [if_neg q1]
        have q2 : ¬ decide ((18446744073709551615 - (21000 + (↑(nzCount data) : Int) * 16)).tdiv 4 <
            Int.ofNat data.length - ↑(nzCount data)) = true := by
          rw [decide_eq_true_eq]; exact e4b
        rw [if_neg q2]
        have q3 : ¬ ((!true) = true) := by decide
        rw [if_neg q3]
        congr 1
        show (21000 : Int) + ↑(nzCount data) * 16 + ((data.length : Int) - ↑(nzCount data)) * 4 = _
        omega
      · intro a b; by_cases hb : b = 0 <;> simp [hb]
    · simp only [if_true]
      rw [foldl_nz]
      · have p1 : decide (Int.ofNat data.length > 0) = true := by
          rw [decide_eq_true_eq]; exact hpos
        rw [if_pos p1, Int.zero_add]
        have q1 : ¬ decide ((18446744073709551615 - 53000 : Int).tdiv 16 < ↑(nzCount data)) = true := by
          rw [decide_eq_true_eq]; exact e16a
        rw [if_neg q1]
        have q2 : ¬ decide ((18446744073709551615 - (53000 + (↑(nzCount data) : Int) * 16)).tdiv 4 <
            Int.ofNat data.length - ↑(nzCount data)) = true := by
          rw [decide_eq_true_eq]; exact e4a
        rw [if_neg q2]
        have q3 : ¬ ((!true) = true) := by decide
        rw [if_neg q3]
        congr 1
        show (53000 : Int) + ↑(nzCount data) * 16 + ((data.length : Int) - ↑(nzCount data)) * 4 = _
        omega
      · intro a b; by_cases hb : b = 0 <;> simp [hb]

end OLP.Props.C17

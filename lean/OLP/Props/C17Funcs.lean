import OLP.Gen.Funcs
import OLP.Olvm.Model

/-!
# C17 — the money side of an OLVM transaction, tied to the source by translation (T2b)

`StateTransition.gasUsed` is translated whole; the cost bought in `buyGas`, the quotient of
`refundGas` and the amount it returns are translated assignments. The model's debit, its gas left
after the refund and its credit are these expressions, so "exactly gas used times gas price" is
a statement about the source's own formulas.
-/

namespace OLP.Props.C17

open OLP.Olvm
open OLP.Gen

/-- what `buyGas` debits is gas limit × price of the source -/
theorem buyGas_cost_is_source (tx : Tx) :
    ((gasU tx : Int) * tx.price) = Funcs.olvmBuyGasCost (gasU tx) tx.price := rfl

/-- the gas left after `refundGas`: what the run left plus the source's quotient of the gas used,
    capped by the refund counter -/
theorem gasFinal_is_source (tx : Tx) (vm : VmOut) (gasLeft : Nat) (h : gasLeft ≤ gasU tx) :
    (gasFinal tx vm gasLeft : Int) =
      gasLeft + min (Funcs.olvmRefundQuot (Funcs.olvmGasUsed gasLeft (gasU tx)) 3) (vm.refund : Int) := by
  unfold gasFinal Funcs.olvmRefundQuot Funcs.olvmGasUsed refundQuotient
  have h1 : ((gasU tx - gasLeft : Nat) : Int) = (gasU tx : Int) - (gasLeft : Int) := by omega
  rw [← h1]
  have h2 : Int.tdiv ((gasU tx - gasLeft : Nat) : Int) 3 = (((gasU tx - gasLeft) / 3 : Nat) : Int) := by
    rw [Int.tdiv_eq_ediv_of_nonneg (by omega)]; rfl
  rw [h2]
  omega

/-- what `refundGas` credits is gas left × price of the source -/
theorem refund_credit_is_source (tx : Tx) (vm : VmOut) (gasLeft : Nat) :
    ((gasFinal tx vm gasLeft : Int) * tx.price) = Funcs.olvmRemaining (gasFinal tx vm gasLeft) tx.price := rfl

/-- debit minus credit is gas used × price, in the source's own terms -/
theorem net_charge_is_gas_used_times_price (g0 gEnd price : Int) :
    Funcs.olvmBuyGasCost g0 price - Funcs.olvmRemaining gEnd price = Funcs.olvmGasUsed gEnd g0 * price := by
  unfold Funcs.olvmBuyGasCost Funcs.olvmRemaining Funcs.olvmGasUsed
  rw [Int.sub_mul]

example : Funcs.olvmRefundQuot (Funcs.olvmGasUsed 4000 25000) 3 = 7000 := by decide

end OLP.Props.C17

/-
  C12 — Delegation pool consistency and undelegation maturity.

  Property theorems only (helper lemmas: OLP/Deleg/Lemmas.lean).  All statements are about the
  executable model `OLP.Deleg` (OLP/Deleg/Model.lean), a port of the four `run*` handlers of
  action/network_delegation, the pool donations (SENDPOOL / SEND) and the BeginBlock hooks
  `addMaturedAmountsToBalance`, `handleDelegationRewards`, `matureDelegationRewards`; the `deleg`
  correspondence engine compares it with the real application on every run.

  A history is any list of `Op`s: the five transaction kinds (a failing one is a no-op, as the
  controller discards its session), `env a d` (any other change of a non-pool balance: fees,
  transfers, staking …) and `beginBlock T` (next height; `T` = this block's delegation reward).
  `run c (Hist.init bal) ops` starts from empty delegation stores and arbitrary balances.
  Ghost logs in `Hist` (never read by the mechanism): `ulog`/`wlog` (block, addr) ↦ amount of a
  successful undelegate / reward withdraw, `paid`/`rwPaid` (height, addr) ↦ amount credited by
  BeginBlock, `alog` accrued rewards, `rlog` reinvested rewards, `donated`.

  Hypotheses are decidable predicates on the configuration and the inputs:
    `op.wf c`            nobody acts as the pool address,
    `c.checkSign = true` runUndelegate / runDeleWithdraw / runReinvest refuse negative amounts — the
                         code since commit 1db1c08 (S5).  Section 6 proves the check necessary: with
                         `checkSign = false` (the code before) each clause has a counterexample; the
                         harness replays those histories on the implementation, which must refuse them,
    `op.donationChecked` donations go through the sign-validating paths (SEND; SENDPOOL since 626f990),
    `op.rewardNonneg`    the block's delegation reward is ≥ 0 (computed by the C13 machinery),
    `c.sepPrefix = true` `IteratePendingAmounts` ranges over `deleg_p_<height>_` — the code since commit
                         4adafc1 (S17): exact for EVERY maturity ≥ 1.  Section 5 keeps the old,
                         un-separated prefix (`sepPrefix = false`) as theorems `old_prefix_…`: it is
                         exact iff maturity ≤ 9·height, with the double payment for maturity 19 and
                         the collision for devnet's 109200,
    `1 ≤ c.maturity`     a maturity of 0 would create the pending entry after its own BeginBlock.
-/
import OLP.Deleg.Lemmas

namespace OLP.Props.C12
open OLP OLP.Deleg

variable {A : Type} [DecidableEq A]

/-! ## 1. Pool balance vs. active delegations -/

/-- At every point of every history the pool balance is the sum of the active delegations plus
    what the pool held initially plus the donations — for all amounts, also negative ones. -/
theorem pool_eq_active_plus_donations (c : Cfg A) (bal : List (A × Int)) (ops : List (Op A))
    (hw : ∀ op ∈ ops, op.wf c = true) :
    (run c (Hist.init bal) ops).st.balOf c.pool =
      sumV (run c (Hist.init bal) ops).st.active + getD bal c.pool + (run c (Hist.init bal) ops).donated := by
  have h := run_induct c (PoolInv c (getD bal c.pool)) (fun op => op.wf c = true)
    (fun H op hop inv => step_poolInv c _ H op hop inv) (Hist.init bal)
    ⟨by simp [Hist.init, St.empty, St.balOf, sumV], by simp [Hist.init, St.empty, akeys],
     by simp [Hist.init, St.empty, akeys]⟩ ops hw
  exact h.eq

theorem donated_nonneg (c : Cfg A) (H : Hist A) (ops : List (Op A)) (h0 : 0 ≤ H.donated)
    (hd : ∀ op ∈ ops, op.donationChecked = true) : 0 ≤ (run c H ops).donated := by
  refine run_induct c (fun H => 0 ≤ H.donated) (fun op => op.donationChecked = true) ?_ H h0 ops hd
  intro H op hop inv
  cases op with
  | tx t =>
    simp only [step]
    cases hh : handler c H.st H.height t with
    | error e => exact inv
    | ok s' =>
      cases t with
      | donate a amt ck =>
        have hck : ck = true := hop
        obtain ⟨_, hs, _⟩ := donate_ok (by simpa [handler] using hh)
        have : 0 ≤ amt := hs hck
        show 0 ≤ H.donated + amt
        omega
      | delegate a amt => exact inv
      | undelegate a amt => exact inv
      | withdraw a amt => exact inv
      | reinvest a amt => exact inv
  | env a d => exact inv
  | beginBlock T => exact inv

theorem donated_zero (c : Cfg A) (H : Hist A) (ops : List (Op A)) (h0 : H.donated = 0)
    (hd : ∀ op ∈ ops, op.isDonation = false) : (run c H ops).donated = 0 := by
  refine run_induct c (fun H => H.donated = 0) (fun op => op.isDonation = false) ?_ H h0 ops hd
  intro H op hop inv
  cases op with
  | tx t =>
    simp only [step]
    cases hh : handler c H.st H.height t with
    | error e => exact inv
    | ok s' =>
      cases t with
      | donate a amt ck => cases hop
      | delegate a amt => exact inv
      | undelegate a amt => exact inv
      | withdraw a amt => exact inv
      | reinvest a amt => exact inv
  | env a d => exact inv
  | beginBlock T => exact inv

/-- pool ≥ Σ active: donations cannot be negative (`runTx` and `sendPoolTx.Validate` check the sign) -/
theorem pool_ge_active (c : Cfg A) (bal : List (A × Int)) (ops : List (Op A))
    (hw : ∀ op ∈ ops, op.wf c = true) (h0 : 0 ≤ getD bal c.pool)
    (hd : ∀ op ∈ ops, op.donationChecked = true) :
    sumV (run c (Hist.init bal) ops).st.active ≤ (run c (Hist.init bal) ops).st.balOf c.pool := by
  have h1 := pool_eq_active_plus_donations c bal ops hw
  have h2 := donated_nonneg c (Hist.init bal) ops (by simp [Hist.init]) hd
  omega

/-- … and equal to it when nobody donated and the pool started empty. -/
theorem pool_eq_active_without_donation (c : Cfg A) (bal : List (A × Int)) (ops : List (Op A))
    (hw : ∀ op ∈ ops, op.wf c = true) (h0 : getD bal c.pool = 0)
    (hd : ∀ op ∈ ops, op.isDonation = false) :
    (run c (Hist.init bal) ops).st.balOf c.pool = sumV (run c (Hist.init bal) ops).st.active := by
  have h1 := pool_eq_active_plus_donations c bal ops hw
  have h2 := donated_zero c (Hist.init bal) ops (by simp [Hist.init]) hd
  omega

/-! ## 2. An undelegated amount leaves the active set immediately and is not paid now -/

/-- exact effect of a successful `runUndelegate` (any amount) -/
theorem undelegate_effect (c : Cfg A) (s s' : St A) (h : Nat) (a : A) (amt : Int) (ha : a ≠ c.pool)
    (hk : undelegate c s h a amt = .ok s') :
    getD s'.active a = getD s.active a - amt ∧
    (∀ b, b ≠ a → getD s'.active b = getD s.active b) ∧
    sumV s'.active = sumV s.active - amt ∧
    s'.balOf c.pool = s.balOf c.pool - amt ∧
    s'.balOf a = s.balOf a ∧
    getD s'.pending (h + c.maturity, a) = getD s.pending (h + c.maturity, a) + amt ∧
    (∀ k, k ≠ (h + c.maturity, a) → getD s'.pending k = getD s.pending k) := by
  obtain ⟨_, _, _, rfl⟩ := undelegate_ok hk
  refine ⟨by simp, ?_, ?_, by simp [St.balOf], ?_, by simp, ?_⟩
  · intro b hb; simp [getD_upsert, hb]
  · rw [sumV_upsert]; omega
  · simp [St.balOf, getD_upsert, ha]
  · intro k hk'; simp [getD_upsert, hk']

/-- a successful undelegate never raises the delegator's active amount: it leaves the active set
    at once, and nothing is paid now -/
theorem undelegate_leaves_active_now (c : Cfg A) (hc : c.checkSign = true) (s s' : St A) (h : Nat) (a : A)
    (amt : Int) (ha : a ≠ c.pool) (hk : undelegate c s h a amt = .ok s') :
    0 ≤ amt ∧ getD s'.active a = getD s.active a - amt ∧ getD s'.active a ≤ getD s.active a ∧
    sumV s'.active ≤ sumV s.active ∧ s'.balOf a = s.balOf a := by
  obtain ⟨h1, _, h3, _, h5, _, _⟩ := undelegate_effect c s s' h a amt ha hk
  have h0 : 0 ≤ amt := (undelegate_ok hk).2.2.1 hc
  exact ⟨h0, h1, by omega, by omega, h5⟩

/-- negative amounts are refused by the three handlers -/
theorem negative_amounts_refused (c : Cfg A) (hc : c.checkSign = true) (s : St A) (h : Nat) (a : A)
    (amt : Int) (hneg : amt < 0) :
    undelegate c s h a amt = .error .invalidAmount ∧ withdraw c s h a amt = .error .invalidAmount ∧
    reinvest c s a amt = .error .invalidAmount := by
  simp [undelegate, withdraw, reinvest, hc, hneg]

/-! ## 3. Paid exactly once, at the maturity height, to the delegator -/

/-- every balance change made by BeginBlock is one of the logged maturity payments -/
theorem begin_credits_exactly_log (c : Cfg A) (s : St A) (h : Nat) (T : Int) (a : A) :
    (beginBlock c s h T).st.balOf a =
      s.balOf a + sumKey a (beginBlock c s h T).paid + sumKey a (beginBlock c s h T).rwPaid :=
  beginBlock_balOf c s h T a

theorem undInv_reachable (c : Cfg A) (hM : 1 ≤ c.maturity) (hex : c.sepPrefix = true ∨ c.maturity ≤ 9)
    (bal : List (A × Int)) (ops : List (Op A)) : UndInv c (run c (Hist.init bal) ops) :=
  run_induct c (UndInv c) (fun _ => True) (fun H op _ inv => step_undInv c hM hex H op inv)
    (Hist.init bal) (undInv_init c bal) ops (fun _ _ => trivial)

theorem rwdInv_reachable (c : Cfg A) (hM : 1 ≤ c.maturity) (bal : List (A × Int))
    (ops : List (Op A)) : RwdInv c (run c (Hist.init bal) ops) :=
  run_induct c (RwdInv c) (fun _ => True) (fun H op _ inv => step_rwdInv c hM H op inv)
    (Hist.init bal) (rwdInv_init c bal) ops (fun _ _ => trivial)

/-- The payment log is exactly: one payment per (delegator, block in which it undelegated), made at
    that block's height + maturity, of the total undelegated in that block — for every maturity ≥ 1
    and all amounts.  (`hex`: the separated prefix, or the old one with maturity ≤ 9.) -/
theorem paid_exactly_once_gen (c : Cfg A) (hM : 1 ≤ c.maturity) (hex : c.sepPrefix = true ∨ c.maturity ≤ 9)
    (bal : List (A × Int)) (ops : List (Op A)) (h : Nat) (a : A) (x : Int) :
    ((h, a), x) ∈ (run c (Hist.init bal) ops).paid ↔
      (c.maturity ≤ h ∧ h ≤ (run c (Hist.init bal) ops).height ∧
       (h - c.maturity, a) ∈ akeys (run c (Hist.init bal) ops).ulog ∧
       x = sumKey (h - c.maturity, a) (run c (Hist.init bal) ops).ulog) :=
  (undInv_reachable c hM hex bal ops).pd h a x

theorem paid_exactly_once_at_maturity (c : Cfg A) (hs : c.sepPrefix = true) (hM : 1 ≤ c.maturity)
    (bal : List (A × Int)) (ops : List (Op A)) (h : Nat) (a : A) (x : Int) :
    ((h, a), x) ∈ (run c (Hist.init bal) ops).paid ↔
      (c.maturity ≤ h ∧ h ≤ (run c (Hist.init bal) ops).height ∧
       (h - c.maturity, a) ∈ akeys (run c (Hist.init bal) ops).ulog ∧
       x = sumKey (h - c.maturity, a) (run c (Hist.init bal) ops).ulog) :=
  paid_exactly_once_gen c hM (Or.inl hs) bal ops h a x

theorem never_early_or_twice_gen (c : Cfg A) (hM : 1 ≤ c.maturity) (hex : c.sepPrefix = true ∨ c.maturity ≤ 9)
    (bal : List (A × Int)) (ops : List (Op A)) :
    (akeys (run c (Hist.init bal) ops).paid).Nodup ∧
    (∀ hb a, (run c (Hist.init bal) ops).height < hb + c.maturity →
        (∀ x, ((hb + c.maturity, a), x) ∉ (run c (Hist.init bal) ops).paid) ∧
        getD (run c (Hist.init bal) ops).st.pending (hb + c.maturity, a) =
          sumKey (hb, a) (run c (Hist.init bal) ops).ulog) ∧
    (∀ h' a, h' ≤ (run c (Hist.init bal) ops).height →
        getD (run c (Hist.init bal) ops).st.pending (h', a) = 0) := by
  have inv := undInv_reachable c hM hex bal ops
  refine ⟨inv.pdNodup, ?_, ?_⟩
  · intro hb a hlt
    refine ⟨?_, inv.getD_future hb a hlt⟩
    intro x hx
    have := ((inv.pd _ _ _).mp hx).2.1
    omega
  · intro h' a hle
    unfold getD
    rcases inv.past h' a hle with e | e <;> rw [e] <;> rfl

/-- never earlier, never twice: at most one payment per (height, delegator); none before its
    height (an outstanding entry holds exactly what was undelegated); matured entries are zero -/
theorem never_early_or_twice (c : Cfg A) (hs : c.sepPrefix = true) (hM : 1 ≤ c.maturity)
    (bal : List (A × Int)) (ops : List (Op A)) :
    (akeys (run c (Hist.init bal) ops).paid).Nodup ∧
    (∀ hb a, (run c (Hist.init bal) ops).height < hb + c.maturity →
        (∀ x, ((hb + c.maturity, a), x) ∉ (run c (Hist.init bal) ops).paid) ∧
        getD (run c (Hist.init bal) ops).st.pending (hb + c.maturity, a) =
          sumKey (hb, a) (run c (Hist.init bal) ops).ulog) ∧
    (∀ h' a, h' ≤ (run c (Hist.init bal) ops).height →
        getD (run c (Hist.init bal) ops).st.pending (h', a) = 0) :=
  never_early_or_twice_gen c hM (Or.inl hs) bal ops

/-- every maturity payment is a credit (≥ 0) -/
theorem payments_nonneg (c : Cfg A) (hc : c.checkSign = true) (hs : c.sepPrefix = true)
    (hM : 1 ≤ c.maturity) (bal : List (A × Int)) (ops : List (Op A)) :
    ∀ e ∈ (run c (Hist.init bal) ops).paid, 0 ≤ e.2 := by
  have hu : ∀ e ∈ (run c (Hist.init bal) ops).ulog, 0 ≤ e.2 := by
    refine run_induct c (fun H => ∀ e ∈ H.ulog, 0 ≤ e.2) (fun _ => True) ?_ (Hist.init bal)
      (by simp [Hist.init]) ops (fun _ _ => trivial)
    intro H op _ inv
    cases op with
    | tx t =>
      simp only [step]
      cases hh : handler c H.st H.height t with
      | error e => exact inv
      | ok s' =>
        cases t with
        | undelegate a amt =>
          have : 0 ≤ amt := (undelegate_ok (by simpa [handler] using hh)).2.2.1 hc
          intro e he
          rcases List.mem_cons.mp he with rfl | m
          · exact this
          · exact inv e m
        | delegate a amt => exact inv
        | donate a amt ck => exact inv
        | withdraw a amt => exact inv
        | reinvest a amt => exact inv
    | env a d => exact inv
    | beginBlock T => exact inv
  intro e he
  obtain ⟨⟨h, a⟩, x⟩ := e
  have := ((paid_exactly_once_at_maturity c hs hM bal ops h a x).mp he).2.2.2
  simp only
  rw [this]
  exact sumKey_nonneg _ _ hu

/-! ## 4. Reward withdrawals: same maturity rule, never more than accrued -/

/-- reward withdrawals are paid exactly once, at the withdrawal block's height + maturity (the
    range prefix `delegRwz_pending_<height>_` is exact, so any maturity ≥ 1 will do) -/
theorem reward_withdrawal_paid_exactly_once_at_maturity (c : Cfg A) (hM : 1 ≤ c.maturity)
    (bal : List (A × Int)) (ops : List (Op A)) (h : Nat) (a : A) (x : Int) :
    ((h, a), x) ∈ (run c (Hist.init bal) ops).rwPaid ↔
      (c.maturity ≤ h ∧ h ≤ (run c (Hist.init bal) ops).height ∧
       (h - c.maturity, a) ∈ akeys (run c (Hist.init bal) ops).wlog ∧
       x = sumKey (h - c.maturity, a) (run c (Hist.init bal) ops).wlog) :=
  (rwdInv_reachable c hM bal ops).pd h a x

theorem reward_withdrawal_never_twice (c : Cfg A) (hM : 1 ≤ c.maturity)
    (bal : List (A × Int)) (ops : List (Op A)) :
    (akeys (run c (Hist.init bal) ops).rwPaid).Nodup := (rwdInv_reachable c hM bal ops).pdNodup

/-- a single withdrawal / reinvestment never exceeds the reward balance it is taken from -/
theorem withdraw_within_balance (c : Cfg A) (s s' : St A) (h : Nat) (a : A) (amt : Int) :
    (withdraw c s h a amt = .ok s' → amt ≤ getD s.rw a ∧ getD s'.rw a = getD s.rw a - amt) ∧
    (reinvest c s a amt = .ok s' → amt ≤ getD s.rw a ∧ getD s'.rw a = getD s.rw a - amt) := by
  constructor
  · intro hk; obtain ⟨h1, _, rfl⟩ := withdraw_ok hk; exact ⟨h1, by simp⟩
  · intro hk; obtain ⟨h1, _, rfl⟩ := reinvest_ok hk; exact ⟨h1, by simp⟩

/-- the reward balance is what accrued minus what was withdrawn or reinvested (all amounts) -/
theorem reward_balance_accounting (c : Cfg A) (bal : List (A × Int)) (ops : List (Op A)) (a : A) :
    getD (run c (Hist.init bal) ops).st.rw a =
      sumKey a (run c (Hist.init bal) ops).alog - sumAddr a (run c (Hist.init bal) ops).wlog
        - sumKey a (run c (Hist.init bal) ops).rlog :=
  run_induct c RwInv (fun _ => True) (fun H op _ inv => step_rwInv c H op inv) (Hist.init bal)
    (by intro a; simp [Hist.init, St.empty, sumKey, sumAddr]) ops (fun _ _ => trivial) a

theorem signInv_reachable (c : Cfg A) (hc : c.checkSign = true) (bal : List (A × Int)) (ops : List (Op A))
    (hn : ∀ op ∈ ops, op.rewardNonneg = true) : SignInv (run c (Hist.init bal) ops) :=
  run_induct c SignInv (fun op => op.rewardNonneg = true) (fun H op hop inv => step_signInv c hc H op hop inv)
    (Hist.init bal) ⟨by simp [Hist.init, St.empty], by simp [Hist.init, St.empty], by simp [Hist.init]⟩ ops hn

/-- what a delegator withdrew (and reinvested) never exceeds what accrued to it; active amounts and
    reward balances never go below zero -/
theorem reward_withdraw_le_accrued (c : Cfg A) (hc : c.checkSign = true) (bal : List (A × Int))
    (ops : List (Op A)) (hn : ∀ op ∈ ops, op.rewardNonneg = true) (a : A) :
    sumAddr a (run c (Hist.init bal) ops).wlog ≤ sumKey a (run c (Hist.init bal) ops).alog ∧
    sumAddr a (run c (Hist.init bal) ops).wlog + sumKey a (run c (Hist.init bal) ops).rlog
      ≤ sumKey a (run c (Hist.init bal) ops).alog ∧
    0 ≤ getD (run c (Hist.init bal) ops).st.rw a ∧
    (∀ e ∈ (run c (Hist.init bal) ops).st.active, 0 ≤ e.2) := by
  have sg := signInv_reachable c hc bal ops hn
  have acc := reward_balance_accounting c bal ops a
  have h1 := sg.rw a
  have h2 := sumKey_nonneg a _ sg.rl
  exact ⟨by omega, by omega, h1, sg.act⟩

/-- the pool can always pay: undelegating (part of) one's own active amount never fails -/
theorem undelegate_own_active_always_succeeds (c : Cfg A) (hc : c.checkSign = true) (bal : List (A × Int))
    (ops : List (Op A)) (hw : ∀ op ∈ ops, op.wf c = true) (h0 : 0 ≤ getD bal c.pool)
    (hd : ∀ op ∈ ops, op.donationChecked = true) (hn : ∀ op ∈ ops, op.rewardNonneg = true)
    (a : A) (amt : Int) (hamt : 0 ≤ amt) (hle : amt ≤ getD (run c (Hist.init bal) ops).st.active a) :
    ∃ s', undelegate c (run c (Hist.init bal) ops).st (run c (Hist.init bal) ops).height a amt = .ok s' := by
  have h1 := pool_ge_active c bal ops hw h0 hd
  have h2 := getD_le_sumV _ a (signInv_reachable c hc bal ops hn).act
  have g0 : ¬ (amt < 0) := by omega
  have g1 : ¬ (getD (run c (Hist.init bal) ops).st.active a - amt < 0) := by omega
  have g2 : ¬ ((run c (Hist.init bal) ops).st.balOf c.pool - amt < 0) := by omega
  unfold undelegate
  simp only [g0, g1, decide_false, Bool.and_false, if_false, St.balOf, St.setBal, Bool.false_eq_true] at g2 ⊢
  simp only [g2, if_false]
  exact ⟨_, rfl⟩

/-! ## 5. The range prefix (S17).  Since commit 4adafc1 the prefix ends with the separator and the
    range is exact by construction; the theorems `old_prefix_…` describe the prefix function of the
    code before (`decPrefix`, `sepPrefix = false`) and show the separator necessary. -/

/-- the separated range reports exactly the keys of its height, whatever else is stored -/
theorem range_reports_only_its_height (c : Cfg A) (hs : c.sepPrefix = true) (h : Nat)
    (p : List ((Nat × A) × Int)) (k : Nat × A) :
    k ∈ visitPending c h p ↔ k ∈ akeys p ∧ k.1 = h := by
  rw [mem_visitPending]; simp [hs]

/-- OLD prefix: among keys of later heights below `h + M` the range of height `h` reported only those
    of height `h` — exactly when `M ≤ 9·h` (true for `M = 4` at every height) -/
theorem old_prefix_range_exact_iff (h M : Nat) (hh : 1 ≤ h) :
    (∀ h', h < h' → h' < h + M → decPrefix h h' = false) ↔ M ≤ 9 * h := by
  constructor
  · intro hex
    apply Nat.le_of_not_lt
    intro hlt
    have := hex (10 * h) (by omega) (by omega)
    rw [decPrefix_ten h hh] at this
    cases this
  · intro hM h' h1 h2
    exact decPrefix_exact h M h' hh hM h1 h2

theorem old_prefix_exact_for_maturity_4 (h h' : Nat) (hh : 1 ≤ h) (h1 : h < h') (h2 : h' < h + 4) :
    decPrefix h h' = false := decPrefix_exact h 4 h' hh (by omega) h1 h2

/-- OLD prefix, devnet's default maturity 109200: at height 10920 the range also reported the live
    entry of height 109201 (created in block 1) -/
theorem old_prefix_collision_devnet_maturity :
    decPrefix 10920 109201 = true ∧ 10920 < 109201 ∧ 109201 < 10920 + 109200 := by decide

/-- OLD prefix: the payment-log theorem held only for maturities up to 9 -/
theorem old_prefix_paid_exactly_once_if_maturity_le_9 (c : Cfg A) (hM : 1 ≤ c.maturity) (hM9 : c.maturity ≤ 9)
    (bal : List (A × Int)) (ops : List (Op A)) (h : Nat) (a : A) (x : Int) :
    ((h, a), x) ∈ (run c (Hist.init bal) ops).paid ↔
      (c.maturity ≤ h ∧ h ≤ (run c (Hist.init bal) ops).height ∧
       (h - c.maturity, a) ∈ akeys (run c (Hist.init bal) ops).ulog ∧
       x = sumKey (h - c.maturity, a) (run c (Hist.init bal) ops).ulog) :=
  paid_exactly_once_gen c hM (Or.inr hM9) bal ops h a x

def c19 : Cfg Nat := { pool := 0, maturity := 19, addrLt := fun a b => decide (a < b) }
/-- maturity 19 with the prefix of the code before commit 4adafc1 -/
def c19old : Cfg Nat := { c19 with sepPrefix := false }
def c4 : Cfg Nat := { pool := 0, maturity := 4, addrLt := fun a b => decide (a < b) }
/-- the code before commit 1db1c08 -/
def c4u : Cfg Nat := { c4 with checkSign := false }

def ops19 : List (Op Nat) :=
  [.beginBlock 0, .tx (.delegate 1 100), .tx (.undelegate 1 30)] ++ List.replicate 19 (.beginBlock 0)

/-- OLD prefix, maturity 19: 30 undelegated in block 1 were credited at height 2 (18 blocks early)
    and again at height 20; the balance ended 30 above what the delegator ever owned -/
theorem old_prefix_early_and_double_payment :
    let H := run c19old (Hist.init [(1, 1000)]) ops19
    H.paid = [((20, 1), 30), ((2, 1), 30)] ∧ H.ulog = [((1, 1), 30)] ∧ H.st.balOf 1 = 960 ∧
      getD H.st.active 1 = 70 := by decide +kernel

/-- the same history with the separated prefix: one payment, at height 1 + 19 -/
theorem sep_prefix_single_payment_at_19 :
    let H := run c19 (Hist.init [(1, 1000)]) ops19
    H.paid = [((20, 1), 30)] ∧ H.st.balOf 1 = 930 ∧ getD H.st.active 1 = 70 := by decide +kernel

/-! ## 6. The sign check is necessary (S5): without it (`checkSign = false`, the code before 1db1c08)
    each clause fails; the harness replays these histories on the implementation, which must now
    refuse the negative amounts -/

/-- for every state: without the check a negative amount is accepted and *raises* the active amount
    and the pool, leaving a negative pending entry (debited from the balance at maturity) -/
theorem undelegate_negative_raises_active (c : Cfg A) (hc : c.checkSign = false) (s : St A) (h : Nat)
    (a : A) (amt : Int) (ha : a ≠ c.pool) (hneg : amt < 0) (hact : 0 ≤ getD s.active a)
    (hpool : 0 ≤ s.balOf c.pool) :
    ∃ s', undelegate c s h a amt = .ok s' ∧ getD s.active a < getD s'.active a ∧
      s.balOf c.pool < s'.balOf c.pool ∧
      getD s'.pending (h + c.maturity, a) = getD s.pending (h + c.maturity, a) + amt := by
  have h1 : ¬ (getD s.active a - amt < 0) := by omega
  have h2 : ¬ (s.balOf c.pool - amt < 0) := by omega
  have hs : ∃ s', undelegate c s h a amt = .ok s' := by
    unfold undelegate
    simp only [hc, Bool.false_and, Bool.false_eq_true, h1, if_false, St.balOf, St.setBal] at h2 ⊢
    simp only [h2, if_false]
    exact ⟨_, rfl⟩
  obtain ⟨s', hs'⟩ := hs
  obtain ⟨e1, _, _, e4, _, e6, _⟩ := undelegate_effect c s s' h a amt ha hs'
  exact ⟨s', hs', by omega, by omega, e6⟩

/-- undelegate −50: the active amount and the pool rise by 50 at once, and BeginBlock of height
    1 + 4 *debits* 50 from the delegator -/
theorem s5_negative_undelegate_history :
    let H := run c4u (Hist.init [(1, 1000)])
      ([.beginBlock 0, .tx (.delegate 1 100), .tx (.undelegate 1 (-50))] ++ List.replicate 4 (.beginBlock 0))
    getD H.st.active 1 = 150 ∧ H.st.balOf 0 = 150 ∧ H.paid = [((5, 1), -50)] ∧ H.st.balOf 1 = 850 := by
  decide +kernel

/-- reinvest −150 without any reward: the reward balance becomes 150, the active amount −50 and the
    pool loses 150 of the other delegator's tokens; withdrawing the 150 pays them out at maturity:
    withdrawn 150 > accrued 0. -/
theorem s5_negative_reinvest_withdraws_unaccrued :
    let H := run c4u (Hist.init [(1, 1000), (2, 1000)])
      ([.beginBlock 0, .tx (.delegate 1 100), .tx (.delegate 2 100), .tx (.reinvest 1 (-150)),
        .tx (.withdraw 1 150)] ++ List.replicate 4 (.beginBlock 0))
    getD H.st.active 1 = -50 ∧ H.st.balOf 0 = 50 ∧ sumAddr 1 H.wlog = 150 ∧ sumKey 1 H.alog = 0 ∧
      H.rwPaid = [((5, 1), 150)] ∧ H.st.balOf 1 = 1050 := by decide +kernel

/-- withdraw −70: the reward balance rises by 70 and the delegator is debited 70 at maturity -/
theorem s5_negative_withdraw_history :
    let H := run c4u (Hist.init [(1, 1000)])
      ([.beginBlock 0, .tx (.withdraw 1 (-70))] ++ List.replicate 4 (.beginBlock 0))
    getD H.st.rw 1 = 70 ∧ H.rwPaid = [((5, 1), -70)] ∧ H.st.balOf 1 = 930 := by decide +kernel

/-! ## 7. The driver's whole-transaction function is a history step -/

/-- `deliver` (handler + fee step, what the correspondence engine runs) either changes nothing or is
    the handler's history step followed by the fee as an `env` change -/
theorem deliver_refines_history (c : Cfg A) (H : Hist A) (tx : Tx A) (fee : Int) :
    (deliver c H.st H.height tx fee).1 = H.st ∨
    (deliver c H.st H.height tx fee).1 = (run c H [.tx tx, .env tx.actor (-fee)]).st := by
  unfold deliver
  cases hh : handler c H.st H.height tx with
  | error e => left; rfl
  | ok s1 =>
    simp only
    split
    · left; rfl
    · right
      simp only [run, List.foldl, step, hh]
      cases tx <;> simp [Tx.actor, Int.sub_eq_add_neg]

/-! ## 8. Non-vacuity: the hypotheses are satisfiable on histories that exercise the mechanism -/

def demoOps : List (Op Nat) :=
  [.beginBlock 0, .tx (.delegate 1 100), .tx (.delegate 2 300), .tx (.donate 3 7 true),
   .beginBlock 40, .tx (.undelegate 1 30), .tx (.undelegate 1 5), .tx (.withdraw 2 10), .env 1 (-3),
   .beginBlock 40, .tx (.reinvest 2 4), .tx (.undelegate 2 500), .beginBlock 40, .beginBlock 40,
   .beginBlock 40, .beginBlock 40]

example : (∀ op ∈ demoOps, op.wf c4 = true) ∧ (∀ op ∈ demoOps, op.rewardNonneg = true) ∧
    (∀ op ∈ demoOps, op.donationChecked = true) ∧ c4.checkSign = true ∧ c4.sepPrefix = true ∧
    1 ≤ c4.maturity := by decide

/-- the same histories as in section 6 with the check: the negative amounts are refused and nothing
    happens -/
example :
    let H := run c4 (Hist.init [(1, 1000)])
      ([.beginBlock 0, .tx (.delegate 1 100), .tx (.undelegate 1 (-50)), .tx (.reinvest 1 (-150)),
        .tx (.withdraw 1 (-70))] ++ List.replicate 4 (.beginBlock 0))
    getD H.st.active 1 = 100 ∧ H.paid = [] ∧ H.rwPaid = [] ∧ H.st.balOf 1 = 900 ∧ H.st.balOf 0 = 100 := by
  decide +kernel

/-- the demo history pays 35 (= 30 + 5, two undelegations of one block) once at height 2 + 4, pays
    the reward withdrawal at the same height, keeps pool = Σ active + 7 donated -/
example :
    let H := run c4 (Hist.init [(1, 1000), (2, 1000), (3, 50)]) demoOps
    H.paid = [((6, 1), 35)] ∧ H.rwPaid = [((6, 2), 10)] ∧ H.st.balOf 0 = 376 ∧ sumV H.st.active = 369 ∧
      H.donated = 7 ∧ H.st.balOf 1 = 1000 - 100 - 3 + 35 ∧ H.height = 7 := by decide +kernel

example : ∃ s', undelegate c4 (run c4 (Hist.init [(1, 1000)]) [.beginBlock 0, .tx (.delegate 1 100)]).st 1 1 30
    = .ok s' := ⟨_, rfl⟩

example : ∃ s s' : St Nat, withdraw c4 s 1 1 5 = .ok s' :=
  ⟨{ St.empty [] with rw := [(1, 9)] }, _, rfl⟩

end OLP.Props.C12

/-
  C05 — obligations over the REGENERATED fact tables (tie T3): both transaction entry points
  look the received bytes up in the index first and reject every encoding other than the
  canonical serialisation of the parsed transaction (premise `Canonical` of
  `OLP.Props.C05.replay_any_encoding_noop_partial`).
-/
import OLP.Shell.Expect

namespace OLP.Props.C05.Facts
open OLP.Expect

theorem entry_points_as_modelled : OLP.Gen.sessionRule = sessionRule := by decide

theorem canonical_guard_present :
    (OLP.Gen.sessionRule.filter (fun r => r.thenDo == "canonical-guard")).map (fun r => r.fn) =
    ["txChecker", "txDeliverer"] := by decide

/-- the ABCI entry points the shell model ports are unchanged since the port was validated -/
theorem entry_points_source_pinned :
    OLP.Expect.pinnedOf OLP.Gen.pinned (pinnedShell.map (fun r => r.fn)) = pinnedShell := by decide

end OLP.Props.C05.Facts

/-
  C05 — obligations over the REGENERATED fact tables (tie T3): both transaction entry points
  look the received bytes up in the index first and reject every encoding other than the
  canonical serialisation of the parsed transaction (premise `Canonical` of
  `OLP.Props.C05.replay_any_encoding_noop_partial`).
-/
import OLP.Shell.Expect

namespace OLP.Props.C05.Facts
open OLP.Expect

theorem entry_points_as_modelled : OLP.Gen.sessionRule = sessionRule := by decide

theorem canonical_guard_present :
    (OLP.Gen.sessionRule.filter (fun r => r.thenDo == "canonical-guard")).map (fun r => r.fn) =
    ["txChecker", "txDeliverer"] := by decide

/-- the ABCI entry points the shell model ports are unchanged since the port was validated -/
theorem entry_points_source_pinned :
    OLP.Expect.pinnedOf OLP.Gen.pinned (pinnedShell.map (fun r => r.fn)) = pinnedShell := by decide

/-- The transaction envelope as the Go types declare it. A signature covers `RawTx.RawBytes()`
    (type, data, fee, memo): everything else in `SignedTx` is outside every signature, so it has
    to be exactly the list of signature entries, an entry exactly a key and the signature bytes,
    a key exactly its algorithm tag and its bytes. A further declared field — for which the
    canonical-encoding guard would accept a new member, because the re-serialisation reproduces a
    declared field — would give every executed transaction a second canonical form with another
    hash (seed C05-unsigned-origin-field-in-envelope); it breaks this obligation, and the replay
    engine is then the search for the failing input. -/
theorem envelope_fields_as_expected :
    OLP.Gen.envelopeFields = [
      ⟨"action.Amount", "Currency", "currency", false⟩,
      ⟨"action.Amount", "Value", "value", false⟩,
      ⟨"action.Fee", "Price", "price", false⟩,
      ⟨"action.Fee", "Gas", "gas", false⟩,
      ⟨"action.RawTx", "Type", "type", false⟩,
      ⟨"action.RawTx", "Data", "data", false⟩,
      ⟨"action.RawTx", "Fee", "fee", false⟩,
      ⟨"action.RawTx", "Memo", "memo", false⟩,
      ⟨"action.Signature", "Signer", "", false⟩,
      ⟨"action.Signature", "Signed", "", false⟩,
      ⟨"action.SignedTx", "RawTx", "", true⟩,
      ⟨"action.SignedTx", "Signatures", "signatures", false⟩,
      ⟨"data/keys.PublicKey", "KeyType", "keyType", false⟩,
      ⟨"data/keys.PublicKey", "Data", "data", false⟩] := by decide

/-- the part of a received transaction no signature covers is the list of signature entries and
    nothing else -/
theorem unsigned_part_is_the_signature_list :
    (OLP.Gen.envelopeFields.filter (fun r => r.owner == "action.SignedTx" && !r.embedded)).map (fun r => r.field) =
    ["Signatures"] := by decide

end OLP.Props.C05.Facts

/-
  C02 / C03 on the external bid application (external_apps/bid): no value creation, no unauthorised
  debit, exact refunds and payouts, a conversation ends once.

  Property theorems only (helper lemmas: OLP/Bid/Lemmas.lean).  All statements are about the
  executable model `OLP.Bid` (OLP/Bid/Model.lean), a port of bid_action/*.go and
  bid_block_func/bid_block_func.go which the `bidm` correspondence engine compares with the real
  handlers on every bid DeliverTx, every EndBlock run of the block function and every BeginBlock
  queue of every generated history (decoded pre-state + operation -> result class + post-state).

  Vocabulary (Model.lean): `step env s op` is one DeliverTx (Validate, handler, fee step; a failure
  anywhere leaves the state untouched), one run of the block function (`Op.hook ids`:
  `runExpireBid` for every queued id, no signer, no fee) or one commit; `Env.payer` is the address of
  the key that signed; `run s evs` folds a history.  `total s` = OLT balances + the amounts of the
  active offers of type "bid offer" (what `DeactivateOffer` gives back / `runOwnerDecision` pays
  out) + fee pool; `holdings s a` = balance of `a` + the active bid offers of the conversations
  whose bidder is `a`.  `WF s`: the active offers form a map (no duplicate keys), each stored under
  its own conversation id, amounts not negative, offer type and amount status agree (bid offer =
  locked, counter offer = counter-offer amount).  It holds of the empty store (`bid_wf_empty`) and
  is preserved by every step (`bid_wf_step`), so it holds in every reachable state; the engine's
  monitor checks the same shape on every observed state of the implementation.

  One further statement, which is NOT a clause of C02 or C03 (no value moves by it) and is false of
  the code as written, is kept with the hypothesis the code forces and a proved counterexample:
  "a conversation that left the active status never becomes active again"
  (`bid_closed_stays_closed_unless_recreated`): `createBidConv` (create_bid.go) derives the id from owner, asset,
  bidder and block height and never looks into the closed stores, so a conversation closed in the
  block that created it can be created again under the same id; both records then exist, and the
  next closing overwrites the closed record and the offer history (`bid_reopen_counterexample`).
  The engine observes this on the implementation and COUNTS it (counters
  `observed:bid-conversation-reopened`, `observed:bid-closed-conversation-changed`; script
  "reopen-script"); it is not reported as a violation because the properties do not state it.  No value is created or lost by it:
  (a)–(e) hold at full strength.
-/
import OLP.Bid.Lemmas

namespace OLP.Props.C02
open OLP OLP.Bid

/-! ## fixtures for the non-vacuity examples and the counterexample -/

def bidA : Addr := "aaaaaaaaaaaaaaaaaaaaaaaaaaaaaaaaaaaaaaaa"
def bidB : Addr := "bbbbbbbbbbbbbbbbbbbbbbbbbbbbbbbbbbbbbbbb"
def bidC : Addr := "cccccccccccccccccccccccccccccccccccccccc"
def bidX : ConvId := "1111111111111111111111111111111111111111111111111111111111111111"
def bidY : ConvId := "2222222222222222222222222222222222222222222222222222222222222222"
def bidZ : ConvId := "3333333333333333333333333333333333333333333333333333333333333333"

/-- block 5 (state version 4) at unix time `now`; fee 3 per gas unit, 2 units used; signed (validly) by `payer` -/
def bidEnv (payer : Addr) (now : Int) : Env :=
  { height := 5, version := 4, now := now, feePrice := 3, fee := .used 2, payer := payer, sigValid := true, minFee := 1 }

def bidFoo : Ons.Domain :=
  { owner := bidA, benef := bidA, creation := 1, lastUpdate := 1, expire := 100, active := true, onSale := false,
    salePrice := none, uri := "" }

/-- A owns foo.ol and its sub name x.foo.ol; A, B, C hold 1000, 1000, 50 -/
def bidS0 : St :=
  { St.empty with bals := [(bidA, 1000), (bidB, 1000), (bidC, 50)],
                  doms := [(["foo", "ol"], bidFoo), (["x", "foo", "ol"], bidFoo)] }

/-- B offers 100 for foo.ol (conversation X, deadline 500), C offers 20 for the example asset "ex" of A (Y) -/
def bidOpen : List (Env × Op) :=
  [ (bidEnv bidB 10, .create "" bidA "foo.ol" assetOns bidB 100 "OLT" 500 bidX),
    (bidEnv bidC 10, .create "" bidA "ex" assetExample bidC 20 "OLT" 15 bidY),
    (bidEnv bidA 10, .commit) ]

def bidS1 : St := run bidS0 bidOpen

/-- … and A answers B with a counter offer of 300 -/
def bidS2 : St := (step (bidEnv bidA 11) bidS1 (.counter bidX bidA 300 "OLT")).2

example : wfB bidS1 = true ∧ nonNegB bidS1 = true ∧ total bidS1 = 2050 ∧ lockedSum bidS1.aoffers = 120 ∧
    holdings bidS1 bidB = 1000 - 6 ∧ bal bidS1.bals bidB = 1000 - 6 - 100 := by decide

/-! ## well-formedness is an invariant -/

/-- the start of every chain: no bid record at all -/
theorem bid_wf_empty (s0 : St) (h : s0.aoffers = []) : WF s0 := by
  refine ⟨by rw [h]; exact List.nodup_nil, fun k o ho => ?_⟩
  rw [h] at ho; cases ho

theorem bid_wf_step (env : Env) (s : St) (op : Op) (hw : WF s) : WF (step env s op).2 :=
  (keeps_step env s op hw).wf

theorem bid_wf_history (s0 : St) (hw : WF s0) (evs : List (Env × Op)) : WF (run s0 evs) :=
  (keeps_run evs hw).wf

example : WF bidS0 ∧ WF bidS1 := ⟨bid_wf_empty bidS0 rfl, bid_wf_history bidS0 (bid_wf_empty bidS0 rfl) bidOpen⟩

/-! ## (a), (b) C02 — no value creation -/

/-- every step — any of the six transactions with any payload, the block function on any queue, a
    commit — leaves balances + locked offers + fee pool exactly as they were, and a step that does
    not succeed changes nothing at all -/
theorem bid_step_conserves_value (env : Env) (s : St) (op : Op) (hw : WF s) :
    total (step env s op).2 = total s ∧ ((step env s op).1 ≠ .ok → (step env s op).2 = s) :=
  ⟨(keeps_step env s op hw).tot, step_fail⟩

/-- the counter offer of A gives B's 100 back: nothing is locked any more under X, the total stays -/
example : (step (bidEnv bidA 11) bidS1 (.counter bidX bidA 300 "OLT")).1 = .ok ∧ total bidS2 = total bidS1 ∧
    lockedSum bidS2.aoffers = 20 ∧ bal bidS2.bals bidB = bal bidS1.bals bidB + 100 := by decide
/-- hostile amounts: a negative or foreign-currency offer is refused by Validate, one above the balance by the lock -/
example : (step (bidEnv bidC 11) bidS1 (.create "" bidA "e2" assetExample bidC (-5) "OLT" 500 bidZ)).1 = .fail .vBadAmount ∧
    (step (bidEnv bidC 11) bidS1 (.create "" bidA "e2" assetExample bidC 5 "VT" 500 bidZ)).1 = .fail .vBadAmount ∧
    (step (bidEnv bidC 11) bidS1 (.create "" bidA "e2" assetExample bidC 31 "OLT" 500 bidZ)).1 = .fail .lockAmount ∧
    (step (bidEnv bidC 11) bidS1 (.create "" bidA "e2" assetExample bidC 0 "OLT" 500 bidZ)).1 = .ok := by decide

theorem bid_history_conserves_value (s0 : St) (hw : WF s0) (evs : List (Env × Op)) : total (run s0 evs) = total s0 :=
  (keeps_run evs hw).tot

example : total (run bidS0 bidOpen) = total bidS0 := bid_history_conserves_value bidS0 (bid_wf_empty bidS0 rfl) bidOpen

/-! ## (c) no stored amount is negative -/

/-- from non-negative balances on, in every reachable state every balance and every active offer
    (bid offer or counter offer) is non-negative -/
theorem bid_amounts_nonneg (s0 : St) (hw : WF s0) (hn : NonNegBals s0) (evs : List (Env × Op)) :
    NonNegBals (run s0 evs) ∧ ∀ k o, alookup k (run s0 evs).aoffers = some o → 0 ≤ o.amount :=
  ⟨(keeps_run evs hw).nn hn, fun k o ho => ((keeps_run evs hw).wf.2 k o ho).2.1⟩

example : NonNegBals bidS0 ∧ nonNegB bidS2 = true := ⟨nonNeg_of_nonNegB (by decide), by decide⟩

/-! ## (d) C03 — no unauthorised debit -/

/-- the holdings equation of every successful step: an account's balance + own locked offers moves
    by the deal of an acceptance (the offer amount, from the bidder to the owner) and by the fee the
    signer pays — by nothing else.  Locking, unlocking (counter offer, reject, cancel, expiry by
    anybody, the block function) never change anybody's holdings. -/
theorem bid_holdings_equation (env : Env) (s s' : St) (op : Op) (hw : WF s) (h : step env s op = (.ok, s')) (a : Addr) :
    holdings s' a = holdings s a + transfer s op a - (if op.isTx then ifEq a env.payer (feeOf env) else 0) :=
  step_holdings hw h a

/-- a successful step lowers the holdings of an account only if that account signed the
    transaction, or it is the bidder of a conversation whose active bid offer (which it signed and
    locked) the asset owner — the signer — accepts with BID_OWNER_DECISION; it then loses exactly
    the offer amount.  (The block function and a commit lower nobody's holdings.) -/
theorem bid_debits_only_authorised (env : Env) (s s' : St) (op : Op) (a : Addr) (hw : WF s)
    (h : step env s op = (.ok, s')) (hlow : holdings s' a < holdings s a) :
    (op.signer = some a ∧ env.payer = a ∧ env.sigValid = true) ∨
    (∃ id c o, op = .ownerDecision id c.owner decAccept ∧ alookup id s.active = some c ∧ alookup id s.aoffers = some o ∧
       o.otype = tBid ∧ env.payer = c.owner ∧ env.sigValid = true ∧ a = c.bidder ∧ holdings s' a = holdings s a - o.amount) := by
  have heq := step_holdings hw h a
  obtain ⟨hv, s1, hh, _⟩ := step_ok h
  by_cases hp : env.payer = a
  · -- the signer: of a transaction (the hook and the commit have no signer and charge nothing)
    left
    cases op with
    | hook ids =>
      exfalso
      have : transfer s (.hook ids) a = 0 := rfl
      simp [Op.isTx, this] at heq; omega
    | commit =>
      exfalso
      have : transfer s .commit a = 0 := rfl
      simp [Op.isTx, this] at heq; omega
    | create i o as t b am cur dl nid =>
      have := validate_signer hv (a := b) rfl
      exact ⟨by rw [← hp, this.1]; rfl, hp, this.2⟩
    | counter k o am cur =>
      have := validate_signer hv (a := o) rfl
      exact ⟨by rw [← hp, this.1]; rfl, hp, this.2⟩
    | cancel k b =>
      have := validate_signer hv (a := b) rfl
      exact ⟨by rw [← hp, this.1]; rfl, hp, this.2⟩
    | bidderDecision k b d =>
      have := validate_signer hv (a := b) rfl
      exact ⟨by rw [← hp, this.1]; rfl, hp, this.2⟩
    | expire k v =>
      have := validate_signer hv (a := v) rfl
      exact ⟨by rw [← hp, this.1]; rfl, hp, this.2⟩
    | ownerDecision k o d =>
      have := validate_signer hv (a := o) rfl
      exact ⟨by rw [← hp, this.1]; rfl, hp, this.2⟩
  · right
    have hfee : (if op.isTx then ifEq a env.payer (feeOf env) else 0) = 0 := by
      have : ¬ a = env.payer := fun e => hp e.symm
      simp [ifEq, this]
    rw [hfee] at heq
    have htr : transfer s op a < 0 := by omega
    cases op with
    | ownerDecision k ow d =>
      simp only [handler] at hh
      obtain ⟨c, o, hc, ho, hty, how, hcase⟩ := runOwnerDecision_ok hh
      have hsig := validate_signer hv (a := ow) rfl
      rcases hcase with ⟨hd, _⟩ | ⟨hd, _⟩
      · have : transfer s (.ownerDecision k ow d) a = 0 := by simp [transfer, dealOf, hd, dec_ne]
        omega
      · have ht : transfer s (.ownerDecision k ow d) a = ifEq a c.owner o.amount - ifEq a c.bidder o.amount := by
          simp [transfer, dealOf, hd, hc, ho]
        have hao : ¬ a = c.owner := by rw [← how, ← hsig.1]; exact fun e => hp e.symm
        have hab : a = c.bidder := by
          by_cases hab : a = c.bidder
          · exact hab
          · simp [ht, ifEq, hao, hab] at htr
        have e1 : ifEq a c.owner o.amount = 0 := by simp [ifEq, hao]
        have e2 : ifEq a c.bidder o.amount = o.amount := by simp [ifEq, hab]
        refine ⟨k, c, o, by rw [how, hd], hc, ho, hty, by rw [hsig.1, how], hsig.2, hab, ?_⟩
        rw [heq, ht, e1, e2]; omega
    | bidderDecision k b d =>
      exfalso
      simp only [handler] at hh
      obtain ⟨c, o, hc, ho, hty, hb, hcase⟩ := runBidderDecision_ok hh
      have hsig := validate_signer hv (a := b) rfl
      rcases hcase with ⟨hd, _⟩ | ⟨hd, _⟩
      · have : transfer s (.bidderDecision k b d) a = 0 := by simp [transfer, dealOf, hd, dec_ne]
        omega
      · have ht : transfer s (.bidderDecision k b d) a = ifEq a c.owner o.amount - ifEq a c.bidder o.amount := by
          simp [transfer, dealOf, hd, hc, ho]
        have hab : ¬ a = c.bidder := by rw [← hb, ← hsig.1]; exact fun e => hp e.symm
        have hpos := (hw.2 k o ho).2.1
        rw [ht] at htr
        simp only [ifEq, hab, if_false] at htr
        split at htr <;> omega
    | create i o as t b am cur dl nid => exact absurd htr (by show ¬ (0 : Int) < 0; omega)
    | counter k o am cur => exact absurd htr (by show ¬ (0 : Int) < 0; omega)
    | cancel k b => exact absurd htr (by show ¬ (0 : Int) < 0; omega)
    | expire k v => exact absurd htr (by show ¬ (0 : Int) < 0; omega)
    | hook ids => exact absurd htr (by show ¬ (0 : Int) < 0; omega)
    | commit => exact absurd htr (by show ¬ (0 : Int) < 0; omega)

/-- A accepts the offer of B: B — who signed nothing here — loses its locked 100, A gains them -/
example : (step (bidEnv bidA 11) bidS1 (.ownerDecision bidX bidA decAccept)).1 = .ok ∧
    holdings (step (bidEnv bidA 11) bidS1 (.ownerDecision bidX bidA decAccept)).2 bidB = holdings bidS1 bidB - 100 ∧
    holdings (step (bidEnv bidA 11) bidS1 (.ownerDecision bidX bidA decAccept)).2 bidA = holdings bidS1 bidA + 100 - 6 := by decide
/-- a stranger cannot accept, reject, cancel or make offers for a party: the identity checks refuse -/
example : (step (bidEnv bidC 11) bidS1 (.ownerDecision bidX bidC decAccept)).1 = .fail .wrongOwner ∧
    (step (bidEnv bidC 11) bidS1 (.ownerDecision bidX bidA decAccept)).1 = .fail .vSigner ∧
    (step (bidEnv bidC 11) bidS1 (.cancel bidX bidC)).1 = .fail .wrongBidder ∧
    (step (bidEnv bidC 11) bidS2 (.bidderDecision bidX bidC decAccept)).1 = .fail .wrongBidder := by decide
/-- … but anybody can expire anybody's conversation, before its deadline (BID_EXPIRE is on the public
    router and `runExpireBid` checks neither the deadline nor the signer): B gets its 100 back -/
example : (step (bidEnv bidC 11) bidS1 (.expire bidX bidC)).1 = .ok ∧
    holdings (step (bidEnv bidC 11) bidS1 (.expire bidX bidC)).2 bidB = holdings bidS1 bidB ∧
    bal (step (bidEnv bidC 11) bidS1 (.expire bidX bidC)).2.bals bidB = bal bidS1.bals bidB + 100 := by decide

/-- over a whole history: an account that signs nothing and is the bidder of no accepted offer never
    loses holdings — stated stepwise, the history form is the iteration of `bid_debits_only_authorised`
    along `run` with `bid_wf_history` supplying `WF` at every step -/
theorem bid_history_holdings_equation (s0 : St) (hw : WF s0) (evs : List (Env × Op)) (env : Env) (op : Op) (s' : St)
    (h : step env (run s0 evs) op = (.ok, s')) (a : Addr) :
    holdings s' a = holdings (run s0 evs) a + transfer (run s0 evs) op a -
      (if op.isTx then ifEq a env.payer (feeOf env) else 0) :=
  step_holdings (keeps_run evs hw).wf h a

/-! ## (e) exact refunds and payouts -/

/-- reject (by either side), cancel and expiry (by BID_EXPIRE or by the block function's
    `runExpireBid`) end the conversation, give the bidder exactly the locked amount of its active bid
    offer (nothing when the active offer is the owner's counter offer), charge the signer the fee,
    move no other balance and leave every domain alone -/
theorem bid_refund_exact (env : Env) (s s' : St) (op : Op) (id : ConvId) (hw : WF s) (hr : op.refunds id)
    (h : step env s op = (.ok, s')) :
    ∃ c o, alookup id s.active = some c ∧ alookup id s.aoffers = some o ∧
      (∀ a, bal s'.bals a = bal s.bals a + ifEq a c.bidder (lockedAmt o) - ifEq a env.payer (feeOf env)) ∧
      alookup id s'.active = none ∧ alookup id s'.aoffers = none ∧ s'.doms = s.doms ∧ s'.pool = s.pool + feeOf env := by
  obtain ⟨_, s1, hh, hfee⟩ := step_ok h
  obtain ⟨c, o, hc, ho, hb, hga, hgo, hd, hp⟩ := refund_handler hw hr hh
  have htx : op.isTx = true := by
    rcases hr with ⟨b, rfl⟩ | ⟨v, rfl⟩ | ⟨o, rfl⟩ | ⟨b, rfl⟩ <;> rfl
  rcases hfee with ⟨hnt, _⟩ | ⟨_, hf⟩
  · rw [htx] at hnt; cases hnt
  · obtain ⟨b1, hdb, rfl⟩ := feeStep_ok hf
    refine ⟨c, o, hc, ho, fun a => ?_, hga, hgo, hd, by show s1.pool + _ = _; rw [hp]⟩
    show bal b1 a = _
    rw [bal_debit hdb, hb a]; simp only [ifEq]

/-- the block function gives back exactly what `runExpireBid` gives back, for every queued
    conversation that is still active, and charges nobody -/
theorem bid_hook_refund_exact (env : Env) (s s' : St) (id : ConvId) (hw : WF s) (h : runExpire env s id = .ok s') :
    ∃ c o, alookup id s.active = some c ∧ alookup id s.aoffers = some o ∧
      (∀ a, bal s'.bals a = bal s.bals a + ifEq a c.bidder (lockedAmt o)) ∧
      alookup id s'.active = none ∧ alookup id s'.aoffers = none ∧ s'.doms = s.doms ∧ s'.pool = s.pool :=
  refund_handler (op := .expire id "") hw (Or.inr (Or.inl ⟨"", rfl⟩)) h

example : (step (bidEnv bidB 11) bidS1 (.cancel bidX bidB)).1 = .ok ∧
    bal (step (bidEnv bidB 11) bidS1 (.cancel bidX bidB)).2.bals bidB = bal bidS1.bals bidB + 100 - 6 := by decide
/-- the block function at time 16: Y (deadline 15) is expired and C gets its 20 back, X (deadline 500) stays -/
example : hookQueue 16 bidS1 = [bidY] ∧
    bal (step (bidEnv "" 16) bidS1 (.hook [bidY])).2.bals bidC = bal bidS1.bals bidC + 20 ∧
    (alookup bidX (step (bidEnv "" 16) bidS1 (.hook [bidY])).2.active).isSome = true ∧
    (alookup bidY (step (bidEnv "" 16) bidS1 (.hook [bidY])).2.active).isSome = false := by decide

/-- the owner's acceptance pays the owner exactly the locked amount of the active bid offer, charges
    the owner (the signer) the fee, moves no other balance, ends the conversation, and an ONS asset
    changes hands: the name is re-registered to the bidder (`ResetAfterSale`) -/
theorem bid_payout_exact (env : Env) (s s' : St) (id : ConvId) (ow : Addr) (hw : WF s)
    (h : step env s (.ownerDecision id ow decAccept) = (.ok, s')) :
    ∃ c o, alookup id s.active = some c ∧ alookup id s.aoffers = some o ∧ o.otype = tBid ∧ ow = c.owner ∧ env.payer = c.owner ∧
      (∀ a, bal s'.bals a = bal s.bals a + ifEq a c.owner o.amount - ifEq a env.payer (feeOf env)) ∧
      alookup id s'.active = none ∧ alookup id s'.aoffers = none ∧
      (c.atype = assetOns → ∃ d d', alookup (nameOf c.asset) s.doms = some d ∧ d.owner = c.owner ∧
        alookup (nameOf c.asset) s'.doms = some d' ∧ d'.owner = c.bidder ∧ d'.benef = c.bidder) ∧
      (c.atype ≠ assetOns → s'.doms = s.doms) := by
  obtain ⟨hv, s1, hh, hfee⟩ := step_ok h
  have hsig := validate_signer hv (a := ow) rfl
  simp only [handler] at hh
  have hh0 := hh
  obtain ⟨c, o, hc, ho, hty, how, hcase⟩ := runOwnerDecision_ok hh
  rcases hcase with ⟨hd, _⟩ | ⟨_, s2, hd, hx⟩
  · exact absurd hd.symm dec_ne
  · have m := moves_ownerAccept hw hc ho hty hd hx
    obtain ⟨hga, hgo, _, hons, hnons⟩ := accept_tail (s0 := { s with bals := credit s.bals c.owner o.amount }) hw ho rfl rfl hd hx
    rcases hfee with ⟨hnt, _⟩ | ⟨_, hf⟩
    · cases hnt
    · obtain ⟨b1, hdb, rfl⟩ := feeStep_ok hf
      refine ⟨c, o, hc, ho, hty, how, by rw [hsig.1, how], fun a => ?_, hga, hgo, fun hat => ?_, hnons⟩
      · show bal b1 a = _
        rw [bal_debit hdb, m.bal a]; simp only [ifEq]
      · obtain ⟨d, hd1, hd2⟩ := hons hat
        -- the asset was available to the recorded owner: `runOwnerDecision` checked it
        have hav : d.owner = c.owner := by
          unfold runOwnerDecision at hh0
          have hg : getActive s id = .ok c := by
            unfold getActive
            have : existsAny s id = true := by simp [existsAny, hc]
            simp [this, hc]
          simp only [hg] at hh0
          split at hh0
          · cases hh0
          · split at hh0
            · cases hh0
            · rename_i hna
              have hav : assetAvailable env s c.asset c.atype c.owner = true := by simpa using hna
              unfold assetAvailable at hav
              simp only [hat, if_true] at hav
              split at hav
              · cases hav
              · rw [hd1] at hav
                simp only [] at hav
                split at hav
                · cases hav
                · split at hav
                  · cases hav
                  · rename_i hne; simpa using hne
        exact ⟨d, _, hd1, hav, hd2, rfl, rfl⟩

/-- the bidder's acceptance of the owner's counter offer: the bidder — the signer — pays the owner
    exactly the counter-offer amount out of its balance (nothing was locked), pays the fee, nobody
    else's balance moves, the conversation ends -/
theorem bid_payout_exact_bidder (env : Env) (s s' : St) (id : ConvId) (b : Addr) (hw : WF s)
    (h : step env s (.bidderDecision id b decAccept) = (.ok, s')) :
    ∃ c o, alookup id s.active = some c ∧ alookup id s.aoffers = some o ∧ o.otype = tCounter ∧ b = c.bidder ∧ env.payer = c.bidder ∧
      (∀ a, bal s'.bals a = bal s.bals a + ifEq a c.owner o.amount - ifEq a c.bidder o.amount - ifEq a env.payer (feeOf env)) ∧
      alookup id s'.active = none ∧ alookup id s'.aoffers = none ∧ (c.atype ≠ assetOns → s'.doms = s.doms) := by
  obtain ⟨hv, s1, hh, hfee⟩ := step_ok h
  have hsig := validate_signer hv (a := b) rfl
  simp only [handler] at hh
  obtain ⟨c, o, hc, ho, hty, hb, hcase⟩ := runBidderDecision_ok hh
  rcases hcase with ⟨hd, _⟩ | ⟨_, b1, s2, hdb, hd, hx⟩
  · exact absurd hd.symm dec_ne
  · have m := moves_bidderAccept hw hc ho hty hdb hd hx
    obtain ⟨hga, hgo, _, _, hnons⟩ := accept_tail (s0 := { s with bals := credit b1 c.owner o.amount }) hw ho rfl rfl hd hx
    rcases hfee with ⟨hnt, _⟩ | ⟨_, hf⟩
    · cases hnt
    · obtain ⟨b2, hdb2, rfl⟩ := feeStep_ok hf
      refine ⟨c, o, hc, ho, hty, hb, by rw [hsig.1, hb], fun a => ?_, hga, hgo, hnons⟩
      show bal b2 a = _
      rw [bal_debit hdb2, m.bal a, hb]; simp only [ifEq]; omega

/-- the asset changes owner exactly when an offer is accepted: every other successful step leaves
    the whole registry alone -/
theorem bid_asset_moves_only_on_acceptance (env : Env) (s s' : St) (op : Op) (h : step env s op = (.ok, s'))
    (hd : dealOf s op = none) : s'.doms = s.doms := by
  obtain ⟨_, s1, hh, hfee⟩ := step_ok h
  have h1 := handler_doms hh hd
  rcases hfee with ⟨_, rfl⟩ | ⟨_, hf⟩
  · exact h1
  · obtain ⟨b1, _, rfl⟩ := feeStep_ok hf
    exact h1

/-- foo.ol goes to B (its sub name is deleted), 100 go to A -/
example : (alookup ["foo", "ol"] (step (bidEnv bidA 11) bidS1 (.ownerDecision bidX bidA decAccept)).2.doms).map (·.owner) = some bidB ∧
    alookup ["x", "foo", "ol"] (step (bidEnv bidA 11) bidS1 (.ownerDecision bidX bidA decAccept)).2.doms = none ∧
    bal (step (bidEnv bidA 11) bidS1 (.ownerDecision bidX bidA decAccept)).2.bals bidA = bal bidS1.bals bidA + 100 - 6 := by decide
/-- B accepts A's counter offer of 300: B pays 300 out of its balance, foo.ol goes to B -/
example : (step (bidEnv bidB 12) bidS2 (.bidderDecision bidX bidB decAccept)).1 = .ok ∧
    bal (step (bidEnv bidB 12) bidS2 (.bidderDecision bidX bidB decAccept)).2.bals bidB = bal bidS2.bals bidB - 300 - 6 ∧
    bal (step (bidEnv bidB 12) bidS2 (.bidderDecision bidX bidB decAccept)).2.bals bidA = bal bidS2.bals bidA + 300 ∧
    (alookup ["foo", "ol"] (step (bidEnv bidB 12) bidS2 (.bidderDecision bidX bidB decAccept)).2.doms).map (·.owner) = some bidB := by
  decide

/-! ## (f) a conversation ends once

  FULL STATEMENT (false of the code as written):

    theorem bid_conversation_ends_once (env : Env) (s : St) (op : Op) (id : ConvId) (hw : WF s)
        (hc : isClosed s id = true) (hid : alookup id s.active = none) : Same id s (step env s op).2

  i.e. a conversation that left the active store never becomes active again and neither its closed
  record nor its offer history ever changes.  `createBidConv` does not look into the closed stores
  and the id is a function of (owner, asset, bidder, height): in the block that created it a closed
  conversation can be opened again under the same id (`bid_reopen_counterexample`).  What holds is
  the statement for every step that does not open a conversation under that very id. -/

/-- as long as no BID_CREATE opens a conversation under the same id again, a conversation that left
    the active store stays out of it, and its closed record and its offer history never change — whatever
    else happens (any transaction of anybody, the block function on any queue, commits) -/
theorem bid_closed_stays_closed_unless_recreated (env : Env) (s : St) (op : Op) (id : ConvId) (hw : WF s)
    (hid : alookup id s.active = none) (hno : op.opensId ≠ some id) : Same id s (step env s op).2 :=
  step_same hw hid hno

theorem bid_closed_stays_closed_unless_recreated_history (s0 : St) (id : ConvId) (hw : WF s0) (hid : alookup id s0.active = none)
    (evs : List (Env × Op)) (hno : ∀ p ∈ evs, p.2.opensId ≠ some id) : Same id s0 (run s0 evs) := by
  induction evs generalizing s0 with
  | nil => exact same_refl id s0
  | cons p t ih =>
    have h1 := step_same (env := p.1) hw hid (hno p (List.mem_cons_self ..))
    have hw1 := (keeps_step p.1 s0 p.2 hw).wf
    have := ih (step p.1 s0 p.2).2 hw1 (by rw [h1.1]; exact hid) (fun q hq => hno q (List.mem_cons_of_mem _ hq))
    exact same_trans h1 this

/-- the state after C's conversation Y was cancelled in the block that created it (time 10, before the commit) -/
def bidS3 : St := run bidS0
  [ (bidEnv bidC 10, .create "" bidA "ex" assetExample bidC 20 "OLT" 15 bidY), (bidEnv bidC 10, .cancel bidY bidC) ]

/-- Y is closed (cancelled) and not active; the same BID_CREATE in the same block (same height, so the
    same id) opens it again: it is active AND cancelled; expiring it then leaves it cancelled AND
    expired, and the offer history of the first life (the inactive record of type 1 at time 10) is
    overwritten by the second offer's.  No value is created: the total stays. -/
theorem bid_reopen_counterexample :
    isClosed bidS3 bidY = true ∧ alookup bidY bidS3.active = none ∧ WF bidS3 ∧
    (step (bidEnv bidC 10) bidS3 (.create "" bidA "ex" assetExample bidC 7 "OLT" 90 bidY)).1 = .ok ∧
    (alookup bidY (step (bidEnv bidC 10) bidS3 (.create "" bidA "ex" assetExample bidC 7 "OLT" 90 bidY)).2.active).isSome = true ∧
    isClosed (step (bidEnv bidC 10) bidS3 (.create "" bidA "ex" assetExample bidC 7 "OLT" 90 bidY)).2 bidY = true ∧
    (let s4 := (step (bidEnv bidC 10) bidS3 (.create "" bidA "ex" assetExample bidC 7 "OLT" 90 bidY)).2
     let s5 := (step (bidEnv bidA 10) s4 (.expire bidY bidA)).2
     (alookup (stCancelled, bidY) s5.closed).isSome = true ∧ (alookup (stExpired, bidY) s5.closed).isSome = true ∧
     (alookup (bidY, tBid, 10) bidS3.ioffers).map (·.amount) = some 20 ∧
     (alookup (bidY, tBid, 10) s5.ioffers).map (·.amount) = some 7 ∧ total s5 = total bidS3) :=
  ⟨by decide, by decide, wf_of_wfB (by decide), by decide, by decide, by decide, by decide⟩

example : (Op.create "" bidA "ex" assetExample bidC 7 "OLT" 90 bidY).opensId = some bidY := by decide
example : (Op.cancel bidX bidB).opensId ≠ some bidY ∧ (Op.create "" bidA "ex" assetExample bidC 7 "OLT" 90 bidX).opensId ≠ some bidY := by decide

end OLP.Props.C02

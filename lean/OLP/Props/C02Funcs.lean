import OLP.Gen.Funcs
import OLP.Ledger.Model
import OLP.Stake.Model

/-!
# C02 — amount and coin arithmetic, tied to the source by translation (T2b)

`balance.Amount.Plus / Minus / IsZero / Equals / LessThan / CheckInRange` and `balance.Coin.Plus /
Minus / DivideInt64 / MultiplyInt64` are translated WHOLE from /repo's working tree. The ledger
model's two primitives are these functions: a debit fails exactly when `Coin.Minus` reports an
error (the difference is negative) and stores the difference otherwise; a credit stores
`Coin.Plus`, unconditionally. The three spellings of Go's `Int64()` that the models use
(`Ledger.wrap64`, `Stake.int64Of`, the generated `Funcs.wrap64`) are one function.
-/

namespace OLP.Props.C02

open OLP.Gen

/-- `Coin.Minus`: the difference, and an error exactly when it is negative — never a clamp -/
theorem coinMinus_spec (c v : Int) :
    Funcs.coinMinus c false v = (c - v, decide (c - v < 0)) := by
  unfold Funcs.coinMinus
  by_cases h : c - v < 0 <;> simp [h]

/-- a nil amount counts as zero in `Coin.Minus` -/
theorem coinMinus_nil (c v : Int) :
    Funcs.coinMinus c true v = (0 - v, decide (0 - v < 0)) := by
  unfold Funcs.coinMinus
  by_cases h : (0 : Int) < v <;> simp [h]

theorem coinPlus_spec (c v : Int) (n : Bool) : Funcs.coinPlus c n v = c + v := by
  simp [Funcs.coinPlus]

theorem amountMinus_spec (a v : Int) :
    Funcs.amountMinus a v = (a - v, decide (a - v < 0)) := by
  unfold Funcs.amountMinus
  by_cases h : a - v < 0 <;> simp [h]

theorem amountPlus_spec (a v : Int) : Funcs.amountPlus a v = a + v := by
  simp [Funcs.amountPlus]

theorem amount_predicates (a v : Int) :
    Funcs.amountIsZero a = decide (a = 0) ∧
    Funcs.amountEquals a v = decide (a = v) ∧
    Funcs.amountLessThan a v = decide (a < v) := by
  refine ⟨rfl, ?_, ?_⟩
  · unfold Funcs.amountEquals; by_cases h : a = v <;> simp [h]
  · unfold Funcs.amountLessThan; by_cases h : a < v <;> simp [h]

/-- the model's debit IS `Coin.Minus` of the source followed by the store of its result -/
theorem minusFrom_is_source (l : Ledger.L) (a : Ledger.Acc) (c : Int) :
    Ledger.minusFrom l a c =
      (match Funcs.coinMinus (Ledger.bal l a) false c with
       | (_, true) => .error .insufficient
       | (r, false) => .ok (Ledger.setBal l a r)) := by
  rw [coinMinus_spec]
  unfold Ledger.minusFrom
  by_cases h : Ledger.bal l a - c < 0 <;> simp [h]

/-- the model's credit IS `Coin.Plus` of the source followed by the store of its result -/
theorem addTo_is_source (l : Ledger.L) (a : Ledger.Acc) (c : Int) :
    Ledger.addTo l a c = Ledger.setBal l a (Funcs.coinPlus (Ledger.bal l a) false c) := by
  rw [coinPlus_spec]; rfl

/-- `DivideInt64` / `MultiplyInt64` on a present amount: Euclidean quotient, exact product -/
theorem coin_scale_spec (c k : Int) :
    Funcs.coinMultiplyInt64 c false k = c * k ∧ Funcs.coinDivideInt64 c false k = c / k := by
  simp [Funcs.coinMultiplyInt64, Funcs.coinDivideInt64]

/-- `CheckInRange`: below `min` is refused always, above `max` only when `max` is not the
    int64 sentinel -/
theorem checkInRange_spec (a lo hi : Int) :
    Funcs.amountCheckInRange a lo hi =
      if a < lo then (false, true)
      else if Funcs.wrap64 hi ≠ 9223372036854775807 ∧ hi < a then (false, true)
      else (true, false) := by
  unfold Funcs.amountCheckInRange
  by_cases h1 : a - lo < 0
  · have : a < lo := by omega
    simp [h1, this]
  · have h1' : ¬ a < lo := by omega
    by_cases h2 : Funcs.wrap64 hi ≠ 9223372036854775807
    · by_cases h3 : hi - a < 0
      · have : hi < a := by omega
        simp [h1, h1', h2, h3, this]
      · have : ¬ hi < a := by omega
        simp [h1, h1', h2, h3, this]
    · simp [h1, h1', h2]

/-- the two coin comparisons every "enough balance" test goes through: plain order on the amounts
    when both are present -/
theorem coin_comparisons_spec (c v : Int) :
    Funcs.coinLessThan c false v false = decide (c < v) ∧
    Funcs.coinLessThanEqual c false v false = decide (c ≤ v) := by
  unfold Funcs.coinLessThan Funcs.coinLessThanEqual
  constructor
  · by_cases h : c < v <;> simp [h]
  · by_cases h : c ≤ v <;> simp [h]

/-- a quirk of the source worth knowing (and harmless where the callers build their coins from
    store records, which are never nil): when EITHER amount is nil the LEFT one counts as zero -/
theorem coin_comparison_nil_quirk (c v : Int) :
    Funcs.coinLessThan c false v true = decide (0 < v) := by
  unfold Funcs.coinLessThan
  by_cases h : (0 : Int) < v <;> simp [h]

/-! ### one `Int64()` -/

theorem ledger_wrap64_is_source (x : Int) : Ledger.wrap64 x = Funcs.wrap64 x := by
  unfold Ledger.wrap64 Funcs.wrap64
  simp only
  split <;> omega

theorem stake_int64Of_is_source (x : Int) : Stake.int64Of x = Funcs.wrap64 x := by
  unfold Stake.int64Of Stake.wrapU Funcs.wrap64 Stake.two63 Stake.two64
  simp only
  split <;> (repeat' split) <;> omega

/-- `Coin.IsValid` (the switch of the source) for a present amount of a named currency is the
    model's validity test: the amount is not negative; a nil amount or a nameless currency is
    never valid -/
theorem isValid_is_source (c : Int) :
    Ledger.isValid c = Funcs.coinIsValid c false false ∧
    (∀ n, Funcs.coinIsValid c true n = false) ∧ (∀ a, Funcs.coinIsValid c a true = false) := by
  refine ⟨?_, ?_, ?_⟩
  · unfold Ledger.isValid Funcs.coinIsValid
    by_cases h : 0 ≤ c
    · have : c ≥ 0 := h
      simp [h, this]
    · have : ¬ c ≥ 0 := h
      simp [h, this]
  · intro n; simp [Funcs.coinIsValid]
  · intro a; cases a <;> simp [Funcs.coinIsValid]

/-- `Amount.ToCoinWithBase` of the ledger model is the source's `NewCoinFromInt` of `Int64()` of the
    value: the wrap-around comes first, then the multiplication by 10^decimals -/
theorem toCoinWithBase_is_source (value : Int) (decimals : Nat) :
    Ledger.toCoinWithBase value decimals = Funcs.newCoinFromInt (Funcs.wrap64 value) decimals := by
  unfold Ledger.toCoinWithBase Funcs.newCoinFromInt Funcs.currencyBase
  rw [ledger_wrap64_is_source]
  simp

/-- the stake model's whole-token conversion is the same function at 18 decimals -/
theorem stake_coinOf_is_source (a : Int) :
    Stake.coinOf a = Funcs.newCoinFromInt (Funcs.wrap64 a) 18 := by
  unfold Stake.coinOf Funcs.newCoinFromInt Funcs.currencyBase Stake.oltBase
  rw [stake_int64Of_is_source]
  have h : (10 : Int) ^ Int.toNat 18 = 1000000000000000000 := by decide
  simp only [h]

example : Funcs.coinMinus 5 false 7 = (-2, true) := by decide
example : Funcs.coinMinus 5 false (-7) = (12, false) := by decide   -- a negative coin adds
example : Funcs.wrap64 9223372036854775808 = -9223372036854775808 := by decide

end OLP.Props.C02

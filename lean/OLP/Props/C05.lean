/-
  C05 — At-most-once: a signed transaction never takes effect twice.
  The replay record of native transactions is the Tendermint tx index keyed by the hash of the
  *received bytes* (`T`); the shell is generic in the handlers.
-/
import OLP.Shell.LemmasA

namespace OLP.Props.C05
open OLP OLP.KV OLP.Shell

variable {K V C E T H D : Type} [DecidableEq K] [DecidableEq V] [DecidableEq C] [DecidableEq H]
variable (cfg : Cfg K V) (hs : Handlers K V C E T H D) (e : E)

/-- byte-identical resubmission of an indexed transaction: DeliverTx returns the recorded result
    and changes nothing -/
theorem replay_deliver_noop (n : Node K V C T H D) (tx : T) (r : TxRes D)
    (h : lookupIdx n.idx (hs.hash tx) = some r) : deliverTx cfg hs e n tx = (n, r) :=
  deliverTx_hit cfg hs e n tx r h

/-- … and the mempool check rejects it, changing nothing -/
theorem replay_check_rejected (n : Node K V C T H D) (tx : T) (r : TxRes D)
    (h : lookupIdx n.idx (hs.hash tx) = some r) : checkTx cfg hs e n tx = (n, false) :=
  checkTx_hit cfg hs e n tx r h

/-- every transaction of an executed block is in the index afterwards -/
theorem executed_tx_indexed (n : Node K V C T H D) (txs : List T) (tx : T) (hm : tx ∈ txs) :
    (lookupIdx (execBlock cfg hs e n txs).1.idx (hs.hash tx)).isSome :=
  execBlock_indexed cfg hs e n txs tx hm

/-- index entries are never lost or overwritten by later blocks -/
theorem index_is_stable (n : Node K V C T H D) (blocks : List (List T)) (h : H) (r : TxRes D)
    (hl : lookupIdx n.idx h = some r) :
    lookupIdx (execBlocks cfg hs e n blocks).1.idx h = some r :=
  execBlocks_lookup_stable cfg hs e blocks n h r hl

/-- history form: once a transaction was in a block, delivering the same bytes in any later block
    (after any further blocks) returns the recorded result and leaves the node untouched -/
theorem replay_noop_in_later_block (n : Node K V C T H D) (txs : List T) (later : List (List T))
    (tx : T) (hm : tx ∈ txs) :
    let n' := (execBlocks cfg hs e (execBlock cfg hs e n txs).1 later).1
    ∃ r, deliverTx cfg hs e n' tx = (n', r) ∧ checkTx cfg hs e n' tx = (n', false) := by
  intro n'
  have h1 := execBlock_indexed cfg hs e n txs tx hm
  obtain ⟨r, hr⟩ := Option.isSome_iff_exists.mp h1
  have h2 : lookupIdx n'.idx (hs.hash tx) = some r :=
    execBlocks_lookup_stable cfg hs e later _ _ r hr
  exact ⟨r, deliverTx_hit cfg hs e n' tx r h2, checkTx_hit cfg hs e n' tx r h2⟩

/-- `Canonical`: two byte strings the handlers cannot tell apart have the same hash. Under it the
    full statement (any re-encoding) holds … -/
def Canonical (hs : Handlers K V C E T H D) : Prop :=
  ∀ t₁ t₂, hs.deliver t₁ = hs.deliver t₂ → hs.hash t₁ = hs.hash t₂

theorem replay_any_encoding_noop_partial (hc : Canonical hs) (n : Node K V C T H D) (txs : List T)
    (later : List (List T)) (t₁ t₂ : T) (hm : t₁ ∈ txs) (hsame : hs.deliver t₁ = hs.deliver t₂) :
    let n' := (execBlocks cfg hs e (execBlock cfg hs e n txs).1 later).1
    ∃ r, deliverTx cfg hs e n' t₂ = (n', r) := by
  intro n'
  have h1 := execBlock_indexed cfg hs e n txs t₁ hm
  obtain ⟨r, hr⟩ := Option.isSome_iff_exists.mp h1
  have h2 : lookupIdx n'.idx (hs.hash t₁) = some r :=
    execBlocks_lookup_stable cfg hs e later _ _ r hr
  rw [hc t₁ t₂ hsame] at h2
  exact ⟨r, deliverTx_hit cfg hs e n' t₂ r h2⟩

/-! … but JSON is not canonical (S11): the counterexample in the model. Transactions are pairs
    (content, encoding); the handler only looks at the content, the hash at both. -/

def exCfg : Cfg Nat Nat := { tomb := 0, vlen := fun _ => 1, lt := fun a b => decide (a < b) }
def exH : Handlers Nat Nat Nat Unit (Nat × Nat) (Nat × Nat) Nat :=
  { hash := id, validate := fun _ => .ret (), check := fun _ => .ret 0,
    -- "add the content to the counter stored under key 1"
    deliver := fun tx => .get 1 (fun r => match r with
      | .val v => .set 1 (v.getD 0 + tx.1) (fun _ => .ret 0)
      | .errGas => .fail),
    fee := fun _ _ => .ret 0, begin := fun _ => [], endb := fun _ => [], gasLimit := 1000000 }
def exN : Node Nat Nat Nat (Nat × Nat) (Nat × Nat) Nat :=
  { tree := Tree.empty ⟨1, 0, 0⟩, dlv := Ov.fresh 1000000, chk := Ov.fresh 1000000, vol := fun _ => none,
    idx := [], aim := .check, height := 0, closed := false }

/-- the same content in a second encoding executes again: the counter ends at 10, not 5 -/
theorem reencoded_replay_executes_twice :
    let n1 := (execBlock exCfg exH () exN [(5, 0)]).1
    let n2 := (execBlock exCfg exH () n1 [(5, 1)]).1
    exH.deliver (5, 0) = exH.deliver (5, 1) ∧ n1.tree.get 1 = some 5 ∧ n2.tree.get 1 = some 10 := by
  refine ⟨rfl, ?_, ?_⟩ <;> decide

end OLP.Props.C05

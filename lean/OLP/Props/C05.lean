/-
  C05 — At-most-once: a signed transaction never takes effect twice.
  The replay record of native transactions is the Tendermint tx index keyed by the hash of the
  *received bytes* (`T`); the shell is generic in the handlers.
-/
import OLP.Shell.LemmasA
import OLP.Shell.LemmasEx

namespace OLP.Props.C05
open OLP OLP.KV OLP.Shell

set_option linter.unusedSectionVars false

variable {K V C E T H D : Type} [DecidableEq K] [DecidableEq V] [DecidableEq C] [DecidableEq H]
variable (cfg : Cfg K V) (hs : Handlers K V C E T H D) (e : E)

/-- byte-identical resubmission of an indexed transaction: DeliverTx returns the recorded result
    and changes nothing -/
theorem replay_deliver_noop (n : Node K V C T H D) (tx : T) (r : TxRes D)
    (h : lookupIdx n.idx (hs.hash tx) = some r) : deliverTx cfg hs e n tx = (n, r) :=
  deliverTx_hit cfg hs e n tx r h

/-- … and the mempool check rejects it, changing nothing -/
theorem replay_check_rejected (n : Node K V C T H D) (tx : T) (r : TxRes D)
    (h : lookupIdx n.idx (hs.hash tx) = some r) : checkTx cfg hs e n tx = (n, false) :=
  checkTx_hit cfg hs e n tx r h

/-- every transaction of an executed block is in the index afterwards -/
theorem executed_tx_indexed (n : Node K V C T H D) (txs : List T) (tx : T) (hm : tx ∈ txs) :
    (lookupIdx (execBlock cfg hs e n txs).1.idx (hs.hash tx)).isSome :=
  execBlock_indexed cfg hs e n txs tx hm

/-- index entries are never lost or overwritten by later blocks -/
theorem index_is_stable (n : Node K V C T H D) (blocks : List (List T)) (h : H) (r : TxRes D)
    (hl : lookupIdx n.idx h = some r) :
    lookupIdx (execBlocks cfg hs e n blocks).1.idx h = some r :=
  execBlocks_lookup_stable cfg hs e blocks n h r hl

/-- history form: once a transaction was in a block, delivering the same bytes in any later block
    (after any further blocks) returns the recorded result and leaves the node untouched -/
theorem replay_noop_in_later_block (n : Node K V C T H D) (txs : List T) (later : List (List T))
    (tx : T) (hm : tx ∈ txs) :
    let n' := (execBlocks cfg hs e (execBlock cfg hs e n txs).1 later).1
    ∃ r, deliverTx cfg hs e n' tx = (n', r) ∧ checkTx cfg hs e n' tx = (n', false) := by
  intro n'
  have h1 := execBlock_indexed cfg hs e n txs tx hm
  obtain ⟨r, hr⟩ := Option.isSome_iff_exists.mp h1
  have h2 : lookupIdx n'.idx (hs.hash tx) = some r :=
    execBlocks_lookup_stable cfg hs e later _ _ r hr
  exact ⟨r, deliverTx_hit cfg hs e n' tx r h2, checkTx_hit cfg hs e n' tx r h2⟩

/-- `Canonical`: two byte strings the handlers cannot tell apart have the same hash. Under it the
    full statement (any re-encoding) holds … -/
def Canonical (hs : Handlers K V C E T H D) : Prop :=
  ∀ t₁ t₂, hs.deliver t₁ = hs.deliver t₂ → hs.hash t₁ = hs.hash t₂

theorem replay_any_encoding_noop_partial (hc : Canonical hs) (n : Node K V C T H D) (txs : List T)
    (later : List (List T)) (t₁ t₂ : T) (hm : t₁ ∈ txs) (hsame : hs.deliver t₁ = hs.deliver t₂) :
    let n' := (execBlocks cfg hs e (execBlock cfg hs e n txs).1 later).1
    ∃ r, deliverTx cfg hs e n' t₂ = (n', r) := by
  intro n'
  have h1 := execBlock_indexed cfg hs e n txs t₁ hm
  obtain ⟨r, hr⟩ := Option.isSome_iff_exists.mp h1
  have h2 : lookupIdx n'.idx (hs.hash t₁) = some r :=
    execBlocks_lookup_stable cfg hs e later _ _ r hr
  rw [hc t₁ t₂ hsame] at h2
  exact ⟨r, deliverTx_hit cfg hs e n' t₂ r h2⟩

/-! ### the canonical-encoding guard

  `Canonical` is an assumption about hash and ProcessDeliver together, and the handlers of /repo do
  not meet it (`reencoded_replay_executes_twice` below). What they do since the repair of S11 is to
  refuse, in Validate, every byte string that is not THE serialisation of what it parses to. The
  theorem below is about handlers of that shape and assumes nothing else. -/

/-- `Guarded parse ser hs`: the handlers have the canonical-encoding guard. `parse` decodes the
    received bytes, `ser` is the serialiser; bytes `t` are canonical when `ser (parse t) = t`.
    The ONLY thing asked of the handlers: the Validate program of non-canonical bytes is `.fail`
    (it touches nothing and fails), i.e. `validate t = if ser (parse t) = t then … else .fail`
    (`guardV`). Nothing is asked of the hash, of ProcessCheck / ProcessDeliver / ProcessFee or of
    the block hooks, nor of `parse` and `ser` (they need not be inverse to each other). -/
def Guarded {P : Type} (parse : T → P) (ser : P → T) (hs : Handlers K V C E T H D) : Prop :=
  ∀ t, ser (parse t) ≠ t → hs.validate t = .fail

/-- the guard as a program: "if the received bytes are not the canonical serialisation of their
    parse then fail, else run the Validate program of the parse" -/
def guardV [DecidableEq T] {P : Type} (parse : T → P) (ser : P → T) (v : P → Prog K V C E Unit)
    (t : T) : Prog K V C E Unit :=
  if ser (parse t) = t then v (parse t) else .fail

theorem guarded_of_guardV [DecidableEq T] {P : Type} (parse : T → P) (ser : P → T)
    (v : P → Prog K V C E Unit) (h : hs.validate = guardV parse ser v) : Guarded parse ser hs := by
  intro t hne
  rw [h]
  unfold guardV
  rw [if_neg hne]

/-- At-most-once for ANY re-encoding, for handlers with the canonical-encoding guard.

    Assumptions on the handlers: `Guarded parse ser hs` and nothing else (no `Canonical`, no
    injectivity of the hash, nothing about ProcessDeliver). Assumptions on the transactions: `t₁`
    is canonical (`ser (parse t₁) = t₁`) and was in the block `txs`; `t₂` is any byte string with the
    same parse.

    Then, at any point of any later block (`later` are the blocks in between, `blk` / `k` the
    transactions of the current block delivered so far), `DeliverTx t₂` leaves tree, block cache,
    block gas, volatile memory, check state, index and height as they are, and
      * if `t₂ = t₁` it returns the response recorded for `t₁` and the node is untouched;
      * otherwise `t₂` is not canonical, and either its own bytes are in the index (then the
        response recorded for them is returned and the node is untouched: nothing runs), or it is
        refused with `ok = false`, no data, no gas (`replay_any_encoding_rejected_guarded` below
        shows that with a collision-free hash the recorded response has `ok = false` too);
    and `CheckTx t₂` answers `false`. -/
theorem replay_any_encoding_noop_guarded {P : Type} (parse : T → P) (ser : P → T)
    (hg : Guarded parse ser hs) (n : Node K V C T H D) (txs : List T) (later : List (List T))
    (blk : List T) (k : Nat) (t₁ t₂ : T) (hm : t₁ ∈ txs) (hc : ser (parse t₁) = t₁)
    (hp : parse t₂ = parse t₁) :
    let n' := midBlock cfg hs e (execBlocks cfg hs e (execBlock cfg hs e n txs).1 later).1 blk k false
    let x := deliverTx cfg hs e n' t₂
    (x.1.tree = n'.tree ∧ x.1.dlv.cache = n'.dlv.cache ∧ x.1.dlv.gas = n'.dlv.gas ∧
     x.1.vol = n'.vol ∧ x.1.chk = n'.chk ∧ x.1.idx = n'.idx ∧ x.1.height = n'.height) ∧
    ((t₂ = t₁ ∧ ∃ r, lookupIdx (execBlock cfg hs e n txs).1.idx (hs.hash t₁) = some r ∧ x = (n', r)) ∨
     (t₂ ≠ t₁ ∧ ((∃ r, lookupIdx n'.idx (hs.hash t₂) = some r ∧ x = (n', r)) ∨
                 x.2 = { ok := false, data := none, gasUsed := 0 }))) ∧
    (checkTx cfg hs e n' t₂).2 = false := by
  intro n' x
  have h1 := execBlock_indexed cfg hs e n txs t₁ hm
  obtain ⟨r, hr⟩ := Option.isSome_iff_exists.mp h1
  have h2 : lookupIdx n'.idx (hs.hash t₁) = some r := by
    show lookupIdx (midBlock cfg hs e _ blk k false).idx (hs.hash t₁) = some r
    rw [midBlock_idx]
    exact execBlocks_lookup_stable cfg hs e later _ _ r hr
  by_cases heq : t₂ = t₁
  · subst heq
    have hx : x = (n', r) := deliverTx_hit cfg hs e n' t₂ r h2
    refine ⟨?_, Or.inl ⟨rfl, r, hr, hx⟩, ?_⟩
    · rw [hx]; exact ⟨rfl, rfl, rfl, rfl, rfl, rfl, rfl⟩
    · rw [checkTx_hit cfg hs e n' t₂ r h2]
  · have hnc : ser (parse t₂) ≠ t₂ := by
      intro h; apply heq; rw [← h, hp, hc]
    have hv := hg t₂ hnc
    refine ⟨?_, Or.inr ⟨heq, ?_⟩, checkTx_validate_fail cfg hs e n' t₂ hv⟩
    · cases hl : lookupIdx n'.idx (hs.hash t₂) with
      | some r' =>
        have hx : x = (n', r') := deliverTx_hit cfg hs e n' t₂ r' hl
        rw [hx]; exact ⟨rfl, rfl, rfl, rfl, rfl, rfl, rfl⟩
      | none =>
        have hx : x = _ := deliverTx_validate_fail cfg hs e n' t₂ hv hl
        rw [hx]; exact ⟨rfl, rfl, rfl, rfl, rfl, rfl, rfl⟩
    · cases hl : lookupIdx n'.idx (hs.hash t₂) with
      | some r' => exact Or.inl ⟨r', rfl, deliverTx_hit cfg hs e n' t₂ r' hl⟩
      | none =>
        right
        show (deliverTx cfg hs e n' t₂).2 = _
        rw [deliverTx_validate_fail cfg hs e n' t₂ hv hl]

/-- every response the index holds for non-canonical bytes is a refusal -/
def IdxGuarded {P : Type} (parse : T → P) (ser : P → T) (hs : Handlers K V C E T H D)
    (idx : List (H × TxRes D)) : Prop :=
  ∀ t r, ser (parse t) ≠ t → lookupIdx idx (hs.hash t) = some r → r.ok = false

theorem idxGuarded_nil {P : Type} (parse : T → P) (ser : P → T) :
    IdxGuarded parse ser hs ([] : List (H × TxRes D)) := by
  intro t r _ h; cases h

/-- with the guard and a collision-free hash, executing a block keeps the index `IdxGuarded` -/
theorem execBlock_idxGuarded {P : Type} (parse : T → P) (ser : P → T) (hg : Guarded parse ser hs)
    (hinj : ∀ a b, hs.hash a = hs.hash b → a = b) (n : Node K V C T H D)
    (hi : IdxGuarded parse ser hs n.idx) (txs : List T) :
    IdxGuarded parse ser hs (execBlock cfg hs e n txs).1.idx := by
  intro t r hnc hl
  rw [execBlock_idx] at hl
  unfold lookupIdx at hl
  rw [alookup_append] at hl
  cases hold : alookup (hs.hash t) n.idx with
  | some v =>
    rw [hold] at hl
    simp only [Option.some.injEq] at hl
    subst hl
    exact hi t v hnc hold
  | none =>
    rw [hold] at hl
    simp only at hl
    have hmem := alookup_mem _ _ _ hl
    rw [List.mem_map] at hmem
    obtain ⟨⟨t', r'⟩, hz, hp⟩ := hmem
    simp only [Prod.mk.injEq] at hp
    obtain ⟨hh, rfl⟩ := hp
    have := hinj _ _ hh
    subst this
    obtain ⟨m, hm1, hm2⟩ := deliverAll_zip_mem cfg hs e txs _ _ _ hz
    have hmiss : lookupIdx m.idx (hs.hash t') = none := by
      rw [hm1, (beginBlock_frame cfg hs e n).2.1]; exact hold
    rw [hm2, deliverTx_validate_fail cfg hs e m t' (hg t' hnc) hmiss]

theorem execBlocks_idxGuarded {P : Type} (parse : T → P) (ser : P → T) (hg : Guarded parse ser hs)
    (hinj : ∀ a b, hs.hash a = hs.hash b → a = b) (blocks : List (List T)) (n : Node K V C T H D)
    (hi : IdxGuarded parse ser hs n.idx) :
    IdxGuarded parse ser hs (execBlocks cfg hs e n blocks).1.idx := by
  induction blocks generalizing n with
  | nil => exact hi
  | cons b bs ih =>
    show IdxGuarded parse ser hs (execBlocks cfg hs e (execBlock cfg hs e n b).1 bs).1.idx
    exact ih _ (execBlock_idxGuarded cfg hs e parse ser hg hinj n hi b)

/-- the sharp form: if, in addition, the hash is collision-free and the history started from an
    index that records only refusals for non-canonical bytes (the empty index of genesis does:
    `idxGuarded_nil`), then a re-encoding `t₂ ≠ t₁` of an executed transaction is ALWAYS answered
    with `ok = false`, and changes nothing -/
theorem replay_any_encoding_rejected_guarded {P : Type} (parse : T → P) (ser : P → T)
    (hg : Guarded parse ser hs) (hinj : ∀ a b, hs.hash a = hs.hash b → a = b)
    (n : Node K V C T H D) (hi : IdxGuarded parse ser hs n.idx) (txs : List T)
    (later : List (List T)) (blk : List T) (k : Nat) (t₁ t₂ : T) (hm : t₁ ∈ txs)
    (hc : ser (parse t₁) = t₁) (hp : parse t₂ = parse t₁) :
    let n' := midBlock cfg hs e (execBlocks cfg hs e (execBlock cfg hs e n txs).1 later).1 blk k false
    let x := deliverTx cfg hs e n' t₂
    (x.1.tree = n'.tree ∧ x.1.dlv.cache = n'.dlv.cache ∧ x.1.dlv.gas = n'.dlv.gas ∧
     x.1.vol = n'.vol ∧ x.1.chk = n'.chk ∧ x.1.idx = n'.idx ∧ x.1.height = n'.height) ∧
    ((t₂ = t₁ ∧ ∃ r, lookupIdx (execBlock cfg hs e n txs).1.idx (hs.hash t₁) = some r ∧ x = (n', r)) ∨
     (t₂ ≠ t₁ ∧ x.2.ok = false)) ∧
    (checkTx cfg hs e n' t₂).2 = false := by
  intro n' x
  obtain ⟨h1, h2, h3⟩ :=
    replay_any_encoding_noop_guarded cfg hs e parse ser hg n txs later blk k t₁ t₂ hm hc hp
  refine ⟨h1, ?_, h3⟩
  rcases h2 with h | ⟨hne, h⟩
  · exact Or.inl h
  · refine Or.inr ⟨hne, ?_⟩
    rcases h with ⟨r, hl, hx⟩ | hx
    · have hnc : ser (parse t₂) ≠ t₂ := by
        intro h; apply hne; rw [← h, hp, hc]
      have hi' : IdxGuarded parse ser hs n'.idx := by
        show IdxGuarded parse ser hs (midBlock cfg hs e _ blk k false).idx
        rw [midBlock_idx]
        exact execBlocks_idxGuarded cfg hs e parse ser hg hinj later _
          (execBlock_idxGuarded cfg hs e parse ser hg hinj n hi txs)
      show (deliverTx cfg hs e n' t₂).2.ok = false
      rw [hx]
      exact hi' t₂ r hnc hl
    · show (deliverTx cfg hs e n' t₂).2.ok = false
      rw [hx]

/-! … but JSON is not canonical (S11): the counterexample in the model. Transactions are pairs
    (content, encoding); the handler only looks at the content, the hash at both. -/

def exCfg : Cfg Nat Nat := { tomb := 0, vlen := fun _ => 1, lt := fun a b => decide (a < b) }
def exH : Handlers Nat Nat Nat Unit (Nat × Nat) (Nat × Nat) Nat :=
  { hash := id, validate := fun _ => .ret (), check := fun _ => .ret 0,
    -- "add the content to the counter stored under key 1"
    deliver := fun tx => .get 1 (fun r => match r with
      | .val v => .set 1 (v.getD 0 + tx.1) (fun _ => .ret 0)
      | .errGas => .fail),
    fee := fun _ _ => .ret 0, begin := fun _ => [], endb := fun _ => [], gasLimit := 1000000 }
def exN : Node Nat Nat Nat (Nat × Nat) (Nat × Nat) Nat :=
  { tree := Tree.empty ⟨1, 0, 0⟩, dlv := Ov.fresh 1000000, chk := Ov.fresh 1000000, vol := fun _ => none,
    idx := [], aim := .check, height := 0, closed := false }

/-- the same content in a second encoding executes again: the counter ends at 10, not 5 -/
theorem reencoded_replay_executes_twice :
    let n1 := (execBlock exCfg exH () exN [(5, 0)]).1
    let n2 := (execBlock exCfg exH () n1 [(5, 1)]).1
    exH.deliver (5, 0) = exH.deliver (5, 1) ∧ n1.tree.get 1 = some 5 ∧ n2.tree.get 1 = some 10 := by
  refine ⟨rfl, ?_, ?_⟩ <;> decide

/-! ## Non-vacuity

  Transactions are pairs (content, encoding), as above. The programs below really use the store:
  Validate burns the signature-check gas, ProcessDeliver reads the counter under key 1 (metered),
  writes it back increased by the content and then — content 0 only — fails after its write; the fee
  step reads the gas counter; a BeginBlock hook, aimed at the deliver state, records the height under
  key 7; the block gas limit is 10000. -/

def ctrDeliver (tx : Nat × Nat) : Prog Nat Nat Nat Unit Nat :=
  .get 1 (fun r => match r with
    | .val v => .set 1 (v.getD 0 + tx.1) (fun _ => if tx.1 = 0 then .fail else .ret tx.1)
    | .errGas => .fail)

/-! ### `Canonical`, not by accident: the replay key is the hash of the CONTENT

  Same handler as `exH` (it looks at the content only), but the hash ignores the encoding too: the
  model of a replay key computed from the canonical re-serialisation of the parsed transaction
  instead of from the received bytes. `Canonical` holds because the ProcessDeliver program
  determines the content (it writes it), and the content determines the hash. -/

def canH : Handlers Nat Nat Nat Unit (Nat × Nat) Nat Nat :=
  { hash := fun tx => tx.1, validate := fun _ => .burn 5 (.ret ()), check := fun _ => .ret 0,
    deliver := ctrDeliver,
    fee := fun _ g0 => .gas (fun g => .ret (g - g0)),
    begin := fun h => [(true, .set 7 h (fun _ => .ret ()))],
    endb := fun _ => [], gasLimit := 10000 }

def canN : Node Nat Nat Nat (Nat × Nat) Nat Nat :=
  { tree := Tree.empty ⟨1, 0, 0⟩, dlv := Ov.fresh 10000, chk := Ov.fresh 10000, vol := fun _ => none,
    idx := [], aim := .check, height := 0, closed := false }

theorem canH_canonical : Canonical canH := by
  intro t₁ t₂ h
  simp only [canH, ctrDeliver, Prog.get.injEq, true_and] at h
  have h' := congrFun h (.val none)
  simp only [Prog.set.injEq, true_and, Option.getD_none, Nat.zero_add] at h'
  exact h'.1

/-- `replay_any_encoding_noop_partial` applied: block 1 is `[(5,0), (0,0)]` (the second one fails
    after its write), block 2 is `[(3,0)]`; then content 5 in ANOTHER encoding is delivered -/
theorem canonical_instance :
    let n' := (execBlocks exCfg canH () (execBlock exCfg canH () canN [(5, 0), (0, 0)]).1 [[(3, 0)]]).1
    ∃ r, deliverTx exCfg canH () n' (5, 1) = (n', r) :=
  replay_any_encoding_noop_partial exCfg canH () canH_canonical canN [(5, 0), (0, 0)] [[(3, 0)]]
    (5, 0) (5, 1) (by decide) rfl

/-- … and what that looks like: the counter is 8 after the two blocks; a third block
    `[(4,0), (5,1), (5,0)]` adds 4 only — both the re-encoding `(5,1)` and the byte-identical `(5,0)`
    get the recorded response of block 1 and write nothing (compare
    `reencoded_replay_executes_twice`, where the hash sees the encoding) -/
theorem canonical_instance_facts :
    let r1 := execBlock exCfg canH () canN [(5, 0), (0, 0)]
    let n' := (execBlocks exCfg canH () r1.1 [[(3, 0)]]).1
    let r3 := execBlock exCfg canH () n' [(4, 0), (5, 1), (5, 0)]
    r1.2.results = [⟨true, some 5, 25⟩, ⟨false, none, 27⟩] ∧
    r1.2.log = [.set 7 1, .set 1 5, .save] ∧
    n'.tree.get 1 = some 8 ∧
    r3.2.results = [⟨true, some 4, 25⟩, ⟨true, some 5, 25⟩, ⟨true, some 5, 25⟩] ∧
    r3.2.log = [.set 7 3, .set 1 12, .save] ∧ r3.1.tree.get 1 = some 12 := by
  dsimp only
  decide

/-- `replay_noop_in_later_block` (no hypothesis) on the same history -/
example :
    let n' := (execBlocks exCfg canH () (execBlock exCfg canH () canN [(5, 0), (0, 0)]).1 [[(3, 0)]]).1
    ∃ r, deliverTx exCfg canH () n' (0, 0) = (n', r) ∧ checkTx exCfg canH () n' (0, 0) = (n', false) :=
  replay_noop_in_later_block exCfg canH () canN [(5, 0), (0, 0)] [[(3, 0)]] (0, 0) (by decide)

/-! ### the guard: `Guarded` holds where `Canonical` does not

  The hash is the hash of the received bytes again (`id`, collision-free), ProcessDeliver still looks
  at the content only — so `Canonical` FAILS — but Validate refuses every encoding other than 0. -/

def gdParse (t : Nat × Nat) : Nat := t.1
def gdSer (p : Nat) : Nat × Nat := (p, 0)

def gdH : Handlers Nat Nat Nat Unit (Nat × Nat) (Nat × Nat) Nat :=
  { hash := id, validate := guardV gdParse gdSer (fun _ => .burn 5 (.ret ())),
    check := fun _ => .ret 0, deliver := ctrDeliver,
    fee := fun _ g0 => .gas (fun g => .ret (g - g0)),
    begin := fun h => [(true, .set 7 h (fun _ => .ret ()))],
    endb := fun _ => [], gasLimit := 10000 }

def gdN : Node Nat Nat Nat (Nat × Nat) (Nat × Nat) Nat :=
  { tree := Tree.empty ⟨1, 0, 0⟩, dlv := Ov.fresh 10000, chk := Ov.fresh 10000, vol := fun _ => none,
    idx := [], aim := .check, height := 0, closed := false }

theorem gdH_guarded : Guarded gdParse gdSer gdH := guarded_of_guardV gdH gdParse gdSer (fun _ => .burn 5 (.ret ())) rfl

theorem gdH_not_canonical : ¬ Canonical gdH := by
  intro h
  have := h (5, 0) (5, 1) rfl
  simp [gdH] at this

/-- `replay_any_encoding_rejected_guarded` applied, all hypotheses proved: block 1 is
    `[(5,0), (0,0)]`, block 2 is `[(3,0)]`, and in block 3, after `(4,0)` was delivered, the
    re-encoding `(5,1)` of the executed `(5,0)` arrives -/
theorem guarded_instance :
    let n' := midBlock exCfg gdH ()
      (execBlocks exCfg gdH () (execBlock exCfg gdH () gdN [(5, 0), (0, 0)]).1 [[(3, 0)]]).1 [(4, 0)] 1 false
    let x := deliverTx exCfg gdH () n' (5, 1)
    (x.1.tree = n'.tree ∧ x.1.dlv.cache = n'.dlv.cache ∧ x.1.dlv.gas = n'.dlv.gas ∧
     x.1.vol = n'.vol ∧ x.1.chk = n'.chk ∧ x.1.idx = n'.idx ∧ x.1.height = n'.height) ∧
    (((5, 1) = ((5, 0) : Nat × Nat) ∧ ∃ r,
        lookupIdx (execBlock exCfg gdH () gdN [(5, 0), (0, 0)]).1.idx (gdH.hash (5, 0)) = some r ∧
        x = (n', r)) ∨
     ((5, 1) ≠ ((5, 0) : Nat × Nat) ∧ x.2.ok = false)) ∧
    (checkTx exCfg gdH () n' (5, 1)).2 = false :=
  replay_any_encoding_rejected_guarded exCfg gdH () gdParse gdSer gdH_guarded (fun _ _ h => h) gdN
    (idxGuarded_nil gdH gdParse gdSer) [(5, 0), (0, 0)] [[(3, 0)]] [(4, 0)] 1 (5, 0) (5, 1)
    (by decide) rfl rfl

/-- … and what that looks like. Block 1 already contains a re-encoding `(5,1)` behind `(5,0)`: it
    is refused (no gas, no data) and recorded as refused. In block 3 `(5,1)` comes back (index hit:
    the recorded refusal), `(5,0)` comes back (index hit: the recorded success, nothing runs) and a
    fresh re-encoding `(5,2)` is refused by the guard. The counter moves by 4 only; the block
    cache before and after each of the three is the same -/
theorem guarded_instance_facts :
    let r1 := execBlock exCfg gdH () gdN [(5, 0), (0, 0), (5, 1)]
    let n2 := (execBlocks exCfg gdH () r1.1 [[(3, 0)]]).1
    let r3 := execBlock exCfg gdH () n2 [(4, 0), (5, 1), (5, 0), (5, 2)]
    let m := midBlock exCfg gdH () n2 [(4, 0)] 1 false
    r1.2.results = [⟨true, some 5, 25⟩, ⟨false, none, 27⟩, ⟨false, none, 0⟩] ∧
    r1.2.log = [.set 7 1, .set 1 5, .save] ∧
    n2.tree.get 1 = some 8 ∧
    r3.2.results = [⟨true, some 4, 25⟩, ⟨false, none, 0⟩, ⟨true, some 5, 25⟩, ⟨false, none, 0⟩] ∧
    r3.2.log = [.set 7 3, .set 1 12, .save] ∧ r3.1.tree.get 1 = some 12 ∧
    m.dlv.cache = [(7, 3), (1, 12)] ∧
    (deliverTx exCfg gdH () m (5, 2)).1.dlv.cache = [(7, 3), (1, 12)] ∧
    (deliverTx exCfg gdH () m (5, 2)).1.dlv.gas = m.dlv.gas ∧
    (deliverTx exCfg gdH () m (5, 2)).2 = ⟨false, none, 0⟩ ∧
    (checkTx exCfg gdH () m (5, 2)).2 = false := by
  dsimp only
  decide


end OLP.Props.C05

/-
  C18 — No transaction input can crash or halt the node.
  Proof over a PARTIAL model: the crash sites of the coin arithmetic (data/balance/coin.go) and the
  guard idiom that protects them. Go runtime panics inside libraries (JSON / RLP / ABI decoding) are
  not modelled; they are searched by the child-process engine only (DESIGN §8).
-/
import OLP.Crash.Model

namespace OLP.Props.C18
open OLP.Crash

/-- an unknown currency yields the zero Coin, which is not valid -/
theorem toCoin_unknown (known : List String) (cur : String) (v : Int) (h : known.contains cur = false) :
    toCoin known cur v = { cur := "", amt := none } ∧ (toCoin known cur v).isValid = false := by
  have : toCoin known cur v = { cur := "", amt := none } := by
    unfold toCoin; rw [h]; rfl
  exact ⟨this, by rw [this]; rfl⟩

/-- coin arithmetic between two coins of the same currency with non-nil amounts never crashes -/
theorem minus_same_currency_never_crashes (a b : Coin) (hc : a.cur = b.cur) (hb : b.amt.isSome) :
    a.minus b ≠ .crash := by
  unfold Coin.minus
  cases hb' : b.amt with
  | none => simp [hb'] at hb
  | some y => simp [hc]; split <;> simp

theorem plus_same_currency_never_crashes (a b : Coin) (hc : a.cur = b.cur) (ha : a.amt.isSome)
    (hb : b.amt.isSome) : a.plus b ≠ .crash := by
  unfold Coin.plus
  cases ha' : a.amt with
  | none => simp [ha'] at ha
  | some x =>
    cases hb' : b.amt with
    | none => simp [hb'] at hb
    | some y => simp [hc]

/-- the guarded handler never crashes, whatever currency name and value the payload carries,
    provided the stored records are OLT coins with non-nil amounts (they are only ever written by
    these handlers, from valid OLT coins) -/
theorem guarded_undelegate_never_crashes (known : List String) (active pending : Coin) (cur : String)
    (v : Int) (ha : active.cur = "OLT") (hp : pending.cur = "OLT") (hpa : pending.amt.isSome) :
    undelegateGuarded known active pending cur v ≠ .crash := by
  unfold undelegateGuarded
  by_cases hv : (toCoin known cur v).isValid
  · by_cases ho : (toCoin known cur v).cur = "OLT"
    · simp only [hv, ho, Bool.not_true, bne_self_eq_false, Bool.false_eq_true, ↓reduceIte]
      unfold undelegateUnguarded
      have hsome : (toCoin known cur v).amt.isSome := by
        unfold Coin.isValid at hv
        cases h : (toCoin known cur v).amt with
        | none => simp [h] at hv
        | some _ => simp
      have h1 := minus_same_currency_never_crashes active (toCoin known cur v) (by rw [ha, ho]) hsome
      have h2 := plus_same_currency_never_crashes pending (toCoin known cur v) (by rw [hp, ho]) hpa hsome
      intro hcontra
      simp only at hcontra
      cases hm : active.minus (toCoin known cur v) with
      | crash => exact h1 hm
      | err => rw [hm] at hcontra; cases hcontra
      | ok rem =>
        rw [hm] at hcontra
        simp only at hcontra
        cases hq : pending.plus (toCoin known cur v) with
        | crash => exact h2 hq
        | err => rw [hq] at hcontra; cases hcontra
        | ok p => rw [hq] at hcontra; cases hcontra
    · simp [hv, ho]
  · simp [hv]

/-- without the guard one correctly signed transaction with an unknown currency exits the process
    (the defect repaired by "validate the amount of undelegate, reward withdrawal and reinvest") -/
theorem unguarded_undelegate_crashes :
    undelegateUnguarded ["OLT", "VT"] { cur := "OLT", amt := some 10 } { cur := "OLT", amt := some 0 } "XYZ" 5
      = .crash := by decide

/-- … and the guard turns exactly that input into an ordinary rejection -/
theorem guarded_undelegate_rejects_unknown_currency :
    undelegateGuarded ["OLT", "VT"] { cur := "OLT", amt := some 10 } { cur := "OLT", amt := some 0 } "XYZ" 5
      = .err := by decide

example : undelegateGuarded ["OLT"] { cur := "OLT", amt := some 10 } { cur := "OLT", amt := some 0 } "OLT" 4
    = .ok ({ cur := "OLT", amt := some 6 }, { cur := "OLT", amt := some 4 }) := by decide

end OLP.Props.C18

/-
  C11 — Stake lifecycle: unstaked funds unlock only after maturity, exactly once.

    "An amount staked with a validator can be withdrawn by its delegator only after it has been
     unstaked and the configured maturity period has elapsed; for every delegator the sum of
     what was ever withdrawn never exceeds what was staked minus penalties, nothing can be
     withdrawn or unstaked while the validator is frozen, and the validator's recorded stake
     always equals the sum of its delegators' locked amounts."

  Property theorems only (helper lemmas: OLP/Stake/*.lean).  All statements are about the
  executable model `OLP.Stake` (OLP/Stake/Model.lean), which the `stake` correspondence engine
  compares step by step with the real application on every run.

  A history is a list of blocks run from the empty state (`St.empty maturity`, height 0); every
  block is BeginBlock, any list of transactions (`Tx`: the three staking kinds *with their
  `Validate`*, genesis stake entries, and the environment: freeze / release / allegation request /
  maturity option change / any other balance movement), EndBlock with the verdicts and purges
  decided there, Commit.  Ghost accumulators (fields `g…` of the state) record what was staked,
  withdrawn, slashed, scheduled and unlocked; they are written by the model and never read by it.

  Clauses and status (model of /repo as repaired by 9ac9bcb, 626f990, df2e1ab, 92417eb, d8b47b0, acb5e5c,
  ebb3d1d, 7abde80, d2f2af2)
    1. frozen guard ............................. full strength for the named validator
                                                  (`frozen_blocks_all_three`) and for the stake
                                                  account of any frozen validator, whatever validator
                                                  the message names (`frozen_owner_cannot_withdraw`)
    2. maturity, exactly once ................... full strength under the maturity-option
                                                  well-formedness (`unlock_exactly_at_maturity`)
    3. withdrawn ≤ staked − penalties ........... full strength (amounts outside int64 are refused
                                                  by `Validate`; necessity: `int64_guard_is_necessary`)
    4. validator record = Σ locked amounts ...... full strength: the three defects found here
                                                  (KF-C11-1, -2, -3) are repaired and no hypothesis
                                                  forced by a defect is left (`tot_eq_sum_vd`,
                                                  `eff_eq_sum_vd`, `record_matches_validator`,
                                                  `only_stake_address_holds_stake`; regression examples
                                                  `restake_after_zero_keeps_record`, `slash_survives_purge`,
                                                  `slash_charges_current_stake_address`).  What remains
                                                  are well-formedness hypotheses: a finite address
                                                  universe, the supply bound staking < 2^63, sane genesis
                                                  entries (one stake address per validator), verdict
                                                  lists without duplicates, 0 ≤ penalty ≤ total.
-/
import OLP.Stake.Lemmas

namespace OLP.Props.C11
open OLP.Stake

/-- the configuration the harness uses (penalty 30 %) -/
def cfg30 : Cfg := { pen := penalty30 }

/-! ## 1. Nothing can be staked, unstaked or withdrawn while the named validator is frozen -/

/-- all three handlers refuse a frozen validator and leave the state untouched -/
theorem frozen_blocks_all_three (s : St) (v d : Addr) (a : Int) (hf : s.frozen v = true) :
    ((stepTx s (.stake v d a)).1 = s ∧ (stepTx s (.stake v d a)).2 ≠ .ok) ∧
    ((stepTx s (.unstake v d a)).1 = s ∧ (stepTx s (.unstake v d a)).2 ≠ .ok) ∧
    ((stepTx s (.withdraw v d a)).1 = s ∧ (stepTx s (.withdraw v d a)).2 ≠ .ok) := by
  refine ⟨?_, ?_, ?_⟩
  · rcases txStake_cases s v d a with h | ⟨_, _, _, hf', _⟩
    · exact h
    · rw [hf] at hf'; simp at hf'
  · rcases txUnstake_cases s v d a with h | ⟨r, _, _, _, _, hf', _⟩
    · exact h
    · rw [hf] at hf'; simp at hf'
  · rcases txWithdraw_cases s v d a with h | ⟨_, _, _, _, hf', _⟩
    · exact h
    · rw [hf] at hf'; simp at hf'

/-- a pending allegation request blocks unstaking — since d2f2af2 also a request opened earlier
    in the same block (`CheckRequestExists` sees the pending keys of the block: `Tx.allege` takes
    effect at once) -/
theorem pending_allegation_blocks_unstake (s : St) (v d : Addr) (a : Int) (hr : s.req v = true) :
    (stepTx s (.unstake v d a)).1 = s ∧ (stepTx s (.unstake v d a)).2 ≠ .ok := by
  rcases txUnstake_cases s v d a with h | ⟨r, _, _, _, _, _, hr', _⟩
  · exact h
  · rw [hr] at hr'; simp at hr'

/-- df2e1ab + 92417eb: the withdrawable amount is kept per stake address, so WITHDRAW also
    refuses the stake account of a frozen validator, whatever validator the message names.  The
    guard goes over the validator records the store iteration enumerates (`iterVals`: every
    record that existed at the last Commit — a record created in the running block is not
    enumerated, but STAKE refuses a frozen validator, so such a record is not frozen) and asks
    the point lookup `frozen` for each. -/
theorem frozen_owner_cannot_withdraw (s : St) (v w d : Addr) (a : Int) (r : VRec)
    (hs : v ∈ s.iterVals) (hr : s.vals v = some r) (hsa : r.sa = d) (hf : s.frozen v = true) :
    (stepTx s (.withdraw w d a)).1 = s ∧ (stepTx s (.withdraw w d a)).2 ≠ .ok := by
  rcases txWithdraw_cases s w d a with h | ⟨_, _, _, _, _, hfo, _⟩
  · exact h
  · exfalso
    have : frozenOwner s d = true := by
      unfold frozenOwner
      rw [List.any_eq_true]
      exact ⟨v, hs, by simp [hr, hsa, hf]⟩
    rw [this] at hfo; simp at hfo

/-- the guard does not overreach: with no frozen validator among the enumerated records of the
    stake address, a WITHDRAW within the withdrawable amount goes through -/
example :
    let e := St.empty 2
    let s : St := { e with frozen := fun v => decide (v = 1), iterVals := [1, 4],
                           vals := fun v => if v = 1 then some ⟨10, 10, 2⟩
                                            else if v = 4 then some ⟨3, 3, 6⟩ else none,
                           bnd := fun _ => 5 }
    (stepTx s (.withdraw 4 6 3)).2 = .ok ∧ (stepTx s (.withdraw 4 2 3)).2 = .mismatch ∧
    (stepTx s (.withdraw 7 2 3)).2 = .frozen := by
  decide

/-! ## 2. Withdrawable only after unstake + maturity, exactly once -/

/-- a WITHDRAW succeeds only within the withdrawable (bounded) amount, debits exactly the amount
    from it and credits exactly amount × 10^18 to the delegator -/
theorem withdraw_needs_bounded (s : St) (v d : Addr) (a : Int)
    (hok : (stepTx s (.withdraw v d a)).2 = .ok) :
    0 < a ∧ a ≤ s.bnd d ∧
    (stepTx s (.withdraw v d a)).1.bnd d = s.bnd d - a ∧
    (stepTx s (.withdraw v d a)).1.bal d = s.bal d + a * oltBase := by
  rcases txWithdraw_cases s v d a with h | ⟨h0, _, hc, _, _, _, hb, he⟩
  · exact absurd hok h.2
  · simp only [stepTx]
    rw [he]
    simp [withdrawOk, hc, h0, hb]

/-- no transaction other than the delegator's own successful WITHDRAW changes a withdrawable
    amount -/
theorem bounded_changes_only_by_own_withdraw (s : St) (t : Tx) (d : Addr) :
    (stepTx s t).1.bnd d = s.bnd d ∨
    ∃ v a, t = .withdraw v d a ∧ 0 < a ∧ a ≤ s.bnd d ∧ (stepTx s t).1.bnd d = s.bnd d - a := by
  generalize he : (stepTx s t).1 = s'
  have e : TxEffect s t s' := he ▸ stepTx_effect s t
  cases e with
  | withdraw v d' a h0 hlt hc ho hf hfo hb =>
    by_cases hd : d = d'
    · subst hd
      right
      exact ⟨v, a, rfl, h0, hb, by simp [withdrawOk]⟩
    · left; simp [withdrawOk, upd_apply, hd]
  | _ => left; rfl

theorem beginBlock_keeps_bounded (s : St) (h : Int) : (beginBlock s h).bnd = s.bnd := rfl

/-- EndBlock of height h credits exactly the entries stored under h (nothing at height 1) and
    empties that list: nothing is credited early, nothing twice -/
theorem endBlock_credits_current_height (c : Cfg) (s : St) (g p dl : List Addr) (d : Addr) :
    (endBlock c s g p dl).bnd d =
      s.bnd d + (if s.height ≤ 1 then 0 else amtOf d (s.mat s.height)) ∧
    (1 < s.height → (endBlock c s g p dl).mat s.height = []) ∧
    (∀ k, k ≠ s.height → (endBlock c s g p dl).mat k = s.mat k) := by
  unfold endBlock
  by_cases h1 : s.height ≤ 1
  · simp [h1]; intro h; omega
  · simp only [h1, if_false]
    have hb : ∀ (g : List Addr) (s : St), (g.foldl (slash c) s).bnd = s.bnd := by
      intro g
      induction g with
      | nil => intro s; rfl
      | cons v t ih =>
        intro s
        simp only [List.foldl_cons]
        rw [ih]
        cases hp : s.prev v with
        | none => rw [slash_none c s v hp]
        | some r' => rw [slash_some c s v r' hp]; simp [minus_fst]
    obtain ⟨f1, _⟩ := foldSlash_mat c (updateWithdrawReward (writePurge (deleteZeroPower s dl) p) s.height) g
    refine ⟨?_, ?_, ?_⟩
    · rw [hb, uwr_bnd]; rfl
    · intro _; rw [f1]; simp [updateWithdrawReward]
    · intro k hk; rw [f1]; simp [updateWithdrawReward, upd_apply, hk]; rfl

/-- the ghost schedule is written by successful UNSTAKEs only: amount `a` for the height
    `height + maturity` as they are *at the time of the unstake* -/
theorem schedule_only_from_unstake (s : St) (t : Tx) (k : Int) (d : Addr) :
    (stepTx s t).1.gSched k d = s.gSched k d ∨
    ∃ v a, t = .unstake v d a ∧ (stepTx s t).2 = .ok ∧ k = s.height + s.maturity ∧ 0 < a ∧
      a ≤ s.vd v d ∧ (stepTx s t).1.gSched k d = s.gSched k d + a := by
  cases t with
  | unstake v d' a =>
    rcases txUnstake_cases s v d' a with h | ⟨r, hv, hsa, h0, hlt, hf, hr, h1, h2, h3, hp, he⟩
    · left; simp only [stepTx]; rw [h.1]
    · simp only [stepTx]
      rw [he]
      by_cases hc : k = s.height + s.maturity ∧ d = d'
      · right
        obtain ⟨hk, hd⟩ := hc
        subst hd
        exact ⟨v, a, rfl, rfl, hk, h0, h2, by subst hk; simp [unstakeOk]⟩
      · left; simp only [unstakeOk, upd2_apply, hc, if_false]
  | stake v d' a =>
    left
    rcases txStake_cases s v d' a with h | ⟨_, _, _, _, _, _, he⟩
    · simp only [stepTx]; rw [h.1]
    · simp only [stepTx]; rw [he]; rfl
  | withdraw v d' a =>
    left
    rcases txWithdraw_cases s v d' a with h | ⟨_, _, _, _, _, _, _, he⟩
    · simp only [stepTx]; rw [h.1]
    · simp only [stepTx]; rw [he]; rfl
  | genesisStake v d' a =>
    left
    rcases runGenesisStake_cases s v d' a with h | ⟨_, he⟩
    · simp only [stepTx]; rw [h.1]
    · simp only [stepTx]; rw [he]; rfl
  | _ => left; rfl

/-- the maturity option is never negative, and at least 1 during block 1 (EndBlock does not
    process maturities at height 1); governance only admits 109200 … 468000 -/
def MaturityOK (c : Cfg) (m : Int) (bs : List Block) : Prop :=
  1 ≤ m ∧ RunOK MatGuard (fun _ _ => True) c (St.empty m) bs

/-- **Maturity, exactly once.**  After any history:
    * the withdrawable amount of every delegator is what was unlocked minus what was withdrawn;
    * what was unlocked is exactly the schedule of the heights whose EndBlock has run
      (2 … height), where the schedule of height k is the sum of the successful unstakes made at
      heights h₀ with h₀ + maturity(h₀) = k (`schedule_only_from_unstake`);
    * the maturing lists of those heights are empty, and the lists of the coming heights hold
      exactly the scheduled amounts.
    Hence an unstaked amount becomes withdrawable at the end of block h₀ + maturity(h₀), not
    before and not a second time. -/
theorem unlock_exactly_at_maturity (c : Cfg) (m : Int) (bs : List Block) (hg : MaturityOK c m bs) :
    let s := run c (St.empty m) bs
    (∀ d, s.bnd d = s.gUnlocked d - s.gWithdrawn d) ∧
    (∀ d, s.gUnlocked d = sumL (spentKeys s.height) (fun k => s.gSched k d)) ∧
    (∀ k, k ≤ s.height → s.mat k = []) ∧
    (∀ k d, s.height < k → 2 ≤ k → amtOf d (s.mat k) = s.gSched k d) := by
  have key := run_induction (G := MatGuard) (B := fun _ _ => True) (c := c)
    (fun s => SchedB s ∧ UnlockedIsSchedule s ∧ MatInv s)
    (fun s b hI hG =>
      ⟨(schedB_execBlock c hI.1 b hG.1).1, unlockedIsSchedule_execBlock c hI.1 hI.2.1 b hG.1,
        matInv_execBlock c hI.2.2 b⟩)
    (St.empty m) bs
    ⟨schedB_empty m hg.1, by intro d; simp [St.empty, spentKeys, sumL], matInv_empty m⟩ hg.2
  obtain ⟨⟨hs, hpos⟩, hu, hm⟩ := key
  refine ⟨hm.bnd, hu, ?_, ?_⟩
  · intro k hk
    apply hs.past
    unfold lowKey; split <;> omega
  · intro k d hk h2
    apply hs.future
    unfold lowKey; split <;> omega

/-! ## 3. Withdrawn never exceeds staked minus penalties -/

/-- genesis entries carry sane amounts (nothing validates the genesis document) -/
def GenesisOK (bs : List Block) : Prop := ∀ b ∈ bs, b.GenesisSane

/-- per delegator conservation law, for every history whatsoever (no hypothesis):
    locked + maturing + withdrawable + withdrawn + slashed = staked -/
theorem conservation (c : Cfg) (m : Int) (bs : List Block) (d : Addr) :
    let s := run c (St.empty m) bs
    s.eff d + s.gMaturing d + s.bnd d + s.gWithdrawn d + s.gPenal d = s.gStaked d :=
  cons_run c (cons_empty m) bs d

/-- no stake record is ever negative -/
theorem bounded_nonneg (c : Cfg) (m : Int) (bs : List Block) (hg : GenesisOK bs) :
    NonNeg (run c (St.empty m) bs) :=
  nonNeg_run c (nonNeg_empty m) bs hg

/-- **record side**: what a delegator withdrew never exceeds what it staked minus what was
    slashed from it -/
theorem withdrawn_le_staked_minus_penalty (c : Cfg) (m : Int) (bs : List Block) (hg : GenesisOK bs)
    (d : Addr) :
    let s := run c (St.empty m) bs
    s.gWithdrawn d ≤ s.gStaked d - s.gPenal d := by
  have hc := conservation c m bs d
  have hn := bounded_nonneg c m bs hg
  have hm := gMaturing_nonneg (matInv_run c (matInv_empty m) bs) hn d
  have h1 := hn.eff d
  have h2 := hn.bnd d
  show (run c (St.empty m) bs).gWithdrawn d ≤
    (run c (St.empty m) bs).gStaked d - (run c (St.empty m) bs).gPenal d
  simp only at hc
  omega

/-- **balance side**: the coins credited by WITHDRAW never exceed the coins debited by STAKE
    (genesis stake counted as paid by the genesis document) minus the slashed tokens × 10^18 -/
theorem paid_out_le_paid_in_minus_penalty (c : Cfg) (m : Int) (bs : List Block) (hg : GenesisOK bs)
    (d : Addr) :
    let s := run c (St.empty m) bs
    s.gPaidOut d ≤ s.gPaidIn d - s.gPenal d * oltBase := by
  have hp := paid_run c (paid_empty m) bs d
  have hw := withdrawn_le_staked_minus_penalty c m bs hg d
  show (run c (St.empty m) bs).gPaidOut d ≤
    (run c (St.empty m) bs).gPaidIn d - (run c (St.empty m) bs).gPenal d * oltBase
  simp only at hw
  rw [hp.1, hp.2, ← Int.sub_mul]
  exact Int.mul_le_mul_of_nonneg_right hw (by decide)

/-- Necessity of the int64 guard of `Validate` (commit 9ac9bcb; this was suspect S4, confirmed
    on the implementation before the fix).  The handler alone — `runWithdraw`, what DeliverTx
    executed before — accepts the amount −(2^64−1), whose int64 truncation is +1: an account
    that never staked is credited 1 token, its withdrawable record becomes 2^64−1, and a second
    ordinary WITHDRAW pays out 1000 more.  With the guard both are refused. -/
theorem int64_guard_is_necessary :
    let s0 := St.empty 2
    let a : Int := -(two64 - 1)
    let s1 := (runWithdraw s0 9 2 a).1
    let s2 := (runWithdraw s1 9 2 1000).1
    (runWithdraw s0 9 2 a).2 = .ok ∧ s1.bnd 2 = two64 - 1 ∧ s1.bal 2 = oltBase ∧
    (runWithdraw s1 9 2 1000).2 = .ok ∧ s2.gPaidOut 2 = 1001 * oltBase ∧ s2.gPaidIn 2 = 0 ∧
    (stepTx s0 (.withdraw 9 2 a)).2 = .invalidamount := by
  decide

/-! ## 4. The validator's recorded stake equals the sum of its delegators' locked amounts

      ∀ history, ∀ v,  tot v = Σ_d vd v d   ∧   eff d = Σ_v vd v d   ∧
                       (validator record of v).staking = tot v + (slash postponed to the next
                       BeginBlock)   (no record: tot v = 0)

  Proved for every history under hypotheses that are not forced by any defect (`RecordsOK`):
  a duplicate-free universe `U` containing the addresses the history stakes with; the supply
  bound (`staking < 2^63`: `calculatePower` is `Int64()`); genesis entries with sane amounts and
  one stake address per validator; verdict lists without duplicates (`CleanTracker`); the penalty
  function satisfies 0 ≤ pen t ≤ t.

  Three defects of the code used to break this clause; all are repaired and no longer assumed:
  KF-C11-2 (d8b47b0: the current record decides the deletion of a powerless record), KF-C11-1
  (acb5e5c: the postponed unstake ignores the purge rule), KF-C11-3 (ebb3d1d: a verdict charges
  the current stake address; 7abde80: MinusFromAddress writes all three amounts or none). -/

/-- the hypotheses of the clause-4 theorems (none forced by a defect) -/
def RecordsOK (U : List Addr) (c : Cfg) (m : Int) (bs : List Block) : Prop :=
  U.Nodup ∧ PenOK c ∧ RunOK (RecGuard U) EndGuard c (St.empty m) bs

theorem tot_eq_sum_vd (U : List Addr) (c : Cfg) (m : Int) (bs : List Block)
    (hg : RecordsOK U c m bs) (v : Addr) :
    let s := run c (St.empty m) bs
    s.tot v = sumL U (fun d => s.vd v d) ∧ ∀ d, d ∉ U → s.vd v d = 0 := by
  have h := (rec_run hg.1 hg.2.1 (rec_empty U m) (boundary_empty m) (nonNeg_empty m) bs hg.2.2).1
  refine ⟨h.sumV v, ?_⟩
  intro d hd
  by_cases h0 : (run c (St.empty m) bs).vd v d = 0
  · exact h0
  · exact absurd (h.sup v d h0).2 hd

theorem eff_eq_sum_vd (U : List Addr) (c : Cfg) (m : Int) (bs : List Block)
    (hg : RecordsOK U c m bs) (d : Addr) :
    let s := run c (St.empty m) bs
    s.eff d = sumL U (fun v => s.vd v d) ∧ ∀ v, v ∉ U → s.vd v d = 0 := by
  have h := (rec_run hg.1 hg.2.1 (rec_empty U m) (boundary_empty m) (nonNeg_empty m) bs hg.2.2).1
  refine ⟨h.sumD d, ?_⟩
  intro v hv
  by_cases h0 : (run c (St.empty m) bs).vd v d = 0
  · exact h0
  · exact absurd (h.sup v d h0).1 hv

/-- the validator record carries the locked total; the slash decided in the EndBlock just
    executed reaches the record at the next BeginBlock (`delayHandleUnstake`), which is the
    explicit `pendOf` term; a validator without record has nothing locked -/
theorem record_matches_validator (U : List Addr) (c : Cfg) (m : Int) (bs : List Block)
    (hg : RecordsOK U c m bs) (v : Addr) :
    let s := run c (St.empty m) bs
    match s.vals v with
    | some r => r.staking = s.tot v + pendOf s v ∧ r.power = r.staking
    | none => s.tot v = 0 := by
  have h := (rec_run hg.1 hg.2.1 (rec_empty U m) (boundary_empty m) (nonNeg_empty m) bs hg.2.2).1
  intro s
  cases hv : s.vals v with
  | none => exact h.absent v hv
  | some r => exact ⟨(h.staking v r hv).1, (h.staking v r hv).2.1⟩

/-- only the current stake address of a validator holds stake with it -/
theorem only_stake_address_holds_stake (U : List Addr) (c : Cfg) (m : Int)
    (bs : List Block) (hg : RecordsOK U c m bs) (v d : Addr) :
    let s := run c (St.empty m) bs
    s.vd v d ≠ 0 → ∃ r, s.vals v = some r ∧ r.sa = d :=
  (rec_run hg.1 hg.2.1 (rec_empty U m) (boundary_empty m) (nonNeg_empty m) bs hg.2.2).1.single v d

/-- regression example for KF-C11-3 (repaired by ebb3d1d + 7abde80;
    corpus/C11/kf3_slash_charges_previous_stake_address.script): delegator 2 stakes 10 with
    validator 1 (genesis), unstakes everything and withdraws it; in block 5 delegator 3 stakes 10
    with validator 1 under its own address (allowed: the old address is clean) and validator 1 is
    found guilty in the same block.  The slash is charged to the current stake address 3 (before
    the repair: to address 2 of the previous block's record, which left total 7 / delegation 10). -/
theorem slash_charges_current_stake_address :
    let s := run cfg30 (St.empty 1)
      [ ⟨[.credit 3 (100 * oltBase), .genesisStake 1 2 10], [], [], []⟩,
        ⟨[.unstake 1 2 10], [], [], []⟩,
        ⟨[], [], [], []⟩,
        ⟨[.withdraw 1 2 10], [], [], []⟩,
        ⟨[.stake 1 3 10], [1], [], []⟩ ]
    s.tot 1 = 7 ∧ s.vd 1 3 = 7 ∧ s.vd 1 2 = 0 ∧ s.eff 3 = 7 ∧ s.gPenal 3 = 3 ∧
    s.vals 1 = some ⟨10, 10, 3⟩ ∧ pendOf s 1 = 3 := by
  decide

/-- regression example for KF-C11-2 (repaired by d8b47b0; corpus/C11/kf2_restake_after_zero.script):
    unstake everything in block 2, stake 5 again in block 3 — the record stays, even when the
    election would allow the deletion, and the stake can be unstaked -/
theorem restake_after_zero_keeps_record :
    let s := run cfg30 (St.empty 2)
      [ ⟨[.credit 2 (100 * oltBase), .genesisStake 1 2 10], [], [], []⟩,
        ⟨[.unstake 1 2 10], [], [], [1]⟩,
        ⟨[.stake 1 2 5], [], [], [1]⟩ ]
    s.vals 1 = some ⟨5, 5, 2⟩ ∧ s.tot 1 = 5 ∧ s.vd 1 2 = 5 ∧ s.eff 2 = 5 ∧
    (stepTx (beginBlock s 4) (.unstake 1 2 5)).2 = .ok := by
  decide

/-- regression example for KF-C11-1 (repaired by acb5e5c; corpus/C11/kf1_slash_dropped_by_purge.script):
    guilty and purged in the same EndBlock 2 — the postponed unstake reaches the record in
    BeginBlock 3 -/
theorem slash_survives_purge :
    let s := run cfg30 (St.empty 2)
      [ ⟨[.genesisStake 1 2 10], [], [], []⟩,
        ⟨[], [1], [1], []⟩,
        ⟨[], [], [], []⟩ ]
    s.vals 1 = some ⟨7, 7, 2⟩ ∧ s.tot 1 = 7 ∧ pendOf s 1 = 0 := by
  decide

/-- a powerless record is deleted once the election allows it, and only then -/
theorem powerless_record_deleted_when_settled :
    let bs : List Block :=
      [ ⟨[.genesisStake 1 2 10], [], [], []⟩, ⟨[.unstake 1 2 10], [], [], []⟩, ⟨[], [], [], []⟩ ]
    (run cfg30 (St.empty 2) bs).vals 1 = some ⟨0, 0, 2⟩ ∧
    (run cfg30 (St.empty 2) (bs ++ [⟨[], [], [], [1]⟩])).vals 1 = none := by
  decide

/-! ## Non-vacuity: the hypotheses are met by non-trivial histories -/

/-- a complete lifecycle: genesis stake 10, a paid stake of 4, unstake 6 in block 2 (maturity 2),
    unlock at the end of block 4, withdraw 5 in block 5; a guilty verdict with a purge in block 3 -/
def exHistory : List Block :=
  [ ⟨[.credit 2 (100 * oltBase), .genesisStake 1 2 10, .stake 1 2 4], [], [], []⟩,
    ⟨[.unstake 1 2 6], [], [], []⟩,
    ⟨[.allege 1], [1], [1], []⟩,
    ⟨[.release 1, .withdraw 1 2 1], [], [], []⟩,
    ⟨[.withdraw 1 2 5], [], [], [1]⟩ ]

example :
    let s := run cfg30 (St.empty 2) exHistory
    s.height = 5 ∧ s.gStaked 2 = 14 ∧ s.gWithdrawn 2 = 5 ∧ s.gPenal 2 = 2 ∧ s.bnd 2 = 1 ∧
    s.eff 2 = 6 ∧ s.tot 1 = 6 ∧ s.vals 1 = some ⟨6, 6, 2⟩ ∧ s.gSched 4 2 = 6 ∧
    s.bal 2 = (100 - 4 + 5) * oltBase := by
  decide

example : GenesisOK exHistory := by
  intro b hb
  simp only [exHistory, List.mem_cons, List.mem_nil_iff, or_false] at hb
  rcases hb with rfl | rfl | rfl | rfl | rfl <;> intro t ht <;>
    simp only [List.mem_cons, List.mem_nil_iff, or_false] at ht
  · rcases ht with rfl | rfl | rfl <;> simp [Tx.GenesisSane]; decide
  · subst ht; simp [Tx.GenesisSane]
  · subst ht; simp [Tx.GenesisSane]
  · rcases ht with rfl | rfl <;> simp [Tx.GenesisSane]
  · subst ht; simp [Tx.GenesisSane]

example : PenOK cfg30 := penalty30_ok

/-- the lifecycle above satisfies the hypotheses of the clause-4 theorems … -/
example : RecordsOK [1, 2] cfg30 2 exHistory := ⟨by decide, penalty30_ok, by decide⟩

/-- … and of the maturity theorem, also with changes of the maturity option (to 0 and to 3) -/
example : MaturityOK cfg30 2 exHistory := ⟨by decide, by decide⟩

example : MaturityOK cfg30 1
    [ ⟨[.credit 2 (100 * oltBase), .genesisStake 1 2 10], [], [], []⟩,
      ⟨[.setMaturity 0, .unstake 1 2 3], [], [], []⟩,
      ⟨[.setMaturity 3, .unstake 1 2 2, .withdraw 1 2 3], [], [], []⟩ ] := ⟨by decide, by decide⟩

/-- the histories that needed a forced hypothesis before the repairs satisfy the guards now -/
example : RecordsOK [1, 2] cfg30 2
    [ ⟨[.credit 2 (100 * oltBase), .genesisStake 1 2 10], [], [], []⟩,
      ⟨[.unstake 1 2 10], [], [], [1]⟩,
      ⟨[.stake 1 2 5], [], [], [1]⟩ ] := ⟨by decide, penalty30_ok, by decide⟩

example : RecordsOK [1, 2] cfg30 2
    [ ⟨[.genesisStake 1 2 10], [], [], []⟩, ⟨[], [1], [1], []⟩, ⟨[], [], [], []⟩ ] :=
  ⟨by decide, penalty30_ok, by decide⟩

example : RecordsOK [1, 2, 3] cfg30 1
    [ ⟨[.credit 3 (100 * oltBase), .genesisStake 1 2 10], [], [], []⟩,
      ⟨[.unstake 1 2 10], [], [], []⟩,
      ⟨[], [], [], []⟩,
      ⟨[.withdraw 1 2 10], [], [], []⟩,
      ⟨[.stake 1 3 10], [1], [], []⟩ ] := ⟨by decide, penalty30_ok, by decide⟩

/-- the hypotheses are not vacuous: a verdict list with a duplicate, or a stake beyond the supply
    bound, violates them -/
example : ¬ RunOK (RecGuard [1, 2]) EndGuard cfg30 (St.empty 2)
    [ ⟨[.genesisStake 1 2 10], [], [], []⟩, ⟨[], [1, 1], [], []⟩ ] := by decide

example : ¬ RunOK (RecGuard [1, 2]) EndGuard cfg30 (St.empty 2)
    [ ⟨[.credit 2 (two63 * oltBase), .genesisStake 1 2 10, .stake 1 2 (two63 - 5)], [], [], []⟩ ] := by
  decide

end OLP.Props.C11

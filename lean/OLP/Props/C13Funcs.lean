import OLP.Gen.Funcs
import OLP.Rewards.Model

/-!
# C13 — the reward split and the per-block amount, tied to the source by translation (T2b)

`OLP.Gen.Funcs` is regenerated from /repo's working tree on every run: `getRewardForValidator` is
translated whole, the assignments of `handleDelegationRewards` and of `Calculate` with the
temporaries they depend on inlined and the named constants (`COMMISSION_PERCENTAGE`,
`BLOCK_PROPOSER_COMMISSION`) resolved by go/types. The theorems say that the hand-written model's
formulas ARE those definitions: a changed factor, divisor, constant or operand order in the
source breaks a theorem named here.
-/

namespace OLP.Props.C13

open OLP.Rewards
open OLP.Gen

theorem rewardFor_is_source (P p T : Int) :
    rewardFor P p T = Funcs.getRewardForValidator P p T := rfl

/-- the three amounts of `handleDelegationRewards` are the source's assignments, in the source's
    order of dependence: T·D/P, then 25 % of it, then 20 % of that -/
theorem delegSplit_amounts_are_source (T D P : Int) (active : List (Addr × Int)) :
    let dr0 := Funcs.delegationRewards T D P
    let comm := Funcs.delegationCommission dr0
    let pr := Funcs.proposerReward comm
    (delegSplit T D P active).delegRewards = dr0 - comm ∧
    (delegSplit T D P active).proposerReward = pr ∧
    (0 ≤ dr0 - comm → (delegSplit T D P active).commission = comm - pr) := by
  simp only [delegSplit, Funcs.delegationRewards, Funcs.delegationCommission, Funcs.proposerReward]
  refine ⟨?_, ?_, ?_⟩
  · split
    · rfl
    · split <;> rfl
  · split
    · rfl
    · split <;> rfl
  · intro h
    split
    · omega
    · split <;> rfl

/-- every credit of the delegator loop is the source's `delegatorReward` of what was left after the
    commission -/
theorem delegSplit_credits_are_source (T D P : Int) (active : List (Addr × Int)) (a : Addr) (x : Int)
    (h : (a, x) ∈ (delegSplit T D P active).credits) :
    ∃ amt, (a, amt) ∈ active ∧
      x = Funcs.delegatorReward (delegSplit T D P active).delegRewards amt D := by
  have hd : (delegSplit T D P active).delegRewards
      = T * D / P - 25 * (T * D / P) / 100 := by
    simp only [delegSplit]; split
    · rfl
    · split <;> rfl
  rw [hd]
  simp only [delegSplit] at h
  simp only [Funcs.delegatorReward]
  by_cases h1 : T * D / P - 25 * (T * D / P) / 100 < 0
  · rw [if_pos h1] at h; simp at h
  · rw [if_neg h1] at h
    by_cases h2 : 25 * (T * D / P) / 100 - 20 * (25 * (T * D / P) / 100) / 100 < 0
    · rw [if_pos h2] at h; simp at h
    · rw [if_neg h2] at h
      simp only [List.mem_map] at h
      obtain ⟨p, hp, heq⟩ := h
      refine ⟨p.2, ?_, ?_⟩
      · have : p.1 = a := (Prod.mk.inj heq).1
        rw [← this]; exact hp
      · exact ((Prod.mk.inj heq).2).symm

/-- the amount per block a recalculation hands out is the source's quotient of what is left of the
    year by the forecast number of blocks -/
theorem recalc_amount_is_source (e : Env) (years : List Year) (c : Cache) (h : Int) (a : Int) (c' : Cache)
    (hr : recalc e years c h = .ok a c') (hn : (numMoreBlocks e years h).1 ≠ 0) :
    ∃ supply yr, e.o.shares[(numMoreBlocks e years h).2.toNat]? = some supply ∧
      years[(numMoreBlocks e years h).2.toNat]? = some yr ∧
      a = Funcs.rewardPerBlock (supply - yr.till) (numMoreBlocks e years h).1 := by
  unfold recalc at hr
  simp only [hn, if_false] at hr
  split at hr
  · rename_i supply yr hs hy
    refine ⟨supply, yr, hs, hy, ?_⟩
    split at hr
    · cases hr
    · injection hr with h1 _
      exact h1.symm
  · cases hr

/-- `getCycleNo` as a whole function (all three results at once) is the model's cycle arithmetic -/
theorem getCycleNo_is_source (o : Opts) (h : Int) :
    Funcs.rewardGetCycleNo h o.cycle = (cycleNo o h, firstInCycle o h, lastInCycle o h) := by
  unfold Funcs.rewardGetCycleNo cycleNo firstInCycle lastInCycle
  simp only [Prod.mk.injEq, true_and]
  constructor
  · by_cases h1 : Int.tmod (h - 1) o.cycle = 0 <;> simp [h1]
  · by_cases h2 : Int.tmod h o.cycle = 0 <;> simp [h2]

end OLP.Props.C13

import OLP.Gen.Arith
import OLP.Eth.Model

/-!
# C15 — arithmetic leaves tied to the source by translation (T2)

`OLP/Gen/Arith.lean` is regenerated from /repo's working tree on every run: the vote threshold of
`Tracker.Finalized` / `Tracker.Failed` as the source computes it. The model's `Tracker.threshold`
is proved to be that expression; an edit of the formula in the source changes the generated
definition and breaks these theorems.
-/

namespace OLP.Props.C15

open OLP.Eth

theorem threshold_is_source_finalized (t : Tracker) :
    (t.threshold : Int) = OLP.Gen.Arith.trackerFinalizedNum t.witnesses.length := by
  unfold Tracker.threshold OLP.Gen.Arith.trackerFinalizedNum
  have h : (((t.witnesses.length * 2 / 3 + 1 : Nat)) : Int) =
      ((t.witnesses.length : Int) * 2) / 3 + 1 := by
    push_cast; rfl
  rw [h, Int.tdiv_eq_ediv_of_nonneg (by omega)]

theorem threshold_is_source_failed (t : Tracker) :
    (t.threshold : Int) = OLP.Gen.Arith.trackerFailedNum t.witnesses.length := by
  rw [threshold_is_source_finalized]; rfl

end OLP.Props.C15
